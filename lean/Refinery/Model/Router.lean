import Refinery.Gen.Router
/-!
# Model of `route.Router.processEvent`  (property C19; shared with C16/C17's router half)

`processEvent` (route/route.go) decides, for one event received on the incoming or on the peer
listener, which single path handles it.  The model follows the code's order of tests:

1. `ev.Data.ExtractMetadata()` — an error is returned to the caller (`parseError`);
2. `MetaRefineryProbe.HasValue && .Value` — the event is a probe from another refinery: dropped;
3. `MetaTraceID == ""` — not part of a trace: `UpstreamTransmission.EnqueueEvent(ev)`;
4. `Collector.Stressed()` — `ProcessSpanImmediately(span)`; processed ∧ ¬kept: nothing more;
   processed ∧ kept: the collector has sent the span upstream itself; the router makes a *copy*
   of the event (`probe := *ev`), marks the copy as a probe (`MetaRefineryProbe.Set(true)`) and
   continues with the copy, so the event object queued upstream is not touched any more;
5. `!Sharder.WhichShard(id).Equals(Sharder.MyShard())` — `ev.APIHost = target address`,
   `PeerTransmission.EnqueueEvent(ev)` (also for the stress probe);
6. the stress probe of a locally owned trace is skipped;
7. `Collector.AddSpan` (incoming listener) or `Collector.AddSpanFromPeer` (peer listener); an error
   (`collect.ErrWouldBlock`: queue full) is returned to the caller.

The incoming and the peer router run the same function: the only difference is step 7 (and usage
metrics).  In particular the peer router also sends events without a trace id upstream, drops
probes, and forwards a span it does not own to the owner once more (no hop limit in the code).

Metadata extraction (`types.Payload.ExtractMetadata` for payloads built from a Go map — single
event and OTLP handlers — and `extractCriticalFieldsFromBytes` for msgpack payloads — batch
handler) is modelled for the four dedicated metadata fields the router path reads or writes
(`meta.trace_id`, `meta.refinery.probe`, `meta.refinery.root`, `meta.stressed`; names regenerated
from the code's constants) and the configured trace-id / parent-id field names.

Parameters (not modelled, quantified over): the sharder (`owner : trace id → address`, `self`),
the collector's stress state and decision, whether a collector queue is full.

Aliasing (DESIGN §3.3): on every path but the stress probe the sinks receive the *same* event
object.  A `Call` records the state of the object handed over at the moment of the call,
`Result.final` the state of the *received* event object when `processEvent` returns — which is
what a transmission that still holds that pointer (the upstream one, for a span kept by stress
relief) will eventually send.  The stress probe is a separate object.
-/
namespace Refinery.Model.Router
open Refinery.Gen.Router

inductive Val where
  | str (s : String)
  | int (i : Int)
  | bool (b : Bool)
  | nil
  deriving Repr, DecidableEq

abbrev Fields := List (String × Val)

/-- The dedicated metadata fields of `types.Payload` the router path touches.
`tid = ""` is "no trace id" (Go zero value); the nullable bools are `Option Bool`. -/
structure Meta where
  tid : String := ""
  probe : Option Bool := none
  root : Option Bool := none
  stressed : Option Bool := none
  deriving Repr, DecidableEq

/-- `Config.GetTraceIdFieldNames()` / `GetParentIdFieldNames()` -/
structure Names where
  trace : List String := []
  parent : List String := []
  deriving Repr

def isMetaKey (k : String) : Bool :=
  k == metaTraceID || k == metaProbe || k == metaRoot || k == metaStressed

/-- `metadataField.set` / `unmarshalMsgp` guarded by the expected type: `some m'` when the key is
one of the dedicated fields *and* the value has the expected type.  An empty `meta.trace_id` is no
trace id: it leaves the id found so far in place. -/
def setMeta (m : Meta) (k : String) (v : Val) : Option Meta :=
  if k = metaTraceID then
    match v with | .str s => some (if s = "" then m else { m with tid := s }) | _ => none
  else if k = metaProbe then
    match v with | .bool b => some { m with probe := some b } | _ => none
  else if k = metaRoot then
    match v with | .bool b => some { m with root := some b } | _ => none
  else if k = metaStressed then
    match v with | .bool b => some { m with stressed := some b } | _ => none
  else none

/-- state of the scan in `extractCriticalFieldsFromBytes`: the dedicated fields, the best
candidate from a configured trace-id field (`traceIDFromField`) and its configured index
(`traceIDFieldIdx`, initially the number of configured names) -/
structure Scan where
  m : Meta
  cand : String
  idx : Nat
  deriving Repr

/-- one map entry in `extractCriticalFieldsFromBytes` (msgpack payloads, in byte order): among
the configured trace-id fields the one with the lowest configured index wins, wherever it stands -/
def stepMsgp (nm : Names) (st : Scan) (kv : String × Val) : Scan :=
  match setMeta st.m kv.1 kv.2 with
  | some m' => { st with m := m' }
  | none =>
    match kv.2 with
    | .str s =>
      if kv.1 ∈ nm.trace ∧ nm.trace.idxOf kv.1 < st.idx then
        (if s ≠ "" then { st with cand := s, idx := nm.trace.idxOf kv.1 } else st)
      else if kv.1 ∈ nm.parent then
        (if s ≠ "" then { st with m := { st.m with root := some false } } else st)
      else st
    | _ => st

/-- one entry of `memoizedFields` in `ExtractMetadata` (payloads built from a Go map): dedicated
fields and the parent id; the trace id from configured fields is looked up after the loop -/
def stepMap (nm : Names) (m : Meta) (kv : String × Val) : Meta :=
  if isMetaKey kv.1 then (setMeta m kv.1 kv.2).getD m
  else if kv.1 ∈ nm.parent then
    match kv.2 with
    | .str s => if s ≠ "" then { m with root := some false } else m
    | _ => m
  else m

/-- `memoizedFields[name].(string)`, "" when absent or not a string -/
def lookupStr (fs : Fields) (n : String) : String :=
  match fs.find? (fun kv => kv.1 == n) with
  | some (_, .str s) => s
  | _ => ""

/-- the value of the first configured trace-id field that holds a non-empty string -/
def firstConfigured (fs : Fields) : List String → String
  | [] => ""
  | n :: t => if lookupStr fs n ≠ "" then lookupStr fs n else firstConfigured fs t

/-- How the payload was built: from a Go map, from msgpack bytes, or from bytes that do not
parse (the event is not well formed). -/
inductive Enc where
  | map | msgp | bad
  deriving Repr, DecidableEq

structure Event where
  host : String
  key : String
  ds : String
  env : String
  rate : Nat
  ts : String
  enc : Enc
  fields : Fields
  deriving Repr

/-- both extraction paths start with `MetaRefineryRoot.Set(true)` on a fresh payload -/
def meta0 : Meta := { root := some true }

/-- The trace id is `meta.trace_id` when the event carries a non-empty one, otherwise the value
of the configured trace-id field that is listed first. -/
def extract (enc : Enc) (nm : Names) (fs : Fields) : Meta :=
  match enc with
  | .map =>
    let m := fs.foldl (stepMap nm) meta0
    if m.tid = "" then { m with tid := firstConfigured fs nm.trace } else m
  | _ =>
    let st := fs.foldl (stepMsgp nm) { m := meta0, cand := "", idx := nm.trace.length }
    if st.m.tid = "" then { st.m with tid := st.cand } else st.m

def metaOf (ev : Event) (nm : Names) : Meta := extract ev.enc nm ev.fields

/-- the client's fields outside the dedicated metadata names (those are re-emitted from the
dedicated fields by `MarshalMsg`, which is C20's subject) -/
def clientFields (ev : Event) : Fields := ev.fields.filter (fun kv => !isMetaKey kv.1)

inductive Kind where
  | incoming | peer
  deriving Repr, DecidableEq

/-- `Collector.Stressed()` and the answer of `ProcessSpanImmediately`:
`off` not stressed; `skip` stressed, processed = false; `drop` processed, not kept; `keep` processed, kept. -/
inductive Stress where
  | off | skip | drop | keep
  deriving Repr, DecidableEq

structure Ctx where
  kind : Kind
  nm : Names
  self : String                -- `Sharder.MyShard().GetAddress()`
  owner : String → String      -- `Sharder.WhichShard(id).GetAddress()`
  stress : Stress
  inFull : Bool                -- `AddSpan` would block
  peerFull : Bool              -- `AddSpanFromPeer` would block

inductive Outcome where
  | parseError
  | discardProbe
  | upstreamUnsampled
  | stressDrop
  | stressKeep (probeTo : Option String)
  | peerForward (addr : String)
  | collectorIncoming
  | collectorPeer
  | queueFull
  deriving Repr, DecidableEq

/-- The routing decision, in the code's order. -/
def route (ev : Event) (c : Ctx) : Outcome :=
  if ev.enc = .bad then .parseError
  else if (metaOf ev c.nm).probe = some true then .discardProbe
  else if (metaOf ev c.nm).tid = "" then .upstreamUnsampled
  else
    match c.stress with
    | .drop => .stressDrop
    | .keep =>
      if c.owner (metaOf ev c.nm).tid = c.self then .stressKeep none
      else .stressKeep (some (c.owner (metaOf ev c.nm).tid))
    | _ =>
      if c.owner (metaOf ev c.nm).tid = c.self then
        match c.kind with
        | .incoming => if c.inFull then .queueFull else .collectorIncoming
        | .peer => if c.peerFull then .queueFull else .collectorPeer
      else .peerForward (c.owner (metaOf ev c.nm).tid)

/-! ## Effects: which sink is called with what -/

/-- the event object (`*types.Event`) as the sinks see it -/
structure Obj where
  host : String
  key : String
  ds : String
  env : String
  rate : Nat
  ts : String
  md : Meta
  fields : Fields
  deriving Repr, DecidableEq

inductive Sink where
  | up          -- UpstreamTransmission.EnqueueEvent, called by the router
  | upColl      -- upstream EnqueueSpan made by the collector inside ProcessSpanImmediately (kept)
  | peer        -- PeerTransmission.EnqueueEvent
  | collIn      -- Collector.AddSpan
  | collPeer    -- Collector.AddSpanFromPeer
  deriving Repr, DecidableEq

structure Call where
  sink : Sink
  accepted : Bool      -- false: the collector answered ErrWouldBlock
  obj : Obj            -- state of the event object when the call was made
  deriving Repr, DecidableEq

inductive Err where
  | none | invalid | wouldBlock
  deriving Repr, DecidableEq

structure Result where
  calls : List Call
  err : Err
  final : Obj          -- state of the received event object when processEvent returns
  deriving Repr, DecidableEq

def obj0 (ev : Event) (nm : Names) : Obj :=
  { host := ev.host, key := ev.key, ds := ev.ds, env := ev.env, rate := ev.rate, ts := ev.ts,
    md := metaOf ev nm, fields := clientFields ev }

def collSink : Kind → Sink
  | .incoming => .collIn
  | .peer => .collPeer

def Obj.stressed (o : Obj) : Obj := { o with md := { o.md with stressed := some true } }
def Obj.asProbe (o : Obj) : Obj := { o with md := { o.md with probe := some true } }
def Obj.toHost (o : Obj) (a : String) : Obj := { o with host := a }

def effects (o : Obj) (k : Kind) : Outcome → Result
  | .parseError => ⟨[], .invalid, o⟩
  | .discardProbe => ⟨[], .none, o⟩
  | .upstreamUnsampled => ⟨[⟨.up, true, o⟩], .none, o⟩
  | .stressDrop => ⟨[], .none, o⟩
  | .stressKeep none => ⟨[⟨.upColl, true, o.stressed⟩], .none, o.stressed⟩
  | .stressKeep (some a) =>
    ⟨[⟨.upColl, true, o.stressed⟩, ⟨.peer, true, (o.stressed.asProbe).toHost a⟩], .none,
      o.stressed⟩
  | .peerForward a => ⟨[⟨.peer, true, o.toHost a⟩], .none, o.toHost a⟩
  | .collectorIncoming => ⟨[⟨.collIn, true, o⟩], .none, o⟩
  | .collectorPeer => ⟨[⟨.collPeer, true, o⟩], .none, o⟩
  | .queueFull => ⟨[⟨collSink k, false, o⟩], .wouldBlock, o⟩

def process (ev : Event) (c : Ctx) : Result := effects (obj0 ev c.nm) c.kind (route ev c)

/-- number of `ProcessSpanImmediately` consultations: once for every span while stressed -/
def immCalls (ev : Event) (c : Ctx) : Nat :=
  if ev.enc = .bad then 0
  else if (metaOf ev c.nm).probe = some true then 0
  else if (metaOf ev c.nm).tid = "" then 0
  else if c.stress = .off then 0 else 1

/-! ## The dataset name across a listener hop

An event crosses a listener as `POST <host>/1/batch/<segment>`: the sender
(`transmit.buildRequestURL`) writes `segment = url.PathEscape(dataset)`, the receiver
(`route.getDatasetFromRequest`) reads the mux variable (the router uses `UseEncodedPath`, so it is
the segment as sent) and applies `url.PathUnescape`.  Both are modelled on bytes (`Nat < 256`).
`url.JoinPath`'s path cleaning, the HTTP request line and gorilla/mux are not modelled: the harness
reports the segment the mux presents (`ext seg`). -/

def isAlnum (c : Nat) : Bool :=
  (48 ≤ c && c ≤ 57) || (65 ≤ c && c ≤ 90) || (97 ≤ c && c ≤ 122)

/-- Go `net/url.shouldEscape(c, encodePathSegment)`: unreserved `A-Za-z0-9-_.~` and the
sub-delims `$ & + : = @` stay; `/ ; , ?` and every other byte are escaped. -/
def shouldEscape (c : Nat) : Bool :=
  !(isAlnum c || c == 45 || c == 95 || c == 46 || c == 126 ||
    c == 36 || c == 38 || c == 43 || c == 58 || c == 61 || c == 64)

/-- upper-case hex digit of `n < 16` (`"0123456789ABCDEF"[n]`) -/
def hexDigit (n : Nat) : Nat := if n < 10 then 48 + n else 55 + n

def isHex (c : Nat) : Bool :=
  (48 ≤ c && c ≤ 57) || (65 ≤ c && c ≤ 70) || (97 ≤ c && c ≤ 102)

def unhex (c : Nat) : Nat :=
  if 48 ≤ c && c ≤ 57 then c - 48 else if 97 ≤ c && c ≤ 102 then c - 87 else c - 55

/-- `url.PathEscape` -/
def pathEscape : List Nat → List Nat
  | [] => []
  | c :: t =>
    if shouldEscape c then 37 :: hexDigit (c / 16) :: hexDigit (c % 16) :: pathEscape t
    else c :: pathEscape t

/-- `url.PathUnescape`: `%XX` decoded, a `%` not followed by two hex digits is an error (`none`),
every other byte — `+` included — is copied. -/
def pathUnescape : List Nat → Option (List Nat)
  | [] => some []
  | c :: t =>
    if c = 37 then
      match t with
      | h1 :: h2 :: t' =>
        if isHex h1 && isHex h2 then (pathUnescape t').map (fun r => (16 * unhex h1 + unhex h2) :: r)
        else none
      | _ => none
    else (pathUnescape t).map (fun r => c :: r)

/-- `route.getDatasetFromRequest` on the mux variable: empty ⇒ "missing dataset name" -/
def datasetOf (seg : List Nat) : Option (List Nat) :=
  if seg = [] then none else pathUnescape seg

/-- the byte string split at every `/` -/
def splitSlash : List Nat → List (List Nat)
  | [] => [[]]
  | c :: t =>
    match splitSlash t with
    | [] => [[]]                       -- unreachable: the result is never empty
    | s :: r => if c = 47 then [] :: s :: r else (c :: s) :: r

/-- `"/1/batch/" ++ ds`, read as a path, is changed by path cleaning: an empty segment before the
last one (`//`, or a leading `/`), or a `.` / `..` segment.  The sender's `url.JoinPath` cleans the
dot segments `.`/`..` away; for the rest the receiving gorilla/mux *root* router — which, unlike
the `/1/` subrouter, does not use the encoded path — sees the decoded path (`%2F` → `/`), finds it
unclean and answers `301` instead of calling the handler. -/
def unclean (ds : List Nat) : Bool :=
  (splitSlash ds).any (fun s => s == [46] || s == [46, 46]) || (splitSlash ds).dropLast.any (fun s => s == [])

/-- one listener hop of a dataset name, as the code does it now: `none` = the event is not handed
to the event/batch handler under any dataset. -/
def hop (ds : List Nat) : Option (List Nat) :=
  if unclean ds then none else datasetOf (pathEscape ds)

end Refinery.Model.Router
