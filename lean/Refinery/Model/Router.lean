import Refinery.Gen.Router
/-!
# Model of `route.Router.processEvent`  (property C19; shared with C16/C17's router half)

`processEvent` (route/route.go) decides, for one event received on the incoming or on the peer
listener, which single path handles it.  The model follows the code's order of tests:

1. `ev.Data.ExtractMetadata()` — an error is returned to the caller (`parseError`);
2. `MetaRefineryProbe.HasValue && .Value` — the event is a probe from another refinery: dropped;
3. `MetaTraceID == ""` — not part of a trace: `UpstreamTransmission.EnqueueEvent(ev)`;
4. `Collector.Stressed()` — `ProcessSpanImmediately(span)`; processed ∧ ¬kept: nothing more;
   processed ∧ kept: the collector has sent the span upstream itself, the router marks *the same
   event object* as a probe (`MetaRefineryProbe.Set(true)`);
5. `!Sharder.WhichShard(id).Equals(Sharder.MyShard())` — `ev.APIHost = target address`,
   `PeerTransmission.EnqueueEvent(ev)` (also for the stress probe);
6. the stress probe of a locally owned trace is skipped;
7. `Collector.AddSpan` (incoming listener) or `Collector.AddSpanFromPeer` (peer listener); an error
   (`collect.ErrWouldBlock`: queue full) is returned to the caller.

The incoming and the peer router run the same function: the only difference is step 7 (and usage
metrics).  In particular the peer router also sends events without a trace id upstream, drops
probes, and forwards a span it does not own to the owner once more (no hop limit in the code).

Metadata extraction (`types.Payload.ExtractMetadata` for payloads built from a Go map — single
event and OTLP handlers — and `extractCriticalFieldsFromBytes` for msgpack payloads — batch
handler) is modelled for the four dedicated metadata fields the router path reads or writes
(`meta.trace_id`, `meta.refinery.probe`, `meta.refinery.root`, `meta.stressed`; names regenerated
from the code's constants) and the configured trace-id / parent-id field names.

Parameters (not modelled, quantified over): the sharder (`owner : trace id → address`, `self`),
the collector's stress state and decision, whether a collector queue is full.

Aliasing (DESIGN §3.3): every sink receives the *same* event object.  A `Call` records the
object's state at the moment of the call, `Result.final` its state when `processEvent` returns —
which is what a transmission that still holds the pointer will eventually send.
-/
namespace Refinery.Model.Router
open Refinery.Gen.Router

inductive Val where
  | str (s : String)
  | int (i : Int)
  | bool (b : Bool)
  | nil
  deriving Repr, DecidableEq

abbrev Fields := List (String × Val)

/-- The dedicated metadata fields of `types.Payload` the router path touches.
`tid = ""` is "no trace id" (Go zero value); the nullable bools are `Option Bool`. -/
structure Meta where
  tid : String := ""
  probe : Option Bool := none
  root : Option Bool := none
  stressed : Option Bool := none
  deriving Repr, DecidableEq

/-- `Config.GetTraceIdFieldNames()` / `GetParentIdFieldNames()` -/
structure Names where
  trace : List String := []
  parent : List String := []
  deriving Repr

def isMetaKey (k : String) : Bool :=
  k == metaTraceID || k == metaProbe || k == metaRoot || k == metaStressed

/-- `metadataField.set` / `unmarshalMsgp` guarded by the expected type: `some m'` when the key is
one of the dedicated fields *and* the value has the expected type. -/
def setMeta (m : Meta) (k : String) (v : Val) : Option Meta :=
  if k = metaTraceID then
    match v with | .str s => some { m with tid := s } | _ => none
  else if k = metaProbe then
    match v with | .bool b => some { m with probe := some b } | _ => none
  else if k = metaRoot then
    match v with | .bool b => some { m with root := some b } | _ => none
  else if k = metaStressed then
    match v with | .bool b => some { m with stressed := some b } | _ => none
  else none

/-- one map entry in `extractCriticalFieldsFromBytes` (msgpack payloads, in byte order) -/
def stepMsgp (nm : Names) (m : Meta) (kv : String × Val) : Meta :=
  match setMeta m kv.1 kv.2 with
  | some m' => m'
  | none =>
    match kv.2 with
    | .str s =>
      if m.tid = "" ∧ kv.1 ∈ nm.trace then { m with tid := s }
      else if kv.1 ∈ nm.parent then (if s ≠ "" then { m with root := some false } else m)
      else m
    | _ => m

/-- one entry of `memoizedFields` in `ExtractMetadata` (payloads built from a Go map) -/
def stepMap (nm : Names) (m : Meta) (kv : String × Val) : Meta :=
  if isMetaKey kv.1 then (setMeta m kv.1 kv.2).getD m
  else if m.tid = "" ∧ kv.1 ∈ nm.trace then
    match kv.2 with
    | .str s => if s ≠ "" then { m with tid := s } else m
    | _ => m
  else if kv.1 ∈ nm.parent then
    match kv.2 with
    | .str s => if s ≠ "" then { m with root := some false } else m
    | _ => m
  else m

/-- How the payload was built: from a Go map, from msgpack bytes, or from bytes that do not
parse (the event is not well formed). -/
inductive Enc where
  | map | msgp | bad
  deriving Repr, DecidableEq

structure Event where
  host : String
  key : String
  ds : String
  env : String
  rate : Nat
  ts : String
  enc : Enc
  fields : Fields
  deriving Repr

/-- both extraction paths start with `MetaRefineryRoot.Set(true)` on a fresh payload -/
def meta0 : Meta := { root := some true }

def extract (enc : Enc) (nm : Names) (fs : Fields) : Meta :=
  match enc with
  | .map => fs.foldl (stepMap nm) meta0
  | _ => fs.foldl (stepMsgp nm) meta0

def metaOf (ev : Event) (nm : Names) : Meta := extract ev.enc nm ev.fields

/-- the client's fields outside the dedicated metadata names (those are re-emitted from the
dedicated fields by `MarshalMsg`, which is C20's subject) -/
def clientFields (ev : Event) : Fields := ev.fields.filter (fun kv => !isMetaKey kv.1)

inductive Kind where
  | incoming | peer
  deriving Repr, DecidableEq

/-- `Collector.Stressed()` and the answer of `ProcessSpanImmediately`:
`off` not stressed; `skip` stressed, processed = false; `drop` processed, not kept; `keep` processed, kept. -/
inductive Stress where
  | off | skip | drop | keep
  deriving Repr, DecidableEq

structure Ctx where
  kind : Kind
  nm : Names
  self : String                -- `Sharder.MyShard().GetAddress()`
  owner : String → String      -- `Sharder.WhichShard(id).GetAddress()`
  stress : Stress
  inFull : Bool                -- `AddSpan` would block
  peerFull : Bool              -- `AddSpanFromPeer` would block

inductive Outcome where
  | parseError
  | discardProbe
  | upstreamUnsampled
  | stressDrop
  | stressKeep (probeTo : Option String)
  | peerForward (addr : String)
  | collectorIncoming
  | collectorPeer
  | queueFull
  deriving Repr, DecidableEq

/-- The routing decision, in the code's order. -/
def route (ev : Event) (c : Ctx) : Outcome :=
  if ev.enc = .bad then .parseError
  else if (metaOf ev c.nm).probe = some true then .discardProbe
  else if (metaOf ev c.nm).tid = "" then .upstreamUnsampled
  else
    match c.stress with
    | .drop => .stressDrop
    | .keep =>
      if c.owner (metaOf ev c.nm).tid = c.self then .stressKeep none
      else .stressKeep (some (c.owner (metaOf ev c.nm).tid))
    | _ =>
      if c.owner (metaOf ev c.nm).tid = c.self then
        match c.kind with
        | .incoming => if c.inFull then .queueFull else .collectorIncoming
        | .peer => if c.peerFull then .queueFull else .collectorPeer
      else .peerForward (c.owner (metaOf ev c.nm).tid)

/-! ## Effects: which sink is called with what -/

/-- the event object (`*types.Event`) as the sinks see it -/
structure Obj where
  host : String
  key : String
  ds : String
  env : String
  rate : Nat
  ts : String
  md : Meta
  fields : Fields
  deriving Repr, DecidableEq

inductive Sink where
  | up          -- UpstreamTransmission.EnqueueEvent, called by the router
  | upColl      -- upstream EnqueueSpan made by the collector inside ProcessSpanImmediately (kept)
  | peer        -- PeerTransmission.EnqueueEvent
  | collIn      -- Collector.AddSpan
  | collPeer    -- Collector.AddSpanFromPeer
  deriving Repr, DecidableEq

structure Call where
  sink : Sink
  accepted : Bool      -- false: the collector answered ErrWouldBlock
  obj : Obj            -- state of the event object when the call was made
  deriving Repr, DecidableEq

inductive Err where
  | none | invalid | wouldBlock
  deriving Repr, DecidableEq

structure Result where
  calls : List Call
  err : Err
  final : Obj          -- state of the event object when processEvent returns
  deriving Repr, DecidableEq

def obj0 (ev : Event) (nm : Names) : Obj :=
  { host := ev.host, key := ev.key, ds := ev.ds, env := ev.env, rate := ev.rate, ts := ev.ts,
    md := metaOf ev nm, fields := clientFields ev }

def collSink : Kind → Sink
  | .incoming => .collIn
  | .peer => .collPeer

def Obj.stressed (o : Obj) : Obj := { o with md := { o.md with stressed := some true } }
def Obj.asProbe (o : Obj) : Obj := { o with md := { o.md with probe := some true } }
def Obj.toHost (o : Obj) (a : String) : Obj := { o with host := a }

def effects (o : Obj) (k : Kind) : Outcome → Result
  | .parseError => ⟨[], .invalid, o⟩
  | .discardProbe => ⟨[], .none, o⟩
  | .upstreamUnsampled => ⟨[⟨.up, true, o⟩], .none, o⟩
  | .stressDrop => ⟨[], .none, o⟩
  | .stressKeep none => ⟨[⟨.upColl, true, o.stressed⟩], .none, o.stressed.asProbe⟩
  | .stressKeep (some a) =>
    ⟨[⟨.upColl, true, o.stressed⟩, ⟨.peer, true, (o.stressed.asProbe).toHost a⟩], .none,
      (o.stressed.asProbe).toHost a⟩
  | .peerForward a => ⟨[⟨.peer, true, o.toHost a⟩], .none, o.toHost a⟩
  | .collectorIncoming => ⟨[⟨.collIn, true, o⟩], .none, o⟩
  | .collectorPeer => ⟨[⟨.collPeer, true, o⟩], .none, o⟩
  | .queueFull => ⟨[⟨collSink k, false, o⟩], .wouldBlock, o⟩

def process (ev : Event) (c : Ctx) : Result := effects (obj0 ev c.nm) c.kind (route ev c)

/-- number of `ProcessSpanImmediately` consultations: once for every span while stressed -/
def immCalls (ev : Event) (c : Ctx) : Nat :=
  if ev.enc = .bad then 0
  else if (metaOf ev c.nm).probe = some true then 0
  else if (metaOf ev c.nm).tid = "" then 0
  else if c.stress = .off then 0 else 1

end Refinery.Model.Router
