import Refinery.Basic.AList
/-!
# Model of `metrics.MultiMetrics` — the store read back by `Get`  (property C33)

`metrics/multi_metrics.go` keeps five `sync.Map`s keyed by metric name:

* `metricTypes : name ↦ MetricType`        (written by `Register`)
* `counters    : name ↦ *atomic.Uint64`    (`Register(Counter)`, `Increment`, `Count`)
* `gauges      : name ↦ *atomic.Uint64`    (float64 bits; `Register(Gauge)`, `Gauge`)
* `updowns     : name ↦ *atomic.Int64`     (`Register(UpDown)`, `Up`, `Down`)
* `stores      : name ↦ *atomic.Uint64`    (float64 bits; `Store`)

Every public method performs one atomic operation on one entry (plus, for `Register`, one write
of the type table), so a concurrent execution is a linearisation of the calls: the model is a
sequential `step` over an arbitrary `List Op`.  Children (`PromMetrics`, `OTelMetrics`) only
receive forwarded calls and never feed back into `Get`; they are not modelled.

What is kept exactly as the code has it:

* `Register` **stores a fresh zero entry** in the map of the registered type, whether or not the
  name already has one (`m.counters.Store(name, &atomic.Uint64{})`).  The parameter `keep` of
  `step` selects the code as it is (`keep = false`) or the `LoadOrStore` repair (`keep = true`,
  an existing entry is kept); everything else is shared.
* `Increment`/`Count`/`Up`/`Down`/`Gauge`/`Store` on a name without entry create it
  (`LoadOrStore(name, zero)`) — they do not consult the type table.
* `Count(name, n)` adds `uint64(n)`: the counter is arithmetic modulo 2^64 and a negative `n` wraps.
* `Get` looks at `stores` first, then routes by the registered type; for a name that was never
  registered it tries counters, gauges, up-downs in this order.  A counter is returned as
  `float64(uint64)` (round to nearest even above 2^53), an up-down as `float64(int64)`.

Parameters / abstractions (see `checks/C33.py`): metric names are an arbitrary type `κ` with
decidable equality (the oracle instantiates `String`); gauge and store payloads are opaque — the
code never computes with them, it stores the float's bits and returns them verbatim — so the model
carries them as `Int` tokens: the oracle encodes every float64 the harness passes (integers,
fractions, subnormals, -0, ±MaxFloat64, NaN, ±Inf) injectively into `Int` (`Oracle/Metrics.lean`,
`parseTok`) and compares tokens, never floats; the
up-down counter is an unbounded `Int` (`atomic.Int64` cannot wrap in fewer than 2^63 calls, each
call changing it by one).
-/
namespace Refinery.Model.Metrics

/-- `metrics.MetricType` -/
inductive MType where
  | counter | gauge | histogram | updown
  deriving Repr, DecidableEq

/-- One call on the `Metrics` interface. -/
inductive Op (κ : Type) where
  | register (name : κ) (ty : MType)
  | increment (name : κ)
  | count (name : κ) (n : Int)          -- `n int64`
  | gauge (name : κ) (v : Int)          -- integer-valued `float64`
  | histogram (name : κ) (v : Int)      -- forwarded to the children only
  | up (name : κ)
  | down (name : κ)
  | store (name : κ) (v : Int)          -- integer-valued `float64`
  | get (name : κ)
  deriving Repr, DecidableEq

structure St (κ : Type) where
  types : AList κ MType := []
  counters : AList κ Nat := []          -- values of the `atomic.Uint64`s, always < 2^64
  gauges : AList κ Int := []
  updowns : AList κ Int := []
  stores : AList κ Int := []
  deriving Repr

/-- 2^64 -/
@[reducible] def u64 : Nat := 18446744073709551616
/-- 2^53: below it every integer is a `float64` -/
@[reducible] def f64Exact : Nat := 9007199254740992

/-- the conversion `uint64(n)` of an `int64` -/
def toU64 (n : Int) : Nat := (n % (u64 : Int)).toNat

/-- `float64(x)` for an unsigned integer, as the integer it denotes: exact below 2^53, otherwise
the 53 leading bits rounded to nearest, ties to even. -/
def f64OfNat (n : Nat) : Nat :=
  if n < f64Exact then n else
    let e := n.log2 - 52
    let q := n / 2 ^ e
    let r := n % 2 ^ e
    let half := 2 ^ (e - 1)
    let q' := if half < r ∨ (r = half ∧ q % 2 = 1) then q + 1 else q
    q' * 2 ^ e

/-- `float64(x)` for a signed integer (rounding is symmetric). -/
def f64OfInt (v : Int) : Int :=
  if 0 ≤ v then (f64OfNat v.toNat : Int) else - (f64OfNat (-v).toNat : Int)

section
variable {κ : Type} [DecidableEq κ]

/-- the value of an entry, a missing entry being created at zero (`LoadOrStore(name, zero)`) -/
def loadOrZero {α : Type} (zero : α) (m : AList κ α) (k : κ) : α :=
  match AList.get m k with
  | some v => v
  | none => zero

/-- What `Register` does to the value map of the registered type.
`keep = false`: `m.Store(name, zero)` (the code); `keep = true`: `m.LoadOrStore(name, zero)`. -/
def initEntry {α : Type} (keep : Bool) (zero : α) (m : AList κ α) (k : κ) : AList κ α :=
  match keep, AList.get m k with
  | true, some _ => m
  | _, _ => AList.put m k zero

def step (keep : Bool) (s : St κ) : Op κ → St κ
  | .register k ty =>
    let s := { s with types := AList.put s.types k ty }
    match ty with
    | .counter => { s with counters := initEntry keep 0 s.counters k }
    | .gauge => { s with gauges := initEntry keep 0 s.gauges k }
    | .updown => { s with updowns := initEntry keep 0 s.updowns k }
    | .histogram => s
  | .increment k => { s with counters := AList.put s.counters k ((loadOrZero 0 s.counters k + 1) % u64) }
  | .count k n => { s with counters := AList.put s.counters k ((loadOrZero 0 s.counters k + toU64 n) % u64) }
  | .gauge k v => { s with gauges := AList.put s.gauges k v }
  | .histogram _ _ => s
  | .up k => { s with updowns := AList.put s.updowns k (loadOrZero 0 s.updowns k + 1) }
  | .down k => { s with updowns := AList.put s.updowns k (loadOrZero 0 s.updowns k - 1) }
  | .store k v => { s with stores := AList.put s.stores k v }
  | .get _ => s

/-- `Get(name)`: `none` is the answer `(0, false)`. -/
def get (s : St κ) (k : κ) : Option Int :=
  match AList.get s.stores k with
  | some v => some v
  | none =>
    match AList.get s.types k with
    | none =>
      match AList.get s.counters k with
      | some c => some (f64OfNat c : Int)
      | none =>
        match AList.get s.gauges k with
        | some g => some g
        | none =>
          match AList.get s.updowns k with
          | some u => some (f64OfInt u)
          | none => none
    | some .counter => (AList.get s.counters k).map (fun c => (f64OfNat c : Int))
    | some .gauge => AList.get s.gauges k
    | some .updown => (AList.get s.updowns k).map f64OfInt
    | some .histogram => none

def runFrom (keep : Bool) (s : St κ) (ops : List (Op κ)) : St κ := ops.foldl (step keep) s

/-- the store after a history of calls, starting from `NewMultiMetrics()` -/
def run (keep : Bool) (ops : List (Op κ)) : St κ := runFrom keep {} ops

/-- the code as it is -/
abbrev runCode (ops : List (Op κ)) : St κ := run false ops
/-- the code with `Register` keeping an existing entry -/
abbrev runFixed (ops : List (Op κ)) : St κ := run true ops

/-! ## What a history *recorded* for one name (the property's right-hand sides) -/

/-- the amount a call adds to counter `k` -/
def cplain (k : κ) : Op κ → Int
  | .increment n => if n = k then 1 else 0
  | .count n d => if n = k then d else 0
  | _ => 0

/-- sum of the increments and counts of `k` since start -/
def csum (k : κ) (ops : List (Op κ)) : Int := ops.foldl (fun a op => a + cplain k op) 0

def uplain (k : κ) : Op κ → Int
  | .up n => if n = k then 1 else 0
  | .down n => if n = k then -1 else 0
  | _ => 0

/-- ups minus downs of `k` since start -/
def udiff (k : κ) (ops : List (Op κ)) : Int := ops.foldl (fun a op => a + uplain k op) 0

/-- the value of the most recent `Gauge(k, v)`; a gauge never set reads 0 -/
def glast (k : κ) (ops : List (Op κ)) : Int :=
  ops.foldl (fun a op => match op with | .gauge n v => if n = k then v else a | _ => a) 0

/-- the value of the most recent `Store(k, v)` -/
def slast (k : κ) (ops : List (Op κ)) : Option Int :=
  ops.foldl (fun a op => match op with | .store n v => if n = k then some v else a | _ => a) none

/-- the type of the most recent `Register` of `k` -/
def lastReg (k : κ) (ops : List (Op κ)) : Option MType :=
  ops.foldl (fun a op => match op with | .register n ty => if n = k then some ty else a | _ => a) none

/-- `Register(k, ty)` occurs in the history -/
def Registers (k : κ) (ty : MType) (ops : List (Op κ)) : Prop := Op.register k ty ∈ ops

/-- the calls goroutines issue in the concurrent mode: each is one atomic add -/
def Op.isAdd : Op κ → Bool
  | .increment _ | .count _ _ | .up _ | .down _ => true
  | _ => false

end
end Refinery.Model.Metrics
