import Refinery.Basic.AList
import Refinery.Gen.Payload
/-!
# Model of `types.Payload`  (properties C21 and C20)

Level of abstraction: decoded key/value lists with wire-type tags.  msgpack / JSON *bytes* are not
modelled (tinylib/msgp, fastjson, jsoniter are trusted and checked differentially by the harness
with an independent decoder).  Strings are opaque tokens (the harness passes an injective
percent-encoding; the empty string is the empty token); the only strings the model looks into are
the reserved metadata names, the `"meta."` prefix and the signal type `"log"`.

What is modelled, function by function (`types/payload.go`):

* `extractCriticalFieldsFromBytes`  → `extractWire`  (one pass in **wire order**: reserved metadata
  fields by the regenerated table `metaTable`, trace-id / parent-id fields, sampling-key memoisation)
* `ExtractMetadata`                 → `extractMap`   (range over the memoised Go map; the iteration
  order is an input `ord`)
* `MemoizeFields`, `Get`, `Exists`, `Set`, `MarshalMsg` → `memoize`, `Pay.get`, `Pay.has`, `Pay.set`, `marshal`
* `route.batchedEvent.UnmarshalMsg` / `unmarshalBatchedEventFromFastJSON` + `Router.batch`
  → `ingestBatch`; `Router.requestToEvent` + `Router.event` → `ingestMap`;
  `UnmarshalMsgpEventMetadataOnly` (OTLP) → `ingestMeta`; `addIncomingUserAgent` → `addUA`;
  the part of `Router.processEvent` that decides probe / non-span / span → `outcome`.

External functions (parameters): `f2i : Nat → Int`, Go's `int64(float64)` conversion on IEEE bit
patterns (graph supplied by the harness), and the Go-map iteration order `ord`.
-/
namespace Refinery.Model.Payload
open Refinery

/-! ## Values with wire-type tags -/

/-- A decoded value.  `int` is msgpack's signed family (fixint, int8..64), `uint` the unsigned one,
floats carry their IEEE bit pattern, `time` is the msgpack timestamp extension (−1) resp. Go's
`time.Time`, `ext5` is tinylib/msgp's private time extension (type 5). -/
inductive Val where
  | str (s : String)
  | bin (s : String)
  | int (i : Int)
  | uint (n : Nat)
  | f32 (bits : Nat)
  | f64 (bits : Nat)
  | bool (b : Bool)
  | nil
  | time (sec : Int) (nsec : Int)
  | ext5 (sec : Int) (nsec : Int)
  | arr (l : List Val)
  | map (l : List (String × Val))

/-- Go `map[string]any` built by successive assignment: the last occurrence of a key wins. -/
def dedupKeys (l : List (String × Val)) : List (String × Val) :=
  l.foldl (fun acc kv => AList.put acc kv.1 kv.2) []

mutual
/-- `msgp.ReadIntfBytes` / jsoniter into `any`: nested maps become Go maps (duplicate keys collapse,
order is lost — the model keeps a list, outputs are compared after sorting by key). -/
def goNorm : Val → Val
  | .arr l => .arr (goNormL l)
  | .map l => .map (dedupKeys (goNormM l))
  | v => v
def goNormL : List Val → List Val
  | [] => []
  | v :: t => goNorm v :: goNormL t
def goNormM : List (String × Val) → List (String × Val)
  | [] => []
  | (k, v) :: t => (k, goNorm v) :: goNormM t
end

mutual
/-- `msgp.AppendIntf` on a Go value: `time.Time` is written by `AppendTime`, i.e. as tinylib's
private extension 5; `AppendUint64` writes values up to 127 as a positive fixint, which readers
(tinylib's `NextType` included) classify with the signed family; everything else keeps its family. -/
def toWire : Val → Val
  | .time s n => .ext5 s n
  | .uint n => if n ≤ 127 then .int n else .uint n
  | .arr l => .arr (toWireL l)
  | .map l => .map (toWireM l)
  | v => v
def toWireL : List Val → List Val
  | [] => []
  | v :: t => toWire v :: toWireL t
def toWireM : List (String × Val) → List (String × Val)
  | [] => []
  | (k, v) :: t => (k, toWire v) :: toWireM t
end

/-- wire-type tag table (`goOf` / `wireOf` of DESIGN §5 C20) -/
inductive Tag where
  | str | bin | int | uint | f32 | f64 | bool | nil | time | ext5 | arr | map
  deriving DecidableEq, Repr

def Val.tag : Val → Tag
  | .str _ => .str | .bin _ => .bin | .int _ => .int | .uint _ => .uint | .f32 _ => .f32
  | .f64 _ => .f64 | .bool _ => .bool | .nil => .nil | .time _ _ => .time | .ext5 _ _ => .ext5
  | .arr _ => .arr | .map _ => .map

/-! ## Reserved metadata fields -/

def hasPrefix (pre s : String) : Bool := pre.toList.isPrefixOf s.toList

inductive MKind where
  | str | bool | int
  deriving DecidableEq, Repr

def kindOfName (s : String) : Option MKind :=
  if s = "str" then some .str else if s = "bool" then some .bool else if s = "int" then some .int else none

/-- `types.metadataFields` (name, expected type), regenerated from the code on every run. -/
def metaTable : List (String × String) := Gen.Payload.metaFields

/-- `metadataFields[key]` -/
def tableKind (k : String) : Option MKind := (AList.get metaTable k).bind kindOfName

/-- `bytes.HasPrefix(key, "meta.")` and then `metadataFields[key]` -/
def prefKind (k : String) : Option MKind := if hasPrefix "meta." k then tableKind k else none

abbrev kTid : String := Gen.Payload.metaTraceID
abbrev kSig : String := Gen.Payload.metaSignalType
abbrev kRoot : String := Gen.Payload.metaRefineryRoot
abbrev kProbe : String := Gen.Payload.metaRefineryProbe
abbrev kUA : String := Gen.Payload.metaIncomingUserAgent

/-- value of a dedicated metadata struct field -/
inductive MVal where
  | s (x : String)
  | b (x : Bool)
  | i (x : Int)
  deriving DecidableEq, Repr

def MVal.isDefault : MVal → Bool
  | .s x => decide (x = "")
  | .i x => decide (x = 0)
  | .b _ => false

def mvalVal : MVal → Val
  | .s x => .str x
  | .b x => .bool x
  | .i x => .int x

/-- The four dedicated fields trace identity depends on: `MetaTraceID`, `MetaSignalType`,
`MetaRefineryRoot` (`none` = `HasValue` false), `MetaRefineryProbe`. -/
structure IdSt where
  tid : String := ""
  sig : String := ""
  root : Option Bool := none
  probe : Option Bool := none
  deriving DecidableEq, Repr

/-- All dedicated metadata struct fields: the four above explicitly, the others by name with only
non-default values stored (`""`, `0` = unset, as `get`/`exist`/`appendMsgp` treat them). -/
structure Meta where
  id : IdSt := {}
  other : AList String MVal := []

def idPut (s : IdSt) (k : String) (v : MVal) : IdSt :=
  if k = kTid then (match v with | .s x => { s with tid := x } | _ => s)
  else if k = kSig then (match v with | .s x => { s with sig := x } | _ => s)
  else if k = kRoot then (match v with | .b x => { s with root := some x } | _ => s)
  else if k = kProbe then (match v with | .b x => { s with probe := some x } | _ => s)
  else s

def isIdKey (k : String) : Bool := k = kTid || k = kSig || k = kRoot || k = kProbe

/-- assignment to the dedicated field named `k` -/
def Meta.put (m : Meta) (k : String) (v : MVal) : Meta :=
  if isIdKey k then { m with id := idPut m.id k v }
  else { m with other := if v.isDefault then AList.del m.other k else AList.put m.other k v }

/-- `field.get`: the value when it is not the type's default -/
def Meta.get (m : Meta) (k : String) : Option MVal :=
  if k = kTid then (if m.id.tid = "" then none else some (.s m.id.tid))
  else if k = kSig then (if m.id.sig = "" then none else some (.s m.id.sig))
  else if k = kRoot then m.id.root.map .b
  else if k = kProbe then m.id.probe.map .b
  else AList.get m.other k

/-- `field.set(p, value any)`: assigns only when the Go type is the field's type. -/
def typedSet (m : Meta) (k : String) (kd : MKind) (v : Val) : Meta :=
  match kd, v with
  | .str, .str x => m.put k (.s x)
  | .bool, .bool b => m.put k (.b b)
  | .int, .int i => m.put k (.i i)
  | _, _ => m

/-! ## Payload state and configuration -/

structure Cfg where
  tn : List String := []      -- TraceNames
  pn : List String := []      -- ParentNames
  sk : List String := []      -- sampling-key fields of the selected sampler
  ua : String := ""           -- User-Agent of the request

structure Pay where
  raw : List (String × Val) := []     -- msgpData, in wire order
  memo : AList String Val := []       -- memoizedFields (Go values)
  missing : List String := []         -- missingFields
  md : Meta := {}
  extracted : Bool := false           -- hasExtractedMetadata
  isEmpty : Bool := false

/-- `Payload.Set` -/
def Pay.set (p : Pay) (k : String) (v : Val) : Pay :=
  match tableKind k with
  | some kd => { p with md := typedSet p.md k kd v }
  | none => { p with memo := AList.put p.memo k v }

/-! ## `extractCriticalFieldsFromBytes` -/

inductive Step (α : Type) where
  | err | skip | done (a : α)

/-- the metadata part of the loop body: type check against the table, then `unmarshalMsgp`
(`ReadStringBytes` fails on `bin`, `ReadInt64Bytes` overflows on unsigned values above MaxInt64). -/
def metaDecode (k : String) (v : Val) : Step MVal :=
  match prefKind k with
  | some .str => (match v with
      | .str x => .done (.s x)
      | .bin _ => .err
      | _ => .skip)
  | some .bool => (match v with
      | .bool b => .done (.b b)
      | _ => .skip)
  | some .int => (match v with
      | .int i => .done (.i i)
      | .uint n => if (n : Int) ≤ Gen.Payload.maxInt64 then .done (.i n) else .err
      | _ => .skip)
  | none => .skip

/-- "Handle special trace ID and parent ID fields" (only for `StrType` values); `none` = not handled -/
def idFall (cfg : Cfg) (s : IdSt) (k : String) (v : Val) : Option IdSt :=
  match v with
  | .str x =>
    if s.tid = "" ∧ k ∈ cfg.tn then some { s with tid := x }
    else if k ∈ cfg.pn then some (if x = "" then s else { s with root := some false })
    else none
  | _ => none

/-- sampling-key memoisation of the loop body -/
def wireKey (sk : List String) (p : Pay) (found : Nat) (k : String) (v : Val) : Pay × Nat :=
  if found < sk.length ∧ k ∈ sk ∧ k ∉ AList.keys p.memo then (p.set k (goNorm v), found + 1) else (p, found)

/-- one map entry; `none` = the function returns an error -/
def wstep (cfg : Cfg) (sk : List String) (st : Pay × Nat) (kv : String × Val) : Option (Pay × Nat) :=
  match metaDecode kv.1 kv.2 with
  | .err => none
  | .done mv => some ({ st.1 with md := st.1.md.put kv.1 mv }, st.2)
  | .skip =>
    match idFall cfg st.1.md.id kv.1 kv.2 with
    | some i => some ({ st.1 with md := { st.1.md with id := i } }, st.2)
    | none => some (wireKey sk st.1 st.2 kv.1 kv.2)

def wfold (cfg : Cfg) (sk : List String) : Pay × Nat → List (String × Val) → Option (Pay × Nat)
  | st, [] => some st
  | st, kv :: t =>
    match wstep cfg sk st kv with
    | none => none
    | some st' => wfold cfg sk st' t

def initRootId (s : IdSt) : IdSt := if s.root.isSome then s else { s with root := some true }
/-- "A log message cannot be a root span": `MetaRefineryRoot.Unset()` -/
def finishLogId (s : IdSt) : IdSt := if s.sig = "log" then { s with root := none } else s

def initRoot (m : Meta) : Meta := { m with id := initRootId m.id }
def finishLog (m : Meta) : Meta := { m with id := finishLogId m.id }

def extractWire (cfg : Cfg) (sk : List String) (p : Pay) (fs : List (String × Val)) : Option Pay :=
  match wfold cfg sk ({ p with md := initRoot p.md, isEmpty := p.isEmpty || fs.isEmpty }, 0) fs with
  | none => none
  | some (p1, found) =>
    let p2 : Pay := if found < sk.length then
        { p1 with missing := p1.missing ++ sk.filter (fun f => !(AList.keys p1.memo).contains f) }
      else p1
    some { p2 with md := finishLog p2.md, extracted := true }

/-! ## `ExtractMetadata` (Go-map iteration order `ord`) -/

def mapStep (cfg : Cfg) (f2i : Nat → Int) (m : Meta) (kv : String × Val) : Meta :=
  match tableKind kv.1 with
  | some .int => (match kv.2 with
      | .f64 b => m.put kv.1 (.i (f2i b))
      | v => typedSet m kv.1 .int v)
  | some kd => typedSet m kv.1 kd kv.2
  | none =>
    if m.id.tid = "" ∧ kv.1 ∈ cfg.tn then
      (match kv.2 with
        | .str x => if x = "" then m else { m with id := { m.id with tid := x } }
        | _ => m)
    else if kv.1 ∈ cfg.pn then
      (match kv.2 with
        | .str x => if x = "" then m else { m with id := { m.id with root := some false } }
        | _ => m)
    else m

def extractMap (cfg : Cfg) (f2i : Nat → Int) (p : Pay) (ord : List (String × Val)) : Option Pay :=
  if p.extracted then some p else
  let p1 : Pay := { p with md := ord.foldl (mapStep cfg f2i) (initRoot p.md) }
  match (if p.raw.isEmpty then some p1 else extractWire cfg [] p1 p.raw) with
  | none => none
  | some p2 => some { p2 with md := finishLog p2.md, extracted := true }

/-! ## Ingestion paths and what `processEvent` hands on -/

inductive Outcome where
  | err                                   -- rejected with an error status
  | probe                                 -- accepted and dropped (`meta.refinery.probe` true)
  | nonspan                               -- no trace id: sent upstream unsampled
  | span (tid : String) (root : Bool)     -- handed to the collector
  deriving DecidableEq, Repr

def outcomeId (i : IdSt) : Outcome :=
  if i.probe = some true then .probe
  else if i.tid = "" then .nonspan
  else .span i.tid (i.root.getD false)

def outcome (p : Pay) : Outcome := outcomeId p.md.id

def outcomeOf : Option Pay → Outcome
  | none => .err
  | some p => outcome p

/-- `addIncomingUserAgent` -/
def addUA (cfg : Cfg) (p : Pay) : Pay :=
  if cfg.ua ≠ "" ∧ (p.md.get kUA).isNone then { p with md := p.md.put kUA (.s cfg.ua) } else p

/-- `/1/batch`, msgpack or JSON body: `UnmarshalMsgpFirstEvent` with the sampler's key fields, the
empty-event check, the user agent.  (`processEvent`'s `ExtractMetadata` is a no-op: already extracted.) -/
def ingestBatch (cfg : Cfg) (fs : List (String × Val)) : Option Pay :=
  match extractWire cfg cfg.sk {} fs with
  | none => none
  | some p => if p.isEmpty then none else some (addUA cfg { p with raw := fs })

/-- the OTLP msgpack path: `UnmarshalMsgpEventMetadataOnly` (no sampling-key fields) -/
def ingestMeta (cfg : Cfg) (fs : List (String × Val)) : Option Pay :=
  match extractWire cfg [] {} fs with
  | none => none
  | some p => some (addUA cfg { p with raw := fs })

/-- `/1/events` with a JSON body: the whole object becomes `memoizedFields`; `ExtractMetadata` then
ranges over that Go map in the order `ord` (a permutation of the memoised entries). -/
def memoOfJSON (fs : List (String × Val)) : AList String Val := dedupKeys (goNormM fs)

def ingestMap (cfg : Cfg) (f2i : Nat → Int) (fs ord : List (String × Val)) : Option Pay :=
  if (memoOfJSON fs).isEmpty then none
  else extractMap cfg f2i (addUA cfg { memo := memoOfJSON fs }) ord

/-! ## The collector's accessors -/

/-- `MemoizeFields(keys...)` -/
def memoize (p : Pay) (ks : List String) : Pay :=
  let want := (ks.filter fun k => !p.missing.contains k && !(AList.keys p.memo).contains k).eraseDups
  if want.isEmpty then p else
  let r := p.raw.foldl (fun (st : Pay × Nat) kv =>
      if st.2 < want.length ∧ kv.1 ∈ want then (st.1.set kv.1 (goNorm kv.2), st.2 + 1) else st) (p, 0)
  { r.1 with missing := r.1.missing ++ want.filter fun k => !(AList.keys r.1.memo).contains k }

def rawFind (raw : List (String × Val)) (k : String) : Option Val :=
  (raw.find? fun kv => decide (kv.1 = k)).map (·.2)

/-- `Get`: `none` is Go's `nil` -/
def Pay.get (p : Pay) (k : String) : Option Val :=
  match prefKind k with
  | some _ => (p.md.get k).map mvalVal
  | none =>
    match AList.get p.memo k with
    | some v => some v
    | none => if p.missing.contains k then none else (rawFind p.raw k).map goNorm

/-- `Exists` -/
def Pay.has (p : Pay) (k : String) : Bool :=
  match prefKind k with
  | some _ => (p.md.get k).isSome
  | none =>
    (AList.get p.memo k).isSome || (!p.missing.contains k && (rawFind p.raw k).isSome)

/-- `MarshalMsg`: dedicated metadata fields with non-default values, then memoised fields that are
not reserved names, then the raw entries that are neither memoised nor reserved names. -/
def marshal (p : Pay) : List (String × Val) :=
  (metaTable.filterMap fun e => (p.md.get e.1).map fun mv => (e.1, mvalVal mv))
  ++ ((p.memo.filter fun kv => (tableKind kv.1).isNone).map fun kv => (kv.1, toWire kv.2))
  ++ (p.raw.filter fun kv => !(AList.keys p.memo).contains kv.1 && (tableKind kv.1).isNone)

/-- a span forwarded to a peer: the re-encoded map arrives at the peer's `/1/batch` -/
def forward (cfg : Cfg) (p : Pay) : Option (Option Pay) :=
  if p.md.id.tid = "" then none else some (ingestBatch cfg (marshal p))

/-- what Refinery itself does to a payload between ingestion and transmission -/
inductive Op where
  | memo (ks : List String)
  | set (k : String) (v : Val)

def applyOp (p : Pay) : Op → Pay
  | .memo ks => memoize p ks
  | .set k v => p.set k v

def applyOps (p : Pay) (ops : List Op) : Pay := ops.foldl applyOp p


/-! ## Repairs

Each flag of `Fixed` stands for one repair of `types/payload.go` (patch files under
`.cache/payload-fix/`); with no flag set the functions below are, by definition, the functions above
(the code as it was when the findings were recorded).  `fixedNow` says which repairs the tree under
`/repo` has: flip a flag in the commit that applies the corresponding patch.

* `emptyMetaTid`   (01) an empty `meta.trace_id` no longer erases the trace ID found so far
* `configuredOrder` (02, applied after 01) the first *configured* trace-ID field wins on every path
* `memoTime`       (03) a memoised timestamp is written back with `AppendTimeExt`, at any depth -/

structure Fixed where
  emptyMetaTid : Bool := false
  configuredOrder : Bool := false
  memoTime : Bool := false
  deriving DecidableEq, Repr

/-- the repairs present in the tree the check runs against -/
def fixedNow : Fixed := { emptyMetaTid := true, configuredOrder := true, memoTime := true }

/-- 01: `if p.MetaTraceID == "" { p.MetaTraceID = traceIDSoFar }` after a metadata assignment -/
def keepTid (fx : Fixed) (prev : String) (m : Meta) : Meta :=
  if fx.emptyMetaTid = true ∧ m.id.tid = "" then { m with id := { m.id with tid := prev } } else m

/-- 02: trace-ID / parent-ID handling of the loop body; the candidate `c` = (value, configured
index) replaces the direct assignment to `MetaTraceID`; `none` = not handled -/
def idFallC (cfg : Cfg) (s : IdSt) (c : String × Nat) (k : String) (v : Val) : Option (IdSt × (String × Nat)) :=
  match v with
  | .str x =>
    if k ∈ cfg.tn ∧ cfg.tn.idxOf k < c.2 then some (s, if x = "" then c else (x, cfg.tn.idxOf k))
    else if k ∈ cfg.pn then some (if x = "" then s else { s with root := some false }, c)
    else none
  | _ => none

def wstepN (fx : Fixed) (cfg : Cfg) (sk : List String) (st : (Pay × Nat) × (String × Nat))
    (kv : String × Val) : Option ((Pay × Nat) × (String × Nat)) :=
  match metaDecode kv.1 kv.2 with
  | .err => none
  | .done mv =>
    some (({ st.1.1 with md := keepTid fx st.1.1.md.id.tid (st.1.1.md.put kv.1 mv) }, st.1.2), st.2)
  | .skip =>
    if fx.configuredOrder = true then
      match idFallC cfg st.1.1.md.id st.2 kv.1 kv.2 with
      | some ic => some (({ st.1.1 with md := { st.1.1.md with id := ic.1 } }, st.1.2), ic.2)
      | none => some (wireKey sk st.1.1 st.1.2 kv.1 kv.2, st.2)
    else
      match idFall cfg st.1.1.md.id kv.1 kv.2 with
      | some i => some (({ st.1.1 with md := { st.1.1.md with id := i } }, st.1.2), st.2)
      | none => some (wireKey sk st.1.1 st.1.2 kv.1 kv.2, st.2)

def wfoldN (fx : Fixed) (cfg : Cfg) (sk : List String) :
    (Pay × Nat) × (String × Nat) → List (String × Val) → Option ((Pay × Nat) × (String × Nat))
  | st, [] => some st
  | st, kv :: t =>
    match wstepN fx cfg sk st kv with
    | none => none
    | some st' => wfoldN fx cfg sk st' t

/-- 02: `if p.MetaTraceID == "" { p.MetaTraceID = traceIDFromField }` after the loop -/
def fillTid (fx : Fixed) (cand : String) (s : IdSt) : IdSt :=
  if fx.configuredOrder = true ∧ s.tid = "" then { s with tid := cand } else s

def extractWireN (fx : Fixed) (cfg : Cfg) (sk : List String) (p : Pay) (fs : List (String × Val)) : Option Pay :=
  match wfoldN fx cfg sk (({ p with md := initRoot p.md, isEmpty := p.isEmpty || fs.isEmpty }, 0), ("", cfg.tn.length)) fs with
  | none => none
  | some ((p1, found), c) =>
    let p2 : Pay := if found < sk.length then
        { p1 with missing := p1.missing ++ sk.filter (fun f => !(AList.keys p1.memo).contains f) }
      else p1
    some { p2 with md := finishLog { p2.md with id := fillTid fx c.1 p2.md.id }, extracted := true }

def extractWireF (fx : Fixed) (cfg : Cfg) (sk : List String) (p : Pay) (fs : List (String × Val)) : Option Pay :=
  if fx.emptyMetaTid || fx.configuredOrder then extractWireN fx cfg sk p fs else extractWire cfg sk p fs

def mapStepN (fx : Fixed) (cfg : Cfg) (f2i : Nat → Int) (m : Meta) (kv : String × Val) : Meta :=
  match tableKind kv.1 with
  | some .int => keepTid fx m.id.tid (match kv.2 with
      | .f64 b => m.put kv.1 (.i (f2i b))
      | v => typedSet m kv.1 .int v)
  | some kd => keepTid fx m.id.tid (typedSet m kv.1 kd kv.2)
  | none =>
    if fx.configuredOrder = true then
      (if kv.1 ∈ cfg.pn then
        (match kv.2 with
          | .str x => if x = "" then m else { m with id := { m.id with root := some false } }
          | _ => m)
      else m)
    else if m.id.tid = "" ∧ kv.1 ∈ cfg.tn then
      (match kv.2 with
        | .str x => if x = "" then m else { m with id := { m.id with tid := x } }
        | _ => m)
    else if kv.1 ∈ cfg.pn then
      (match kv.2 with
        | .str x => if x = "" then m else { m with id := { m.id with root := some false } }
        | _ => m)
    else m

/-- 02 on the map path: the configured names are looked up in `memoizedFields`, in configured order -/
def firstConfiguredMemo : List String → AList String Val → String
  | [], _ => ""
  | k :: ks, memo =>
    match AList.get memo k with
    | some (.str x) => if x = "" then firstConfiguredMemo ks memo else x
    | _ => firstConfiguredMemo ks memo

def extractMapN (fx : Fixed) (cfg : Cfg) (f2i : Nat → Int) (p : Pay) (ord : List (String × Val)) : Option Pay :=
  if p.extracted then some p else
  let m1 := ord.foldl (mapStepN fx cfg f2i) (initRoot p.md)
  let p1 : Pay := { p with md := { m1 with id := fillTid fx (firstConfiguredMemo cfg.tn p.memo) m1.id } }
  match (if p.raw.isEmpty then some p1 else extractWireF fx cfg [] p1 p.raw) with
  | none => none
  | some p2 => some { p2 with md := finishLog p2.md, extracted := true }

def extractMapF (fx : Fixed) (cfg : Cfg) (f2i : Nat → Int) (p : Pay) (ord : List (String × Val)) : Option Pay :=
  if fx.emptyMetaTid || fx.configuredOrder then extractMapN fx cfg f2i p ord else extractMap cfg f2i p ord

def ingestBatchF (fx : Fixed) (cfg : Cfg) (fs : List (String × Val)) : Option Pay :=
  match extractWireF fx cfg cfg.sk {} fs with
  | none => none
  | some p => if p.isEmpty then none else some (addUA cfg { p with raw := fs })

def ingestMetaF (fx : Fixed) (cfg : Cfg) (fs : List (String × Val)) : Option Pay :=
  match extractWireF fx cfg [] {} fs with
  | none => none
  | some p => some (addUA cfg { p with raw := fs })

def ingestMapF (fx : Fixed) (cfg : Cfg) (f2i : Nat → Int) (fs ord : List (String × Val)) : Option Pay :=
  if (memoOfJSON fs).isEmpty then none
  else extractMapF fx cfg f2i (addUA cfg { memo := memoOfJSON fs }) ord

mutual
/-- 03: `appendValue` — as `toWire`, but `time.Time` is written with `AppendTimeExt` -/
def toWireT : Val → Val
  | .uint n => if n ≤ 127 then .int n else .uint n
  | .arr l => .arr (toWireTL l)
  | .map l => .map (toWireTM l)
  | v => v
def toWireTL : List Val → List Val
  | [] => []
  | v :: t => toWireT v :: toWireTL t
def toWireTM : List (String × Val) → List (String × Val)
  | [] => []
  | (k, v) :: t => (k, toWireT v) :: toWireTM t
end

def toWireF (fx : Fixed) (v : Val) : Val := if fx.memoTime then toWireT v else toWire v

/-- `MarshalMsg` with the memoised values written by `w` -/
def marshalW (w : Val → Val) (p : Pay) : List (String × Val) :=
  (metaTable.filterMap fun e => (p.md.get e.1).map fun mv => (e.1, mvalVal mv))
  ++ ((p.memo.filter fun kv => (tableKind kv.1).isNone).map fun kv => (kv.1, w kv.2))
  ++ (p.raw.filter fun kv => !(AList.keys p.memo).contains kv.1 && (tableKind kv.1).isNone)

def marshalF (fx : Fixed) (p : Pay) : List (String × Val) := marshalW (toWireF fx) p

def forwardF (fx : Fixed) (cfg : Cfg) (p : Pay) : Option (Option Pay) :=
  if p.md.id.tid = "" then none else some (ingestBatchF fx cfg (marshalF fx p))


/-! ## Events queued across requests

Between ingestion and transmission an event sits in the collector or in a transmission batch while
the node serves further requests.  In the model an event is a value: `QOp.post` queues the result
of a request under an id, any other request leaves the queue alone. -/

inductive QOp where
  | post (id : String) (r : Option Pay)     -- a request whose event stays queued under `id` (`none`: nothing queued)
  | other (r : Option Pay)                  -- any other request, whatever it ingests

def qstep (q : AList String Pay) : QOp → AList String Pay
  | .post id (some p) => AList.put q id p
  | .post id none => AList.del q id
  | .other _ => q

end Refinery.Model.Payload
