import Refinery.Model.TTL
/-!
# Model of `collect/cache.cuckooSentCache`  (property C31)

Anchors: `collect/cache/cuckooSentCache.go` (`Record`, `CheckSpan`, `CheckTrace`, `Resize`,
`monitor`), `collect/cache/cuckoo.go` (`Add`, `drain`, `Maintain`, `SetNextCapacity`),
`collect/cache/kept_reasons_cache.go` (`Set`, `Get`), `generics/setttl.go` (through `Model/TTL`).

Trace ids, reasons and rates are `Nat`s (the harness maps them to strings / uints).

* **kept side** — hashicorp `lru.Cache` as the textbook LRU: a list of entries, most recently
  used first, distinct ids, at most `keptCap` long.  `Add` and `Get` move to the front, overflow
  evicts the last.  An entry carries the `uint32` rate, the interned reason index and the four
  span counters (`keptTraceCacheEntry`).
* **dropped side** — `CuckooTraceChecker`: `cur`, `fut : Option`, the add queue (a buffered
  channel of depth `AddQueueDepth`; `Add` drops the id on the floor when it is full), `drain` as an
  explicit operation, `Maintain` with the two load thresholds.  A `cuckoo.Filter` is modelled as
  the exact list of ids inserted into it, its successful-insert count and its slot count; the
  library's deviations from an exact set are *adversarial inputs* of the operations:
  `fp` (a lookup answers true for an id that is not there), `fail` (that many inserts of a drain
  returned false: the count does not grow) and `lost` (ids that a failed insert kicked out of the
  table).  The only thing assumed about them is `validBits`.
* **recent-drop set** — `generics.SetWithTTL` with the 3 s TTL: `Refinery.Model.TTL`.
* **reason interning** — `KeptReasonsCache`: `data` (index − 1 ↦ reason) and `keys`
  (hash ↦ index), with the hash function a parameter.
-/
namespace Refinery.Model.SentCache
open Refinery

/-- Parameters: external functions and the constants read from the code (`Refinery.Gen.Sentcache`). -/
structure Cfg where
  slots : Nat → Nat      -- panmari/cuckoofilter: number of fingerprint slots of `NewFilter(capacity)`
  hash : Nat → Nat       -- wyhash of a reason string under the cache's random seed
  depth : Nat            -- `AddQueueDepth`
  futPm : Nat            -- `Maintain`: start the future filter when load > futPm / 1000
  rotPm : Nat            -- `Maintain`: rotate when load > rotPm / 1000
  minFull : Nat          -- library: an insert can only fail once some bucket (4 slots) is full
  ttl : Int              -- TTL of the recent-drop set (ns)

def u32 (n : Nat) : Nat := n % 4294967296

/-! ## kept side -/

structure Entry where
  id : Nat
  rate : Nat
  reason : Nat           -- interned index (0 = never set)
  ev : Nat               -- eventCount (all descendants)
  se : Nat               -- span events
  sl : Nat               -- span links
  sp : Nat               -- spans
  deriving Repr, DecidableEq

def lruDel (l : List Entry) (id : Nat) : List Entry := l.filter (fun e => e.id != id)

def lruFind (l : List Entry) (id : Nat) : Option Entry := l.find? (fun e => e.id == id)

/-- `lru.Cache.Add`: (re)place at the front; evict from the back beyond the capacity. -/
def lruAdd (cap : Nat) (l : List Entry) (e : Entry) : List Entry := (e :: lruDel l e.id).take cap

/-- `keptTraceCacheEntry.Count(span)` by annotation type (0 span, 1 span event, 2 link). -/
def Entry.count (e : Entry) (kind : Nat) : Entry :=
  let e := { e with ev := u32 (e.ev + 1) }
  if kind = 1 then { e with se := u32 (e.se + 1) }
  else if kind = 2 then { e with sl := u32 (e.sl + 1) }
  else { e with sp := u32 (e.sp + 1) }

/-! ## reason interning -/

structure Reasons where
  data : List Nat := []
  keys : AList Nat Nat := []
  deriving Repr

/-- `KeptReasonsCache.Set` (the index is `uint32(len(data))`; the wrap after 2³² distinct reasons is
not modelled) -/
def reasonSet (hash : Nat → Nat) (t : Reasons) (r : Nat) : Reasons × Nat :=
  match AList.get t.keys (hash r) with
  | some idx => (t, idx)
  | none => ({ data := t.data ++ [r], keys := AList.put t.keys (hash r) (t.data.length + 1) },
             t.data.length + 1)

/-- `KeptReasonsCache.Get` -/
def reasonGet (t : Reasons) (idx : Nat) : Option Nat :=
  if idx = 0 then none else t.data[idx - 1]?

/-- `reason, _ := c.keptReasons.Get(...)`: the caller discards the flag and gets `""`, which is
reason 0 of the harness' reason universe. -/
def reasonStr : Option Nat → Nat
  | some r => r
  | none => 0

/-! ## dropped side -/

structure Filter where
  ids : List Nat := []
  count : Nat := 0
  slots : Nat
  deriving Repr

/-- what the filter holds after inserting `q` with `fail` failed inserts that kicked out `lost` -/
def Filter.insertAll (f : Filter) (q : List Nat) (fail : Nat) (lost : List Nat) : Filter :=
  { f with ids := (f.ids ++ q).filter (fun i => !lost.contains i), count := f.count + q.length - fail }

/-- All that is assumed about failed inserts: not more failures than inserts, one lost
fingerprint per failure at most, and no failure before a bucket's worth of fingerprints is in. -/
def validBits (minFull : Nat) (f : Filter) (n fail : Nat) (lost : List Nat) : Bool :=
  decide (fail ≤ n) && decide (lost.length ≤ fail) && (fail == 0 || decide (minFull ≤ f.count + n - fail))

/-- `load > pm/1000` -/
def over (pm count slots : Nat) : Bool := decide (1000 * count > pm * slots)

/-- adversarial inputs of one drain -/
structure Adv where
  k : Nat := 0                 -- how many queued ids the call took (1 ms lock budget)
  failC : Nat := 0
  lostC : List Nat := []
  failF : Nat := 0
  lostF : List Nat := []
  deriving Repr

structure St where
  kept : List Entry := []
  keptCap : Nat
  cur : Filter
  fut : Option Filter := none
  nextCap : Nat
  queue : List Nat := []       -- oldest first
  recent : TTL.St
  reasons : Reasons := {}
  deriving Repr

inductive Op where
  | recKept (id rate reason ev se sl sp : Nat)
  | recDrop (id : Nat)
  | checkSpan (id kind : Nat) (fp : Bool)
  | checkTrace (id : Nat) (fp : Bool)
  | drain (a : Adv)
  | maintain (a : Adv)
  | resize (kept dropped : Nat)       -- per-worker sizes
  | adv (d : Nat)
  deriving Repr

inductive Ans where
  | notFound
  | dropped
  | kept (rate reason ev se sl sp : Nat)
  deriving Repr, DecidableEq

inductive Out where
  | none
  | ans (a : Ans)
  | drained (cur : Nat × Nat) (fut : Option (Nat × Nat)) (q : Nat)
  | maint (cur : Nat × Nat) (fut : Option (Nat × Nat)) (rot : Bool) (old : Nat × Nat) (q recent : Nat)
  | resizeOk
  | resizeErr        -- `lru.New` refuses a non-positive size; nothing is changed
  | badExt           -- the adversarial inputs contradict `validBits` / the queue length
  | nilCurrent       -- rotation with no future filter (`c.current = nil`); excluded when futPm ≤ rotPm
  deriving Repr, DecidableEq

def Filter.stat (f : Filter) : Nat × Nat := (f.count, f.slots)

/-- `CuckooTraceChecker.drain` on the first `a.k` queued ids. -/
def drainCore (cfg : Cfg) (s : St) (a : Adv) : Option St :=
  if a.k ≤ s.queue.length then
    let q := s.queue.take a.k
    if validBits cfg.minFull s.cur q.length a.failC a.lostC then
      match s.fut with
      | none =>
        if a.failF = 0 ∧ a.lostF = [] then
          some { s with queue := s.queue.drop a.k, cur := s.cur.insertAll q a.failC a.lostC }
        else none
      | some f =>
        if validBits cfg.minFull f q.length a.failF a.lostF then
          some { s with queue := s.queue.drop a.k, cur := s.cur.insertAll q a.failC a.lostC,
                        fut := some (f.insertAll q a.failF a.lostF) }
        else none
    else none
  else none

def fresh (cfg : Cfg) (s : St) : Filter := { slots := cfg.slots s.nextCap }

/-- The threshold part of `Maintain` (after its drain): the new state and whether it rotated;
`none` is the `current = nil` corner. -/
def maintainCore (cfg : Cfg) (s : St) : Option (St × Bool) :=
  let fut1 := match s.fut with
    | none => if over cfg.futPm s.cur.count s.cur.slots then some (fresh cfg s) else none
    | some f => some f
  if over cfg.rotPm s.cur.count s.cur.slots then
    match fut1 with
    | some f => some ({ s with cur := f, fut := some (fresh cfg s) }, true)
    | none => none
  else some ({ s with fut := fut1 }, false)

def recentSet (s : St) (id : Nat) : St := { s with recent := (TTL.step s.recent (.set id 0)).1 }

def recentHas (s : St) (id : Nat) : Bool := (TTL.lookup s.recent id).isSome

def ansOf (s : St) (e : Entry) : Ans :=
  .kept e.rate (reasonStr (reasonGet s.reasons e.reason)) e.ev e.se e.sl e.sp

/-- `Add`: non-blocking send on the buffered channel -/
def enqueue (cfg : Cfg) (s : St) (id : Nat) : St :=
  if s.queue.length < cfg.depth then { s with queue := s.queue ++ [id] } else s

def step (cfg : Cfg) (s : St) : Op → St × Out
  | .recKept id rate reason ev se sl sp =>
    let rs := reasonSet cfg.hash s.reasons reason
    let e : Entry := { id := id, rate := u32 rate, reason := rs.2, ev := ev, se := se, sl := sl, sp := sp }
    ({ s with reasons := rs.1, kept := lruAdd s.keptCap s.kept e }, .none)
  | .recDrop id => (enqueue cfg (recentSet s id) id, .none)
  | .checkSpan id kind fp =>
    if recentHas s id then (recentSet s id, .ans .dropped)
    else if s.cur.ids.contains id || fp then (recentSet s id, .ans .dropped)
    else match lruFind s.kept id with
      | some e =>
        let e' := e.count kind
        ({ s with kept := e' :: lruDel s.kept id }, .ans (ansOf s e'))
      | none => (s, .ans .notFound)
  | .checkTrace id fp =>
    -- the recent-drop set is consulted but, unlike `CheckSpan`, not refreshed
    if recentHas s id || s.cur.ids.contains id || fp then (s, .ans .dropped)
    else match lruFind s.kept id with
      | some e => ({ s with kept := e :: lruDel s.kept id }, .ans (ansOf s e))
      | none => (s, .ans .notFound)
  | .drain a =>
    match drainCore cfg s a with
    | some s' => (s', .drained s'.cur.stat (s'.fut.map Filter.stat) s'.queue.length)
    | none => (s, .badExt)
  | .maintain a =>
    match drainCore cfg s a with
    | none => (s, .badExt)
    | some s1 =>
      match maintainCore cfg s1 with
      | none => (s, .nilCurrent)
      | some (s2, rot) =>
        let s3 := { s2 with recent := TTL.cleanup s2.recent }
        (s3, .maint s3.cur.stat (s3.fut.map Filter.stat) rot s1.cur.stat s3.queue.length (TTL.length s2.recent))
  | .resize k d =>
    if k = 0 then (s, .resizeErr)
    else ({ s with kept := s.kept.take k, keptCap := k, nextCap := d }, .resizeOk)
  | .adv d => ({ s with recent := (TTL.step s.recent (.adv d)).1 }, .none)

def init (cfg : Cfg) (keptCap dropCap : Nat) : St :=
  { keptCap := keptCap, cur := { slots := cfg.slots dropCap }, nextCap := dropCap, recent := TTL.init cfg.ttl }

def runFrom (cfg : Cfg) (s : St) (ops : List Op) : St := ops.foldl (fun s o => (step cfg s o).1) s

def run (cfg : Cfg) (keptCap dropCap : Nat) (ops : List Op) : St := runFrom cfg (init cfg keptCap dropCap) ops

/-- `SampleCacheConfig.GetKeptSizePerWorker` / `GetDroppedSizePerWorker` (for `size + workers ≥ 1`) -/
def perWorker (size workers : Nat) : Nat := (size + workers - 1) / max workers 1

/-! ## The observable transcript and the touch sequence -/

/-- the run's transcript, oldest first -/
def transcript (cfg : Cfg) (s : St) : List Op → List (Op × Out)
  | [] => []
  | o :: t => (o, (step cfg s o).2) :: transcript cfg (step cfg s o).1 t

/-- A touch: a kept record, or a consult that was answered "kept". -/
def touchOf : Op × Out → Option Nat
  | (.recKept id .., _) => some id
  | (.checkSpan id .., .ans (.kept ..)) => some id
  | (.checkTrace id _, .ans (.kept ..)) => some id
  | _ => none

/-- touch sequence, most recent first -/
def touches (tr : List (Op × Out)) : List Nat := (tr.filterMap touchOf).reverse

/-- de-duplication keeping first occurrences -/
def dedup : List Nat → List Nat
  | [] => []
  | x :: t => x :: (dedup t).filter (fun y => y != x)

end Refinery.Model.SentCache
