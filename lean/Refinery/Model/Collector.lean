/-!
# Model of the trace collector (`collect.InMemCollector` + `CollectorWorker`)
  — component `collector`, properties C01, C02, C05

Anchors: `collect/collect.go` (`send`, `sendTraces`, `dealWithSentTrace`,
`mergeTraceAndSpanSampleRates`), `collect/collector_worker.go` (`processSpan`, `makeDecision`,
`sendExpiredTracesInCache`, `sendTracesEarly`, the reload branch of `collect()`),
`collect/cache/cache.go` (trace buffer), `collect/cache/cuckooSentCache.go` (decision record:
kept LRU, dropped filter + recent-drop set).

What is abstracted
* **Time.**  *When* a buffered trace is decided (deadline arithmetic, earliest-deadline-first,
  ejection order) belongs to the `deadline` model (C03/C07).  Here the op `decide t` is "the tick /
  ejection / span-limit path decided buffered trace `t` now"; the harness reports which traces a
  real `sendExpiredTracesInCache` / `sendTracesEarly` call took and replays one `decide` per trace.
* **The sampler** is the parameter `Params.decide : generation → trace → Decision`
  (`generation` = which rules file is loaded; bumped by `reload`).
* **Worker ownership** is the parameter `Params.owner : trace → worker` (the code: wyhash of the
  trace id modulo the worker count).  Every per-worker structure that is keyed by trace id (trace
  buffer, dropped record) is modelled as one structure keyed by trace id — a trace only ever
  reaches its owner; the kept-decision LRU, whose *capacity* is per worker, evicts the oldest entry
  of the inserting trace's owner.
* **The dropped half of the decision record** (`recentDroppedIDs.Contains ∨ dropped.Check`, a
  3-second TTL set in front of a cuckoo filter) is an *acceptor input* of each arrival
  (`Op.span … filt`): the filter may answer "dropped" for an id that was never recorded (false
  positive) or forget a recorded id (rotation, failed insert).  The model records the exact set
  `dropped` and ghost lists `falsePos` / `missed` saying when the answer deviated, so that C01's
  hypothesis "the decision is still remembered" is an explicit predicate of the history.

* **Stress relief.**  Whether the node is stressed is the state bit `stressed`, switched by
  `Op.stress` (the stress *level* computation is C15).  While stressed the router hands every span
  to `ProcessSpanImmediately` instead of `AddSpan` (`route.go processEvent`); its deterministic
  keep/drop answer is the parameter `Params.stressDecide`.  The ghost list `mixed` records the
  traces for which that path made a decision while spans of the trace were still buffered — C01's
  hypothesis "stress relief does not switch on while the trace is buffered" is `t ∉ mixed`.
* **Resize.**  Every reload calls `cuckooSentCache.Resize` with the configured kept size; `Op.resize c`
  is a reload that changes it: each worker keeps its newest `min(len, c)` kept records, order
  preserved (`resizeKept`); `c = 0` is refused by `lru.New` and changes nothing.

Span ids are assigned by the model in arrival order (`nextId`); the harness numbers arrivals the
same way.  Ghost fields (`accepted`, `decisions`, `discarded`, `stressDropped`, `missed`, `mixed`,
`falsePos`, `everDry`, `everWet`, `everStressed`) never influence the non-ghost part of a step.
-/
namespace Refinery.Model.Collector

/-- the sampler's answer for a trace (`GetSampleRate`) -/
structure Decision where
  keep : Bool
  rate : Nat
  reason : String := ""
  deriving Repr, DecidableEq, Inhabited

/-- an accepted span -/
structure SpanRec where
  id : Nat            -- arrival number
  trace : Nat
  root : Bool
  client : Nat        -- the client's sample rate (`sp.SampleRate` on arrival; 0 = absent)
  deriving Repr, DecidableEq

/-- an element of the `tracesToSend` channel -/
structure Sendable where
  trace : Nat
  spans : List SpanRec
  keep : Bool         -- `shouldSend`
  rate : Nat          -- `Trace.SampleRate()` after `makeDecision`
  reason : String
  deriving Repr, DecidableEq

/-- a span handed to `Transmission.EnqueueSpan` -/
structure Fwd where
  sid : Nat
  trace : Nat
  client : Nat              -- ghost copy of the client's rate
  rate : Nat                -- `SampleRate` of the forwarded event
  dry : Bool                -- `GetIsDryRun()` when it was forwarded
  marker : Option Bool      -- `meta.refinery.dryrun.kept`
  late : Bool               -- forwarded by `dealWithSentTrace`
  stress : Bool := false    -- forwarded by `ProcessSpanImmediately` (`meta.stressed`)
  deriving Repr, DecidableEq

/-- ghost: one `makeDecision` call -/
structure DecRec where
  trace : Nat
  keep : Bool
  rate : Nat
  dry : Bool                -- `GetIsDryRun()` when `send` ran
  stress : Bool := false    -- made by `ProcessSpanImmediately` (stress relief), not by the sampler
  deriving Repr, DecidableEq

structure Params where
  decide : Nat → Nat → Decision      -- generation → trace → decision
  owner : Nat → Nat                  -- trace → worker
  cap : Nat                          -- initial kept-decision LRU capacity per worker
  stressDecide : Nat → Decision := fun _ => { keep := true, rate := 1 }   -- `StressRelief.GetSampleRate`

inductive Op where
  /-- a span reaches the collector: its owning worker's `processSpan`, or `ProcessSpanImmediately`
  while stressed; `filt` = answer of the dropped half of the decision record for this trace id at
  this moment (only consulted when the decision record is looked up) -/
  | span (trace : Nat) (root : Bool) (client : Nat) (filt : Bool)
  /-- tick / ejection decides buffered trace `t` (`makeDecision` + `send`) -/
  | decide (trace : Nat)
  /-- `sendTraces` consumes one element of `tracesToSend` -/
  | drain
  /-- config reload: rules generation and DryRun -/
  | reload (gen : Nat) (dry : Bool)
  /-- config reload that sets the kept-decision capacity per worker -/
  | resize (cap : Nat)
  /-- stress relief switches on / off -/
  | stress (on : Bool)
  deriving Repr, DecidableEq

structure St where
  buf : List SpanRec := []           -- buffered spans of undecided traces, arrival order
  kept : List (Nat × Nat) := []      -- kept records (trace, uint32 rate), most recently used first
  dropped : List Nat := []           -- ids recorded as dropped (exact)
  toSend : List Sendable := []
  out : List Fwd := []
  dryRun : Bool := false
  gen : Nat := 0
  nextId : Nat := 0
  cap : Nat := 1                     -- kept records per worker in force
  stressed : Bool := false
  -- ghost
  accepted : List SpanRec := []
  decisions : List DecRec := []
  discarded : List SpanRec := []     -- spans dropped (by a drop decision or as late spans of a dropped trace)
  stressDropped : List SpanRec := [] -- spans dropped by `ProcessSpanImmediately` (ignores dry run)
  missed : List Nat := []            -- a span of an already decided trace found no record (buffered / decided anew)
  mixed : List Nat := []             -- stress relief decided the trace while spans of it were buffered
  falsePos : List Nat := []          -- the dropped filter claimed an id that was never recorded as dropped
  everDry : Bool := false            -- DryRun was on at some point
  everWet : Bool := false            -- DryRun was off at some point
  everStressed : Bool := false       -- stress relief was on at some point
  deriving Repr

def init (dry : Bool) (cap : Nat) : St := { dryRun := dry, everDry := dry, everWet := !dry, cap := cap }

/-- `tempSampleRate` of `mergeTraceAndSpanSampleRates`: absent/zero client rate counts as 1 -/
def clientOr1 (c : Nat) : Nat := if c < 1 then 1 else c

/-- the `SampleRate` `mergeTraceAndSpanSampleRates` leaves on the span (Go `uint` is 64 bit) -/
def fwdRate (client traceRate : Nat) (dry : Bool) : Nat :=
  if dry then clientOr1 client else (clientOr1 client * traceRate) % 18446744073709551616

def buffered (s : St) (t : Nat) : Bool := s.buf.any (fun sp => sp.trace == t)

def decided (s : St) (t : Nat) : Bool := s.decisions.any (fun d => d.trace == t)

/-- hashicorp LRU `Get`: a hit becomes the most recently used entry -/
def lruTouch (l : List (Nat × Nat)) (t : Nat) : List (Nat × Nat) :=
  match l.find? (fun e => e.1 == t) with
  | some e => e :: l.filter (fun e => e.1 != t)
  | none => l

/-- hashicorp LRU `Add` into the cache of `t`'s owner: front insert (replacing an existing entry),
then evict that worker's least recently used entry when it holds more than `cap`. -/
def lruAdd (P : Params) (cap : Nat) (l : List (Nat × Nat)) (t r : Nat) : List (Nat × Nat) :=
  let l1 := (t, r) :: l.filter (fun e => e.1 != t)
  let mine := l1.filter (fun e => P.owner e.1 == P.owner t)
  if mine.length > cap then
    match mine.getLast? with
    | some v => l1.filter (fun e => e.1 != v.1)
    | none => l1
  else l1

/-- `cuckooSentCache.Resize` in every worker: walking from the most recent entry, an entry survives
iff fewer than `c` entries of the same worker precede it (`seen` = the entries walked so far). -/
def resizeKept (P : Params) (c : Nat) : List (Nat × Nat) → List (Nat × Nat) → List (Nat × Nat)
  | [], _ => []
  | e :: rest, seen =>
    if (seen.filter (fun x => P.owner x.1 == P.owner e.1)).length < c then e :: resizeKept P c rest (e :: seen)
    else resizeKept P c rest (e :: seen)

def lateFwd (s : St) (sp : SpanRec) (r : Nat) : Fwd :=
  { sid := sp.id, trace := sp.trace, client := sp.client, rate := fwdRate sp.client r s.dryRun,
    dry := s.dryRun, marker := if s.dryRun then some true else none, late := true }

/-- `processSpan` -/
def arrive (s : St) (t : Nat) (root : Bool) (client : Nat) (filt : Bool) : St :=
  let sp : SpanRec := { id := s.nextId, trace := t, root := root, client := client }
  if buffered s t then
    -- trace is live: add the span
    { s with nextId := s.nextId + 1, accepted := s.accepted ++ [sp], buf := s.buf ++ [sp] }
  else if filt then
    -- CheckSpan: recently dropped / in the dropped filter  → dealWithSentTrace(dropped record)
    if s.dryRun then
      { s with nextId := s.nextId + 1, accepted := s.accepted ++ [sp],
               falsePos := if s.dropped.contains t then s.falsePos else t :: s.falsePos,
               out := s.out ++ [{ sid := sp.id, trace := t, client := client, rate := client,
                                   dry := true, marker := some false, late := true }] }
    else
      { s with nextId := s.nextId + 1, accepted := s.accepted ++ [sp],
               falsePos := if s.dropped.contains t then s.falsePos else t :: s.falsePos,
               discarded := s.discarded ++ [sp] }
  else
    match s.kept.find? (fun e => e.1 == t) with
    | some e =>
      -- CheckSpan: kept record → dealWithSentTrace(kept record)
      { s with nextId := s.nextId + 1, accepted := s.accepted ++ [sp],
               kept := lruTouch s.kept t,
               out := s.out ++ [lateFwd s sp e.2] }
    | none =>
      -- "we have no memory of this place": a new trace is buffered
      { s with nextId := s.nextId + 1, accepted := s.accepted ++ [sp], buf := s.buf ++ [sp],
               missed := if decided s t then t :: s.missed else s.missed }

/-- `makeDecision` (sampler, `sampleCache.Record`) followed by `send` for one buffered trace -/
def decideT (P : Params) (s : St) (t : Nat) : St :=
  let spans := s.buf.filter (fun sp => sp.trace == t)
  if spans.isEmpty then s
  else
    let d := P.decide s.gen t
    let rec_ : DecRec := { trace := t, keep := d.keep, rate := d.rate, dry := s.dryRun }
    if d.keep then
      { s with buf := s.buf.filter (fun sp => sp.trace != t),
               decisions := s.decisions ++ [rec_],
               kept := lruAdd P s.cap s.kept t d.rate,
               toSend := s.toSend ++ [{ trace := t, spans := spans, keep := true, rate := d.rate, reason := d.reason }] }
    else if s.dryRun then
      { s with buf := s.buf.filter (fun sp => sp.trace != t),
               decisions := s.decisions ++ [rec_],
               dropped := if s.dropped.contains t then s.dropped else t :: s.dropped,
               toSend := s.toSend ++ [{ trace := t, spans := spans, keep := false, rate := d.rate, reason := d.reason }] }
    else
      { s with buf := s.buf.filter (fun sp => sp.trace != t),
               decisions := s.decisions ++ [rec_],
               dropped := if s.dropped.contains t then s.dropped else t :: s.dropped,
               discarded := s.discarded ++ spans }

def sendFwd (s : St) (sd : Sendable) (sp : SpanRec) : Fwd :=
  { sid := sp.id, trace := sd.trace, client := sp.client, rate := fwdRate sp.client sd.rate s.dryRun,
    dry := s.dryRun, marker := if s.dryRun then some sd.keep else none, late := false }

/-- one iteration of the `sendTraces` loop -/
def drainOne (s : St) : St :=
  match s.toSend with
  | [] => s
  | sd :: rest => { s with toSend := rest, out := s.out ++ sd.spans.map (sendFwd s sd) }

/-- the reload branch of `collect()` (samplers cleared, `Resize` with the size in force) + the options
read at use time -/
def reloadCfg (P : Params) (s : St) (g : Nat) (dry : Bool) : St :=
  { s with gen := g, dryRun := dry, everDry := s.everDry || dry, everWet := s.everWet || !dry,
           kept := resizeKept P s.cap s.kept [] }

/-- a reload whose `SampleCache.KeptSize` gives `c` records per worker (`lru.New 0` fails: no change) -/
def resizeCfg (P : Params) (s : St) (c : Nat) : St :=
  if c = 0 then s else { s with cap := c, kept := resizeKept P c s.kept [] }

def setStress (s : St) (on : Bool) : St :=
  { s with stressed := on, everStressed := s.everStressed || on }

def stressFwd (s : St) (sp : SpanRec) (r : Nat) : Fwd :=
  { sid := sp.id, trace := sp.trace, client := sp.client, rate := fwdRate sp.client r s.dryRun,
    dry := s.dryRun, marker := none, late := false, stress := true }

/-- `ProcessSpanImmediately` (the router calls it instead of `AddSpan` while stressed) -/
def stressArrive (P : Params) (s : St) (t : Nat) (root : Bool) (client : Nat) (filt : Bool) : St :=
  let sp : SpanRec := { id := s.nextId, trace := t, root := root, client := client }
  if filt then
    -- CheckSpan: a dropped record → not kept (dry run is ignored)
    { s with nextId := s.nextId + 1, accepted := s.accepted ++ [sp],
             falsePos := if s.dropped.contains t then s.falsePos else t :: s.falsePos,
             stressDropped := s.stressDropped ++ [sp] }
  else
    match s.kept.find? (fun e => e.1 == t) with
    | some e =>
      -- CheckSpan: a kept record → forwarded with the recorded rate
      { s with nextId := s.nextId + 1, accepted := s.accepted ++ [sp],
               kept := lruTouch s.kept t,
               out := s.out ++ [stressFwd s sp e.2] }
    | none =>
      -- no record: deterministic stress decision, recorded for later spans
      let d := P.stressDecide t
      let rec_ : DecRec := { trace := t, keep := d.keep, rate := d.rate, dry := s.dryRun, stress := true }
      if d.keep then
        { s with nextId := s.nextId + 1, accepted := s.accepted ++ [sp],
                 decisions := s.decisions ++ [rec_],
                 kept := lruAdd P s.cap s.kept t d.rate,
                 missed := if decided s t then t :: s.missed else s.missed,
                 mixed := if buffered s t then t :: s.mixed else s.mixed,
                 out := s.out ++ [stressFwd s sp d.rate] }
      else
        { s with nextId := s.nextId + 1, accepted := s.accepted ++ [sp],
                 decisions := s.decisions ++ [rec_],
                 dropped := if s.dropped.contains t then s.dropped else t :: s.dropped,
                 missed := if decided s t then t :: s.missed else s.missed,
                 mixed := if buffered s t then t :: s.mixed else s.mixed,
                 stressDropped := s.stressDropped ++ [sp] }

def step (P : Params) (s : St) : Op → St
  | .span t root client filt => if s.stressed then stressArrive P s t root client filt else arrive s t root client filt
  | .decide t => decideT P s t
  | .drain => drainOne s
  | .reload g dry => reloadCfg P s g dry
  | .resize c => resizeCfg P s c
  | .stress on => setStress s on

def run (P : Params) (dry : Bool) (ops : List Op) : St := ops.foldl (step P) (init dry P.cap)

/-! ## Vocabulary of the property statements -/

def outIds (s : St) : List Nat := s.out.map (·.sid)

/-- number of times span `i` was handed to the transmission -/
def timesForwarded (s : St) (i : Nat) : Nat := (outIds s).count i

/-- C01's "the trace's decision is still remembered": no arrival of `t` after its decision missed
the record (eviction from the kept LRU by newer decisions or by a shrinking `Resize`, a drop the
filter forgot), and the dropped filter never claimed `t` without a recorded drop. -/
def Remembered (s : St) (t : Nat) : Prop := t ∉ s.missed ∧ t ∉ s.falsePos

/-- C01's "stress relief does not switch on while the trace is buffered": the stress path never
made a decision for `t` while spans of `t` were buffered. -/
def StressConstant (s : St) (t : Nat) : Prop := t ∉ s.mixed

/-- `t` has left the collector's queues: not buffered and not waiting in `tracesToSend` -/
def Quiescent (s : St) (t : Nat) : Prop :=
  (∀ sp ∈ s.buf, sp.trace ≠ t) ∧ (∀ sd ∈ s.toSend, sd.trace ≠ t)

instance (s : St) (t : Nat) : Decidable (Remembered s t) := by unfold Remembered; infer_instance
instance (s : St) (t : Nat) : Decidable (StressConstant s t) := by unfold StressConstant; infer_instance
instance (s : St) (t : Nat) : Decidable (Quiescent s t) := by unfold Quiescent; infer_instance

end Refinery.Model.Collector
