import Refinery.Basic.AList
/-!
# Model of the stress-relief path of one Refinery node  (property C16)

Code modelled (as it is now; `fixed = false`):

* `route.Router.processEvent` (route/route.go): probe discard on receipt, events without a trace
  id sent upstream, the stress branch (`Collector.Stressed()` → `ProcessSpanImmediately`;
  processed ∧ kept → `ev.Data.MetaRefineryProbe.Set(true)` **on the event that was just queued
  upstream**), forwarding to the owning peer (`ev.APIHost = targetShard.GetAddress()`,
  `PeerTransmission.EnqueueEvent(ev)` — also for the probe), skipping a probe of a locally owned
  trace, `Collector.AddSpan` / `AddSpanFromPeer`;
* `collect.InMemCollector.ProcessSpanImmediately` (collect/collect.go): look the trace up in the
  decision record, otherwise `StressRelief.GetSampleRate` and `sampleCache.Record`; a kept span is
  marked `meta.stressed`, its sample rate merged, and `Transmission.EnqueueSpan(sp)`;
* `collect.StressRelief.GetSampleRate` (collect/stressRelief.go): `sampleRate ≤ 1` keeps everything,
  otherwise `keep = hash(traceID) ≤ MaxUint64 / sampleRate`; the hash (wyhash with the package's
  seed) is a parameter: every span operation carries the hash of its trace id; the sampling rate is
  part of the state (`St.cfg`) and can be reloaded while relief is active;
* `collect.CollectorWorker.processSpan` / `dealWithSentTrace`: a span whose trace is buffered is
  added to it; otherwise a recorded decision is followed (kept: merged sample rate, sent upstream;
  dropped: nothing); otherwise a new trace is buffered;
* `cache.cuckooSentCache` (collect/cache/cuckooSentCache.go) as a finite map trace id ↦ decision
  (kept with its rate / dropped): no eviction, no false positives (see the assumptions of the check);
* `transmit.DirectTransmission` (transmit/direct_transmit.go): `EnqueueEvent` files the **pointer**
  under the key `(APIHost, APIKey, Dataset)` read at enqueue time; `sendBatch` reads destination
  host, key and dataset from the **first event of the batch at send time** and serialises every
  event's data at send time.

Aliasing (DESIGN §3.3): events live in an object store `ObjId → Ev`; queues and batches hold
`ObjId`s and read the record when they send.  The only writes to an object that is already in a
batch are the ones `processEvent` makes after `ProcessSpanImmediately` has queued it; they are
made in the code's order inside `spanStep` (the at-enqueue key is taken from the record as it was
at that moment, the record finally stored is what the transmission will read).

`fixed = true` is the repaired router: the probe is a *copy* of the event (a second object).
-/
namespace Refinery.Model.StressRoute

/-- `math.MaxUint64` -/
def maxU64 : Nat := 18446744073709551615

inductive Via where
  | incoming | peer
  deriving Repr, DecidableEq

inductive Tx where
  | up | peer
  deriving Repr, DecidableEq

/-- The parts of an event that are fixed once `processEvent` has returned: identity, routing
information and the payload's fields (`types.Event` minus `SampleRate`). -/
structure Core where
  sid : Nat                  -- the harness' span id field (= object id of the arriving event)
  tid : Nat                  -- trace id, 0: none
  host : Nat                 -- APIHost (codes: < 10 Honeycomb endpoints, ≥ 10 peer addresses)
  key : Nat                  -- APIKey
  ds : Nat                   -- Dataset
  stressed : Bool            -- meta.stressed
  probe : Option Bool        -- meta.refinery.probe (nullable bool)
  fields : List (Nat × Nat)  -- the user's fields
  deriving Repr, DecidableEq

/-- An event object: `SampleRate` is kept apart because `dealWithSentTrace` rewrites it on a span
that has been waiting in the collector's queue. -/
structure Ev where
  c : Core
  rate : Nat
  deriving Repr, DecidableEq

structure BKey where
  host : Nat
  key : Nat
  ds : Nat
  deriving Repr, DecidableEq

def keyOf (e : Ev) : BKey := ⟨e.c.host, e.c.key, e.c.ds⟩

/-- One HTTP request made by a transmission. -/
structure Req where
  tx : Tx
  dest : Nat
  key : Nat
  ds : Nat
  evs : List Ev
  deriving Repr, DecidableEq

/-- A remembered trace decision (`TraceSentRecord`: `Kept()`, `Rate()`). -/
structure Dec where
  keep : Bool
  rate : Nat
  deriving Repr, DecidableEq

structure Cfg where
  srate : Nat                -- StressRelief.SamplingRate
  deriving Repr

/-- `UpdateFromConfig`: a sampling rate of 0 is 1. -/
def effRate (c : Cfg) : Nat := if c.srate = 0 then 1 else c.srate

/-- `UpdateFromConfig`: `upperBound = MaxUint64 / sampleRate` -/
def bound (c : Cfg) : Nat := maxU64 / effRate c

/-- `StressRelief.GetSampleRate` with the trace id's hash `h`. -/
def hashRule (c : Cfg) (h : Nat) : Dec :=
  if effRate c ≤ 1 then ⟨true, 1⟩ else ⟨decide (h ≤ bound c), effRate c⟩

/-- What `sampleCache.Record` leaves behind: a kept record with the rate, or "dropped". -/
def recordOf (d : Dec) : Dec := if d.keep then d else ⟨false, 0⟩

/-- `mergeTraceAndSpanSampleRates` (not dry-run): the span's final sample rate. -/
def mergeRate (spanRate traceRate : Nat) : Nat := (if spanRate < 1 then 1 else spanRate) * traceRate

abbrev Batches := List (BKey × List Nat)

/-- `EnqueueEvent`: append the pointer to the batch of its at-enqueue key (batches in order of
first use since the last dispatch). -/
def enq : Batches → BKey → Nat → Batches
  | [], k, o => [(k, [o])]
  | (k', l) :: r, k, o => if k' = k then (k', l ++ [o]) :: r else (k', l) :: enq r k o

structure St where
  next : Nat := 0
  store : Nat → Ev
  up : Batches := []
  peer : Batches := []
  sent : AList Nat Dec := []
  live : AList Nat (List Nat) := []
  qIn : List Nat := []
  qPeer : List Nat := []
  stressed : Bool := false
  /-- the stress-relief configuration in force (`StressRelief.sampleRate` after the last
  `UpdateFromConfig`) -/
  cfg : Cfg := ⟨0⟩
  /-- ghost: every request made so far -/
  wire : List Req := []
  /-- ghost: the spans kept by the stress decision: object id and the event as it arrived -/
  kept : List (Nat × Ev) := []

def upd (f : Nat → Ev) (o : Nat) (e : Ev) : Nat → Ev := fun i => if i = o then e else f i

/-- The state of an object at the moment a transmission's `EnqueueEvent` was called with it. -/
structure Enq where
  tx : Tx
  obj : Nat
  key : BKey
  probe : Option Bool
  rate : Nat
  deriving Repr, DecidableEq

inductive Op where
  | stress (on : Bool)
  /-- an event arrives on the incoming / peer listener; `owner = none`: this node owns the trace;
  `e.c.sid`, `e.c.stressed` are ignored (set by the step); `h` is the stress hash of `e.c.tid` -/
  | span (via : Via) (owner : Option Nat) (e : Ev) (h : Nat)
  | work
  | flush (tx : Tx)
  /-- the configuration is reloaded with a new `StressRelief.SamplingRate`
  (`reloadConfigs` → `StressRelief.UpdateFromConfig`) -/
  | reload (srate : Nat)
  /-- the normal sampler decides a trace the node has no decision for and does not buffer
  (`makeDecision`: `trace.SetSampleRate(rate); sampleCache.Record(trace, keep, reason)`); otherwise
  nothing happens -/
  | decide (tid : Nat) (keep : Bool) (rate : Nat)
  deriving Repr

inductive Out where
  | rule (rate bound : Nat)
  | span (o : Nat) (enqs : List Enq)
  | work (o : Option (Nat × Via)) (enqs : List Enq)
  | flush (n : Nat) (q : List (BKey × List (Nat × Ev))) (reqs : List Req)
  | decided (done : Bool)
  deriving Repr

def blank : Ev := ⟨⟨0, 0, 0, 0, 0, false, none, []⟩, 0⟩

def init (c : Cfg) : St := { store := fun _ => blank, cfg := c }

/-- `ProcessSpanImmediately`: the decision (recorded one, else the deterministic rule) and the
decision record afterwards. -/
def immediate (c : Cfg) (sent : AList Nat Dec) (tid h : Nat) : Dec × AList Nat Dec :=
  match sent.get tid with
  | some d => (d, sent)
  | none => (recordOf (hashRule c h), sent.put tid (recordOf (hashRule c h)))

/-- The rest of `ProcessSpanImmediately` and of `processEvent` for a span `e1` (object `s.next`)
that stress relief keeps: queued upstream, then the probe. -/
def keptStep (fixed : Bool) (s : St) (owner : Option Nat) (e0 e1 : Ev) (sent' : AList Nat Dec) :
    St × Out :=
  let o := s.next
  let enqU : Enq := ⟨.up, o, keyOf e1, e1.c.probe, e1.rate⟩
  let up' := enq s.up (keyOf e1) o
  let kept' := s.kept ++ [(o, e0)]
  match fixed, owner with
  | false, none =>
    -- the queued event itself is marked as probe; the trace is ours: nothing is forwarded
    ({ s with next := o + 1, store := upd s.store o { e1 with c := { e1.c with probe := some true } },
              sent := sent', up := up', kept := kept' }, .span o [enqU])
  | false, some a =>
    -- the queued event itself is marked as probe, re-addressed and queued for the peer
    let e2 : Ev := { e1 with c := { e1.c with probe := some true, host := a } }
    ({ s with next := o + 1, store := upd s.store o e2, sent := sent', up := up',
              peer := enq s.peer (keyOf e2) o, kept := kept' },
      .span o [enqU, ⟨.peer, o, keyOf e2, e2.c.probe, e2.rate⟩])
  | true, none =>
    ({ s with next := o + 1, store := upd s.store o e1, sent := sent', up := up', kept := kept' },
      .span o [enqU])
  | true, some a =>
    -- the probe is a copy: a second object
    let p : Ev := { e1 with c := { e1.c with probe := some true, host := a } }
    ({ s with next := o + 2, store := upd (upd s.store o e1) (o + 1) p, sent := sent', up := up',
              peer := enq s.peer (keyOf p) (o + 1), kept := kept' },
      .span o [enqU, ⟨.peer, o + 1, keyOf p, p.c.probe, p.rate⟩])

/-- `Router.processEvent` for one arriving event. -/
def spanStep (fixed : Bool) (c : Cfg) (s : St) (via : Via) (owner : Option Nat) (e : Ev) (h : Nat) :
    St × Out :=
  let o := s.next
  let e0 : Ev := { e with c := { e.c with sid := o, stressed := false } }
  if e.c.probe = some true then
    -- a probe from another refinery: dropped
    ({ s with next := o + 1, store := upd s.store o e0 }, .span o [])
  else if e.c.tid = 0 then
    -- not part of a trace: upstream
    ({ s with next := o + 1, store := upd s.store o e0, up := enq s.up (keyOf e0) o },
      .span o [⟨.up, o, keyOf e0, e0.c.probe, e0.rate⟩])
  else if s.stressed then
    let ds := immediate c s.sent e.c.tid h
    if ds.1.keep = false then
      ({ s with next := o + 1, store := upd s.store o e0, sent := ds.2 }, .span o [])
    else
      -- decorated and sent: meta.stressed, merged sample rate
      keptStep fixed s owner e0
        { e0 with c := { e0.c with stressed := true }, rate := mergeRate e0.rate ds.1.rate } ds.2
  else
    match owner with
    | some a =>
      let e2 : Ev := { e0 with c := { e0.c with host := a } }
      ({ s with next := o + 1, store := upd s.store o e2, peer := enq s.peer (keyOf e2) o },
        .span o [⟨.peer, o, keyOf e2, e2.c.probe, e2.rate⟩])
    | none =>
      match via with
      | .incoming => ({ s with next := o + 1, store := upd s.store o e0, qIn := s.qIn ++ [o] }, .span o [])
      | .peer => ({ s with next := o + 1, store := upd s.store o e0, qPeer := s.qPeer ++ [o] }, .span o [])

/-- `CollectorWorker.processSpan` for the span `o` taken from a queue. -/
def processSpan (s : St) (o : Nat) (via : Via) : St × Out :=
  let e := s.store o
  match s.live.get e.c.tid with
  | some l => ({ s with live := s.live.put e.c.tid (l ++ [o]) }, .work (some (o, via)) [])
  | none =>
    match s.sent.get e.c.tid with
    | some d =>
      -- dealWithSentTrace
      if d.keep then
        ({ s with store := upd s.store o { e with rate := mergeRate e.rate d.rate }, up := enq s.up (keyOf e) o },
          .work (some (o, via)) [⟨.up, o, keyOf e, e.c.probe, mergeRate e.rate d.rate⟩])
      else (s, .work (some (o, via)) [])
    | none => ({ s with live := s.live.put e.c.tid [o] }, .work (some (o, via)) [])

/-- One iteration of `CollectorWorker.collect`: the peer queue is served first. -/
def workStep (s : St) : St × Out :=
  match s.qPeer with
  | o :: r => processSpan { s with qPeer := r } o .peer
  | [] =>
    match s.qIn with
    | o :: r => processSpan { s with qIn := r } o .incoming
    | [] => (s, .work none [])

/-- `sendBatch`: destination, key and dataset of the first event, everything read now. -/
def sendBatch (store : Nat → Ev) (tx : Tx) (l : List Nat) : List Req :=
  match l with
  | [] => []
  | o :: _ => [⟨tx, (store o).c.host, (store o).c.key, (store o).c.ds, l.map store⟩]

def sendAll (store : Nat → Ev) (tx : Tx) (b : Batches) : List Req :=
  b.flatMap (fun kb => sendBatch store tx kb.2)

def pendingView (store : Nat → Ev) (b : Batches) : List (BKey × List (Nat × Ev)) :=
  b.map (fun kb => (kb.1, kb.2.map (fun o => (o, store o))))

def countObjs (b : Batches) : Nat := (b.map (fun kb => kb.2.length)).sum

def flushStep (s : St) (tx : Tx) : St × Out :=
  match tx with
  | .up =>
    ({ s with up := [], wire := s.wire ++ sendAll s.store .up s.up },
      .flush (countObjs s.up) (pendingView s.store s.up) (sendAll s.store .up s.up))
  | .peer =>
    ({ s with peer := [], wire := s.wire ++ sendAll s.store .peer s.peer },
      .flush (countObjs s.peer) (pendingView s.store s.peer) (sendAll s.store .peer s.peer))

/-- A decision of the normal sampler, as far as the decision record is concerned. -/
def decideStep (s : St) (tid : Nat) (keep : Bool) (rate : Nat) : St × Out :=
  if tid = 0 ∨ (s.live.get tid).isSome ∨ (s.sent.get tid).isSome then (s, .decided false)
  else ({ s with sent := s.sent.put tid (recordOf ⟨keep, rate⟩) }, .decided true)

def step (fixed : Bool) (s : St) : Op → St × Out
  | .stress on => ({ s with stressed := on }, .rule (effRate s.cfg) (bound s.cfg))
  | .span via owner e h => spanStep fixed s.cfg s via owner e h
  | .work => workStep s
  | .flush tx => flushStep s tx
  | .reload n => ({ s with cfg := ⟨n⟩ }, .rule (effRate ⟨n⟩) (bound ⟨n⟩))
  | .decide tid keep rate => decideStep s tid keep rate

def runFrom (fixed : Bool) (s : St) (ops : List Op) : St :=
  ops.foldl (fun s o => (step fixed s o).1) s

def run (fixed : Bool) (c : Cfg) (ops : List Op) : St := runFrom fixed (init c) ops

end Refinery.Model.StressRoute
