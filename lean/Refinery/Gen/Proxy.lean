/- GENERATED on every run by tools/check from /repo's current tree (harness `facts`,
   i.e. values computed by the compiled code itself).  Do not edit. -/
namespace Refinery.Gen.Proxy

def mountDefaults := [("Access-Control-Allow-Origin", ["*"]), ("Content-Type", ["application/json"])]
def proxyFollowsRedirects : Int := 1

end Refinery.Gen.Proxy
