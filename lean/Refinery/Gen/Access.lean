import Refinery.Model.Locks
/- GENERATED on every run by tools/check C35 (harness/locks-extract) from the current tree of
   the repository: every lexical access to a field of the tracked structs with the mutexes of
   the same receiver expression held at that point.  Do not edit. -/
namespace Refinery.Gen.Access
open Refinery.Locks

/-! Locations: `Struct.field` of the tracked structs (`Struct.field*` = the object the field refers
    to, `Struct.method()` = call sites of a method that requires a mutex). -/
namespace L
def «InMemCollector.Config» : Nat := 0
def «InMemCollector.Logger» : Nat := 1
def «InMemCollector.Clock» : Nat := 2
def «InMemCollector.Tracer» : Nat := 3
def «InMemCollector.Health» : Nat := 4
def «InMemCollector.Sharder» : Nat := 5
def «InMemCollector.Transmission» : Nat := 6
def «InMemCollector.PeerTransmission» : Nat := 7
def «InMemCollector.PubSub» : Nat := 8
def «InMemCollector.Metrics» : Nat := 9
def «InMemCollector.SamplerFactory» : Nat := 10
def «InMemCollector.StressRelief» : Nat := 11
def «InMemCollector.Peers» : Nat := 12
def «InMemCollector.TestMode» : Nat := 13
def «InMemCollector.BlockOnAddSpan» : Nat := 14
def «InMemCollector.workers» : Nat := 15
def «InMemCollector.mutex» : Nat := 16
def «InMemCollector.monitorWG» : Nat := 17
def «InMemCollector.workersWG» : Nat := 18
def «InMemCollector.sendTracesWG» : Nat := 19
def «InMemCollector.reload» : Nat := 20
def «InMemCollector.tracesToSend» : Nat := 21
def «InMemCollector.done» : Nat := 22
def «InMemCollector.hostname» : Nat := 23
def «InMemCollector.memMetricSample» : Nat := 24
def «CollectorWorker.ID» : Nat := 25
def «CollectorWorker.parent» : Nat := 26
def «CollectorWorker.incoming» : Nat := 27
def «CollectorWorker.fromPeer» : Nat := 28
def «CollectorWorker.sendEarly» : Nat := 29
def «CollectorWorker.pause» : Nat := 30
def «CollectorWorker.reload» : Nat := 31
def «CollectorWorker.cache» : Nat := 32
def «CollectorWorker.sampleCache» : Nat := 33
def «CollectorWorker.datasetSamplers» : Nat := 34
def «CollectorWorker.lastCacheSize» : Nat := 35
def «CollectorWorker.localSpansWaiting» : Nat := 36
def «CollectorWorker.localSpanReceived» : Nat := 37
def «CollectorWorker.localSpanProcessed» : Nat := 38
def «CollectorWorker.healthCheckInAt» : Nat := 39
def «StressRelief.RefineryMetrics» : Nat := 40
def «StressRelief.Config» : Nat := 41
def «StressRelief.Logger» : Nat := 42
def «StressRelief.Health» : Nat := 43
def «StressRelief.PubSub» : Nat := 44
def «StressRelief.Peer» : Nat := 45
def «StressRelief.Clock» : Nat := 46
def «StressRelief.Done» : Nat := 47
def «StressRelief.mode» : Nat := 48
def «StressRelief.hostID» : Nat := 49
def «StressRelief.activateLevel» : Nat := 50
def «StressRelief.deactivateLevel» : Nat := 51
def «StressRelief.sampleRate» : Nat := 52
def «StressRelief.upperBound» : Nat := 53
def «StressRelief.overallStressLevel» : Nat := 54
def «StressRelief.reason» : Nat := 55
def «StressRelief.formula» : Nat := 56
def «StressRelief.stressed» : Nat := 57
def «StressRelief.stayOnUntil» : Nat := 58
def «StressRelief.minDuration» : Nat := 59
def «StressRelief.topic» : Nat := 60
def «StressRelief.algorithms» : Nat := 61
def «StressRelief.lock» : Nat := 62
def «StressRelief.stressLevels» : Nat := 63
def «StressRelief.disableStressLevelReport» : Nat := 64
def «CuckooTraceChecker.current» : Nat := 65
def «CuckooTraceChecker.current*» : Nat := 66
def «CuckooTraceChecker.future» : Nat := 67
def «CuckooTraceChecker.future*» : Nat := 68
def «CuckooTraceChecker.mut» : Nat := 69
def «CuckooTraceChecker.capacity» : Nat := 70
def «CuckooTraceChecker.met» : Nat := 71
def «CuckooTraceChecker.addch» : Nat := 72
def «CuckooTraceChecker.done» : Nat := 73
def «CuckooTraceChecker.shutdownWG» : Nat := 74
def «cuckooSentCache.met» : Nat := 75
def «cuckooSentCache.kept» : Nat := 76
def «cuckooSentCache.dropped» : Nat := 77
def «cuckooSentCache.recentDroppedIDs» : Nat := 78
def «cuckooSentCache.cfg» : Nat := 79
def «cuckooSentCache.done» : Nat := 80
def «cuckooSentCache.shutdownWG» : Nat := 81
def «cuckooSentCache.keptReasons» : Nat := 82
def «Router.Config» : Nat := 83
def «Router.Logger» : Nat := 84
def «Router.Health» : Nat := 85
def «Router.HTTPTransport» : Nat := 86
def «Router.UpstreamTransmission» : Nat := 87
def «Router.PeerTransmission» : Nat := 88
def «Router.Sharder» : Nat := 89
def «Router.Collector» : Nat := 90
def «Router.Metrics» : Nat := 91
def «Router.Tracer» : Nat := 92
def «Router.versionStr» : Nat := 93
def «Router.proxyClient» : Nat := 94
def «Router.routerType» : Nat := 95
def «Router.iopLogger» : Nat := 96
def «Router.zstdDecoder» : Nat := 97
def «Router.server» : Nat := 98
def «Router.grpcServer» : Nat := 99
def «Router.doneWG» : Nat := 100
def «Router.donech» : Nat := 101
def «Router.environmentCache» : Nat := 102
def «Router.hsrv» : Nat := 103
def «Router.metricsNames» : Nat := 104
def «environmentCache.mutex» : Nat := 105
def «environmentCache.items» : Nat := 106
def «environmentCache.ttl» : Nat := 107
def «environmentCache.getFn» : Nat := 108
def «eventBatch.mutex» : Nat := 109
def «eventBatch.events» : Nat := 110
def «eventBatch.startTime» : Nat := 111
def «DirectTransmission.Config» : Nat := 112
def «DirectTransmission.Logger» : Nat := 113
def «DirectTransmission.Version» : Nat := 114
def «DirectTransmission.Metrics» : Nat := 115
def «DirectTransmission.Transport» : Nat := 116
def «DirectTransmission.Clock» : Nat := 117
def «DirectTransmission.transmitType» : Nat := 118
def «DirectTransmission.enableCompression» : Nat := 119
def «DirectTransmission.maxBatchSize» : Nat := 120
def «DirectTransmission.batchTimeout» : Nat := 121
def «DirectTransmission.batchSendTimeout» : Nat := 122
def «DirectTransmission.additionalHeaders» : Nat := 123
def «DirectTransmission.eventBatches» : Nat := 124
def «DirectTransmission.batchMutex» : Nat := 125
def «DirectTransmission.dispatchPool» : Nat := 126
def «DirectTransmission.stop» : Nat := 127
def «DirectTransmission.stopWG» : Nat := 128
def «DirectTransmission.httpClient» : Nat := 129
def «DirectTransmission.userAgent» : Nat := 130
def «DirectTransmission.metricKeys» : Nat := 131
def «RedisPubsubPeers.Config» : Nat := 132
def «RedisPubsubPeers.Metrics» : Nat := 133
def «RedisPubsubPeers.Logger» : Nat := 134
def «RedisPubsubPeers.PubSub» : Nat := 135
def «RedisPubsubPeers.Clock» : Nat := 136
def «RedisPubsubPeers.InstanceID» : Nat := 137
def «RedisPubsubPeers.Done» : Nat := 138
def «RedisPubsubPeers.peers» : Nat := 139
def «RedisPubsubPeers.hash» : Nat := 140
def «RedisPubsubPeers.cbMut» : Nat := 141
def «RedisPubsubPeers.callbacks» : Nat := 142
def «RedisPubsubPeers.sub» : Nat := 143
def «RedisPubsubPeers.topic» : Nat := 144
def «fileConfig.mainConfig» : Nat := 145
def «fileConfig.mainHash» : Nat := 146
def «fileConfig.rulesConfig» : Nat := 147
def «fileConfig.rulesHash» : Nat := 148
def «fileConfig.opts» : Nat := 149
def «fileConfig.callbacks» : Nat := 150
def «fileConfig.mux» : Nat := 151
def «fileConfig.lastLoadTime» : Nat := 152
def «ConfigWatcher.Config» : Nat := 153
def «ConfigWatcher.Logger» : Nat := 154
def «ConfigWatcher.PubSub» : Nat := 155
def «ConfigWatcher.Tracer» : Nat := 156
def «ConfigWatcher.Clock» : Nat := 157
def «ConfigWatcher.subscr» : Nat := 158
def «ConfigWatcher.msgTime» : Nat := 159
def «ConfigWatcher.done» : Nat := 160
def «ConfigWatcher.mut» : Nat := 161
def «ConfigWatcher.topic» : Nat := 162
def «ConfigWatcher.Starter» : Nat := 163
def «ConfigWatcher.Stopper» : Nat := 164
def «MultiMetrics.Config» : Nat := 165
def «MultiMetrics.PromMetrics» : Nat := 166
def «MultiMetrics.OTelMetrics» : Nat := 167
def «MultiMetrics.children» : Nat := 168
def «MultiMetrics.counters» : Nat := 169
def «MultiMetrics.gauges» : Nat := 170
def «MultiMetrics.updowns» : Nat := 171
def «MultiMetrics.stores» : Nat := 172
def «MultiMetrics.metricTypes» : Nat := 173
def «SamplerFactory.Config» : Nat := 174
def «SamplerFactory.Logger» : Nat := 175
def «SamplerFactory.Metrics» : Nat := 176
def «SamplerFactory.Peers» : Nat := 177
def «SamplerFactory.peerCount» : Nat := 178
def «SamplerFactory.mutex» : Nat := 179
def «SamplerFactory.sharedDynsamplers» : Nat := 180
def «SamplerFactory.goalThroughputConfigs» : Nat := 181
def «DeterministicSharder.Config» : Nat := 182
def «DeterministicSharder.Logger» : Nat := 183
def «DeterministicSharder.Peers» : Nat := 184
def «DeterministicSharder.myShard» : Nat := 185
def «DeterministicSharder.peers» : Nat := 186
def «DeterministicSharder.hashes» : Nat := 187
def «DeterministicSharder.peerLock» : Nat := 188
def «environmentCache.addItem()» : Nat := 189
end L

/-! Functions and function literals (`Outer$n`) of the analysed packages. -/
namespace F
def «AccessKeyConfig.GetReplaceKey» : Nat := 0
def «AccessKeyConfig.HasKeyIDs» : Nat := 1
def «AccessKeyConfig.IsAccepted» : Nat := 2
def «CmdEnv.ApplyTags» : Nat := 3
def «CmdEnv.GetDelimiter» : Nat := 4
def «CmdEnv.GetField» : Nat := 5
def «CollectionConfig.GetIncomingQueueSizePerWorker» : Nat := 6
def «CollectionConfig.GetMaxAlloc» : Nat := 7
def «CollectionConfig.GetPeerQueueSizePerWorker» : Nat := 8
def «CollectionConfig.GetWorkerCount» : Nat := 9
def «CollectorWorker.GetCacheSize» : Nat := 10
def «CollectorWorker.IsHealthy» : Nat := 11
def «CollectorWorker.Stop» : Nat := 12
def «CollectorWorker.addSpan» : Nat := 13
def «CollectorWorker.addSpanFromPeer» : Nat := 14
def «CollectorWorker.collect» : Nat := 15
def «CollectorWorker.getLastSpanProcessed» : Nat := 16
def «CollectorWorker.makeDecision» : Nat := 17
def «CollectorWorker.processSpan» : Nat := 18
def «CollectorWorker.processSpan$1» : Nat := 19
def «CollectorWorker.sendExpiredTracesInCache» : Nat := 20
def «CollectorWorker.sendExpiredTracesInCache$1» : Nat := 21
def «CollectorWorker.sendTracesEarly» : Nat := 22
def «CollectorWorker.sendTracesEarly$1» : Nat := 23
def «ConfigHashMetrics» : Nat := 24
def «ConfigWatcher.ReloadCallback» : Nat := 25
def «ConfigWatcher.Start» : Nat := 26
def «ConfigWatcher.Stop» : Nat := 27
def «ConfigWatcher.SubscriptionListener» : Nat := 28
def «ConfigWatcher.monitor» : Nat := 29
def «ConvertBoolToFloat» : Nat := 30
def «CuckooTraceChecker.Add» : Nat := 31
def «CuckooTraceChecker.Check» : Nat := 32
def «CuckooTraceChecker.Maintain» : Nat := 33
def «CuckooTraceChecker.SetNextCapacity» : Nat := 34
def «CuckooTraceChecker.Stop» : Nat := 35
def «CuckooTraceChecker.drain» : Nat := 36
def «DefaultInMemCache.Get» : Nat := 37
def «DefaultInMemCache.GetAll» : Nat := 38
def «DefaultInMemCache.GetCacheCapacity» : Nat := 39
def «DefaultInMemCache.GetCacheEntryCount» : Nat := 40
def «DefaultInMemCache.RemoveTraces» : Nat := 41
def «DefaultInMemCache.Set» : Nat := 42
def «DefaultInMemCache.TakeExpiredTraces» : Nat := 43
def «DefaultTransmission.EnqueueEvent» : Nat := 44
def «DefaultTransmission.EnqueueSpan» : Nat := 45
def «DefaultTransmission.RegisterMetrics» : Nat := 46
def «DefaultTransmission.Start» : Nat := 47
def «DefaultTransmission.Start$1» : Nat := 48
def «DefaultTransmission.Start$2» : Nat := 49
def «DefaultTransmission.Stop» : Nat := 50
def «DefaultTransmission.processResponses» : Nat := 51
def «DefaultTransmission.reloadTransmissionBuilder» : Nat := 52
def «DefaultTrue.Get» : Nat := 53
def «DefaultTrue.MarshalText» : Nat := 54
def «DefaultTrue.UnmarshalText» : Nat := 55
def «Deprecation.GetDeprecationText» : Nat := 56
def «Deprecation.GetLastVersion» : Nat := 57
def «DeterministicSampler.GetKeyFields» : Nat := 58
def «DeterministicSampler.GetSampleRate» : Nat := 59
def «DeterministicSampler.Start» : Nat := 60
def «DeterministicSampler.Start$1» : Nat := 61
def «DeterministicSamplerConfig.GetSamplingFields» : Nat := 62
def «DeterministicSharder.MyShard» : Nat := 63
def «DeterministicSharder.Start» : Nat := 64
def «DeterministicSharder.Start$1» : Nat := 65
def «DeterministicSharder.Start$2» : Nat := 66
def «DeterministicSharder.Start@shared» : Nat := 67
def «DeterministicSharder.WhichShard» : Nat := 68
def «DeterministicSharder.currentPeers» : Nat := 69
def «DeterministicSharder.loadPeerList» : Nat := 70
def «DeterministicSharder.loadPeerList$1» : Nat := 71
def «DirectTransmission.EnqueueEvent» : Nat := 72
def «DirectTransmission.EnqueueEvent$1» : Nat := 73
def «DirectTransmission.EnqueueSpan» : Nat := 74
def «DirectTransmission.Start» : Nat := 75
def «DirectTransmission.Stop» : Nat := 76
def «DirectTransmission.Stop$1» : Nat := 77
def «DirectTransmission.dispatchStaleBatches» : Nat := 78
def «DirectTransmission.dispatchStaleBatches$1» : Nat := 79
def «DirectTransmission.handleBatchFailure» : Nat := 80
def «DirectTransmission.handleError» : Nat := 81
def «DirectTransmission.handleEventError» : Nat := 82
def «DirectTransmission.registerMetrics» : Nat := 83
def «DirectTransmission.sendBatch» : Nat := 84
def «Duration.MarshalText» : Nat := 85
def «Duration.UnmarshalText» : Nat := 86
def «DynamicSampler.GetKeyFields» : Nat := 87
def «DynamicSampler.GetSampleRate» : Nat := 88
def «DynamicSampler.Start» : Nat := 89
def «DynamicSampler.Start$1» : Nat := 90
def «DynamicSamplerConfig.GetSamplingFields» : Nat := 91
def «EMADynamicSampler.GetKeyFields» : Nat := 92
def «EMADynamicSampler.GetSampleRate» : Nat := 93
def «EMADynamicSampler.Start» : Nat := 94
def «EMADynamicSampler.Start$1» : Nat := 95
def «EMADynamicSamplerConfig.GetSamplingFields» : Nat := 96
def «EMAThroughputSampler.GetKeyFields» : Nat := 97
def «EMAThroughputSampler.GetSampleRate» : Nat := 98
def «EMAThroughputSampler.Start» : Nat := 99
def «EMAThroughputSampler.Start$1» : Nat := 100
def «EMAThroughputSamplerConfig.GetSamplingFields» : Nat := 101
def «FileConfigError.Error» : Nat := 102
def «FileConfigError.HasErrors» : Nat := 103
def «FilePeers.GetInstanceID» : Nat := 104
def «FilePeers.GetPeers» : Nat := 105
def «FilePeers.Ready» : Nat := 106
def «FilePeers.RegisterUpdatedPeersCallback» : Nat := 107
def «FilePeers.Start» : Nat := 108
def «FilePeers.Start$1» : Nat := 109
def «GetCollectorImplementation» : Nat := 110
def «GetKeyFields» : Nat := 111
def «GetMetricsImplementation» : Nat := 112
def «GetSharderImplementation» : Nat := 113
def «Group.GetDeprecationVersion» : Nat := 114
def «Group.IsDeprecated» : Nat := 115
def «HoneycombLoggerConfig.GetSamplerEnabled» : Nat := 116
def «InMemCollector.AddSpan» : Nat := 117
def «InMemCollector.AddSpanFromPeer» : Nat := 118
def «InMemCollector.GetStressedSampleRate» : Nat := 119
def «InMemCollector.IsMyTrace» : Nat := 120
def «InMemCollector.ProcessSpanImmediately» : Nat := 121
def «InMemCollector.Start» : Nat := 122
def «InMemCollector.Start$1» : Nat := 123
def «InMemCollector.Stop» : Nat := 124
def «InMemCollector.Stressed» : Nat := 125
def «InMemCollector.addAdditionalAttributes» : Nat := 126
def «InMemCollector.checkAlloc» : Nat := 127
def «InMemCollector.dealWithSentTrace» : Nat := 128
def «InMemCollector.getWorkerIDForTrace» : Nat := 129
def «InMemCollector.isReady» : Nat := 130
def «InMemCollector.monitor» : Nat := 131
def «InMemCollector.reloadConfigs» : Nat := 132
def «InMemCollector.send» : Nat := 133
def «InMemCollector.sendReloadSignal» : Nat := 134
def «InMemCollector.sendTraces» : Nat := 135
def «IsLegacyAPIKey» : Nat := 136
def «KeptReasonsCache.Get» : Nat := 137
def «KeptReasonsCache.Set» : Nat := 138
def «Level.MarshalText» : Nat := 139
def «Level.String» : Nat := 140
def «Level.UnmarshalText» : Nat := 141
def «LoadConfigMetadata» : Nat := 142
def «LoadRulesMetadata» : Nat := 143
def «LogsServer.Export» : Nat := 144
def «MemorySize.MarshalText» : Nat := 145
def «MemorySize.UnmarshalFlag» : Nat := 146
def «MemorySize.UnmarshalText» : Nat := 147
def «Metadata.ClosestNamesTo» : Nat := 148
def «Metadata.ClosestNamesTo$1» : Nat := 149
def «Metadata.GetField» : Nat := 150
def «Metadata.GetGroup» : Nat := 151
def «Metadata.LoadFrom» : Nat := 152
def «Metadata.Validate» : Nat := 153
def «Metadata.ValidateRules» : Nat := 154
def «MetricType.String» : Nat := 155
def «MockCollector.AddSpan» : Nat := 156
def «MockCollector.AddSpanFromPeer» : Nat := 157
def «MockCollector.Flush» : Nat := 158
def «MockCollector.GetStressedSampleRate» : Nat := 159
def «MockCollector.ProcessSpanImmediately» : Nat := 160
def «MockCollector.Stressed» : Nat := 161
def «MockConfig.DetermineSamplerKey» : Nat := 162
def «MockConfig.GetAccessKeyConfig» : Nat := 163
def «MockConfig.GetAddCountsToRoot» : Nat := 164
def «MockConfig.GetAddHostMetadataToTrace» : Nat := 165
def «MockConfig.GetAddRuleReasonToTrace» : Nat := 166
def «MockConfig.GetAddSpanCountToRoot» : Nat := 167
def «MockConfig.GetAdditionalAttributes» : Nat := 168
def «MockConfig.GetAdditionalErrorFields» : Nat := 169
def «MockConfig.GetAdditionalHeaders» : Nat := 170
def «MockConfig.GetAllSamplerRules» : Nat := 171
def «MockConfig.GetCollectionConfig» : Nat := 172
def «MockConfig.GetCollectorType» : Nat := 173
def «MockConfig.GetCompressPeerCommunication» : Nat := 174
def «MockConfig.GetConfigMetadata» : Nat := 175
def «MockConfig.GetDatasetPrefix» : Nat := 176
def «MockConfig.GetDebugServiceAddr» : Nat := 177
def «MockConfig.GetEnvironmentCacheTTL» : Nat := 178
def «MockConfig.GetGRPCConfig» : Nat := 179
def «MockConfig.GetGRPCEnabled» : Nat := 180
def «MockConfig.GetGRPCListenAddr» : Nat := 181
def «MockConfig.GetGeneralConfig» : Nat := 182
def «MockConfig.GetHTTPIdleTimeout» : Nat := 183
def «MockConfig.GetHashes» : Nat := 184
def «MockConfig.GetHealthCheckTimeout» : Nat := 185
def «MockConfig.GetHoneycombAPI» : Nat := 186
def «MockConfig.GetHoneycombLoggerConfig» : Nat := 187
def «MockConfig.GetIdentifierInterfaceName» : Nat := 188
def «MockConfig.GetIsDryRun» : Nat := 189
def «MockConfig.GetListenAddr» : Nat := 190
def «MockConfig.GetLoggerLevel» : Nat := 191
def «MockConfig.GetLoggerType» : Nat := 192
def «MockConfig.GetOTelMetricsConfig» : Nat := 193
def «MockConfig.GetOTelTracingConfig» : Nat := 194
def «MockConfig.GetOpAMPConfig» : Nat := 195
def «MockConfig.GetParentIdFieldNames» : Nat := 196
def «MockConfig.GetPeerListenAddr» : Nat := 197
def «MockConfig.GetPeerManagementType» : Nat := 198
def «MockConfig.GetPeerTimeout» : Nat := 199
def «MockConfig.GetPeers» : Nat := 200
def «MockConfig.GetPrometheusMetricsConfig» : Nat := 201
def «MockConfig.GetQueryAuthToken» : Nat := 202
def «MockConfig.GetRedisIdentifier» : Nat := 203
def «MockConfig.GetRedisPeerManagement» : Nat := 204
def «MockConfig.GetSampleCacheConfig» : Nat := 205
def «MockConfig.GetSamplerConfigForDestName» : Nat := 206
def «MockConfig.GetSamplingKeyFieldsForDestName» : Nat := 207
def «MockConfig.GetStdoutLoggerConfig» : Nat := 208
def «MockConfig.GetStressReliefConfig» : Nat := 209
def «MockConfig.GetTraceIdFieldNames» : Nat := 210
def «MockConfig.GetTracesConfig» : Nat := 211
def «MockConfig.GetUseIPV6Identifier» : Nat := 212
def «MockConfig.RegisterReloadCallback» : Nat := 213
def «MockConfig.Reload» : Nat := 214
def «MockConfig.SetMaxAlloc» : Nat := 215
def «MockGRPCHealthWatchServer.GetSentMessages» : Nat := 216
def «MockGRPCHealthWatchServer.Send» : Nat := 217
def «MockMetrics.Count» : Nat := 218
def «MockMetrics.Down» : Nat := 219
def «MockMetrics.Gauge» : Nat := 220
def «MockMetrics.Get» : Nat := 221
def «MockMetrics.GetHistogramCount» : Nat := 222
def «MockMetrics.Histogram» : Nat := 223
def «MockMetrics.Increment» : Nat := 224
def «MockMetrics.Register» : Nat := 225
def «MockMetrics.Start» : Nat := 226
def «MockMetrics.Stop» : Nat := 227
def «MockMetrics.Store» : Nat := 228
def «MockMetrics.Up» : Nat := 229
def «MockPeers.GetInstanceID» : Nat := 230
def «MockPeers.GetPeers» : Nat := 231
def «MockPeers.Ready» : Nat := 232
def «MockPeers.RegisterUpdatedPeersCallback» : Nat := 233
def «MockPeers.Start» : Nat := 234
def «MockPeers.UpdatePeers» : Nat := 235
def «MockSharder.MyShard» : Nat := 236
def «MockSharder.WhichShard» : Nat := 237
def «MockStressReliever.GetSampleRate» : Nat := 238
def «MockStressReliever.Recalc» : Nat := 239
def «MockStressReliever.ShouldSampleDeterministically» : Nat := 240
def «MockStressReliever.Start» : Nat := 241
def «MockStressReliever.Stressed» : Nat := 242
def «MockStressReliever.UpdateFromConfig» : Nat := 243
def «MockTransmission.EnqueueEvent» : Nat := 244
def «MockTransmission.EnqueueSpan» : Nat := 245
def «MockTransmission.GetBlock» : Nat := 246
def «MockTransmission.RegisterMetrics» : Nat := 247
def «MockTransmission.Start» : Nat := 248
def «MockTransmission.Stop» : Nat := 249
def «MultiMetrics.AddChild» : Nat := 250
def «MultiMetrics.Children» : Nat := 251
def «MultiMetrics.Count» : Nat := 252
def «MultiMetrics.Down» : Nat := 253
def «MultiMetrics.Gauge» : Nat := 254
def «MultiMetrics.Get» : Nat := 255
def «MultiMetrics.Histogram» : Nat := 256
def «MultiMetrics.Increment» : Nat := 257
def «MultiMetrics.Register» : Nat := 258
def «MultiMetrics.Start» : Nat := 259
def «MultiMetrics.Store» : Nat := 260
def «MultiMetrics.Up» : Nat := 261
def «NewCmdEnvOptions» : Nat := 262
def «NewCollectorWorker» : Nat := 263
def «NewConfig» : Nat := 264
def «NewConfigData» : Nat := 265
def «NewCuckooSentCache» : Nat := 266
def «NewCuckooTraceChecker» : Nat := 267
def «NewCuckooTraceChecker$1» : Nat := 268
def «NewDefaultTransmission» : Nat := 269
def «NewDirectTransmission» : Nat := 270
def «NewInMemCache» : Nat := 271
def «NewInMemCache$1» : Nat := 272
def «NewInMemCache$2» : Nat := 273
def «NewKeptReasonsCache» : Nat := 274
def «NewKeptTraceCacheEntry» : Nat := 275
def «NewLogsServer» : Nat := 276
def «NewMockCollector» : Nat := 277
def «NewMockPeers» : Nat := 278
def «NewMultiMetrics» : Nat := 279
def «NewTraceServer» : Nat := 280
def «NullMetrics.Count» : Nat := 281
def «NullMetrics.Down» : Nat := 282
def «NullMetrics.Gauge» : Nat := 283
def «NullMetrics.Get» : Nat := 284
def «NullMetrics.Histogram» : Nat := 285
def «NullMetrics.Increment» : Nat := 286
def «NullMetrics.Register» : Nat := 287
def «NullMetrics.Start» : Nat := 288
def «NullMetrics.Stop» : Nat := 289
def «NullMetrics.Store» : Nat := 290
def «NullMetrics.Up» : Nat := 291
def «OTelMetrics.Count» : Nat := 292
def «OTelMetrics.Down» : Nat := 293
def «OTelMetrics.Gauge» : Nat := 294
def «OTelMetrics.Histogram» : Nat := 295
def «OTelMetrics.Increment» : Nat := 296
def «OTelMetrics.Register» : Nat := 297
def «OTelMetrics.Start» : Nat := 298
def «OTelMetrics.Start$1» : Nat := 299
def «OTelMetrics.Start$2» : Nat := 300
def «OTelMetrics.Start$3» : Nat := 301
def «OTelMetrics.Start$4» : Nat := 302
def «OTelMetrics.Stop» : Nat := 303
def «OTelMetrics.Up» : Nat := 304
def «OTelMetrics.getOrInitCounter» : Nat := 305
def «OTelMetrics.getOrInitGauge» : Nat := 306
def «OTelMetrics.getOrInitHistogram» : Nat := 307
def «OTelMetrics.getOrInitUpDown» : Nat := 308
def «ParseLevel» : Nat := 309
def «PrefixMetricName» : Nat := 310
def «PromMetrics.Count» : Nat := 311
def «PromMetrics.Down» : Nat := 312
def «PromMetrics.Gauge» : Nat := 313
def «PromMetrics.Histogram» : Nat := 314
def «PromMetrics.Increment» : Nat := 315
def «PromMetrics.Register» : Nat := 316
def «PromMetrics.Start» : Nat := 317
def «PromMetrics.Start$1» : Nat := 318
def «PromMetrics.Up» : Nat := 319
def «RedisPubsubPeers.GetInstanceID» : Nat := 320
def «RedisPubsubPeers.GetPeers» : Nat := 321
def «RedisPubsubPeers.Ready» : Nat := 322
def «RedisPubsubPeers.Ready$1» : Nat := 323
def «RedisPubsubPeers.RegisterUpdatedPeersCallback» : Nat := 324
def «RedisPubsubPeers.Start» : Nat := 325
def «RedisPubsubPeers.checkHash» : Nat := 326
def «RedisPubsubPeers.listen» : Nat := 327
def «RedisPubsubPeers.stop» : Nat := 328
def «Router.AddOTLPMuxxer» : Nat := 329
def «Router.Check» : Nat := 330
def «Router.LnS» : Nat := 331
def «Router.LnS$1» : Nat := 332
def «Router.SetEnvironmentCache» : Nat := 333
def «Router.SetEnvironmentCache$1» : Nat := 334
def «Router.SetType» : Nat := 335
def «Router.SetVersion» : Nat := 336
def «Router.Stop» : Nat := 337
def «Router.Watch» : Nat := 338
def «Router.alive» : Nat := 339
def «Router.apiKeyProcessor» : Nat := 340
def «Router.apiKeyProcessor$1» : Nat := 341
def «Router.batch» : Nat := 342
def «Router.debugTrace» : Nat := 343
def «Router.event» : Nat := 344
def «Router.getAllSamplerRules» : Nat := 345
def «Router.getConfigMetadata» : Nat := 346
def «Router.getEnvironmentName» : Nat := 347
def «Router.getKeyID» : Nat := 348
def «Router.getSamplerRules» : Nat := 349
def «Router.handleOTLPFailureResponse» : Nat := 350
def «Router.handlerReturnWithError» : Nat := 351
def «Router.lookupEnvironment» : Nat := 352
def «Router.marshalToFormat» : Nat := 353
def «Router.panic» : Nat := 354
def «Router.panicCatcher» : Nat := 355
def «Router.panicCatcher$1» : Nat := 356
def «Router.panicCatcher$2» : Nat := 357
def «Router.postOTLPLogs» : Nat := 358
def «Router.postOTLPTrace» : Nat := 359
def «Router.processEvent» : Nat := 360
def «Router.processOTLPRequest» : Nat := 361
def «Router.processOTLPRequestBatchMsgp» : Nat := 362
def «Router.processOTLPRequestWithMsgp» : Nat := 363
def «Router.proxy» : Nat := 364
def «Router.queryTokenChecker» : Nat := 365
def «Router.queryTokenChecker$1» : Nat := 366
def «Router.readAndCloseMaybeCompressedBody» : Nat := 367
def «Router.readBodyToBuffer» : Nat := 368
def «Router.readGzipBody» : Nat := 369
def «Router.readUncompressedBody» : Nat := 370
def «Router.readZstdBody» : Nat := 371
def «Router.ready» : Nat := 372
def «Router.registerMetricNames» : Nat := 373
def «Router.requestLogger» : Nat := 374
def «Router.requestLogger$1» : Nat := 375
def «Router.requestToEvent» : Nat := 376
def «Router.setResponseHeaders» : Nat := 377
def «Router.setResponseHeaders$1» : Nat := 378
def «Router.startGRPCHealthMonitor» : Nat := 379
def «Router.startGRPCHealthMonitor$1» : Nat := 380
def «Router.startGRPCHealthMonitor$2» : Nat := 381
def «Router.version» : Nat := 382
def «RulesBasedDownstreamSampler.GetSamplingFields» : Nat := 383
def «RulesBasedDownstreamSampler.NameMeaningfulRate» : Nat := 384
def «RulesBasedSampler.GetKeyFields» : Nat := 385
def «RulesBasedSampler.GetSampleRate» : Nat := 386
def «RulesBasedSampler.Start» : Nat := 387
def «RulesBasedSampler.Start$1» : Nat := 388
def «RulesBasedSamplerCondition.GetComputedField» : Nat := 389
def «RulesBasedSamplerCondition.Init» : Nat := 390
def «RulesBasedSamplerCondition.Init$1» : Nat := 391
def «RulesBasedSamplerCondition.String» : Nat := 392
def «RulesBasedSamplerCondition.setMatchesFunction» : Nat := 393
def «RulesBasedSamplerCondition.setMatchesFunction$1» : Nat := 394
def «RulesBasedSamplerCondition.setMatchesFunction$2» : Nat := 395
def «RulesBasedSamplerConfig.GetSamplingFields» : Nat := 396
def «RulesBasedSamplerConfig.String» : Nat := 397
def «RulesBasedSamplerRule.String» : Nat := 398
def «SampleCacheConfig.GetDroppedSizePerWorker» : Nat := 399
def «SampleCacheConfig.GetKeptSizePerWorker» : Nat := 400
def «SamplerFactory.ClearDynsamplers» : Nat := 401
def «SamplerFactory.GetDownstreamSampler» : Nat := 402
def «SamplerFactory.GetSamplerImplementationForKey» : Nat := 403
def «SamplerFactory.Start» : Nat := 404
def «SamplerFactory.Stop» : Nat := 405
def «SamplerFactory.createSampler» : Nat := 406
def «SamplerFactory.updatePeerCounts» : Nat := 407
def «SerializeToYAML» : Nat := 408
def «SingleServerSharder.MyShard» : Nat := 409
def «SingleServerSharder.WhichShard» : Nat := 410
def «SingleShard.Equals» : Nat := 411
def «SingleShard.GetAddress» : Nat := 412
def «SortableShardList.Equals» : Nat := 413
def «SortableShardList.Len» : Nat := 414
def «SortableShardList.Less» : Nat := 415
def «SortableShardList.Swap» : Nat := 416
def «StressRelief.GetSampleRate» : Nat := 417
def «StressRelief.Recalc» : Nat := 418
def «StressRelief.Start» : Nat := 419
def «StressRelief.Start$1» : Nat := 420
def «StressRelief.Start$2» : Nat := 421
def «StressRelief.Stressed» : Nat := 422
def «StressRelief.UpdateFromConfig» : Nat := 423
def «StressRelief.clusterStressLevel» : Nat := 424
def «StressRelief.linear» : Nat := 425
def «StressRelief.onStressLevelUpdate» : Nat := 426
def «StressRelief.ratio» : Nat := 427
def «StressRelief.sigmoid» : Nat := 428
def «StressRelief.sqrt» : Nat := 429
def «StressRelief.square» : Nat := 430
def «TestShard.Equals» : Nat := 431
def «TestShard.GetAddress» : Nat := 432
def «TotalThroughputSampler.GetKeyFields» : Nat := 433
def «TotalThroughputSampler.GetSampleRate» : Nat := 434
def «TotalThroughputSampler.Start» : Nat := 435
def «TotalThroughputSampler.Start$1» : Nat := 436
def «TotalThroughputSamplerConfig.GetSamplingFields» : Nat := 437
def «TraceServer.ExportTraceData» : Nat := 438
def «TracesConfig.GetBatchTimeout» : Nat := 439
def «TracesConfig.GetMaxBatchSize» : Nat := 440
def «TracesConfig.GetMaxExpiredTraces» : Nat := 441
def «TracesConfig.GetSendDelay» : Nat := 442
def «TracesConfig.GetSendTickerValue» : Nat := 443
def «TracesConfig.GetTraceTimeout» : Nat := 444
def «TryConvertToBool» : Nat := 445
def «V2SamplerChoice.GetSamplingFields» : Nat := 446
def «V2SamplerChoice.NameMeaningfulSamplers» : Nat := 447
def «V2SamplerChoice.Sampler» : Nat := 448
def «V2SamplerConfig.check» : Nat := 449
def «Validation.GetArgAsStringSlice» : Nat := 450
def «ValidationResult.IsError» : Nat := 451
def «ValidationResult.isEmpty» : Nat := 452
def «ValidationResults.HasErrors» : Nat := 453
def «WindowedThroughputSampler.GetKeyFields» : Nat := 454
def «WindowedThroughputSampler.GetSampleRate» : Nat := 455
def «WindowedThroughputSampler.Start» : Nat := 456
def «WindowedThroughputSampler.Start$1» : Nat := 457
def «WindowedThroughputSamplerConfig.GetSamplingFields» : Nat := 458
def «WithConfigData» : Nat := 459
def «WithConfigData$1» : Nat := 460
def «WithRulesData» : Nat := 461
def «WithRulesData$1» : Nat := 462
def «addIncomingUserAgent» : Nat := 463
def «applyCmdEnvTags» : Nat := 464
def «applyConfigInto» : Nat := 465
def «asFloat» : Nat := 466
def «batchedEvent.MarshalMsg» : Nat := 467
def «batchedEvent.UnmarshalMsg» : Nat := 468
def «batchedEvent.getEventTime» : Nat := 469
def «batchedEvent.getSampleRate» : Nat := 470
def «batchedEvents.MarshalJSON» : Nat := 471
def «batchedEvents.UnmarshalJSON» : Nat := 472
def «batchedEvents.UnmarshalMsg» : Nat := 473
def «batchedEvents.unmarshalBatchedEventFromFastJSON» : Nat := 474
def «batchedEvents.unmarshalBatchedEventFromFastJSON$1» : Nat := 475
def «batchedEvents.unmarshalBatchedEventFromFastJSON$2» : Nat := 476
def «buildRequestURL» : Nat := 477
def «checkForDeprecation» : Nat := 478
def «clamp» : Nat := 479
def «compare» : Nat := 480
def «compareVersions» : Nat := 481
def «conditionMatchesValue» : Nat := 482
def «convertToString» : Nat := 483
def «createDynForDynamicSampler» : Nat := 484
def «createDynForEMADynamicSampler» : Nat := 485
def «createDynForEMAThroughputSampler» : Nat := 486
def «createDynForTotalThroughputSampler» : Nat := 487
def «createDynForWindowedThroughputSampler» : Nat := 488
def «cuckooDroppedRecord.Count» : Nat := 489
def «cuckooDroppedRecord.DescendantCount» : Nat := 490
def «cuckooDroppedRecord.Kept» : Nat := 491
def «cuckooDroppedRecord.Rate» : Nat := 492
def «cuckooDroppedRecord.Reason» : Nat := 493
def «cuckooDroppedRecord.SpanCount» : Nat := 494
def «cuckooDroppedRecord.SpanEventCount» : Nat := 495
def «cuckooDroppedRecord.SpanLinkCount» : Nat := 496
def «cuckooSentCache.CheckSpan» : Nat := 497
def «cuckooSentCache.CheckTrace» : Nat := 498
def «cuckooSentCache.Record» : Nat := 499
def «cuckooSentCache.Resize» : Nat := 500
def «cuckooSentCache.Stop» : Nat := 501
def «cuckooSentCache.monitor» : Nat := 502
def «customTraceExportHandler» : Nat := 503
def «customTraceExportHandler$1» : Nat := 504
def «detShard.Equals» : Nat := 505
def «detShard.GetAddress» : Nat := 506
def «detShard.GetHashesFor» : Nat := 507
def «distinctValue.AddAsString» : Nat := 508
def «distinctValue.Reset» : Nat := 509
def «distinctValue.Values» : Nat := 510
def «dynsamplerMetricsRecorder.RecordMetrics» : Nat := 511
def «dynsamplerMetricsRecorder.RegisterMetrics» : Nat := 512
def «envGetterFunc» : Nat := 513
def «environmentCache.addItem» : Nat := 514
def «environmentCache.get» : Nat := 515
def «expandEnvVarsInConfig» : Nat := 516
def «expandEnvVarsInString» : Nat := 517
def «expandEnvVarsInString$1» : Nat := 518
def «expandEnvVarsInValues» : Nat := 519
def «extractValueFromSpan» : Nat := 520
def «fileConfig.DetermineSamplerKey» : Nat := 521
def «fileConfig.GetAccessKeyConfig» : Nat := 522
def «fileConfig.GetAddCountsToRoot» : Nat := 523
def «fileConfig.GetAddHostMetadataToTrace» : Nat := 524
def «fileConfig.GetAddRuleReasonToTrace» : Nat := 525
def «fileConfig.GetAddSpanCountToRoot» : Nat := 526
def «fileConfig.GetAdditionalAttributes» : Nat := 527
def «fileConfig.GetAdditionalErrorFields» : Nat := 528
def «fileConfig.GetAdditionalHeaders» : Nat := 529
def «fileConfig.GetAllSamplerRules» : Nat := 530
def «fileConfig.GetCollectionConfig» : Nat := 531
def «fileConfig.GetCompressPeerCommunication» : Nat := 532
def «fileConfig.GetConfigMetadata» : Nat := 533
def «fileConfig.GetDatasetPrefix» : Nat := 534
def «fileConfig.GetDebugServiceAddr» : Nat := 535
def «fileConfig.GetEnvironmentCacheTTL» : Nat := 536
def «fileConfig.GetGRPCConfig» : Nat := 537
def «fileConfig.GetGRPCEnabled» : Nat := 538
def «fileConfig.GetGRPCListenAddr» : Nat := 539
def «fileConfig.GetGeneralConfig» : Nat := 540
def «fileConfig.GetHTTPIdleTimeout» : Nat := 541
def «fileConfig.GetHashes» : Nat := 542
def «fileConfig.GetHealthCheckTimeout» : Nat := 543
def «fileConfig.GetHoneycombAPI» : Nat := 544
def «fileConfig.GetHoneycombLoggerConfig» : Nat := 545
def «fileConfig.GetIdentifierInterfaceName» : Nat := 546
def «fileConfig.GetIsDryRun» : Nat := 547
def «fileConfig.GetListenAddr» : Nat := 548
def «fileConfig.GetLoggerLevel» : Nat := 549
def «fileConfig.GetLoggerType» : Nat := 550
def «fileConfig.GetOTelMetricsConfig» : Nat := 551
def «fileConfig.GetOTelTracingConfig» : Nat := 552
def «fileConfig.GetOpAMPConfig» : Nat := 553
def «fileConfig.GetParentIdFieldNames» : Nat := 554
def «fileConfig.GetPeerListenAddr» : Nat := 555
def «fileConfig.GetPeerManagementType» : Nat := 556
def «fileConfig.GetPeerTimeout» : Nat := 557
def «fileConfig.GetPeers» : Nat := 558
def «fileConfig.GetPrometheusMetricsConfig» : Nat := 559
def «fileConfig.GetQueryAuthToken» : Nat := 560
def «fileConfig.GetRedisAuthCode» : Nat := 561
def «fileConfig.GetRedisClusterHosts» : Nat := 562
def «fileConfig.GetRedisDatabase» : Nat := 563
def «fileConfig.GetRedisHost» : Nat := 564
def «fileConfig.GetRedisIdentifier» : Nat := 565
def «fileConfig.GetRedisPassword» : Nat := 566
def «fileConfig.GetRedisPeerManagement» : Nat := 567
def «fileConfig.GetRedisPrefix» : Nat := 568
def «fileConfig.GetRedisUsername» : Nat := 569
def «fileConfig.GetSampleCacheConfig» : Nat := 570
def «fileConfig.GetSamplerConfigForDestName» : Nat := 571
def «fileConfig.GetSamplingKeyFieldsForDestName» : Nat := 572
def «fileConfig.GetStdoutLoggerConfig» : Nat := 573
def «fileConfig.GetStressReliefConfig» : Nat := 574
def «fileConfig.GetTraceIdFieldNames» : Nat := 575
def «fileConfig.GetTracesConfig» : Nat := 576
def «fileConfig.GetUseIPV6Identifier» : Nat := 577
def «fileConfig.GetUseTLS» : Nat := 578
def «fileConfig.GetUseTLSInsecure» : Nat := 579
def «fileConfig.RegisterReloadCallback» : Nat := 580
def «fileConfig.Reload» : Nat := 581
def «flatten» : Nat := 582
def «formatFromFilename» : Nat := 583
def «formatFromResponse» : Nat := 584
def «getAPIKeyAndDatasetFromMetadata» : Nat := 585
def «getBytesFor» : Nat := 586
def «getConfigDataForLocations» : Nat := 587
def «getDatasetFromRequest» : Nat := 588
def «getDefaultTrueValue» : Nat := 589
def «getEventTime» : Nat := 590
def «getFirstValueFromMetadata» : Nat := 591
def «getIdentifierFromInterface» : Nat := 592
def «getMetricType» : Nat := 593
def «getPeerManagementConfig» : Nat := 594
def «getRefineryTelemetryConfig» : Nat := 595
def «getSharedDynsamplerAndRecorder» : Nat := 596
def «getUserAgentFromRequest» : Nat := 597
def «hashList» : Nat := 598
def «init» : Nat := 599
def «iopLogger.Debug» : Nat := 600
def «iopLogger.Error» : Nat := 601
def «iopLogger.Info» : Nat := 602
def «isString» : Nat := 603
def «isVersionDeprecated» : Nat := 604
def «keptTraceCacheEntry.Count» : Nat := 605
def «keptTraceCacheEntry.DescendantCount» : Nat := 606
def «keptTraceCacheEntry.Kept» : Nat := 607
def «keptTraceCacheEntry.Rate» : Nat := 608
def «keptTraceCacheEntry.SpanCount» : Nat := 609
def «keptTraceCacheEntry.SpanEventCount» : Nat := 610
def «keptTraceCacheEntry.SpanLinkCount» : Nat := 611
def «load» : Nat := 612
def «loadConfigsInto» : Nat := 613
def «loadConfigsIntoMap» : Nat := 614
def «loadNamedMetadata» : Nat := 615
def «makeDecoders» : Nat := 616
def «makeDynsamplerKey» : Nat := 617
def «maskString» : Nat := 618
def «mergeTraceAndSpanSampleRates» : Nat := 619
def «mustFloat» : Nat := 620
def «newBatchedEvents» : Nat := 621
def «newConfigAndRules» : Nat := 622
def «newEnvironmentCache» : Nat := 623
def «newFileConfig» : Nat := 624
def «newPeerCommand» : Nat := 625
def «newSamplerMetricNames» : Nat := 626
def «newStressReliefMessage» : Nat := 627
def «newTraceKey» : Nat := 628
def «parseFractionalEpoch» : Nat := 629
def «peerCommand.marshal» : Nat := 630
def «peerCommand.unmarshal» : Nat := 631
def «populateConfigContents» : Nat := 632
def «publicAddr» : Nat := 633
def «randStringBytes» : Nat := 634
def «recycleHTTPBodyBuffer» : Nat := 635
def «registerCustomTraceService» : Nat := 636
def «ruleMatchesSpanInTrace» : Nat := 637
def «ruleMatchesTrace» : Nat := 638
def «selectIPFromAddrs» : Nat := 639
def «setCompareOperators» : Nat := 640
def «setCompareOperators$1» : Nat := 641
def «setCompareOperators$10» : Nat := 642
def «setCompareOperators$11» : Nat := 643
def «setCompareOperators$12» : Nat := 644
def «setCompareOperators$13» : Nat := 645
def «setCompareOperators$14» : Nat := 646
def «setCompareOperators$15» : Nat := 647
def «setCompareOperators$16» : Nat := 648
def «setCompareOperators$17» : Nat := 649
def «setCompareOperators$18» : Nat := 650
def «setCompareOperators$19» : Nat := 651
def «setCompareOperators$2» : Nat := 652
def «setCompareOperators$20» : Nat := 653
def «setCompareOperators$3» : Nat := 654
def «setCompareOperators$4» : Nat := 655
def «setCompareOperators$5» : Nat := 656
def «setCompareOperators$6» : Nat := 657
def «setCompareOperators$7» : Nat := 658
def «setCompareOperators$8» : Nat := 659
def «setCompareOperators$9» : Nat := 660
def «setInBasedOperators» : Nat := 661
def «setInBasedOperators$1» : Nat := 662
def «setInBasedOperators$2» : Nat := 663
def «setInBasedOperators$3» : Nat := 664
def «setInBasedOperators$4» : Nat := 665
def «setMatchStringBasedOperators» : Nat := 666
def «setMatchStringBasedOperators$1» : Nat := 667
def «setMatchStringBasedOperators$2» : Nat := 668
def «setMatchStringBasedOperators$3» : Nat := 669
def «setRegexStringMatchOperator» : Nat := 670
def «setRegexStringMatchOperator$1» : Nat := 671
def «statusRecorder.WriteHeader» : Nat := 672
def «stressReliefMessage.String» : Nat := 673
def «traceKey.build» : Nat := 674
def «translatedTraceServiceRequest.ProtoMessage» : Nat := 675
def «translatedTraceServiceRequest.Reset» : Nat := 676
def «translatedTraceServiceRequest.String» : Nat := 677
def «translatedTraceServiceRequest.Unmarshal» : Nat := 678
def «tryConvertToFloat» : Nat := 679
def «tryConvertToInt» : Nat := 680
def «unmarshal» : Nat := 681
def «unmarshalStressReliefMessage» : Nat := 682
def «validateConfigs» : Nat := 683
def «validateDatatype» : Nat := 684
def «validateRules» : Nat := 685
def «writeYAMLToFile» : Nat := 686
end F

def locNames : List String := ["InMemCollector.Config", "InMemCollector.Logger", "InMemCollector.Clock", "InMemCollector.Tracer", "InMemCollector.Health", "InMemCollector.Sharder", "InMemCollector.Transmission", "InMemCollector.PeerTransmission", "InMemCollector.PubSub", "InMemCollector.Metrics", "InMemCollector.SamplerFactory", "InMemCollector.StressRelief", "InMemCollector.Peers", "InMemCollector.TestMode", "InMemCollector.BlockOnAddSpan", "InMemCollector.workers", "InMemCollector.mutex", "InMemCollector.monitorWG", "InMemCollector.workersWG", "InMemCollector.sendTracesWG", "InMemCollector.reload", "InMemCollector.tracesToSend", "InMemCollector.done", "InMemCollector.hostname", "InMemCollector.memMetricSample", "CollectorWorker.ID", "CollectorWorker.parent", "CollectorWorker.incoming", "CollectorWorker.fromPeer", "CollectorWorker.sendEarly", "CollectorWorker.pause", "CollectorWorker.reload", "CollectorWorker.cache", "CollectorWorker.sampleCache", "CollectorWorker.datasetSamplers", "CollectorWorker.lastCacheSize", "CollectorWorker.localSpansWaiting", "CollectorWorker.localSpanReceived", "CollectorWorker.localSpanProcessed", "CollectorWorker.healthCheckInAt", "StressRelief.RefineryMetrics", "StressRelief.Config", "StressRelief.Logger", "StressRelief.Health", "StressRelief.PubSub", "StressRelief.Peer", "StressRelief.Clock", "StressRelief.Done", "StressRelief.mode", "StressRelief.hostID", "StressRelief.activateLevel", "StressRelief.deactivateLevel", "StressRelief.sampleRate", "StressRelief.upperBound", "StressRelief.overallStressLevel", "StressRelief.reason", "StressRelief.formula", "StressRelief.stressed", "StressRelief.stayOnUntil", "StressRelief.minDuration", "StressRelief.topic", "StressRelief.algorithms", "StressRelief.lock", "StressRelief.stressLevels", "StressRelief.disableStressLevelReport", "CuckooTraceChecker.current", "CuckooTraceChecker.current*", "CuckooTraceChecker.future", "CuckooTraceChecker.future*", "CuckooTraceChecker.mut", "CuckooTraceChecker.capacity", "CuckooTraceChecker.met", "CuckooTraceChecker.addch", "CuckooTraceChecker.done", "CuckooTraceChecker.shutdownWG", "cuckooSentCache.met", "cuckooSentCache.kept", "cuckooSentCache.dropped", "cuckooSentCache.recentDroppedIDs", "cuckooSentCache.cfg", "cuckooSentCache.done", "cuckooSentCache.shutdownWG", "cuckooSentCache.keptReasons", "Router.Config", "Router.Logger", "Router.Health", "Router.HTTPTransport", "Router.UpstreamTransmission", "Router.PeerTransmission", "Router.Sharder", "Router.Collector", "Router.Metrics", "Router.Tracer", "Router.versionStr", "Router.proxyClient", "Router.routerType", "Router.iopLogger", "Router.zstdDecoder", "Router.server", "Router.grpcServer", "Router.doneWG", "Router.donech", "Router.environmentCache", "Router.hsrv", "Router.metricsNames", "environmentCache.mutex", "environmentCache.items", "environmentCache.ttl", "environmentCache.getFn", "eventBatch.mutex", "eventBatch.events", "eventBatch.startTime", "DirectTransmission.Config", "DirectTransmission.Logger", "DirectTransmission.Version", "DirectTransmission.Metrics", "DirectTransmission.Transport", "DirectTransmission.Clock", "DirectTransmission.transmitType", "DirectTransmission.enableCompression", "DirectTransmission.maxBatchSize", "DirectTransmission.batchTimeout", "DirectTransmission.batchSendTimeout", "DirectTransmission.additionalHeaders", "DirectTransmission.eventBatches", "DirectTransmission.batchMutex", "DirectTransmission.dispatchPool", "DirectTransmission.stop", "DirectTransmission.stopWG", "DirectTransmission.httpClient", "DirectTransmission.userAgent", "DirectTransmission.metricKeys", "RedisPubsubPeers.Config", "RedisPubsubPeers.Metrics", "RedisPubsubPeers.Logger", "RedisPubsubPeers.PubSub", "RedisPubsubPeers.Clock", "RedisPubsubPeers.InstanceID", "RedisPubsubPeers.Done", "RedisPubsubPeers.peers", "RedisPubsubPeers.hash", "RedisPubsubPeers.cbMut", "RedisPubsubPeers.callbacks", "RedisPubsubPeers.sub", "RedisPubsubPeers.topic", "fileConfig.mainConfig", "fileConfig.mainHash", "fileConfig.rulesConfig", "fileConfig.rulesHash", "fileConfig.opts", "fileConfig.callbacks", "fileConfig.mux", "fileConfig.lastLoadTime", "ConfigWatcher.Config", "ConfigWatcher.Logger", "ConfigWatcher.PubSub", "ConfigWatcher.Tracer", "ConfigWatcher.Clock", "ConfigWatcher.subscr", "ConfigWatcher.msgTime", "ConfigWatcher.done", "ConfigWatcher.mut", "ConfigWatcher.topic", "ConfigWatcher.Starter", "ConfigWatcher.Stopper", "MultiMetrics.Config", "MultiMetrics.PromMetrics", "MultiMetrics.OTelMetrics", "MultiMetrics.children", "MultiMetrics.counters", "MultiMetrics.gauges", "MultiMetrics.updowns", "MultiMetrics.stores", "MultiMetrics.metricTypes", "SamplerFactory.Config", "SamplerFactory.Logger", "SamplerFactory.Metrics", "SamplerFactory.Peers", "SamplerFactory.peerCount", "SamplerFactory.mutex", "SamplerFactory.sharedDynsamplers", "SamplerFactory.goalThroughputConfigs", "DeterministicSharder.Config", "DeterministicSharder.Logger", "DeterministicSharder.Peers", "DeterministicSharder.myShard", "DeterministicSharder.peers", "DeterministicSharder.hashes", "DeterministicSharder.peerLock", "environmentCache.addItem()"]

def fnNames : List String := ["AccessKeyConfig.GetReplaceKey", "AccessKeyConfig.HasKeyIDs", "AccessKeyConfig.IsAccepted", "CmdEnv.ApplyTags", "CmdEnv.GetDelimiter", "CmdEnv.GetField", "CollectionConfig.GetIncomingQueueSizePerWorker", "CollectionConfig.GetMaxAlloc", "CollectionConfig.GetPeerQueueSizePerWorker", "CollectionConfig.GetWorkerCount", "CollectorWorker.GetCacheSize", "CollectorWorker.IsHealthy", "CollectorWorker.Stop", "CollectorWorker.addSpan", "CollectorWorker.addSpanFromPeer", "CollectorWorker.collect", "CollectorWorker.getLastSpanProcessed", "CollectorWorker.makeDecision", "CollectorWorker.processSpan", "CollectorWorker.processSpan$1", "CollectorWorker.sendExpiredTracesInCache", "CollectorWorker.sendExpiredTracesInCache$1", "CollectorWorker.sendTracesEarly", "CollectorWorker.sendTracesEarly$1", "ConfigHashMetrics", "ConfigWatcher.ReloadCallback", "ConfigWatcher.Start", "ConfigWatcher.Stop", "ConfigWatcher.SubscriptionListener", "ConfigWatcher.monitor", "ConvertBoolToFloat", "CuckooTraceChecker.Add", "CuckooTraceChecker.Check", "CuckooTraceChecker.Maintain", "CuckooTraceChecker.SetNextCapacity", "CuckooTraceChecker.Stop", "CuckooTraceChecker.drain", "DefaultInMemCache.Get", "DefaultInMemCache.GetAll", "DefaultInMemCache.GetCacheCapacity", "DefaultInMemCache.GetCacheEntryCount", "DefaultInMemCache.RemoveTraces", "DefaultInMemCache.Set", "DefaultInMemCache.TakeExpiredTraces", "DefaultTransmission.EnqueueEvent", "DefaultTransmission.EnqueueSpan", "DefaultTransmission.RegisterMetrics", "DefaultTransmission.Start", "DefaultTransmission.Start$1", "DefaultTransmission.Start$2", "DefaultTransmission.Stop", "DefaultTransmission.processResponses", "DefaultTransmission.reloadTransmissionBuilder", "DefaultTrue.Get", "DefaultTrue.MarshalText", "DefaultTrue.UnmarshalText", "Deprecation.GetDeprecationText", "Deprecation.GetLastVersion", "DeterministicSampler.GetKeyFields", "DeterministicSampler.GetSampleRate", "DeterministicSampler.Start", "DeterministicSampler.Start$1", "DeterministicSamplerConfig.GetSamplingFields", "DeterministicSharder.MyShard", "DeterministicSharder.Start", "DeterministicSharder.Start$1", "DeterministicSharder.Start$2", "DeterministicSharder.Start@shared", "DeterministicSharder.WhichShard", "DeterministicSharder.currentPeers", "DeterministicSharder.loadPeerList", "DeterministicSharder.loadPeerList$1", "DirectTransmission.EnqueueEvent", "DirectTransmission.EnqueueEvent$1", "DirectTransmission.EnqueueSpan", "DirectTransmission.Start", "DirectTransmission.Stop", "DirectTransmission.Stop$1", "DirectTransmission.dispatchStaleBatches", "DirectTransmission.dispatchStaleBatches$1", "DirectTransmission.handleBatchFailure", "DirectTransmission.handleError", "DirectTransmission.handleEventError", "DirectTransmission.registerMetrics", "DirectTransmission.sendBatch", "Duration.MarshalText", "Duration.UnmarshalText", "DynamicSampler.GetKeyFields", "DynamicSampler.GetSampleRate", "DynamicSampler.Start", "DynamicSampler.Start$1", "DynamicSamplerConfig.GetSamplingFields", "EMADynamicSampler.GetKeyFields", "EMADynamicSampler.GetSampleRate", "EMADynamicSampler.Start", "EMADynamicSampler.Start$1", "EMADynamicSamplerConfig.GetSamplingFields", "EMAThroughputSampler.GetKeyFields", "EMAThroughputSampler.GetSampleRate", "EMAThroughputSampler.Start", "EMAThroughputSampler.Start$1", "EMAThroughputSamplerConfig.GetSamplingFields", "FileConfigError.Error", "FileConfigError.HasErrors", "FilePeers.GetInstanceID", "FilePeers.GetPeers", "FilePeers.Ready", "FilePeers.RegisterUpdatedPeersCallback", "FilePeers.Start", "FilePeers.Start$1", "GetCollectorImplementation", "GetKeyFields", "GetMetricsImplementation", "GetSharderImplementation", "Group.GetDeprecationVersion", "Group.IsDeprecated", "HoneycombLoggerConfig.GetSamplerEnabled", "InMemCollector.AddSpan", "InMemCollector.AddSpanFromPeer", "InMemCollector.GetStressedSampleRate", "InMemCollector.IsMyTrace", "InMemCollector.ProcessSpanImmediately", "InMemCollector.Start", "InMemCollector.Start$1", "InMemCollector.Stop", "InMemCollector.Stressed", "InMemCollector.addAdditionalAttributes", "InMemCollector.checkAlloc", "InMemCollector.dealWithSentTrace", "InMemCollector.getWorkerIDForTrace", "InMemCollector.isReady", "InMemCollector.monitor", "InMemCollector.reloadConfigs", "InMemCollector.send", "InMemCollector.sendReloadSignal", "InMemCollector.sendTraces", "IsLegacyAPIKey", "KeptReasonsCache.Get", "KeptReasonsCache.Set", "Level.MarshalText", "Level.String", "Level.UnmarshalText", "LoadConfigMetadata", "LoadRulesMetadata", "LogsServer.Export", "MemorySize.MarshalText", "MemorySize.UnmarshalFlag", "MemorySize.UnmarshalText", "Metadata.ClosestNamesTo", "Metadata.ClosestNamesTo$1", "Metadata.GetField", "Metadata.GetGroup", "Metadata.LoadFrom", "Metadata.Validate", "Metadata.ValidateRules", "MetricType.String", "MockCollector.AddSpan", "MockCollector.AddSpanFromPeer", "MockCollector.Flush", "MockCollector.GetStressedSampleRate", "MockCollector.ProcessSpanImmediately", "MockCollector.Stressed", "MockConfig.DetermineSamplerKey", "MockConfig.GetAccessKeyConfig", "MockConfig.GetAddCountsToRoot", "MockConfig.GetAddHostMetadataToTrace", "MockConfig.GetAddRuleReasonToTrace", "MockConfig.GetAddSpanCountToRoot", "MockConfig.GetAdditionalAttributes", "MockConfig.GetAdditionalErrorFields", "MockConfig.GetAdditionalHeaders", "MockConfig.GetAllSamplerRules", "MockConfig.GetCollectionConfig", "MockConfig.GetCollectorType", "MockConfig.GetCompressPeerCommunication", "MockConfig.GetConfigMetadata", "MockConfig.GetDatasetPrefix", "MockConfig.GetDebugServiceAddr", "MockConfig.GetEnvironmentCacheTTL", "MockConfig.GetGRPCConfig", "MockConfig.GetGRPCEnabled", "MockConfig.GetGRPCListenAddr", "MockConfig.GetGeneralConfig", "MockConfig.GetHTTPIdleTimeout", "MockConfig.GetHashes", "MockConfig.GetHealthCheckTimeout", "MockConfig.GetHoneycombAPI", "MockConfig.GetHoneycombLoggerConfig", "MockConfig.GetIdentifierInterfaceName", "MockConfig.GetIsDryRun", "MockConfig.GetListenAddr", "MockConfig.GetLoggerLevel", "MockConfig.GetLoggerType", "MockConfig.GetOTelMetricsConfig", "MockConfig.GetOTelTracingConfig", "MockConfig.GetOpAMPConfig", "MockConfig.GetParentIdFieldNames", "MockConfig.GetPeerListenAddr", "MockConfig.GetPeerManagementType", "MockConfig.GetPeerTimeout", "MockConfig.GetPeers", "MockConfig.GetPrometheusMetricsConfig", "MockConfig.GetQueryAuthToken", "MockConfig.GetRedisIdentifier", "MockConfig.GetRedisPeerManagement", "MockConfig.GetSampleCacheConfig", "MockConfig.GetSamplerConfigForDestName", "MockConfig.GetSamplingKeyFieldsForDestName", "MockConfig.GetStdoutLoggerConfig", "MockConfig.GetStressReliefConfig", "MockConfig.GetTraceIdFieldNames", "MockConfig.GetTracesConfig", "MockConfig.GetUseIPV6Identifier", "MockConfig.RegisterReloadCallback", "MockConfig.Reload", "MockConfig.SetMaxAlloc", "MockGRPCHealthWatchServer.GetSentMessages", "MockGRPCHealthWatchServer.Send", "MockMetrics.Count", "MockMetrics.Down", "MockMetrics.Gauge", "MockMetrics.Get", "MockMetrics.GetHistogramCount", "MockMetrics.Histogram", "MockMetrics.Increment", "MockMetrics.Register", "MockMetrics.Start", "MockMetrics.Stop", "MockMetrics.Store", "MockMetrics.Up", "MockPeers.GetInstanceID", "MockPeers.GetPeers", "MockPeers.Ready", "MockPeers.RegisterUpdatedPeersCallback", "MockPeers.Start", "MockPeers.UpdatePeers", "MockSharder.MyShard", "MockSharder.WhichShard", "MockStressReliever.GetSampleRate", "MockStressReliever.Recalc", "MockStressReliever.ShouldSampleDeterministically", "MockStressReliever.Start", "MockStressReliever.Stressed", "MockStressReliever.UpdateFromConfig", "MockTransmission.EnqueueEvent", "MockTransmission.EnqueueSpan", "MockTransmission.GetBlock", "MockTransmission.RegisterMetrics", "MockTransmission.Start", "MockTransmission.Stop", "MultiMetrics.AddChild", "MultiMetrics.Children", "MultiMetrics.Count", "MultiMetrics.Down", "MultiMetrics.Gauge", "MultiMetrics.Get", "MultiMetrics.Histogram", "MultiMetrics.Increment", "MultiMetrics.Register", "MultiMetrics.Start", "MultiMetrics.Store", "MultiMetrics.Up", "NewCmdEnvOptions", "NewCollectorWorker", "NewConfig", "NewConfigData", "NewCuckooSentCache", "NewCuckooTraceChecker", "NewCuckooTraceChecker$1", "NewDefaultTransmission", "NewDirectTransmission", "NewInMemCache", "NewInMemCache$1", "NewInMemCache$2", "NewKeptReasonsCache", "NewKeptTraceCacheEntry", "NewLogsServer", "NewMockCollector", "NewMockPeers", "NewMultiMetrics", "NewTraceServer", "NullMetrics.Count", "NullMetrics.Down", "NullMetrics.Gauge", "NullMetrics.Get", "NullMetrics.Histogram", "NullMetrics.Increment", "NullMetrics.Register", "NullMetrics.Start", "NullMetrics.Stop", "NullMetrics.Store", "NullMetrics.Up", "OTelMetrics.Count", "OTelMetrics.Down", "OTelMetrics.Gauge", "OTelMetrics.Histogram", "OTelMetrics.Increment", "OTelMetrics.Register", "OTelMetrics.Start", "OTelMetrics.Start$1", "OTelMetrics.Start$2", "OTelMetrics.Start$3", "OTelMetrics.Start$4", "OTelMetrics.Stop", "OTelMetrics.Up", "OTelMetrics.getOrInitCounter", "OTelMetrics.getOrInitGauge", "OTelMetrics.getOrInitHistogram", "OTelMetrics.getOrInitUpDown", "ParseLevel", "PrefixMetricName", "PromMetrics.Count", "PromMetrics.Down", "PromMetrics.Gauge", "PromMetrics.Histogram", "PromMetrics.Increment", "PromMetrics.Register", "PromMetrics.Start", "PromMetrics.Start$1", "PromMetrics.Up", "RedisPubsubPeers.GetInstanceID", "RedisPubsubPeers.GetPeers", "RedisPubsubPeers.Ready", "RedisPubsubPeers.Ready$1", "RedisPubsubPeers.RegisterUpdatedPeersCallback", "RedisPubsubPeers.Start", "RedisPubsubPeers.checkHash", "RedisPubsubPeers.listen", "RedisPubsubPeers.stop", "Router.AddOTLPMuxxer", "Router.Check", "Router.LnS", "Router.LnS$1", "Router.SetEnvironmentCache", "Router.SetEnvironmentCache$1", "Router.SetType", "Router.SetVersion", "Router.Stop", "Router.Watch", "Router.alive", "Router.apiKeyProcessor", "Router.apiKeyProcessor$1", "Router.batch", "Router.debugTrace", "Router.event", "Router.getAllSamplerRules", "Router.getConfigMetadata", "Router.getEnvironmentName", "Router.getKeyID", "Router.getSamplerRules", "Router.handleOTLPFailureResponse", "Router.handlerReturnWithError", "Router.lookupEnvironment", "Router.marshalToFormat", "Router.panic", "Router.panicCatcher", "Router.panicCatcher$1", "Router.panicCatcher$2", "Router.postOTLPLogs", "Router.postOTLPTrace", "Router.processEvent", "Router.processOTLPRequest", "Router.processOTLPRequestBatchMsgp", "Router.processOTLPRequestWithMsgp", "Router.proxy", "Router.queryTokenChecker", "Router.queryTokenChecker$1", "Router.readAndCloseMaybeCompressedBody", "Router.readBodyToBuffer", "Router.readGzipBody", "Router.readUncompressedBody", "Router.readZstdBody", "Router.ready", "Router.registerMetricNames", "Router.requestLogger", "Router.requestLogger$1", "Router.requestToEvent", "Router.setResponseHeaders", "Router.setResponseHeaders$1", "Router.startGRPCHealthMonitor", "Router.startGRPCHealthMonitor$1", "Router.startGRPCHealthMonitor$2", "Router.version", "RulesBasedDownstreamSampler.GetSamplingFields", "RulesBasedDownstreamSampler.NameMeaningfulRate", "RulesBasedSampler.GetKeyFields", "RulesBasedSampler.GetSampleRate", "RulesBasedSampler.Start", "RulesBasedSampler.Start$1", "RulesBasedSamplerCondition.GetComputedField", "RulesBasedSamplerCondition.Init", "RulesBasedSamplerCondition.Init$1", "RulesBasedSamplerCondition.String", "RulesBasedSamplerCondition.setMatchesFunction", "RulesBasedSamplerCondition.setMatchesFunction$1", "RulesBasedSamplerCondition.setMatchesFunction$2", "RulesBasedSamplerConfig.GetSamplingFields", "RulesBasedSamplerConfig.String", "RulesBasedSamplerRule.String", "SampleCacheConfig.GetDroppedSizePerWorker", "SampleCacheConfig.GetKeptSizePerWorker", "SamplerFactory.ClearDynsamplers", "SamplerFactory.GetDownstreamSampler", "SamplerFactory.GetSamplerImplementationForKey", "SamplerFactory.Start", "SamplerFactory.Stop", "SamplerFactory.createSampler", "SamplerFactory.updatePeerCounts", "SerializeToYAML", "SingleServerSharder.MyShard", "SingleServerSharder.WhichShard", "SingleShard.Equals", "SingleShard.GetAddress", "SortableShardList.Equals", "SortableShardList.Len", "SortableShardList.Less", "SortableShardList.Swap", "StressRelief.GetSampleRate", "StressRelief.Recalc", "StressRelief.Start", "StressRelief.Start$1", "StressRelief.Start$2", "StressRelief.Stressed", "StressRelief.UpdateFromConfig", "StressRelief.clusterStressLevel", "StressRelief.linear", "StressRelief.onStressLevelUpdate", "StressRelief.ratio", "StressRelief.sigmoid", "StressRelief.sqrt", "StressRelief.square", "TestShard.Equals", "TestShard.GetAddress", "TotalThroughputSampler.GetKeyFields", "TotalThroughputSampler.GetSampleRate", "TotalThroughputSampler.Start", "TotalThroughputSampler.Start$1", "TotalThroughputSamplerConfig.GetSamplingFields", "TraceServer.ExportTraceData", "TracesConfig.GetBatchTimeout", "TracesConfig.GetMaxBatchSize", "TracesConfig.GetMaxExpiredTraces", "TracesConfig.GetSendDelay", "TracesConfig.GetSendTickerValue", "TracesConfig.GetTraceTimeout", "TryConvertToBool", "V2SamplerChoice.GetSamplingFields", "V2SamplerChoice.NameMeaningfulSamplers", "V2SamplerChoice.Sampler", "V2SamplerConfig.check", "Validation.GetArgAsStringSlice", "ValidationResult.IsError", "ValidationResult.isEmpty", "ValidationResults.HasErrors", "WindowedThroughputSampler.GetKeyFields", "WindowedThroughputSampler.GetSampleRate", "WindowedThroughputSampler.Start", "WindowedThroughputSampler.Start$1", "WindowedThroughputSamplerConfig.GetSamplingFields", "WithConfigData", "WithConfigData$1", "WithRulesData", "WithRulesData$1", "addIncomingUserAgent", "applyCmdEnvTags", "applyConfigInto", "asFloat", "batchedEvent.MarshalMsg", "batchedEvent.UnmarshalMsg", "batchedEvent.getEventTime", "batchedEvent.getSampleRate", "batchedEvents.MarshalJSON", "batchedEvents.UnmarshalJSON", "batchedEvents.UnmarshalMsg", "batchedEvents.unmarshalBatchedEventFromFastJSON", "batchedEvents.unmarshalBatchedEventFromFastJSON$1", "batchedEvents.unmarshalBatchedEventFromFastJSON$2", "buildRequestURL", "checkForDeprecation", "clamp", "compare", "compareVersions", "conditionMatchesValue", "convertToString", "createDynForDynamicSampler", "createDynForEMADynamicSampler", "createDynForEMAThroughputSampler", "createDynForTotalThroughputSampler", "createDynForWindowedThroughputSampler", "cuckooDroppedRecord.Count", "cuckooDroppedRecord.DescendantCount", "cuckooDroppedRecord.Kept", "cuckooDroppedRecord.Rate", "cuckooDroppedRecord.Reason", "cuckooDroppedRecord.SpanCount", "cuckooDroppedRecord.SpanEventCount", "cuckooDroppedRecord.SpanLinkCount", "cuckooSentCache.CheckSpan", "cuckooSentCache.CheckTrace", "cuckooSentCache.Record", "cuckooSentCache.Resize", "cuckooSentCache.Stop", "cuckooSentCache.monitor", "customTraceExportHandler", "customTraceExportHandler$1", "detShard.Equals", "detShard.GetAddress", "detShard.GetHashesFor", "distinctValue.AddAsString", "distinctValue.Reset", "distinctValue.Values", "dynsamplerMetricsRecorder.RecordMetrics", "dynsamplerMetricsRecorder.RegisterMetrics", "envGetterFunc", "environmentCache.addItem", "environmentCache.get", "expandEnvVarsInConfig", "expandEnvVarsInString", "expandEnvVarsInString$1", "expandEnvVarsInValues", "extractValueFromSpan", "fileConfig.DetermineSamplerKey", "fileConfig.GetAccessKeyConfig", "fileConfig.GetAddCountsToRoot", "fileConfig.GetAddHostMetadataToTrace", "fileConfig.GetAddRuleReasonToTrace", "fileConfig.GetAddSpanCountToRoot", "fileConfig.GetAdditionalAttributes", "fileConfig.GetAdditionalErrorFields", "fileConfig.GetAdditionalHeaders", "fileConfig.GetAllSamplerRules", "fileConfig.GetCollectionConfig", "fileConfig.GetCompressPeerCommunication", "fileConfig.GetConfigMetadata", "fileConfig.GetDatasetPrefix", "fileConfig.GetDebugServiceAddr", "fileConfig.GetEnvironmentCacheTTL", "fileConfig.GetGRPCConfig", "fileConfig.GetGRPCEnabled", "fileConfig.GetGRPCListenAddr", "fileConfig.GetGeneralConfig", "fileConfig.GetHTTPIdleTimeout", "fileConfig.GetHashes", "fileConfig.GetHealthCheckTimeout", "fileConfig.GetHoneycombAPI", "fileConfig.GetHoneycombLoggerConfig", "fileConfig.GetIdentifierInterfaceName", "fileConfig.GetIsDryRun", "fileConfig.GetListenAddr", "fileConfig.GetLoggerLevel", "fileConfig.GetLoggerType", "fileConfig.GetOTelMetricsConfig", "fileConfig.GetOTelTracingConfig", "fileConfig.GetOpAMPConfig", "fileConfig.GetParentIdFieldNames", "fileConfig.GetPeerListenAddr", "fileConfig.GetPeerManagementType", "fileConfig.GetPeerTimeout", "fileConfig.GetPeers", "fileConfig.GetPrometheusMetricsConfig", "fileConfig.GetQueryAuthToken", "fileConfig.GetRedisAuthCode", "fileConfig.GetRedisClusterHosts", "fileConfig.GetRedisDatabase", "fileConfig.GetRedisHost", "fileConfig.GetRedisIdentifier", "fileConfig.GetRedisPassword", "fileConfig.GetRedisPeerManagement", "fileConfig.GetRedisPrefix", "fileConfig.GetRedisUsername", "fileConfig.GetSampleCacheConfig", "fileConfig.GetSamplerConfigForDestName", "fileConfig.GetSamplingKeyFieldsForDestName", "fileConfig.GetStdoutLoggerConfig", "fileConfig.GetStressReliefConfig", "fileConfig.GetTraceIdFieldNames", "fileConfig.GetTracesConfig", "fileConfig.GetUseIPV6Identifier", "fileConfig.GetUseTLS", "fileConfig.GetUseTLSInsecure", "fileConfig.RegisterReloadCallback", "fileConfig.Reload", "flatten", "formatFromFilename", "formatFromResponse", "getAPIKeyAndDatasetFromMetadata", "getBytesFor", "getConfigDataForLocations", "getDatasetFromRequest", "getDefaultTrueValue", "getEventTime", "getFirstValueFromMetadata", "getIdentifierFromInterface", "getMetricType", "getPeerManagementConfig", "getRefineryTelemetryConfig", "getSharedDynsamplerAndRecorder", "getUserAgentFromRequest", "hashList", "init", "iopLogger.Debug", "iopLogger.Error", "iopLogger.Info", "isString", "isVersionDeprecated", "keptTraceCacheEntry.Count", "keptTraceCacheEntry.DescendantCount", "keptTraceCacheEntry.Kept", "keptTraceCacheEntry.Rate", "keptTraceCacheEntry.SpanCount", "keptTraceCacheEntry.SpanEventCount", "keptTraceCacheEntry.SpanLinkCount", "load", "loadConfigsInto", "loadConfigsIntoMap", "loadNamedMetadata", "makeDecoders", "makeDynsamplerKey", "maskString", "mergeTraceAndSpanSampleRates", "mustFloat", "newBatchedEvents", "newConfigAndRules", "newEnvironmentCache", "newFileConfig", "newPeerCommand", "newSamplerMetricNames", "newStressReliefMessage", "newTraceKey", "parseFractionalEpoch", "peerCommand.marshal", "peerCommand.unmarshal", "populateConfigContents", "publicAddr", "randStringBytes", "recycleHTTPBodyBuffer", "registerCustomTraceService", "ruleMatchesSpanInTrace", "ruleMatchesTrace", "selectIPFromAddrs", "setCompareOperators", "setCompareOperators$1", "setCompareOperators$10", "setCompareOperators$11", "setCompareOperators$12", "setCompareOperators$13", "setCompareOperators$14", "setCompareOperators$15", "setCompareOperators$16", "setCompareOperators$17", "setCompareOperators$18", "setCompareOperators$19", "setCompareOperators$2", "setCompareOperators$20", "setCompareOperators$3", "setCompareOperators$4", "setCompareOperators$5", "setCompareOperators$6", "setCompareOperators$7", "setCompareOperators$8", "setCompareOperators$9", "setInBasedOperators", "setInBasedOperators$1", "setInBasedOperators$2", "setInBasedOperators$3", "setInBasedOperators$4", "setMatchStringBasedOperators", "setMatchStringBasedOperators$1", "setMatchStringBasedOperators$2", "setMatchStringBasedOperators$3", "setRegexStringMatchOperator", "setRegexStringMatchOperator$1", "statusRecorder.WriteHeader", "stressReliefMessage.String", "traceKey.build", "translatedTraceServiceRequest.ProtoMessage", "translatedTraceServiceRequest.Reset", "translatedTraceServiceRequest.String", "translatedTraceServiceRequest.Unmarshal", "tryConvertToFloat", "tryConvertToInt", "unmarshal", "unmarshalStressReliefMessage", "validateConfigs", "validateDatatype", "validateRules", "writeYAMLToFile"]

def declaredFields : List Nat := [
  L.«InMemCollector.Config»,
  L.«InMemCollector.Logger»,
  L.«InMemCollector.Clock»,
  L.«InMemCollector.Tracer»,
  L.«InMemCollector.Health»,
  L.«InMemCollector.Sharder»,
  L.«InMemCollector.Transmission»,
  L.«InMemCollector.PeerTransmission»,
  L.«InMemCollector.PubSub»,
  L.«InMemCollector.Metrics»,
  L.«InMemCollector.SamplerFactory»,
  L.«InMemCollector.StressRelief»,
  L.«InMemCollector.Peers»,
  L.«InMemCollector.TestMode»,
  L.«InMemCollector.BlockOnAddSpan»,
  L.«InMemCollector.workers»,
  L.«InMemCollector.mutex»,
  L.«InMemCollector.monitorWG»,
  L.«InMemCollector.workersWG»,
  L.«InMemCollector.sendTracesWG»,
  L.«InMemCollector.reload»,
  L.«InMemCollector.tracesToSend»,
  L.«InMemCollector.done»,
  L.«InMemCollector.hostname»,
  L.«InMemCollector.memMetricSample»,
  L.«CollectorWorker.ID»,
  L.«CollectorWorker.parent»,
  L.«CollectorWorker.incoming»,
  L.«CollectorWorker.fromPeer»,
  L.«CollectorWorker.sendEarly»,
  L.«CollectorWorker.pause»,
  L.«CollectorWorker.reload»,
  L.«CollectorWorker.cache»,
  L.«CollectorWorker.sampleCache»,
  L.«CollectorWorker.datasetSamplers»,
  L.«CollectorWorker.lastCacheSize»,
  L.«CollectorWorker.localSpansWaiting»,
  L.«CollectorWorker.localSpanReceived»,
  L.«CollectorWorker.localSpanProcessed»,
  L.«CollectorWorker.healthCheckInAt»,
  L.«StressRelief.RefineryMetrics»,
  L.«StressRelief.Config»,
  L.«StressRelief.Logger»,
  L.«StressRelief.Health»,
  L.«StressRelief.PubSub»,
  L.«StressRelief.Peer»,
  L.«StressRelief.Clock»,
  L.«StressRelief.Done»,
  L.«StressRelief.mode»,
  L.«StressRelief.hostID»,
  L.«StressRelief.activateLevel»,
  L.«StressRelief.deactivateLevel»,
  L.«StressRelief.sampleRate»,
  L.«StressRelief.upperBound»,
  L.«StressRelief.overallStressLevel»,
  L.«StressRelief.reason»,
  L.«StressRelief.formula»,
  L.«StressRelief.stressed»,
  L.«StressRelief.stayOnUntil»,
  L.«StressRelief.minDuration»,
  L.«StressRelief.topic»,
  L.«StressRelief.algorithms»,
  L.«StressRelief.lock»,
  L.«StressRelief.stressLevels»,
  L.«StressRelief.disableStressLevelReport»,
  L.«CuckooTraceChecker.current»,
  L.«CuckooTraceChecker.current*»,
  L.«CuckooTraceChecker.future»,
  L.«CuckooTraceChecker.future*»,
  L.«CuckooTraceChecker.mut»,
  L.«CuckooTraceChecker.capacity»,
  L.«CuckooTraceChecker.met»,
  L.«CuckooTraceChecker.addch»,
  L.«CuckooTraceChecker.done»,
  L.«CuckooTraceChecker.shutdownWG»,
  L.«cuckooSentCache.met»,
  L.«cuckooSentCache.kept»,
  L.«cuckooSentCache.dropped»,
  L.«cuckooSentCache.recentDroppedIDs»,
  L.«cuckooSentCache.cfg»,
  L.«cuckooSentCache.done»,
  L.«cuckooSentCache.shutdownWG»,
  L.«cuckooSentCache.keptReasons»,
  L.«Router.Config»,
  L.«Router.Logger»,
  L.«Router.Health»,
  L.«Router.HTTPTransport»,
  L.«Router.UpstreamTransmission»,
  L.«Router.PeerTransmission»,
  L.«Router.Sharder»,
  L.«Router.Collector»,
  L.«Router.Metrics»,
  L.«Router.Tracer»,
  L.«Router.versionStr»,
  L.«Router.proxyClient»,
  L.«Router.routerType»,
  L.«Router.iopLogger»,
  L.«Router.zstdDecoder»,
  L.«Router.server»,
  L.«Router.grpcServer»,
  L.«Router.doneWG»,
  L.«Router.donech»,
  L.«Router.environmentCache»,
  L.«Router.hsrv»,
  L.«Router.metricsNames»,
  L.«environmentCache.mutex»,
  L.«environmentCache.items»,
  L.«environmentCache.ttl»,
  L.«environmentCache.getFn»,
  L.«eventBatch.mutex»,
  L.«eventBatch.events»,
  L.«eventBatch.startTime»,
  L.«DirectTransmission.Config»,
  L.«DirectTransmission.Logger»,
  L.«DirectTransmission.Version»,
  L.«DirectTransmission.Metrics»,
  L.«DirectTransmission.Transport»,
  L.«DirectTransmission.Clock»,
  L.«DirectTransmission.transmitType»,
  L.«DirectTransmission.enableCompression»,
  L.«DirectTransmission.maxBatchSize»,
  L.«DirectTransmission.batchTimeout»,
  L.«DirectTransmission.batchSendTimeout»,
  L.«DirectTransmission.additionalHeaders»,
  L.«DirectTransmission.eventBatches»,
  L.«DirectTransmission.batchMutex»,
  L.«DirectTransmission.dispatchPool»,
  L.«DirectTransmission.stop»,
  L.«DirectTransmission.stopWG»,
  L.«DirectTransmission.httpClient»,
  L.«DirectTransmission.userAgent»,
  L.«DirectTransmission.metricKeys»,
  L.«RedisPubsubPeers.Config»,
  L.«RedisPubsubPeers.Metrics»,
  L.«RedisPubsubPeers.Logger»,
  L.«RedisPubsubPeers.PubSub»,
  L.«RedisPubsubPeers.Clock»,
  L.«RedisPubsubPeers.InstanceID»,
  L.«RedisPubsubPeers.Done»,
  L.«RedisPubsubPeers.peers»,
  L.«RedisPubsubPeers.hash»,
  L.«RedisPubsubPeers.cbMut»,
  L.«RedisPubsubPeers.callbacks»,
  L.«RedisPubsubPeers.sub»,
  L.«RedisPubsubPeers.topic»,
  L.«fileConfig.mainConfig»,
  L.«fileConfig.mainHash»,
  L.«fileConfig.rulesConfig»,
  L.«fileConfig.rulesHash»,
  L.«fileConfig.opts»,
  L.«fileConfig.callbacks»,
  L.«fileConfig.mux»,
  L.«fileConfig.lastLoadTime»,
  L.«ConfigWatcher.Config»,
  L.«ConfigWatcher.Logger»,
  L.«ConfigWatcher.PubSub»,
  L.«ConfigWatcher.Tracer»,
  L.«ConfigWatcher.Clock»,
  L.«ConfigWatcher.subscr»,
  L.«ConfigWatcher.msgTime»,
  L.«ConfigWatcher.done»,
  L.«ConfigWatcher.mut»,
  L.«ConfigWatcher.topic»,
  L.«ConfigWatcher.Starter»,
  L.«ConfigWatcher.Stopper»,
  L.«MultiMetrics.Config»,
  L.«MultiMetrics.PromMetrics»,
  L.«MultiMetrics.OTelMetrics»,
  L.«MultiMetrics.children»,
  L.«MultiMetrics.counters»,
  L.«MultiMetrics.gauges»,
  L.«MultiMetrics.updowns»,
  L.«MultiMetrics.stores»,
  L.«MultiMetrics.metricTypes»,
  L.«SamplerFactory.Config»,
  L.«SamplerFactory.Logger»,
  L.«SamplerFactory.Metrics»,
  L.«SamplerFactory.Peers»,
  L.«SamplerFactory.peerCount»,
  L.«SamplerFactory.mutex»,
  L.«SamplerFactory.sharedDynsamplers»,
  L.«SamplerFactory.goalThroughputConfigs»,
  L.«DeterministicSharder.Config»,
  L.«DeterministicSharder.Logger»,
  L.«DeterministicSharder.Peers»,
  L.«DeterministicSharder.myShard»,
  L.«DeterministicSharder.peers»,
  L.«DeterministicSharder.hashes»,
  L.«DeterministicSharder.peerLock»]

def accessFacts : List Fact := [
  ⟨L.«InMemCollector.Config», F.«CollectorWorker.collect», .read, [], false⟩,
  ⟨L.«InMemCollector.Config», F.«CollectorWorker.makeDecision», .read, [], false⟩,
  ⟨L.«InMemCollector.Config», F.«CollectorWorker.processSpan», .read, [], false⟩,
  ⟨L.«InMemCollector.Config», F.«CollectorWorker.sendExpiredTracesInCache», .read, [], false⟩,
  ⟨L.«InMemCollector.Config», F.«CollectorWorker.sendTracesEarly», .read, [], false⟩,
  ⟨L.«InMemCollector.Config», F.«InMemCollector.ProcessSpanImmediately», .read, [], false⟩,
  ⟨L.«InMemCollector.Config», F.«InMemCollector.Start», .read, [], false⟩,
  ⟨L.«InMemCollector.Config», F.«InMemCollector.addAdditionalAttributes», .read, [], false⟩,
  ⟨L.«InMemCollector.Config», F.«InMemCollector.checkAlloc», .read, [], false⟩,
  ⟨L.«InMemCollector.Config», F.«InMemCollector.dealWithSentTrace», .read, [], false⟩,
  ⟨L.«InMemCollector.Config», F.«InMemCollector.isReady», .read, [], false⟩,
  ⟨L.«InMemCollector.Config», F.«InMemCollector.monitor», .read, [], false⟩,
  ⟨L.«InMemCollector.Config», F.«InMemCollector.sendTraces», .read, [], false⟩,
  ⟨L.«InMemCollector.Config», F.«InMemCollector.send», .read, [], false⟩,
  ⟨L.«InMemCollector.Config», F.«NewCollectorWorker», .read, [], false⟩,
  ⟨L.«InMemCollector.Logger», F.«CollectorWorker.IsHealthy», .read, [], false⟩,
  ⟨L.«InMemCollector.Logger», F.«CollectorWorker.makeDecision», .read, [], false⟩,
  ⟨L.«InMemCollector.Logger», F.«InMemCollector.Start$1», .read, [], false⟩,
  ⟨L.«InMemCollector.Logger», F.«InMemCollector.Start», .read, [], false⟩,
  ⟨L.«InMemCollector.Logger», F.«InMemCollector.Stop», .read, [], false⟩,
  ⟨L.«InMemCollector.Logger», F.«InMemCollector.checkAlloc», .read, [], false⟩,
  ⟨L.«InMemCollector.Logger», F.«InMemCollector.dealWithSentTrace», .read, [], false⟩,
  ⟨L.«InMemCollector.Logger», F.«InMemCollector.reloadConfigs», .read, [], false⟩,
  ⟨L.«InMemCollector.Logger», F.«InMemCollector.sendReloadSignal», .read, [], false⟩,
  ⟨L.«InMemCollector.Logger», F.«InMemCollector.send», .read, [], false⟩,
  ⟨L.«InMemCollector.Logger», F.«NewCollectorWorker», .read, [], false⟩,
  ⟨L.«InMemCollector.Clock», F.«CollectorWorker.collect», .read, [], false⟩,
  ⟨L.«InMemCollector.Clock», F.«CollectorWorker.makeDecision», .read, [], false⟩,
  ⟨L.«InMemCollector.Clock», F.«CollectorWorker.processSpan», .read, [], false⟩,
  ⟨L.«InMemCollector.Clock», F.«CollectorWorker.sendExpiredTracesInCache$1», .read, [], false⟩,
  ⟨L.«InMemCollector.Clock», F.«CollectorWorker.sendExpiredTracesInCache», .read, [], false⟩,
  ⟨L.«InMemCollector.Clock», F.«InMemCollector.ProcessSpanImmediately», .read, [], false⟩,
  ⟨L.«InMemCollector.Clock», F.«InMemCollector.isReady», .read, [], false⟩,
  ⟨L.«InMemCollector.Clock», F.«InMemCollector.monitor», .read, [], false⟩,
  ⟨L.«InMemCollector.Clock», F.«InMemCollector.send», .read, [], false⟩,
  ⟨L.«InMemCollector.Tracer», F.«CollectorWorker.collect», .read, [], false⟩,
  ⟨L.«InMemCollector.Tracer», F.«CollectorWorker.makeDecision», .read, [], false⟩,
  ⟨L.«InMemCollector.Tracer», F.«CollectorWorker.processSpan», .read, [], false⟩,
  ⟨L.«InMemCollector.Tracer», F.«CollectorWorker.sendExpiredTracesInCache», .read, [], false⟩,
  ⟨L.«InMemCollector.Tracer», F.«InMemCollector.ProcessSpanImmediately», .read, [], false⟩,
  ⟨L.«InMemCollector.Tracer», F.«InMemCollector.dealWithSentTrace», .read, [], false⟩,
  ⟨L.«InMemCollector.Tracer», F.«InMemCollector.sendTraces», .read, [], false⟩,
  ⟨L.«InMemCollector.Tracer», F.«InMemCollector.send», .read, [], false⟩,
  ⟨L.«InMemCollector.Health», F.«InMemCollector.Start», .read, [], false⟩,
  ⟨L.«InMemCollector.Health», F.«InMemCollector.Stop», .read, [], false⟩,
  ⟨L.«InMemCollector.Health», F.«InMemCollector.monitor», .read, [], false⟩,
  ⟨L.«InMemCollector.Sharder», F.«InMemCollector.IsMyTrace», .read, [], false⟩,
  ⟨L.«InMemCollector.Transmission», F.«InMemCollector.ProcessSpanImmediately», .read, [], false⟩,
  ⟨L.«InMemCollector.Transmission», F.«InMemCollector.dealWithSentTrace», .read, [], false⟩,
  ⟨L.«InMemCollector.Transmission», F.«InMemCollector.sendTraces», .read, [], false⟩,
  ⟨L.«InMemCollector.Metrics», F.«CollectorWorker.collect», .read, [], false⟩,
  ⟨L.«InMemCollector.Metrics», F.«CollectorWorker.makeDecision», .read, [], false⟩,
  ⟨L.«InMemCollector.Metrics», F.«CollectorWorker.processSpan», .read, [], false⟩,
  ⟨L.«InMemCollector.Metrics», F.«CollectorWorker.sendExpiredTracesInCache$1», .read, [], false⟩,
  ⟨L.«InMemCollector.Metrics», F.«InMemCollector.ProcessSpanImmediately», .read, [], false⟩,
  ⟨L.«InMemCollector.Metrics», F.«InMemCollector.Start», .read, [], false⟩,
  ⟨L.«InMemCollector.Metrics», F.«InMemCollector.checkAlloc», .read, [], false⟩,
  ⟨L.«InMemCollector.Metrics», F.«InMemCollector.dealWithSentTrace», .read, [], false⟩,
  ⟨L.«InMemCollector.Metrics», F.«InMemCollector.monitor», .read, [], false⟩,
  ⟨L.«InMemCollector.Metrics», F.«InMemCollector.sendTraces», .read, [], false⟩,
  ⟨L.«InMemCollector.Metrics», F.«InMemCollector.send», .read, [], false⟩,
  ⟨L.«InMemCollector.Metrics», F.«NewCollectorWorker», .read, [], false⟩,
  ⟨L.«InMemCollector.SamplerFactory», F.«CollectorWorker.makeDecision», .read, [], false⟩,
  ⟨L.«InMemCollector.SamplerFactory», F.«InMemCollector.reloadConfigs», .read, [], false⟩,
  ⟨L.«InMemCollector.StressRelief», F.«InMemCollector.GetStressedSampleRate», .read, [], false⟩,
  ⟨L.«InMemCollector.StressRelief», F.«InMemCollector.ProcessSpanImmediately», .read, [], false⟩,
  ⟨L.«InMemCollector.StressRelief», F.«InMemCollector.Start», .read, [], false⟩,
  ⟨L.«InMemCollector.StressRelief», F.«InMemCollector.Stressed», .read, [], false⟩,
  ⟨L.«InMemCollector.StressRelief», F.«InMemCollector.reloadConfigs», .read, [], false⟩,
  ⟨L.«InMemCollector.BlockOnAddSpan», F.«CollectorWorker.addSpanFromPeer», .read, [], false⟩,
  ⟨L.«InMemCollector.BlockOnAddSpan», F.«CollectorWorker.addSpan», .read, [], false⟩,
  ⟨L.«InMemCollector.workers», F.«InMemCollector.AddSpanFromPeer», .read, [], false⟩,
  ⟨L.«InMemCollector.workers», F.«InMemCollector.AddSpan», .read, [], false⟩,
  ⟨L.«InMemCollector.workers», F.«InMemCollector.ProcessSpanImmediately», .read, [], false⟩,
  ⟨L.«InMemCollector.workers», F.«InMemCollector.Start», .read, [], false⟩,
  ⟨L.«InMemCollector.workers», F.«InMemCollector.Start», .write, [], false⟩,
  ⟨L.«InMemCollector.workers», F.«InMemCollector.Stop», .read, [], false⟩,
  ⟨L.«InMemCollector.workers», F.«InMemCollector.checkAlloc», .read, [], false⟩,
  ⟨L.«InMemCollector.workers», F.«InMemCollector.getWorkerIDForTrace», .read, [], false⟩,
  ⟨L.«InMemCollector.workers», F.«InMemCollector.isReady», .read, [], false⟩,
  ⟨L.«InMemCollector.workers», F.«InMemCollector.monitor», .read, [], false⟩,
  ⟨L.«InMemCollector.workers», F.«InMemCollector.reloadConfigs», .read, [], false⟩,
  ⟨L.«InMemCollector.monitorWG», F.«InMemCollector.Start», .atomic, [], false⟩,
  ⟨L.«InMemCollector.monitorWG», F.«InMemCollector.Stop», .atomic, [], false⟩,
  ⟨L.«InMemCollector.monitorWG», F.«InMemCollector.monitor», .atomic, [], false⟩,
  ⟨L.«InMemCollector.workersWG», F.«CollectorWorker.collect», .atomic, [], false⟩,
  ⟨L.«InMemCollector.workersWG», F.«InMemCollector.Start», .atomic, [], false⟩,
  ⟨L.«InMemCollector.workersWG», F.«InMemCollector.Stop», .atomic, [], false⟩,
  ⟨L.«InMemCollector.sendTracesWG», F.«InMemCollector.Start», .atomic, [], false⟩,
  ⟨L.«InMemCollector.sendTracesWG», F.«InMemCollector.Stop», .atomic, [], false⟩,
  ⟨L.«InMemCollector.sendTracesWG», F.«InMemCollector.sendTraces», .atomic, [], false⟩,
  ⟨L.«InMemCollector.reload», F.«InMemCollector.Start», .write, [], false⟩,
  ⟨L.«InMemCollector.reload», F.«InMemCollector.monitor», .read, [], false⟩,
  ⟨L.«InMemCollector.reload», F.«InMemCollector.sendReloadSignal», .read, [], false⟩,
  ⟨L.«InMemCollector.tracesToSend», F.«InMemCollector.Start», .write, [], false⟩,
  ⟨L.«InMemCollector.tracesToSend», F.«InMemCollector.Stop», .read, [], false⟩,
  ⟨L.«InMemCollector.tracesToSend», F.«InMemCollector.sendTraces», .read, [], false⟩,
  ⟨L.«InMemCollector.tracesToSend», F.«InMemCollector.send», .read, [], false⟩,
  ⟨L.«InMemCollector.done», F.«InMemCollector.Start», .write, [], false⟩,
  ⟨L.«InMemCollector.done», F.«InMemCollector.Stop», .read, [], false⟩,
  ⟨L.«InMemCollector.done», F.«InMemCollector.monitor», .read, [], false⟩,
  ⟨L.«InMemCollector.hostname», F.«InMemCollector.ProcessSpanImmediately», .read, [], false⟩,
  ⟨L.«InMemCollector.hostname», F.«InMemCollector.Start», .write, [], false⟩,
  ⟨L.«InMemCollector.hostname», F.«InMemCollector.dealWithSentTrace», .read, [], false⟩,
  ⟨L.«InMemCollector.hostname», F.«InMemCollector.sendTraces», .read, [], false⟩,
  ⟨L.«InMemCollector.memMetricSample», F.«InMemCollector.Start», .write, [], false⟩,
  ⟨L.«InMemCollector.memMetricSample», F.«InMemCollector.checkAlloc», .read, [], false⟩,
  ⟨L.«CollectorWorker.ID», F.«CollectorWorker.IsHealthy», .read, [], false⟩,
  ⟨L.«CollectorWorker.ID», F.«CollectorWorker.collect», .read, [], false⟩,
  ⟨L.«CollectorWorker.ID», F.«CollectorWorker.processSpan», .read, [], false⟩,
  ⟨L.«CollectorWorker.ID», F.«CollectorWorker.sendExpiredTracesInCache», .read, [], false⟩,
  ⟨L.«CollectorWorker.parent», F.«CollectorWorker.IsHealthy», .read, [], false⟩,
  ⟨L.«CollectorWorker.parent», F.«CollectorWorker.addSpanFromPeer», .read, [], false⟩,
  ⟨L.«CollectorWorker.parent», F.«CollectorWorker.addSpan», .read, [], false⟩,
  ⟨L.«CollectorWorker.parent», F.«CollectorWorker.collect», .read, [], false⟩,
  ⟨L.«CollectorWorker.parent», F.«CollectorWorker.makeDecision», .read, [], false⟩,
  ⟨L.«CollectorWorker.parent», F.«CollectorWorker.processSpan», .read, [], false⟩,
  ⟨L.«CollectorWorker.parent», F.«CollectorWorker.sendExpiredTracesInCache$1», .read, [], false⟩,
  ⟨L.«CollectorWorker.parent», F.«CollectorWorker.sendExpiredTracesInCache», .read, [], false⟩,
  ⟨L.«CollectorWorker.parent», F.«CollectorWorker.sendTracesEarly», .read, [], false⟩,
  ⟨L.«CollectorWorker.incoming», F.«CollectorWorker.addSpan», .read, [], false⟩,
  ⟨L.«CollectorWorker.incoming», F.«CollectorWorker.collect», .read, [], false⟩,
  ⟨L.«CollectorWorker.incoming», F.«InMemCollector.Stop», .read, [], false⟩,
  ⟨L.«CollectorWorker.incoming», F.«InMemCollector.monitor», .read, [], false⟩,
  ⟨L.«CollectorWorker.fromPeer», F.«CollectorWorker.addSpanFromPeer», .read, [], false⟩,
  ⟨L.«CollectorWorker.fromPeer», F.«CollectorWorker.collect», .read, [], false⟩,
  ⟨L.«CollectorWorker.fromPeer», F.«InMemCollector.Stop», .read, [], false⟩,
  ⟨L.«CollectorWorker.fromPeer», F.«InMemCollector.monitor», .read, [], false⟩,
  ⟨L.«CollectorWorker.sendEarly», F.«CollectorWorker.collect», .read, [], false⟩,
  ⟨L.«CollectorWorker.sendEarly», F.«InMemCollector.checkAlloc», .read, [], false⟩,
  ⟨L.«CollectorWorker.pause», F.«CollectorWorker.collect», .read, [], false⟩,
  ⟨L.«CollectorWorker.reload», F.«CollectorWorker.collect», .read, [], false⟩,
  ⟨L.«CollectorWorker.reload», F.«InMemCollector.reloadConfigs», .read, [], false⟩,
  ⟨L.«CollectorWorker.cache», F.«CollectorWorker.collect», .read, [], false⟩,
  ⟨L.«CollectorWorker.cache», F.«CollectorWorker.processSpan», .read, [], false⟩,
  ⟨L.«CollectorWorker.cache», F.«CollectorWorker.sendExpiredTracesInCache», .read, [], false⟩,
  ⟨L.«CollectorWorker.cache», F.«CollectorWorker.sendTracesEarly», .read, [], false⟩,
  ⟨L.«CollectorWorker.sampleCache», F.«CollectorWorker.Stop», .read, [], false⟩,
  ⟨L.«CollectorWorker.sampleCache», F.«CollectorWorker.collect», .read, [], false⟩,
  ⟨L.«CollectorWorker.sampleCache», F.«CollectorWorker.makeDecision», .read, [], false⟩,
  ⟨L.«CollectorWorker.sampleCache», F.«CollectorWorker.processSpan», .read, [], false⟩,
  ⟨L.«CollectorWorker.sampleCache», F.«InMemCollector.ProcessSpanImmediately», .read, [], false⟩,
  ⟨L.«CollectorWorker.datasetSamplers», F.«CollectorWorker.collect», .write, [], false⟩,
  ⟨L.«CollectorWorker.datasetSamplers», F.«CollectorWorker.makeDecision», .read, [], false⟩,
  ⟨L.«CollectorWorker.datasetSamplers», F.«CollectorWorker.makeDecision», .write, [], false⟩,
  ⟨L.«CollectorWorker.lastCacheSize», F.«CollectorWorker.GetCacheSize», .atomic, [], false⟩,
  ⟨L.«CollectorWorker.lastCacheSize», F.«CollectorWorker.collect», .atomic, [], false⟩,
  ⟨L.«CollectorWorker.lastCacheSize», F.«CollectorWorker.sendTracesEarly», .atomic, [], false⟩,
  ⟨L.«CollectorWorker.localSpansWaiting», F.«CollectorWorker.addSpanFromPeer», .atomic, [], false⟩,
  ⟨L.«CollectorWorker.localSpansWaiting», F.«CollectorWorker.addSpan», .atomic, [], false⟩,
  ⟨L.«CollectorWorker.localSpansWaiting», F.«CollectorWorker.processSpan$1», .atomic, [], false⟩,
  ⟨L.«CollectorWorker.localSpansWaiting», F.«InMemCollector.monitor», .atomic, [], false⟩,
  ⟨L.«CollectorWorker.localSpanReceived», F.«CollectorWorker.addSpanFromPeer», .atomic, [], false⟩,
  ⟨L.«CollectorWorker.localSpanReceived», F.«CollectorWorker.addSpan», .atomic, [], false⟩,
  ⟨L.«CollectorWorker.localSpanReceived», F.«InMemCollector.monitor», .atomic, [], false⟩,
  ⟨L.«CollectorWorker.localSpanProcessed», F.«CollectorWorker.getLastSpanProcessed», .read, [], false⟩,
  ⟨L.«CollectorWorker.localSpanProcessed», F.«CollectorWorker.getLastSpanProcessed», .write, [], false⟩,
  ⟨L.«CollectorWorker.localSpanProcessed», F.«CollectorWorker.processSpan$1», .write, [], false⟩,
  ⟨L.«CollectorWorker.healthCheckInAt», F.«CollectorWorker.IsHealthy», .atomic, [], false⟩,
  ⟨L.«CollectorWorker.healthCheckInAt», F.«CollectorWorker.collect», .atomic, [], false⟩,
  ⟨L.«StressRelief.RefineryMetrics», F.«StressRelief.Recalc», .read, [(L.«StressRelief.lock», .ex)], false⟩,
  ⟨L.«StressRelief.RefineryMetrics», F.«StressRelief.Recalc», .read, [], false⟩,
  ⟨L.«StressRelief.RefineryMetrics», F.«StressRelief.Start», .read, [], false⟩,
  ⟨L.«StressRelief.RefineryMetrics», F.«StressRelief.ratio», .read, [], false⟩,
  ⟨L.«StressRelief.Config», F.«StressRelief.UpdateFromConfig», .read, [(L.«StressRelief.lock», .ex)], false⟩,
  ⟨L.«StressRelief.Logger», F.«StressRelief.Recalc», .read, [(L.«StressRelief.lock», .ex)], false⟩,
  ⟨L.«StressRelief.Logger», F.«StressRelief.Recalc», .read, [], false⟩,
  ⟨L.«StressRelief.Logger», F.«StressRelief.Start$1», .read, [], false⟩,
  ⟨L.«StressRelief.Logger», F.«StressRelief.Start$2», .read, [], false⟩,
  ⟨L.«StressRelief.Logger», F.«StressRelief.Start», .read, [], false⟩,
  ⟨L.«StressRelief.Logger», F.«StressRelief.UpdateFromConfig», .read, [(L.«StressRelief.lock», .ex)], false⟩,
  ⟨L.«StressRelief.Logger», F.«StressRelief.linear», .read, [], false⟩,
  ⟨L.«StressRelief.Logger», F.«StressRelief.onStressLevelUpdate», .read, [], false⟩,
  ⟨L.«StressRelief.Logger», F.«StressRelief.ratio», .read, [], false⟩,
  ⟨L.«StressRelief.Logger», F.«StressRelief.sigmoid», .read, [], false⟩,
  ⟨L.«StressRelief.Logger», F.«StressRelief.sqrt», .read, [], false⟩,
  ⟨L.«StressRelief.Logger», F.«StressRelief.square», .read, [], false⟩,
  ⟨L.«StressRelief.Health», F.«StressRelief.Start$2», .read, [], false⟩,
  ⟨L.«StressRelief.Health», F.«StressRelief.Start», .read, [], false⟩,
  ⟨L.«StressRelief.PubSub», F.«StressRelief.Start$2», .read, [], false⟩,
  ⟨L.«StressRelief.PubSub», F.«StressRelief.Start», .read, [], false⟩,
  ⟨L.«StressRelief.Peer», F.«StressRelief.Start», .read, [], false⟩,
  ⟨L.«StressRelief.Clock», F.«StressRelief.Recalc», .read, [(L.«StressRelief.lock», .ex)], false⟩,
  ⟨L.«StressRelief.Clock», F.«StressRelief.Start$2», .read, [], false⟩,
  ⟨L.«StressRelief.Clock», F.«StressRelief.clusterStressLevel», .read, [(L.«StressRelief.lock», .ex)], false⟩,
  ⟨L.«StressRelief.Clock», F.«StressRelief.clusterStressLevel», .read, [], false⟩,
  ⟨L.«StressRelief.Clock», F.«StressRelief.onStressLevelUpdate», .read, [(L.«StressRelief.lock», .ex)], false⟩,
  ⟨L.«StressRelief.Done», F.«StressRelief.Start$2», .read, [], false⟩,
  ⟨L.«StressRelief.mode», F.«StressRelief.Recalc», .read, [(L.«StressRelief.lock», .ex)], false⟩,
  ⟨L.«StressRelief.mode», F.«StressRelief.UpdateFromConfig», .read, [(L.«StressRelief.lock», .ex)], false⟩,
  ⟨L.«StressRelief.mode», F.«StressRelief.UpdateFromConfig», .write, [(L.«StressRelief.lock», .ex)], false⟩,
  ⟨L.«StressRelief.hostID», F.«StressRelief.Start$2», .read, [], false⟩,
  ⟨L.«StressRelief.hostID», F.«StressRelief.Start», .write, [], false⟩,
  ⟨L.«StressRelief.hostID», F.«StressRelief.clusterStressLevel», .read, [], false⟩,
  ⟨L.«StressRelief.activateLevel», F.«StressRelief.Recalc», .read, [(L.«StressRelief.lock», .ex)], false⟩,
  ⟨L.«StressRelief.activateLevel», F.«StressRelief.UpdateFromConfig», .read, [(L.«StressRelief.lock», .ex)], false⟩,
  ⟨L.«StressRelief.activateLevel», F.«StressRelief.UpdateFromConfig», .write, [(L.«StressRelief.lock», .ex)], false⟩,
  ⟨L.«StressRelief.deactivateLevel», F.«StressRelief.Recalc», .read, [(L.«StressRelief.lock», .ex)], false⟩,
  ⟨L.«StressRelief.deactivateLevel», F.«StressRelief.UpdateFromConfig», .read, [(L.«StressRelief.lock», .ex)], false⟩,
  ⟨L.«StressRelief.deactivateLevel», F.«StressRelief.UpdateFromConfig», .write, [(L.«StressRelief.lock», .ex)], false⟩,
  ⟨L.«StressRelief.sampleRate», F.«StressRelief.GetSampleRate», .read, [(L.«StressRelief.lock», .sh)], false⟩,
  ⟨L.«StressRelief.sampleRate», F.«StressRelief.UpdateFromConfig», .read, [(L.«StressRelief.lock», .ex)], false⟩,
  ⟨L.«StressRelief.sampleRate», F.«StressRelief.UpdateFromConfig», .write, [(L.«StressRelief.lock», .ex)], false⟩,
  ⟨L.«StressRelief.upperBound», F.«StressRelief.GetSampleRate», .read, [(L.«StressRelief.lock», .sh)], false⟩,
  ⟨L.«StressRelief.upperBound», F.«StressRelief.UpdateFromConfig», .write, [(L.«StressRelief.lock», .ex)], false⟩,
  ⟨L.«StressRelief.overallStressLevel», F.«StressRelief.Recalc», .read, [(L.«StressRelief.lock», .ex)], false⟩,
  ⟨L.«StressRelief.overallStressLevel», F.«StressRelief.Recalc», .write, [(L.«StressRelief.lock», .ex)], false⟩,
  ⟨L.«StressRelief.reason», F.«StressRelief.GetSampleRate», .read, [(L.«StressRelief.lock», .sh)], false⟩,
  ⟨L.«StressRelief.reason», F.«StressRelief.Recalc», .read, [(L.«StressRelief.lock», .ex)], false⟩,
  ⟨L.«StressRelief.reason», F.«StressRelief.Recalc», .write, [(L.«StressRelief.lock», .ex)], false⟩,
  ⟨L.«StressRelief.formula», F.«StressRelief.Recalc», .read, [(L.«StressRelief.lock», .ex)], false⟩,
  ⟨L.«StressRelief.formula», F.«StressRelief.Recalc», .read, [], false⟩,
  ⟨L.«StressRelief.formula», F.«StressRelief.Recalc», .write, [(L.«StressRelief.lock», .ex)], false⟩,
  ⟨L.«StressRelief.stressed», F.«StressRelief.Recalc», .read, [(L.«StressRelief.lock», .ex)], false⟩,
  ⟨L.«StressRelief.stressed», F.«StressRelief.Recalc», .write, [(L.«StressRelief.lock», .ex)], false⟩,
  ⟨L.«StressRelief.stressed», F.«StressRelief.Stressed», .read, [(L.«StressRelief.lock», .sh)], false⟩,
  ⟨L.«StressRelief.stayOnUntil», F.«StressRelief.Recalc», .read, [(L.«StressRelief.lock», .ex)], false⟩,
  ⟨L.«StressRelief.stayOnUntil», F.«StressRelief.Recalc», .write, [(L.«StressRelief.lock», .ex)], false⟩,
  ⟨L.«StressRelief.minDuration», F.«StressRelief.Recalc», .read, [(L.«StressRelief.lock», .ex)], false⟩,
  ⟨L.«StressRelief.minDuration», F.«StressRelief.UpdateFromConfig», .read, [(L.«StressRelief.lock», .ex)], false⟩,
  ⟨L.«StressRelief.minDuration», F.«StressRelief.UpdateFromConfig», .write, [(L.«StressRelief.lock», .ex)], false⟩,
  ⟨L.«StressRelief.topic», F.«StressRelief.Start$2», .read, [], false⟩,
  ⟨L.«StressRelief.topic», F.«StressRelief.Start», .read, [], false⟩,
  ⟨L.«StressRelief.topic», F.«StressRelief.Start», .write, [], false⟩,
  ⟨L.«StressRelief.algorithms», F.«StressRelief.Recalc», .read, [], false⟩,
  ⟨L.«StressRelief.algorithms», F.«StressRelief.Start», .write, [], false⟩,
  ⟨L.«StressRelief.lock», F.«StressRelief.GetSampleRate», .atomic, [(L.«StressRelief.lock», .sh)], false⟩,
  ⟨L.«StressRelief.lock», F.«StressRelief.GetSampleRate», .atomic, [], false⟩,
  ⟨L.«StressRelief.lock», F.«StressRelief.Recalc», .atomic, [(L.«StressRelief.lock», .ex)], false⟩,
  ⟨L.«StressRelief.lock», F.«StressRelief.Recalc», .atomic, [], false⟩,
  ⟨L.«StressRelief.lock», F.«StressRelief.Stressed», .atomic, [(L.«StressRelief.lock», .sh)], false⟩,
  ⟨L.«StressRelief.lock», F.«StressRelief.Stressed», .atomic, [], false⟩,
  ⟨L.«StressRelief.lock», F.«StressRelief.UpdateFromConfig», .atomic, [(L.«StressRelief.lock», .ex)], false⟩,
  ⟨L.«StressRelief.lock», F.«StressRelief.UpdateFromConfig», .atomic, [], false⟩,
  ⟨L.«StressRelief.lock», F.«StressRelief.clusterStressLevel», .atomic, [(L.«StressRelief.lock», .ex)], false⟩,
  ⟨L.«StressRelief.lock», F.«StressRelief.clusterStressLevel», .atomic, [], false⟩,
  ⟨L.«StressRelief.lock», F.«StressRelief.onStressLevelUpdate», .atomic, [(L.«StressRelief.lock», .ex)], false⟩,
  ⟨L.«StressRelief.lock», F.«StressRelief.onStressLevelUpdate», .atomic, [], false⟩,
  ⟨L.«StressRelief.stressLevels», F.«StressRelief.Start», .write, [], false⟩,
  ⟨L.«StressRelief.stressLevels», F.«StressRelief.clusterStressLevel», .read, [(L.«StressRelief.lock», .ex)], false⟩,
  ⟨L.«StressRelief.stressLevels», F.«StressRelief.clusterStressLevel», .write, [(L.«StressRelief.lock», .ex)], false⟩,
  ⟨L.«StressRelief.stressLevels», F.«StressRelief.onStressLevelUpdate», .write, [(L.«StressRelief.lock», .ex)], false⟩,
  ⟨L.«StressRelief.disableStressLevelReport», F.«StressRelief.Start$2», .read, [], false⟩,
  ⟨L.«CuckooTraceChecker.current», F.«CuckooTraceChecker.Check», .read, [(L.«CuckooTraceChecker.mut», .sh)], false⟩,
  ⟨L.«CuckooTraceChecker.current», F.«CuckooTraceChecker.Maintain», .read, [(L.«CuckooTraceChecker.mut», .sh)], false⟩,
  ⟨L.«CuckooTraceChecker.current», F.«CuckooTraceChecker.Maintain», .write, [(L.«CuckooTraceChecker.mut», .ex)], false⟩,
  ⟨L.«CuckooTraceChecker.current», F.«CuckooTraceChecker.drain», .read, [(L.«CuckooTraceChecker.mut», .ex)], false⟩,
  ⟨L.«CuckooTraceChecker.current*», F.«CuckooTraceChecker.Check», .read, [(L.«CuckooTraceChecker.mut», .sh)], false⟩,
  ⟨L.«CuckooTraceChecker.current*», F.«CuckooTraceChecker.Maintain», .read, [(L.«CuckooTraceChecker.mut», .sh)], false⟩,
  ⟨L.«CuckooTraceChecker.current*», F.«CuckooTraceChecker.drain», .write, [(L.«CuckooTraceChecker.mut», .ex)], false⟩,
  ⟨L.«CuckooTraceChecker.future», F.«CuckooTraceChecker.Maintain», .read, [(L.«CuckooTraceChecker.mut», .ex)], false⟩,
  ⟨L.«CuckooTraceChecker.future», F.«CuckooTraceChecker.Maintain», .read, [(L.«CuckooTraceChecker.mut», .sh)], false⟩,
  ⟨L.«CuckooTraceChecker.future», F.«CuckooTraceChecker.Maintain», .read, [], false⟩,
  ⟨L.«CuckooTraceChecker.future», F.«CuckooTraceChecker.Maintain», .write, [(L.«CuckooTraceChecker.mut», .ex)], false⟩,
  ⟨L.«CuckooTraceChecker.future», F.«CuckooTraceChecker.drain», .read, [(L.«CuckooTraceChecker.mut», .ex)], false⟩,
  ⟨L.«CuckooTraceChecker.future*», F.«CuckooTraceChecker.Maintain», .read, [(L.«CuckooTraceChecker.mut», .sh)], false⟩,
  ⟨L.«CuckooTraceChecker.future*», F.«CuckooTraceChecker.drain», .write, [(L.«CuckooTraceChecker.mut», .ex)], false⟩,
  ⟨L.«CuckooTraceChecker.mut», F.«CuckooTraceChecker.Check», .atomic, [(L.«CuckooTraceChecker.mut», .sh)], false⟩,
  ⟨L.«CuckooTraceChecker.mut», F.«CuckooTraceChecker.Check», .atomic, [], false⟩,
  ⟨L.«CuckooTraceChecker.mut», F.«CuckooTraceChecker.Maintain», .atomic, [(L.«CuckooTraceChecker.mut», .ex)], false⟩,
  ⟨L.«CuckooTraceChecker.mut», F.«CuckooTraceChecker.Maintain», .atomic, [(L.«CuckooTraceChecker.mut», .sh)], false⟩,
  ⟨L.«CuckooTraceChecker.mut», F.«CuckooTraceChecker.Maintain», .atomic, [], false⟩,
  ⟨L.«CuckooTraceChecker.mut», F.«CuckooTraceChecker.SetNextCapacity», .atomic, [(L.«CuckooTraceChecker.mut», .ex)], false⟩,
  ⟨L.«CuckooTraceChecker.mut», F.«CuckooTraceChecker.SetNextCapacity», .atomic, [], false⟩,
  ⟨L.«CuckooTraceChecker.mut», F.«CuckooTraceChecker.drain», .atomic, [(L.«CuckooTraceChecker.mut», .ex)], false⟩,
  ⟨L.«CuckooTraceChecker.mut», F.«CuckooTraceChecker.drain», .atomic, [], false⟩,
  ⟨L.«CuckooTraceChecker.capacity», F.«CuckooTraceChecker.Maintain», .read, [(L.«CuckooTraceChecker.mut», .ex)], false⟩,
  ⟨L.«CuckooTraceChecker.capacity», F.«CuckooTraceChecker.Maintain», .read, [(L.«CuckooTraceChecker.mut», .sh)], false⟩,
  ⟨L.«CuckooTraceChecker.capacity», F.«CuckooTraceChecker.SetNextCapacity», .write, [(L.«CuckooTraceChecker.mut», .ex)], false⟩,
  ⟨L.«CuckooTraceChecker.met», F.«CuckooTraceChecker.Add», .read, [], false⟩,
  ⟨L.«CuckooTraceChecker.met», F.«CuckooTraceChecker.Maintain», .read, [(L.«CuckooTraceChecker.mut», .sh)], false⟩,
  ⟨L.«CuckooTraceChecker.met», F.«CuckooTraceChecker.drain», .read, [], false⟩,
  ⟨L.«CuckooTraceChecker.addch», F.«CuckooTraceChecker.Add», .read, [], false⟩,
  ⟨L.«CuckooTraceChecker.addch», F.«CuckooTraceChecker.Stop», .read, [], false⟩,
  ⟨L.«CuckooTraceChecker.addch», F.«CuckooTraceChecker.drain», .read, [(L.«CuckooTraceChecker.mut», .ex)], false⟩,
  ⟨L.«CuckooTraceChecker.addch», F.«CuckooTraceChecker.drain», .read, [], false⟩,
  ⟨L.«CuckooTraceChecker.addch», F.«NewCuckooTraceChecker$1», .read, [], false⟩,
  ⟨L.«CuckooTraceChecker.done», F.«CuckooTraceChecker.Stop», .read, [], false⟩,
  ⟨L.«CuckooTraceChecker.done», F.«NewCuckooTraceChecker$1», .read, [], false⟩,
  ⟨L.«CuckooTraceChecker.shutdownWG», F.«CuckooTraceChecker.Stop», .atomic, [], false⟩,
  ⟨L.«CuckooTraceChecker.shutdownWG», F.«NewCuckooTraceChecker$1», .atomic, [], false⟩,
  ⟨L.«CuckooTraceChecker.shutdownWG», F.«NewCuckooTraceChecker», .atomic, [], true⟩,
  ⟨L.«cuckooSentCache.met», F.«cuckooSentCache.monitor», .read, [], false⟩,
  ⟨L.«cuckooSentCache.kept», F.«NewCuckooSentCache», .atomic, [], true⟩,
  ⟨L.«cuckooSentCache.kept», F.«cuckooSentCache.CheckSpan», .atomic, [], false⟩,
  ⟨L.«cuckooSentCache.kept», F.«cuckooSentCache.CheckTrace», .atomic, [], false⟩,
  ⟨L.«cuckooSentCache.kept», F.«cuckooSentCache.Record», .atomic, [], false⟩,
  ⟨L.«cuckooSentCache.kept», F.«cuckooSentCache.Resize», .atomic, [], false⟩,
  ⟨L.«cuckooSentCache.dropped», F.«cuckooSentCache.CheckSpan», .read, [], false⟩,
  ⟨L.«cuckooSentCache.dropped», F.«cuckooSentCache.CheckTrace», .read, [], false⟩,
  ⟨L.«cuckooSentCache.dropped», F.«cuckooSentCache.Record», .read, [], false⟩,
  ⟨L.«cuckooSentCache.dropped», F.«cuckooSentCache.Resize», .read, [], false⟩,
  ⟨L.«cuckooSentCache.dropped», F.«cuckooSentCache.Stop», .read, [], false⟩,
  ⟨L.«cuckooSentCache.dropped», F.«cuckooSentCache.monitor», .read, [], false⟩,
  ⟨L.«cuckooSentCache.recentDroppedIDs», F.«cuckooSentCache.CheckSpan», .read, [], false⟩,
  ⟨L.«cuckooSentCache.recentDroppedIDs», F.«cuckooSentCache.CheckTrace», .read, [], false⟩,
  ⟨L.«cuckooSentCache.recentDroppedIDs», F.«cuckooSentCache.Record», .read, [], false⟩,
  ⟨L.«cuckooSentCache.recentDroppedIDs», F.«cuckooSentCache.monitor», .read, [], false⟩,
  ⟨L.«cuckooSentCache.cfg», F.«cuckooSentCache.monitor», .read, [], false⟩,
  ⟨L.«cuckooSentCache.done», F.«cuckooSentCache.Resize», .read, [], false⟩,
  ⟨L.«cuckooSentCache.done», F.«cuckooSentCache.Stop», .read, [], false⟩,
  ⟨L.«cuckooSentCache.done», F.«cuckooSentCache.monitor», .read, [], false⟩,
  ⟨L.«cuckooSentCache.shutdownWG», F.«NewCuckooSentCache», .atomic, [], true⟩,
  ⟨L.«cuckooSentCache.shutdownWG», F.«cuckooSentCache.Resize», .atomic, [], false⟩,
  ⟨L.«cuckooSentCache.shutdownWG», F.«cuckooSentCache.Stop», .atomic, [], false⟩,
  ⟨L.«cuckooSentCache.shutdownWG», F.«cuckooSentCache.monitor», .atomic, [], false⟩,
  ⟨L.«cuckooSentCache.keptReasons», F.«cuckooSentCache.CheckSpan», .read, [], false⟩,
  ⟨L.«cuckooSentCache.keptReasons», F.«cuckooSentCache.CheckTrace», .read, [], false⟩,
  ⟨L.«cuckooSentCache.keptReasons», F.«cuckooSentCache.Record», .read, [], false⟩,
  ⟨L.«Router.Config», F.«LogsServer.Export», .read, [], false⟩,
  ⟨L.«Router.Config», F.«Router.LnS», .read, [], false⟩,
  ⟨L.«Router.Config», F.«Router.apiKeyProcessor$1», .read, [], false⟩,
  ⟨L.«Router.Config», F.«Router.batch», .read, [], false⟩,
  ⟨L.«Router.Config», F.«Router.getAllSamplerRules», .read, [], false⟩,
  ⟨L.«Router.Config», F.«Router.getConfigMetadata», .read, [], false⟩,
  ⟨L.«Router.Config», F.«Router.getSamplerRules», .read, [], false⟩,
  ⟨L.«Router.Config», F.«Router.lookupEnvironment», .read, [], false⟩,
  ⟨L.«Router.Config», F.«Router.postOTLPLogs», .read, [], false⟩,
  ⟨L.«Router.Config», F.«Router.postOTLPTrace», .read, [], false⟩,
  ⟨L.«Router.Config», F.«Router.processEvent», .read, [], false⟩,
  ⟨L.«Router.Config», F.«Router.processOTLPRequestBatchMsgp», .read, [], false⟩,
  ⟨L.«Router.Config», F.«Router.processOTLPRequest», .read, [], false⟩,
  ⟨L.«Router.Config», F.«Router.proxy», .read, [], false⟩,
  ⟨L.«Router.Config», F.«Router.queryTokenChecker$1», .read, [], false⟩,
  ⟨L.«Router.Config», F.«Router.requestToEvent», .read, [], false⟩,
  ⟨L.«Router.Config», F.«TraceServer.ExportTraceData», .read, [], false⟩,
  ⟨L.«Router.Config», F.«customTraceExportHandler», .read, [], false⟩,
  ⟨L.«Router.Logger», F.«Router.LnS», .read, [], false⟩,
  ⟨L.«Router.Logger», F.«Router.handleOTLPFailureResponse», .read, [], false⟩,
  ⟨L.«Router.Logger», F.«Router.handlerReturnWithError», .read, [], false⟩,
  ⟨L.«Router.Logger», F.«Router.lookupEnvironment», .read, [], false⟩,
  ⟨L.«Router.Logger», F.«Router.postOTLPTrace», .read, [], false⟩,
  ⟨L.«Router.Logger», F.«Router.processOTLPRequestBatchMsgp», .read, [], false⟩,
  ⟨L.«Router.Logger», F.«Router.processOTLPRequest», .read, [], false⟩,
  ⟨L.«Router.Logger», F.«Router.proxy», .read, [], false⟩,
  ⟨L.«Router.Logger», F.«Router.requestLogger$1», .read, [], false⟩,
  ⟨L.«Router.Health», F.«Router.alive», .read, [], false⟩,
  ⟨L.«Router.Health», F.«Router.ready», .read, [], false⟩,
  ⟨L.«Router.Health», F.«Router.startGRPCHealthMonitor$2», .read, [], false⟩,
  ⟨L.«Router.HTTPTransport», F.«Router.LnS», .read, [], false⟩,
  ⟨L.«Router.UpstreamTransmission», F.«Router.processEvent», .read, [], false⟩,
  ⟨L.«Router.PeerTransmission», F.«Router.processEvent», .read, [], false⟩,
  ⟨L.«Router.Sharder», F.«Router.debugTrace», .read, [], false⟩,
  ⟨L.«Router.Sharder», F.«Router.processEvent», .read, [], false⟩,
  ⟨L.«Router.Collector», F.«Router.processEvent», .read, [], false⟩,
  ⟨L.«Router.Metrics», F.«LogsServer.Export», .read, [], false⟩,
  ⟨L.«Router.Metrics», F.«Router.alive», .read, [], false⟩,
  ⟨L.«Router.Metrics», F.«Router.batch», .read, [], false⟩,
  ⟨L.«Router.Metrics», F.«Router.event», .read, [], false⟩,
  ⟨L.«Router.Metrics», F.«Router.postOTLPLogs», .read, [], false⟩,
  ⟨L.«Router.Metrics», F.«Router.postOTLPTrace», .read, [], false⟩,
  ⟨L.«Router.Metrics», F.«Router.processEvent», .read, [], false⟩,
  ⟨L.«Router.Metrics», F.«Router.processOTLPRequestBatchMsgp», .read, [], false⟩,
  ⟨L.«Router.Metrics», F.«Router.processOTLPRequest», .read, [], false⟩,
  ⟨L.«Router.Metrics», F.«Router.proxy», .read, [], false⟩,
  ⟨L.«Router.Metrics», F.«Router.ready», .read, [], false⟩,
  ⟨L.«Router.Metrics», F.«Router.registerMetricNames», .read, [], false⟩,
  ⟨L.«Router.Metrics», F.«TraceServer.ExportTraceData», .read, [], false⟩,
  ⟨L.«Router.Tracer», F.«LogsServer.Export», .read, [], false⟩,
  ⟨L.«Router.Tracer», F.«Router.postOTLPLogs», .read, [], false⟩,
  ⟨L.«Router.Tracer», F.«Router.postOTLPTrace», .read, [], false⟩,
  ⟨L.«Router.Tracer», F.«TraceServer.ExportTraceData», .read, [], false⟩,
  ⟨L.«Router.versionStr», F.«Router.SetVersion», .write, [], false⟩,
  ⟨L.«Router.versionStr», F.«Router.version», .read, [], false⟩,
  ⟨L.«Router.proxyClient», F.«Router.LnS», .write, [], false⟩,
  ⟨L.«Router.proxyClient», F.«Router.lookupEnvironment», .read, [], false⟩,
  ⟨L.«Router.proxyClient», F.«Router.proxy», .read, [], false⟩,
  ⟨L.«Router.routerType», F.«Router.LnS», .read, [], false⟩,
  ⟨L.«Router.routerType», F.«Router.SetType», .write, [], false⟩,
  ⟨L.«Router.routerType», F.«Router.processEvent», .read, [], false⟩,
  ⟨L.«Router.routerType», F.«Router.registerMetricNames», .read, [], false⟩,
  ⟨L.«Router.iopLogger», F.«Router.Check», .read, [], false⟩,
  ⟨L.«Router.iopLogger», F.«Router.LnS$1», .read, [], false⟩,
  ⟨L.«Router.iopLogger», F.«Router.LnS», .read, [], false⟩,
  ⟨L.«Router.iopLogger», F.«Router.LnS», .write, [], false⟩,
  ⟨L.«Router.iopLogger», F.«Router.Watch», .read, [], false⟩,
  ⟨L.«Router.iopLogger», F.«Router.alive», .read, [], false⟩,
  ⟨L.«Router.iopLogger», F.«Router.batch», .read, [], false⟩,
  ⟨L.«Router.iopLogger», F.«Router.processEvent», .read, [], false⟩,
  ⟨L.«Router.iopLogger», F.«Router.ready», .read, [], false⟩,
  ⟨L.«Router.iopLogger», F.«Router.startGRPCHealthMonitor», .read, [], false⟩,
  ⟨L.«Router.zstdDecoder», F.«Router.LnS», .write, [], false⟩,
  ⟨L.«Router.zstdDecoder», F.«Router.readZstdBody», .read, [], false⟩,
  ⟨L.«Router.server», F.«Router.LnS$1», .read, [], false⟩,
  ⟨L.«Router.server», F.«Router.LnS», .write, [], false⟩,
  ⟨L.«Router.server», F.«Router.Stop», .read, [], false⟩,
  ⟨L.«Router.grpcServer», F.«Router.LnS», .read, [], false⟩,
  ⟨L.«Router.grpcServer», F.«Router.LnS», .write, [], false⟩,
  ⟨L.«Router.grpcServer», F.«Router.Stop», .read, [], false⟩,
  ⟨L.«Router.doneWG», F.«Router.LnS$1», .atomic, [], false⟩,
  ⟨L.«Router.doneWG», F.«Router.LnS», .atomic, [], false⟩,
  ⟨L.«Router.doneWG», F.«Router.Stop», .atomic, [], false⟩,
  ⟨L.«Router.doneWG», F.«Router.startGRPCHealthMonitor$2», .atomic, [], false⟩,
  ⟨L.«Router.doneWG», F.«Router.startGRPCHealthMonitor», .atomic, [], false⟩,
  ⟨L.«Router.donech», F.«Router.LnS», .write, [], false⟩,
  ⟨L.«Router.donech», F.«Router.Stop», .read, [], false⟩,
  ⟨L.«Router.donech», F.«Router.startGRPCHealthMonitor$2», .read, [], false⟩,
  ⟨L.«Router.environmentCache», F.«Router.LnS», .write, [], false⟩,
  ⟨L.«Router.environmentCache», F.«Router.SetEnvironmentCache», .write, [], false⟩,
  ⟨L.«Router.environmentCache», F.«Router.getEnvironmentName», .read, [], false⟩,
  ⟨L.«Router.environmentCache», F.«Router.getKeyID», .read, [], false⟩,
  ⟨L.«Router.hsrv», F.«Router.LnS», .read, [], false⟩,
  ⟨L.«Router.hsrv», F.«Router.LnS», .write, [], false⟩,
  ⟨L.«Router.hsrv», F.«Router.startGRPCHealthMonitor$1», .read, [], false⟩,
  ⟨L.«Router.metricsNames», F.«LogsServer.Export», .read, [], false⟩,
  ⟨L.«Router.metricsNames», F.«Router.batch», .read, [], false⟩,
  ⟨L.«Router.metricsNames», F.«Router.event», .read, [], false⟩,
  ⟨L.«Router.metricsNames», F.«Router.postOTLPLogs», .read, [], false⟩,
  ⟨L.«Router.metricsNames», F.«Router.postOTLPTrace», .read, [], false⟩,
  ⟨L.«Router.metricsNames», F.«Router.processEvent», .read, [], false⟩,
  ⟨L.«Router.metricsNames», F.«Router.processOTLPRequestBatchMsgp», .read, [], false⟩,
  ⟨L.«Router.metricsNames», F.«Router.processOTLPRequest», .read, [], false⟩,
  ⟨L.«Router.metricsNames», F.«Router.proxy», .read, [], false⟩,
  ⟨L.«Router.metricsNames», F.«Router.registerMetricNames», .write, [], false⟩,
  ⟨L.«Router.metricsNames», F.«TraceServer.ExportTraceData», .read, [], false⟩,
  ⟨L.«environmentCache.mutex», F.«environmentCache.get», .atomic, [(L.«environmentCache.mutex», .ex)], false⟩,
  ⟨L.«environmentCache.mutex», F.«environmentCache.get», .atomic, [(L.«environmentCache.mutex», .sh)], false⟩,
  ⟨L.«environmentCache.mutex», F.«environmentCache.get», .atomic, [], false⟩,
  ⟨L.«environmentCache.items», F.«environmentCache.addItem», .write, [(L.«environmentCache.mutex», .ex)], false⟩,
  ⟨L.«environmentCache.items», F.«environmentCache.get», .read, [(L.«environmentCache.mutex», .ex)], false⟩,
  ⟨L.«environmentCache.items», F.«environmentCache.get», .read, [(L.«environmentCache.mutex», .sh)], false⟩,
  ⟨L.«environmentCache.ttl», F.«environmentCache.get», .read, [(L.«environmentCache.mutex», .ex)], false⟩,
  ⟨L.«environmentCache.getFn», F.«environmentCache.get», .read, [(L.«environmentCache.mutex», .ex)], false⟩,
  ⟨L.«eventBatch.mutex», F.«DirectTransmission.EnqueueEvent», .atomic, [(L.«eventBatch.mutex», .ex)], false⟩,
  ⟨L.«eventBatch.mutex», F.«DirectTransmission.EnqueueEvent», .atomic, [], false⟩,
  ⟨L.«eventBatch.mutex», F.«DirectTransmission.dispatchStaleBatches», .atomic, [(L.«eventBatch.mutex», .ex)], false⟩,
  ⟨L.«eventBatch.mutex», F.«DirectTransmission.dispatchStaleBatches», .atomic, [], false⟩,
  ⟨L.«eventBatch.events», F.«DirectTransmission.EnqueueEvent», .read, [(L.«eventBatch.mutex», .ex)], false⟩,
  ⟨L.«eventBatch.events», F.«DirectTransmission.EnqueueEvent», .write, [(L.«eventBatch.mutex», .ex)], false⟩,
  ⟨L.«eventBatch.events», F.«DirectTransmission.Stop$1», .read, [], false⟩,
  ⟨L.«eventBatch.events», F.«DirectTransmission.Stop», .read, [], false⟩,
  ⟨L.«eventBatch.events», F.«DirectTransmission.dispatchStaleBatches», .read, [(L.«eventBatch.mutex», .ex)], false⟩,
  ⟨L.«eventBatch.events», F.«DirectTransmission.dispatchStaleBatches», .write, [(L.«eventBatch.mutex», .ex)], false⟩,
  ⟨L.«eventBatch.startTime», F.«DirectTransmission.EnqueueEvent», .write, [(L.«eventBatch.mutex», .ex)], false⟩,
  ⟨L.«eventBatch.startTime», F.«DirectTransmission.dispatchStaleBatches», .read, [(L.«eventBatch.mutex», .ex)], false⟩,
  ⟨L.«DirectTransmission.Config», F.«DirectTransmission.handleError», .read, [], false⟩,
  ⟨L.«DirectTransmission.Logger», F.«DirectTransmission.EnqueueEvent», .read, [], false⟩,
  ⟨L.«DirectTransmission.Logger», F.«DirectTransmission.Start», .read, [], false⟩,
  ⟨L.«DirectTransmission.Logger», F.«DirectTransmission.handleError», .read, [], false⟩,
  ⟨L.«DirectTransmission.Logger», F.«DirectTransmission.sendBatch», .read, [], false⟩,
  ⟨L.«DirectTransmission.Version», F.«DirectTransmission.Start», .read, [], false⟩,
  ⟨L.«DirectTransmission.Metrics», F.«DirectTransmission.EnqueueEvent», .read, [], false⟩,
  ⟨L.«DirectTransmission.Metrics», F.«DirectTransmission.dispatchStaleBatches», .read, [], false⟩,
  ⟨L.«DirectTransmission.Metrics», F.«DirectTransmission.handleBatchFailure», .read, [], false⟩,
  ⟨L.«DirectTransmission.Metrics», F.«DirectTransmission.handleEventError», .read, [], false⟩,
  ⟨L.«DirectTransmission.Metrics», F.«DirectTransmission.registerMetrics», .read, [], false⟩,
  ⟨L.«DirectTransmission.Metrics», F.«DirectTransmission.sendBatch», .read, [], false⟩,
  ⟨L.«DirectTransmission.Transport», F.«DirectTransmission.Start», .read, [], false⟩,
  ⟨L.«DirectTransmission.Clock», F.«DirectTransmission.EnqueueEvent», .read, [], false⟩,
  ⟨L.«DirectTransmission.Clock», F.«DirectTransmission.dispatchStaleBatches», .read, [], false⟩,
  ⟨L.«DirectTransmission.Clock», F.«DirectTransmission.sendBatch», .read, [], false⟩,
  ⟨L.«DirectTransmission.transmitType», F.«DirectTransmission.Start», .read, [], false⟩,
  ⟨L.«DirectTransmission.transmitType», F.«DirectTransmission.registerMetrics», .read, [], false⟩,
  ⟨L.«DirectTransmission.enableCompression», F.«DirectTransmission.sendBatch», .read, [], false⟩,
  ⟨L.«DirectTransmission.maxBatchSize», F.«DirectTransmission.EnqueueEvent», .read, [], false⟩,
  ⟨L.«DirectTransmission.batchTimeout», F.«DirectTransmission.dispatchStaleBatches», .read, [], false⟩,
  ⟨L.«DirectTransmission.batchSendTimeout», F.«DirectTransmission.Start», .read, [], false⟩,
  ⟨L.«DirectTransmission.additionalHeaders», F.«DirectTransmission.sendBatch», .read, [], false⟩,
  ⟨L.«DirectTransmission.eventBatches», F.«DirectTransmission.EnqueueEvent», .read, [(L.«DirectTransmission.batchMutex», .ex)], false⟩,
  ⟨L.«DirectTransmission.eventBatches», F.«DirectTransmission.EnqueueEvent», .read, [(L.«DirectTransmission.batchMutex», .sh)], false⟩,
  ⟨L.«DirectTransmission.eventBatches», F.«DirectTransmission.EnqueueEvent», .write, [(L.«DirectTransmission.batchMutex», .ex)], false⟩,
  ⟨L.«DirectTransmission.eventBatches», F.«DirectTransmission.Stop», .read, [], false⟩,
  ⟨L.«DirectTransmission.eventBatches», F.«DirectTransmission.Stop», .write, [], false⟩,
  ⟨L.«DirectTransmission.eventBatches», F.«DirectTransmission.dispatchStaleBatches», .read, [(L.«DirectTransmission.batchMutex», .sh)], false⟩,
  ⟨L.«DirectTransmission.batchMutex», F.«DirectTransmission.EnqueueEvent», .atomic, [(L.«DirectTransmission.batchMutex», .ex)], false⟩,
  ⟨L.«DirectTransmission.batchMutex», F.«DirectTransmission.EnqueueEvent», .atomic, [(L.«DirectTransmission.batchMutex», .sh)], false⟩,
  ⟨L.«DirectTransmission.batchMutex», F.«DirectTransmission.EnqueueEvent», .atomic, [], false⟩,
  ⟨L.«DirectTransmission.batchMutex», F.«DirectTransmission.dispatchStaleBatches», .atomic, [(L.«DirectTransmission.batchMutex», .sh)], false⟩,
  ⟨L.«DirectTransmission.batchMutex», F.«DirectTransmission.dispatchStaleBatches», .atomic, [], false⟩,
  ⟨L.«DirectTransmission.dispatchPool», F.«DirectTransmission.EnqueueEvent», .read, [], false⟩,
  ⟨L.«DirectTransmission.dispatchPool», F.«DirectTransmission.Start», .write, [], false⟩,
  ⟨L.«DirectTransmission.dispatchPool», F.«DirectTransmission.Stop», .read, [], false⟩,
  ⟨L.«DirectTransmission.dispatchPool», F.«DirectTransmission.Stop», .write, [], false⟩,
  ⟨L.«DirectTransmission.dispatchPool», F.«DirectTransmission.dispatchStaleBatches», .read, [], false⟩,
  ⟨L.«DirectTransmission.stop», F.«DirectTransmission.Stop», .read, [], false⟩,
  ⟨L.«DirectTransmission.stop», F.«DirectTransmission.Stop», .write, [], false⟩,
  ⟨L.«DirectTransmission.stop», F.«DirectTransmission.dispatchStaleBatches», .read, [], false⟩,
  ⟨L.«DirectTransmission.stopWG», F.«DirectTransmission.Start», .atomic, [], false⟩,
  ⟨L.«DirectTransmission.stopWG», F.«DirectTransmission.Stop», .atomic, [], false⟩,
  ⟨L.«DirectTransmission.stopWG», F.«DirectTransmission.dispatchStaleBatches», .atomic, [], false⟩,
  ⟨L.«DirectTransmission.httpClient», F.«DirectTransmission.Start», .write, [], false⟩,
  ⟨L.«DirectTransmission.httpClient», F.«DirectTransmission.sendBatch», .read, [], false⟩,
  ⟨L.«DirectTransmission.userAgent», F.«DirectTransmission.Start», .write, [], false⟩,
  ⟨L.«DirectTransmission.userAgent», F.«DirectTransmission.sendBatch», .read, [], false⟩,
  ⟨L.«DirectTransmission.metricKeys», F.«DirectTransmission.EnqueueEvent», .read, [], false⟩,
  ⟨L.«DirectTransmission.metricKeys», F.«DirectTransmission.dispatchStaleBatches», .read, [], false⟩,
  ⟨L.«DirectTransmission.metricKeys», F.«DirectTransmission.handleBatchFailure», .read, [], false⟩,
  ⟨L.«DirectTransmission.metricKeys», F.«DirectTransmission.handleEventError», .read, [], false⟩,
  ⟨L.«DirectTransmission.metricKeys», F.«DirectTransmission.registerMetrics», .write, [], false⟩,
  ⟨L.«DirectTransmission.metricKeys», F.«DirectTransmission.sendBatch», .read, [], false⟩,
  ⟨L.«RedisPubsubPeers.Config», F.«RedisPubsubPeers.GetInstanceID», .read, [], false⟩,
  ⟨L.«RedisPubsubPeers.Config», F.«RedisPubsubPeers.GetPeers», .read, [], false⟩,
  ⟨L.«RedisPubsubPeers.Config», F.«RedisPubsubPeers.Ready$1», .read, [], false⟩,
  ⟨L.«RedisPubsubPeers.Config», F.«RedisPubsubPeers.Ready», .read, [], false⟩,
  ⟨L.«RedisPubsubPeers.Config», F.«RedisPubsubPeers.Start», .read, [], false⟩,
  ⟨L.«RedisPubsubPeers.Config», F.«RedisPubsubPeers.stop», .read, [], false⟩,
  ⟨L.«RedisPubsubPeers.Metrics», F.«RedisPubsubPeers.Start», .read, [], false⟩,
  ⟨L.«RedisPubsubPeers.Metrics», F.«RedisPubsubPeers.Start», .write, [], false⟩,
  ⟨L.«RedisPubsubPeers.Metrics», F.«RedisPubsubPeers.checkHash», .read, [], false⟩,
  ⟨L.«RedisPubsubPeers.Metrics», F.«RedisPubsubPeers.listen», .read, [], false⟩,
  ⟨L.«RedisPubsubPeers.Logger», F.«RedisPubsubPeers.GetInstanceID», .read, [], false⟩,
  ⟨L.«RedisPubsubPeers.Logger», F.«RedisPubsubPeers.GetPeers», .read, [], false⟩,
  ⟨L.«RedisPubsubPeers.Logger», F.«RedisPubsubPeers.Ready$1», .read, [], false⟩,
  ⟨L.«RedisPubsubPeers.Logger», F.«RedisPubsubPeers.Ready», .read, [], false⟩,
  ⟨L.«RedisPubsubPeers.Logger», F.«RedisPubsubPeers.Start», .read, [], false⟩,
  ⟨L.«RedisPubsubPeers.Logger», F.«RedisPubsubPeers.Start», .write, [], false⟩,
  ⟨L.«RedisPubsubPeers.Logger», F.«RedisPubsubPeers.stop», .read, [], false⟩,
  ⟨L.«RedisPubsubPeers.PubSub», F.«RedisPubsubPeers.Ready$1», .read, [], false⟩,
  ⟨L.«RedisPubsubPeers.PubSub», F.«RedisPubsubPeers.Start», .read, [], false⟩,
  ⟨L.«RedisPubsubPeers.PubSub», F.«RedisPubsubPeers.stop», .read, [], false⟩,
  ⟨L.«RedisPubsubPeers.Clock», F.«RedisPubsubPeers.Ready$1», .read, [], false⟩,
  ⟨L.«RedisPubsubPeers.InstanceID», F.«RedisPubsubPeers.Ready$1», .read, [], false⟩,
  ⟨L.«RedisPubsubPeers.InstanceID», F.«RedisPubsubPeers.Start», .read, [], false⟩,
  ⟨L.«RedisPubsubPeers.InstanceID», F.«RedisPubsubPeers.stop», .read, [], false⟩,
  ⟨L.«RedisPubsubPeers.Done», F.«RedisPubsubPeers.Ready$1», .read, [], false⟩,
  ⟨L.«RedisPubsubPeers.peers», F.«RedisPubsubPeers.GetPeers», .read, [], false⟩,
  ⟨L.«RedisPubsubPeers.peers», F.«RedisPubsubPeers.Ready$1», .read, [], false⟩,
  ⟨L.«RedisPubsubPeers.peers», F.«RedisPubsubPeers.Start», .read, [], false⟩,
  ⟨L.«RedisPubsubPeers.peers», F.«RedisPubsubPeers.Start», .write, [], false⟩,
  ⟨L.«RedisPubsubPeers.peers», F.«RedisPubsubPeers.checkHash», .read, [], false⟩,
  ⟨L.«RedisPubsubPeers.peers», F.«RedisPubsubPeers.listen», .read, [], false⟩,
  ⟨L.«RedisPubsubPeers.hash», F.«RedisPubsubPeers.Ready$1», .atomic, [], false⟩,
  ⟨L.«RedisPubsubPeers.hash», F.«RedisPubsubPeers.checkHash», .atomic, [], false⟩,
  ⟨L.«RedisPubsubPeers.cbMut», F.«RedisPubsubPeers.RegisterUpdatedPeersCallback», .atomic, [(L.«RedisPubsubPeers.cbMut», .ex)], false⟩,
  ⟨L.«RedisPubsubPeers.cbMut», F.«RedisPubsubPeers.RegisterUpdatedPeersCallback», .atomic, [], false⟩,
  ⟨L.«RedisPubsubPeers.cbMut», F.«RedisPubsubPeers.checkHash», .atomic, [(L.«RedisPubsubPeers.cbMut», .ex)], false⟩,
  ⟨L.«RedisPubsubPeers.cbMut», F.«RedisPubsubPeers.checkHash», .atomic, [], false⟩,
  ⟨L.«RedisPubsubPeers.callbacks», F.«RedisPubsubPeers.RegisterUpdatedPeersCallback», .read, [(L.«RedisPubsubPeers.cbMut», .ex)], false⟩,
  ⟨L.«RedisPubsubPeers.callbacks», F.«RedisPubsubPeers.RegisterUpdatedPeersCallback», .write, [(L.«RedisPubsubPeers.cbMut», .ex)], false⟩,
  ⟨L.«RedisPubsubPeers.callbacks», F.«RedisPubsubPeers.Start», .write, [], false⟩,
  ⟨L.«RedisPubsubPeers.callbacks», F.«RedisPubsubPeers.checkHash», .read, [(L.«RedisPubsubPeers.cbMut», .ex)], false⟩,
  ⟨L.«RedisPubsubPeers.sub», F.«RedisPubsubPeers.Start», .write, [], false⟩,
  ⟨L.«RedisPubsubPeers.topic», F.«RedisPubsubPeers.Ready$1», .read, [], false⟩,
  ⟨L.«RedisPubsubPeers.topic», F.«RedisPubsubPeers.Start», .read, [], false⟩,
  ⟨L.«RedisPubsubPeers.topic», F.«RedisPubsubPeers.Start», .write, [], false⟩,
  ⟨L.«RedisPubsubPeers.topic», F.«RedisPubsubPeers.stop», .read, [], false⟩,
  ⟨L.«fileConfig.mainConfig», F.«NewConfig», .read, [], true⟩,
  ⟨L.«fileConfig.mainConfig», F.«fileConfig.GetAccessKeyConfig», .read, [(L.«fileConfig.mux», .sh)], false⟩,
  ⟨L.«fileConfig.mainConfig», F.«fileConfig.GetAddCountsToRoot», .read, [(L.«fileConfig.mux», .sh)], false⟩,
  ⟨L.«fileConfig.mainConfig», F.«fileConfig.GetAddHostMetadataToTrace», .read, [(L.«fileConfig.mux», .sh)], false⟩,
  ⟨L.«fileConfig.mainConfig», F.«fileConfig.GetAddRuleReasonToTrace», .read, [(L.«fileConfig.mux», .sh)], false⟩,
  ⟨L.«fileConfig.mainConfig», F.«fileConfig.GetAddSpanCountToRoot», .read, [(L.«fileConfig.mux», .sh)], false⟩,
  ⟨L.«fileConfig.mainConfig», F.«fileConfig.GetAdditionalAttributes», .read, [(L.«fileConfig.mux», .sh)], false⟩,
  ⟨L.«fileConfig.mainConfig», F.«fileConfig.GetAdditionalErrorFields», .read, [(L.«fileConfig.mux», .sh)], false⟩,
  ⟨L.«fileConfig.mainConfig», F.«fileConfig.GetAdditionalHeaders», .read, [(L.«fileConfig.mux», .sh)], false⟩,
  ⟨L.«fileConfig.mainConfig», F.«fileConfig.GetCollectionConfig», .read, [(L.«fileConfig.mux», .sh)], false⟩,
  ⟨L.«fileConfig.mainConfig», F.«fileConfig.GetCompressPeerCommunication», .read, [(L.«fileConfig.mux», .sh)], false⟩,
  ⟨L.«fileConfig.mainConfig», F.«fileConfig.GetDatasetPrefix», .read, [(L.«fileConfig.mux», .sh)], false⟩,
  ⟨L.«fileConfig.mainConfig», F.«fileConfig.GetDebugServiceAddr», .read, [(L.«fileConfig.mux», .sh)], false⟩,
  ⟨L.«fileConfig.mainConfig», F.«fileConfig.GetEnvironmentCacheTTL», .read, [(L.«fileConfig.mux», .sh)], false⟩,
  ⟨L.«fileConfig.mainConfig», F.«fileConfig.GetGRPCConfig», .read, [(L.«fileConfig.mux», .sh)], false⟩,
  ⟨L.«fileConfig.mainConfig», F.«fileConfig.GetGRPCEnabled», .read, [(L.«fileConfig.mux», .sh)], false⟩,
  ⟨L.«fileConfig.mainConfig», F.«fileConfig.GetGRPCListenAddr», .read, [(L.«fileConfig.mux», .sh)], false⟩,
  ⟨L.«fileConfig.mainConfig», F.«fileConfig.GetGeneralConfig», .read, [(L.«fileConfig.mux», .sh)], false⟩,
  ⟨L.«fileConfig.mainConfig», F.«fileConfig.GetHTTPIdleTimeout», .read, [(L.«fileConfig.mux», .sh)], false⟩,
  ⟨L.«fileConfig.mainConfig», F.«fileConfig.GetHealthCheckTimeout», .read, [(L.«fileConfig.mux», .sh)], false⟩,
  ⟨L.«fileConfig.mainConfig», F.«fileConfig.GetHoneycombAPI», .read, [(L.«fileConfig.mux», .sh)], false⟩,
  ⟨L.«fileConfig.mainConfig», F.«fileConfig.GetHoneycombLoggerConfig», .read, [(L.«fileConfig.mux», .sh)], false⟩,
  ⟨L.«fileConfig.mainConfig», F.«fileConfig.GetIdentifierInterfaceName», .read, [(L.«fileConfig.mux», .sh)], false⟩,
  ⟨L.«fileConfig.mainConfig», F.«fileConfig.GetIsDryRun», .read, [(L.«fileConfig.mux», .sh)], false⟩,
  ⟨L.«fileConfig.mainConfig», F.«fileConfig.GetListenAddr», .read, [(L.«fileConfig.mux», .sh)], false⟩,
  ⟨L.«fileConfig.mainConfig», F.«fileConfig.GetLoggerLevel», .read, [(L.«fileConfig.mux», .sh)], false⟩,
  ⟨L.«fileConfig.mainConfig», F.«fileConfig.GetLoggerType», .read, [(L.«fileConfig.mux», .sh)], false⟩,
  ⟨L.«fileConfig.mainConfig», F.«fileConfig.GetOTelMetricsConfig», .read, [(L.«fileConfig.mux», .sh)], false⟩,
  ⟨L.«fileConfig.mainConfig», F.«fileConfig.GetOTelTracingConfig», .read, [(L.«fileConfig.mux», .sh)], false⟩,
  ⟨L.«fileConfig.mainConfig», F.«fileConfig.GetOpAMPConfig», .read, [(L.«fileConfig.mux», .sh)], false⟩,
  ⟨L.«fileConfig.mainConfig», F.«fileConfig.GetParentIdFieldNames», .read, [(L.«fileConfig.mux», .sh)], false⟩,
  ⟨L.«fileConfig.mainConfig», F.«fileConfig.GetPeerListenAddr», .read, [(L.«fileConfig.mux», .sh)], false⟩,
  ⟨L.«fileConfig.mainConfig», F.«fileConfig.GetPeerManagementType», .read, [(L.«fileConfig.mux», .sh)], false⟩,
  ⟨L.«fileConfig.mainConfig», F.«fileConfig.GetPeerTimeout», .read, [(L.«fileConfig.mux», .sh)], false⟩,
  ⟨L.«fileConfig.mainConfig», F.«fileConfig.GetPeers», .read, [(L.«fileConfig.mux», .sh)], false⟩,
  ⟨L.«fileConfig.mainConfig», F.«fileConfig.GetPrometheusMetricsConfig», .read, [(L.«fileConfig.mux», .sh)], false⟩,
  ⟨L.«fileConfig.mainConfig», F.«fileConfig.GetQueryAuthToken», .read, [(L.«fileConfig.mux», .sh)], false⟩,
  ⟨L.«fileConfig.mainConfig», F.«fileConfig.GetRedisAuthCode», .read, [(L.«fileConfig.mux», .sh)], false⟩,
  ⟨L.«fileConfig.mainConfig», F.«fileConfig.GetRedisClusterHosts», .read, [(L.«fileConfig.mux», .sh)], false⟩,
  ⟨L.«fileConfig.mainConfig», F.«fileConfig.GetRedisDatabase», .read, [(L.«fileConfig.mux», .sh)], false⟩,
  ⟨L.«fileConfig.mainConfig», F.«fileConfig.GetRedisHost», .read, [(L.«fileConfig.mux», .sh)], false⟩,
  ⟨L.«fileConfig.mainConfig», F.«fileConfig.GetRedisIdentifier», .read, [(L.«fileConfig.mux», .sh)], false⟩,
  ⟨L.«fileConfig.mainConfig», F.«fileConfig.GetRedisPassword», .read, [(L.«fileConfig.mux», .sh)], false⟩,
  ⟨L.«fileConfig.mainConfig», F.«fileConfig.GetRedisPeerManagement», .read, [(L.«fileConfig.mux», .sh)], false⟩,
  ⟨L.«fileConfig.mainConfig», F.«fileConfig.GetRedisPrefix», .read, [(L.«fileConfig.mux», .sh)], false⟩,
  ⟨L.«fileConfig.mainConfig», F.«fileConfig.GetRedisUsername», .read, [(L.«fileConfig.mux», .sh)], false⟩,
  ⟨L.«fileConfig.mainConfig», F.«fileConfig.GetSampleCacheConfig», .read, [(L.«fileConfig.mux», .sh)], false⟩,
  ⟨L.«fileConfig.mainConfig», F.«fileConfig.GetStdoutLoggerConfig», .read, [(L.«fileConfig.mux», .sh)], false⟩,
  ⟨L.«fileConfig.mainConfig», F.«fileConfig.GetStressReliefConfig», .read, [(L.«fileConfig.mux», .sh)], false⟩,
  ⟨L.«fileConfig.mainConfig», F.«fileConfig.GetTraceIdFieldNames», .read, [(L.«fileConfig.mux», .sh)], false⟩,
  ⟨L.«fileConfig.mainConfig», F.«fileConfig.GetTracesConfig», .read, [(L.«fileConfig.mux», .sh)], false⟩,
  ⟨L.«fileConfig.mainConfig», F.«fileConfig.GetUseIPV6Identifier», .read, [(L.«fileConfig.mux», .sh)], false⟩,
  ⟨L.«fileConfig.mainConfig», F.«fileConfig.GetUseTLSInsecure», .read, [(L.«fileConfig.mux», .sh)], false⟩,
  ⟨L.«fileConfig.mainConfig», F.«fileConfig.GetUseTLS», .read, [(L.«fileConfig.mux», .sh)], false⟩,
  ⟨L.«fileConfig.mainConfig», F.«fileConfig.Reload», .read, [], true⟩,
  ⟨L.«fileConfig.mainConfig», F.«fileConfig.Reload», .write, [(L.«fileConfig.mux», .ex)], false⟩,
  ⟨L.«fileConfig.mainHash», F.«fileConfig.GetConfigMetadata», .read, [(L.«fileConfig.mux», .sh)], false⟩,
  ⟨L.«fileConfig.mainHash», F.«fileConfig.GetHashes», .read, [(L.«fileConfig.mux», .sh)], false⟩,
  ⟨L.«fileConfig.mainHash», F.«fileConfig.Reload», .read, [(L.«fileConfig.mux», .ex)], false⟩,
  ⟨L.«fileConfig.mainHash», F.«fileConfig.Reload», .read, [], true⟩,
  ⟨L.«fileConfig.mainHash», F.«fileConfig.Reload», .write, [(L.«fileConfig.mux», .ex)], false⟩,
  ⟨L.«fileConfig.rulesConfig», F.«NewConfig», .read, [], true⟩,
  ⟨L.«fileConfig.rulesConfig», F.«fileConfig.GetAllSamplerRules», .read, [(L.«fileConfig.mux», .sh)], false⟩,
  ⟨L.«fileConfig.rulesConfig», F.«fileConfig.GetSamplerConfigForDestName», .read, [(L.«fileConfig.mux», .sh)], false⟩,
  ⟨L.«fileConfig.rulesConfig», F.«fileConfig.GetSamplingKeyFieldsForDestName», .read, [(L.«fileConfig.mux», .sh)], false⟩,
  ⟨L.«fileConfig.rulesConfig», F.«fileConfig.Reload», .read, [], true⟩,
  ⟨L.«fileConfig.rulesConfig», F.«fileConfig.Reload», .write, [(L.«fileConfig.mux», .ex)], false⟩,
  ⟨L.«fileConfig.rulesHash», F.«fileConfig.GetConfigMetadata», .read, [(L.«fileConfig.mux», .sh)], false⟩,
  ⟨L.«fileConfig.rulesHash», F.«fileConfig.GetHashes», .read, [(L.«fileConfig.mux», .sh)], false⟩,
  ⟨L.«fileConfig.rulesHash», F.«fileConfig.Reload», .read, [(L.«fileConfig.mux», .ex)], false⟩,
  ⟨L.«fileConfig.rulesHash», F.«fileConfig.Reload», .read, [], true⟩,
  ⟨L.«fileConfig.rulesHash», F.«fileConfig.Reload», .write, [(L.«fileConfig.mux», .ex)], false⟩,
  ⟨L.«fileConfig.opts», F.«fileConfig.GetConfigMetadata», .read, [(L.«fileConfig.mux», .sh)], false⟩,
  ⟨L.«fileConfig.opts», F.«fileConfig.Reload», .read, [], false⟩,
  ⟨L.«fileConfig.callbacks», F.«NewConfig», .write, [], true⟩,
  ⟨L.«fileConfig.callbacks», F.«fileConfig.RegisterReloadCallback», .read, [(L.«fileConfig.mux», .ex)], false⟩,
  ⟨L.«fileConfig.callbacks», F.«fileConfig.RegisterReloadCallback», .write, [(L.«fileConfig.mux», .ex)], false⟩,
  ⟨L.«fileConfig.callbacks», F.«fileConfig.Reload», .read, [(L.«fileConfig.mux», .ex)], false⟩,
  ⟨L.«fileConfig.mux», F.«fileConfig.GetAccessKeyConfig», .atomic, [(L.«fileConfig.mux», .sh)], false⟩,
  ⟨L.«fileConfig.mux», F.«fileConfig.GetAccessKeyConfig», .atomic, [], false⟩,
  ⟨L.«fileConfig.mux», F.«fileConfig.GetAddCountsToRoot», .atomic, [(L.«fileConfig.mux», .sh)], false⟩,
  ⟨L.«fileConfig.mux», F.«fileConfig.GetAddCountsToRoot», .atomic, [], false⟩,
  ⟨L.«fileConfig.mux», F.«fileConfig.GetAddHostMetadataToTrace», .atomic, [(L.«fileConfig.mux», .sh)], false⟩,
  ⟨L.«fileConfig.mux», F.«fileConfig.GetAddHostMetadataToTrace», .atomic, [], false⟩,
  ⟨L.«fileConfig.mux», F.«fileConfig.GetAddRuleReasonToTrace», .atomic, [(L.«fileConfig.mux», .sh)], false⟩,
  ⟨L.«fileConfig.mux», F.«fileConfig.GetAddRuleReasonToTrace», .atomic, [], false⟩,
  ⟨L.«fileConfig.mux», F.«fileConfig.GetAddSpanCountToRoot», .atomic, [(L.«fileConfig.mux», .sh)], false⟩,
  ⟨L.«fileConfig.mux», F.«fileConfig.GetAddSpanCountToRoot», .atomic, [], false⟩,
  ⟨L.«fileConfig.mux», F.«fileConfig.GetAdditionalAttributes», .atomic, [(L.«fileConfig.mux», .sh)], false⟩,
  ⟨L.«fileConfig.mux», F.«fileConfig.GetAdditionalAttributes», .atomic, [], false⟩,
  ⟨L.«fileConfig.mux», F.«fileConfig.GetAdditionalErrorFields», .atomic, [(L.«fileConfig.mux», .sh)], false⟩,
  ⟨L.«fileConfig.mux», F.«fileConfig.GetAdditionalErrorFields», .atomic, [], false⟩,
  ⟨L.«fileConfig.mux», F.«fileConfig.GetAdditionalHeaders», .atomic, [(L.«fileConfig.mux», .sh)], false⟩,
  ⟨L.«fileConfig.mux», F.«fileConfig.GetAdditionalHeaders», .atomic, [], false⟩,
  ⟨L.«fileConfig.mux», F.«fileConfig.GetAllSamplerRules», .atomic, [(L.«fileConfig.mux», .sh)], false⟩,
  ⟨L.«fileConfig.mux», F.«fileConfig.GetAllSamplerRules», .atomic, [], false⟩,
  ⟨L.«fileConfig.mux», F.«fileConfig.GetCollectionConfig», .atomic, [(L.«fileConfig.mux», .sh)], false⟩,
  ⟨L.«fileConfig.mux», F.«fileConfig.GetCollectionConfig», .atomic, [], false⟩,
  ⟨L.«fileConfig.mux», F.«fileConfig.GetCompressPeerCommunication», .atomic, [(L.«fileConfig.mux», .sh)], false⟩,
  ⟨L.«fileConfig.mux», F.«fileConfig.GetCompressPeerCommunication», .atomic, [], false⟩,
  ⟨L.«fileConfig.mux», F.«fileConfig.GetConfigMetadata», .atomic, [(L.«fileConfig.mux», .sh)], false⟩,
  ⟨L.«fileConfig.mux», F.«fileConfig.GetConfigMetadata», .atomic, [], false⟩,
  ⟨L.«fileConfig.mux», F.«fileConfig.GetDatasetPrefix», .atomic, [(L.«fileConfig.mux», .sh)], false⟩,
  ⟨L.«fileConfig.mux», F.«fileConfig.GetDatasetPrefix», .atomic, [], false⟩,
  ⟨L.«fileConfig.mux», F.«fileConfig.GetDebugServiceAddr», .atomic, [(L.«fileConfig.mux», .sh)], false⟩,
  ⟨L.«fileConfig.mux», F.«fileConfig.GetDebugServiceAddr», .atomic, [], false⟩,
  ⟨L.«fileConfig.mux», F.«fileConfig.GetEnvironmentCacheTTL», .atomic, [(L.«fileConfig.mux», .sh)], false⟩,
  ⟨L.«fileConfig.mux», F.«fileConfig.GetEnvironmentCacheTTL», .atomic, [], false⟩,
  ⟨L.«fileConfig.mux», F.«fileConfig.GetGRPCConfig», .atomic, [(L.«fileConfig.mux», .sh)], false⟩,
  ⟨L.«fileConfig.mux», F.«fileConfig.GetGRPCConfig», .atomic, [], false⟩,
  ⟨L.«fileConfig.mux», F.«fileConfig.GetGRPCEnabled», .atomic, [(L.«fileConfig.mux», .sh)], false⟩,
  ⟨L.«fileConfig.mux», F.«fileConfig.GetGRPCEnabled», .atomic, [], false⟩,
  ⟨L.«fileConfig.mux», F.«fileConfig.GetGRPCListenAddr», .atomic, [(L.«fileConfig.mux», .sh)], false⟩,
  ⟨L.«fileConfig.mux», F.«fileConfig.GetGRPCListenAddr», .atomic, [], false⟩,
  ⟨L.«fileConfig.mux», F.«fileConfig.GetGeneralConfig», .atomic, [(L.«fileConfig.mux», .sh)], false⟩,
  ⟨L.«fileConfig.mux», F.«fileConfig.GetGeneralConfig», .atomic, [], false⟩,
  ⟨L.«fileConfig.mux», F.«fileConfig.GetHTTPIdleTimeout», .atomic, [(L.«fileConfig.mux», .sh)], false⟩,
  ⟨L.«fileConfig.mux», F.«fileConfig.GetHTTPIdleTimeout», .atomic, [], false⟩,
  ⟨L.«fileConfig.mux», F.«fileConfig.GetHashes», .atomic, [(L.«fileConfig.mux», .sh)], false⟩,
  ⟨L.«fileConfig.mux», F.«fileConfig.GetHashes», .atomic, [], false⟩,
  ⟨L.«fileConfig.mux», F.«fileConfig.GetHealthCheckTimeout», .atomic, [(L.«fileConfig.mux», .sh)], false⟩,
  ⟨L.«fileConfig.mux», F.«fileConfig.GetHealthCheckTimeout», .atomic, [], false⟩,
  ⟨L.«fileConfig.mux», F.«fileConfig.GetHoneycombAPI», .atomic, [(L.«fileConfig.mux», .sh)], false⟩,
  ⟨L.«fileConfig.mux», F.«fileConfig.GetHoneycombAPI», .atomic, [], false⟩,
  ⟨L.«fileConfig.mux», F.«fileConfig.GetHoneycombLoggerConfig», .atomic, [(L.«fileConfig.mux», .sh)], false⟩,
  ⟨L.«fileConfig.mux», F.«fileConfig.GetHoneycombLoggerConfig», .atomic, [], false⟩,
  ⟨L.«fileConfig.mux», F.«fileConfig.GetIdentifierInterfaceName», .atomic, [(L.«fileConfig.mux», .sh)], false⟩,
  ⟨L.«fileConfig.mux», F.«fileConfig.GetIdentifierInterfaceName», .atomic, [], false⟩,
  ⟨L.«fileConfig.mux», F.«fileConfig.GetIsDryRun», .atomic, [(L.«fileConfig.mux», .sh)], false⟩,
  ⟨L.«fileConfig.mux», F.«fileConfig.GetIsDryRun», .atomic, [], false⟩,
  ⟨L.«fileConfig.mux», F.«fileConfig.GetListenAddr», .atomic, [(L.«fileConfig.mux», .sh)], false⟩,
  ⟨L.«fileConfig.mux», F.«fileConfig.GetListenAddr», .atomic, [], false⟩,
  ⟨L.«fileConfig.mux», F.«fileConfig.GetLoggerLevel», .atomic, [(L.«fileConfig.mux», .sh)], false⟩,
  ⟨L.«fileConfig.mux», F.«fileConfig.GetLoggerLevel», .atomic, [], false⟩,
  ⟨L.«fileConfig.mux», F.«fileConfig.GetLoggerType», .atomic, [(L.«fileConfig.mux», .sh)], false⟩,
  ⟨L.«fileConfig.mux», F.«fileConfig.GetLoggerType», .atomic, [], false⟩,
  ⟨L.«fileConfig.mux», F.«fileConfig.GetOTelMetricsConfig», .atomic, [(L.«fileConfig.mux», .sh)], false⟩,
  ⟨L.«fileConfig.mux», F.«fileConfig.GetOTelMetricsConfig», .atomic, [], false⟩,
  ⟨L.«fileConfig.mux», F.«fileConfig.GetOTelTracingConfig», .atomic, [(L.«fileConfig.mux», .sh)], false⟩,
  ⟨L.«fileConfig.mux», F.«fileConfig.GetOTelTracingConfig», .atomic, [], false⟩,
  ⟨L.«fileConfig.mux», F.«fileConfig.GetOpAMPConfig», .atomic, [(L.«fileConfig.mux», .sh)], false⟩,
  ⟨L.«fileConfig.mux», F.«fileConfig.GetOpAMPConfig», .atomic, [], false⟩,
  ⟨L.«fileConfig.mux», F.«fileConfig.GetParentIdFieldNames», .atomic, [(L.«fileConfig.mux», .sh)], false⟩,
  ⟨L.«fileConfig.mux», F.«fileConfig.GetParentIdFieldNames», .atomic, [], false⟩,
  ⟨L.«fileConfig.mux», F.«fileConfig.GetPeerListenAddr», .atomic, [(L.«fileConfig.mux», .sh)], false⟩,
  ⟨L.«fileConfig.mux», F.«fileConfig.GetPeerListenAddr», .atomic, [], false⟩,
  ⟨L.«fileConfig.mux», F.«fileConfig.GetPeerManagementType», .atomic, [(L.«fileConfig.mux», .sh)], false⟩,
  ⟨L.«fileConfig.mux», F.«fileConfig.GetPeerManagementType», .atomic, [], false⟩,
  ⟨L.«fileConfig.mux», F.«fileConfig.GetPeerTimeout», .atomic, [(L.«fileConfig.mux», .sh)], false⟩,
  ⟨L.«fileConfig.mux», F.«fileConfig.GetPeerTimeout», .atomic, [], false⟩,
  ⟨L.«fileConfig.mux», F.«fileConfig.GetPeers», .atomic, [(L.«fileConfig.mux», .sh)], false⟩,
  ⟨L.«fileConfig.mux», F.«fileConfig.GetPeers», .atomic, [], false⟩,
  ⟨L.«fileConfig.mux», F.«fileConfig.GetPrometheusMetricsConfig», .atomic, [(L.«fileConfig.mux», .sh)], false⟩,
  ⟨L.«fileConfig.mux», F.«fileConfig.GetPrometheusMetricsConfig», .atomic, [], false⟩,
  ⟨L.«fileConfig.mux», F.«fileConfig.GetQueryAuthToken», .atomic, [(L.«fileConfig.mux», .sh)], false⟩,
  ⟨L.«fileConfig.mux», F.«fileConfig.GetQueryAuthToken», .atomic, [], false⟩,
  ⟨L.«fileConfig.mux», F.«fileConfig.GetRedisAuthCode», .atomic, [(L.«fileConfig.mux», .sh)], false⟩,
  ⟨L.«fileConfig.mux», F.«fileConfig.GetRedisAuthCode», .atomic, [], false⟩,
  ⟨L.«fileConfig.mux», F.«fileConfig.GetRedisClusterHosts», .atomic, [(L.«fileConfig.mux», .sh)], false⟩,
  ⟨L.«fileConfig.mux», F.«fileConfig.GetRedisClusterHosts», .atomic, [], false⟩,
  ⟨L.«fileConfig.mux», F.«fileConfig.GetRedisDatabase», .atomic, [(L.«fileConfig.mux», .sh)], false⟩,
  ⟨L.«fileConfig.mux», F.«fileConfig.GetRedisDatabase», .atomic, [], false⟩,
  ⟨L.«fileConfig.mux», F.«fileConfig.GetRedisHost», .atomic, [(L.«fileConfig.mux», .sh)], false⟩,
  ⟨L.«fileConfig.mux», F.«fileConfig.GetRedisHost», .atomic, [], false⟩,
  ⟨L.«fileConfig.mux», F.«fileConfig.GetRedisIdentifier», .atomic, [(L.«fileConfig.mux», .sh)], false⟩,
  ⟨L.«fileConfig.mux», F.«fileConfig.GetRedisIdentifier», .atomic, [], false⟩,
  ⟨L.«fileConfig.mux», F.«fileConfig.GetRedisPassword», .atomic, [(L.«fileConfig.mux», .sh)], false⟩,
  ⟨L.«fileConfig.mux», F.«fileConfig.GetRedisPassword», .atomic, [], false⟩,
  ⟨L.«fileConfig.mux», F.«fileConfig.GetRedisPeerManagement», .atomic, [(L.«fileConfig.mux», .sh)], false⟩,
  ⟨L.«fileConfig.mux», F.«fileConfig.GetRedisPeerManagement», .atomic, [], false⟩,
  ⟨L.«fileConfig.mux», F.«fileConfig.GetRedisPrefix», .atomic, [(L.«fileConfig.mux», .sh)], false⟩,
  ⟨L.«fileConfig.mux», F.«fileConfig.GetRedisPrefix», .atomic, [], false⟩,
  ⟨L.«fileConfig.mux», F.«fileConfig.GetRedisUsername», .atomic, [(L.«fileConfig.mux», .sh)], false⟩,
  ⟨L.«fileConfig.mux», F.«fileConfig.GetRedisUsername», .atomic, [], false⟩,
  ⟨L.«fileConfig.mux», F.«fileConfig.GetSampleCacheConfig», .atomic, [(L.«fileConfig.mux», .sh)], false⟩,
  ⟨L.«fileConfig.mux», F.«fileConfig.GetSampleCacheConfig», .atomic, [], false⟩,
  ⟨L.«fileConfig.mux», F.«fileConfig.GetSamplerConfigForDestName», .atomic, [(L.«fileConfig.mux», .sh)], false⟩,
  ⟨L.«fileConfig.mux», F.«fileConfig.GetSamplerConfigForDestName», .atomic, [], false⟩,
  ⟨L.«fileConfig.mux», F.«fileConfig.GetSamplingKeyFieldsForDestName», .atomic, [(L.«fileConfig.mux», .sh)], false⟩,
  ⟨L.«fileConfig.mux», F.«fileConfig.GetSamplingKeyFieldsForDestName», .atomic, [], false⟩,
  ⟨L.«fileConfig.mux», F.«fileConfig.GetStdoutLoggerConfig», .atomic, [(L.«fileConfig.mux», .sh)], false⟩,
  ⟨L.«fileConfig.mux», F.«fileConfig.GetStdoutLoggerConfig», .atomic, [], false⟩,
  ⟨L.«fileConfig.mux», F.«fileConfig.GetStressReliefConfig», .atomic, [(L.«fileConfig.mux», .sh)], false⟩,
  ⟨L.«fileConfig.mux», F.«fileConfig.GetStressReliefConfig», .atomic, [], false⟩,
  ⟨L.«fileConfig.mux», F.«fileConfig.GetTraceIdFieldNames», .atomic, [(L.«fileConfig.mux», .sh)], false⟩,
  ⟨L.«fileConfig.mux», F.«fileConfig.GetTraceIdFieldNames», .atomic, [], false⟩,
  ⟨L.«fileConfig.mux», F.«fileConfig.GetTracesConfig», .atomic, [(L.«fileConfig.mux», .sh)], false⟩,
  ⟨L.«fileConfig.mux», F.«fileConfig.GetTracesConfig», .atomic, [], false⟩,
  ⟨L.«fileConfig.mux», F.«fileConfig.GetUseIPV6Identifier», .atomic, [(L.«fileConfig.mux», .sh)], false⟩,
  ⟨L.«fileConfig.mux», F.«fileConfig.GetUseIPV6Identifier», .atomic, [], false⟩,
  ⟨L.«fileConfig.mux», F.«fileConfig.GetUseTLSInsecure», .atomic, [(L.«fileConfig.mux», .sh)], false⟩,
  ⟨L.«fileConfig.mux», F.«fileConfig.GetUseTLSInsecure», .atomic, [], false⟩,
  ⟨L.«fileConfig.mux», F.«fileConfig.GetUseTLS», .atomic, [(L.«fileConfig.mux», .sh)], false⟩,
  ⟨L.«fileConfig.mux», F.«fileConfig.GetUseTLS», .atomic, [], false⟩,
  ⟨L.«fileConfig.mux», F.«fileConfig.RegisterReloadCallback», .atomic, [(L.«fileConfig.mux», .ex)], false⟩,
  ⟨L.«fileConfig.mux», F.«fileConfig.RegisterReloadCallback», .atomic, [], false⟩,
  ⟨L.«fileConfig.mux», F.«fileConfig.Reload», .atomic, [(L.«fileConfig.mux», .ex)], false⟩,
  ⟨L.«fileConfig.mux», F.«fileConfig.Reload», .atomic, [], false⟩,
  ⟨L.«fileConfig.lastLoadTime», F.«fileConfig.GetConfigMetadata», .read, [(L.«fileConfig.mux», .sh)], false⟩,
  ⟨L.«ConfigWatcher.Config», F.«ConfigWatcher.ReloadCallback», .read, [], false⟩,
  ⟨L.«ConfigWatcher.Config», F.«ConfigWatcher.Start», .read, [], false⟩,
  ⟨L.«ConfigWatcher.Config», F.«ConfigWatcher.SubscriptionListener», .read, [], false⟩,
  ⟨L.«ConfigWatcher.Config», F.«ConfigWatcher.monitor», .read, [], false⟩,
  ⟨L.«ConfigWatcher.Logger», F.«ConfigWatcher.SubscriptionListener», .read, [], false⟩,
  ⟨L.«ConfigWatcher.Logger», F.«ConfigWatcher.monitor», .read, [], false⟩,
  ⟨L.«ConfigWatcher.PubSub», F.«ConfigWatcher.ReloadCallback», .read, [], false⟩,
  ⟨L.«ConfigWatcher.PubSub», F.«ConfigWatcher.Start», .read, [], false⟩,
  ⟨L.«ConfigWatcher.Tracer», F.«ConfigWatcher.ReloadCallback», .read, [], false⟩,
  ⟨L.«ConfigWatcher.Tracer», F.«ConfigWatcher.Start», .read, [], false⟩,
  ⟨L.«ConfigWatcher.Tracer», F.«ConfigWatcher.Start», .write, [], false⟩,
  ⟨L.«ConfigWatcher.Tracer», F.«ConfigWatcher.SubscriptionListener», .read, [], false⟩,
  ⟨L.«ConfigWatcher.subscr», F.«ConfigWatcher.Start», .write, [], false⟩,
  ⟨L.«ConfigWatcher.subscr», F.«ConfigWatcher.Stop», .read, [], false⟩,
  ⟨L.«ConfigWatcher.msgTime», F.«ConfigWatcher.ReloadCallback», .read, [(L.«ConfigWatcher.mut», .sh)], false⟩,
  ⟨L.«ConfigWatcher.msgTime», F.«ConfigWatcher.SubscriptionListener», .write, [(L.«ConfigWatcher.mut», .ex)], false⟩,
  ⟨L.«ConfigWatcher.done», F.«ConfigWatcher.Start», .write, [], false⟩,
  ⟨L.«ConfigWatcher.done», F.«ConfigWatcher.Stop», .read, [], false⟩,
  ⟨L.«ConfigWatcher.done», F.«ConfigWatcher.monitor», .read, [], false⟩,
  ⟨L.«ConfigWatcher.mut», F.«ConfigWatcher.ReloadCallback», .atomic, [(L.«ConfigWatcher.mut», .sh)], false⟩,
  ⟨L.«ConfigWatcher.mut», F.«ConfigWatcher.ReloadCallback», .atomic, [], false⟩,
  ⟨L.«ConfigWatcher.mut», F.«ConfigWatcher.SubscriptionListener», .atomic, [(L.«ConfigWatcher.mut», .ex)], false⟩,
  ⟨L.«ConfigWatcher.mut», F.«ConfigWatcher.SubscriptionListener», .atomic, [], false⟩,
  ⟨L.«ConfigWatcher.topic», F.«ConfigWatcher.ReloadCallback», .read, [], false⟩,
  ⟨L.«ConfigWatcher.topic», F.«ConfigWatcher.Start», .read, [], false⟩,
  ⟨L.«ConfigWatcher.topic», F.«ConfigWatcher.Start», .write, [], false⟩,
  ⟨L.«MultiMetrics.Config», F.«MultiMetrics.Start», .read, [], false⟩,
  ⟨L.«MultiMetrics.PromMetrics», F.«MultiMetrics.Start», .read, [], false⟩,
  ⟨L.«MultiMetrics.OTelMetrics», F.«MultiMetrics.Start», .read, [], false⟩,
  ⟨L.«MultiMetrics.children», F.«MultiMetrics.AddChild», .read, [], false⟩,
  ⟨L.«MultiMetrics.children», F.«MultiMetrics.AddChild», .write, [], false⟩,
  ⟨L.«MultiMetrics.children», F.«MultiMetrics.Children», .read, [], false⟩,
  ⟨L.«MultiMetrics.children», F.«MultiMetrics.Count», .read, [], false⟩,
  ⟨L.«MultiMetrics.children», F.«MultiMetrics.Down», .read, [], false⟩,
  ⟨L.«MultiMetrics.children», F.«MultiMetrics.Gauge», .read, [], false⟩,
  ⟨L.«MultiMetrics.children», F.«MultiMetrics.Histogram», .read, [], false⟩,
  ⟨L.«MultiMetrics.children», F.«MultiMetrics.Increment», .read, [], false⟩,
  ⟨L.«MultiMetrics.children», F.«MultiMetrics.Register», .read, [], false⟩,
  ⟨L.«MultiMetrics.children», F.«MultiMetrics.Up», .read, [], false⟩,
  ⟨L.«MultiMetrics.counters», F.«MultiMetrics.Count», .atomic, [], false⟩,
  ⟨L.«MultiMetrics.counters», F.«MultiMetrics.Get», .atomic, [], false⟩,
  ⟨L.«MultiMetrics.counters», F.«MultiMetrics.Increment», .atomic, [], false⟩,
  ⟨L.«MultiMetrics.counters», F.«MultiMetrics.Register», .atomic, [], false⟩,
  ⟨L.«MultiMetrics.gauges», F.«MultiMetrics.Gauge», .atomic, [], false⟩,
  ⟨L.«MultiMetrics.gauges», F.«MultiMetrics.Get», .atomic, [], false⟩,
  ⟨L.«MultiMetrics.gauges», F.«MultiMetrics.Register», .atomic, [], false⟩,
  ⟨L.«MultiMetrics.updowns», F.«MultiMetrics.Down», .atomic, [], false⟩,
  ⟨L.«MultiMetrics.updowns», F.«MultiMetrics.Get», .atomic, [], false⟩,
  ⟨L.«MultiMetrics.updowns», F.«MultiMetrics.Register», .atomic, [], false⟩,
  ⟨L.«MultiMetrics.updowns», F.«MultiMetrics.Up», .atomic, [], false⟩,
  ⟨L.«MultiMetrics.stores», F.«MultiMetrics.Get», .atomic, [], false⟩,
  ⟨L.«MultiMetrics.stores», F.«MultiMetrics.Store», .atomic, [], false⟩,
  ⟨L.«MultiMetrics.metricTypes», F.«MultiMetrics.Get», .atomic, [], false⟩,
  ⟨L.«MultiMetrics.metricTypes», F.«MultiMetrics.Register», .atomic, [], false⟩,
  ⟨L.«SamplerFactory.Config», F.«SamplerFactory.GetSamplerImplementationForKey», .read, [], false⟩,
  ⟨L.«SamplerFactory.Logger», F.«SamplerFactory.GetDownstreamSampler», .read, [], false⟩,
  ⟨L.«SamplerFactory.Logger», F.«SamplerFactory.createSampler», .read, [], false⟩,
  ⟨L.«SamplerFactory.Metrics», F.«SamplerFactory.Start», .read, [], false⟩,
  ⟨L.«SamplerFactory.Metrics», F.«SamplerFactory.createSampler», .read, [], false⟩,
  ⟨L.«SamplerFactory.Metrics», F.«getSharedDynsamplerAndRecorder», .read, [(L.«SamplerFactory.mutex», .ex)], false⟩,
  ⟨L.«SamplerFactory.Peers», F.«SamplerFactory.Start», .read, [], false⟩,
  ⟨L.«SamplerFactory.Peers», F.«SamplerFactory.updatePeerCounts», .read, [(L.«SamplerFactory.mutex», .ex)], false⟩,
  ⟨L.«SamplerFactory.peerCount», F.«SamplerFactory.Start», .write, [], false⟩,
  ⟨L.«SamplerFactory.peerCount», F.«SamplerFactory.updatePeerCounts», .read, [(L.«SamplerFactory.mutex», .ex)], false⟩,
  ⟨L.«SamplerFactory.peerCount», F.«SamplerFactory.updatePeerCounts», .write, [(L.«SamplerFactory.mutex», .ex)], false⟩,
  ⟨L.«SamplerFactory.mutex», F.«SamplerFactory.ClearDynsamplers», .atomic, [(L.«SamplerFactory.mutex», .ex)], false⟩,
  ⟨L.«SamplerFactory.mutex», F.«SamplerFactory.ClearDynsamplers», .atomic, [], false⟩,
  ⟨L.«SamplerFactory.mutex», F.«SamplerFactory.createSampler», .atomic, [(L.«SamplerFactory.mutex», .ex)], false⟩,
  ⟨L.«SamplerFactory.mutex», F.«SamplerFactory.createSampler», .atomic, [], false⟩,
  ⟨L.«SamplerFactory.mutex», F.«SamplerFactory.updatePeerCounts», .atomic, [(L.«SamplerFactory.mutex», .ex)], false⟩,
  ⟨L.«SamplerFactory.mutex», F.«SamplerFactory.updatePeerCounts», .atomic, [], false⟩,
  ⟨L.«SamplerFactory.mutex», F.«getSharedDynsamplerAndRecorder», .atomic, [(L.«SamplerFactory.mutex», .ex)], false⟩,
  ⟨L.«SamplerFactory.mutex», F.«getSharedDynsamplerAndRecorder», .atomic, [], false⟩,
  ⟨L.«SamplerFactory.sharedDynsamplers», F.«SamplerFactory.ClearDynsamplers», .read, [(L.«SamplerFactory.mutex», .ex)], false⟩,
  ⟨L.«SamplerFactory.sharedDynsamplers», F.«SamplerFactory.ClearDynsamplers», .write, [(L.«SamplerFactory.mutex», .ex)], false⟩,
  ⟨L.«SamplerFactory.sharedDynsamplers», F.«SamplerFactory.Start», .write, [], false⟩,
  ⟨L.«SamplerFactory.sharedDynsamplers», F.«SamplerFactory.createSampler», .read, [(L.«SamplerFactory.mutex», .ex)], false⟩,
  ⟨L.«SamplerFactory.sharedDynsamplers», F.«SamplerFactory.updatePeerCounts», .read, [(L.«SamplerFactory.mutex», .ex)], false⟩,
  ⟨L.«SamplerFactory.sharedDynsamplers», F.«getSharedDynsamplerAndRecorder», .read, [(L.«SamplerFactory.mutex», .ex)], false⟩,
  ⟨L.«SamplerFactory.sharedDynsamplers», F.«getSharedDynsamplerAndRecorder», .write, [(L.«SamplerFactory.mutex», .ex)], false⟩,
  ⟨L.«SamplerFactory.goalThroughputConfigs», F.«SamplerFactory.ClearDynsamplers», .write, [(L.«SamplerFactory.mutex», .ex)], false⟩,
  ⟨L.«SamplerFactory.goalThroughputConfigs», F.«SamplerFactory.Start», .write, [], false⟩,
  ⟨L.«SamplerFactory.goalThroughputConfigs», F.«SamplerFactory.createSampler», .write, [(L.«SamplerFactory.mutex», .ex)], false⟩,
  ⟨L.«SamplerFactory.goalThroughputConfigs», F.«SamplerFactory.updatePeerCounts», .read, [(L.«SamplerFactory.mutex», .ex)], false⟩,
  ⟨L.«DeterministicSharder.Logger», F.«DeterministicSharder.Start$1», .read, [], false⟩,
  ⟨L.«DeterministicSharder.Logger», F.«DeterministicSharder.Start$2», .read, [], false⟩,
  ⟨L.«DeterministicSharder.Logger», F.«DeterministicSharder.Start», .read, [], false⟩,
  ⟨L.«DeterministicSharder.Logger», F.«DeterministicSharder.loadPeerList», .read, [(L.«DeterministicSharder.peerLock», .sh)], false⟩,
  ⟨L.«DeterministicSharder.Logger», F.«DeterministicSharder.loadPeerList», .read, [], false⟩,
  ⟨L.«DeterministicSharder.Peers», F.«DeterministicSharder.Start», .read, [], false⟩,
  ⟨L.«DeterministicSharder.Peers», F.«DeterministicSharder.loadPeerList», .read, [], false⟩,
  ⟨L.«DeterministicSharder.myShard», F.«DeterministicSharder.MyShard», .read, [], false⟩,
  ⟨L.«DeterministicSharder.myShard», F.«DeterministicSharder.Start», .write, [], false⟩,
  ⟨L.«DeterministicSharder.peers», F.«DeterministicSharder.WhichShard», .read, [(L.«DeterministicSharder.peerLock», .sh)], false⟩,
  ⟨L.«DeterministicSharder.peers», F.«DeterministicSharder.currentPeers», .read, [(L.«DeterministicSharder.peerLock», .sh)], false⟩,
  ⟨L.«DeterministicSharder.peers», F.«DeterministicSharder.loadPeerList», .read, [(L.«DeterministicSharder.peerLock», .sh)], false⟩,
  ⟨L.«DeterministicSharder.peers», F.«DeterministicSharder.loadPeerList», .write, [(L.«DeterministicSharder.peerLock», .ex)], false⟩,
  ⟨L.«DeterministicSharder.hashes», F.«DeterministicSharder.WhichShard», .read, [(L.«DeterministicSharder.peerLock», .sh)], false⟩,
  ⟨L.«DeterministicSharder.hashes», F.«DeterministicSharder.loadPeerList», .write, [(L.«DeterministicSharder.peerLock», .ex)], false⟩,
  ⟨L.«DeterministicSharder.peerLock», F.«DeterministicSharder.WhichShard», .atomic, [(L.«DeterministicSharder.peerLock», .sh)], false⟩,
  ⟨L.«DeterministicSharder.peerLock», F.«DeterministicSharder.WhichShard», .atomic, [], false⟩,
  ⟨L.«DeterministicSharder.peerLock», F.«DeterministicSharder.currentPeers», .atomic, [(L.«DeterministicSharder.peerLock», .sh)], false⟩,
  ⟨L.«DeterministicSharder.peerLock», F.«DeterministicSharder.currentPeers», .atomic, [], false⟩,
  ⟨L.«DeterministicSharder.peerLock», F.«DeterministicSharder.loadPeerList», .atomic, [(L.«DeterministicSharder.peerLock», .ex)], false⟩,
  ⟨L.«DeterministicSharder.peerLock», F.«DeterministicSharder.loadPeerList», .atomic, [(L.«DeterministicSharder.peerLock», .sh)], false⟩,
  ⟨L.«DeterministicSharder.peerLock», F.«DeterministicSharder.loadPeerList», .atomic, [], false⟩,
  ⟨L.«environmentCache.addItem()», F.«environmentCache.get», .write, [(L.«environmentCache.mutex», .ex)], false⟩]

/-- selectors named like a tracked field whose base expression has a type the stub importer
    cannot resolve (field name, function) -/
def unresolvedSelectors : List (String × String) := [
  ("Config", "newBatchedEvents"),
  ("Done", "CollectorWorker.collect"),
  ("ID", "CollectorWorker.makeDecision"),
  ("Tracer", "ConfigWatcher.Start")]

end Refinery.Gen.Access
