/- GENERATED on every run by tools/check from /repo's current tree (harness `facts`,
   i.e. values computed by the compiled code itself).  Do not edit. -/
namespace Refinery.Gen.Payload

def maxInt64 : Int := 9223372036854775807
def metaFields := [("meta.annotation_type", "str"), ("meta.event_count", "int"), ("meta.refinery.final_sample_rate", "int"), ("meta.refinery.incoming_user_agent", "str"), ("meta.refinery.local_hostname", "str"), ("meta.refinery.original_sample_rate", "int"), ("meta.refinery.probe", "bool"), ("meta.refinery.reason", "str"), ("meta.refinery.root", "bool"), ("meta.refinery.sample_key", "str"), ("meta.refinery.send_reason", "str"), ("meta.signal_type", "str"), ("meta.span_count", "int"), ("meta.span_event_count", "int"), ("meta.span_link_count", "int"), ("meta.stressed", "bool"), ("meta.trace_id", "str")]
def metaIncomingUserAgent : String := "meta.refinery.incoming_user_agent"
def metaRefineryProbe : String := "meta.refinery.probe"
def metaRefineryRoot : String := "meta.refinery.root"
def metaSignalType : String := "meta.signal_type"
def metaTraceID : String := "meta.trace_id"

end Refinery.Gen.Payload
