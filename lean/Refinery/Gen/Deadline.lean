/- GENERATED on every run by tools/check from /repo's current tree (harness `facts`,
   i.e. values computed by the compiled code itself).  Do not edit. -/
namespace Refinery.Gen.Deadline

def cacheImpactFactor : Int := 4
def cfgDefaultMaxExpired : Int := 3000
def cfgDefaultSendDelay : Int := 2000000000
def cfgDefaultSendTicker : Int := 100000000
def cfgDefaultSpanLimit : Int := 32000
def cfgDefaultTraceTimeout : Int := 60000000000
def fallbackSendDelay : Int := 2000000000
def fallbackTraceTimeout : Int := 60000000000
def maxExpiredIntBits : Int := 64
def reasonEjectedMemsize : String := "trace_send_ejected_memsize"
def reasonExpired : String := "trace_send_expired"
def reasonGotRoot : String := "trace_send_got_root"
def reasonLateSpan : String := "trace_send_late_span"
def reasonSpanLimit : String := "trace_send_span_limit"

end Refinery.Gen.Deadline
