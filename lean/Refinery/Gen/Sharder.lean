/- GENERATED on every run by tools/check from /repo's current tree (harness `facts`,
   i.e. values computed by the compiled code itself).  Do not edit. -/
namespace Refinery.Gen.Sharder

def partitionCount : Int := 50
def peerSeed : Int := 6789531204236

end Refinery.Gen.Sharder
