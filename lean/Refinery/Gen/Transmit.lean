/- GENERATED on every run by tools/check from /repo's current tree (harness `facts`,
   i.e. values computed by the compiled code itself).  Do not edit. -/
namespace Refinery.Gen.Transmit

def apiMaxBatchSize : Int := 5000000
def apiMaxEventSize : Int := 1000000

end Refinery.Gen.Transmit
