/- GENERATED on every run by tools/check from /repo's current tree (harness `facts`,
   i.e. values computed by the compiled code itself).  Do not edit. -/
namespace Refinery.Gen.Encoding

def computedPrefix : String := "?."
def maxKeyLength : Int := 100
def rootPrefix : String := "root."

end Refinery.Gen.Encoding
