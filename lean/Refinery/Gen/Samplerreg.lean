/- GENERATED on every run by tools/check from /repo's current tree (harness `facts`,
   i.e. values computed by the compiled code itself).  Do not edit. -/
namespace Refinery.Gen.Samplerreg

def defaultEnv : String := "__default__"
def defaultGoal : Int := 100
def nameDynamic : String := "dynamic"
def nameEMADynamic : String := "emadynamic"
def nameEMAThroughput : String := "emathroughput"
def nameTotalThroughput : String := "totalthroughput"
def nameWindowedThroughput : String := "windowedthroughput"
def rulesPrefixL : String := "rules:"
def rulesPrefixR : String := ":"

end Refinery.Gen.Samplerreg
