/- GENERATED on every run by tools/check from /repo's current tree (harness `facts`,
   i.e. values computed by the compiled code itself).  Do not edit. -/
namespace Refinery.Gen.Peers

def peerEntryTimeout : Int := 10000000000
def refreshCacheInterval : Int := 3000000000
def refreshJitterBound : Int := 600000000
def registerByte : Int := 82
def unregisterByte : Int := 85

end Refinery.Gen.Peers
