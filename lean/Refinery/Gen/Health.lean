/- GENERATED on every run by tools/check from /repo's current tree (harness `facts`,
   i.e. values computed by the compiled code itself).  Do not edit. -/
namespace Refinery.Gen.Health

def tickerTime : Int := 500000000

end Refinery.Gen.Health
