/- GENERATED on every run by tools/check from /repo's current tree (harness `facts`,
   i.e. values computed by the compiled code itself).  Do not edit. -/
namespace Refinery.Gen.Rules

def computedPrefix : String := "?."
def numDescendants : String := "?.NUM_DESCENDANTS"
def opContains : String := "contains"
def opDoesNotContain : String := "does-not-contain"
def opEQ : String := "="
def opExists : String := "exists"
def opGT : String := ">"
def opGTE : String := ">="
def opHasRootSpan : String := "has-root-span"
def opIn : String := "in"
def opLT : String := "<"
def opLTE : String := "<="
def opMatches : String := "matches"
def opNEQ : String := "!="
def opNotExists : String := "not-exists"
def opNotIn : String := "not-in"
def opStartsWith : String := "starts-with"
def rootPrefix : String := "root."

end Refinery.Gen.Rules
