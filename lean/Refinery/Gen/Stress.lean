/- GENERATED on every run by tools/check from /repo's current tree (harness `facts`,
   i.e. values computed by the compiled code itself).  Do not edit. -/
namespace Refinery.Gen.Stress

def defaultActivationLevel : Int := 90
def defaultDeactivationLevel : Int := 75
def peerEntryTimeoutNs : Int := 10000000000

end Refinery.Gen.Stress
