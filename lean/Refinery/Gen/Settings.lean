/- GENERATED on every run by tools/check from /repo's current tree (harness `facts`,
   i.e. values computed by the compiled code itself).  Do not edit. -/
namespace Refinery.Gen.Settings

def cmdenv_fallback_chains := ["HoneycombLogger.APIKey=HoneycombLoggerAPIKey>HoneycombAPIKey", "OTelMetrics.APIKey=OTelMetricsAPIKey>HoneycombAPIKey", "OTelTracing.APIKey=OTelTracesAPIKey>HoneycombAPIKey"]
def cmdenv_list_settings := ["RedisPeerManagement.ClusterHosts"]
def settings_cmdenv : Int := 21
def settings_cmdenv_multi : Int := 3
def settings_num : Int := 1
def settings_paths := ["AccessKeys.ReceiveKeyIDs", "AccessKeys.ReceiveKeys", "AccessKeys.SendKey", "AccessKeys.SendKeyMode", "Collection.AvailableMemory", "Debugging.AdditionalErrorFields", "Debugging.DebugServiceAddr", "Debugging.QueryAuthToken", "GRPCServerParameters.ListenAddr", "General.DatasetPrefix", "General.MinRefineryVersion", "HoneycombLogger.APIHost", "HoneycombLogger.APIKey", "HoneycombLogger.AdditionalAttributes", "HoneycombLogger.Dataset", "IDFields.ParentNames", "IDFields.TraceNames", "Logger.Type", "Network.AdditionalHeaders", "Network.HoneycombAPI", "Network.ListenAddr", "Network.PeerListenAddr", "OTelMetrics.APIHost", "OTelMetrics.APIKey", "OTelMetrics.AdditionalAttributes", "OTelMetrics.Compression", "OTelMetrics.Dataset", "OTelTracing.APIHost", "OTelTracing.APIKey", "OTelTracing.Dataset", "OpAMP.Endpoint", "PeerManagement.Identifier", "PeerManagement.IdentifierInterfaceName", "PeerManagement.Peers", "PeerManagement.Type", "PrometheusMetrics.ListenAddr", "RedisPeerManagement.AuthCode", "RedisPeerManagement.ClusterHosts", "RedisPeerManagement.ClusterName", "RedisPeerManagement.Host", "RedisPeerManagement.Password", "RedisPeerManagement.Prefix", "RedisPeerManagement.Username", "Specialized.AdditionalAttributes", "StressRelief.Mode"]
def settings_plain_str : Int := 16
def settings_smap : Int := 4
def settings_str : Int := 33
def settings_strs : Int := 7
def settings_total : Int := 45

end Refinery.Gen.Settings
