/- GENERATED on every run by tools/check from /repo's current tree (harness `facts`,
   i.e. values computed by the compiled code itself).  Do not edit. -/
namespace Refinery.Gen.Sentcache

def addQueueDepth : Int := 1000
def futurePermille : Int := 500
def probeSlots : Int := 4096
def recentTTLns : Int := 3000000000
def rotatePermille : Int := 990

end Refinery.Gen.Sentcache
