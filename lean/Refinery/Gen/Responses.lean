/- GENERATED on every run by tools/check from /repo's current tree (harness `facts`,
   i.e. values computed by the compiled code itself).  Do not edit. -/
namespace Refinery.Gen.Responses

def grpcInternal : Int := 13
def grpcOK : Int := 0
def grpcUnauthenticated : Int := 16
def grpcUnknown : Int := 2
def stAccepted : Int := 202
def stAuthInvalid : Int := 401
def stBadRequest : Int := 400
def stBatchToEvent : Int := 400
def stInternal : Int := 500
def stOK : Int := 200
def stOtlpContentType : Int := 415
def stOtlpParseBody : Int := 400
def stPostBody : Int := 500
def stReqToEvent : Int := 400
def stTooManyRequests : Int := 429
def stUnauthorized : Int := 401

end Refinery.Gen.Responses
