/- GENERATED on every run by tools/check from /repo's current tree (harness `facts`,
   i.e. values computed by the compiled code itself).  Do not edit. -/
namespace Refinery.Gen.Router

def metaProbe : String := "meta.refinery.probe"
def metaRoot : String := "meta.refinery.root"
def metaStressed : String := "meta.stressed"
def metaTraceID : String := "meta.trace_id"

end Refinery.Gen.Router
