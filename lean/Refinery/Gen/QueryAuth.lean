/- GENERATED on every run by tools/check from /repo's current tree (harness `facts`,
   i.e. values computed by the compiled code itself).  Do not edit. -/
namespace Refinery.Gen.QueryAuth

def errAuthNeededMsg : String := "unknown API key - check your credentials"
def errAuthNeededStatus : Int := 400
def queryMethods := ["GET"] ++ ([] : List String)
def queryRouteCount : Int := 4
def queryRoutes := ["/query/allrules/{format}", "/query/configmetadata", "/query/rules/{format}/{dataset}", "/query/trace/{traceID}"] ++ ([] : List String)
def queryRoutesOutsideSubrouter : Int := 0
def queryTokenHeader : String := "X-Honeycomb-Refinery-Query"

end Refinery.Gen.QueryAuth
