import Refinery.Model.Health
/-!
Helper lemmas for C30: association-list facts, the per-subsystem simulation between the three
maps of the model and the history-indexed `Track`, the closed form of a decaying counter, and the
bridge between timed and untimed histories.
-/
namespace Refinery.Lemmas.Health
open Refinery Refinery.Model.Health

/-! ## association lists -/

theorem get_mapVals (f : Int → Int) (l : AList Nat Int) (k : Nat) :
    AList.get (mapVals f l) k = (AList.get l k).map f := by
  induction l with
  | nil => simp [mapVals]
  | cons p t ih =>
    obtain ⟨a, b⟩ := p
    simp only [mapVals, List.map_cons] at ih ⊢
    rw [AList.get_cons, AList.get_cons]
    by_cases h : a = k <;> simp [h, ih]

theorem keys_mapVals (f : Int → Int) (l : AList Nat Int) : AList.keys (mapVals f l) = AList.keys l := by
  simp [mapVals, AList.keys, List.map_map, Function.comp_def]

theorem nodup_mapVals (f : Int → Int) (l : AList Nat Int) (hn : AList.NoDupKeys l) :
    AList.NoDupKeys (mapVals f l) := by
  unfold AList.NoDupKeys
  rw [keys_mapVals]
  exact hn

theorem all_iff_get {α : Type} (l : AList Nat α) (hn : AList.NoDupKeys l) (P : Nat × α → Bool) :
    l.all P = true ↔ ∀ k v, AList.get l k = some v → P (k, v) = true := by
  rw [List.all_eq_true]
  constructor
  · intro h k v hg
    exact h _ (AList.mem_of_get hg)
  · intro h p hp
    obtain ⟨k, v⟩ := p
    exact h k v (AList.get_of_mem hn hp)

theorem isEmpty_false_iff {α : Type} (l : AList Nat α) :
    l.isEmpty = false ↔ ∃ k v, AList.get l k = some v := by
  cases l with
  | nil => simp
  | cons p t =>
    obtain ⟨a, b⟩ := p
    simp only [List.isEmpty_cons, true_iff]
    exact ⟨a, b, by simp [AList.get_cons]⟩

/-! ## well-formedness of the three maps -/

def WF (st : St) : Prop :=
  AList.NoDupKeys st.timeouts ∧ AList.NoDupKeys st.timeLeft ∧ AList.NoDupKeys st.readies

theorem wf_init : WF {} := ⟨AList.nodup_nil, AList.nodup_nil, AList.nodup_nil⟩

theorem wf_step (T : Nat) (st : St) (h : WF st) (o : Op) : WF (step T st o) := by
  obtain ⟨h1, h2, h3⟩ := h
  cases o with
  | register s t => exact ⟨AList.nodup_put _ h1 _ _, AList.nodup_put _ h2 _ _, AList.nodup_put _ h3 _ _⟩
  | unregister s => exact ⟨AList.nodup_del _ h1 _, AList.nodup_del _ h2 _, AList.nodup_put _ h3 _ _⟩
  | report s r =>
    simp only [step]
    split
    · exact ⟨h1, h2, h3⟩
    · exact ⟨h1, AList.nodup_put _ h2 _ _, AList.nodup_put _ h3 _ _⟩
  | tick => exact ⟨h1, nodup_mapVals _ _ h2, h3⟩

theorem wf_runFrom (T : Nat) (ops : List Op) : ∀ st, WF st → WF (runFrom T st ops) := by
  induction ops with
  | nil => intro st h; exact h
  | cons o os ih => intro st h; exact ih _ (wf_step T st h o)

theorem wf_run (T : Nat) (ops : List Op) : WF (run T ops) := wf_runFrom T ops _ wf_init

/-! ## decaying counter -/

theorem tickOne_nonpos (T : Nat) {v : Int} (h : v ≤ 0) : tickOne T v = v := by
  unfold tickOne
  rw [if_neg (by omega)]

theorem decay_nonpos (T : Nat) {t : Int} (h : t ≤ 0) (k : Nat) : decay T t k = t := by
  induction k with
  | zero => rfl
  | succ k ih => simp only [decay, ih, tickOne_nonpos T h]

/-- closed form: a counter set to a positive `t` shows `t - k·T` after `k` ticks, clamped at 0 -/
theorem decay_pos (T : Nat) {t : Int} (h : 0 < t) (k : Nat) :
    decay T t k = if ((k * T : Nat) : Int) < t then t - ((k * T : Nat) : Int) else 0 := by
  induction k with
  | zero => simp [decay]; omega
  | succ k ih =>
    simp only [decay, ih]
    have hx : (k + 1) * T = k * T + T := Nat.succ_mul k T
    rw [hx]
    generalize k * T = x
    unfold tickOne
    by_cases h1 : ((x : Nat) : Int) < t
    · by_cases h2 : ((x + T : Nat) : Int) < t
      · simp only [h1, h2, if_true]
        rw [if_pos (by omega), if_neg (by omega)]
        omega
      · simp only [h1, h2, if_true, if_false]
        rw [if_pos (by omega)]
        split <;> omega
    · have h2 : ¬ ((x + T : Nat) : Int) < t := by omega
      simp only [h1, h2, if_false]
      rw [if_neg (by omega)]

theorem decay_pos_iff (T : Nat) (t : Int) (k : Nat) :
    0 < decay T t k ↔ 0 < t ∧ ((k * T : Nat) : Int) < t := by
  by_cases h : 0 < t
  · rw [decay_pos T h]
    split <;> omega
  · rw [decay_nonpos T (by omega)]
    omega

theorem decay_eq_zero_iff (T : Nat) (t : Int) (k : Nat) :
    decay T t k = 0 ↔ 0 ≤ t ∧ t ≤ ((k * T : Nat) : Int) := by
  by_cases h : 0 < t
  · rw [decay_pos T h]
    split <;> omega
  · rw [decay_nonpos T (by omega)]
    have : (0 : Int) ≤ ((k * T : Nat) : Int) := Int.natCast_nonneg _
    omega

/-! ## simulation: maps of the model ↔ per-subsystem history -/

/-- the counter the code holds for a subsystem with this history -/
def left (T : Nat) (h : Track) : Option Int :=
  match h.reg with
  | none => none
  | some t => some (match h.rep with | none => -1 | some (k, _) => decay T t k)

/-- the `readies` entry the code holds for a subsystem with this history -/
def flag (h : Track) : Option Bool :=
  if h.known then some (match h.rep with | some (_, r) => r | none => false) else none

def TrackWF (h : Track) : Prop := (h.reg = none → h.rep = none) ∧ (h.reg ≠ none → h.known = true)

def Sim (T : Nat) (st : St) (s : Nat) (h : Track) : Prop :=
  AList.get st.timeouts s = h.reg ∧ AList.get st.timeLeft s = left T h ∧
  AList.get st.readies s = flag h ∧ TrackWF h

theorem sim_init (T : Nat) (s : Nat) : Sim T {} s {} := by
  refine ⟨rfl, rfl, rfl, ?_, ?_⟩ <;> simp

theorem sim_step (T : Nat) {st : St} {s : Nat} {h : Track} (hs : Sim T st s h) (o : Op) :
    Sim T (step T st o) s (h.step s o) := by
  obtain ⟨h1, h2, h3, hw1, hw2⟩ := hs
  cases o with
  | register s' t =>
    by_cases e : s' = s
    · subst e
      simp [Sim, step, Track.step, AList.get_put, left, flag, TrackWF]
    · simp [Sim, step, Track.step, AList.get_put, e, h1, h2, h3, TrackWF]
      exact ⟨hw1, hw2⟩
  | unregister s' =>
    by_cases e : s' = s
    · subst e
      simp [Sim, step, Track.step, AList.get_put, AList.get_del, left, flag, TrackWF]
    · simp [Sim, step, Track.step, AList.get_put, AList.get_del, e, h1, h2, h3, TrackWF]
      exact ⟨hw1, hw2⟩
  | report s' r =>
    by_cases e : s' = s
    · subst e
      cases hr : h.reg with
      | none =>
        have : AList.get st.timeouts s' = none := by rw [h1, hr]
        simp only [step, this, Track.step, hr, if_true]
        exact ⟨h1, h2, h3, hw1, hw2⟩
      | some t =>
        have ht : AList.get st.timeouts s' = some t := by rw [h1, hr]
        have hk : h.known = true := hw2 (by rw [hr]; simp)
        simp only [step, ht, Track.step, hr, if_true]
        refine ⟨by simp [ht], ?_, ?_, ?_, ?_⟩
        · simp [AList.get_put, left, decay]
        · simp [AList.get_put, flag, hk]
        · simp
        · intro _; exact hk
    · simp only [Track.step, e, if_false]
      simp only [step]
      split
      · exact ⟨h1, h2, h3, hw1, hw2⟩
      · exact ⟨h1, by simp [AList.get_put, e, h2], by simp [AList.get_put, e, h3], hw1, hw2⟩
  | tick =>
    refine ⟨h1, ?_, ?_, ?_, ?_⟩
    · simp only [step, get_mapVals, h2, Track.step, left]
      cases hr : h.reg with
      | none => simp
      | some t =>
        cases hp : h.rep with
        | none => simp [tickOne]
        | some p => simp [decay]
    · simp only [step, h3, Track.step, flag]
      cases hp : h.rep with
      | none => rfl
      | some p => obtain ⟨k, r⟩ := p; rfl
    · intro hn
      simp only [Track.step] at hn ⊢
      simp [hw1 hn]
    · intro hn
      simp only [Track.step] at hn ⊢
      exact hw2 hn

theorem sim_runFrom (T : Nat) (s : Nat) (ops : List Op) :
    ∀ st h, Sim T st s h → Sim T (runFrom T st ops) s (trackFrom s h ops) := by
  induction ops with
  | nil => intro st h hs; exact hs
  | cons o os ih => intro st h hs; exact ih _ _ (sim_step T hs o)

/-- in every reachable state the three map entries of subsystem `s` are the ones its history
predicts -/
theorem sim_run (T : Nat) (ops : List Op) (s : Nat) : Sim T (run T ops) s (track s ops) :=
  sim_runFrom T s ops _ _ (sim_init T s)

/-! ## timed ↔ untimed histories -/

theorem runFrom_append (T : Nat) (st : St) (a b : List Op) :
    runFrom T st (a ++ b) = runFrom T (runFrom T st a) b := by
  simp [runFrom, List.foldl_append]

theorem trackFrom_append (s : Nat) (h : Track) (a b : List Op) :
    trackFrom s h (a ++ b) = trackFrom s (trackFrom s h a) b := by
  simp [trackFrom, List.foldl_append]

theorem trun_fold (T : Nat) (tops : List TOp) :
    ∀ ts : TSt, (tops.foldl (tstep T) ts).core = runFrom T ts.core (compile T ts.now tops) := by
  induction tops with
  | nil => intro ts; rfl
  | cons o os ih =>
    intro ts
    simp only [List.foldl_cons, compile, runFrom_append]
    rw [ih]
    rfl

/-- the timed machine is the untimed machine run on the compiled history -/
theorem trun_core (T : Nat) (tops : List TOp) : (trun T tops).core = run T (compile T 0 tops) :=
  trun_fold T tops {}

theorem trackFrom_ticks (s : Nat) (n : Nat) :
    ∀ h : Track, trackFrom s h (List.replicate n Op.tick) =
      { h with rep := h.rep.map (fun p => (p.1 + n, p.2)) } := by
  induction n with
  | zero =>
    intro h
    cases h with
    | mk known reg rep => cases rep <;> simp [trackFrom]
  | succ n ih =>
    intro h
    have := ih (Track.step s h Op.tick)
    simp only [trackFrom, List.replicate_succ, List.foldl_cons] at this ⊢
    rw [this]
    cases h with
    | mk known reg rep =>
      cases rep with
      | none => simp [Track.step]
      | some p => simp [Track.step]; omega

/-- relation between the tick-counting history and the wall-clock history of one subsystem -/
def Rel (T now : Nat) (h : Track) (th : TTrack) : Prop :=
  th.now = now ∧ h.known = th.known ∧ h.reg = th.reg ∧
  h.rep = th.rep.map (fun p => (now / T - p.1 / T, p.2)) ∧
  (∀ a r, th.rep = some (a, r) → a ≤ now)

theorem rel_init (T : Nat) : Rel T 0 {} {} := by
  refine ⟨rfl, rfl, rfl, rfl, ?_⟩
  intro a r h
  simp at h

theorem rel_step (T : Nat) (s : Nat) {now : Nat} {h : Track} {th : TTrack} (hr : Rel T now h th)
    (o : TOp) : Rel T (now + dur o) (trackFrom s h (expand T now o)) (th.step s o) := by
  obtain ⟨r1, r2, r3, r4, r5⟩ := hr
  cases o with
  | register s' t =>
    by_cases e : s' = s
    · simp [Rel, expand, trackFrom, Track.step, TTrack.step, dur, e, r1]
    · simp only [expand, trackFrom, List.foldl_cons, List.foldl_nil, Track.step, TTrack.step, dur, e,
        if_false, Nat.add_zero]
      exact ⟨r1, r2, r3, r4, r5⟩
  | unregister s' =>
    by_cases e : s' = s
    · simp [Rel, expand, trackFrom, Track.step, TTrack.step, dur, e, r1]
    · simp only [expand, trackFrom, List.foldl_cons, List.foldl_nil, Track.step, TTrack.step, dur, e,
        if_false, Nat.add_zero]
      exact ⟨r1, r2, r3, r4, r5⟩
  | report s' r =>
    by_cases e : s' = s
    · simp only [expand, trackFrom, List.foldl_cons, List.foldl_nil, Track.step, TTrack.step, dur, e,
        if_true, Nat.add_zero]
      rw [← r3]
      cases hreg : h.reg with
      | none => exact ⟨r1, r2, r3, r4, r5⟩
      | some t =>
        refine ⟨r1, r2, rfl, ?_, ?_⟩
        · simp [r1]
        · intro a r' hh
          simp at hh
          omega
    · simp only [expand, trackFrom, List.foldl_cons, List.foldl_nil, Track.step, TTrack.step, dur, e,
        if_false, Nat.add_zero]
      exact ⟨r1, r2, r3, r4, r5⟩
  | adv d =>
    simp only [expand, dur, TTrack.step]
    have := trackFrom_ticks s (ticksIn T now d) h
    rw [this]
    refine ⟨by simp [r1], r2, r3, ?_, ?_⟩
    · simp only [r4]
      cases hp : th.rep with
      | none => simp
      | some p =>
        obtain ⟨a, r⟩ := p
        have ha : a ≤ now := r5 a r hp
        have h1 : a / T ≤ now / T := Nat.div_le_div_right ha
        have h2 : now / T ≤ (now + d) / T := Nat.div_le_div_right (Nat.le_add_right _ _)
        simp [ticksIn]
        omega
    · intro a r hh
      have := r5 a r hh
      omega

theorem rel_fold (T : Nat) (s : Nat) (tops : List TOp) :
    ∀ now h th, Rel T now h th →
      Rel T (ttrackFrom s th tops).now (trackFrom s h (compile T now tops)) (ttrackFrom s th tops) := by
  induction tops with
  | nil =>
    intro now h th hr
    simp only [ttrackFrom, List.foldl_nil, compile, trackFrom]
    rw [hr.1]
    exact hr
  | cons o os ih =>
    intro now h th hr
    simp only [compile, trackFrom_append]
    exact ih _ _ _ (rel_step T s hr o)

/-- the tick-level history of the compiled timed history, in terms of wall-clock instants -/
theorem rel_run (T : Nat) (s : Nat) (tops : List TOp) :
    Rel T (ttrack s tops).now (track s (compile T 0 tops)) (ttrack s tops) :=
  rel_fold T s tops 0 {} {} (rel_init T)

end Refinery.Lemmas.Health
