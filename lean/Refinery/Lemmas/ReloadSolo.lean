import Refinery.Model.Reload
import Refinery.Lemmas.Reload
/-!
A trigger that runs alone (no other trigger moves, no file write while it runs) does exactly what
the sequential `Reload` of `Model.Reload.Seq` does: this ties the overlapping-trigger machine to the
machine that the differential harness replays (property C27).
-/
set_option linter.unusedSimpArgs false
namespace Refinery.Lemmas.Reload
open Refinery.Model.Reload

/-- `k` consecutive steps of trigger `t` -/
def solo (aw : Bool) (lk : Lock) (s : CSt) (t k : Nat) : CSt :=
  crun aw lk s (List.replicate k (.step t))

theorem solo_zero (aw : Bool) (lk : Lock) (s : CSt) (t : Nat) : solo aw lk s t 0 = s := rfl

theorem solo_succ (aw : Bool) (lk : Lock) (s : CSt) (t k : Nat) :
    solo aw lk s t (k + 1) = solo aw lk (stepThr aw lk s t) t k := by
  simp [solo, crun, List.replicate_succ, stepEv]

theorem solo_add (aw : Bool) (lk : Lock) (s : CSt) (t a b : Nat) :
    solo aw lk s t (a + b) = solo aw lk (solo aw lk s t a) t b := by
  induction a generalizing s with
  | zero => simp [solo_zero]
  | succ a ih => rw [Nat.add_right_comm, solo_succ, solo_succ, ih]

theorem stepThr_done (aw : Bool) (lk : Lock) (s : CSt) (t : Nat) (h : (s.thr t).pc = .done) :
    stepThr aw lk s t = s := by
  unfold stepThr; split
  · rfl
  · simp [h]

theorem solo_done (aw : Bool) (lk : Lock) (s : CSt) (t k : Nat) (h : (s.thr t).pc = .done) :
    solo aw lk s t k = s := by
  induction k with
  | zero => rfl
  | succ k ih => rw [solo_succ, stepThr_done aw lk s t h, ih]

/-- what one run of a trigger left behind, relative to the state it started from -/
structure Effect (s s' : CSt) (t : Nat) (applied : Key) (aplog : List Nat) (notes : Nat → List Nat) : Prop where
  pc : (s'.thr t).pc = .done
  n : s'.n = s.n
  L : s'.L = s.L
  file : s'.file = s.file
  applied : s'.applied = applied
  aplog : s'.aplog = aplog
  notes : ∀ l, s'.notes l = notes l

/-- the callback loop: from "about to call callback `j`" the trigger calls `j … L-1`, each once, and returns -/
theorem notify_loop (aw : Bool) (lk : Lock) (d : Nat) : ∀ (s : CSt) (t j : Nat), ¬ s.n ≤ t →
    (s.thr t).pc = .ntf j → j + (d + 1) = s.L →
    Effect s (solo aw lk s t (d + 1)) t s.applied s.aplog
      (fun l => if j ≤ l ∧ l < s.L then t :: s.notes l else s.notes l) := by
  induction d with
  | zero =>
    intro s t j hn hpc hj
    rw [solo_succ, solo_zero]
    have hlt : ¬ j + 1 < s.L := by omega
    unfold stepThr
    simp only [hn, if_false, hpc, hlt]
    constructor <;> simp
    intro l
    by_cases hl : l = j
    · subst hl; simp; omega
    · simp [hl]; intro h1; omega
  | succ d ih =>
    intro s t j hn hpc hj
    rw [solo_succ]
    have hlt : j + 1 < s.L := by omega
    obtain ⟨S, hS, hSpc, hSn, hSL, hSf, hSa, hSg, hSo⟩ : ∃ S, stepThr aw lk s t = S ∧
        (S.thr t).pc = .ntf (j + 1) ∧ S.n = s.n ∧ S.L = s.L ∧ S.file = s.file ∧ S.applied = s.applied ∧
        S.aplog = s.aplog ∧ S.notes = fun l => if l = j then t :: s.notes l else s.notes l := by
      refine ⟨_, rfl, ?_⟩
      unfold stepThr
      simp only [hn, if_false, hpc, hlt, if_true]
      simp
    rw [hS]
    obtain ⟨e1, e2, e3, e4, e5, e6, e7⟩ := ih S t (j + 1) (by omega) hSpc (by omega)
    refine ⟨e1, by omega, by omega, by rw [e4, hSf], by rw [e5, hSa], by rw [e6, hSg], ?_⟩
    clear e1 e2 e3 e4 e5 e6 ih
    intro l
    rw [e7 l]
    simp only [hSL, hSo]
    by_cases hl : l = j
    · subst hl
      have h1 : ¬ (l + 1 ≤ l ∧ l < s.L) := by omega
      have h2 : l ≤ l ∧ l < s.L := by omega
      simp [h1, h2]
    · simp only [hl, if_false]
      by_cases h1 : j + 1 ≤ l ∧ l < s.L
      · have h2 : j ≤ l ∧ l < s.L := ⟨by omega, h1.2⟩
        simp [h1, h2]
      · have h2 : ¬ (j ≤ l ∧ l < s.L) := by intro h2; apply h1; exact ⟨by omega, h2.2⟩
        simp [h1, h2]

/-- after the assignment: callbacks `0 … L-1`, then return (`L` more steps are enough) -/
theorem after_assign (aw : Bool) (lk : Lock) (s : CSt) (t : Nat) (hn : ¬ s.n ≤ t) :
    Effect s (solo aw lk (afterAssign lk (doAssign s t) t) t s.L) t (s.thr t).snap (t :: s.aplog)
      (fun l => if l < s.L then t :: s.notes l else s.notes l) := by
  by_cases hL : s.L = 0
  · rw [hL, solo_zero]
    constructor <;> simp [hL]
  · obtain ⟨d, hd⟩ : ∃ d, s.L = d + 1 := ⟨s.L - 1, by omega⟩
    have hpc : ((afterAssign lk (doAssign s t) t).thr t).pc = .ntf 0 := by simp [hL]
    have := notify_loop aw lk d (afterAssign lk (doAssign s t) t) t 0 (by simpa using hn) hpc (by simp; omega)
    rw [hd]
    obtain ⟨e1, e2, e3, e4, e5, e6, e7⟩ := this
    refine ⟨e1, by simpa using e2, by simpa using e3, by simpa using e4, by simpa using e5, by simpa using e6, ?_⟩
    intro l; rw [e7 l]; simp [hd]

/-- **A trigger running alone is `Seq.reload`.**  From a state where trigger `t` has not fired and
the reload mutex is free, `L + 4` consecutive steps of `t` (enough for every path) make it return,
and: if `Reload` goes on with the files' content and that content differs from the running
configuration, the running configuration becomes the content on disk and every listener is called
exactly once; otherwise nothing changes. -/
theorem solo_trigger (aw : Bool) (lk : Lock) (s : CSt) (t : Nat) (ht : t < s.n)
    (hidle : (s.thr t).pc = .idle) (hfree : s.holder = none) :
    if reloadable aw s.file = true ∧ s.file ≠ s.applied then
      Effect s (solo aw lk s t (s.L + 4)) t s.file (t :: s.aplog)
        (fun l => if l < s.L then t :: s.notes l else s.notes l)
    else Effect s (solo aw lk s t (s.L + 4)) t s.applied s.aplog s.notes := by
  have hn : ¬ s.n ≤ t := by omega
  -- step 1: the trigger fires (serial: takes the free mutex)
  have h1 : ∃ s1, stepThr aw lk s t = s1 ∧ (s1.thr t) = { s.thr t with pc := .read } ∧ s1.n = s.n ∧ s1.L = s.L ∧
      s1.file = s.file ∧ s1.applied = s.applied ∧ s1.aplog = s.aplog ∧ s1.notes = s.notes ∧ s1.ver = s.ver := by
    refine ⟨_, rfl, ?_⟩
    unfold stepThr
    simp only [hn, if_false, hidle]
    by_cases hlk : lk = .serial
    · simp [hlk, hfree]
    · simp [hlk]
  obtain ⟨s1, hs1, t1, n1, L1, f1, a1, g1, o1, v1⟩ := h1
  have hn1 : ¬ s1.n ≤ t := by omega
  have hpc1 : (s1.thr t).pc = .read := by rw [t1]
  rw [show s.L + 4 = 1 + (s.L + 3) by omega, solo_add, show solo aw lk s t 1 = s1 by rw [solo_succ, solo_zero, hs1]]
  by_cases hr : reloadable aw s.file = true
  · -- step 2: read and build succeed
    have hs2 : stepThr aw lk s1 t = setThr s1 t { pc := .cmp, snap := s.file, sv := s.ver } := by
      unfold stepThr
      simp only [hn1, if_false, hpc1, f1, hr, if_true, v1]
    rw [show s.L + 3 = 1 + (s.L + 2) by omega, solo_add,
      show solo aw lk s1 t 1 = setThr s1 t { pc := .cmp, snap := s.file, sv := s.ver } by
        rw [solo_succ, solo_zero, hs2]]
    generalize hs2' : setThr s1 t { pc := .cmp, snap := s.file, sv := s.ver } = s2
    have t2 : s2.thr t = { pc := .cmp, snap := s.file, sv := s.ver } := by rw [← hs2']; simp
    have n2 : s2.n = s.n := by rw [← hs2']; simpa using n1
    have L2 : s2.L = s.L := by rw [← hs2']; simpa using L1
    have f2 : s2.file = s.file := by rw [← hs2']; simpa using f1
    have a2 : s2.applied = s.applied := by rw [← hs2']; simpa using a1
    have g2 : s2.aplog = s.aplog := by rw [← hs2']; simpa using g1
    have o2 : s2.notes = s.notes := by rw [← hs2']; simpa using o1
    have hn2 : ¬ s2.n ≤ t := by omega
    by_cases hc : s.file = s.applied
    · -- step 3: hashes equal, return
      simp only [hr, hc, ne_eq, not_true_eq_false, and_false, if_false]
      have hs3 : stepThr aw lk s2 t = finish lk s2 t := by
        unfold stepThr
        simp only [hn2, if_false, t2, a2, hc, if_true]
      rw [show s.L + 2 = 1 + (s.L + 1) by omega, solo_add,
        show solo aw lk s2 t 1 = finish lk s2 t by rw [solo_succ, solo_zero, hs3]]
      rw [solo_done _ _ _ _ _ (by simp)]
      constructor <;> simp [n2, L2, f2, a2, g2, o2]
    · simp only [hr, hc, ne_eq, not_false_eq_true, and_self, if_true]
      have hsnap : (s2.thr t).snap = s.file := by rw [t2]
      by_cases hcas : lk = .cas
      · -- step 3 compares and assigns in one critical section
        have hs3 : stepThr aw lk s2 t = afterAssign lk (doAssign s2 t) t := by
          unfold stepThr
          simp only [hn2, if_false, t2, a2, hc, hcas, if_true]
        rw [show s.L + 2 = 1 + (s.L + 1) by omega, solo_add,
          show solo aw lk s2 t 1 = afterAssign lk (doAssign s2 t) t by rw [solo_succ, solo_zero, hs3]]
        rw [show s.L + 1 = s2.L + 1 by omega, solo_add]
        obtain ⟨e1, e2, e3, e4, e5, e6, e7⟩ := after_assign aw lk s2 t hn2
        rw [solo_done _ _ _ _ _ e1]
        exact ⟨e1, by omega, by omega, by rw [e4, f2], by rw [e5, hsnap], by rw [e6, g2],
          fun l => by rw [e7 l, o2, L2]⟩
      · -- step 3: hashes differ; step 4: lock, assign, unlock
        have hs3 : stepThr aw lk s2 t = setThr s2 t { s2.thr t with pc := .asg } := by
          unfold stepThr
          simp only [hn2, if_false, t2, a2, hc, hcas]
        rw [show s.L + 2 = 1 + (s.L + 1) by omega, solo_add,
          show solo aw lk s2 t 1 = setThr s2 t { s2.thr t with pc := .asg } by rw [solo_succ, solo_zero, hs3]]
        generalize hs3' : setThr s2 t { s2.thr t with pc := .asg } = s3
        have t3 : s3.thr t = { pc := .asg, snap := s.file, sv := s.ver } := by rw [← hs3']; simp [t2]
        have n3 : s3.n = s.n := by rw [← hs3']; simpa using n2
        have L3 : s3.L = s.L := by rw [← hs3']; simpa using L2
        have f3 : s3.file = s.file := by rw [← hs3']; simpa using f2
        have g3 : s3.aplog = s.aplog := by rw [← hs3']; simpa using g2
        have o3 : s3.notes = s.notes := by rw [← hs3']; simpa using o2
        have hn3 : ¬ s3.n ≤ t := by omega
        have hs4 : stepThr aw lk s3 t = afterAssign lk (doAssign s3 t) t := by
          unfold stepThr
          simp only [hn3, if_false, t3]
        rw [show s.L + 1 = 1 + s3.L by omega, solo_add,
          show solo aw lk s3 t 1 = afterAssign lk (doAssign s3 t) t by rw [solo_succ, solo_zero, hs4]]
        obtain ⟨e1, e2, e3, e4, e5, e6, e7⟩ := after_assign aw lk s3 t hn3
        exact ⟨e1, by omega, by omega, by rw [e4, f3], by rw [e5, t3], by rw [e6, g3],
          fun l => by rw [e7 l, o3, L3]⟩
  · -- step 2: `newFileConfig` (or reading a file) fails, or warns and `Reload` gives up: return
    simp only [hr, false_and, if_false]
    have hs2 : stepThr aw lk s1 t = finish lk (setThr s1 t { pc := .read, snap := s1.file, sv := s1.ver }) t := by
      unfold stepThr
      simp only [hn1, if_false, hpc1, f1, hr]
      simp
    rw [show s.L + 3 = 1 + (s.L + 2) by omega, solo_add,
      show solo aw lk s1 t 1 = finish lk (setThr s1 t { pc := .read, snap := s1.file, sv := s1.ver }) t by
        rw [solo_succ, solo_zero, hs2]]
    rw [solo_done _ _ _ _ _ (by simp)]
    constructor <;> simp [n1, L1, f1, a1, g1, o1]

/-- the sequential machine's view of a state of the overlapping-trigger machine: the files, the
running configuration, how often each listener was called, how many changes were applied -/
def seqView (aw : Bool) (s : CSt) : Seq.St :=
  { aw := aw, cfile := s.file.1, rfile := s.file.2, started := true, applied := s.applied,
    counts := (List.range s.L).map fun l => (s.notes l).length, napplied := s.aplog.length }

theorem seqView_solo (aw : Bool) (lk : Lock) (s : CSt) (t : Nat) (ht : t < s.n)
    (hidle : (s.thr t).pc = .idle) (hfree : s.holder = none) :
    seqView aw (solo aw lk s t (s.L + 4)) = (Seq.reload (seqView aw s)).1 := by
  have h := solo_trigger aw lk s t ht hidle hfree
  have hfile : (seqView aw s).file = s.file := rfl
  unfold Seq.reload
  rw [hfile]
  simp only [show (seqView aw s).aw = aw from rfl, show (seqView aw s).applied = s.applied from rfl]
  by_cases hr : reloadable aw s.file = true
  · by_cases hc : s.file = s.applied
    · rw [if_neg (by simp [hc])] at h
      obtain ⟨_, _, e3, e4, e5, e6, e7⟩ := h
      rw [if_pos hr, if_pos hc]
      simp only [seqView, e3, e4, e5, e6]
      congr 1
      apply List.map_congr_left
      intro l _; rw [e7 l]
    · rw [if_pos ⟨hr, hc⟩] at h
      obtain ⟨_, _, e3, e4, e5, e6, e7⟩ := h
      rw [if_pos hr, if_neg hc]
      simp only [seqView, e3, e4, e5, e6, List.length_cons, List.map_map]
      congr 1
      apply List.map_congr_left
      intro l hl
      have : l < s.L := by simpa using hl
      rw [e7 l]; simp [this]
  · rw [if_neg (by simp [hr])] at h
    obtain ⟨_, _, e3, e4, e5, e6, e7⟩ := h
    rw [if_neg hr]
    simp only [seqView, e3, e4, e5, e6]
    congr 1
    apply List.map_congr_left
    intro l _; rw [e7 l]

end Refinery.Lemmas.Reload
