import Refinery.Model.Sharder
/-!
Helper lemmas for C17 (sorting, membership in the partition table, the scan of `WhichShard`).
-/
namespace Refinery.Model.Sharder

/-! ### insertion sort -/

theorem insBy_perm {α : Type} (le : α → α → Bool) (x : α) (l : List α) :
    (insBy le x l).Perm (x :: l) := by
  induction l with
  | nil => simp [insBy]
  | cons y t ih =>
    unfold insBy
    split
    · exact List.Perm.refl _
    · exact (List.Perm.cons y ih).trans (List.Perm.swap x y t)

theorem isortBy_perm {α : Type} (le : α → α → Bool) (l : List α) : (isortBy le l).Perm l := by
  induction l with
  | nil => simp [isortBy]
  | cons x t ih => exact (insBy_perm le x _).trans (List.Perm.cons x ih)

theorem insBy_pairwise {α : Type} (le : α → α → Bool)
    (total : ∀ a b, le a b = true ∨ le b a = true)
    (trans : ∀ a b c, le a b = true → le b c = true → le a c = true)
    (x : α) (l : List α) (hl : l.Pairwise (fun a b => le a b = true)) :
    (insBy le x l).Pairwise (fun a b => le a b = true) := by
  induction l with
  | nil => simp [insBy]
  | cons y t ih =>
    unfold insBy
    rw [List.pairwise_cons] at hl
    split
    · rename_i hxy
      rw [List.pairwise_cons]
      refine ⟨?_, List.pairwise_cons.mpr hl⟩
      intro a ha
      rcases List.mem_cons.mp ha with rfl | ha
      · exact hxy
      · exact trans _ _ _ hxy (hl.1 a ha)
    · rename_i hxy
      rw [List.pairwise_cons]
      refine ⟨?_, ih hl.2⟩
      intro a ha
      rcases List.mem_cons.mp ((insBy_perm le x t).mem_iff.mp ha) with rfl | ha
      · rcases total a y with h | h
        · exact absurd h hxy
        · exact h
      · exact hl.1 a ha

theorem isortBy_pairwise {α : Type} (le : α → α → Bool)
    (total : ∀ a b, le a b = true ∨ le b a = true)
    (trans : ∀ a b c, le a b = true → le b c = true → le a c = true)
    (l : List α) : (isortBy le l).Pairwise (fun a b => le a b = true) := by
  induction l with
  | nil => simp [isortBy]
  | cons x t ih => exact insBy_pairwise le total trans x _ ih

theorem sortAddrs_perm (l : List String) : (sortAddrs l).Perm l := isortBy_perm _ l

theorem mem_sortAddrs {a : String} {l : List String} : a ∈ sortAddrs l ↔ a ∈ l :=
  (sortAddrs_perm l).mem_iff

theorem sortAddrs_pairwise (l : List String) : (sortAddrs l).Pairwise (· ≤ ·) := by
  have := isortBy_pairwise (fun a b : String => decide (a ≤ b))
    (by intro a b; simpa using String.le_total a b)
    (by intro a b c; simpa using fun h1 h2 => String.le_trans (a := a) (b := b) (c := c) h1 h2) l
  simpa [sortAddrs] using this

theorem length_sortAddrs (l : List String) : (sortAddrs l).length = l.length :=
  (sortAddrs_perm l).length_eq

theorem sortAddrs_eq_nil {l : List String} : sortAddrs l = [] ↔ l = [] := by
  constructor
  · intro h; have := length_sortAddrs l; rw [h] at this; exact List.length_eq_zero_iff.mp this.symm
  · intro h; subst h; rfl

/-- permutations sort to the same list -/
theorem sortAddrs_eq_of_perm {l₁ l₂ : List String} (hp : l₁.Perm l₂) :
    sortAddrs l₁ = sortAddrs l₂ := by
  apply List.Perm.eq_of_pairwise (le := (· ≤ ·))
  · intro a b _ _ hab hba; exact String.le_antisymm hab hba
  · exact sortAddrs_pairwise l₁
  · exact sortAddrs_pairwise l₂
  · exact (sortAddrs_perm l₁).trans (hp.trans (sortAddrs_perm l₂).symm)

/-- the first element of the sorted list is the least address; it only depends on the *set* -/
theorem head_sortAddrs_of_set {l₁ l₂ : List String} (hset : ∀ a, a ∈ l₁ ↔ a ∈ l₂) :
    (sortAddrs l₁)[0]? = (sortAddrs l₂)[0]? := by
  have key : ∀ (l : List String) (x : String) (t : List String), sortAddrs l = x :: t →
      x ∈ l ∧ ∀ a ∈ l, x ≤ a := by
    intro l x t hs
    have hp := sortAddrs_pairwise l
    rw [hs, List.pairwise_cons] at hp
    refine ⟨mem_sortAddrs.mp (by rw [hs]; exact List.mem_cons_self), ?_⟩
    intro a ha
    have : a ∈ x :: t := by rw [← hs]; exact mem_sortAddrs.mpr ha
    rcases List.mem_cons.mp this with rfl | h
    · exact String.le_refl _
    · exact hp.1 a h
  cases h1 : sortAddrs l₁ with
  | nil =>
    have e1 := sortAddrs_eq_nil.mp h1
    subst e1
    have : l₂ = [] := by
      cases l₂ with
      | nil => rfl
      | cons b t => exact absurd ((hset b).mpr List.mem_cons_self) (by simp)
    subst this; rfl
  | cons x t =>
    cases h2 : sortAddrs l₂ with
    | nil =>
      have e2 := sortAddrs_eq_nil.mp h2
      subst e2
      have := (key l₁ x t h1).1
      exact absurd ((hset x).mp this) (by simp)
    | cons y u =>
      have k1 := key l₁ x t h1
      have k2 := key l₂ y u h2
      have : x = y := String.le_antisymm (k1.2 y ((hset y).mpr k2.1)) (k2.2 x ((hset x).mp k1.1))
      simp [this]

/-! ### `loadPeerList` by cases -/

theorem loadPeerList_eq (c : Consts) (h : HashFn) (n : Node) :
    (n.src = [] ∧ loadPeerList c h n = (n, false)) ∨
    (n.src ≠ [] ∧ n.peers = sortAddrs n.src ∧ loadPeerList c h n = (n, true)) ∨
    (n.src ≠ [] ∧ n.peers ≠ sortAddrs n.src ∧
      loadPeerList c h n =
        ({ n with peers := sortAddrs n.src, hashes := table c h (sortAddrs n.src) }, true)) := by
  unfold loadPeerList
  by_cases h1 : n.src = []
  · exact Or.inl ⟨h1, by simp [h1]⟩
  · by_cases h2 : n.peers = sortAddrs n.src
    · exact Or.inr (Or.inl ⟨h1, h2, by simp [h1, h2]⟩)
    · exact Or.inr (Or.inr ⟨h1, h2, by simp [h1, h2]⟩)

/-- `loadPeerList` touches nothing but `peers` and `hashes` -/
theorem loadPeerList_fields (c : Consts) (h : HashFn) (n : Node) :
    (loadPeerList c h n).1.self = n.self ∧ (loadPeerList c h n).1.my = n.my ∧
    (loadPeerList c h n).1.started = n.started ∧ (loadPeerList c h n).1.src = n.src := by
  rcases loadPeerList_eq c h n with ⟨_, e⟩ | ⟨_, _, e⟩ | ⟨_, _, e⟩ <;> rw [e] <;> simp

/-- The executable model's table is one of the admissible arrangements. -/
theorem table_isTable (c : Consts) (h : HashFn) (peers : List String) :
    IsTable c h peers (table c h peers) := by
  refine ⟨isortBy_perm _ _, ?_⟩
  have := isortBy_pairwise hashLe
    (by intro a b; simp only [hashLe, decide_eq_true_eq]; omega)
    (by intro a b c; simp only [hashLe, decide_eq_true_eq]; omega) (entries c h peers)
  simpa [hashLe, table] using this

/-- `loadPeerList` keeps "`d.hashes` is a table of `d.peers`". -/
theorem loadPeerList_isTable (c : Consts) (h : HashFn) (n : Node)
    (hn : IsTable c h n.peers n.hashes) :
    IsTable c h (loadPeerList c h n).1.peers (loadPeerList c h n).1.hashes := by
  rcases loadPeerList_eq c h n with ⟨_, e⟩ | ⟨_, _, e⟩ | ⟨_, _, e⟩ <;> rw [e]
  · exact hn
  · exact hn
  · exact table_isTable c h _

/-- After a successful `loadPeerList` the sharder holds the source list, sorted. -/
theorem loadPeerList_peers (c : Consts) (h : HashFn) (n : Node) (hne : n.src ≠ []) :
    (loadPeerList c h n).1.peers = sortAddrs n.src ∧ (loadPeerList c h n).2 = true := by
  rcases loadPeerList_eq c h n with ⟨h1, _⟩ | ⟨_, h2, e⟩ | ⟨_, _, e⟩
  · exact absurd h1 hne
  · rw [e]; exact ⟨h2, rfl⟩
  · rw [e]; exact ⟨rfl, rfl⟩

theorem modifyNth_mem {f : Node → Node} {nodes : List Node} {i : Nat} {n : Node}
    (hn : n ∈ modifyNth f nodes i) : n ∈ nodes ∨ ∃ m ∈ nodes, n = f m := by
  induction nodes generalizing i with
  | nil => simp [modifyNth] at hn
  | cons x t ih =>
    cases i with
    | zero =>
      simp only [modifyNth, List.mem_cons] at hn
      rcases hn with rfl | hn
      · exact Or.inr ⟨x, List.mem_cons_self, rfl⟩
      · exact Or.inl (List.mem_cons_of_mem _ hn)
    | succ i =>
      simp only [modifyNth, List.mem_cons] at hn
      rcases hn with rfl | hn
      · exact Or.inl List.mem_cons_self
      · rcases ih hn with h1 | ⟨m, hm, rfl⟩
        · exact Or.inl (List.mem_cons_of_mem _ h1)
        · exact Or.inr ⟨m, List.mem_cons_of_mem _ hm, rfl⟩

/-! ### membership in the partition table -/

theorem mem_hashesFor {h : HashFn} {addr : String} {ix n seed : Nat} {e : Entry} :
    e ∈ hashesFor h addr ix n seed ↔ ∃ s ∈ seeds h n seed, e.uhash = h addr s ∧ e.ix = ix := by
  unfold hashesFor
  rw [List.mem_map]
  constructor
  · rintro ⟨s, hs, rfl⟩; exact ⟨s, hs, rfl, rfl⟩
  · rintro ⟨s, hs, h1, h2⟩; exact ⟨s, hs, by cases e; simp_all⟩

theorem mem_entriesFrom {h : HashFn} {n seed : Nat} {l : List String} {ix0 : Nat} {e : Entry} :
    e ∈ entriesFrom h n seed l ix0 ↔
      ∃ j a, l[j]? = some a ∧ e.ix = ix0 + j ∧ ∃ s ∈ seeds h n seed, e.uhash = h a s := by
  induction l generalizing ix0 with
  | nil => simp [entriesFrom]
  | cons b t ih =>
    simp only [entriesFrom, List.mem_append, mem_hashesFor, ih]
    constructor
    · rintro (⟨s, hs, h1, h2⟩ | ⟨j, a, hj, hix, s, hs, hu⟩)
      · exact ⟨0, b, by simp, by simpa using h2, s, hs, h1⟩
      · exact ⟨j + 1, a, by simpa using hj, by omega, s, hs, hu⟩
    · rintro ⟨j, a, hj, hix, s, hs, hu⟩
      cases j with
      | zero =>
        simp at hj; subst hj
        exact Or.inl ⟨s, hs, hu, by simpa using hix⟩
      | succ j =>
        exact Or.inr ⟨j, a, by simpa using hj, by omega, s, hs, hu⟩

/-- the `(uhash, address)` view of a table entry -/
def key (peers : List String) (e : Entry) : Nat × Option String := (e.uhash, peers[e.ix]?)

theorem mem_entries {c : Consts} {h : HashFn} {peers : List String} {e : Entry} :
    e ∈ entries c h peers ↔
      ∃ a, peers[e.ix]? = some a ∧
        ∃ s ∈ seeds h (partitionsPerPeer c peers.length) c.peerSeed, e.uhash = h a s := by
  unfold entries
  rw [mem_entriesFrom]
  constructor
  · rintro ⟨j, a, hj, hix, hs⟩
    refine ⟨a, ?_, hs⟩
    have : e.ix = j := by omega
    rw [this]; exact hj
  · rintro ⟨a, ha, hs⟩
    exact ⟨e.ix, a, ha, by omega, hs⟩

/-- which `(uhash, address)` pairs occur in the table: exactly the partition hashes of the
addresses of the list -/
theorem mem_keys {c : Consts} {h : HashFn} {peers : List String} {t : List Entry}
    (ht : t.Perm (entries c h peers)) {p : Nat × Option String} :
    p ∈ t.map (key peers) ↔
      ∃ a ∈ peers, p.2 = some a ∧
        ∃ s ∈ seeds h (partitionsPerPeer c peers.length) c.peerSeed, p.1 = h a s := by
  rw [List.mem_map]
  constructor
  · rintro ⟨e, he, rfl⟩
    obtain ⟨a, ha, hs⟩ := mem_entries.mp (ht.mem_iff.mp he)
    exact ⟨a, List.mem_of_getElem? ha, ha, hs⟩
  · rintro ⟨a, ha, hp2, s, hs, hp1⟩
    obtain ⟨i, hi, hia⟩ := List.getElem_of_mem ha
    have hia' : peers[i]? = some a := by simp [List.getElem?_eq_getElem hi, hia]
    refine ⟨⟨h a s, i⟩, ht.mem_iff.mpr (mem_entries.mpr ⟨a, hia', s, hs, rfl⟩), ?_⟩
    cases p; simp_all [key]

/-! ### the scan of `WhichShard`, at the level of `(uhash, address)` pairs -/

def scanAStep {α : Type} (g : Nat → Nat) (acc : α × Nat) (p : Nat × α) : α × Nat :=
  if g p.1 > acc.2 then (p.2, g p.1) else acc

def scanA {α : Type} (g : Nat → Nat) (acc : α × Nat) (K : List (Nat × α)) : α × Nat :=
  K.foldl (scanAStep g) acc

theorem whichShard_eq_scanA_aux (h : HashFn) (id : String) (peers : List String) (t : List Entry)
    (acc : Nat × Nat) :
    peers[(t.foldl (scanStep h id) acc).1]? =
      (scanA (h id) (peers[acc.1]?, acc.2) (t.map (key peers))).1 ∧
    (t.foldl (scanStep h id) acc).2 =
      (scanA (h id) (peers[acc.1]?, acc.2) (t.map (key peers))).2 := by
  induction t generalizing acc with
  | nil => simp [scanA]
  | cons e t ih =>
    simp only [List.foldl_cons, List.map_cons, scanA]
    have := ih (scanStep h id acc e)
    simp only [scanA] at this
    have hstep : scanAStep (h id) (peers[acc.1]?, acc.2) (key peers e) =
        (peers[(scanStep h id acc e).1]?, (scanStep h id acc e).2) := by
      unfold scanAStep scanStep key
      by_cases hgt : h id e.uhash > acc.2 <;> simp [hgt]
    rw [hstep]; exact this

theorem whichShard_eq_scanA (h : HashFn) (id : String) (peers : List String) (t : List Entry) :
    whichShard h peers t id = (scanA (h id) (peers[0]?, 0) (t.map (key peers))).1 :=
  (whichShard_eq_scanA_aux h id peers t (0, 0)).1

/-- What the scan computes on a list that is ascending in the first component: nothing changes
if no value exceeds the starting maximum; otherwise the winner has the greatest value and, among
those, the least first component. -/
theorem scanA_spec {α : Type} (g : Nat → Nat) (K : List (Nat × α))
    (hs : K.Pairwise (fun p q => p.1 ≤ q.1)) (a0 : α) (m0 : Nat) :
    ((∀ p ∈ K, g p.1 ≤ m0) → scanA g (a0, m0) K = (a0, m0)) ∧
    ((∃ p ∈ K, g p.1 > m0) → ∃ p ∈ K, scanA g (a0, m0) K = (p.2, g p.1) ∧ g p.1 > m0 ∧
        ∀ q ∈ K, g q.1 ≤ g p.1 ∧ (g q.1 = g p.1 → p.1 ≤ q.1)) := by
  induction K generalizing a0 m0 with
  | nil => simp [scanA]
  | cons p K ih =>
    rw [List.pairwise_cons] at hs
    have ihK := ih hs.2
    by_cases hgt : g p.1 > m0
    · have hstep : scanA g (a0, m0) (p :: K) = scanA g (p.2, g p.1) K := by
        simp [scanA, scanAStep, hgt]
      obtain ⟨ihA, ihB⟩ := ihK p.2 (g p.1)
      refine ⟨fun hall => absurd (hall p List.mem_cons_self) (by omega), fun _ => ?_⟩
      by_cases hex : ∃ q ∈ K, g q.1 > g p.1
      · obtain ⟨w, hw, hr, hwgt, hall⟩ := ihB hex
        refine ⟨w, List.mem_cons_of_mem _ hw, by rw [hstep, hr], by omega, ?_⟩
        intro q hq
        rcases List.mem_cons.mp hq with rfl | hq
        · exact ⟨by omega, fun he => by omega⟩
        · exact hall q hq
      · have hall : ∀ q ∈ K, g q.1 ≤ g p.1 := by
          intro q hq
          by_cases hq' : g q.1 ≤ g p.1
          · exact hq'
          · exact absurd ⟨q, hq, by omega⟩ hex
        refine ⟨p, List.mem_cons_self, by rw [hstep, ihA hall], hgt, ?_⟩
        intro q hq
        rcases List.mem_cons.mp hq with rfl | hq
        · exact ⟨Nat.le_refl _, fun _ => Nat.le_refl _⟩
        · exact ⟨hall q hq, fun _ => hs.1 q hq⟩
    · have hstep : scanA g (a0, m0) (p :: K) = scanA g (a0, m0) K := by
        simp [scanA, scanAStep, hgt]
      obtain ⟨ihA, ihB⟩ := ihK a0 m0
      constructor
      · intro hall
        rw [hstep]; exact ihA (fun q hq => hall q (List.mem_cons_of_mem _ hq))
      · rintro ⟨q, hq, hqgt⟩
        have hqK : q ∈ K := by
          rcases List.mem_cons.mp hq with rfl | hq
          · exact absurd hqgt hgt
          · exact hq
        obtain ⟨w, hw, hr, hwgt, hall⟩ := ihB ⟨q, hqK, hqgt⟩
        refine ⟨w, List.mem_cons_of_mem _ hw, by rw [hstep, hr], hwgt, ?_⟩
        intro q' hq'
        rcases List.mem_cons.mp hq' with rfl | hq'
        · exact ⟨by omega, fun he => by omega⟩
        · exact hall q' hq'

/-- Two ascending lists with the same *set* of pairs, in which equal first components carry equal
second components, give the same scan result. -/
theorem scanA_set_eq {α : Type} (g : Nat → Nat) (K₁ K₂ : List (Nat × α))
    (hs₁ : K₁.Pairwise (fun p q => p.1 ≤ q.1)) (hs₂ : K₂.Pairwise (fun p q => p.1 ≤ q.1))
    (hset : ∀ p, p ∈ K₁ ↔ p ∈ K₂)
    (htie : ∀ p ∈ K₁, ∀ q ∈ K₁, p.1 = q.1 → p.2 = q.2) (a0 : α) (m0 : Nat) :
    scanA g (a0, m0) K₁ = scanA g (a0, m0) K₂ := by
  obtain ⟨A₁, B₁⟩ := scanA_spec g K₁ hs₁ a0 m0
  obtain ⟨A₂, B₂⟩ := scanA_spec g K₂ hs₂ a0 m0
  by_cases hex : ∃ p ∈ K₁, g p.1 > m0
  · obtain ⟨w₁, hw₁, hr₁, _, hall₁⟩ := B₁ hex
    obtain ⟨p, hp, hpgt⟩ := hex
    obtain ⟨w₂, hw₂, hr₂, _, hall₂⟩ := B₂ ⟨p, (hset p).mp hp, hpgt⟩
    have hw₂' := (hset w₂).mpr hw₂
    have hw₁' := (hset w₁).mp hw₁
    have e1 := hall₁ w₂ hw₂'
    have e2 := hall₂ w₁ hw₁'
    have hg : g w₁.1 = g w₂.1 := by omega
    have hu : w₁.1 = w₂.1 := Nat.le_antisymm (e1.2 hg.symm) (e2.2 hg)
    have ha : w₁.2 = w₂.2 := htie w₁ hw₁ w₂ hw₂' hu
    rw [hr₁, hr₂, ha, hg]
  · have hall₁ : ∀ p ∈ K₁, g p.1 ≤ m0 := by
      intro p hp
      by_cases h' : g p.1 ≤ m0
      · exact h'
      · exact absurd ⟨p, hp, by omega⟩ hex
    rw [A₁ hall₁, A₂ (fun p hp => hall₁ p ((hset p).mpr hp))]

/-- the scan never leaves the indices it has seen -/
theorem scan_ix (h : HashFn) (id : String) (t : List Entry) (acc : Nat × Nat) :
    (t.foldl (scanStep h id) acc).1 = acc.1 ∨ ∃ e ∈ t, (t.foldl (scanStep h id) acc).1 = e.ix := by
  induction t generalizing acc with
  | nil => simp
  | cons e t ih =>
    simp only [List.foldl_cons]
    rcases ih (scanStep h id acc e) with h1 | ⟨e', he', h1⟩
    · by_cases hgt : h id e.uhash > acc.2
      · right; exact ⟨e, List.mem_cons_self, by rw [h1]; simp [scanStep, hgt]⟩
      · left; rw [h1]; simp [scanStep, hgt]
    · right; exact ⟨e', List.mem_cons_of_mem _ he', h1⟩

end Refinery.Model.Sharder
