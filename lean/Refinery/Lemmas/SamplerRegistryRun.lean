import Refinery.Lemmas.SamplerRegistry
/-!
The invariants of `Lemmas/SamplerRegistry.lean` hold in every reachable state (C12, C13).
-/
set_option linter.unusedVariables false
set_option linter.unusedSimpArgs false
namespace Refinery.Lemmas.SamplerRegistry
open Refinery Refinery.Model.SamplerRegistry

/-- (prefix, definition) pairs that some configuration of the case defines for some sampler key of `E` -/
def InPlay (all : List Config) (E : Str → Prop) (pd : Str × Def) : Prop :=
  ∃ c ∈ all, ∃ e, E e ∧ pd ∈ slotsOf c e

structure Inv (all : List Config) (E : Str → Prop) (st : St) : Prop where
  r : InvR (InPlay all E) st
  c : InvC (InPlay all E) st
  cfg : st.cfg ∈ all
  f : Faithful (InPlay all E) → InvF st
  keys : ∀ key ent, (key, ent) ∈ st.caches → E key.2

section
variable {P : Str × Def → Prop}

/-- the registry invariant does not look at the caches or the configuration -/
theorem InvR.of_eq {st st' : St} (h : InvR P st) (h1 : st'.reg = st.reg) (h2 : st'.insts = st.insts)
    (h3 : st'.goalCfg = st.goalCfg) (h4 : st'.peerCount = st.peerCount) (h5 : st'.epoch = st.epoch) :
    InvR P st' := by
  obtain ⟨cfg, actual, pc, reg, gc, insts, caches, fed, epoch⟩ := st
  obtain ⟨cfg', actual', pc', reg', gc', insts', caches', fed', epoch'⟩ := st'
  simp only at h1 h2 h3 h4 h5
  subst h1 h2 h3 h4 h5
  exact { regNodup := h.regNodup, idsNodup := h.idsNodup, regWF := h.regWF, instWF := h.instWF,
          goalUntracked := h.goalUntracked, goalProv := h.goalProv, pcPos := h.pcPos,
          goalTracked := h.goalTracked }

theorem InvW.of_eq {st st' : St} (h : InvW P st) (h1 : st'.reg = st.reg) (h2 : st'.insts = st.insts)
    (h3 : st'.goalCfg = st.goalCfg) (h4 : st'.peerCount = st.peerCount) (h5 : st'.epoch = st.epoch) :
    InvW P st' := by
  obtain ⟨cfg, actual, pc, reg, gc, insts, caches, fed, epoch⟩ := st
  obtain ⟨cfg', actual', pc', reg', gc', insts', caches', fed', epoch'⟩ := st'
  simp only at h1 h2 h3 h4 h5
  subst h1 h2 h3 h4 h5
  exact { regNodup := h.regNodup, idsNodup := h.idsNodup, regWF := h.regWF, instWF := h.instWF,
          goalUntracked := h.goalUntracked, goalProv := h.goalProv, pcPos := h.pcPos }

theorem SlotOK.of_eq {st st' : St} {env : Str} {ep : Nat} {s : Slot} (h : SlotOK P st env ep s)
    (h2 : st'.insts = st.insts) : SlotOK P st' env ep s := by
  unfold SlotOK at *; rw [h2]; exact h

theorem SlotTracked.of_eq {st st' : St} {s : Slot} (h : SlotTracked st s)
    (h2 : st'.goalCfg = st.goalCfg) : SlotTracked st' s := by
  unfold SlotTracked at *; rw [h2]; exact h

theorem SlotCurrent.of_eq {st st' : St} {s : Slot} (h : SlotCurrent st s)
    (h2 : st'.reg = st.reg) : SlotCurrent st' s := by
  unfold SlotCurrent at *; rw [h2]; exact h

end

theorem inv_init (c0 : Config) (a0 : Option Nat) (cfgs : List Config) (E : Str → Prop) :
    Inv (c0 :: cfgs) E (init c0 a0) := by
  refine ⟨?_, ?_, by simp [init], ?_, fun key ent hm => by simp [init] at hm⟩
  · refine { regNodup := AList.nodup_nil, idsNodup := by simp [init], regWF := ?_, instWF := ?_,
             goalUntracked := ?_, goalProv := ?_, pcPos := refreshCount_pos (Nat.le_refl 1),
             goalTracked := ?_ }
    · intro k id hm; simp [init] at hm
    · intro id i hi; simp [init] at hi
    · intro k id i hm; simp [init] at hm
    · intro k c hk; simp [init] at hk
    · intro k id i c hm; simp [init] at hm
  · constructor
    · intro key ent hm; simp [init] at hm
    · intro key ent hm; simp [init] at hm
  · intro _ key ent hm; simp [init] at hm

/-- registry-only operations (`peers`, `peersFail`): some fields replaced, then `updatePeerCounts` -/
theorem inv_updatePeers {all : List Config} {E : Str → Prop} {st st0 : St} (h : Inv all E st)
    (h1 : st0.reg = st.reg) (h2 : st0.insts = st.insts) (h3 : st0.goalCfg = st.goalCfg)
    (h4 : st0.peerCount = st.peerCount) (h5 : st0.epoch = st.epoch) (h6 : st0.caches = st.caches)
    (h7 : st0.cfg = st.cfg) : Inv all E (updatePeers st0) := by
  have e0 : Ext st st0 := ⟨h6, h5, h7, fun id i hi => ⟨i, by rw [h2]; exact hi, rfl⟩, fun k hk => by rw [h3]; exact hk⟩
  have e := e0.trans (updatePeers_ext st0)
  have m : RegMono st (updatePeers st0) := fun k id hk => by
    show AList.get st0.reg k = some id
    rw [h1]; exact hk
  exact ⟨updatePeers_R (h.r.toInvW.of_eq h1 h2 h3 h4 h5), h.c.ext e, by rw [e.cfg]; exact h.cfg,
    fun hF => (h.f hF).ext e m, fun key ent hm => h.keys key ent (by rw [← h6]; exact hm)⟩

theorem inv_stepGet {all : List Config} {E : Str → Prop} {st : St} (h : Inv all E st) (w : Nat) (env : Str)
    (hE : E env) : Inv all E (stepGet st w env) := by
  simp only [stepGet]
  cases hc : AList.get st.caches (w, env) with
  | some _ => exact h
  | none =>
    simp only
    cases hg : getSampler st env with
    | none => exact h
    | some r =>
      obtain ⟨st1, slots⟩ := r
      simp only
      have hP : ∀ pd ∈ slotsOf st.cfg env, InPlay all E pd :=
        fun pd hpd => ⟨st.cfg, h.cfg, env, hE, hpd⟩
      have m := getSampler_out h.r hP hg
      have hc1 := h.c.ext m.ext
      refine ⟨m.inv.of_eq rfl rfl rfl rfl rfl, ?_, by show st1.cfg ∈ all; rw [m.ext.cfg]; exact h.cfg, ?_, ?_⟩
      rotate_right
      · intro key ent hm
        rcases mem_put hm with e | ⟨hm', _⟩
        · obtain ⟨rfl, rfl⟩ := Prod.mk.inj e
          exact hE
        · exact h.keys key ent (by rw [← m.ext.caches]; exact hm')
      · constructor
        · intro key ent hm
          rcases mem_put hm with e | ⟨hm', _⟩
          · obtain ⟨rfl, rfl⟩ := Prod.mk.inj e
            refine ⟨Nat.le_refl _, fun s hs => ?_⟩
            have := m.ok s hs
            rw [← m.ext.epoch] at this
            exact this.of_eq rfl
          · obtain ⟨a, b⟩ := hc1.slotWF key ent hm'
            exact ⟨a, fun s hs => (b s hs).of_eq rfl⟩
        · intro key ent hm hep s hs
          rcases mem_put hm with e | ⟨hm', _⟩
          · obtain ⟨rfl, rfl⟩ := Prod.mk.inj e
            exact (m.tracked s hs).of_eq rfl
          · exact (hc1.tracked key ent hm' hep s hs).of_eq rfl
      · intro hF key ent hm hep s hs
        rcases mem_put hm with e | ⟨hm', _⟩
        · obtain ⟨rfl, rfl⟩ := Prod.mk.inj e
          exact (m.cur hF s hs).of_eq rfl
        · exact (((h.f hF).ext m.ext (m.mono hF)) key ent hm' hep s hs).of_eq rfl

/-- the event counters are no part of the invariants -/
theorem Inv.of_fed {all : List Config} {E : Str → Prop} {st : St} (h : Inv all E st) (f : AList Nat Nat) :
    Inv all E { st with fed := f } := by
  refine ⟨h.r.of_eq rfl rfl rfl rfl rfl, ?_, h.cfg, ?_, h.keys⟩
  · constructor
    · intro key ent hm
      obtain ⟨a, b⟩ := h.c.slotWF key ent hm
      exact ⟨a, fun s hs => (b s hs).of_eq rfl⟩
    · intro key ent hm hep s hs
      exact (h.c.tracked key ent hm hep s hs).of_eq rfl
  · intro hF key ent hm hep s hs
    exact (h.f hF key ent hm hep s hs).of_eq rfl

theorem inv_step {all : List Config} {E : Str → Prop} {cfgs : List Config} (hsub : ∀ c ∈ cfgs, c ∈ all)
    {st : St} (h : Inv all E st) (op : Op) (hop : ∀ e, op.env? = some e → E e) :
    Inv all E (step cfgs st op) := by
  cases op with
  | get w env => exact inv_stepGet h w env (hop env rfl)
  | feed w env n =>
    have h1 := inv_stepGet h w env (hop env rfl)
    simp only [step]
    split
    · exact h1.of_fed _
    · exact h1
  | peers n => exact inv_updatePeers h rfl rfl rfl rfl rfl rfl rfl
  | peersFail => exact inv_updatePeers h rfl rfl rfl rfl rfl rfl rfl
  | peercb => exact inv_updatePeers h rfl rfl rfl rfl rfl rfl rfl
  | peerset n =>
    simp only [step, stepGet]
    refine ⟨h.r.of_eq rfl rfl rfl rfl rfl, ?_, h.cfg, ?_, h.keys⟩
    · constructor
      · intro key ent hm
        obtain ⟨a, b⟩ := h.c.slotWF key ent hm
        exact ⟨a, fun s hs => (b s hs).of_eq rfl⟩
      · intro key ent hm hep s hs
        exact (h.c.tracked key ent hm hep s hs).of_eq rfl
    · intro hF key ent hm hep s hs
      exact (h.f hF key ent hm hep s hs).of_eq rfl
  | peersetFail =>
    simp only [step, stepGet]
    refine ⟨h.r.of_eq rfl rfl rfl rfl rfl, ?_, h.cfg, ?_, h.keys⟩
    · constructor
      · intro key ent hm
        obtain ⟨a, b⟩ := h.c.slotWF key ent hm
        exact ⟨a, fun s hs => (b s hs).of_eq rfl⟩
      · intro key ent hm hep s hs
        exact (h.c.tracked key ent hm hep s hs).of_eq rfl
    · intro hF key ent hm hep s hs
      exact (h.f hF key ent hm hep s hs).of_eq rfl
  | setcfg j =>
    simp only [step, stepGet]
    cases hj : cfgs[j]? with
    | none => exact h
    | some c =>
      simp only
      refine ⟨h.r.of_eq rfl rfl rfl rfl rfl, ?_, hsub c (List.mem_of_getElem? hj), ?_, h.keys⟩
      · constructor
        · intro key ent hm
          obtain ⟨a, b⟩ := h.c.slotWF key ent hm
          exact ⟨a, fun s hs => (b s hs).of_eq rfl⟩
        · intro key ent hm hep s hs
          exact (h.c.tracked key ent hm hep s hs).of_eq rfl
      · intro hF key ent hm hep s hs
        exact (h.f hF key ent hm hep s hs).of_eq rfl
  | clear =>
    simp only [step, stepGet]
    have hle : ∀ key ent, (key, ent) ∈ st.caches → ent.epoch ≤ st.epoch := fun key ent hm => (h.c.slotWF key ent hm).1
    refine ⟨?_, ?_, h.cfg, ?_, h.keys⟩
    · refine { regNodup := AList.nodup_nil, idsNodup := by simp, regWF := ?_, instWF := h.r.instWF,
               goalUntracked := ?_, goalProv := ?_, pcPos := h.r.pcPos, goalTracked := ?_ }
      · intro k id hm; simp at hm
      · intro k id i hm; simp at hm
      · intro k c hk; simp at hk
      · intro k id i c hm; simp at hm
    · constructor
      · intro key ent hm
        obtain ⟨a, b⟩ := h.c.slotWF key ent hm
        exact ⟨Nat.le_succ_of_le a, fun s hs => (b s hs).of_eq rfl⟩
      · intro key ent hm hep
        have := hle key ent hm
        simp only at hep
        omega
    · intro _ key ent hm hep
      have := hle key ent hm
      simp only at hep
      omega
  | wreload w =>
    simp only [step, stepGet]
    refine ⟨h.r.of_eq rfl rfl rfl rfl rfl, ?_, h.cfg, ?_, fun key ent hm => h.keys key ent (mem_keep (p := fun k _ => k.1 != w) hm)⟩
    · constructor
      · intro key ent hm
        have hm' : (key, ent) ∈ AList.keep st.caches (fun k _ => k.1 != w) := hm
        obtain ⟨a, b⟩ := h.c.slotWF key ent (mem_keep hm')
        exact ⟨a, fun s hs => (b s hs).of_eq rfl⟩
      · intro key ent hm hep s hs
        have hm' : (key, ent) ∈ AList.keep st.caches (fun k _ => k.1 != w) := hm
        exact (h.c.tracked key ent (mem_keep hm') hep s hs).of_eq rfl
    · intro hF key ent hm hep s hs
      have hm' : (key, ent) ∈ AList.keep st.caches (fun k _ => k.1 != w) := hm
      exact (h.f hF key ent (mem_keep hm') hep s hs).of_eq rfl

theorem inv_foldl {all : List Config} {E : Str → Prop} {cfgs : List Config} (hsub : ∀ c ∈ cfgs, c ∈ all) :
    ∀ (ops : List Op) (st : St), Inv all E st → OpsIn E ops → Inv all E (ops.foldl (step cfgs) st)
  | [], st, h, _ => h
  | op :: ops, st, h, ho => by
    simp only [List.foldl_cons]
    apply inv_foldl hsub ops _ (inv_step hsub h op (fun e he => ho op (by simp) e he))
    intro op' hm e he
    exact ho op' (List.mem_cons_of_mem _ hm) e he

/-- **the invariants hold after every history** whose sampler keys lie in `E` -/
theorem inv_run (c0 : Config) (a0 : Option Nat) (cfgs : List Config) (E : Str → Prop) (ops : List Op)
    (ho : OpsIn E ops) : Inv (c0 :: cfgs) E (run c0 a0 cfgs ops) :=
  inv_foldl (fun c hc => List.mem_cons_of_mem _ hc) ops _ (inv_init c0 a0 cfgs E) ho

/-- colon-free sampler keys make registry keys faithful (they determine type and rate) -/
theorem faithful_of_colonFree (all : List Config) (E : Str → Prop) (hE : ∀ e, E e → ':' ∉ e) :
    Faithful (InPlay all E) := by
  intro pd1 pd2 h1 h2 hk
  obtain ⟨c1, _, e1, he1, hs1⟩ := h1
  obtain ⟨c2, _, e2, he2, hs2⟩ := h2
  obtain ⟨o1, ho1, hp1⟩ := slotsOf_origin hs1
  obtain ⟨o2, ho2, hp2⟩ := slotsOf_origin hs2
  rw [← hp1, ← hp2] at hk
  have := makeKey_inj (by rw [ho1]; exact hE e1 he1) (by rw [ho2]; exact hE e2 he2) hk
  exact ⟨this.2.1, this.2.2.1⟩

/-! ## several workers asking for the same sampler key (any order of the atomic `get` steps) -/

/-- what a `get` leaves in the caches: what was there, or the sampler just built from the current
configuration, stamped with the current reload count -/
theorem step_get_caches {all : List Config} {E : Str → Prop} {cfgs : List Config} {st : St}
    (h : Inv all E st) (w : Nat) (env : Str) (hE : E env) :
    (step cfgs st (.get w env)).cfg = st.cfg ∧ (step cfgs st (.get w env)).epoch = st.epoch ∧
    ∀ key ent, (key, ent) ∈ (step cfgs st (.get w env)).caches →
      (key, ent) ∈ st.caches ∨ (key = (w, env) ∧ ent.epoch = st.epoch ∧
        ent.slots.map (fun s => (s.pfx, s.d)) = slotsOf st.cfg env) := by
  simp only [step, stepGet]
  cases hc : AList.get st.caches (w, env) with
  | some _ => exact ⟨rfl, rfl, fun key ent hm => Or.inl hm⟩
  | none =>
    simp only
    cases hg : getSampler st env with
    | none => exact ⟨rfl, rfl, fun key ent hm => Or.inl hm⟩
    | some r =>
      obtain ⟨st1, slots⟩ := r
      simp only
      have hP : ∀ pd ∈ slotsOf st.cfg env, InPlay all E pd :=
        fun pd hpd => ⟨st.cfg, h.cfg, env, hE, hpd⟩
      have m := getSampler_out h.r hP hg
      refine ⟨m.ext.cfg, m.ext.epoch, fun key ent hm => ?_⟩
      rcases mem_put hm with e | ⟨hm', _⟩
      · obtain ⟨rfl, rfl⟩ := Prod.mk.inj e
        exact Or.inr ⟨rfl, m.ext.epoch, m.shape⟩
      · left; rw [← m.ext.caches]; exact hm'

theorem foldl_gets_caches {all : List Config} {E : Str → Prop} {cfgs : List Config}
    (hsub : ∀ c ∈ cfgs, c ∈ all) (env : Str) (hE : E env) :
    ∀ (ws : List Nat) (st : St), Inv all E st →
      let st' := (ws.map fun w => Op.get w env).foldl (step cfgs) st
      st'.cfg = st.cfg ∧ st'.epoch = st.epoch ∧
      ∀ key ent, (key, ent) ∈ st'.caches →
        (key, ent) ∈ st.caches ∨ (key.2 = env ∧ ent.epoch = st.epoch ∧
          ent.slots.map (fun s => (s.pfx, s.d)) = slotsOf st.cfg env)
  | [], st, _ => ⟨rfl, rfl, fun key ent hm => Or.inl hm⟩
  | w :: ws, st, h => by
    obtain ⟨c1, e1, m1⟩ := step_get_caches (cfgs := cfgs) h w env hE
    have h1 := inv_step hsub h (.get w env) (fun e' he => by cases he; exact hE)
    obtain ⟨c2, e2, m2⟩ := foldl_gets_caches hsub env hE ws _ h1
    simp only [List.map_cons, List.foldl_cons]
    refine ⟨c2.trans c1, e2.trans e1, fun key ent hm => ?_⟩
    rcases m2 key ent hm with hm' | ⟨a, b, c⟩
    · rcases m1 key ent hm' with hm'' | ⟨a, b, c⟩
      · exact Or.inl hm''
      · right; rw [a]; exact ⟨rfl, b, c⟩
    · right; exact ⟨a, b.trans e1, by rw [c, c1]⟩

/-- after the workers `ws` have handled their reload signals none of them has a cached sampler -/
theorem foldl_wreload_caches (cfgs : List Config) : ∀ (ws : List Nat) (st : St) key ent,
    (key, ent) ∈ ((ws.map fun w => Op.wreload w).foldl (step cfgs) st).caches →
      (key, ent) ∈ st.caches ∧ key.1 ∉ ws
  | [], st, key, ent, hm => ⟨hm, by simp⟩
  | w :: ws, st, key, ent, hm => by
    simp only [List.map_cons, List.foldl_cons] at hm
    obtain ⟨h1, h2⟩ := foldl_wreload_caches cfgs ws _ key ent hm
    have h1' : (key, ent) ∈ AList.keep st.caches (fun k _ => k.1 != w) := h1
    unfold AList.keep at h1'
    obtain ⟨a, b⟩ := List.mem_filter.mp h1'
    refine ⟨a, ?_⟩
    simp only [List.mem_cons, not_or]
    exact ⟨by simpa using b, h2⟩

end Refinery.Lemmas.SamplerRegistry
