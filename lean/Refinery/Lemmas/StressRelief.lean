import Refinery.Model.StressRelief
/-!
# Lemmas for the stress-relief model (C15): integer square root, the induction principle that lifts
step facts to every recalculation of every history, the mode machine, and the invariants.
-/
namespace Refinery.Lemmas.StressRelief
open Refinery Refinery.Model.StressRelief

theorem isqrtF_spec : ∀ f n, n ≤ f →
    isqrtF f n * isqrtF f n ≤ n ∧ n < (isqrtF f n + 1) * (isqrtF f n + 1) := by
  intro f
  induction f with
  | zero =>
    intro n h
    have : n = 0 := by omega
    subst this; simp [isqrtF]
  | succ f ih =>
    intro n h
    unfold isqrtF
    by_cases h2 : n < 2
    · rw [if_pos h2]
      have : n = 0 ∨ n = 1 := by omega
      rcases this with rfl | rfl <;> simp
    · rw [if_neg h2]
      have ihq := ih (n / 4) (by omega)
      generalize isqrtF f (n / 4) = q at ihq
      simp only []
      have e1 : (2*q+1)*(2*q+1) = 4*(q*q) + 4*q + 1 := by grind
      have e2 : (2*q+1+1)*(2*q+1+1) = 4*(q*q) + 8*q + 4 := by grind
      have e3 : (2*q)*(2*q) = 4*(q*q) := by grind
      have e4 : (q+1)*(q+1) = q*q + 2*q + 1 := by grind
      rw [e4] at ihq
      generalize q * q = a at *
      split <;> omega

/-- `isqrt n` is the floor of the square root. -/
theorem isqrt_spec (n : Nat) : isqrt n * isqrt n ≤ n ∧ n < (isqrt n + 1) * (isqrt n + 1) :=
  isqrtF_spec n n (Nat.le_refl n)

theorem sum_sq_le (B : Nat) (l : List Nat) (h : ∀ x ∈ l, x ≤ B) :
    (l.map (fun x => x * x)).sum ≤ l.length * (B * B) := by
  induction l with
  | nil => simp
  | cons x t ih =>
    have hx : x ≤ B := h x List.mem_cons_self
    have ht := ih (fun y hy => h y (List.mem_cons_of_mem _ hy))
    have : x * x ≤ B * B := Nat.mul_le_mul hx hx
    simp only [List.map_cons, List.sum_cons, List.length_cons, Nat.add_mul, Nat.one_mul]
    omega

theorem rms_le (B : Nat) (ls : List Nat) (h : ∀ x ∈ ls, x ≤ B) : rms ls ≤ B := by
  unfold rms
  dsimp only
  have hnz : ∀ x ∈ ls.filter (· ≠ 0), x ≤ B := fun x hx => h x (List.mem_filter.mp hx).1
  have hs := sum_sq_le B _ hnz
  generalize ((ls.filter (· ≠ 0)).map (fun l => l * l)).sum = S at hs
  generalize (ls.filter (· ≠ 0)).length = n at hs
  have hq : S / (if n = 0 then 1 else n) ≤ B * B := by
    by_cases hn : n = 0
    · subst hn; simp at hs; simp [hs]
    · rw [if_neg hn]; exact Nat.div_le_of_le_mul hs
  have sp := (isqrt_spec (S / (if n = 0 then 1 else n))).1
  exact Nat.mul_self_le_mul_self_iff.mp (Nat.le_trans sp hq)

/-- `P e pre` holds of every recalculation `e` in `evs` (most recent first), `pre` = the earlier ones -/
def AllEv (P : Ev → List Ev → Prop) (evs : List Ev) : Prop :=
  ∀ post e pre, evs = post ++ e :: pre → P e pre

theorem allEv_nil (P : Ev → List Ev → Prop) : AllEv P [] := by
  intro post e pre h; simp at h

theorem allEv_cons {P : Ev → List Ev → Prop} {e : Ev} {evs : List Ev}
    (h : P e evs) (ht : AllEv P evs) : AllEv P (e :: evs) := by
  intro post e' pre heq
  cases post with
  | nil => simp at heq; obtain ⟨rfl, rfl⟩ := heq; exact h
  | cons x post' =>
    simp at heq
    exact ht post' e' pre heq.2

/-- Induction principle: an invariant `Inv` of (state, recalculations so far) that holds initially
and is preserved by every operation satisfying `Hop`, and a step fact `P` that follows from it,
give `Inv` in every reachable state and `P` of every recalculation of every history. -/
theorem events_all (timeout : Int) (fx : Bool) (Inv : St → List Ev → Prop) (Hop : Op → Prop)
    (P : Ev → List Ev → Prop)
    (h0 : Inv (init timeout fx) [])
    (hinv : ∀ s evs o, Hop o → Inv s evs → Inv (stepE (s, evs) o).1 (stepE (s, evs) o).2)
    (hP : ∀ s evs o e, Hop o → Inv s evs → (step s o).2 = some e → P e evs)
    (ops : List Op) (hops : ∀ o ∈ ops, Hop o) :
    Inv (run timeout ops fx) (trace timeout ops fx) ∧ AllEv P (trace timeout ops fx) := by
  unfold run trace runE
  suffices ∀ (ops : List Op) (p : St × List Ev), (∀ o ∈ ops, Hop o) → Inv p.1 p.2 → AllEv P p.2 →
      Inv (ops.foldl stepE p).1 (ops.foldl stepE p).2 ∧ AllEv P (ops.foldl stepE p).2 from
    this ops _ hops h0 (allEv_nil P)
  intro ops
  induction ops with
  | nil => intro p _ hi ha; exact ⟨hi, ha⟩
  | cons o os ih =>
    intro p hops hi ha
    obtain ⟨s, evs⟩ := p
    have ho : Hop o := hops o List.mem_cons_self
    refine ih _ (fun o' ho' => hops o' (List.mem_cons_of_mem _ ho')) (hinv s evs o ho hi) ?_
    simp only [stepE]
    cases hs : (step s o).2 with
    | none => exact ha
    | some e => exact allEv_cons (hP s evs o e ho hi hs) ha

theorem step_ev {s : St} {o : Op} {e : Ev} (h : (step s o).2 = some e) :
    ∃ loc, o = .recalc loc ∧ e = (recalc s loc).2 := by
  cases o with
  | recalc loc => simp [step] at h; exact ⟨loc, rfl, h.symm⟩
  | _ => simp [step] at h

theorem machine_never (c : Cfg) (now : Int) (st : Bool) (hold : Option Int) (lvl : Nat)
    (h : c.mode = .never) : (machine c now st hold lvl).1 = false := by simp [machine, h]

theorem machine_always (c : Cfg) (now : Int) (st : Bool) (hold : Option Int) (lvl : Nat)
    (h : c.mode = .always) : (machine c now st hold lvl).1 = true := by simp [machine, h]

theorem machine_on (c : Cfg) (now : Int) (st : Bool) (hold : Option Int) (lvl : Nat)
    (h : c.mode = .monitor) (hord : c.deact ≤ c.act) (hl : c.act ≤ lvl) :
    (machine c now st hold lvl).1 = true := by
  have h1 : ¬ lvl < c.deact := by omega
  simp [machine, h, hl, h1]

/-- relief that was on goes off exactly when the level is below deactivation and the hold is over -/
theorem machine_off_iff (c : Cfg) (now : Int) (hold : Option Int) (lvl : Nat)
    (h : c.mode = .monitor) :
    (machine c now true hold lvl).1 = false ↔ (lvl < c.deact ∧ after now hold = true) := by
  by_cases h2 : c.deact ≤ lvl
  · have h3 : ¬ lvl < c.deact := by omega
    simp [machine, h, h2, h3]
  · have h3 : lvl < c.deact := by omega
    simp [machine, h, h2, h3]

/-- `stayOnUntil` moves exactly at monitor-mode recalculations that leave relief on with the level
at or above the deactivation level -/
theorem machine_hold (c : Cfg) (now : Int) (st : Bool) (hold : Option Int) (lvl : Nat) :
    (machine c now st hold lvl).2 =
      if (decide (c.mode = .monitor) && (machine c now st hold lvl).1 && decide (c.deact ≤ lvl)) = true
      then some (now + c.minDur) else hold := by
  cases hm : c.mode with
  | never => simp [machine, hm]
  | always => simp [machine, hm]
  | monitor =>
    by_cases h2 : c.deact ≤ lvl
    · have h3 : ¬ lvl < c.deact := by omega
      by_cases h1 : c.act ≤ lvl <;> cases st <;> simp [machine, hm, h1, h2, h3]
    · simp [machine, hm, h2]

theorem machine_stays_needs (c : Cfg) (now : Int) (st : Bool) (hold : Option Int) (lvl : Nat)
    (h : c.mode = .monitor) (hord : c.deact ≤ c.act) (hl : lvl < c.deact)
    (hon : (machine c now st hold lvl).1 = true) : st = true := by
  have h1 : ¬ c.act ≤ lvl := by omega
  cases st with
  | true => rfl
  | false => simp [machine, h, h1] at hon

theorem any_eq_on (c : Cfg) (now : Int) (st : Bool) (hold : Option Int) (lvl : Nat)
    (hna : c.mode ≠ .always) (hmo : c.mode = .monitor → c.deact ≤ c.act)
    (hon : (machine c now st hold lvl).1 = true) :
    decide (c.deact ≤ lvl) =
      (decide (c.mode = .monitor) && (machine c now st hold lvl).1 && decide (c.deact ≤ lvl)) ∧
    (¬ c.deact ≤ lvl → st = true) := by
  cases hm : c.mode with
  | always => exact absurd hm hna
  | never => rw [machine_never _ _ _ _ _ hm] at hon; cases hon
  | monitor =>
    refine ⟨by simp [hon], fun h2 => ?_⟩
    exact machine_stays_needs _ _ _ _ _ hm (hmo hm) (by omega) hon

theorem after_hold (now : Int) (g : Option (Int × Int)) :
    after now (g.map (fun p => p.1 + p.2)) = holdOver now g := by
  cases g with
  | none => rfl
  | some p => obtain ⟨t, d⟩ := p; rfl

/-- simulation between the code's report map (expired entries deleted at recalculations) and the
history-indexed view (nothing ever deleted) -/
def InvS (timeout : Int) (s : St) (sp : Spec) : Prop :=
  s.timeout = timeout ∧ s.now = sp.now ∧ sp.lastRecalc ≤ sp.now ∧
  s.reports = AList.keep sp.last (fresh timeout sp.lastRecalc)

theorem keep_put (l : Reports) (k : Nat) (v : Nat × Int) (p : Nat → Nat × Int → Bool) (h : p k v = true) :
    AList.keep (AList.put l k v) p = AList.put (AList.keep l p) k v := by
  unfold AList.keep AList.put AList.del
  simp only [List.filter_cons, h, if_true, List.filter_filter]
  congr 1
  apply List.filter_congr
  intro x _
  exact Bool.and_comm _ _

theorem keep_keep_fresh (timeout a b : Int) (hab : a ≤ b) (l : Reports) :
    AList.keep (AList.keep l (fresh timeout a)) (fresh timeout b) = AList.keep l (fresh timeout b) := by
  unfold AList.keep
  rw [List.filter_filter]
  apply List.filter_congr
  intro x _
  simp only [fresh]
  by_cases h : b - x.2.2 > timeout
  · simp [h]
  · have : ¬ a - x.2.2 > timeout := by omega
    simp [h, this]

theorem invS_step {timeout : Int} (ht : 0 ≤ timeout) {s : St} {sp : Spec} (h : InvS timeout s sp)
    (o : Op) : InvS timeout (step s o).1 (sp.step o) := by
  obtain ⟨h1, h2, h3, h4⟩ := h
  cases o with
  | adv d => exact ⟨h1, by simp [step, Spec.step, h2], by simp [Spec.step]; omega, by simpa [step, Spec.step] using h4⟩
  | peer id l =>
    refine ⟨h1, h2, h3, ?_⟩
    simp only [step, Spec.step]
    rw [keep_put _ _ _ _ (by simp [fresh]; omega), h4, h2]
  | junk => exact ⟨h1, h2, h3, h4⟩
  | reload c => exact ⟨h1, h2, h3, h4⟩
  | recalc loc =>
    refine ⟨h1, h2, by simp [Spec.step], ?_⟩
    simp only [step, recalc, Spec.step]
    rw [h4, h1, h2, ← keep_put _ _ _ _ (by simp [fresh]; omega), keep_keep_fresh _ _ _ h3]

theorem invS_run {timeout : Int} (ht : 0 ≤ timeout) (ops : List Op) (fx : Bool) :
    InvS timeout (run timeout ops fx) (Spec.run ops) := by
  have key : ∀ (ops : List Op) (p : St × List Ev) (sp : Spec), InvS timeout p.1 sp →
      InvS timeout (ops.foldl stepE p).1 (ops.foldl Spec.step sp) := by
    intro ops
    induction ops with
    | nil => intro p sp h; exact h
    | cons o os ih => intro p sp h; exact ih _ _ (by simpa [stepE] using invS_step ht h o)
  exact key ops _ _ ⟨rfl, rfl, Int.le_refl _, rfl⟩

theorem mem_put {l : Reports} {k : Nat} {v x : Nat × Int} {k' : Nat}
    (h : (k', x) ∈ AList.put l k v) : x = v ∨ (k', x) ∈ l := by
  unfold AList.put AList.del at h
  rcases List.mem_cons.mp h with h | h
  · left; cases h; rfl
  · right; exact (List.mem_filter.mp h).1

/-- `stayOnUntil` is the instant + minimum duration of the last monitor-mode recalculation that
left relief on with the level at or above the deactivation level (both as in force then). -/
def InvH (s : St) (evs : List Ev) : Prop :=
  s.stayOnUntil = (lastWhere aboveOn evs).map (fun p => p.1 + p.2)

theorem hold_ite (b : Bool) (x y : Int) (h : Option Int) (g : Option (Int × Int))
    (hg : h = g.map (fun p => p.1 + p.2)) :
    (if b = true then some (x + y) else h) =
      (if b = true then some (x, y) else g).map (fun p => p.1 + p.2) := by
  cases b <;> simp [hg]

theorem invH_step (s : St) (evs : List Ev) (o : Op) (hi : InvH s evs) :
    InvH (stepE (s, evs) o).1 (stepE (s, evs) o).2 := by
  cases o with
  | recalc loc =>
    simp only [stepE, step, InvH, recalc, lastWhere, aboveOn]
    rw [machine_hold]
    exact hold_ite _ _ _ _ _ hi
  | _ => simpa [stepE, step, InvH] using hi

/-- what `off_only_if_any_level` needs of every recalculation up to the one in question -/
def Ordered (e : Ev) : Prop :=
  e.cfg.mode ≠ .always ∧ (e.cfg.mode = .monitor → e.cfg.deact ≤ e.cfg.act)

def InvA (s : St) (evs : List Ev) : Prop :=
  InvH s evs ∧
  ((∀ e ∈ evs, Ordered e) → s.stressed = true → lastWhere aboveAny evs = lastWhere aboveOn evs)

theorem invA_step (s : St) (evs : List Ev) (o : Op) (hi : InvA s evs) :
    InvA (stepE (s, evs) o).1 (stepE (s, evs) o).2 := by
  refine ⟨invH_step s evs o hi.1, ?_⟩
  cases o with
  | recalc loc =>
    simp only [stepE, step]
    intro hall hon
    have hord := hall _ List.mem_cons_self
    have hpre : ∀ e ∈ evs, Ordered e := fun e he => hall e (List.mem_cons_of_mem _ he)
    obtain ⟨hna, hmo⟩ := hord
    have hcfg : ((recalc s loc).2).cfg = s.cfg := rfl
    have hnow : ((recalc s loc).2).now = s.now := rfl
    have haft : ((recalc s loc).2).after =
        (machine s.cfg s.now s.stressed s.stayOnUntil ((recalc s loc).2).level).1 := rfl
    have hon' : (machine s.cfg s.now s.stressed s.stayOnUntil ((recalc s loc).2).level).1 = true := hon
    rw [hcfg] at hna hmo
    obtain ⟨k1, k2⟩ := any_eq_on s.cfg s.now s.stressed s.stayOnUntil _ hna hmo hon'
    simp only [lastWhere, aboveAny, aboveOn, hcfg, hnow, haft]
    rw [← k1]
    by_cases h2 : s.cfg.deact ≤ ((recalc s loc).2).level
    · simp [h2]
    · simp only [h2, decide_false, if_false, Bool.false_eq_true]
      exact hi.2 hpre (k2 h2)
  | adv d => simpa [stepE, step] using hi.2
  | peer id l => simpa [stepE, step] using hi.2
  | junk => simpa [stepE, step] using hi.2
  | reload c => simpa [stepE, step] using hi.2

/-- in the repaired variant the thresholds in force are always ordered -/
def InvF (s : St) (_ : List Ev) : Prop := s.fixed = true ∧ s.cfg.deact ≤ s.cfg.act

theorem clampCfg_ordered (c : Cfg) : (clampCfg c).deact ≤ (clampCfg c).act := by
  unfold clampCfg
  split
  · exact Nat.le_refl _
  · omega

theorem clampCfg_act (c : Cfg) : (clampCfg c).act = c.act ∧ (clampCfg c).mode = c.mode ∧
    (clampCfg c).minDur = c.minDur ∧ (clampCfg c).deact = min c.deact c.act := by
  unfold clampCfg
  split
  · refine ⟨rfl, rfl, rfl, ?_⟩; simp; omega
  · refine ⟨rfl, rfl, rfl, ?_⟩; omega

theorem invF_step (s : St) (evs : List Ev) (o : Op) (hi : InvF s evs) :
    InvF (stepE (s, evs) o).1 (stepE (s, evs) o).2 := by
  obtain ⟨hf, ho⟩ := hi
  cases o with
  | reload c =>
    simp only [stepE, step, InvF, hf, if_true]
    exact ⟨trivial, clampCfg_ordered c⟩
  | recalc loc => exact ⟨hf, ho⟩
  | adv d => exact ⟨hf, ho⟩
  | peer id l => exact ⟨hf, ho⟩
  | junk => exact ⟨hf, ho⟩

end Refinery.Lemmas.StressRelief
