import Refinery.Lemmas.Collector
/-!
# Consequences of the collector invariant used by C01, C02 and C05
(stated for any state satisfying `Inv`; the property files instantiate them with `inv_run`).
-/
namespace Refinery.Lemmas.Collector
open Refinery.Model.Collector

theorem id_lt {s : St} (h : Inv s) {sp : SpanRec} (hsp : sp ∈ s.accepted) : sp.id < s.nextId := by
  have : sp.id ∈ ids s.accepted := List.mem_map.mpr ⟨sp, hsp, rfl⟩
  rw [h.accIds] at this
  exact List.mem_range.mp this

theorem inj_of_nodup_map {α β : Type} (f : α → β) :
    ∀ {l : List α}, (l.map f).Nodup → ∀ {a b}, a ∈ l → b ∈ l → f a = f b → a = b
  | [], _, _, _, ha, _, _ => by simp at ha
  | x :: l, hn, a, b, ha, hb, hab => by
    rw [List.map_cons, List.nodup_cons] at hn
    rcases List.mem_cons.mp ha with ha | ha <;> rcases List.mem_cons.mp hb with hb | hb
    · rw [ha, hb]
    · have : f x ∈ l.map f := List.mem_map.mpr ⟨b, hb, by rw [← hab, ha]⟩
      exact absurd this hn.1
    · have : f x ∈ l.map f := List.mem_map.mpr ⟨a, ha, by rw [hab, hb]⟩
      exact absurd this hn.1
    · exact inj_of_nodup_map f hn.2 ha hb hab

/-- accepted spans have pairwise different ids -/
theorem uniq_id {s : St} (h : Inv s) {a b : SpanRec} (ha : a ∈ s.accepted) (hb : b ∈ s.accepted)
    (hab : a.id = b.id) : a = b := by
  have hn : (s.accepted.map (·.id)).Nodup := by
    have := h.accIds; unfold ids at this; rw [this]; exact List.nodup_range
  exact inj_of_nodup_map (·.id) hn ha hb hab

theorem filter_le_one {α : Type} (p : α → Bool) :
    ∀ {l : List α}, (l.filter p).length ≤ 1 → ∀ {a b}, a ∈ l → p a = true → b ∈ l → p b = true → a = b := by
  intro l hl a b ha hpa hb hpb
  have ha' : a ∈ l.filter p := List.mem_filter.mpr ⟨ha, hpa⟩
  have hb' : b ∈ l.filter p := List.mem_filter.mpr ⟨hb, hpb⟩
  match hf : l.filter p, hl, ha', hb' with
  | [], _, ha', _ => simp at ha'
  | [x], _, ha', hb' => simp at ha' hb'; rw [ha', hb']
  | _ :: _ :: _, hl, _, _ => simp at hl

/-- a remembered trace has one decision: any two decisions of it coincide -/
theorem decision_unique {s : St} (h : Inv s) {t : Nat} (hm : t ∉ s.missed) (hx : t ∉ s.mixed) {d d' : DecRec}
    (hd : d ∈ s.decisions) (hdt : d.trace = t) (hd' : d' ∈ s.decisions) (hdt' : d'.trace = t) : d = d' :=
  filter_le_one (fun d => d.trace == t) (h.once t hm hx) hd (by simpa using hdt) hd' (by simpa using hdt')

theorem mem_ids {l : List SpanRec} {i : Nat} (h : i ∈ ids l) : ∃ sp ∈ l, sp.id = i := by
  simpa [ids] using h

theorem mem_sendIds {l : List Sendable} {i : Nat} (h : i ∈ sendIds l) : ∃ sd ∈ l, ∃ sp ∈ sd.spans, sp.id = i := by
  simp only [sendIds, List.mem_flatMap] at h
  obtain ⟨sd, hsd, hi⟩ := h
  obtain ⟨sp, hsp, rfl⟩ := mem_ids hi
  exact ⟨sd, hsd, sp, hsp, rfl⟩


/-- no accepted span of a trace whose every decision was "drop" is forwarded, if DryRun was never on -/
theorem dropped_never_of_inv {s : St} (h : Inv s) (t : Nat) (hnodry : s.everDry = false)
    (hdrop : ∀ d ∈ s.decisions, d.trace = t → d.keep = false) :
    ∀ sp ∈ s.accepted, sp.trace = t → timesForwarded s sp.id = 0 := by
  intro sp hsp ht
  unfold timesForwarded
  rw [List.count_eq_zero]
  intro hmem
  obtain ⟨f, hf, hfs⟩ := List.mem_map.mp hmem
  obtain ⟨sp', hsp', hid, htr, _⟩ := h.outAcc f hf
  have hsame : sp' = sp := uniq_id h hsp' hsp (hid.trans hfs)
  have hfd := (h.noDry hnodry).2.2 f hf
  obtain ⟨d, hd, hdt, hor⟩ := (h.outWet f hf hfd).2
  have hdd := (h.noDry hnodry).2.1 d hd
  have hdk := hdrop d hd (by rw [hdt, ← htr, hsame, ht])
  rcases hor with h1 | h1
  · rw [hdk] at h1; cases h1
  · rw [hdd] at h1; cases h1

/-- every accepted span of a kept, remembered trace that is out of `tracesToSend` was forwarded once -/
theorem kept_all_of_inv {s : St} (h : Inv s) (t : Nat) (hrem : Remembered s t) (hsc : StressConstant s t)
    (hkept : ∃ d ∈ s.decisions, d.trace = t ∧ d.keep = true)
    (hdrained : ∀ sd ∈ s.toSend, sd.trace ≠ t) :
    ∀ sp ∈ s.accepted, sp.trace = t → timesForwarded s sp.id = 1 := by
  intro sp hsp ht
  obtain ⟨d, hd, hdt, hdk⟩ := hkept
  have hc := h.cons sp.id
  rw [if_pos (id_lt h hsp)] at hc
  have hbuf : (ids s.buf).count sp.id = 0 := by
    rw [List.count_eq_zero]
    intro hm
    obtain ⟨sp', hsp', hid⟩ := mem_ids hm
    have : sp' = sp := uniq_id h (h.bufAcc sp' hsp') hsp hid
    subst this
    rcases ht ▸ h.bufMissed sp' hsp' ⟨d, hd, hdt.trans ht.symm⟩ with h1 | h1
    · exact hrem.1 h1
    · exact hsc h1
  have hsend : (sendIds s.toSend).count sp.id = 0 := by
    rw [List.count_eq_zero]
    intro hm
    obtain ⟨sd, hsd, sp', hsp', hid⟩ := mem_sendIds hm
    obtain ⟨ha, htr⟩ := h.sendAcc sd hsd sp' hsp'
    have : sp' = sp := uniq_id h ha hsp hid
    subst this
    exact hdrained sd hsd (htr.symm.trans ht)
  have hdisc : (ids s.discarded).count sp.id = 0 := by
    rw [List.count_eq_zero]
    intro hm
    obtain ⟨sp', hsp', hid⟩ := mem_ids hm
    have : sp' = sp := uniq_id h (h.discAcc sp' hsp') hsp hid
    subst this
    rcases h.discDec sp' hsp' with ⟨d', hd', hdt', hdk'⟩ | hfp
    · have := decision_unique h hrem.1 hsc hd hdt hd' (hdt'.trans ht)
      subst this
      rw [hdk] at hdk'; cases hdk'
    · exact hrem.2 (ht ▸ hfp)
  have hsdrop : (ids s.stressDropped).count sp.id = 0 := by
    rw [List.count_eq_zero]
    intro hm
    obtain ⟨sp', hsp', hid⟩ := mem_ids hm
    have : sp' = sp := uniq_id h (h.sdropAcc sp' hsp') hsp hid
    subst this
    rcases h.sdropDec sp' hsp' with ⟨d', hd', hdt', hdk'⟩ | hfp
    · have := decision_unique h hrem.1 hsc hd hdt hd' (hdt'.trans ht)
      subst this
      rw [hdk] at hdk'; cases hdk'
    · exact hrem.2 (ht ▸ hfp)
  unfold timesForwarded
  omega

end Refinery.Lemmas.Collector
