import Refinery.Model.Reload
/-!
Invariants of the overlapping-trigger machine of `Model/Reload.lean` (property C27).
Part 1: projections of the step helpers.  Part 2: the notification invariant (every lock shape).
Part 3: the serial (repaired) shape: mutual exclusion, version order, no lost update.
-/
set_option linter.unusedSimpArgs false
namespace Refinery.Lemmas.Reload
open Refinery.Model.Reload

/-! ## Part 1: what each helper touches -/

@[simp] theorem setThr_thr (s : CSt) (t : Nat) (th : Thr) (u : Nat) :
    (setThr s t th).thr u = if u = t then th else s.thr u := rfl
@[simp] theorem setThr_n (s : CSt) (t : Nat) (th : Thr) : (setThr s t th).n = s.n := rfl
@[simp] theorem setThr_L (s : CSt) (t : Nat) (th : Thr) : (setThr s t th).L = s.L := rfl
@[simp] theorem setThr_file (s : CSt) (t : Nat) (th : Thr) : (setThr s t th).file = s.file := rfl
@[simp] theorem setThr_applied (s : CSt) (t : Nat) (th : Thr) : (setThr s t th).applied = s.applied := rfl
@[simp] theorem setThr_ver (s : CSt) (t : Nat) (th : Thr) : (setThr s t th).ver = s.ver := rfl
@[simp] theorem setThr_apv (s : CSt) (t : Nat) (th : Thr) : (setThr s t th).apv = s.apv := rfl
@[simp] theorem setThr_aplog (s : CSt) (t : Nat) (th : Thr) : (setThr s t th).aplog = s.aplog := rfl
@[simp] theorem setThr_apvers (s : CSt) (t : Nat) (th : Thr) : (setThr s t th).apvers = s.apvers := rfl
@[simp] theorem setThr_notes (s : CSt) (t : Nat) (th : Thr) : (setThr s t th).notes = s.notes := rfl
@[simp] theorem setThr_holder (s : CSt) (t : Nat) (th : Thr) : (setThr s t th).holder = s.holder := rfl

@[simp] theorem finish_thr (lk : Lock) (s : CSt) (t u : Nat) :
    (finish lk s t).thr u = if u = t then { s.thr t with pc := .done } else s.thr u := by
  unfold finish; split <;> rfl
@[simp] theorem finish_n (lk : Lock) (s : CSt) (t : Nat) : (finish lk s t).n = s.n := by
  unfold finish; split <;> rfl
@[simp] theorem finish_L (lk : Lock) (s : CSt) (t : Nat) : (finish lk s t).L = s.L := by
  unfold finish; split <;> rfl
@[simp] theorem finish_file (lk : Lock) (s : CSt) (t : Nat) : (finish lk s t).file = s.file := by
  unfold finish; split <;> rfl
@[simp] theorem finish_applied (lk : Lock) (s : CSt) (t : Nat) : (finish lk s t).applied = s.applied := by
  unfold finish; split <;> rfl
@[simp] theorem finish_ver (lk : Lock) (s : CSt) (t : Nat) : (finish lk s t).ver = s.ver := by
  unfold finish; split <;> rfl
@[simp] theorem finish_apv (lk : Lock) (s : CSt) (t : Nat) : (finish lk s t).apv = s.apv := by
  unfold finish; split <;> rfl
@[simp] theorem finish_aplog (lk : Lock) (s : CSt) (t : Nat) : (finish lk s t).aplog = s.aplog := by
  unfold finish; split <;> rfl
@[simp] theorem finish_apvers (lk : Lock) (s : CSt) (t : Nat) : (finish lk s t).apvers = s.apvers := by
  unfold finish; split <;> rfl
@[simp] theorem finish_notes (lk : Lock) (s : CSt) (t : Nat) : (finish lk s t).notes = s.notes := by
  unfold finish; split <;> rfl
theorem finish_holder (lk : Lock) (s : CSt) (t : Nat) :
    (finish lk s t).holder = if lk = .serial then none else s.holder := by
  unfold finish; split <;> rfl

@[simp] theorem doAssign_thr (s : CSt) (t : Nat) : (doAssign s t).thr = s.thr := rfl
@[simp] theorem doAssign_n (s : CSt) (t : Nat) : (doAssign s t).n = s.n := rfl
@[simp] theorem doAssign_L (s : CSt) (t : Nat) : (doAssign s t).L = s.L := rfl
@[simp] theorem doAssign_file (s : CSt) (t : Nat) : (doAssign s t).file = s.file := rfl
@[simp] theorem doAssign_ver (s : CSt) (t : Nat) : (doAssign s t).ver = s.ver := rfl
@[simp] theorem doAssign_applied (s : CSt) (t : Nat) : (doAssign s t).applied = (s.thr t).snap := rfl
@[simp] theorem doAssign_apv (s : CSt) (t : Nat) : (doAssign s t).apv = (s.thr t).sv := rfl
@[simp] theorem doAssign_aplog (s : CSt) (t : Nat) : (doAssign s t).aplog = t :: s.aplog := rfl
@[simp] theorem doAssign_apvers (s : CSt) (t : Nat) : (doAssign s t).apvers = (s.thr t).sv :: s.apvers := rfl
@[simp] theorem doAssign_notes (s : CSt) (t : Nat) : (doAssign s t).notes = s.notes := rfl
@[simp] theorem doAssign_holder (s : CSt) (t : Nat) : (doAssign s t).holder = s.holder := rfl

@[simp] theorem afterAssign_thr (lk : Lock) (s : CSt) (t u : Nat) :
    (afterAssign lk s t).thr u =
      if u = t then { s.thr t with pc := if s.L = 0 then .done else .ntf 0 } else s.thr u := by
  unfold afterAssign; split <;> simp
@[simp] theorem afterAssign_n (lk : Lock) (s : CSt) (t : Nat) : (afterAssign lk s t).n = s.n := by
  unfold afterAssign; split <;> simp
@[simp] theorem afterAssign_L (lk : Lock) (s : CSt) (t : Nat) : (afterAssign lk s t).L = s.L := by
  unfold afterAssign; split <;> simp
@[simp] theorem afterAssign_file (lk : Lock) (s : CSt) (t : Nat) : (afterAssign lk s t).file = s.file := by
  unfold afterAssign; split <;> simp
@[simp] theorem afterAssign_applied (lk : Lock) (s : CSt) (t : Nat) : (afterAssign lk s t).applied = s.applied := by
  unfold afterAssign; split <;> simp
@[simp] theorem afterAssign_ver (lk : Lock) (s : CSt) (t : Nat) : (afterAssign lk s t).ver = s.ver := by
  unfold afterAssign; split <;> simp
@[simp] theorem afterAssign_apv (lk : Lock) (s : CSt) (t : Nat) : (afterAssign lk s t).apv = s.apv := by
  unfold afterAssign; split <;> simp
@[simp] theorem afterAssign_aplog (lk : Lock) (s : CSt) (t : Nat) : (afterAssign lk s t).aplog = s.aplog := by
  unfold afterAssign; split <;> simp
@[simp] theorem afterAssign_apvers (lk : Lock) (s : CSt) (t : Nat) : (afterAssign lk s t).apvers = s.apvers := by
  unfold afterAssign; split <;> simp
@[simp] theorem afterAssign_notes (lk : Lock) (s : CSt) (t : Nat) : (afterAssign lk s t).notes = s.notes := by
  unfold afterAssign; split <;> simp
theorem afterAssign_holder (lk : Lock) (s : CSt) (t : Nat) :
    (afterAssign lk s t).holder = if s.L = 0 ∧ lk = .serial then none else s.holder := by
  unfold afterAssign; split <;> simp [finish_holder, *]

/-! ## Part 2: notifications (every lock shape, every `aw`) -/

structure NInv (s : CSt) : Prop where
  sub : ∀ l x, x ∈ s.notes l → x ∈ s.aplog
  nd : ∀ l, (s.notes l).Nodup
  apnd : s.aplog.Nodup
  out : ∀ t, s.n ≤ t → (s.thr t).pc = .idle
  pre : ∀ t, (s.thr t).pc = .idle ∨ (s.thr t).pc = .read ∨ (s.thr t).pc = .cmp ∨ (s.thr t).pc = .asg →
          t ∉ s.aplog
  mid : ∀ t j, (s.thr t).pc = .ntf j → j < s.L ∧ t ∈ s.aplog ∧ ∀ l, l < s.L → (t ∈ s.notes l ↔ l < j)
  fin : ∀ t, (s.thr t).pc = .done → t ∈ s.aplog → ∀ l, l < s.L → t ∈ s.notes l

theorem ninv_init (n L : Nat) (f : Key) : NInv (cinit n L f) := by
  constructor <;> simp [cinit]

theorem ninv_local (s s' : CSt) (t : Nat) (pc' : Pc) (h : NInv s)
    (hpre : (s.thr t).pc = .idle ∨ (s.thr t).pc = .read ∨ (s.thr t).pc = .cmp ∨ (s.thr t).pc = .asg)
    (hpc' : pc' = .read ∨ pc' = .cmp ∨ pc' = .asg ∨ pc' = .done)
    (hn : ¬ s.n ≤ t)
    (hthr : ∀ u, (s'.thr u).pc = if u = t then pc' else (s.thr u).pc)
    (h1 : s'.n = s.n) (h2 : s'.L = s.L) (h3 : s'.aplog = s.aplog) (h4 : s'.notes = s.notes) : NInv s' := by
  have hnot := h.pre t hpre
  constructor
  · intro l x; rw [h4, h3]; exact h.sub l x
  · intro l; rw [h4]; exact h.nd l
  · rw [h3]; exact h.apnd
  · intro u hu; rw [hthr]; rw [h1] at hu
    have : u ≠ t := by omega
    simp [this]; exact h.out u hu
  · intro u; rw [hthr, h3]
    by_cases hu : u = t
    · subst hu; intro _; exact hnot
    · simp [hu]; exact h.pre u
  · intro u j; rw [hthr, h3, h4, h2]
    by_cases hu : u = t
    · subst hu; simp; intro hj; rcases hpc' with h' | h' | h' | h' <;> simp [h'] at hj
    · simp [hu]; exact h.mid u j
  · intro u; rw [hthr, h3, h4, h2]
    by_cases hu : u = t
    · subst hu; intro _ hin; exact absurd hin hnot
    · simp [hu]; exact h.fin u

theorem ninv_assign (s s' : CSt) (t : Nat) (h : NInv s)
    (hpre : (s.thr t).pc = .idle ∨ (s.thr t).pc = .read ∨ (s.thr t).pc = .cmp ∨ (s.thr t).pc = .asg)
    (hn : ¬ s.n ≤ t)
    (hthr : ∀ u, (s'.thr u).pc = if u = t then (if s.L = 0 then .done else .ntf 0) else (s.thr u).pc)
    (h1 : s'.n = s.n) (h2 : s'.L = s.L) (h3 : s'.aplog = t :: s.aplog) (h4 : s'.notes = s.notes) : NInv s' := by
  have hnot := h.pre t hpre
  have hnotes : ∀ l, t ∉ s.notes l := fun l hin => hnot (h.sub l t hin)
  constructor
  · intro l x; rw [h4, h3]; intro hx; exact List.mem_cons_of_mem _ (h.sub l x hx)
  · intro l; rw [h4]; exact h.nd l
  · rw [h3]; exact List.nodup_cons.mpr ⟨hnot, h.apnd⟩
  · intro u hu; rw [hthr]; rw [h1] at hu
    have : u ≠ t := by omega
    simp [this]; exact h.out u hu
  · intro u; rw [hthr, h3]
    by_cases hu : u = t
    · subst hu; simp; split <;> simp
    · simp [hu]; intro hp; exact h.pre u hp
  · intro u j; rw [hthr, h3, h4, h2]
    by_cases hu : u = t
    · subst hu; simp
      by_cases hL : s.L = 0
      · simp [hL]
      · simp [hL]; intro hj; subst hj
        refine ⟨by omega, ?_⟩
        intro l _; exact ⟨fun hm => absurd hm (hnotes l), fun hlt => by omega⟩
    · simp [hu]; intro hp
      exact h.mid u j hp
  · intro u; rw [hthr, h3, h4, h2]
    by_cases hu : u = t
    · subst hu; simp
      by_cases hL : s.L = 0
      · simp [hL]
      · simp [hL]
    · simp [hu]; intro hp hin; exact h.fin u hp hin

theorem ninv_notify (s s' : CSt) (t j : Nat) (h : NInv s)
    (hpc : (s.thr t).pc = .ntf j)
    (hthr : ∀ u, (s'.thr u).pc = if u = t then (if j + 1 < s.L then .ntf (j + 1) else .done) else (s.thr u).pc)
    (h1 : s'.n = s.n) (h2 : s'.L = s.L) (h3 : s'.aplog = s.aplog)
    (h4 : s'.notes = fun l => if l = j then t :: s.notes l else s.notes l) : NInv s' := by
  obtain ⟨hjL, hin, hiff⟩ := h.mid t j hpc
  have htn : ¬ s.n ≤ t := by
    intro hle; have := h.out t hle; rw [hpc] at this; cases this
  constructor
  · intro l x; rw [h4, h3]; simp only
    split
    · intro hx; rcases List.mem_cons.mp hx with hx | hx
      · subst hx; exact hin
      · exact h.sub l x hx
    · exact h.sub l x
  · intro l; rw [h4]; simp only
    split
    · rename_i hl; subst hl
      refine List.nodup_cons.mpr ⟨?_, h.nd l⟩
      intro hmem; have := (hiff l hjL).mp hmem; omega
    · exact h.nd l
  · rw [h3]; exact h.apnd
  · intro u hu; rw [hthr]; rw [h1] at hu
    have : u ≠ t := by omega
    simp [this]; exact h.out u hu
  · intro u; rw [hthr, h3]
    by_cases hu : u = t
    · subst hu; simp; split <;> simp
    · simp [hu]; exact h.pre u
  · intro u k; rw [hthr, h3, h4, h2]
    by_cases hu : u = t
    · subst hu; simp
      by_cases hlt : j + 1 < s.L
      · simp [hlt]; intro hk; subst hk
        refine ⟨hlt, hin, ?_⟩
        intro l hl
        by_cases hlj : l = j
        · subst hlj; simp
        · simp [hlj]; rw [hiff l hl]; omega
      · simp [hlt]
    · simp [hu]; intro hp
      obtain ⟨a, b, c⟩ := h.mid u k hp
      refine ⟨a, b, ?_⟩
      intro l hl
      by_cases hlj : l = j
      · subst hlj; simp [hu]; exact c l hl
      · simp [hlj]; exact c l hl
  · intro u; rw [hthr, h3, h4, h2]
    by_cases hu : u = t
    · subst hu; simp only [↓reduceIte]
      by_cases hlt : j + 1 < s.L
      · simp [hlt]
      · simp only [hlt, ↓reduceIte]; intro _ _ l hl
        by_cases hlj : l = j
        · subst hlj; simp
        · simp [hlj]; rw [hiff l hl]; omega
    · simp [hu]; intro hp hin' l hl
      have := h.fin u hp hin' l hl
      by_cases hlj : l = j
      · subst hlj; simp; exact Or.inr this
      · simp [hlj]; exact this

theorem ninv_stepThr (aw : Bool) (lk : Lock) (s : CSt) (t : Nat) (h : NInv s) :
    NInv (stepThr aw lk s t) := by
  unfold stepThr
  by_cases hn : s.n ≤ t
  · simp [hn]; exact h
  simp only [hn, if_false]
  cases hpc : (s.thr t).pc with
  | idle =>
    simp only
    split
    · split
      · exact h
      · apply ninv_local s _ t .read h (by simp [hpc]) (by simp) hn <;> simp
        intro u; split <;> simp
    · apply ninv_local s _ t .read h (by simp [hpc]) (by simp) hn <;> simp
      intro u; split <;> simp
  | read =>
    simp only
    split
    · apply ninv_local s _ t .cmp h (by simp [hpc]) (by simp) hn <;> simp
      intro u; split <;> simp
    · apply ninv_local s _ t .done h (by simp [hpc]) (by simp) hn <;> simp
      intro u; split <;> simp
  | cmp =>
    simp only
    split
    · apply ninv_local s _ t .done h (by simp [hpc]) (by simp) hn <;> simp
      intro u; split <;> simp
    · split
      · apply ninv_assign s _ t h (by simp [hpc]) hn <;> simp
        intro u; split <;> simp <;> rfl
      · apply ninv_local s _ t .asg h (by simp [hpc]) (by simp) hn <;> simp
        intro u; split <;> simp
  | asg =>
    simp only
    apply ninv_assign s _ t h (by simp [hpc]) hn <;> simp
    intro u; split <;> simp <;> rfl
  | ntf j =>
    simp only
    split
    · apply ninv_notify s _ t j h hpc <;> simp [*]
      intro u; split <;> simp
    · apply ninv_notify s _ t j h hpc <;> simp [*]
      intro u; split <;> simp
  | done => exact h

theorem ninv_stepEv (aw : Bool) (lk : Lock) (s : CSt) (e : Ev) (h : NInv s) : NInv (stepEv aw lk s e) := by
  cases e with
  | step t => exact ninv_stepThr aw lk s t h
  | wc c => exact ⟨h.sub, h.nd, h.apnd, h.out, h.pre, h.mid, h.fin⟩
  | wr c => exact ⟨h.sub, h.nd, h.apnd, h.out, h.pre, h.mid, h.fin⟩

theorem ninv_crun (aw : Bool) (lk : Lock) (s : CSt) (sched : List Ev) (h : NInv s) :
    NInv (crun aw lk s sched) := by
  unfold crun
  induction sched generalizing s with
  | nil => exact h
  | cons e es ih => exact ih _ (ninv_stepEv aw lk s e h)

/-! ## Part 3: the serial shape -/

structure SInv (aw : Bool) (s : CSt) : Prop where
  mx_none : s.holder = none → ∀ t, (s.thr t).pc = .idle ∨ (s.thr t).pc = .done
  mx_some : ∀ h, s.holder = some h →
    (∀ t, t ≠ h → (s.thr t).pc = .idle ∨ (s.thr t).pc = .done) ∧ (s.thr h).pc ≠ .idle ∧ (s.thr h).pc ≠ .done
  apv_le : s.apv ≤ s.ver
  apv_eq : s.apv = s.ver → s.applied = s.file
  vers : ∀ v, v ∈ s.apvers → v ≤ s.apv
  sorted : s.apvers.Pairwise (· > ·)
  k_le : ∀ t, (s.thr t).pc ≠ .idle → (s.thr t).pc ≠ .read → (s.thr t).sv ≤ s.ver
  k_eq : ∀ t, (s.thr t).pc ≠ .idle → (s.thr t).pc ≠ .read → (s.thr t).sv = s.ver → (s.thr t).snap = s.file
  n_le : ∀ t, (s.thr t).pc = .cmp ∨ (s.thr t).pc = .asg →
    s.apv ≤ (s.thr t).sv ∧ ((s.thr t).sv = s.apv → (s.thr t).snap = s.applied)
  p : ∀ t, (s.thr t).pc = .asg → (s.thr t).snap ≠ s.applied
  n' : ∀ t j, (s.thr t).pc = .ntf j → s.applied = (s.thr t).snap ∧ s.apv = (s.thr t).sv
  r : ∀ t u, (s.thr t).pc = .done → (s.thr u).pc ≠ .idle → (s.thr u).pc ≠ .read → (s.thr u).pc ≠ .done →
    (s.thr t).sv ≤ (s.thr u).sv
  q : ∀ t, (s.thr t).pc = .done → (s.thr t).sv = s.ver → reloadable aw s.file = true → s.applied = s.file

theorem sinv_init (aw : Bool) (n L : Nat) (f : Key) : SInv aw (cinit n L f) := by
  constructor <;> simp [cinit]

/-- in the serial shape a trigger that is inside `Reload` holds the reload mutex -/
theorem holder_of_active {aw : Bool} {s : CSt} (h : SInv aw s) {t : Nat}
    (h1 : (s.thr t).pc ≠ .idle) (h2 : (s.thr t).pc ≠ .done) :
    s.holder = some t ∧ ∀ u, u ≠ t → (s.thr u).pc = .idle ∨ (s.thr u).pc = .done := by
  cases hh : s.holder with
  | none => rcases h.mx_none hh t with h' | h' <;> contradiction
  | some x =>
    obtain ⟨a, _, _⟩ := h.mx_some x hh
    by_cases hx : t = x
    · subst hx; exact ⟨rfl, a⟩
    · rcases a t hx with h' | h' <;> contradiction

theorem sinv_stepThr (aw : Bool) (s : CSt) (t : Nat) (h : SInv aw s) :
    SInv aw (stepThr aw .serial s t) := by
  unfold stepThr
  by_cases hn : s.n ≤ t
  · simp [hn]; exact h
  simp only [hn, if_false]
  cases hpc : (s.thr t).pc with
  | idle =>
    simp only [↓reduceIte]
    cases hh : s.holder with
    | some x => simp only; exact h
    | none =>
      simp only
      have hall := h.mx_none hh
      obtain ⟨a1, a2, a3, a4, a5, a6, a7, a8, a9, a10, a11, a12, a13⟩ := h
      constructor
      all_goals (try simp only [setThr_thr, setThr_file, setThr_applied, setThr_ver, setThr_apv, setThr_apvers])
      all_goals grind
  | read =>
    simp only
    obtain ⟨hh, hothers⟩ := holder_of_active h (t := t) (by simp [hpc]) (by simp [hpc])
    obtain ⟨a1, a2, a3, a4, a5, a6, a7, a8, a9, a10, a11, a12, a13⟩ := h
    split
    · constructor
      all_goals (try simp only [setThr_thr, setThr_file, setThr_applied, setThr_ver, setThr_apv, setThr_apvers, setThr_holder, finish_thr, finish_file, finish_applied, finish_ver, finish_apv, finish_apvers, finish_holder, doAssign_thr, doAssign_file, doAssign_ver, doAssign_applied, doAssign_apv, doAssign_apvers, doAssign_holder, afterAssign_thr, afterAssign_file, afterAssign_applied, afterAssign_ver, afterAssign_apv, afterAssign_apvers, afterAssign_holder, doAssign_L, ↓reduceIte])
      all_goals grind
    · constructor
      all_goals (try simp only [setThr_thr, setThr_file, setThr_applied, setThr_ver, setThr_apv, setThr_apvers, setThr_holder, finish_thr, finish_file, finish_applied, finish_ver, finish_apv, finish_apvers, finish_holder, doAssign_thr, doAssign_file, doAssign_ver, doAssign_applied, doAssign_apv, doAssign_apvers, doAssign_holder, afterAssign_thr, afterAssign_file, afterAssign_applied, afterAssign_ver, afterAssign_apv, afterAssign_apvers, afterAssign_holder, doAssign_L, ↓reduceIte])
      all_goals grind
  | cmp =>
    simp only [show (Lock.serial = Lock.cas) = False by simp, if_false]
    obtain ⟨hh, hothers⟩ := holder_of_active h (t := t) (by simp [hpc]) (by simp [hpc])
    obtain ⟨a1, a2, a3, a4, a5, a6, a7, a8, a9, a10, a11, a12, a13⟩ := h
    split
    · constructor
      all_goals (try simp only [setThr_thr, setThr_file, setThr_applied, setThr_ver, setThr_apv, setThr_apvers, setThr_holder, finish_thr, finish_file, finish_applied, finish_ver, finish_apv, finish_apvers, finish_holder, doAssign_thr, doAssign_file, doAssign_ver, doAssign_applied, doAssign_apv, doAssign_apvers, doAssign_holder, afterAssign_thr, afterAssign_file, afterAssign_applied, afterAssign_ver, afterAssign_apv, afterAssign_apvers, afterAssign_holder, doAssign_L, ↓reduceIte])
      all_goals grind
    · constructor
      all_goals (try simp only [setThr_thr, setThr_file, setThr_applied, setThr_ver, setThr_apv, setThr_apvers, setThr_holder, finish_thr, finish_file, finish_applied, finish_ver, finish_apv, finish_apvers, finish_holder, doAssign_thr, doAssign_file, doAssign_ver, doAssign_applied, doAssign_apv, doAssign_apvers, doAssign_holder, afterAssign_thr, afterAssign_file, afterAssign_applied, afterAssign_ver, afterAssign_apv, afterAssign_apvers, afterAssign_holder, doAssign_L, ↓reduceIte])
      all_goals grind
  | asg =>
    simp only
    obtain ⟨hh, hothers⟩ := holder_of_active h (t := t) (by simp [hpc]) (by simp [hpc])
    obtain ⟨a1, a2, a3, a4, a5, a6, a7, a8, a9, a10, a11, a12, a13⟩ := h
    have hsorted : List.Pairwise (· > ·) ((s.thr t).sv :: s.apvers) := by
      refine List.pairwise_cons.mpr ⟨fun v hv => ?_, a6⟩
      have h1 := a5 v hv
      obtain ⟨h2, h3⟩ := a9 t (Or.inr hpc)
      have h4 := a10 t hpc
      have : (s.thr t).sv ≠ s.apv := fun he => h4 (h3 he)
      omega
    constructor
    all_goals (try simp only [setThr_thr, setThr_file, setThr_applied, setThr_ver, setThr_apv, setThr_apvers, setThr_holder, finish_thr, finish_file, finish_applied, finish_ver, finish_apv, finish_apvers, finish_holder, doAssign_thr, doAssign_file, doAssign_ver, doAssign_applied, doAssign_apv, doAssign_apvers, doAssign_holder, afterAssign_thr, afterAssign_file, afterAssign_applied, afterAssign_ver, afterAssign_apv, afterAssign_apvers, afterAssign_holder, doAssign_L, ↓reduceIte])
    all_goals grind
  | ntf j =>
    simp only
    obtain ⟨hh, hothers⟩ := holder_of_active h (t := t) (by simp [hpc]) (by simp [hpc])
    obtain ⟨a1, a2, a3, a4, a5, a6, a7, a8, a9, a10, a11, a12, a13⟩ := h
    split
    · constructor
      all_goals (try simp only [setThr_thr, setThr_file, setThr_applied, setThr_ver, setThr_apv, setThr_apvers, setThr_holder, finish_thr, finish_file, finish_applied, finish_ver, finish_apv, finish_apvers, finish_holder, doAssign_thr, doAssign_file, doAssign_ver, doAssign_applied, doAssign_apv, doAssign_apvers, doAssign_holder, afterAssign_thr, afterAssign_file, afterAssign_applied, afterAssign_ver, afterAssign_apv, afterAssign_apvers, afterAssign_holder, doAssign_L, ↓reduceIte])
      all_goals grind
    · constructor
      all_goals (try simp only [setThr_thr, setThr_file, setThr_applied, setThr_ver, setThr_apv, setThr_apvers, setThr_holder, finish_thr, finish_file, finish_applied, finish_ver, finish_apv, finish_apvers, finish_holder, doAssign_thr, doAssign_file, doAssign_ver, doAssign_applied, doAssign_apv, doAssign_apvers, doAssign_holder, afterAssign_thr, afterAssign_file, afterAssign_applied, afterAssign_ver, afterAssign_apv, afterAssign_apvers, afterAssign_holder, doAssign_L, ↓reduceIte])
      all_goals grind
  | done => exact h

theorem sinv_stepEv (aw : Bool) (s : CSt) (e : Ev) (h : SInv aw s) : SInv aw (stepEv aw .serial s e) := by
  cases e with
  | step t => exact sinv_stepThr aw s t h
  | wc c =>
    obtain ⟨a1, a2, a3, a4, a5, a6, a7, a8, a9, a10, a11, a12, a13⟩ := h
    constructor <;> simp only [stepEv] <;> grind
  | wr c =>
    obtain ⟨a1, a2, a3, a4, a5, a6, a7, a8, a9, a10, a11, a12, a13⟩ := h
    constructor <;> simp only [stepEv] <;> grind

theorem sinv_crun (aw : Bool) (s : CSt) (sched : List Ev) (h : SInv aw s) :
    SInv aw (crun aw .serial s sched) := by
  unfold crun
  induction sched generalizing s with
  | nil => exact h
  | cons e es ih => exact ih _ (sinv_stepEv aw s e h)

/-! ## Part 4: whatever the lock shape, the running configuration is one `Reload` goes on with -/

structure AInv (aw : Bool) (s : CSt) : Prop where
  app : startupAccepts s.applied = true
  snap : ∀ t, (s.thr t).pc = .cmp ∨ (s.thr t).pc = .asg → reloadable aw (s.thr t).snap = true

theorem ainv_init (aw : Bool) (n L : Nat) (f : Key) (hf : startupAccepts f = true) : AInv aw (cinit n L f) := by
  constructor <;> simp [cinit, hf]

theorem ainv_stepEv (aw : Bool) (lk : Lock) (s : CSt) (e : Ev) (h : AInv aw s) : AInv aw (stepEv aw lk s e) := by
  obtain ⟨a1, a2⟩ := h
  have acc := @reloadable_accepts aw
  cases e with
  | wc c => exact ⟨a1, a2⟩
  | wr c => exact ⟨a1, a2⟩
  | step t =>
    simp only [stepEv]
    unfold stepThr
    by_cases hn : s.n ≤ t
    · simp [hn]; exact ⟨a1, a2⟩
    simp only [hn, if_false]
    cases hpc : (s.thr t).pc with
    | idle =>
      simp only
      split
      · split
        · exact ⟨a1, a2⟩
        · constructor <;> simp only [setThr_thr, setThr_applied] <;> grind
      · constructor <;> simp only [setThr_thr, setThr_applied] <;> grind
    | read =>
      simp only
      split
      · constructor <;> simp only [setThr_thr, setThr_applied] <;> grind
      · constructor <;> simp only [finish_thr, finish_applied, setThr_thr, setThr_applied] <;> grind
    | cmp =>
      simp only
      have := a2 t (Or.inl hpc)
      split
      · constructor <;> simp only [finish_thr, finish_applied] <;> grind
      · split
        · constructor <;> simp only [afterAssign_thr, afterAssign_applied, doAssign_thr, doAssign_applied, doAssign_L] <;> grind
        · constructor <;> simp only [setThr_thr, setThr_applied] <;> grind
    | asg =>
      simp only
      have := a2 t (Or.inr hpc)
      constructor <;> simp only [afterAssign_thr, afterAssign_applied, doAssign_thr, doAssign_applied, doAssign_L] <;> grind
    | ntf j =>
      simp only
      split
      · constructor <;> simp only [setThr_thr, setThr_applied] <;> grind
      · constructor <;> simp only [finish_thr, finish_applied] <;> grind
    | done => exact ⟨a1, a2⟩

theorem ainv_crun (aw : Bool) (lk : Lock) (s : CSt) (sched : List Ev) (h : AInv aw s) :
    AInv aw (crun aw lk s sched) := by
  unfold crun
  induction sched generalizing s with
  | nil => exact h
  | cons e es ih => exact ih _ (ainv_stepEv aw lk s e h)

/-! ## Part 5: compare-and-assign in one critical section (`Lock.cas`, the code as it is)

What this shape does guarantee: two successive assignments never carry the same file version
(the pure "both triggers saw the old hash" double apply is gone).  What it does not: a stale
snapshot can still be assigned after a newer one (`Props/C27.lean` has the witnesses). -/

/-- no two adjacent equal entries -/
def NoAdjDup : List Nat → Prop
  | a :: b :: l => a ≠ b ∧ NoAdjDup (b :: l)
  | _ => True

instance : (l : List Nat) → Decidable (NoAdjDup l)
  | [] => isTrue trivial
  | [_] => isTrue trivial
  | a :: b :: l =>
    have := instDecidableNoAdjDup (b :: l)
    by unfold NoAdjDup; exact inferInstance

theorem noAdjDup_cons (a : Nat) (l : List Nat) (h : NoAdjDup l) (hd : ∀ v, l.head? = some v → a ≠ v) :
    NoAdjDup (a :: l) := by
  cases l with
  | nil => trivial
  | cons b l => exact ⟨hd b rfl, h⟩

structure CInv (s : CSt) : Prop where
  noasg : ∀ t, (s.thr t).pc ≠ .asg
  m_le : s.apv ≤ s.ver
  m_eq : s.apv = s.ver → s.applied = s.file
  k_le : ∀ t, (s.thr t).pc ≠ .idle → (s.thr t).pc ≠ .read → (s.thr t).sv ≤ s.ver
  k_eq : ∀ t, (s.thr t).pc ≠ .idle → (s.thr t).pc ≠ .read → (s.thr t).sv = s.ver → (s.thr t).snap = s.file
  c1 : ∀ t u, (s.thr t).pc ≠ .idle → (s.thr t).pc ≠ .read → (s.thr u).pc ≠ .idle → (s.thr u).pc ≠ .read →
    (s.thr t).sv = (s.thr u).sv → (s.thr t).snap = (s.thr u).snap
  c2 : ∀ t, (s.thr t).pc ≠ .idle → (s.thr t).pc ≠ .read → (s.thr t).sv = s.apv → (s.thr t).snap = s.applied
  hd : ∀ v, s.apvers.head? = some v → v = s.apv
  nad : NoAdjDup s.apvers

theorem cinv_init (n L : Nat) (f : Key) : CInv (cinit n L f) := by
  constructor <;> simp [cinit, NoAdjDup]

theorem cinv_stepThr (aw : Bool) (s : CSt) (t : Nat) (h : CInv s) : CInv (stepThr aw .cas s t) := by
  unfold stepThr
  by_cases hn : s.n ≤ t
  · simp [hn]; exact h
  simp only [hn, if_false]
  obtain ⟨a1, a2, a3, a4, a5, a6, a7, a8, a9⟩ := h
  cases hpc : (s.thr t).pc with
  | idle =>
    simp only [show (Lock.cas = Lock.serial) = False by simp, if_false]
    constructor
    all_goals (try simp only [setThr_thr, setThr_file, setThr_applied, setThr_ver, setThr_apv, setThr_apvers, finish_thr, finish_file, finish_applied, finish_ver, finish_apv, finish_apvers, doAssign_thr, doAssign_file, doAssign_ver, doAssign_applied, doAssign_apv, doAssign_apvers, afterAssign_thr, afterAssign_file, afterAssign_applied, afterAssign_ver, afterAssign_apv, afterAssign_apvers, doAssign_L, ↓reduceIte])
    all_goals grind
  | read =>
    simp only
    split
    · constructor
      all_goals (try simp only [setThr_thr, setThr_file, setThr_applied, setThr_ver, setThr_apv, setThr_apvers, finish_thr, finish_file, finish_applied, finish_ver, finish_apv, finish_apvers, doAssign_thr, doAssign_file, doAssign_ver, doAssign_applied, doAssign_apv, doAssign_apvers, afterAssign_thr, afterAssign_file, afterAssign_applied, afterAssign_ver, afterAssign_apv, afterAssign_apvers, doAssign_L, ↓reduceIte])
      all_goals grind
    · constructor
      all_goals (try simp only [setThr_thr, setThr_file, setThr_applied, setThr_ver, setThr_apv, setThr_apvers, finish_thr, finish_file, finish_applied, finish_ver, finish_apv, finish_apvers, doAssign_thr, doAssign_file, doAssign_ver, doAssign_applied, doAssign_apv, doAssign_apvers, afterAssign_thr, afterAssign_file, afterAssign_applied, afterAssign_ver, afterAssign_apv, afterAssign_apvers, doAssign_L, ↓reduceIte])
      all_goals grind
  | cmp =>
    simp only [if_true]
    split
    · constructor
      all_goals (try simp only [setThr_thr, setThr_file, setThr_applied, setThr_ver, setThr_apv, setThr_apvers, finish_thr, finish_file, finish_applied, finish_ver, finish_apv, finish_apvers, doAssign_thr, doAssign_file, doAssign_ver, doAssign_applied, doAssign_apv, doAssign_apvers, afterAssign_thr, afterAssign_file, afterAssign_applied, afterAssign_ver, afterAssign_apv, afterAssign_apvers, doAssign_L, ↓reduceIte])
      all_goals grind
    · rename_i hne
      have hsv : (s.thr t).sv ≠ s.apv := fun he => hne (a7 t (by simp [hpc]) (by simp [hpc]) he)
      have hnad : NoAdjDup ((s.thr t).sv :: s.apvers) :=
        noAdjDup_cons _ _ a9 (fun v hv => by rw [a8 v hv]; exact hsv)
      constructor
      all_goals (try simp only [setThr_thr, setThr_file, setThr_applied, setThr_ver, setThr_apv, setThr_apvers, finish_thr, finish_file, finish_applied, finish_ver, finish_apv, finish_apvers, doAssign_thr, doAssign_file, doAssign_ver, doAssign_applied, doAssign_apv, doAssign_apvers, afterAssign_thr, afterAssign_file, afterAssign_applied, afterAssign_ver, afterAssign_apv, afterAssign_apvers, doAssign_L, ↓reduceIte])
      all_goals grind
  | asg => exact absurd hpc (a1 t)
  | ntf j =>
    simp only
    split
    · constructor
      all_goals (try simp only [setThr_thr, setThr_file, setThr_applied, setThr_ver, setThr_apv, setThr_apvers, finish_thr, finish_file, finish_applied, finish_ver, finish_apv, finish_apvers, doAssign_thr, doAssign_file, doAssign_ver, doAssign_applied, doAssign_apv, doAssign_apvers, afterAssign_thr, afterAssign_file, afterAssign_applied, afterAssign_ver, afterAssign_apv, afterAssign_apvers, doAssign_L, ↓reduceIte])
      all_goals grind
    · constructor
      all_goals (try simp only [setThr_thr, setThr_file, setThr_applied, setThr_ver, setThr_apv, setThr_apvers, finish_thr, finish_file, finish_applied, finish_ver, finish_apv, finish_apvers, doAssign_thr, doAssign_file, doAssign_ver, doAssign_applied, doAssign_apv, doAssign_apvers, afterAssign_thr, afterAssign_file, afterAssign_applied, afterAssign_ver, afterAssign_apv, afterAssign_apvers, doAssign_L, ↓reduceIte])
      all_goals grind
  | done => exact ⟨a1, a2, a3, a4, a5, a6, a7, a8, a9⟩

theorem cinv_stepEv (aw : Bool) (s : CSt) (e : Ev) (h : CInv s) : CInv (stepEv aw .cas s e) := by
  cases e with
  | step t => exact cinv_stepThr aw s t h
  | wc c =>
    obtain ⟨a1, a2, a3, a4, a5, a6, a7, a8, a9⟩ := h
    constructor <;> simp only [stepEv] <;> grind
  | wr c =>
    obtain ⟨a1, a2, a3, a4, a5, a6, a7, a8, a9⟩ := h
    constructor <;> simp only [stepEv] <;> grind

theorem cinv_crun (aw : Bool) (s : CSt) (sched : List Ev) (h : CInv s) : CInv (crun aw .cas s sched) := by
  unfold crun
  induction sched generalizing s with
  | nil => exact h
  | cons e es ih => exact ih _ (cinv_stepEv aw s e h)

end Refinery.Lemmas.Reload
