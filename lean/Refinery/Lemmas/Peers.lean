import Refinery.Model.Peers
/-!
Helper lemmas for C18: the codec on byte strings, the key order used by `SortedKeys`, and the
simulation invariant between a node's peer map and the history of handled commands.
-/
namespace Refinery.Model.Peers
open Refinery

/-! ## codec -/

theorem indexOf_append {b : UInt8} {pre : Bytes} (post : Bytes) (h : b ∉ pre) :
    indexOf b (pre ++ b :: post) = some pre.length := by
  induction pre with
  | nil => simp [indexOf]
  | cons x t ih =>
    have hx : x ≠ b := fun e => h (by simp [e])
    have ht : b ∉ t := fun e => h (by simp [e])
    simp [indexOf, hx, ih ht]

theorem indexOf_some {b : UInt8} {l : Bytes} {i : Nat} (h : indexOf b l = some i) :
    ∃ pre post, l = pre ++ b :: post ∧ pre.length = i ∧ b ∉ pre := by
  induction l generalizing i with
  | nil => simp [indexOf] at h
  | cons x t ih =>
    unfold indexOf at h
    by_cases hx : x = b
    · simp [hx] at h
      exact ⟨[], t, by simp [hx], by simp [h], by simp⟩
    · simp only [hx, if_false] at h
      cases hi : indexOf b t with
      | none => simp [hi] at h
      | some j =>
        simp [hi] at h
        obtain ⟨pre, post, h1, h2, h3⟩ := ih hi
        refine ⟨x :: pre, post, by simp [h1], by simp [h2, h], ?_⟩
        intro hm
        rcases List.mem_cons.mp hm with e | e
        · exact hx e.symm
        · exact h3 e

theorem register_ne_comma : Action.register.byte ≠ comma := by decide
theorem unregister_ne_comma : Action.unregister.byte ≠ comma := by decide
theorem unregister_ne_register : Action.unregister.byte ≠ Action.register.byte := by decide

theorem byte_ne_comma (a : Action) : a.byte ≠ comma := by
  cases a
  · exact register_ne_comma
  · exact unregister_ne_comma

/-- decoding what `marshal` wrote, for an address without a comma -/
theorem unmarshal_marshal_of_no_comma (c : Cmd) (h : comma ∉ c.address) :
    unmarshal (marshal c) = some c := by
  obtain ⟨act, id, addr⟩ := c
  simp only at h
  have hidx : indexOf comma (marshal ⟨act, id, addr⟩) = some (addr.length + 1) := by
    simp only [marshal, indexOf, byte_ne_comma act, if_false, indexOf_append id h, Option.map_some]
  unfold unmarshal
  rw [hidx]
  cases act with
  | register =>
    simp [marshal]; omega
  | unregister =>
    simp [marshal, unregister_ne_register]; omega

/-- the wire string does not say where the address ends: a comma in the address is read as the
separator -/
theorem marshal_comma_ambiguous (act : Action) (id pre post : Bytes) :
    marshal ⟨act, id, pre ++ comma :: post⟩ = marshal ⟨act, post ++ comma :: id, pre⟩ := by
  simp [marshal]

/-- every message `unmarshal` accepts is the marshalling of the command it returns, and the
address it returns has no comma -/
theorem unmarshal_sound {m : Bytes} {c : Cmd} (h : unmarshal m = some c) :
    marshal c = m ∧ comma ∉ c.address := by
  unfold unmarshal at h
  cases hi : indexOf comma m with
  | none => simp [hi] at h
  | some idx =>
    simp only [hi] at h
    obtain ⟨pre, post, hm, hlen, hpre⟩ := indexOf_some hi
    by_cases h2 : m.length < 2
    · simp [h2] at h
    · simp only [h2, if_false] at h
      cases m with
      | nil => simp at h
      | cons a msgData =>
        simp only at h
        cases pre with
        | nil =>
          -- the first byte is the comma: neither R nor U
          simp at hm
          have ha : a = comma := hm.1
          subst ha
          simp [Ne.symm register_ne_comma, Ne.symm unregister_ne_comma] at h
        | cons p pre' =>
          simp at hm
          obtain ⟨hap, hmd⟩ := hm
          subst hap
          have hpre' : comma ∉ pre' := fun e => hpre (by simp [e])
          have hidx : idx = pre'.length + 1 := by simp at hlen; omega
          subst hidx
          have htake : List.take (pre'.length + 1 - 1) msgData = pre' := by
            rw [hmd]; simp
          have hdrop : List.drop (pre'.length + 1) msgData = post := by
            rw [hmd]; simp
          rw [htake, hdrop] at h
          by_cases hr : a = Action.register.byte
          · simp [hr] at h
            subst h
            exact ⟨by simp [marshal, hr, hmd], hpre'⟩
          · by_cases hu : a = Action.unregister.byte
            · simp [hu, unregister_ne_register] at h
              subst h
              exact ⟨by simp [marshal, hu, hmd], hpre'⟩
            · simp [hr, hu] at h

end Refinery.Model.Peers
