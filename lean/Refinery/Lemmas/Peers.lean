import Refinery.Model.Peers
/-!
Helper lemmas for C18: the codec on byte strings, the key order used by `SortedKeys`, and the
simulation invariant between a node's peer map and the history of handled commands.
-/
namespace Refinery.Model.Peers
open Refinery

/-! ## codec -/

theorem lastIndexOf_none {b : UInt8} {l : Bytes} (h : b ∉ l) : lastIndexOf b l = none := by
  induction l with
  | nil => rfl
  | cons x t ih =>
    have hx : x ≠ b := fun e => h (by simp [e])
    have ht : b ∉ t := fun e => h (by simp [e])
    simp [lastIndexOf, ih ht, hx]

theorem lastIndexOf_append {b : UInt8} (pre : Bytes) {post : Bytes} (h : b ∉ post) :
    lastIndexOf b (pre ++ b :: post) = some pre.length := by
  induction pre with
  | nil => simp [lastIndexOf, lastIndexOf_none h]
  | cons x t ih => simp [lastIndexOf, ih]

theorem lastIndexOf_some {b : UInt8} {l : Bytes} {i : Nat} (h : lastIndexOf b l = some i) :
    ∃ pre post, l = pre ++ b :: post ∧ pre.length = i ∧ b ∉ post := by
  induction l generalizing i with
  | nil => simp [lastIndexOf] at h
  | cons x t ih =>
    unfold lastIndexOf at h
    cases hi : lastIndexOf b t with
    | some j =>
      simp [hi] at h
      obtain ⟨pre, post, h1, h2, h3⟩ := ih hi
      exact ⟨x :: pre, post, by simp [h1], by simp [h2, h], h3⟩
    | none =>
      simp only [hi] at h
      by_cases hx : x = b
      · simp [hx] at h
        have hnot : b ∉ t := by
          intro hm
          -- a member has a last occurrence
          have : ∀ (l : Bytes), b ∈ l → lastIndexOf b l ≠ none := by
            intro l
            induction l with
            | nil => intro h; simp at h
            | cons y u ihu =>
              intro hmem
              unfold lastIndexOf
              cases hu : lastIndexOf b u with
              | some k => simp
              | none =>
                by_cases hy : y = b
                · simp [hy]
                · have : b ∈ u := by
                    rcases List.mem_cons.mp hmem with e | e
                    · exact absurd e.symm hy
                    · exact e
                  exact absurd hu (ihu this)
          exact this t hm hi
        exact ⟨[], t, by simp [hx], by simp [h], hnot⟩
      · simp [hx] at h

theorem register_ne_comma : Action.register.byte ≠ comma := by decide
theorem unregister_ne_comma : Action.unregister.byte ≠ comma := by decide
theorem unregister_ne_register : Action.unregister.byte ≠ Action.register.byte := by decide

theorem byte_ne_comma (a : Action) : a.byte ≠ comma := by
  cases a
  · exact register_ne_comma
  · exact unregister_ne_comma

/-- decoding what `marshal` wrote, for an id without a comma (any address) -/
theorem unmarshal_marshal_of_no_comma (c : Cmd) (h : comma ∉ c.id) :
    unmarshal (marshal c) = some c := by
  obtain ⟨act, id, addr⟩ := c
  simp only at h
  have hidx : lastIndexOf comma (marshal ⟨act, id, addr⟩) = some (addr.length + 1) := by
    have := lastIndexOf_append (b := comma) (act.byte :: addr) h
    simpa [marshal] using this
  unfold unmarshal
  rw [hidx]
  cases act with
  | register =>
    simp [marshal]; omega
  | unregister =>
    simp [marshal, unregister_ne_register]; omega

/-- the wire string does not say which comma separates: a comma in the id is read as the
separator -/
theorem marshal_comma_ambiguous (act : Action) (addr pre post : Bytes) :
    marshal ⟨act, pre ++ comma :: post, addr⟩ = marshal ⟨act, post, addr ++ comma :: pre⟩ := by
  simp [marshal]

/-- every message `unmarshal` accepts is the marshalling of the command it returns, and the
id it returns has no comma -/
theorem unmarshal_sound {m : Bytes} {c : Cmd} (h : unmarshal m = some c) :
    marshal c = m ∧ comma ∉ c.id := by
  unfold unmarshal at h
  cases hi : lastIndexOf comma m with
  | none => simp [hi] at h
  | some idx =>
    simp only [hi] at h
    obtain ⟨pre, post, hm, hlen, hpost⟩ := lastIndexOf_some hi
    by_cases h2 : m.length < 2
    · simp [h2] at h
    · simp only [h2, if_false] at h
      cases m with
      | nil => simp at h
      | cons a msgData =>
        simp only at h
        cases pre with
        | nil =>
          -- the first byte is the (last) comma: neither R nor U
          simp at hm
          have ha : a = comma := hm.1
          subst ha
          simp [Ne.symm register_ne_comma, Ne.symm unregister_ne_comma] at h
        | cons p pre' =>
          simp at hm
          obtain ⟨hap, hmd⟩ := hm
          subst hap
          have hidx : idx = pre'.length + 1 := by simp at hlen; omega
          subst hidx
          have htake : List.take (pre'.length + 1 - 1) msgData = pre' := by
            rw [hmd]; simp
          have hdrop : List.drop (pre'.length + 1) msgData = post := by
            rw [hmd]; simp
          rw [htake, hdrop] at h
          by_cases hr : a = Action.register.byte
          · simp [hr] at h
            subst h
            exact ⟨by simp [marshal, hr, hmd], hpost⟩
          · by_cases hu : a = Action.unregister.byte
            · simp [hu, unregister_ne_register] at h
              subst h
              exact ⟨by simp [marshal, hu, hmd], hpost⟩
            · simp [hr, hu] at h

/-! ## the key order of `SortedKeys` -/

theorem bytesLe_total (a b : Bytes) : bytesLe a b = true ∨ bytesLe b a = true := by
  induction a generalizing b with
  | nil => simp [bytesLe]
  | cons x xs ih =>
    cases b with
    | nil => simp [bytesLe]
    | cons y ys =>
      simp only [bytesLe]
      by_cases h1 : x.toNat < y.toNat
      · simp [h1]
      · by_cases h2 : y.toNat < x.toNat
        · simp [h2]
        · simp only [h1, h2, if_false]; exact ih ys

theorem bytesLe_antisymm {a b : Bytes} (h1 : bytesLe a b = true) (h2 : bytesLe b a = true) : a = b := by
  induction a generalizing b with
  | nil => cases b with
    | nil => rfl
    | cons y ys => simp [bytesLe] at h2
  | cons x xs ih =>
    cases b with
    | nil => simp [bytesLe] at h1
    | cons y ys =>
      simp only [bytesLe] at h1 h2
      by_cases hxy : x.toNat < y.toNat
      · have : ¬ y.toNat < x.toNat := by omega
        simp [hxy, this] at h2
      · by_cases hyx : y.toNat < x.toNat
        · simp [hxy, hyx] at h1
        · simp only [hxy, hyx, if_false] at h1 h2
          have hx : x = y := UInt8.toNat_inj.mp (by omega)
          rw [hx, ih h1 h2]

theorem bytesLe_trans {a b c : Bytes} (h1 : bytesLe a b = true) (h2 : bytesLe b c = true) :
    bytesLe a c = true := by
  induction a generalizing b c with
  | nil => simp [bytesLe]
  | cons x xs ih =>
    cases b with
    | nil => simp [bytesLe] at h1
    | cons y ys =>
      cases c with
      | nil => simp [bytesLe] at h2
      | cons z zs =>
        simp only [bytesLe] at h1 h2 ⊢
        by_cases hxy : x.toNat < y.toNat
        · by_cases hyz : y.toNat < z.toNat
          · have : x.toNat < z.toNat := by omega
            simp [this]
          · by_cases hzy : z.toNat < y.toNat
            · simp [hyz, hzy] at h2
            · have : x.toNat < z.toNat := by omega
              simp [this]
        · by_cases hyx : y.toNat < x.toNat
          · simp [hxy, hyx] at h1
          · simp only [hxy, hyx, if_false] at h1
            by_cases hyz : y.toNat < z.toNat
            · have : x.toNat < z.toNat := by omega
              simp [this]
            · by_cases hzy : z.toNat < y.toNat
              · simp [hyz, hzy] at h2
              · simp only [hyz, hzy, if_false] at h2
                have h3 : ¬ x.toNat < z.toNat := by omega
                have h4 : ¬ z.toNat < x.toNat := by omega
                simp only [h3, h4, if_false]
                exact ih h1 h2

theorem mem_insertKey (x y : Bytes) (l : List Bytes) : y ∈ insertKey x l ↔ y = x ∨ y ∈ l := by
  induction l with
  | nil => simp [insertKey]
  | cons z t ih =>
    unfold insertKey
    split
    · simp
    · simp [ih]; grind

@[simp] theorem mem_ksort (y : Bytes) (l : List Bytes) : y ∈ ksort l ↔ y ∈ l := by
  induction l with
  | nil => simp [ksort]
  | cons x t ih => simp [ksort, mem_insertKey, ih]

theorem insertKey_perm (x : Bytes) (l : List Bytes) : (insertKey x l).Perm (x :: l) := by
  induction l with
  | nil => simp [insertKey]
  | cons z t ih =>
    unfold insertKey
    split
    · exact List.Perm.refl _
    · exact (List.Perm.cons z ih).trans (List.Perm.swap x z t)

theorem ksort_perm (l : List Bytes) : (ksort l).Perm l := by
  induction l with
  | nil => simp [ksort]
  | cons x t ih => exact (insertKey_perm x (ksort t)).trans (List.Perm.cons x ih)

theorem insertKey_pairwise (x : Bytes) (l : List Bytes) (h : l.Pairwise (fun a b => bytesLe a b = true)) :
    (insertKey x l).Pairwise (fun a b => bytesLe a b = true) := by
  induction l with
  | nil => simp [insertKey]
  | cons z t ih =>
    unfold insertKey
    rw [List.pairwise_cons] at h
    split
    · rename_i hxz
      rw [List.pairwise_cons]
      refine ⟨?_, List.pairwise_cons.mpr h⟩
      intro a ha
      rcases List.mem_cons.mp ha with rfl | ha
      · exact hxz
      · exact bytesLe_trans hxz (h.1 a ha)
    · rename_i hxz
      rw [List.pairwise_cons]
      refine ⟨?_, ih h.2⟩
      intro a ha
      rcases (mem_insertKey x a t).mp ha with rfl | ha
      · rcases bytesLe_total a z with h' | h'
        · exact absurd h' hxz
        · exact h'
      · exact h.1 a ha

theorem ksort_pairwise (l : List Bytes) : (ksort l).Pairwise (fun a b => bytesLe a b = true) := by
  induction l with
  | nil => simp [ksort]
  | cons x t ih => exact insertKey_pairwise x _ ih

/-- two lists with the same elements (no repetitions) sort to the same list -/
theorem ksort_eq_of_same_members {l₁ l₂ : List Bytes} (h1 : l₁.Nodup) (h2 : l₂.Nodup)
    (h : ∀ k, k ∈ l₁ ↔ k ∈ l₂) : ksort l₁ = ksort l₂ := by
  apply List.Perm.eq_of_pairwise (le := fun a b => bytesLe a b = true)
  · intro a b _ _ hab hba; exact bytesLe_antisymm hab hba
  · exact ksort_pairwise l₁
  · exact ksort_pairwise l₂
  · exact (ksort_perm l₁).trans (((List.perm_ext_iff_of_nodup h1 h2).mpr h).trans (ksort_perm l₂).symm)


/-! ## the peer map against the history of handled commands -/

/-- Simulation invariant: an entry of the map is the most recently handled register of its id
(it expires `ttl` after the handling instant); an id without an entry was never registered, was
unregistered last, or its last register expired before the node's current instant. -/
def Inv (ttl : Int) (s : St) (h : Hist) : Prop :=
  AList.NoDupKeys s.items ∧
  ∀ k, match AList.get s.items k with
    | some (a, e) => h k = some (a, e - ttl)
    | none => h k = none ∨ ∃ a p, h k = some (a, p) ∧ p + ttl < s.now

theorem inv_start (ttl : Int) (self : Node) (t : Int) :
    Inv ttl (start ttl self t) (histStart self t) := by
  refine ⟨AList.nodup_put _ AList.nodup_nil _ _, ?_⟩
  intro k
  simp only [start, histStart]
  rw [AList.get_put]
  by_cases hk : self.id = k
  · simp only [hk, if_true]
    have : t + ttl - ttl = t := by omega
    simp [this]
  · simp [hk]

theorem inv_setNow {ttl : Int} {s : St} {h : Hist} (hi : Inv ttl s h) {t : Int} (ht : s.now ≤ t) :
    Inv ttl { s with now := t } h := by
  obtain ⟨h1, h2⟩ := hi
  refine ⟨h1, ?_⟩
  intro k
  have hk := h2 k
  cases hg : AList.get s.items k with
  | none =>
    simp only [hg] at hk ⊢
    rcases hk with hk | ⟨a, p, hk, hlt⟩
    · exact Or.inl hk
    · exact Or.inr ⟨a, p, hk, by show p + ttl < t; omega⟩
  | some ve => simp only [hg] at hk ⊢; exact hk

theorem inv_cleanup {ttl : Int} {s : St} {h : Hist} (hi : Inv ttl s h) : Inv ttl (cleanup s) h := by
  obtain ⟨h1, h2⟩ := hi
  refine ⟨by simpa [cleanup] using AList.nodup_keep _ h1 _, ?_⟩
  intro k
  have hk := h2 k
  simp only [cleanup]
  rw [AList.get_keep _ h1]
  cases hg : AList.get s.items k with
  | none => simp [hg] at hk ⊢; exact hk
  | some ve =>
    obtain ⟨a, e⟩ := ve
    simp only [hg] at hk
    by_cases hx : expired s.now e = true
    · simp only [Option.filter, hx]
      right
      refine ⟨a, e - ttl, hk, ?_⟩
      simp only [expired, decide_eq_true_eq] at hx
      omega
    · simp only [Option.filter, hx]
      simpa using hk

theorem cleanup_now (s : St) : (cleanup s).now = s.now := rfl

theorem listen_now (ttl : Int) (s : St) (m : Bytes) : (listen ttl s m).now = s.now := by
  unfold listen
  cases unmarshal m with
  | none => rfl
  | some c =>
    obtain ⟨act, id, addr⟩ := c
    cases act <;> rfl

theorem histStep_none {h : Hist} {sent t : Int} {m : Bytes} (hu : unmarshal m = none) :
    histStep h (.recv sent t m) = h := by simp [histStep, hu]

theorem histStep_unreg {h : Hist} {sent t : Int} {m : Bytes} {id addr : Bytes}
    (hu : unmarshal m = some ⟨.unregister, id, addr⟩) :
    histStep h (.recv sent t m) = fun k => if id = k then none else h k := by simp [histStep, hu]

theorem histStep_reg {h : Hist} {sent t : Int} {m : Bytes} {id addr : Bytes}
    (hu : unmarshal m = some ⟨.register, id, addr⟩) :
    histStep h (.recv sent t m) = fun k => if id = k then some (addr, t) else h k := by simp [histStep, hu]

theorem listen_none {ttl : Int} {s : St} {m : Bytes} (hu : unmarshal m = none) : listen ttl s m = s := by
  simp [listen, hu]

theorem listen_unreg {ttl : Int} {s : St} {m : Bytes} {id addr : Bytes}
    (hu : unmarshal m = some ⟨.unregister, id, addr⟩) :
    listen ttl s m = cleanup { s with items := AList.del s.items id } := by simp [listen, hu]

theorem listen_reg {ttl : Int} {s : St} {m : Bytes} {id addr : Bytes}
    (hu : unmarshal m = some ⟨.register, id, addr⟩) :
    listen ttl s m = cleanup { s with items := AList.put s.items id (addr, s.now + ttl) } := by
  simp [listen, hu]

theorem inv_listen {ttl : Int} {s : St} {h : Hist} (hi : Inv ttl s h) (sent : Int) (m : Bytes) :
    Inv ttl (listen ttl s m) (histStep h (.recv sent s.now m)) := by
  cases hu : unmarshal m with
  | none => rw [listen_none hu, histStep_none hu]; exact hi
  | some c =>
    obtain ⟨act, id, addr⟩ := c
    cases act with
    | unregister =>
      rw [listen_unreg hu, histStep_unreg hu]
      apply inv_cleanup
      obtain ⟨h1, h2⟩ := hi
      refine ⟨AList.nodup_del _ h1 _, ?_⟩
      intro k
      have hk := h2 k
      simp only
      rw [AList.get_del]
      by_cases hkk : id = k
      · simp [hkk]
      · simp only [hkk, if_false]; exact hk
    | register =>
      rw [listen_reg hu, histStep_reg hu]
      apply inv_cleanup
      obtain ⟨h1, h2⟩ := hi
      refine ⟨AList.nodup_put _ h1 _ _, ?_⟩
      intro k
      have hk := h2 k
      simp only
      rw [AList.get_put]
      by_cases hkk : id = k
      · simp only [hkk, if_true]
        have : s.now + ttl - ttl = s.now := by omega
        simp [this]
      · simp only [hkk, if_false]; exact hk

theorem stepEv_now (ttl : Int) (s : St) (e : Ev) : (stepEv ttl s e).now = e.time := by
  cases e with
  | recv sent t m => simp [stepEv, listen_now, Ev.time]
  | query t => simp [stepEv, cleanup_now, Ev.time]

theorem inv_stepEv {ttl : Int} {s : St} {h : Hist} (hi : Inv ttl s h) (e : Ev) (ht : s.now ≤ e.time) :
    Inv ttl (stepEv ttl s e) (histStep h e) := by
  cases e with
  | recv sent t m =>
    simp only [Ev.time] at ht
    exact inv_listen (inv_setNow hi ht) sent m
  | query t =>
    simp only [Ev.time] at ht
    exact inv_cleanup (inv_setNow hi ht)

theorem inv_foldl {ttl d : Int} (evs : List Ev) : ∀ (s : St) (h : Hist) (t : Int),
    Inv ttl s h → Timed d s.now evs t →
    Inv ttl (evs.foldl (stepEv ttl) s) (evs.foldl histStep h) ∧ (evs.foldl (stepEv ttl) s).now ≤ t := by
  induction evs with
  | nil => intro s h t hi hT; exact ⟨hi, hT⟩
  | cons e es ih =>
    intro s h t hi hT
    obtain ⟨h1, _, h3⟩ := hT
    simp only [List.foldl_cons]
    apply ih _ _ _ (inv_stepEv hi e h1)
    rw [stepEv_now]; exact h3

theorem lookup_eq_present {ttl : Int} {s : St} {h : Hist} (hi : Inv ttl s h) {t : Int} (ht : s.now ≤ t)
    (k : Bytes) : lookup { s with now := t } k = present ttl h t k := by
  obtain ⟨_, h2⟩ := hi
  have hk := h2 k
  unfold lookup present
  cases hg : AList.get s.items k with
  | none =>
    simp only [hg] at hk ⊢
    rcases hk with hk | ⟨a, p, hk, hlt⟩
    · simp [hk]
    · simp only [hk]; rw [if_neg (by omega)]
  | some ve =>
    obtain ⟨a, e⟩ := ve
    simp only [hg] at hk ⊢
    simp only [hk, expired]
    by_cases hx : e < t
    · have h' : ¬ t ≤ e - ttl + ttl := by omega
      simp [hx]
    · have h' : t ≤ e - ttl + ttl := by omega
      simp [hx]

/-- **History-based characterisation of presence.**  Whatever the order in which registers and
unregisters were handled, at instant `t` the map lists id `k` iff the most recently *handled*
command for `k` is a register handled no more than `ttl` ago — and it lists that register's
address. -/
theorem presence_char {ttl d : Int} {self : Node} {startT : Int} {evs : List Ev} {t : Int}
    (hT : Timed d startT evs t) (k : Bytes) :
    lookup (stateAt ttl self startT evs t) k = present ttl (hist self startT evs) t k := by
  have h := inv_foldl (ttl := ttl) evs (start ttl self startT) (histStart self startT) t
    (inv_start ttl self startT) hT
  exact lookup_eq_present h.1 h.2 k

theorem inv_run {ttl d : Int} {self : Node} {startT : Int} {evs : List Ev} {t : Int}
    (hT : Timed d startT evs t) :
    Inv ttl (runEvs ttl self startT evs) (hist self startT evs) ∧ (runEvs ttl self startT evs).now ≤ t :=
  inv_foldl (ttl := ttl) evs (start ttl self startT) (histStart self startT) t (inv_start ttl self startT) hT

/-! ### where a history entry comes from -/

/-- a history entry is the initial one, or was written by a handled register at that instant -/
theorem hist_origin (evs : List Ev) : ∀ (h : Hist) (k a : Bytes) (p : Int),
    evs.foldl histStep h k = some (a, p) →
    h k = some (a, p) ∨ ∃ sent m, Ev.recv sent p m ∈ evs ∧ unmarshal m = some ⟨.register, k, a⟩ := by
  induction evs with
  | nil => intro h k a p hh; exact Or.inl hh
  | cons e es ih =>
    intro h k a p hh
    simp only [List.foldl_cons] at hh
    rcases ih _ k a p hh with h1 | ⟨sent, m, hm, hu⟩
    · cases e with
      | query t => simp only [histStep] at h1; exact Or.inl h1
      | recv sent t m =>
        simp only [histStep] at h1
        cases hu : unmarshal m with
        | none => simp only [hu] at h1; exact Or.inl h1
        | some c =>
          simp only [hu] at h1
          obtain ⟨act, id, addr⟩ := c
          cases act with
          | unregister =>
            simp only at h1
            by_cases hid : id = k
            · simp [hid] at h1
            · simp only [hid, if_false] at h1; exact Or.inl h1
          | register =>
            simp only at h1
            by_cases hid : id = k
            · simp only [hid, if_true, Option.some.injEq, Prod.mk.injEq] at h1
              right
              refine ⟨sent, m, ?_, ?_⟩
              · rw [← h1.2]; exact List.mem_cons_self
              · rw [hu, hid, h1.1]
            · simp only [hid, if_false] at h1; exact Or.inl h1
    · exact Or.inr ⟨sent, m, List.mem_cons_of_mem _ hm, hu⟩

/-- every handled message that names `k` is a register of `k` at address `a` -/
def OnlyReg (k a : Bytes) (evs : List Ev) : Prop :=
  ∀ s t m c, Ev.recv s t m ∈ evs → unmarshal m = some c → c.id = k → c = ⟨.register, k, a⟩

theorem OnlyReg.tail {k a : Bytes} {e : Ev} {es : List Ev} (h : OnlyReg k a (e :: es)) : OnlyReg k a es :=
  fun s t m c hm => h s t m c (List.mem_cons_of_mem _ hm)

/-- once registered at `a`, an id that is only ever re-registered at `a` stays in the history,
with a handling instant that never decreases -/
theorem hist_keeps {d : Int} (evs : List Ev) : ∀ (h : Hist) (k a : Bytes) (p t0 t : Int),
    h k = some (a, p) → p ≤ t0 → Timed d t0 evs t → OnlyReg k a evs →
    ∃ p', p ≤ p' ∧ evs.foldl histStep h k = some (a, p') := by
  induction evs with
  | nil => intro h k a p t0 t hh _ _ _; exact ⟨p, Int.le_refl _, hh⟩
  | cons e es ih =>
    intro h k a p t0 t hh hp hT hO
    obtain ⟨h1, _, h3⟩ := hT
    simp only [List.foldl_cons]
    have key : ∃ p1, p ≤ p1 ∧ p1 ≤ e.time ∧ histStep h e k = some (a, p1) := by
      cases e with
      | query t' => exact ⟨p, Int.le_refl _, by simp only [Ev.time] at h1 ⊢; omega, hh⟩
      | recv sent t' m =>
        simp only [Ev.time] at h1 ⊢
        simp only [histStep]
        cases hu : unmarshal m with
        | none => exact ⟨p, Int.le_refl _, by omega, hh⟩
        | some c =>
          simp only
          by_cases hid : c.id = k
          · have hc := hO sent t' m c List.mem_cons_self hu hid
            subst hc
            exact ⟨t', by omega, Int.le_refl _, by simp⟩
          · cases c.action with
            | unregister => simp only [hid, if_false]; exact ⟨p, Int.le_refl _, by omega, hh⟩
            | register => simp only [hid, if_false]; exact ⟨p, Int.le_refl _, by omega, hh⟩
    obtain ⟨p1, hp1, hp1e, hh1⟩ := key
    obtain ⟨p', hp', hres⟩ := ih _ k a p1 e.time t hh1 hp1e h3 hO.tail
    exact ⟨p', by omega, hres⟩

/-- a handled register of `k` at `a`, in a history that only ever re-registers `k` at `a`, leaves
`k` in the history with a handling instant at least as late -/
theorem hist_of_recv {d : Int} (evs : List Ev) : ∀ (h : Hist) (k a : Bytes) (sent p : Int) (m : Bytes) (t0 t : Int),
    Ev.recv sent p m ∈ evs → unmarshal m = some ⟨.register, k, a⟩ → Timed d t0 evs t → OnlyReg k a evs →
    ∃ p', p ≤ p' ∧ evs.foldl histStep h k = some (a, p') := by
  induction evs with
  | nil => intro h k a sent p m t0 t hm; simp at hm
  | cons e es ih =>
    intro h k a sent p m t0 t hm hu hT hO
    obtain ⟨h1, _, h3⟩ := hT
    simp only [List.foldl_cons]
    rcases List.mem_cons.mp hm with he | hm'
    · subst he
      have hs : histStep h (Ev.recv sent p m) k = some (a, p) := by simp [histStep, hu]
      exact hist_keeps es _ k a p p t hs (Int.le_refl _) h3 hO.tail
    · exact ih _ k a sent p m e.time t hm' hu h3 hO.tail

theorem timed_recv_delay {d : Int} (evs : List Ev) : ∀ (t0 t : Int), Timed d t0 evs t →
    ∀ s a m, Ev.recv s a m ∈ evs → s ≤ a ∧ a ≤ s + d ∧ t0 ≤ a ∧ a ≤ t := by
  induction evs with
  | nil => intro t0 t _ s a m hm; simp at hm
  | cons e es ih =>
    intro t0 t hT s a m hm
    obtain ⟨h1, h2, h3⟩ := hT
    have hmono : ∀ (es : List Ev) (t1 : Int), Timed d t1 es t → t1 ≤ t := by
      intro es
      induction es with
      | nil => intro t1 h; exact h
      | cons e' es' ih' => intro t1 h; have := ih' _ h.2.2; have := h.1; omega
    rcases List.mem_cons.mp hm with he | hm'
    · subst he
      simp only [Ev.DelayOK, Ev.time] at h1 h2 h3
      have := hmono es a h3
      exact ⟨h2.1, h2.2, h1, this⟩
    · have := ih e.time t h3 s a m hm'
      exact ⟨this.1, this.2.1, by omega, this.2.2.2⟩


/-! ## prefixes of a timed history -/

theorem timed_mem {d : Int} (evs : List Ev) : ∀ (t0 t : Int), Timed d t0 evs t →
    t0 ≤ t ∧ ∀ y ∈ evs, t0 ≤ y.time ∧ y.time ≤ t ∧ y.DelayOK d := by
  induction evs with
  | nil => intro t0 t h; exact ⟨h, by simp⟩
  | cons e es ih =>
    intro t0 t h
    obtain ⟨h1, h2, h3⟩ := h
    obtain ⟨i1, i2⟩ := ih e.time t h3
    refine ⟨by omega, ?_⟩
    intro y hy
    rcases List.mem_cons.mp hy with rfl | hy
    · exact ⟨h1, i1, h2⟩
    · have := i2 y hy
      exact ⟨by omega, this.2.1, this.2.2⟩

/-- cutting a timed history after the event `x`: the prefix is a timed history ending at `x`'s
instant, and everything after `x` happens no earlier -/
theorem timed_prefix {d : Int} (A : List Ev) (x : Ev) (B : List Ev) : ∀ (t0 t : Int),
    Timed d t0 (A ++ x :: B) t →
    Timed d t0 (A ++ [x]) x.time ∧ x.time ≤ t ∧ ∀ y ∈ B, x.time ≤ y.time ∧ y.DelayOK d := by
  induction A with
  | nil =>
    intro t0 t h
    obtain ⟨h1, h2, h3⟩ := h
    have := timed_mem B x.time t h3
    exact ⟨⟨h1, h2, Int.le_refl _⟩, this.1, fun y hy => ⟨(this.2 y hy).1, (this.2 y hy).2.2⟩⟩
  | cons a A ih =>
    intro t0 t h
    obtain ⟨h1, h2, h3⟩ := h
    obtain ⟨i1, i2, i3⟩ := ih a.time t h3
    exact ⟨⟨h1, h2, i1⟩, i2, i3⟩

theorem fair_prefix {P : Pubs} {d startT : Int} (A : List Ev) (x : Ev) (B : List Ev) (t : Int)
    (hT : Timed d startT (A ++ x :: B) t) (hF : Fair P d startT (A ++ x :: B) t) :
    Fair P d startT (A ++ [x]) x.time := by
  obtain ⟨_, hxt, hB⟩ := timed_prefix A x B startT t hT
  refine ⟨?_, ?_⟩
  · intro s a m hm
    apply hF.1 s a m
    simp only [List.mem_append, List.mem_cons, List.not_mem_nil, or_false] at hm ⊢
    rcases hm with h | h
    · exact Or.inl h
    · exact Or.inr (Or.inl h)
  · intro s m hP hs hsd
    obtain ⟨a, hm⟩ := hF.2 s m hP hs (by omega)
    refine ⟨a, ?_⟩
    simp only [List.mem_append, List.mem_cons, List.not_mem_nil, or_false] at hm ⊢
    rcases hm with h | h | h
    · exact Or.inl h
    · exact Or.inr h
    · obtain ⟨h1, h2⟩ := hB _ h
      change x.time ≤ a at h1
      change s ≤ a ∧ a ≤ s + d at h2
      omega

/-! ## change notification -/

theorem stepEvN_st (ttl : Int) (self : Node) (n : NSt) (e : Ev) :
    (stepEvN ttl self n e).st = stepEv ttl n.st e := by
  cases e with
  | query t => rfl
  | recv s t m =>
    simp only [stepEvN, stepEv, listenN]
    cases hu : unmarshal m with
    | none => simp [listen_none hu]
    | some c =>
      simp only [checkHashN]
      split <;> rfl

theorem runEvsN_st (ttl : Int) (self : Node) (startT : Int) (evs : List Ev) :
    (runEvsN ttl self startT evs).st = runEvs ttl self startT evs := by
  unfold runEvsN runEvs
  suffices ∀ (n : NSt) (s : St), n.st = s →
      (evs.foldl (stepEvN ttl self) n).st = evs.foldl (stepEv ttl) s from this _ _ rfl
  induction evs with
  | nil => intro n s h; exact h
  | cons e es ih =>
    intro n s h
    simp only [List.foldl_cons]
    exact ih _ _ (by rw [stepEvN_st, h])

/-- after a handled message the stored hash is that of the current id list -/
theorem stepEvN_lastKeys_handled (ttl : Int) (self : Node) (n : NSt) (e : Ev) (h : e.handled = true) :
    (stepEvN ttl self n e).lastKeys = some (sortedKeys (stepEvN ttl self n e).st) := by
  cases e with
  | query t => simp [Ev.handled] at h
  | recv s t m =>
    simp only [Ev.handled] at h
    simp only [stepEvN, listenN]
    cases hu : unmarshal m with
    | none => simp [hu] at h
    | some c =>
      simp only [checkHashN]
      split
      · assumption
      · rfl

/-- anything else leaves the stored hash and the callback's view alone: in particular an expiry
that a `GetPeers` call cleans up is **not** notified -/
theorem stepEvN_unhandled (ttl : Int) (self : Node) (n : NSt) (e : Ev) (h : e.handled = false) :
    (stepEvN ttl self n e).lastKeys = n.lastKeys ∧ (stepEvN ttl self n e).view = n.view := by
  cases e with
  | query t => exact ⟨rfl, rfl⟩
  | recv s t m =>
    simp only [Ev.handled] at h
    simp only [stepEvN, listenN]
    cases hu : unmarshal m with
    | none => exact ⟨rfl, rfl⟩
    | some c => simp [hu] at h

/-- every entry for a live node's id carries that node's address -/
def GoodItems (live : List Node) (items : AList Bytes (Bytes × Int)) : Prop :=
  ∀ k a e, (k, (a, e)) ∈ items → ∀ n ∈ live, n.id = k → a = n.addr

theorem good_filter {live : List Node} {items : AList Bytes (Bytes × Int)} (h : GoodItems live items)
    (f : Bytes × Bytes × Int → Bool) : GoodItems live (items.filter f) :=
  fun k a e hm => h k a e (List.mem_filter.mp hm).1

theorem good_stepEv {live : List Node} {ttl : Int} {s : St} (e : Ev)
    (hO : ∀ n ∈ live, ∀ sent t m c, e = Ev.recv sent t m → unmarshal m = some c → c.id = n.id →
      c = ⟨.register, n.id, n.addr⟩)
    (h : GoodItems live s.items) : GoodItems live (stepEv ttl s e).items := by
  cases e with
  | query t => exact good_filter h _
  | recv sent t m =>
    simp only [stepEv]
    cases hu : unmarshal m with
    | none => rw [listen_none hu]; exact h
    | some c =>
      obtain ⟨act, id, addr⟩ := c
      cases act with
      | unregister =>
        rw [listen_unreg hu]
        exact good_filter (good_filter h _) _
      | register =>
        rw [listen_reg hu]
        apply good_filter
        intro k a e hm n hn hk
        simp only [AList.put] at hm
        rcases List.mem_cons.mp hm with heq | hm'
        · simp only [Prod.mk.injEq] at heq
          have := hO n hn sent t m _ rfl hu (by simp [heq.1, hk])
          simp only [Cmd.mk.injEq] at this
          rw [heq.2.1, this.2.2]
        · exact good_filter h _ k a e hm' n hn hk

theorem nodup_cleanup {s : St} (h : AList.NoDupKeys s.items) : AList.NoDupKeys (cleanup s).items := by
  simpa [cleanup] using AList.nodup_keep _ h _

theorem nodup_stepEv {ttl : Int} {s : St} (e : Ev) (h : AList.NoDupKeys s.items) :
    AList.NoDupKeys (stepEv ttl s e).items := by
  cases e with
  | query t => exact nodup_cleanup (s := { s with now := t }) h
  | recv sent t m =>
    simp only [stepEv]
    cases hu : unmarshal m with
    | none => rw [listen_none hu]; exact h
    | some c =>
      obtain ⟨act, id, addr⟩ := c
      cases act with
      | unregister => rw [listen_unreg hu]; exact nodup_cleanup (AList.nodup_del _ h _)
      | register => rw [listen_reg hu]; exact nodup_cleanup (AList.nodup_put _ h _ _)

/-- what the callback last saw is `GetPeers` of some earlier state of the node, namely the one
whose id list the stored hash describes -/
def ViewInv (live : List Node) (self : Node) (n : NSt) : Prop :=
  match n.lastKeys, n.view with
  | none, none => True
  | some ks, some v => ∃ s0 : St, GoodItems live s0.items ∧ AList.NoDupKeys s0.items ∧
      ks = sortedKeys s0 ∧ v = getPeers self s0
  | _, _ => False

theorem viewInv_stepEvN {live : List Node} {ttl : Int} {self : Node} {n : NSt} (e : Ev)
    (hg : GoodItems live (stepEvN ttl self n e).st.items)
    (hn : AList.NoDupKeys (stepEvN ttl self n e).st.items)
    (h : ViewInv live self n) : ViewInv live self (stepEvN ttl self n e) := by
  cases hh : e.handled with
  | false =>
    obtain ⟨h1, h2⟩ := stepEvN_unhandled ttl self n e hh
    unfold ViewInv
    rw [h1, h2]
    exact h
  | true =>
    cases e with
    | query t => simp [Ev.handled] at hh
    | recv s t m =>
      simp only [Ev.handled] at hh
      simp only [stepEvN, listenN] at hg hn ⊢
      cases hu : unmarshal m with
      | none => simp [hu] at hh
      | some c =>
        simp only [hu, checkHashN] at hg hn ⊢
        split
        · exact h
        · rename_i hne
          simp only [hne, if_false] at hg hn
          exact ⟨_, hg, hn, rfl, rfl⟩

end Refinery.Model.Peers
