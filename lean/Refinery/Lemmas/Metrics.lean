import Refinery.Model.Metrics
/-!
# Locality of the metrics store (helper lemmas for C33)

For one name `k` the store is an independent little machine: its `View` (the entry of `k` in each
of the five maps) after a call depends only on the view before it (`view_step`), and `Get(k)`
reads only the view (`get_eq_vget`).  The property theorems are then proved on
`ops.foldl (vstep keep k) View.empty` by plain list induction; closed forms per field follow.
-/
set_option linter.unusedSimpArgs false
set_option linter.unusedSectionVars false
set_option linter.unusedVariables false

namespace Refinery.Lemmas.Metrics
open Refinery Refinery.Model.Metrics

/-- the entries of one name in the five maps -/
structure View where
  ty : Option MType := none
  c : Option Nat := none
  g : Option Int := none
  u : Option Int := none
  s : Option Int := none
  deriving Repr, DecidableEq

def orZero {α : Type} (zero : α) : Option α → α
  | some v => v
  | none => zero

/-- `initEntry` on one entry -/
def initV {α : Type} (keep : Bool) (zero : α) : Option α → Option α
  | some v => if keep then some v else some zero
  | none => some zero

section
variable {κ : Type} [DecidableEq κ]

def view (s : St κ) (k : κ) : View :=
  { ty := AList.get s.types k, c := AList.get s.counters k, g := AList.get s.gauges k,
    u := AList.get s.updowns k, s := AList.get s.stores k }

/-- the effect of one call on the view of `k` -/
def vstep (keep : Bool) (k : κ) (v : View) : Op κ → View
  | .register n ty =>
    if n = k then
      match ty with
      | .counter => { v with ty := some ty, c := initV keep 0 v.c }
      | .gauge => { v with ty := some ty, g := initV keep 0 v.g }
      | .updown => { v with ty := some ty, u := initV keep 0 v.u }
      | .histogram => { v with ty := some ty }
    else v
  | .increment n => if n = k then { v with c := some ((orZero 0 v.c + 1) % u64) } else v
  | .count n d => if n = k then { v with c := some ((orZero 0 v.c + toU64 d) % u64) } else v
  | .gauge n x => if n = k then { v with g := some x } else v
  | .histogram _ _ => v
  | .up n => if n = k then { v with u := some (orZero 0 v.u + 1) } else v
  | .down n => if n = k then { v with u := some (orZero 0 v.u - 1) } else v
  | .store n x => if n = k then { v with s := some x } else v
  | .get _ => v

/-- `Get` on a view -/
def vget (v : View) : Option Int :=
  match v.s with
  | some x => some x
  | none =>
    match v.ty with
    | none =>
      match v.c with
      | some c => some (f64OfNat c : Int)
      | none =>
        match v.g with
        | some g => some g
        | none =>
          match v.u with
          | some u => some (f64OfInt u)
          | none => none
    | some .counter => v.c.map (fun c => (f64OfNat c : Int))
    | some .gauge => v.g
    | some .updown => v.u.map f64OfInt
    | some .histogram => none

theorem get_eq_vget (s : St κ) (k : κ) : Model.Metrics.get s k = vget (view s k) := by
  unfold Model.Metrics.get vget view
  rfl

theorem loadOrZero_eq {α : Type} (zero : α) (m : AList κ α) (k : κ) :
    loadOrZero zero m k = orZero zero (AList.get m k) := by
  unfold loadOrZero orZero
  cases AList.get m k <;> rfl

theorem get_initEntry {α : Type} (keep : Bool) (zero : α) (m : AList κ α) (n k : κ) :
    AList.get (initEntry keep zero m n) k =
      if n = k then initV keep zero (AList.get m k) else AList.get m k := by
  unfold initEntry initV
  by_cases h : n = k
  · subst h
    cases keep <;> cases hg : AList.get m n <;> simp [AList.get_put, hg]
  · cases keep <;> cases hg : AList.get m n <;> simp [AList.get_put, h]

/-- **Locality**: the view of `k` after a call is a function of the view before it. -/
theorem view_step (keep : Bool) (s : St κ) (op : Op κ) (k : κ) :
    view (step keep s op) k = vstep keep k (view s k) op := by
  cases op with
  | register n ty =>
    by_cases h : n = k
    · cases ty <;> simp [step, vstep, view, AList.get_put, get_initEntry, h]
    · cases ty <;> simp [step, vstep, view, AList.get_put, get_initEntry, h]
  | increment n =>
    by_cases h : n = k <;> simp [step, vstep, view, AList.get_put, loadOrZero_eq, h]
  | count n d =>
    by_cases h : n = k <;> simp [step, vstep, view, AList.get_put, loadOrZero_eq, h]
  | gauge n x =>
    by_cases h : n = k <;> simp [step, vstep, view, AList.get_put, h]
  | histogram n x => simp [step, vstep]
  | up n =>
    by_cases h : n = k <;> simp [step, vstep, view, AList.get_put, loadOrZero_eq, h]
  | down n =>
    by_cases h : n = k <;> simp [step, vstep, view, AList.get_put, loadOrZero_eq, h]
  | store n x =>
    by_cases h : n = k <;> simp [step, vstep, view, AList.get_put, h]
  | get n => simp [step, vstep]

theorem view_runFrom (keep : Bool) (s : St κ) (ops : List (Op κ)) (k : κ) :
    view (runFrom keep s ops) k = ops.foldl (vstep keep k) (view s k) := by
  unfold runFrom
  induction ops generalizing s with
  | nil => rfl
  | cons o os ih => simp only [List.foldl_cons]; rw [ih, view_step]

theorem view_run (keep : Bool) (ops : List (Op κ)) (k : κ) :
    view (run keep ops) k = ops.foldl (vstep keep k) {} := by
  unfold run; rw [view_runFrom]; rfl

theorem get_run (keep : Bool) (ops : List (Op κ)) (k : κ) :
    Model.Metrics.get (run keep ops) k = vget (ops.foldl (vstep keep k) {}) := by
  rw [get_eq_vget, view_run]

/-! ## Field-wise closed forms of `foldl vstep` -/

/-- the fold that defines `csum`, from an arbitrary start -/
theorem foldl_add_start (f : Op κ → Int) (a : Int) (ops : List (Op κ)) :
    ops.foldl (fun a op => a + f op) a = a + ops.foldl (fun a op => a + f op) 0 := by
  induction ops generalizing a with
  | nil => simp
  | cons o os ih => simp only [List.foldl_cons]; rw [ih (a + f o), ih (0 + f o)]; omega

theorem csum_cons (k : κ) (o : Op κ) (os : List (Op κ)) : csum k (o :: os) = cplain k o + csum k os := by
  unfold csum; simp only [List.foldl_cons]; rw [foldl_add_start]; omega

theorem csum_append (k : κ) (l₁ l₂ : List (Op κ)) : csum k (l₁ ++ l₂) = csum k l₁ + csum k l₂ := by
  induction l₁ with
  | nil => simp [csum]
  | cons o os ih => simp only [List.cons_append, csum_cons, ih]; omega

theorem udiff_cons (k : κ) (o : Op κ) (os : List (Op κ)) : udiff k (o :: os) = uplain k o + udiff k os := by
  unfold udiff; simp only [List.foldl_cons]; rw [foldl_add_start]; omega

theorem udiff_append (k : κ) (l₁ l₂ : List (Op κ)) : udiff k (l₁ ++ l₂) = udiff k l₁ + udiff k l₂ := by
  induction l₁ with
  | nil => simp [udiff]
  | cons o os ih => simp only [List.cons_append, udiff_cons, ih]; omega

/-- a call that creates the counter entry of `k` -/
def ctouch (k : κ) : Op κ → Bool
  | .register n ty => n = k ∧ ty = .counter
  | .increment n => n = k
  | .count n _ => n = k
  | _ => false

def gtouch (k : κ) : Op κ → Bool
  | .register n ty => n = k ∧ ty = .gauge
  | .gauge n _ => n = k
  | _ => false

def utouch (k : κ) : Op κ → Bool
  | .register n ty => n = k ∧ ty = .updown
  | .up n => n = k
  | .down n => n = k
  | _ => false

/-- the type field is the last registration -/
theorem ty_foldl (keep : Bool) (k : κ) (ops : List (Op κ)) (v : View) :
    (ops.foldl (vstep keep k) v).ty =
      ops.foldl (fun a op => match op with | .register n ty => if n = k then some ty else a | _ => a) v.ty := by
  induction ops generalizing v with
  | nil => rfl
  | cons o os ih =>
    simp only [List.foldl_cons]; rw [ih]
    congr 1
    cases o with
    | register n ty => by_cases h : n = k <;> cases ty <;> simp [vstep, h]
    | increment n => by_cases h : n = k <;> simp [vstep, h]
    | count n d => by_cases h : n = k <;> simp [vstep, h]
    | gauge n x => by_cases h : n = k <;> simp [vstep, h]
    | histogram n x => simp [vstep]
    | up n => by_cases h : n = k <;> simp [vstep, h]
    | down n => by_cases h : n = k <;> simp [vstep, h]
    | store n x => by_cases h : n = k <;> simp [vstep, h]
    | get n => simp [vstep]

theorem ty_run (keep : Bool) (k : κ) (ops : List (Op κ)) :
    (ops.foldl (vstep keep k) {}).ty = lastReg k ops := by
  rw [ty_foldl]; rfl

/-- the store field is the last `Store` -/
theorem s_foldl (keep : Bool) (k : κ) (ops : List (Op κ)) (v : View) :
    (ops.foldl (vstep keep k) v).s =
      ops.foldl (fun a op => match op with | .store n x => if n = k then some x else a | _ => a) v.s := by
  induction ops generalizing v with
  | nil => rfl
  | cons o os ih =>
    simp only [List.foldl_cons]; rw [ih]
    congr 1
    cases o with
    | register n ty => by_cases h : n = k <;> cases ty <;> simp [vstep, h]
    | increment n => by_cases h : n = k <;> simp [vstep, h]
    | count n d => by_cases h : n = k <;> simp [vstep, h]
    | gauge n x => by_cases h : n = k <;> simp [vstep, h]
    | histogram n x => simp [vstep]
    | up n => by_cases h : n = k <;> simp [vstep, h]
    | down n => by_cases h : n = k <;> simp [vstep, h]
    | store n x => by_cases h : n = k <;> simp [vstep, h]
    | get n => simp [vstep]

theorem s_run (keep : Bool) (k : κ) (ops : List (Op κ)) :
    (ops.foldl (vstep keep k) {}).s = slast k ops := by
  rw [s_foldl]; rfl

/-- value of a counter entry that is or becomes `base + delta (mod 2^64)` -/
def cval (base : Option Nat) (touched : Bool) (delta : Int) : Option Nat :=
  match base with
  | some b => some (((b : Int) + delta) % (u64 : Int)).toNat
  | none => if touched then some (delta % (u64 : Int)).toNat else none

/-- **Counter closed form.**  If `Register` keeps existing entries (`keep = true`), or the history
contains no `Register(k, Counter)`, the counter entry of `k` is its start value plus the sum of all
increments and counts, modulo 2^64 (created at the first touching call). -/
theorem c_foldl (keep : Bool) (k : κ) (ops : List (Op κ)) (v : View)
    (hb : ∀ b, v.c = some b → b < u64)
    (h : keep = true ∨ ¬ Registers k .counter ops) :
    (ops.foldl (vstep keep k) v).c = cval v.c (ops.any (ctouch k)) (csum k ops) := by
  induction ops generalizing v with
  | nil =>
    cases hc : v.c with
    | none => simp [cval, csum, hc]
    | some b =>
      have := hb b hc
      simp only [List.foldl_nil, hc, cval, csum, Int.add_zero, u64] at this ⊢
      all_goals (first | omega | (congr 1 <;> omega))
  | cons o os ih =>
    have h' : keep = true ∨ ¬ Registers k .counter os := by
      rcases h with h | h
      · exact Or.inl h
      · exact Or.inr (fun hm => h (List.mem_cons_of_mem _ hm))
    simp only [List.foldl_cons, List.any_cons, csum_cons]
    have hstep : (vstep keep k v o).c = cval v.c (ctouch k o) (cplain k o) ∨
        (∃ b, v.c = some b ∧ (vstep keep k v o).c = some 0 ∧ keep = false ∧ o = .register k .counter) := by
      cases o with
      | register n ty =>
        by_cases hn : n = k
        · subst hn
          cases ty with
          | counter =>
            cases hc : v.c with
            | none => left; simp [vstep, initV, cval, ctouch, cplain, hc]
            | some b =>
              cases keep with
              | true =>
                left
                have := hb b hc
                simp only [vstep, initV, cval, ctouch, cplain, hc, if_true, Int.add_zero, u64] at this ⊢
                all_goals (first | omega | (congr 1 <;> omega))
              | false => right; exact ⟨b, rfl, by simp [vstep, initV, hc], rfl, rfl⟩
          | gauge =>
            left; cases hc : v.c with
            | none => simp [vstep, cval, ctouch, hc]
            | some b => have := hb b hc; simp only [vstep, cval, ctouch, cplain, hc, u64, Int.add_zero] at this ⊢; all_goals (first | omega | (simp; omega))
          | updown =>
            left; cases hc : v.c with
            | none => simp [vstep, cval, ctouch, hc]
            | some b => have := hb b hc; simp only [vstep, cval, ctouch, cplain, hc, u64, Int.add_zero] at this ⊢; all_goals (first | omega | (simp; omega))
          | histogram =>
            left; cases hc : v.c with
            | none => simp [vstep, cval, ctouch, hc]
            | some b => have := hb b hc; simp only [vstep, cval, ctouch, cplain, hc, u64, Int.add_zero] at this ⊢; all_goals (first | omega | (simp; omega))
        · left
          cases hc : v.c with
          | none => simp [vstep, cval, ctouch, hn, hc]
          | some b => have := hb b hc; simp only [vstep, cval, ctouch, cplain, hn, hc, u64, Int.add_zero, if_false] at this ⊢; all_goals (first | omega | (simp; omega))
      | increment n =>
        left
        by_cases hn : n = k
        · cases hc : v.c with
          | none => simp [vstep, cval, ctouch, cplain, orZero, hn, hc, u64]
          | some b =>
            simp only [vstep, cval, ctouch, cplain, orZero, hn, hc, u64, if_true]
            all_goals (first | omega | (congr 1 <;> omega))
        · cases hc : v.c with
          | none => simp [vstep, cval, ctouch, hn, hc]
          | some b => have := hb b hc; simp only [vstep, cval, ctouch, cplain, hn, hc, u64, Int.add_zero, if_false] at this ⊢; all_goals (first | omega | (simp; omega))
      | count n d =>
        left
        by_cases hn : n = k
        · cases hc : v.c with
          | none =>
            simp only [vstep, cval, ctouch, cplain, orZero, toU64, hn, hc, u64, if_true, decide_true]
            all_goals (first | omega | (congr 1 <;> omega))
          | some b =>
            simp only [vstep, cval, ctouch, cplain, orZero, toU64, hn, hc, u64, if_true]
            all_goals (first | omega | (congr 1 <;> omega))
        · cases hc : v.c with
          | none => simp [vstep, cval, ctouch, hn, hc]
          | some b => have := hb b hc; simp only [vstep, cval, ctouch, cplain, hn, hc, u64, Int.add_zero, if_false] at this ⊢; all_goals (first | omega | (simp; omega))
      | gauge n x =>
        left
        by_cases hn : n = k <;> cases hc : v.c with
          | none => simp [vstep, cval, ctouch, hn, hc]
          | some b => have := hb b hc; simp only [vstep, cval, ctouch, cplain, hn, hc, u64, Int.add_zero, if_false, if_true] at this ⊢; all_goals (first | omega | (simp; omega))
      | histogram n x =>
        left
        cases hc : v.c with
          | none => simp [vstep, cval, ctouch, hc]
          | some b => have := hb b hc; simp only [vstep, cval, ctouch, cplain, hc, u64, Int.add_zero] at this ⊢; all_goals (first | omega | (simp; omega))
      | up n =>
        left
        by_cases hn : n = k <;> cases hc : v.c with
          | none => simp [vstep, cval, ctouch, hn, hc]
          | some b => have := hb b hc; simp only [vstep, cval, ctouch, cplain, hn, hc, u64, Int.add_zero, if_false, if_true] at this ⊢; all_goals (first | omega | (simp; omega))
      | down n =>
        left
        by_cases hn : n = k <;> cases hc : v.c with
          | none => simp [vstep, cval, ctouch, hn, hc]
          | some b => have := hb b hc; simp only [vstep, cval, ctouch, cplain, hn, hc, u64, Int.add_zero, if_false, if_true] at this ⊢; all_goals (first | omega | (simp; omega))
      | store n x =>
        left
        by_cases hn : n = k <;> cases hc : v.c with
          | none => simp [vstep, cval, ctouch, hn, hc]
          | some b => have := hb b hc; simp only [vstep, cval, ctouch, cplain, hn, hc, u64, Int.add_zero, if_false, if_true] at this ⊢; all_goals (first | omega | (simp; omega))
      | get n =>
        left
        cases hc : v.c with
          | none => simp [vstep, cval, ctouch, hc]
          | some b => have := hb b hc; simp only [vstep, cval, ctouch, cplain, hc, u64, Int.add_zero] at this ⊢; all_goals (first | omega | (simp; omega))
    rcases hstep with hstep | ⟨b, _, _, hk, ho⟩
    · have hb' : ∀ b, (vstep keep k v o).c = some b → b < u64 := by
        intro b hbb
        rw [hstep] at hbb
        unfold cval at hbb
        cases hc : v.c with
        | none =>
          simp only [hc] at hbb
          by_cases ht : ctouch k o = true
          · simp only [ht, if_true, Option.some.injEq, u64] at hbb ⊢; omega
          · simp [ht] at hbb
        | some b0 =>
          simp only [hc, Option.some.injEq, u64] at hbb ⊢; omega
      rw [ih _ hb' h', hstep]
      unfold cval
      cases hc : v.c with
      | none =>
        by_cases ht : ctouch k o = true
        · simp only [ht, if_true, Bool.true_or, u64]
          all_goals (first | omega | (congr 1 <;> omega))
        · simp only [ht, Bool.false_eq_true, if_false, Bool.false_or]
          by_cases ht2 : os.any (ctouch k) = true
          · have hz : cplain k o = 0 := by
              cases o <;> simp_all [ctouch, cplain]
            simp [ht2, hz]
          · simp [ht2]
      | some b0 =>
        simp only [u64]
        all_goals (first | omega | (congr 1 <;> omega))
    · rcases h with h | h
      · rw [h] at hk; cases hk
      · exact absurd (by rw [ho]; exact List.mem_cons_self) h

/-- one step of the fold that defines `glast` -/
def gstep (k : κ) (a : Int) : Op κ → Int
  | .gauge n x => if n = k then x else a
  | _ => a

theorem glast_eq (k : κ) (ops : List (Op κ)) : glast k ops = ops.foldl (gstep k) 0 := by
  unfold glast
  congr 1

/-- value of a gauge entry: the last value set, else what it was (created at 0) -/
def gval (k : κ) (base : Option Int) (touched : Bool) (ops : List (Op κ)) : Option Int :=
  match base with
  | some b => some (ops.foldl (gstep k) b)
  | none => if touched then some (ops.foldl (gstep k) 0) else none

/-- **Gauge closed form** (same side condition as `c_foldl`). -/
theorem g_foldl (keep : Bool) (k : κ) (ops : List (Op κ)) (v : View)
    (h : keep = true ∨ ¬ Registers k .gauge ops) :
    (ops.foldl (vstep keep k) v).g = gval k v.g (ops.any (gtouch k)) ops := by
  induction ops generalizing v with
  | nil => cases hg : v.g <;> simp [gval, hg]
  | cons o os ih =>
    have h' : keep = true ∨ ¬ Registers k .gauge os := by
      rcases h with h | h
      · exact Or.inl h
      · exact Or.inr (fun hm => h (List.mem_cons_of_mem _ hm))
    simp only [List.foldl_cons, List.any_cons]
    rw [ih _ h']
    cases o with
    | register n ty =>
      by_cases hn : n = k
      · subst hn
        cases ty with
        | gauge =>
          cases keep with
          | true => cases hg : v.g <;> simp [vstep, initV, gval, gtouch, gstep, hg]
          | false =>
            rcases h with h | h
            · cases h
            · exact absurd List.mem_cons_self h
        | counter => cases hg : v.g <;> simp [vstep, gval, gtouch, gstep, hg]
        | updown => cases hg : v.g <;> simp [vstep, gval, gtouch, gstep, hg]
        | histogram => cases hg : v.g <;> simp [vstep, gval, gtouch, gstep, hg]
      · cases hg : v.g <;> simp [vstep, gval, gtouch, gstep, hg, hn]
    | increment n => by_cases hn : n = k <;> cases hg : v.g <;> simp [vstep, gval, gtouch, gstep, hg, hn]
    | count n d => by_cases hn : n = k <;> cases hg : v.g <;> simp [vstep, gval, gtouch, gstep, hg, hn]
    | gauge n x => by_cases hn : n = k <;> cases hg : v.g <;> simp [vstep, gval, gtouch, gstep, hg, hn]
    | histogram n x => cases hg : v.g <;> simp [vstep, gval, gtouch, gstep, hg]
    | up n => by_cases hn : n = k <;> cases hg : v.g <;> simp [vstep, gval, gtouch, gstep, hg, hn]
    | down n => by_cases hn : n = k <;> cases hg : v.g <;> simp [vstep, gval, gtouch, gstep, hg, hn]
    | store n x => by_cases hn : n = k <;> cases hg : v.g <;> simp [vstep, gval, gtouch, gstep, hg, hn]
    | get n => cases hg : v.g <;> simp [vstep, gval, gtouch, gstep, hg]

/-- value of an up-down entry: start value plus ups minus downs -/
def uval (base : Option Int) (touched : Bool) (delta : Int) : Option Int :=
  match base with
  | some b => some (b + delta)
  | none => if touched then some delta else none

/-- **Up-down closed form** (same side condition as `c_foldl`). -/
theorem u_foldl (keep : Bool) (k : κ) (ops : List (Op κ)) (v : View)
    (h : keep = true ∨ ¬ Registers k .updown ops) :
    (ops.foldl (vstep keep k) v).u = uval v.u (ops.any (utouch k)) (udiff k ops) := by
  induction ops generalizing v with
  | nil => cases hu : v.u <;> simp [uval, udiff, hu]
  | cons o os ih =>
    have h' : keep = true ∨ ¬ Registers k .updown os := by
      rcases h with h | h
      · exact Or.inl h
      · exact Or.inr (fun hm => h (List.mem_cons_of_mem _ hm))
    simp only [List.foldl_cons, List.any_cons, udiff_cons]
    rw [ih _ h']
    have hz : os.any (utouch k) = false → True := fun _ => trivial
    cases o with
    | register n ty =>
      by_cases hn : n = k
      · subst hn
        cases ty with
        | updown =>
          cases keep with
          | true => cases hu : v.u <;> simp [vstep, initV, uval, utouch, uplain, hu]
          | false =>
            rcases h with h | h
            · cases h
            · exact absurd List.mem_cons_self h
        | counter => cases hu : v.u <;> simp [vstep, uval, utouch, uplain, hu]
        | gauge => cases hu : v.u <;> simp [vstep, uval, utouch, uplain, hu]
        | histogram => cases hu : v.u <;> simp [vstep, uval, utouch, uplain, hu]
      · cases hu : v.u <;> simp [vstep, uval, utouch, uplain, hu, hn]
    | increment n => by_cases hn : n = k <;> cases hu : v.u <;> simp [vstep, uval, utouch, uplain, hu, hn]
    | count n d => by_cases hn : n = k <;> cases hu : v.u <;> simp [vstep, uval, utouch, uplain, hu, hn]
    | gauge n x => by_cases hn : n = k <;> cases hu : v.u <;> simp [vstep, uval, utouch, uplain, hu, hn]
    | histogram n x => cases hu : v.u <;> simp [vstep, uval, utouch, uplain, hu]
    | up n =>
      by_cases hn : n = k <;> cases hu : v.u <;> simp [vstep, uval, utouch, uplain, orZero, hu, hn] <;> omega
    | down n =>
      by_cases hn : n = k <;> cases hu : v.u <;> simp [vstep, uval, utouch, uplain, orZero, hu, hn] <;> omega
    | store n x => by_cases hn : n = k <;> cases hu : v.u <;> simp [vstep, uval, utouch, uplain, hu, hn]
    | get n => cases hu : v.u <;> simp [vstep, uval, utouch, uplain, hu]

end
end Refinery.Lemmas.Metrics
