import Refinery.Model.Metrics
/-!
# Locality of the metrics store (helper lemmas for C33)

For one name `k` the store is an independent little machine: its `View` (the entry of `k` in each
of the five maps) after a call depends only on the view before it (`view_step`), and `Get(k)`
reads only the view (`get_eq_vget`).  The property theorems are then proved on
`ops.foldl (vstep keep k) View.empty` by plain list induction; closed forms per field follow.
-/
set_option linter.unusedSimpArgs false
set_option linter.unusedSectionVars false
set_option linter.unusedVariables false

namespace Refinery.Lemmas.Metrics
open Refinery Refinery.Model.Metrics

/-- the entries of one name in the five maps -/
structure View where
  ty : Option MType := none
  c : Option Nat := none
  g : Option Int := none
  u : Option Int := none
  s : Option Int := none
  deriving Repr, DecidableEq

def orZero {α : Type} (zero : α) : Option α → α
  | some v => v
  | none => zero

/-- `initEntry` on one entry -/
def initV {α : Type} (keep : Bool) (zero : α) : Option α → Option α
  | some v => if keep then some v else some zero
  | none => some zero

section
variable {κ : Type} [DecidableEq κ]

def view (s : St κ) (k : κ) : View :=
  { ty := AList.get s.types k, c := AList.get s.counters k, g := AList.get s.gauges k,
    u := AList.get s.updowns k, s := AList.get s.stores k }

/-- the effect of one call on the view of `k` -/
def vstep (keep : Bool) (k : κ) (v : View) : Op κ → View
  | .register n ty =>
    if n = k then
      match ty with
      | .counter => { v with ty := some ty, c := initV keep 0 v.c }
      | .gauge => { v with ty := some ty, g := initV keep 0 v.g }
      | .updown => { v with ty := some ty, u := initV keep 0 v.u }
      | .histogram => { v with ty := some ty }
    else v
  | .increment n => if n = k then { v with c := some ((orZero 0 v.c + 1) % u64) } else v
  | .count n d => if n = k then { v with c := some ((orZero 0 v.c + toU64 d) % u64) } else v
  | .gauge n x => if n = k then { v with g := some x } else v
  | .histogram _ _ => v
  | .up n => if n = k then { v with u := some (orZero 0 v.u + 1) } else v
  | .down n => if n = k then { v with u := some (orZero 0 v.u - 1) } else v
  | .store n x => if n = k then { v with s := some x } else v
  | .get _ => v

/-- `Get` on a view -/
def vget (v : View) : Option Int :=
  match v.s with
  | some x => some x
  | none =>
    match v.ty with
    | none =>
      match v.c with
      | some c => some (f64OfNat c : Int)
      | none =>
        match v.g with
        | some g => some g
        | none =>
          match v.u with
          | some u => some (f64OfInt u)
          | none => none
    | some .counter => v.c.map (fun c => (f64OfNat c : Int))
    | some .gauge => v.g
    | some .updown => v.u.map f64OfInt
    | some .histogram => none

theorem get_eq_vget (s : St κ) (k : κ) : Model.Metrics.get s k = vget (view s k) := by
  unfold Model.Metrics.get vget view
  rfl

theorem loadOrZero_eq {α : Type} (zero : α) (m : AList κ α) (k : κ) :
    loadOrZero zero m k = orZero zero (AList.get m k) := by
  unfold loadOrZero orZero
  cases AList.get m k <;> rfl

theorem get_initEntry {α : Type} (keep : Bool) (zero : α) (m : AList κ α) (n k : κ) :
    AList.get (initEntry keep zero m n) k =
      if n = k then initV keep zero (AList.get m k) else AList.get m k := by
  unfold initEntry initV
  by_cases h : n = k
  · subst h
    cases keep <;> cases hg : AList.get m n <;> simp [AList.get_put, hg]
  · cases keep <;> cases hg : AList.get m n <;> simp [AList.get_put, h]

/-- **Locality**: the view of `k` after a call is a function of the view before it. -/
theorem view_step (keep : Bool) (s : St κ) (op : Op κ) (k : κ) :
    view (step keep s op) k = vstep keep k (view s k) op := by
  cases op with
  | register n ty =>
    by_cases h : n = k
    · cases ty <;> simp [step, vstep, view, AList.get_put, get_initEntry, h]
    · cases ty <;> simp [step, vstep, view, AList.get_put, get_initEntry, h]
  | increment n =>
    by_cases h : n = k <;> simp [step, vstep, view, AList.get_put, loadOrZero_eq, h]
  | count n d =>
    by_cases h : n = k <;> simp [step, vstep, view, AList.get_put, loadOrZero_eq, h]
  | gauge n x =>
    by_cases h : n = k <;> simp [step, vstep, view, AList.get_put, h]
  | histogram n x => simp [step, vstep]
  | up n =>
    by_cases h : n = k <;> simp [step, vstep, view, AList.get_put, loadOrZero_eq, h]
  | down n =>
    by_cases h : n = k <;> simp [step, vstep, view, AList.get_put, loadOrZero_eq, h]
  | store n x =>
    by_cases h : n = k <;> simp [step, vstep, view, AList.get_put, h]
  | get n => simp [step, vstep]

theorem view_runFrom (keep : Bool) (s : St κ) (ops : List (Op κ)) (k : κ) :
    view (runFrom keep s ops) k = ops.foldl (vstep keep k) (view s k) := by
  unfold runFrom
  induction ops generalizing s with
  | nil => rfl
  | cons o os ih => simp only [List.foldl_cons]; rw [ih, view_step]

theorem view_run (keep : Bool) (ops : List (Op κ)) (k : κ) :
    view (run keep ops) k = ops.foldl (vstep keep k) {} := by
  unfold run; rw [view_runFrom]; rfl

theorem get_run (keep : Bool) (ops : List (Op κ)) (k : κ) :
    Model.Metrics.get (run keep ops) k = vget (ops.foldl (vstep keep k) {}) := by
  rw [get_eq_vget, view_run]

/-! ## Field-wise closed forms of `foldl vstep` -/

/-- the fold that defines `csum`, from an arbitrary start -/
theorem foldl_add_start (f : Op κ → Int) (a : Int) (ops : List (Op κ)) :
    ops.foldl (fun a op => a + f op) a = a + ops.foldl (fun a op => a + f op) 0 := by
  induction ops generalizing a with
  | nil => simp
  | cons o os ih => simp only [List.foldl_cons]; rw [ih (a + f o), ih (0 + f o)]; omega

theorem csum_cons (k : κ) (o : Op κ) (os : List (Op κ)) : csum k (o :: os) = cplain k o + csum k os := by
  unfold csum; simp only [List.foldl_cons]; rw [foldl_add_start]; omega

theorem csum_append (k : κ) (l₁ l₂ : List (Op κ)) : csum k (l₁ ++ l₂) = csum k l₁ + csum k l₂ := by
  induction l₁ with
  | nil => simp [csum]
  | cons o os ih => simp only [List.cons_append, csum_cons, ih]; omega

theorem udiff_cons (k : κ) (o : Op κ) (os : List (Op κ)) : udiff k (o :: os) = uplain k o + udiff k os := by
  unfold udiff; simp only [List.foldl_cons]; rw [foldl_add_start]; omega

theorem udiff_append (k : κ) (l₁ l₂ : List (Op κ)) : udiff k (l₁ ++ l₂) = udiff k l₁ + udiff k l₂ := by
  induction l₁ with
  | nil => simp [udiff]
  | cons o os ih => simp only [List.cons_append, udiff_cons, ih]; omega

/-- a call that creates the counter entry of `k` -/
def ctouch (k : κ) : Op κ → Bool
  | .register n ty => n = k ∧ ty = .counter
  | .increment n => n = k
  | .count n _ => n = k
  | _ => false

def gtouch (k : κ) : Op κ → Bool
  | .register n ty => n = k ∧ ty = .gauge
  | .gauge n _ => n = k
  | _ => false

def utouch (k : κ) : Op κ → Bool
  | .register n ty => n = k ∧ ty = .updown
  | .up n => n = k
  | .down n => n = k
  | _ => false

/-- the type field is the last registration -/
theorem ty_foldl (keep : Bool) (k : κ) (ops : List (Op κ)) (v : View) :
    (ops.foldl (vstep keep k) v).ty =
      ops.foldl (fun a op => match op with | .register n ty => if n = k then some ty else a | _ => a) v.ty := by
  induction ops generalizing v with
  | nil => rfl
  | cons o os ih =>
    simp only [List.foldl_cons]; rw [ih]
    congr 1
    cases o with
    | register n ty => by_cases h : n = k <;> cases ty <;> simp [vstep, h]
    | increment n => by_cases h : n = k <;> simp [vstep, h]
    | count n d => by_cases h : n = k <;> simp [vstep, h]
    | gauge n x => by_cases h : n = k <;> simp [vstep, h]
    | histogram n x => simp [vstep]
    | up n => by_cases h : n = k <;> simp [vstep, h]
    | down n => by_cases h : n = k <;> simp [vstep, h]
    | store n x => by_cases h : n = k <;> simp [vstep, h]
    | get n => simp [vstep]

theorem ty_run (keep : Bool) (k : κ) (ops : List (Op κ)) :
    (ops.foldl (vstep keep k) {}).ty = lastReg k ops := by
  rw [ty_foldl]; rfl

/-- the store field is the last `Store` -/
theorem s_foldl (keep : Bool) (k : κ) (ops : List (Op κ)) (v : View) :
    (ops.foldl (vstep keep k) v).s =
      ops.foldl (fun a op => match op with | .store n x => if n = k then some x else a | _ => a) v.s := by
  induction ops generalizing v with
  | nil => rfl
  | cons o os ih =>
    simp only [List.foldl_cons]; rw [ih]
    congr 1
    cases o with
    | register n ty => by_cases h : n = k <;> cases ty <;> simp [vstep, h]
    | increment n => by_cases h : n = k <;> simp [vstep, h]
    | count n d => by_cases h : n = k <;> simp [vstep, h]
    | gauge n x => by_cases h : n = k <;> simp [vstep, h]
    | histogram n x => simp [vstep]
    | up n => by_cases h : n = k <;> simp [vstep, h]
    | down n => by_cases h : n = k <;> simp [vstep, h]
    | store n x => by_cases h : n = k <;> simp [vstep, h]
    | get n => simp [vstep]

theorem s_run (keep : Bool) (k : κ) (ops : List (Op κ)) :
    (ops.foldl (vstep keep k) {}).s = slast k ops := by
  rw [s_foldl]; rfl

/-- value of a counter entry that is or becomes `base + delta (mod 2^64)` -/
def cval (base : Option Nat) (touched : Bool) (delta : Int) : Option Nat :=
  match base with
  | some b => some (((b : Int) + delta) % (u64 : Int)).toNat
  | none => if touched then some (delta % (u64 : Int)).toNat else none

/-- **Counter closed form.**  If `Register` keeps existing entries (`keep = true`), or the history
contains no `Register(k, Counter)`, the counter entry of `k` is its start value plus the sum of all
increments and counts, modulo 2^64 (created at the first touching call). -/
theorem c_foldl (keep : Bool) (k : κ) (ops : List (Op κ)) (v : View)
    (hb : ∀ b, v.c = some b → b < u64)
    (h : keep = true ∨ ¬ Registers k .counter ops) :
    (ops.foldl (vstep keep k) v).c = cval v.c (ops.any (ctouch k)) (csum k ops) := by
  induction ops generalizing v with
  | nil =>
    cases hc : v.c with
    | none => simp [cval, csum, hc]
    | some b =>
      have := hb b hc
      simp only [List.foldl_nil, hc, cval, csum, Int.add_zero, u64] at this ⊢
      all_goals (first | omega | (congr 1 <;> omega))
  | cons o os ih =>
    have h' : keep = true ∨ ¬ Registers k .counter os := by
      rcases h with h | h
      · exact Or.inl h
      · exact Or.inr (fun hm => h (List.mem_cons_of_mem _ hm))
    simp only [List.foldl_cons, List.any_cons, csum_cons]
    have hstep : (vstep keep k v o).c = cval v.c (ctouch k o) (cplain k o) ∨
        (∃ b, v.c = some b ∧ (vstep keep k v o).c = some 0 ∧ keep = false ∧ o = .register k .counter) := by
      cases o with
      | register n ty =>
        by_cases hn : n = k
        · subst hn
          cases ty with
          | counter =>
            cases hc : v.c with
            | none => left; simp [vstep, initV, cval, ctouch, cplain, hc]
            | some b =>
              cases keep with
              | true =>
                left
                have := hb b hc
                simp only [vstep, initV, cval, ctouch, cplain, hc, if_true, Int.add_zero, u64] at this ⊢
                all_goals (first | omega | (congr 1 <;> omega))
              | false => right; exact ⟨b, rfl, by simp [vstep, initV, hc], rfl, rfl⟩
          | gauge =>
            left; cases hc : v.c with
            | none => simp [vstep, cval, ctouch, hc]
            | some b => have := hb b hc; simp only [vstep, cval, ctouch, cplain, hc, u64, Int.add_zero] at this ⊢; all_goals (first | omega | (simp; omega))
          | updown =>
            left; cases hc : v.c with
            | none => simp [vstep, cval, ctouch, hc]
            | some b => have := hb b hc; simp only [vstep, cval, ctouch, cplain, hc, u64, Int.add_zero] at this ⊢; all_goals (first | omega | (simp; omega))
          | histogram =>
            left; cases hc : v.c with
            | none => simp [vstep, cval, ctouch, hc]
            | some b => have := hb b hc; simp only [vstep, cval, ctouch, cplain, hc, u64, Int.add_zero] at this ⊢; all_goals (first | omega | (simp; omega))
        · left
          cases hc : v.c with
          | none => simp [vstep, cval, ctouch, hn, hc]
          | some b => have := hb b hc; simp only [vstep, cval, ctouch, cplain, hn, hc, u64, Int.add_zero, if_false] at this ⊢; all_goals (first | omega | (simp; omega))
      | increment n =>
        left
        by_cases hn : n = k
        · cases hc : v.c with
          | none => simp [vstep, cval, ctouch, cplain, orZero, hn, hc, u64]
          | some b =>
            simp only [vstep, cval, ctouch, cplain, orZero, hn, hc, u64, if_true]
            all_goals (first | omega | (congr 1 <;> omega))
        · cases hc : v.c with
          | none => simp [vstep, cval, ctouch, hn, hc]
          | some b => have := hb b hc; simp only [vstep, cval, ctouch, cplain, hn, hc, u64, Int.add_zero, if_false] at this ⊢; all_goals (first | omega | (simp; omega))
      | count n d =>
        left
        by_cases hn : n = k
        · cases hc : v.c with
          | none =>
            simp only [vstep, cval, ctouch, cplain, orZero, toU64, hn, hc, u64, if_true, decide_true]
            all_goals (first | omega | (congr 1 <;> omega))
          | some b =>
            simp only [vstep, cval, ctouch, cplain, orZero, toU64, hn, hc, u64, if_true]
            all_goals (first | omega | (congr 1 <;> omega))
        · cases hc : v.c with
          | none => simp [vstep, cval, ctouch, hn, hc]
          | some b => have := hb b hc; simp only [vstep, cval, ctouch, cplain, hn, hc, u64, Int.add_zero, if_false] at this ⊢; all_goals (first | omega | (simp; omega))
      | gauge n x =>
        left
        by_cases hn : n = k <;> cases hc : v.c with
          | none => simp [vstep, cval, ctouch, hn, hc]
          | some b => have := hb b hc; simp only [vstep, cval, ctouch, cplain, hn, hc, u64, Int.add_zero, if_false, if_true] at this ⊢; all_goals (first | omega | (simp; omega))
      | histogram n x =>
        left
        cases hc : v.c with
          | none => simp [vstep, cval, ctouch, hc]
          | some b => have := hb b hc; simp only [vstep, cval, ctouch, cplain, hc, u64, Int.add_zero] at this ⊢; all_goals (first | omega | (simp; omega))
      | up n =>
        left
        by_cases hn : n = k <;> cases hc : v.c with
          | none => simp [vstep, cval, ctouch, hn, hc]
          | some b => have := hb b hc; simp only [vstep, cval, ctouch, cplain, hn, hc, u64, Int.add_zero, if_false, if_true] at this ⊢; all_goals (first | omega | (simp; omega))
      | down n =>
        left
        by_cases hn : n = k <;> cases hc : v.c with
          | none => simp [vstep, cval, ctouch, hn, hc]
          | some b => have := hb b hc; simp only [vstep, cval, ctouch, cplain, hn, hc, u64, Int.add_zero, if_false, if_true] at this ⊢; all_goals (first | omega | (simp; omega))
      | store n x =>
        left
        by_cases hn : n = k <;> cases hc : v.c with
          | none => simp [vstep, cval, ctouch, hn, hc]
          | some b => have := hb b hc; simp only [vstep, cval, ctouch, cplain, hn, hc, u64, Int.add_zero, if_false, if_true] at this ⊢; all_goals (first | omega | (simp; omega))
      | get n =>
        left
        cases hc : v.c with
          | none => simp [vstep, cval, ctouch, hc]
          | some b => have := hb b hc; simp only [vstep, cval, ctouch, cplain, hc, u64, Int.add_zero] at this ⊢; all_goals (first | omega | (simp; omega))
    rcases hstep with hstep | ⟨b, _, _, hk, ho⟩
    · have hb' : ∀ b, (vstep keep k v o).c = some b → b < u64 := by
        intro b hbb
        rw [hstep] at hbb
        unfold cval at hbb
        cases hc : v.c with
        | none =>
          simp only [hc] at hbb
          by_cases ht : ctouch k o = true
          · simp only [ht, if_true, Option.some.injEq, u64] at hbb ⊢; omega
          · simp [ht] at hbb
        | some b0 =>
          simp only [hc, Option.some.injEq, u64] at hbb ⊢; omega
      rw [ih _ hb' h', hstep]
      unfold cval
      cases hc : v.c with
      | none =>
        by_cases ht : ctouch k o = true
        · simp only [ht, if_true, Bool.true_or, u64]
          all_goals (first | omega | (congr 1 <;> omega))
        · simp only [ht, Bool.false_eq_true, if_false, Bool.false_or]
          by_cases ht2 : os.any (ctouch k) = true
          · have hz : cplain k o = 0 := by
              cases o <;> simp_all [ctouch, cplain]
            simp [ht2, hz]
          · simp [ht2]
      | some b0 =>
        simp only [u64]
        all_goals (first | omega | (congr 1 <;> omega))
    · rcases h with h | h
      · rw [h] at hk; cases hk
      · exact absurd (by rw [ho]; exact List.mem_cons_self) h

/-- one step of the fold that defines `glast` -/
def gstep (k : κ) (a : Int) : Op κ → Int
  | .gauge n x => if n = k then x else a
  | _ => a

theorem glast_eq (k : κ) (ops : List (Op κ)) : glast k ops = ops.foldl (gstep k) 0 := by
  unfold glast
  congr 1

/-- value of a gauge entry: the last value set, else what it was (created at 0) -/
def gval (k : κ) (base : Option Int) (touched : Bool) (ops : List (Op κ)) : Option Int :=
  match base with
  | some b => some (ops.foldl (gstep k) b)
  | none => if touched then some (ops.foldl (gstep k) 0) else none

/-- **Gauge closed form** (same side condition as `c_foldl`). -/
theorem g_foldl (keep : Bool) (k : κ) (ops : List (Op κ)) (v : View)
    (h : keep = true ∨ ¬ Registers k .gauge ops) :
    (ops.foldl (vstep keep k) v).g = gval k v.g (ops.any (gtouch k)) ops := by
  induction ops generalizing v with
  | nil => cases hg : v.g <;> simp [gval, hg]
  | cons o os ih =>
    have h' : keep = true ∨ ¬ Registers k .gauge os := by
      rcases h with h | h
      · exact Or.inl h
      · exact Or.inr (fun hm => h (List.mem_cons_of_mem _ hm))
    simp only [List.foldl_cons, List.any_cons]
    rw [ih _ h']
    cases o with
    | register n ty =>
      by_cases hn : n = k
      · subst hn
        cases ty with
        | gauge =>
          cases keep with
          | true => cases hg : v.g <;> simp [vstep, initV, gval, gtouch, gstep, hg]
          | false =>
            rcases h with h | h
            · cases h
            · exact absurd List.mem_cons_self h
        | counter => cases hg : v.g <;> simp [vstep, gval, gtouch, gstep, hg]
        | updown => cases hg : v.g <;> simp [vstep, gval, gtouch, gstep, hg]
        | histogram => cases hg : v.g <;> simp [vstep, gval, gtouch, gstep, hg]
      · cases hg : v.g <;> simp [vstep, gval, gtouch, gstep, hg, hn]
    | increment n => by_cases hn : n = k <;> cases hg : v.g <;> simp [vstep, gval, gtouch, gstep, hg, hn]
    | count n d => by_cases hn : n = k <;> cases hg : v.g <;> simp [vstep, gval, gtouch, gstep, hg, hn]
    | gauge n x => by_cases hn : n = k <;> cases hg : v.g <;> simp [vstep, gval, gtouch, gstep, hg, hn]
    | histogram n x => cases hg : v.g <;> simp [vstep, gval, gtouch, gstep, hg]
    | up n => by_cases hn : n = k <;> cases hg : v.g <;> simp [vstep, gval, gtouch, gstep, hg, hn]
    | down n => by_cases hn : n = k <;> cases hg : v.g <;> simp [vstep, gval, gtouch, gstep, hg, hn]
    | store n x => by_cases hn : n = k <;> cases hg : v.g <;> simp [vstep, gval, gtouch, gstep, hg, hn]
    | get n => cases hg : v.g <;> simp [vstep, gval, gtouch, gstep, hg]

/-- value of an up-down entry: start value plus ups minus downs -/
def uval (base : Option Int) (touched : Bool) (delta : Int) : Option Int :=
  match base with
  | some b => some (b + delta)
  | none => if touched then some delta else none

/-- **Up-down closed form** (same side condition as `c_foldl`). -/
theorem u_foldl (keep : Bool) (k : κ) (ops : List (Op κ)) (v : View)
    (h : keep = true ∨ ¬ Registers k .updown ops) :
    (ops.foldl (vstep keep k) v).u = uval v.u (ops.any (utouch k)) (udiff k ops) := by
  induction ops generalizing v with
  | nil => cases hu : v.u <;> simp [uval, udiff, hu]
  | cons o os ih =>
    have h' : keep = true ∨ ¬ Registers k .updown os := by
      rcases h with h | h
      · exact Or.inl h
      · exact Or.inr (fun hm => h (List.mem_cons_of_mem _ hm))
    simp only [List.foldl_cons, List.any_cons, udiff_cons]
    rw [ih _ h']
    have hz : os.any (utouch k) = false → True := fun _ => trivial
    cases o with
    | register n ty =>
      by_cases hn : n = k
      · subst hn
        cases ty with
        | updown =>
          cases keep with
          | true => cases hu : v.u <;> simp [vstep, initV, uval, utouch, uplain, hu]
          | false =>
            rcases h with h | h
            · cases h
            · exact absurd List.mem_cons_self h
        | counter => cases hu : v.u <;> simp [vstep, uval, utouch, uplain, hu]
        | gauge => cases hu : v.u <;> simp [vstep, uval, utouch, uplain, hu]
        | histogram => cases hu : v.u <;> simp [vstep, uval, utouch, uplain, hu]
      · cases hu : v.u <;> simp [vstep, uval, utouch, uplain, hu, hn]
    | increment n => by_cases hn : n = k <;> cases hu : v.u <;> simp [vstep, uval, utouch, uplain, hu, hn]
    | count n d => by_cases hn : n = k <;> cases hu : v.u <;> simp [vstep, uval, utouch, uplain, hu, hn]
    | gauge n x => by_cases hn : n = k <;> cases hu : v.u <;> simp [vstep, uval, utouch, uplain, hu, hn]
    | histogram n x => cases hu : v.u <;> simp [vstep, uval, utouch, uplain, hu]
    | up n =>
      by_cases hn : n = k <;> cases hu : v.u <;> simp [vstep, uval, utouch, uplain, orZero, hu, hn] <;> omega
    | down n =>
      by_cases hn : n = k <;> cases hu : v.u <;> simp [vstep, uval, utouch, uplain, orZero, hu, hn] <;> omega
    | store n x => by_cases hn : n = k <;> cases hu : v.u <;> simp [vstep, uval, utouch, uplain, hu, hn]
    | get n => cases hu : v.u <;> simp [vstep, uval, utouch, uplain, hu]

/-! ## Facts about the history functions -/

/-- the step of the fold defining `lastReg` -/
def rstep (k : κ) (a : Option MType) : Op κ → Option MType
  | .register n ty => if n = k then some ty else a
  | _ => a

theorem lastReg_eq (k : κ) (ops : List (Op κ)) : lastReg k ops = ops.foldl (rstep k) none := by
  unfold lastReg; congr 1

theorem ty_foldl' (keep : Bool) (k : κ) (ops : List (Op κ)) (v : View) :
    (ops.foldl (vstep keep k) v).ty = ops.foldl (rstep k) v.ty := by
  rw [ty_foldl]; congr 1

/-- no `Register` of `k` (of any type) in the history -/
def NoReg (k : κ) (ops : List (Op κ)) : Prop := ∀ ty, ¬ Registers k ty ops

theorem NoReg.tail {k : κ} {o : Op κ} {os : List (Op κ)} (h : NoReg k (o :: os)) : NoReg k os :=
  fun ty hm => h ty (List.mem_cons_of_mem _ hm)

theorem rfold_noReg (k : κ) (ops : List (Op κ)) (a : Option MType) (h : NoReg k ops) :
    ops.foldl (rstep k) a = a := by
  induction ops generalizing a with
  | nil => rfl
  | cons o os ih =>
    simp only [List.foldl_cons]
    rw [ih _ h.tail]
    cases o with
    | register n ty =>
      by_cases hn : n = k
      · subst hn; exact absurd List.mem_cons_self (h ty)
      · simp [rstep, hn]
    | _ => rfl

/-- a history whose last registration of `k` has type `ty` splits at that registration -/
theorem rfold_split (k : κ) (ops : List (Op κ)) (a : Option MType) (ty : MType)
    (h : ops.foldl (rstep k) a = some ty) :
    (a = some ty ∧ NoReg k ops) ∨
      ∃ pre post, ops = pre ++ Op.register k ty :: post ∧ NoReg k post := by
  induction ops generalizing a with
  | nil => left; exact ⟨h, fun _ hm => by simp [Registers] at hm⟩
  | cons o os ih =>
    simp only [List.foldl_cons] at h
    rcases ih _ h with ⟨h1, h2⟩ | ⟨pre, post, h1, h2⟩
    · by_cases ho : ∃ ty', o = Op.register k ty'
      · obtain ⟨ty', rfl⟩ := ho
        simp [rstep] at h1
        subst h1
        right; exact ⟨[], os, rfl, h2⟩
      · left
        refine ⟨?_, ?_⟩
        · cases o with
          | register n ty' =>
            by_cases hn : n = k
            · subst hn; exact absurd ⟨ty', rfl⟩ ho
            · simpa [rstep, hn] using h1
          | _ => simpa [rstep] using h1
        · intro ty' hm
          rcases List.mem_cons.mp hm with hm | hm
          · exact ho ⟨ty', hm.symm⟩
          · exact h2 ty' hm
    · right; exact ⟨o :: pre, post, by simp [h1], h2⟩

theorem lastReg_split (k : κ) (ops : List (Op κ)) (ty : MType) (h : lastReg k ops = some ty) :
    ∃ pre post, ops = pre ++ Op.register k ty :: post ∧ NoReg k post := by
  rw [lastReg_eq] at h
  rcases rfold_split k ops none ty h with ⟨h1, _⟩ | h
  · cases h1
  · exact h

theorem lastReg_registers (k : κ) (ops : List (Op κ)) (ty : MType) (h : lastReg k ops = some ty) :
    Registers k ty ops := by
  obtain ⟨pre, post, rfl, _⟩ := lastReg_split k ops ty h
  simp [Registers]

theorem lastReg_append_noReg (k : κ) (l₁ l₂ : List (Op κ)) (h : NoReg k l₂) :
    lastReg k (l₁ ++ l₂) = lastReg k l₁ := by
  rw [lastReg_eq, lastReg_eq, List.foldl_append, rfold_noReg _ _ _ h]

theorem lastReg_append_register (k : κ) (l₁ l₂ : List (Op κ)) (ty : MType) (h : NoReg k l₂) :
    lastReg k (l₁ ++ Op.register k ty :: l₂) = some ty := by
  rw [lastReg_eq, List.foldl_append, List.foldl_cons, rfold_noReg _ _ _ h]
  simp [rstep]

/-- the step of the fold defining `slast` -/
def sstep (k : κ) (a : Option Int) : Op κ → Option Int
  | .store n x => if n = k then some x else a
  | _ => a

theorem slast_eq (k : κ) (ops : List (Op κ)) : slast k ops = ops.foldl (sstep k) none := by
  unfold slast; congr 1

theorem sfold_some (k : κ) (ops : List (Op κ)) (x : Int) : ops.foldl (sstep k) (some x) ≠ none := by
  induction ops generalizing x with
  | nil => simp
  | cons o os ih =>
    simp only [List.foldl_cons]
    cases o with
    | store n y =>
      by_cases hn : n = k
      · simpa [sstep, hn] using ih y
      · simpa [sstep, hn] using ih x
    | _ => exact ih x

theorem slast_append_none (k : κ) (l₁ l₂ : List (Op κ)) (h : slast k (l₁ ++ l₂) = none) :
    slast k l₁ = none := by
  rw [slast_eq, List.foldl_append] at h
  rw [slast_eq]
  cases hs : l₁.foldl (sstep k) none with
  | none => rfl
  | some x => rw [hs] at h; exact absurd h (sfold_some k l₂ x)

theorem any_ctouch_of_registers (k : κ) (ops : List (Op κ)) (h : Registers k .counter ops) :
    ops.any (ctouch k) = true :=
  List.any_eq_true.mpr ⟨_, h, by simp [ctouch]⟩

theorem any_gtouch_of_registers (k : κ) (ops : List (Op κ)) (h : Registers k .gauge ops) :
    ops.any (gtouch k) = true :=
  List.any_eq_true.mpr ⟨_, h, by simp [gtouch]⟩

theorem any_utouch_of_registers (k : κ) (ops : List (Op κ)) (h : Registers k .updown ops) :
    ops.any (utouch k) = true :=
  List.any_eq_true.mpr ⟨_, h, by simp [utouch]⟩

/-- a later `Gauge(k, _)` makes the start value irrelevant -/
theorem gfold_overwritten (k : κ) (ops : List (Op κ)) (a b : Int) (h : ∃ x, Op.gauge k x ∈ ops) :
    ops.foldl (gstep k) a = ops.foldl (gstep k) b := by
  induction ops generalizing a b with
  | nil => obtain ⟨x, hx⟩ := h; simp at hx
  | cons o os ih =>
    simp only [List.foldl_cons]
    by_cases ho : ∃ x, o = Op.gauge k x
    · obtain ⟨x, rfl⟩ := ho; simp [gstep]
    · obtain ⟨x, hx⟩ := h
      rcases List.mem_cons.mp hx with hx | hx
      · exact absurd ⟨x, hx.symm⟩ ho
      · have e : ∀ c, gstep k c o = c := by
          intro c
          cases o with
          | gauge n y =>
            by_cases hn : n = k
            · subst hn; exact absurd ⟨y, rfl⟩ ho
            · simp [gstep, hn]
          | _ => rfl
        rw [e a, e b]; exact ih a b ⟨x, hx⟩

theorem glast_append (k : κ) (l₁ l₂ : List (Op κ)) :
    glast k (l₁ ++ l₂) = l₂.foldl (gstep k) (glast k l₁) := by
  rw [glast_eq, glast_eq, List.foldl_append]

/-! ## Order independence of the atomic adds -/

theorem foldl_perm_of_comm {α β : Type} (f : β → α → β) (P : α → Prop)
    (hc : ∀ b x y, P x → P y → f (f b x) y = f (f b y) x)
    {l₁ l₂ : List α} (hp : l₁.Perm l₂) (hP : ∀ x ∈ l₁, P x) (b : β) :
    l₁.foldl f b = l₂.foldl f b := by
  induction hp generalizing b with
  | nil => rfl
  | cons x _ ih => simp only [List.foldl_cons]; exact ih (fun y hy => hP y (List.mem_cons_of_mem _ hy)) _
  | swap x y l =>
    simp only [List.foldl_cons]
    rw [hc b y x (hP y List.mem_cons_self) (hP x (List.mem_cons_of_mem _ List.mem_cons_self))]
  | trans h₁ _ ih₁ ih₂ =>
    rw [ih₁ hP b]
    exact ih₂ (fun x hx => hP x (h₁.mem_iff.mpr hx)) b

def cadd (d : Nat) (v : View) : View := { v with c := some ((orZero 0 v.c + d) % u64) }
def uadd (d : Int) (v : View) : View := { v with u := some (orZero 0 v.u + d) }

/-- an atomic add is `cadd` or `uadd` on the view of its own name and nothing elsewhere -/
theorem add_form (keep : Bool) (k : κ) (x : Op κ) (hx : x.isAdd = true) :
    ∃ n, (∃ d, ∀ v, vstep keep k v x = if n = k then cadd d v else v) ∨
         (∃ d, ∀ v, vstep keep k v x = if n = k then uadd d v else v) := by
  cases x with
  | increment n => exact ⟨n, Or.inl ⟨1, fun v => rfl⟩⟩
  | count n d => exact ⟨n, Or.inl ⟨toU64 d, fun v => rfl⟩⟩
  | up n => exact ⟨n, Or.inr ⟨1, fun v => rfl⟩⟩
  | down n => exact ⟨n, Or.inr ⟨-1, fun v => by simp [vstep, uadd, Int.sub_eq_add_neg]⟩⟩
  | _ => simp [Op.isAdd] at hx

theorem cadd_comm (a b : Nat) (v : View) : cadd a (cadd b v) = cadd b (cadd a v) := by
  cases hc : v.c <;> simp only [cadd, orZero, hc, u64] <;> congr 2 <;> omega

theorem uadd_comm (a b : Int) (v : View) : uadd a (uadd b v) = uadd b (uadd a v) := by
  cases hu : v.u <;> simp only [uadd, orZero, hu] <;> congr 2 <;> omega

theorem cadd_uadd_comm (a : Nat) (b : Int) (v : View) : cadd a (uadd b v) = uadd b (cadd a v) := by
  simp [cadd, uadd]

theorem vstep_comm (keep : Bool) (k : κ) (v : View) (x y : Op κ) (hx : x.isAdd = true) (hy : y.isAdd = true) :
    vstep keep k (vstep keep k v x) y = vstep keep k (vstep keep k v y) x := by
  obtain ⟨n, hx⟩ := add_form keep k x hx
  obtain ⟨m, hy⟩ := add_form keep k y hy
  rcases hx with ⟨a, hx⟩ | ⟨a, hx⟩ <;> rcases hy with ⟨b, hy⟩ | ⟨b, hy⟩ <;>
    simp only [hx, hy] <;> by_cases h1 : n = k <;> by_cases h2 : m = k <;>
    simp only [h1, h2, if_true, if_false]
  · exact cadd_comm b a v
  · exact (cadd_uadd_comm a b v).symm
  · exact cadd_uadd_comm b a v
  · exact uadd_comm b a v

/-! ## The float conversion -/

theorem f64OfNat_exact (n : Nat) (h : n < f64Exact) : f64OfNat n = n := by
  unfold f64OfNat; rw [if_pos h]

theorem f64OfNat_eq_zero (n : Nat) (h : f64OfNat n = 0) : n = 0 := by
  unfold f64OfNat at h
  by_cases hlt : n < f64Exact
  · rw [if_pos hlt] at h; exact h
  · rw [if_neg hlt] at h
    exfalso
    have hn : n ≠ 0 := by unfold f64Exact at hlt; omega
    have hle : 2 ^ (n.log2 - 52) ≤ n :=
      Nat.le_trans (Nat.pow_le_pow_right (by omega) (Nat.sub_le _ _)) (Nat.log2_self_le hn)
    have hpos : 0 < 2 ^ (n.log2 - 52) := Nat.pow_pos (by omega)
    have hq : 0 < n / 2 ^ (n.log2 - 52) := Nat.div_pos hle hpos
    simp only at h
    rcases Nat.mul_eq_zero.mp h with h | h
    · split at h <;> omega
    · omega

theorem f64OfInt_eq_zero (v : Int) (h : f64OfInt v = 0) : v = 0 := by
  unfold f64OfInt at h
  by_cases hv : 0 ≤ v
  · rw [if_pos hv] at h
    have := f64OfNat_eq_zero v.toNat (by omega)
    omega
  · rw [if_neg hv] at h
    have := f64OfNat_eq_zero (-v).toNat (by omega)
    omega

/-! ### `Get` on a view whose routing is known -/

theorem vget_store (v : View) (x : Int) (hs : v.s = some x) : vget v = some x := by
  unfold vget; rw [hs]

theorem vget_counter (v : View) (hs : v.s = none) (ht : v.ty = some .counter) :
    vget v = v.c.map (fun c => (f64OfNat c : Int)) := by
  unfold vget; rw [hs, ht]

theorem vget_gauge (v : View) (hs : v.s = none) (ht : v.ty = some .gauge) : vget v = v.g := by
  unfold vget; rw [hs, ht]

theorem vget_updown (v : View) (hs : v.s = none) (ht : v.ty = some .updown) :
    vget v = v.u.map f64OfInt := by
  unfold vget; rw [hs, ht]

theorem initV_false {α : Type} (z : α) (x : Option α) : initV false z x = some z := by
  cases x <;> rfl

theorem noReg_append {k : κ} {l₁ l₂ : List (Op κ)} (h₁ : NoReg k l₁) (h₂ : NoReg k l₂) :
    NoReg k (l₁ ++ l₂) := by
  intro ty hm
  rcases List.mem_append.mp hm with hm | hm
  · exact h₁ ty hm
  · exact h₂ ty hm

theorem csum_nonneg (k : κ) (ops : List (Op κ)) (h : ∀ op ∈ ops, 0 ≤ cplain k op) : 0 ≤ csum k ops := by
  induction ops with
  | nil => simp [csum]
  | cons o os ih =>
    rw [csum_cons]
    have := h o List.mem_cons_self
    have := ih (fun op hm => h op (List.mem_cons_of_mem _ hm))
    omega

/-- the view of `k` right after `Register(k, ty)` in the code: the entry of type `ty` is zero -/
theorem view_after_register (pre post : List (Op κ)) (k : κ) (ty : MType) :
    (pre ++ Op.register k ty :: post).foldl (vstep false k) {} =
      post.foldl (vstep false k) (vstep false k (pre.foldl (vstep false k) {}) (.register k ty)) := by
  rw [List.foldl_append, List.foldl_cons]


/-- the view has an entry in the value map of type `ty` (histograms have no map) -/
def hasEntry (v : View) : MType → Bool
  | .counter => v.c.isSome
  | .gauge => v.g.isSome
  | .updown => v.u.isSome
  | .histogram => true

theorem vstep_register_same_fixed (k : κ) (v : View) (ty : MType)
    (ht : v.ty = some ty) (he : hasEntry v ty = true) :
    vstep true k v (.register k ty) = v := by
  obtain ⟨t, c, g, u, s⟩ := v
  simp only at ht
  subst ht
  cases ty with
  | counter => cases c <;> simp_all [hasEntry, vstep, initV]
  | gauge => cases g <;> simp_all [hasEntry, vstep, initV]
  | updown => cases u <;> simp_all [hasEntry, vstep, initV]
  | histogram => simp [vstep]


end
end Refinery.Lemmas.Metrics
