import Refinery.Model.Collector
/-!
# Invariants of the collector model (shared by C01, C02, C05)

`Inv s` holds in every reachable state (`inv_run`).  The property theorems in `Props/C01.lean`,
`Props/C02.lean`, `Props/C05.lean` are corollaries.
-/
namespace Refinery.Lemmas.Collector
open Refinery.Model.Collector

def ids (l : List SpanRec) : List Nat := l.map (·.id)
def sendIds (l : List Sendable) : List Nat := l.flatMap (fun sd => ids sd.spans)

@[simp] theorem ids_nil : ids [] = [] := rfl
@[simp] theorem ids_append (a b : List SpanRec) : ids (a ++ b) = ids a ++ ids b := by simp [ids]
@[simp] theorem ids_cons (a : SpanRec) (b : List SpanRec) : ids (a :: b) = a.id :: ids b := by simp [ids]
@[simp] theorem sendIds_nil : sendIds [] = [] := rfl
@[simp] theorem sendIds_cons (a : Sendable) (l : List Sendable) : sendIds (a :: l) = ids a.spans ++ sendIds l := by
  simp [sendIds]
@[simp] theorem sendIds_append (a b : List Sendable) : sendIds (a ++ b) = sendIds a ++ sendIds b := by
  simp [sendIds]

theorem count_ids_filter (l : List SpanRec) (p : SpanRec → Bool) (i : Nat) :
    (ids (l.filter p)).count i + (ids (l.filter (fun x => !p x))).count i = (ids l).count i := by
  induction l with
  | nil => simp
  | cons a t ih =>
    by_cases h : p a = true
    · simp [h, List.count_cons]; omega
    · simp [h, List.count_cons]; omega

theorem mem_lruTouch {l : List (Nat × Nat)} {t : Nat} {e : Nat × Nat} (h : e ∈ lruTouch l t) : e ∈ l := by
  unfold lruTouch at h
  split at h
  · next e' he' =>
    rcases List.mem_cons.mp h with h | h
    · subst h; exact List.mem_of_find?_eq_some he'
    · exact (List.mem_filter.mp h).1
  · exact h

theorem mem_lruAdd {P : Params} {c : Nat} {l : List (Nat × Nat)} {t r : Nat} {e : Nat × Nat}
    (h : e ∈ lruAdd P c l t r) : e = (t, r) ∨ e ∈ l := by
  unfold lruAdd at h
  have base : ∀ e, e ∈ (t, r) :: l.filter (fun e => e.1 != t) → e = (t, r) ∨ e ∈ l := by
    intro e he
    rcases List.mem_cons.mp he with he | he
    · exact Or.inl he
    · exact Or.inr (List.mem_filter.mp he).1
  simp only at h
  split at h
  · split at h
    · exact base e (List.mem_filter.mp h).1
    · exact base e h
  · exact base e h

/-- The invariant.  Ghost fields relate the queues to the history. -/
structure Inv (s : St) : Prop where
  /-- conservation: every accepted span is in exactly one of buffer, `tracesToSend`, forwarded, discarded -/
  cons : ∀ i, (ids s.buf).count i + (sendIds s.toSend).count i + (outIds s).count i + (ids s.discarded).count i
      + (ids s.stressDropped).count i = if i < s.nextId then 1 else 0
  accIds : ids s.accepted = List.range s.nextId
  bufAcc : ∀ sp ∈ s.buf, sp ∈ s.accepted
  sendAcc : ∀ sd ∈ s.toSend, ∀ sp ∈ sd.spans, sp ∈ s.accepted ∧ sp.trace = sd.trace
  discAcc : ∀ sp ∈ s.discarded, sp ∈ s.accepted
  sdropAcc : ∀ sp ∈ s.stressDropped, sp ∈ s.accepted
  outAcc : ∀ f ∈ s.out, ∃ sp ∈ s.accepted, sp.id = f.sid ∧ sp.trace = f.trace ∧ sp.client = f.client
  /-- a trace that is buffered although it was decided before missed its record (`decide_once`) -/
  bufMissed : ∀ sp ∈ s.buf, (∃ d ∈ s.decisions, d.trace = sp.trace) → sp.trace ∈ s.missed ∨ sp.trace ∈ s.mixed
  once : ∀ t, t ∉ s.missed → t ∉ s.mixed → (s.decisions.filter (fun d => d.trace == t)).length ≤ 1
  discDec : ∀ sp ∈ s.discarded,
      (∃ d ∈ s.decisions, d.trace = sp.trace ∧ d.keep = false) ∨ sp.trace ∈ s.falsePos
  sdropDec : ∀ sp ∈ s.stressDropped,
      (∃ d ∈ s.decisions, d.trace = sp.trace ∧ d.keep = false) ∨ sp.trace ∈ s.falsePos
  dropDec : ∀ t ∈ s.dropped, ∃ d ∈ s.decisions, d.trace = t ∧ d.keep = false
  keptDec : ∀ e ∈ s.kept, ∃ d ∈ s.decisions, d.trace = e.1 ∧ d.keep = true
  sendDec : ∀ sd ∈ s.toSend, ∃ d ∈ s.decisions, d.trace = sd.trace ∧ d.keep = sd.keep ∧ (d.keep = true ∨ d.dry = true)
  outWet : ∀ f ∈ s.out, f.dry = false →
      f.marker = none ∧ ∃ d ∈ s.decisions, d.trace = f.trace ∧ (d.keep = true ∨ d.dry = true)
  outDry : ∀ f ∈ s.out, f.dry = true → f.stress = false →
      ∃ k, f.marker = some k ∧
        ((∃ d ∈ s.decisions, d.trace = f.trace ∧ d.keep = k) ∨ (k = false ∧ f.trace ∈ s.falsePos))
  outRate : ∀ f ∈ s.out, f.dry = true → clientOr1 f.rate = clientOr1 f.client
  outStress : ∀ f ∈ s.out, f.stress = true →
      f.marker = none ∧ ∃ d ∈ s.decisions, d.trace = f.trace ∧ d.keep = true
  noDry : s.everDry = false → s.dryRun = false ∧ (∀ d ∈ s.decisions, d.dry = false) ∧ (∀ f ∈ s.out, f.dry = false)
  allDry : s.everWet = false → s.dryRun = true ∧ s.discarded = [] ∧ (∀ f ∈ s.out, f.dry = true)
  noStress : s.everStressed = false → s.stressed = false ∧ s.stressDropped = [] ∧ s.mixed = [] ∧
      (∀ f ∈ s.out, f.stress = false) ∧ (∀ d ∈ s.decisions, d.stress = false)

theorem inv_init (dry : Bool) (cap : Nat) : Inv (init dry cap) := by
  constructor <;> simp [init, outIds, ids, sendIds]

theorem clientOr1_idem (c : Nat) : clientOr1 (clientOr1 c) = clientOr1 c := by
  unfold clientOr1; split <;> simp_all <;> omega

theorem mem_resizeKept {P : Params} {c : Nat} {e : Nat × Nat} :
    ∀ {l seen : List (Nat × Nat)}, e ∈ resizeKept P c l seen → e ∈ l
  | [], _, h => by simp [resizeKept] at h
  | x :: l, seen, h => by
    unfold resizeKept at h
    split at h
    · rcases List.mem_cons.mp h with h | h
      · exact h ▸ List.mem_cons_self
      · exact List.mem_cons_of_mem _ (mem_resizeKept h)
    · exact List.mem_cons_of_mem _ (mem_resizeKept h)

/-- `Resize` keeps every record that has fewer than `c` more recent records of its own worker:
a trace among the newest `c` kept decisions of its worker stays remembered across a shrink. -/
theorem resizeKept_keeps (P : Params) (c : Nat) (e : Nat × Nat) (post : List (Nat × Nat)) :
    ∀ (pre seen : List (Nat × Nat)),
      (seen.filter (fun x => P.owner x.1 == P.owner e.1)).length
        + (pre.filter (fun x => P.owner x.1 == P.owner e.1)).length < c →
      e ∈ resizeKept P c (pre ++ e :: post) seen
  | [], seen, h => by
    simp only [List.nil_append, resizeKept]
    have : (seen.filter (fun x => P.owner x.1 == P.owner e.1)).length < c := by simpa using h
    rw [if_pos this]; exact List.mem_cons_self
  | x :: pre, seen, h => by
    have ih := resizeKept_keeps P c e post pre (x :: seen) (by
      simp only [List.filter_cons] at h ⊢
      split <;> simp_all <;> omega)
    simp only [List.cons_append, resizeKept]
    split
    · exact List.mem_cons_of_mem _ ih
    · exact ih

theorem inv_reload (P : Params) {s : St} (h : Inv s) (g : Nat) (dry : Bool) : Inv (reloadCfg P s g dry) where
  cons := h.cons
  accIds := h.accIds
  bufAcc := h.bufAcc
  sendAcc := h.sendAcc
  discAcc := h.discAcc
  sdropAcc := h.sdropAcc
  outAcc := h.outAcc
  bufMissed := h.bufMissed
  once := h.once
  discDec := h.discDec
  sdropDec := h.sdropDec
  dropDec := h.dropDec
  keptDec := fun e he => h.keptDec e (mem_resizeKept he)
  sendDec := h.sendDec
  outWet := h.outWet
  outDry := h.outDry
  outRate := h.outRate
  outStress := h.outStress
  noDry := by
    intro he
    simp only [reloadCfg, Bool.or_eq_false_iff] at he
    have := h.noDry he.1
    exact ⟨he.2, this.2.1, this.2.2⟩
  allDry := by
    intro he
    simp only [reloadCfg, Bool.or_eq_false_iff, Bool.not_eq_false'] at he
    have := h.allDry he.1
    exact ⟨he.2, this.2.1, this.2.2⟩
  noStress := h.noStress

theorem inv_resize (P : Params) {s : St} (h : Inv s) (c : Nat) : Inv (resizeCfg P s c) := by
  unfold resizeCfg
  split
  · exact h
  · exact { cons := h.cons, accIds := h.accIds, bufAcc := h.bufAcc, sendAcc := h.sendAcc, discAcc := h.discAcc,
            sdropAcc := h.sdropAcc, outAcc := h.outAcc, bufMissed := h.bufMissed, once := h.once,
            discDec := h.discDec, sdropDec := h.sdropDec, dropDec := h.dropDec,
            keptDec := fun e he => h.keptDec e (mem_resizeKept he), sendDec := h.sendDec, outWet := h.outWet,
            outDry := h.outDry, outRate := h.outRate, outStress := h.outStress, noDry := h.noDry,
            allDry := h.allDry, noStress := h.noStress }

theorem inv_setStress {s : St} (h : Inv s) (on : Bool) : Inv (setStress s on) where
  cons := h.cons
  accIds := h.accIds
  bufAcc := h.bufAcc
  sendAcc := h.sendAcc
  discAcc := h.discAcc
  sdropAcc := h.sdropAcc
  outAcc := h.outAcc
  bufMissed := h.bufMissed
  once := h.once
  discDec := h.discDec
  sdropDec := h.sdropDec
  dropDec := h.dropDec
  keptDec := h.keptDec
  sendDec := h.sendDec
  outWet := h.outWet
  outDry := h.outDry
  outRate := h.outRate
  outStress := h.outStress
  noDry := h.noDry
  allDry := h.allDry
  noStress := by
    intro he
    simp only [setStress, Bool.or_eq_false_iff] at he
    have := h.noStress he.1
    exact ⟨he.2, this.2⟩

theorem sendFwd_sid (s : St) (sd : Sendable) (l : List SpanRec) :
    (l.map (sendFwd s sd)).map (·.sid) = ids l := by
  simp [ids, sendFwd]

theorem inv_drainOne {s : St} (h : Inv s) : Inv (drainOne s) := by
  unfold drainOne
  split
  · exact h
  · next sd rest hs =>
    have hsd : sd ∈ s.toSend := by simp [hs]
    have hrest : ∀ x ∈ rest, x ∈ s.toSend := by intro x hx; simp [hs, hx]
    obtain ⟨d, hd, hdt, hdk, hdd⟩ := h.sendDec sd hsd
    refine { cons := ?_, accIds := h.accIds, bufAcc := h.bufAcc, sendAcc := ?_, discAcc := h.discAcc,
             sdropAcc := h.sdropAcc, outAcc := ?_, bufMissed := h.bufMissed, once := h.once,
             discDec := h.discDec, sdropDec := h.sdropDec,
             dropDec := h.dropDec, keptDec := h.keptDec, sendDec := ?_, outWet := ?_, outDry := ?_,
             outRate := ?_, outStress := ?_, noDry := ?_, allDry := ?_, noStress := ?_ }
    · intro i
      have := h.cons i
      simp only [hs, sendIds_cons, List.count_append] at this
      simp only [outIds, List.map_append, sendFwd_sid, List.count_append]
      simp only [outIds] at this
      omega
    · intro x hx; exact h.sendAcc x (hrest x hx)
    · intro f hf
      rcases List.mem_append.mp hf with hf | hf
      · exact h.outAcc f hf
      · obtain ⟨sp, hsp, rfl⟩ := List.mem_map.mp hf
        obtain ⟨ha, ht⟩ := h.sendAcc sd hsd sp hsp
        exact ⟨sp, ha, rfl, ht, rfl⟩
    · intro x hx; exact h.sendDec x (hrest x hx)
    · intro f hf hdry
      rcases List.mem_append.mp hf with hf | hf
      · exact h.outWet f hf hdry
      · obtain ⟨sp, hsp, rfl⟩ := List.mem_map.mp hf
        simp only [sendFwd] at hdry ⊢
        simp only [hdry]
        refine ⟨by simp, d, hd, hdt, hdd⟩
    · intro f hf hdry hst
      rcases List.mem_append.mp hf with hf | hf
      · exact h.outDry f hf hdry hst
      · obtain ⟨sp, hsp, rfl⟩ := List.mem_map.mp hf
        simp only [sendFwd] at hdry ⊢
        simp only [hdry]
        exact ⟨sd.keep, by simp, Or.inl ⟨d, hd, hdt, hdk⟩⟩
    · intro f hf hdry
      rcases List.mem_append.mp hf with hf | hf
      · exact h.outRate f hf hdry
      · obtain ⟨sp, hsp, rfl⟩ := List.mem_map.mp hf
        simp only [sendFwd] at hdry ⊢
        simp [hdry, fwdRate, clientOr1_idem]
    · intro f hf hst
      rcases List.mem_append.mp hf with hf | hf
      · exact h.outStress f hf hst
      · obtain ⟨sp, hsp, rfl⟩ := List.mem_map.mp hf
        simp [sendFwd] at hst
    · intro he
      have := h.noDry he
      refine ⟨this.1, this.2.1, ?_⟩
      intro f hf
      rcases List.mem_append.mp hf with hf | hf
      · exact this.2.2 f hf
      · obtain ⟨sp, hsp, rfl⟩ := List.mem_map.mp hf
        simp [sendFwd, this.1]
    · intro he
      have := h.allDry he
      refine ⟨this.1, this.2.1, ?_⟩
      intro f hf
      rcases List.mem_append.mp hf with hf | hf
      · exact this.2.2 f hf
      · obtain ⟨sp, hsp, rfl⟩ := List.mem_map.mp hf
        simp [sendFwd, this.1]
    · intro he
      have := h.noStress he
      refine ⟨this.1, this.2.1, this.2.2.1, ?_, this.2.2.2.2⟩
      intro f hf
      rcases List.mem_append.mp hf with hf | hf
      · exact this.2.2.2.1 f hf
      · obtain ⟨sp, hsp, rfl⟩ := List.mem_map.mp hf
        simp [sendFwd]

theorem ex_append {α : Type} {l : List α} {x : α} {p : α → Prop} (h : ∃ d ∈ l, p d) : ∃ d ∈ l ++ [x], p d := by
  obtain ⟨d, hd, hp⟩ := h
  exact ⟨d, List.mem_append_left _ hd, hp⟩

theorem mem_append_singleton {α : Type} {l : List α} {x : α} : x ∈ l ++ [x] := by simp

theorem bne_filter (l : List SpanRec) (t : Nat) :
    l.filter (fun sp => sp.trace != t) = l.filter (fun x => !(fun sp : SpanRec => sp.trace == t) x) := rfl

/-! Lifting the history-dependent fields along a step that appends one decision `r` -/
section lift
variable {s : St} (h : Inv s) (r : DecRec)
include h

theorem lift_drop : ∀ t' ∈ s.dropped, ∃ d ∈ s.decisions ++ [r], d.trace = t' ∧ d.keep = false :=
  fun t' ht' => ex_append (h.dropDec t' ht')
theorem lift_kept : ∀ e ∈ s.kept, ∃ d ∈ s.decisions ++ [r], d.trace = e.1 ∧ d.keep = true :=
  fun e he => ex_append (h.keptDec e he)
theorem lift_send : ∀ sd ∈ s.toSend,
    ∃ d ∈ s.decisions ++ [r], d.trace = sd.trace ∧ d.keep = sd.keep ∧ (d.keep = true ∨ d.dry = true) :=
  fun sd hsd => ex_append (h.sendDec sd hsd)
theorem lift_outWet : ∀ f ∈ s.out, f.dry = false →
    f.marker = none ∧ ∃ d ∈ s.decisions ++ [r], d.trace = f.trace ∧ (d.keep = true ∨ d.dry = true) :=
  fun f hf hd => ⟨(h.outWet f hf hd).1, ex_append (h.outWet f hf hd).2⟩
theorem lift_outDry : ∀ f ∈ s.out, f.dry = true → f.stress = false →
    ∃ k, f.marker = some k ∧
      ((∃ d ∈ s.decisions ++ [r], d.trace = f.trace ∧ d.keep = k) ∨ (k = false ∧ f.trace ∈ s.falsePos)) := by
  intro f hf hd hst
  obtain ⟨k, hk, hor⟩ := h.outDry f hf hd hst
  exact ⟨k, hk, hor.imp ex_append id⟩
theorem lift_outStress : ∀ f ∈ s.out, f.stress = true →
    f.marker = none ∧ ∃ d ∈ s.decisions ++ [r], d.trace = f.trace ∧ d.keep = true :=
  fun f hf hst => ⟨(h.outStress f hf hst).1, ex_append (h.outStress f hf hst).2⟩
theorem lift_disc : ∀ sp ∈ s.discarded,
    (∃ d ∈ s.decisions ++ [r], d.trace = sp.trace ∧ d.keep = false) ∨ sp.trace ∈ s.falsePos :=
  fun sp hsp => (h.discDec sp hsp).imp ex_append id
theorem lift_sdrop : ∀ sp ∈ s.stressDropped,
    (∃ d ∈ s.decisions ++ [r], d.trace = sp.trace ∧ d.keep = false) ∨ sp.trace ∈ s.falsePos :=
  fun sp hsp => (h.sdropDec sp hsp).imp ex_append id
theorem lift_newDrop (hk : r.keep = false) :
    ∀ t' ∈ (if s.dropped.contains r.trace then s.dropped else r.trace :: s.dropped),
      ∃ d ∈ s.decisions ++ [r], d.trace = t' ∧ d.keep = false := by
  intro t' ht'
  split at ht'
  · exact ex_append (h.dropDec t' ht')
  · rcases List.mem_cons.mp ht' with ht' | ht'
    · subst ht'; exact ⟨r, mem_append_singleton, rfl, hk⟩
    · exact ex_append (h.dropDec t' ht')
theorem lift_noDry (hr : r.dry = s.dryRun) (he : s.everDry = false) :
    s.dryRun = false ∧ (∀ d ∈ s.decisions ++ [r], d.dry = false) ∧ (∀ f ∈ s.out, f.dry = false) := by
  have := h.noDry he
  refine ⟨this.1, ?_, this.2.2⟩
  intro d hd
  rcases List.mem_append.mp hd with hd | hd
  · exact this.2.1 d hd
  · simp at hd; subst hd; rw [hr]; exact this.1
end lift

theorem inv_decideT (P : Params) {s : St} (h : Inv s) (t : Nat) : Inv (decideT P s t) := by
  unfold decideT
  simp only
  split
  · exact h
  next hne =>
  have hspans : ∀ sp ∈ s.buf.filter (fun sp => sp.trace == t), sp ∈ s.buf ∧ sp.trace = t := by
    intro sp hsp
    have := List.mem_filter.mp hsp
    exact ⟨this.1, by simpa using this.2⟩
  have hbuf' : ∀ sp ∈ s.buf.filter (fun sp => sp.trace != t), sp ∈ s.buf ∧ sp.trace ≠ t := by
    intro sp hsp
    have := List.mem_filter.mp hsp
    exact ⟨this.1, by simpa using this.2⟩
  obtain ⟨sp0, hsp0⟩ : ∃ sp, sp ∈ s.buf.filter (fun sp => sp.trace == t) := by
    cases hl : s.buf.filter (fun sp => sp.trace == t) with
    | nil => simp [hl] at hne
    | cons a l => exact ⟨a, by simp⟩
  have hcnt : ∀ i, (ids (s.buf.filter (fun sp => sp.trace == t))).count i
      + (ids (s.buf.filter (fun sp => sp.trace != t))).count i = (ids s.buf).count i := by
    intro i; rw [bne_filter]; exact count_ids_filter s.buf _ i
  have hbufMissed : ∀ r : DecRec, r.trace = t →
      ∀ sp ∈ s.buf.filter (fun sp => sp.trace != t), (∃ d ∈ s.decisions ++ [r], d.trace = sp.trace) →
        sp.trace ∈ s.missed ∨ sp.trace ∈ s.mixed := by
    intro r hr sp hsp ⟨d, hd, hdt⟩
    obtain ⟨hb, hnt⟩ := hbuf' sp hsp
    rcases List.mem_append.mp hd with hd | hd
    · exact h.bufMissed sp hb ⟨d, hd, hdt⟩
    · simp at hd; subst hd; exact absurd (hr.symm.trans hdt).symm hnt
  have honce : ∀ r : DecRec, r.trace = t →
      ∀ t', t' ∉ s.missed → t' ∉ s.mixed → ((s.decisions ++ [r]).filter (fun d => d.trace == t')).length ≤ 1 := by
    intro r hr t' ht' ht2
    rw [List.filter_append]
    by_cases htt : t' = t
    · subst htt
      have hnone : s.decisions.filter (fun d => d.trace == t') = [] := by
        rw [List.filter_eq_nil_iff]
        intro d hd hdt
        have := (hspans sp0 hsp0)
        rcases this.2 ▸ h.bufMissed sp0 this.1 ⟨d, hd, by simpa [this.2] using hdt⟩ with h1 | h1
        · exact ht' h1
        · exact ht2 h1
      simp [hnone, hr]
    · have : (([r] : List DecRec).filter (fun d => d.trace == t')) = [] := by
        simp [hr, Ne.symm htt]
      rw [this, List.append_nil]; exact h.once t' ht' ht2
  have hnoStress : ∀ r : DecRec, r.stress = false → s.everStressed = false →
      s.stressed = false ∧ s.stressDropped = [] ∧ s.mixed = [] ∧
      (∀ f ∈ s.out, f.stress = false) ∧ (∀ d ∈ s.decisions ++ [r], d.stress = false) := by
    intro r hr he
    have := h.noStress he
    refine ⟨this.1, this.2.1, this.2.2.1, this.2.2.2.1, ?_⟩
    intro d hd
    rcases List.mem_append.mp hd with hd | hd
    · exact this.2.2.2.2 d hd
    · simp at hd; subst hd; exact hr
  split
  · -- keep
    next hk =>
    refine { cons := ?_, accIds := h.accIds, bufAcc := fun sp hsp => h.bufAcc sp (hbuf' sp hsp).1,
             sendAcc := ?_, discAcc := h.discAcc, sdropAcc := h.sdropAcc, outAcc := h.outAcc,
             bufMissed := hbufMissed _ rfl, once := honce _ rfl, discDec := lift_disc h _, sdropDec := lift_sdrop h _,
             dropDec := lift_drop h _, keptDec := ?_, sendDec := ?_,
             outWet := lift_outWet h _, outDry := lift_outDry h _, outRate := h.outRate, outStress := lift_outStress h _,
             noDry := lift_noDry h _ rfl, allDry := h.allDry, noStress := hnoStress _ rfl }
    · intro i
      have h1 := h.cons i; have := hcnt i
      simp only [outIds] at h1
      simp only [outIds, sendIds_append, sendIds_cons, sendIds_nil, List.append_nil, List.count_append]
      omega
    · intro sd hsd sp hsp
      rcases List.mem_append.mp hsd with hsd | hsd
      · exact h.sendAcc sd hsd sp hsp
      · simp at hsd; subst hsd
        exact ⟨h.bufAcc sp (hspans sp hsp).1, (hspans sp hsp).2⟩
    · intro e he
      rcases mem_lruAdd he with he | he
      · subst he; exact ⟨_, mem_append_singleton, rfl, hk⟩
      · exact lift_kept h _ e he
    · intro sd hsd
      rcases List.mem_append.mp hsd with hsd | hsd
      · exact lift_send h _ sd hsd
      · simp at hsd; subst hsd
        exact ⟨_, mem_append_singleton, rfl, hk, Or.inl hk⟩
  next hk =>
  have hk' : (P.decide s.gen t).keep = false := by simpa using hk
  split
  · -- drop, dry run: still queued
    next hdry =>
    refine { cons := ?_, accIds := h.accIds, bufAcc := fun sp hsp => h.bufAcc sp (hbuf' sp hsp).1,
             sendAcc := ?_, discAcc := h.discAcc, sdropAcc := h.sdropAcc, outAcc := h.outAcc,
             bufMissed := hbufMissed _ rfl, once := honce _ rfl, discDec := lift_disc h _, sdropDec := lift_sdrop h _,
             dropDec := lift_newDrop h ⟨t, _, _, _, false⟩ hk', keptDec := lift_kept h _, sendDec := ?_,
             outWet := lift_outWet h _, outDry := lift_outDry h _, outRate := h.outRate, outStress := lift_outStress h _,
             noDry := lift_noDry h _ rfl, allDry := h.allDry, noStress := hnoStress _ rfl }
    · intro i
      have h1 := h.cons i; have := hcnt i
      simp only [outIds] at h1
      simp only [outIds, sendIds_append, sendIds_cons, sendIds_nil, List.append_nil, List.count_append]
      omega
    · intro sd hsd sp hsp
      rcases List.mem_append.mp hsd with hsd | hsd
      · exact h.sendAcc sd hsd sp hsp
      · simp at hsd; subst hsd
        exact ⟨h.bufAcc sp (hspans sp hsp).1, (hspans sp hsp).2⟩
    · intro sd hsd
      rcases List.mem_append.mp hsd with hsd | hsd
      · exact lift_send h _ sd hsd
      · simp at hsd; subst hsd
        exact ⟨_, mem_append_singleton, rfl, hk', Or.inr hdry⟩
  · -- drop: the spans are discarded
    next hdry =>
    refine { cons := ?_, accIds := h.accIds, bufAcc := fun sp hsp => h.bufAcc sp (hbuf' sp hsp).1,
             sendAcc := h.sendAcc, discAcc := ?_, sdropAcc := h.sdropAcc, outAcc := h.outAcc,
             bufMissed := hbufMissed _ rfl, once := honce _ rfl, discDec := ?_, sdropDec := lift_sdrop h _,
             dropDec := lift_newDrop h ⟨t, _, _, _, false⟩ hk', keptDec := lift_kept h _, sendDec := lift_send h _,
             outWet := lift_outWet h _, outDry := lift_outDry h _, outRate := h.outRate, outStress := lift_outStress h _,
             noDry := lift_noDry h _ rfl, allDry := ?_, noStress := hnoStress _ rfl }
    · intro i
      have h1 := h.cons i; have := hcnt i
      simp only [outIds] at h1
      simp only [outIds, ids_append, List.count_append]
      omega
    · intro sp hsp
      rcases List.mem_append.mp hsp with hsp | hsp
      · exact h.discAcc sp hsp
      · exact h.bufAcc sp (hspans sp hsp).1
    · intro sp hsp
      rcases List.mem_append.mp hsp with hsp | hsp
      · exact lift_disc h _ sp hsp
      · exact Or.inl ⟨_, mem_append_singleton, (hspans sp hsp).2.symm, hk'⟩
    · intro he
      exact absurd (h.allDry he).1 hdry

theorem find?_fst {l : List (Nat × Nat)} {t : Nat} {e : Nat × Nat}
    (h : l.find? (fun e => e.1 == t) = some e) : e ∈ l ∧ e.1 = t :=
  ⟨List.mem_of_find?_eq_some h, by simpa using List.find?_some h⟩

theorem buffered_iff (s : St) (t : Nat) : buffered s t = true ↔ ∃ sp ∈ s.buf, sp.trace = t := by
  simp [buffered]

theorem decided_iff (s : St) (t : Nat) : decided s t = true ↔ ∃ d ∈ s.decisions, d.trace = t := by
  simp [decided]

theorem count_new (l : List Nat) (n i : Nat) : (l ++ [n]).count i = l.count i + (if i = n then 1 else 0) := by
  rw [List.count_append, List.count_singleton]
  by_cases h : i = n
  · simp [h]
  · have : (n == i) = false := by simpa using Ne.symm h
    simp [h, this]

/-! Facts shared by the two arrival paths -/
section arrival
variable {s : St} (h : Inv s)
include h

theorem acc_new (sp' : SpanRec) : ids (s.accepted ++ [sp']) = List.range (s.nextId + 1) ↔ sp'.id = s.nextId := by
  rw [ids_append, h.accIds, List.range_succ]
  simp [ids]

theorem cons_new : ∀ i, (ids s.buf).count i + (sendIds s.toSend).count i + (s.out.map (·.sid)).count i
    + (ids s.discarded).count i + (ids s.stressDropped).count i + (if i = s.nextId then 1 else 0)
      = if i < s.nextId + 1 then 1 else 0 := by
  intro i
  have := h.cons i
  simp only [outIds] at this
  by_cases hi : i = s.nextId
  · subst hi; simp at this ⊢; omega
  · by_cases hl : i < s.nextId
    · have : i < s.nextId + 1 := by omega
      simp_all
    · have : ¬ i < s.nextId + 1 := by omega
      simp_all

theorem outAcc_new (sp' : SpanRec) : ∀ f ∈ s.out,
    ∃ sp ∈ s.accepted ++ [sp'], sp.id = f.sid ∧ sp.trace = f.trace ∧ sp.client = f.client := by
  intro f hf
  obtain ⟨sp, hsp, h3⟩ := h.outAcc f hf
  exact ⟨sp, List.mem_append_left _ hsp, h3⟩

theorem sendAcc_new (sp' : SpanRec) :
    ∀ sd ∈ s.toSend, ∀ sp ∈ sd.spans, sp ∈ s.accepted ++ [sp'] ∧ sp.trace = sd.trace :=
  fun sd hsd sp hsp => ⟨List.mem_append_left _ (h.sendAcc sd hsd sp hsp).1, (h.sendAcc sd hsd sp hsp).2⟩

theorem fp_new (t : Nat) : (∃ d ∈ s.decisions, d.trace = t ∧ d.keep = false) ∨
    t ∈ (if s.dropped.contains t then s.falsePos else t :: s.falsePos) := by
  by_cases hc : s.dropped.contains t = true
  · exact Or.inl (h.dropDec t (by simpa using hc))
  · right; rw [if_neg hc]; exact List.mem_cons_self

theorem disc_fp (t : Nat) : ∀ sp ∈ s.discarded, (∃ d ∈ s.decisions, d.trace = sp.trace ∧ d.keep = false) ∨
    sp.trace ∈ (if s.dropped.contains t then s.falsePos else t :: s.falsePos) := by
  intro sp hsp
  refine (h.discDec sp hsp).imp id ?_
  intro hx; split
  · exact hx
  · exact List.mem_cons_of_mem _ hx

theorem sdrop_fp (t : Nat) : ∀ sp ∈ s.stressDropped, (∃ d ∈ s.decisions, d.trace = sp.trace ∧ d.keep = false) ∨
    sp.trace ∈ (if s.dropped.contains t then s.falsePos else t :: s.falsePos) := by
  intro sp hsp
  refine (h.sdropDec sp hsp).imp id ?_
  intro hx; split
  · exact hx
  · exact List.mem_cons_of_mem _ hx

theorem outDry_fp (t : Nat) : ∀ f ∈ s.out, f.dry = true → f.stress = false → ∃ k, f.marker = some k ∧
    ((∃ d ∈ s.decisions, d.trace = f.trace ∧ d.keep = k) ∨
      (k = false ∧ f.trace ∈ (if s.dropped.contains t then s.falsePos else t :: s.falsePos))) := by
  intro f hf hd hst
  obtain ⟨k, hk, hor⟩ := h.outDry f hf hd hst
  refine ⟨k, hk, hor.imp id (fun x => ⟨x.1, ?_⟩)⟩
  split
  · exact x.2
  · exact List.mem_cons_of_mem _ x.2
end arrival

theorem inv_arrive {s : St} (h : Inv s) (t : Nat) (root : Bool) (client : Nat) (filt : Bool) :
    Inv (arrive s t root client filt) := by
  have liftAcc : ∀ {x sp' : SpanRec}, x ∈ s.accepted → x ∈ s.accepted ++ [sp'] :=
    fun hx => List.mem_append_left _ hx
  unfold arrive
  simp only
  split
  · -- the trace is live
    next hb =>
    obtain ⟨sp1, hsp1, hsp1t⟩ := (buffered_iff s t).mp hb
    refine { cons := ?_, accIds := (acc_new h _).mpr rfl, bufAcc := ?_, sendAcc := sendAcc_new h _,
             discAcc := fun sp hsp => liftAcc (h.discAcc sp hsp), sdropAcc := fun sp hsp => liftAcc (h.sdropAcc sp hsp),
             outAcc := outAcc_new h _,
             bufMissed := ?_, once := h.once, discDec := h.discDec, sdropDec := h.sdropDec, dropDec := h.dropDec,
             keptDec := h.keptDec, sendDec := h.sendDec, outWet := h.outWet, outDry := h.outDry,
             outRate := h.outRate, outStress := h.outStress,
             noDry := h.noDry, allDry := h.allDry, noStress := h.noStress }
    · intro i
      have := cons_new h i
      simp only [outIds, ids_append, ids_cons, ids_nil, count_new]
      omega
    · intro sp hsp
      rcases List.mem_append.mp hsp with hsp | hsp
      · exact liftAcc (h.bufAcc sp hsp)
      · simp at hsp; subst hsp; exact mem_append_singleton
    · intro sp hsp hd
      rcases List.mem_append.mp hsp with hsp | hsp
      · exact h.bufMissed sp hsp hd
      · simp at hsp; subst hsp
        exact hsp1t ▸ h.bufMissed sp1 hsp1 (by simpa [hsp1t] using hd)
  next hb =>
  split
  · next hf =>
    split
    · -- late span of a dropped trace, dry run: forwarded with marker false
      next hdry =>
      refine { cons := ?_, accIds := (acc_new h _).mpr rfl, bufAcc := fun sp hsp => liftAcc (h.bufAcc sp hsp),
               sendAcc := sendAcc_new h _, discAcc := fun sp hsp => liftAcc (h.discAcc sp hsp),
               sdropAcc := fun sp hsp => liftAcc (h.sdropAcc sp hsp), outAcc := ?_,
               bufMissed := h.bufMissed, once := h.once, discDec := disc_fp h t, sdropDec := sdrop_fp h t,
               dropDec := h.dropDec,
               keptDec := h.keptDec, sendDec := h.sendDec, outWet := ?_, outDry := ?_, outRate := ?_, outStress := ?_,
               noDry := ?_, allDry := ?_, noStress := ?_ }
      · intro i
        have := cons_new h i
        simp only [outIds, List.map_append, List.map_cons, List.map_nil, count_new]
        omega
      · intro f hf
        rcases List.mem_append.mp hf with hf | hf
        · exact outAcc_new h _ f hf
        · simp at hf; subst hf; exact ⟨_, mem_append_singleton, rfl, rfl, rfl⟩
      · intro f hf hd
        rcases List.mem_append.mp hf with hf | hf
        · exact h.outWet f hf hd
        · simp at hf; subst hf; simp at hd
      · intro f hf hd hst
        rcases List.mem_append.mp hf with hf | hf
        · exact outDry_fp h t f hf hd hst
        · simp at hf; subst hf
          refine ⟨false, rfl, ?_⟩
          rcases fp_new h t with h1 | h1
          · exact Or.inl h1
          · exact Or.inr ⟨rfl, h1⟩
      · intro f hf hd
        rcases List.mem_append.mp hf with hf | hf
        · exact h.outRate f hf hd
        · simp at hf; subst hf; rfl
      · intro f hf hst
        rcases List.mem_append.mp hf with hf | hf
        · exact h.outStress f hf hst
        · simp at hf; subst hf; simp at hst
      · intro he; exact absurd (h.noDry he).1 (by simp [hdry])
      · intro he
        have := h.allDry he
        refine ⟨this.1, this.2.1, ?_⟩
        intro f hf
        rcases List.mem_append.mp hf with hf | hf
        · exact this.2.2 f hf
        · simp at hf; subst hf; rfl
      · intro he
        have := h.noStress he
        refine ⟨this.1, this.2.1, this.2.2.1, ?_, this.2.2.2.2⟩
        intro f hf
        rcases List.mem_append.mp hf with hf | hf
        · exact this.2.2.2.1 f hf
        · simp at hf; subst hf; rfl
    · -- late span of a dropped trace: dropped
      next hdry =>
      refine { cons := ?_, accIds := (acc_new h _).mpr rfl, bufAcc := fun sp hsp => liftAcc (h.bufAcc sp hsp),
               sendAcc := sendAcc_new h _, discAcc := ?_, sdropAcc := fun sp hsp => liftAcc (h.sdropAcc sp hsp),
               outAcc := outAcc_new h _,
               bufMissed := h.bufMissed, once := h.once, discDec := ?_, sdropDec := sdrop_fp h t, dropDec := h.dropDec,
               keptDec := h.keptDec, sendDec := h.sendDec, outWet := h.outWet, outDry := outDry_fp h t,
               outRate := h.outRate, outStress := h.outStress,
               noDry := h.noDry, allDry := ?_, noStress := h.noStress }
      · intro i
        have := cons_new h i
        simp only [outIds, ids_append, ids_cons, ids_nil, count_new]
        omega
      · intro sp hsp
        rcases List.mem_append.mp hsp with hsp | hsp
        · exact liftAcc (h.discAcc sp hsp)
        · simp at hsp; subst hsp; exact mem_append_singleton
      · intro sp hsp
        rcases List.mem_append.mp hsp with hsp | hsp
        · exact disc_fp h t sp hsp
        · simp at hsp; subst hsp; exact fp_new h t
      · intro he; exact absurd (h.allDry he).1 hdry
  next hf =>
  split
  · -- late span of a kept trace: forwarded
    next e he =>
    obtain ⟨hem, het⟩ := find?_fst he
    obtain ⟨d, hd, hdt, hdk⟩ := h.keptDec e hem
    refine { cons := ?_, accIds := (acc_new h _).mpr rfl, bufAcc := fun sp hsp => liftAcc (h.bufAcc sp hsp),
             sendAcc := sendAcc_new h _, discAcc := fun sp hsp => liftAcc (h.discAcc sp hsp),
             sdropAcc := fun sp hsp => liftAcc (h.sdropAcc sp hsp), outAcc := ?_,
             bufMissed := h.bufMissed, once := h.once, discDec := h.discDec, sdropDec := h.sdropDec, dropDec := h.dropDec,
             keptDec := fun e' he' => h.keptDec e' (mem_lruTouch he'), sendDec := h.sendDec,
             outWet := ?_, outDry := ?_, outRate := ?_, outStress := ?_, noDry := ?_, allDry := ?_, noStress := ?_ }
    · intro i
      have := cons_new h i
      simp only [outIds, List.map_append, List.map_cons, List.map_nil, count_new, lateFwd]
      omega
    · intro f hf
      rcases List.mem_append.mp hf with hf | hf
      · exact outAcc_new h _ f hf
      · simp at hf; subst hf; exact ⟨_, mem_append_singleton, rfl, rfl, rfl⟩
    · intro f hf hdr
      rcases List.mem_append.mp hf with hf | hf
      · exact h.outWet f hf hdr
      · simp at hf; subst hf
        simp only [lateFwd] at hdr ⊢
        simp only [hdr]
        exact ⟨by simp, d, hd, hdt.trans het, Or.inl hdk⟩
    · intro f hf hdr hst
      rcases List.mem_append.mp hf with hf | hf
      · exact h.outDry f hf hdr hst
      · simp at hf; subst hf
        simp only [lateFwd] at hdr ⊢
        simp only [hdr]
        exact ⟨true, by simp, Or.inl ⟨d, hd, hdt.trans het, hdk⟩⟩
    · intro f hf hdr
      rcases List.mem_append.mp hf with hf | hf
      · exact h.outRate f hf hdr
      · simp at hf; subst hf
        simp only [lateFwd] at hdr ⊢
        simp [hdr, fwdRate, clientOr1_idem]
    · intro f hf hst
      rcases List.mem_append.mp hf with hf | hf
      · exact h.outStress f hf hst
      · simp at hf; subst hf; simp [lateFwd] at hst
    · intro he'
      have := h.noDry he'
      refine ⟨this.1, this.2.1, ?_⟩
      intro f hf
      rcases List.mem_append.mp hf with hf | hf
      · exact this.2.2 f hf
      · simp at hf; subst hf; simp [lateFwd, this.1]
    · intro he'
      have := h.allDry he'
      refine ⟨this.1, this.2.1, ?_⟩
      intro f hf
      rcases List.mem_append.mp hf with hf | hf
      · exact this.2.2 f hf
      · simp at hf; subst hf; simp [lateFwd, this.1]
    · intro he'
      have := h.noStress he'
      refine ⟨this.1, this.2.1, this.2.2.1, ?_, this.2.2.2.2⟩
      intro f hf
      rcases List.mem_append.mp hf with hf | hf
      · exact this.2.2.2.1 f hf
      · simp at hf; subst hf; simp [lateFwd]
  · -- no memory of the trace: buffered as a new trace
    next hnone =>
    have hmiss : ∀ x, x ∈ s.missed → x ∈ (if decided s t then t :: s.missed else s.missed) := by
      intro x hx; split
      · exact List.mem_cons_of_mem _ hx
      · exact hx
    refine { cons := ?_, accIds := (acc_new h _).mpr rfl, bufAcc := ?_, sendAcc := sendAcc_new h _,
             discAcc := fun sp hsp => liftAcc (h.discAcc sp hsp), sdropAcc := fun sp hsp => liftAcc (h.sdropAcc sp hsp),
             outAcc := outAcc_new h _,
             bufMissed := ?_, once := fun t' ht' => h.once t' (fun hx => ht' (hmiss _ hx)),
             discDec := h.discDec, sdropDec := h.sdropDec, dropDec := h.dropDec,
             keptDec := h.keptDec, sendDec := h.sendDec, outWet := h.outWet, outDry := h.outDry,
             outRate := h.outRate, outStress := h.outStress,
             noDry := h.noDry, allDry := h.allDry, noStress := h.noStress }
    · intro i
      have := cons_new h i
      simp only [outIds, ids_append, ids_cons, ids_nil, count_new]
      omega
    · intro sp hsp
      rcases List.mem_append.mp hsp with hsp | hsp
      · exact liftAcc (h.bufAcc sp hsp)
      · simp at hsp; subst hsp; exact mem_append_singleton
    · intro sp hsp hd
      rcases List.mem_append.mp hsp with hsp | hsp
      · exact (h.bufMissed sp hsp hd).imp (hmiss _) id
      · simp at hsp; subst hsp
        have : decided s t = true := (decided_iff s t).mpr hd
        left; simp [this]


theorem inv_stressArrive (P : Params) {s : St} (h : Inv s) (hstr : s.stressed = true)
    (t : Nat) (root : Bool) (client : Nat) (filt : Bool) :
    Inv (stressArrive P s t root client filt) := by
  have liftAcc : ∀ {x sp' : SpanRec}, x ∈ s.accepted → x ∈ s.accepted ++ [sp'] :=
    fun hx => List.mem_append_left _ hx
  have hnoStress : ∀ {X : Prop}, s.everStressed = false → X := by
    intro X he
    have := (h.noStress he).1
    rw [hstr] at this; cases this
  unfold stressArrive
  simp only
  split
  · -- a dropped record: not kept, whatever dry run says
    next hf =>
    refine { cons := ?_, accIds := (acc_new h _).mpr rfl, bufAcc := fun sp hsp => liftAcc (h.bufAcc sp hsp),
             sendAcc := sendAcc_new h _, discAcc := fun sp hsp => liftAcc (h.discAcc sp hsp),
             sdropAcc := ?_, outAcc := outAcc_new h _,
             bufMissed := h.bufMissed, once := h.once, discDec := disc_fp h t, sdropDec := ?_, dropDec := h.dropDec,
             keptDec := h.keptDec, sendDec := h.sendDec, outWet := h.outWet, outDry := outDry_fp h t,
             outRate := h.outRate, outStress := h.outStress,
             noDry := h.noDry, allDry := h.allDry, noStress := fun he => hnoStress he }
    · intro i
      have := cons_new h i
      simp only [outIds, ids_append, ids_cons, ids_nil, count_new]
      omega
    · intro sp hsp
      rcases List.mem_append.mp hsp with hsp | hsp
      · exact liftAcc (h.sdropAcc sp hsp)
      · simp at hsp; subst hsp; exact mem_append_singleton
    · intro sp hsp
      rcases List.mem_append.mp hsp with hsp | hsp
      · exact sdrop_fp h t sp hsp
      · simp at hsp; subst hsp; exact fp_new h t
  next hf =>
  split
  · -- a kept record: forwarded with the recorded rate
    next e he =>
    obtain ⟨hem, het⟩ := find?_fst he
    obtain ⟨d, hd, hdt, hdk⟩ := h.keptDec e hem
    refine { cons := ?_, accIds := (acc_new h _).mpr rfl, bufAcc := fun sp hsp => liftAcc (h.bufAcc sp hsp),
             sendAcc := sendAcc_new h _, discAcc := fun sp hsp => liftAcc (h.discAcc sp hsp),
             sdropAcc := fun sp hsp => liftAcc (h.sdropAcc sp hsp), outAcc := ?_,
             bufMissed := h.bufMissed, once := h.once, discDec := h.discDec, sdropDec := h.sdropDec, dropDec := h.dropDec,
             keptDec := fun e' he' => h.keptDec e' (mem_lruTouch he'), sendDec := h.sendDec,
             outWet := ?_, outDry := ?_, outRate := ?_, outStress := ?_, noDry := ?_, allDry := ?_,
             noStress := fun he => hnoStress he }
    · intro i
      have := cons_new h i
      simp only [outIds, List.map_append, List.map_cons, List.map_nil, count_new, stressFwd]
      omega
    · intro f hf
      rcases List.mem_append.mp hf with hf | hf
      · exact outAcc_new h _ f hf
      · simp at hf; subst hf; exact ⟨_, mem_append_singleton, rfl, rfl, rfl⟩
    · intro f hf hdr
      rcases List.mem_append.mp hf with hf | hf
      · exact h.outWet f hf hdr
      · simp at hf; subst hf
        exact ⟨rfl, d, hd, hdt.trans het, Or.inl hdk⟩
    · intro f hf hdr hst
      rcases List.mem_append.mp hf with hf | hf
      · exact h.outDry f hf hdr hst
      · simp at hf; subst hf; simp [stressFwd] at hst
    · intro f hf hdr
      rcases List.mem_append.mp hf with hf | hf
      · exact h.outRate f hf hdr
      · simp at hf; subst hf
        simp only [stressFwd] at hdr ⊢
        simp [hdr, fwdRate, clientOr1_idem]
    · intro f hf hst
      rcases List.mem_append.mp hf with hf | hf
      · exact h.outStress f hf hst
      · simp at hf; subst hf
        exact ⟨rfl, d, hd, hdt.trans het, hdk⟩
    · intro he'
      have := h.noDry he'
      refine ⟨this.1, this.2.1, ?_⟩
      intro f hf
      rcases List.mem_append.mp hf with hf | hf
      · exact this.2.2 f hf
      · simp at hf; subst hf; simp [stressFwd, this.1]
    · intro he'
      have := h.allDry he'
      refine ⟨this.1, this.2.1, ?_⟩
      intro f hf
      rcases List.mem_append.mp hf with hf | hf
      · exact this.2.2 f hf
      · simp at hf; subst hf; simp [stressFwd, this.1]
  next hnone =>
  -- no record: a new, recorded stress decision
  have hmiss : ∀ x, x ∈ s.missed → x ∈ (if decided s t then t :: s.missed else s.missed) := by
    intro x hx; split
    · exact List.mem_cons_of_mem _ hx
    · exact hx
  have hmix : ∀ x, x ∈ s.mixed → x ∈ (if buffered s t then t :: s.mixed else s.mixed) := by
    intro x hx; split
    · exact List.mem_cons_of_mem _ hx
    · exact hx
  have hbufMissed : ∀ r : DecRec, r.trace = t →
      ∀ sp ∈ s.buf, (∃ d ∈ s.decisions ++ [r], d.trace = sp.trace) →
        sp.trace ∈ (if decided s t then t :: s.missed else s.missed) ∨
        sp.trace ∈ (if buffered s t then t :: s.mixed else s.mixed) := by
    intro r hr sp hsp ⟨d, hd, hdt⟩
    rcases List.mem_append.mp hd with hd | hd
    · exact (h.bufMissed sp hsp ⟨d, hd, hdt⟩).imp (hmiss _) (hmix _)
    · simp at hd; subst hd
      have hb : buffered s t = true := (buffered_iff s t).mpr ⟨sp, hsp, hdt.symm.trans hr⟩
      right; rw [if_pos hb, ← hr, hdt]; exact List.mem_cons_self
  have honce : ∀ r : DecRec, r.trace = t →
      ∀ t', t' ∉ (if decided s t then t :: s.missed else s.missed) →
        t' ∉ (if buffered s t then t :: s.mixed else s.mixed) →
        ((s.decisions ++ [r]).filter (fun d => d.trace == t')).length ≤ 1 := by
    intro r hr t' ht' ht2
    have h1 : t' ∉ s.missed := fun hx => ht' (hmiss _ hx)
    have h2 : t' ∉ s.mixed := fun hx => ht2 (hmix _ hx)
    rw [List.filter_append]
    by_cases htt : t' = t
    · subst htt
      have hnd : decided s t' = false := by
        cases hdd : decided s t' with
        | false => rfl
        | true => rw [hdd] at ht'; exact absurd List.mem_cons_self ht'
      have hnone' : s.decisions.filter (fun d => d.trace == t') = [] := by
        rw [List.filter_eq_nil_iff]
        intro d hd hdt
        have : decided s t' = true := (decided_iff s t').mpr ⟨d, hd, by simpa using hdt⟩
        rw [hnd] at this; cases this
      simp [hnone', hr]
    · have : (([r] : List DecRec).filter (fun d => d.trace == t')) = [] := by
        simp [hr, Ne.symm htt]
      rw [this, List.append_nil]; exact h.once t' h1 h2
  split
  · -- kept by stress relief: recorded and forwarded
    next hk =>
    refine { cons := ?_, accIds := (acc_new h _).mpr rfl, bufAcc := fun sp hsp => liftAcc (h.bufAcc sp hsp),
             sendAcc := sendAcc_new h _, discAcc := fun sp hsp => liftAcc (h.discAcc sp hsp),
             sdropAcc := fun sp hsp => liftAcc (h.sdropAcc sp hsp), outAcc := ?_,
             bufMissed := hbufMissed _ rfl, once := honce _ rfl, discDec := lift_disc h _, sdropDec := lift_sdrop h _,
             dropDec := lift_drop h _, keptDec := ?_, sendDec := lift_send h _,
             outWet := ?_, outDry := ?_, outRate := ?_, outStress := ?_, noDry := ?_, allDry := ?_,
             noStress := fun he => hnoStress he }
    · intro i
      have := cons_new h i
      simp only [outIds, List.map_append, List.map_cons, List.map_nil, count_new, stressFwd]
      omega
    · intro f hf
      rcases List.mem_append.mp hf with hf | hf
      · exact outAcc_new h _ f hf
      · simp at hf; subst hf; exact ⟨_, mem_append_singleton, rfl, rfl, rfl⟩
    · intro e he
      rcases mem_lruAdd he with he | he
      · subst he; exact ⟨_, mem_append_singleton, rfl, hk⟩
      · exact lift_kept h _ e he
    · intro f hf hdr
      rcases List.mem_append.mp hf with hf | hf
      · exact lift_outWet h _ f hf hdr
      · simp at hf; subst hf
        exact ⟨rfl, _, mem_append_singleton, rfl, Or.inl hk⟩
    · intro f hf hdr hst
      rcases List.mem_append.mp hf with hf | hf
      · exact lift_outDry h _ f hf hdr hst
      · simp at hf; subst hf; simp [stressFwd] at hst
    · intro f hf hdr
      rcases List.mem_append.mp hf with hf | hf
      · exact h.outRate f hf hdr
      · simp at hf; subst hf
        simp only [stressFwd] at hdr ⊢
        simp [hdr, fwdRate, clientOr1_idem]
    · intro f hf hst
      rcases List.mem_append.mp hf with hf | hf
      · exact lift_outStress h _ f hf hst
      · simp at hf; subst hf
        exact ⟨rfl, _, mem_append_singleton, rfl, hk⟩
    · intro he'
      have := lift_noDry h ⟨t, (P.stressDecide t).keep, (P.stressDecide t).rate, s.dryRun, true⟩ rfl he'
      refine ⟨this.1, this.2.1, ?_⟩
      intro f hf
      rcases List.mem_append.mp hf with hf | hf
      · exact this.2.2 f hf
      · simp at hf; subst hf; simp [stressFwd, this.1]
    · intro he'
      have := h.allDry he'
      refine ⟨this.1, this.2.1, ?_⟩
      intro f hf
      rcases List.mem_append.mp hf with hf | hf
      · exact this.2.2 f hf
      · simp at hf; subst hf; simp [stressFwd, this.1]
  · -- dropped by stress relief
    next hk =>
    have hk' : (P.stressDecide t).keep = false := by simpa using hk
    refine { cons := ?_, accIds := (acc_new h _).mpr rfl, bufAcc := fun sp hsp => liftAcc (h.bufAcc sp hsp),
             sendAcc := sendAcc_new h _, discAcc := fun sp hsp => liftAcc (h.discAcc sp hsp),
             sdropAcc := ?_, outAcc := outAcc_new h _,
             bufMissed := hbufMissed _ rfl, once := honce _ rfl, discDec := lift_disc h _, sdropDec := ?_,
             dropDec := lift_newDrop h ⟨t, _, _, _, true⟩ hk', keptDec := lift_kept h _, sendDec := lift_send h _,
             outWet := lift_outWet h _, outDry := lift_outDry h _, outRate := h.outRate, outStress := lift_outStress h _,
             noDry := lift_noDry h _ rfl, allDry := h.allDry, noStress := fun he => hnoStress he }
    · intro i
      have := cons_new h i
      simp only [outIds, ids_append, ids_cons, ids_nil, count_new]
      omega
    · intro sp hsp
      rcases List.mem_append.mp hsp with hsp | hsp
      · exact liftAcc (h.sdropAcc sp hsp)
      · simp at hsp; subst hsp; exact mem_append_singleton
    · intro sp hsp
      rcases List.mem_append.mp hsp with hsp | hsp
      · exact lift_sdrop h _ sp hsp
      · simp at hsp; subst hsp
        exact Or.inl ⟨_, mem_append_singleton, rfl, hk'⟩

theorem inv_step (P : Params) {s : St} (h : Inv s) (o : Op) : Inv (step P s o) := by
  cases o with
  | span t root client filt =>
    simp only [step]
    split
    · next hs => exact inv_stressArrive P h hs t root client filt
    · exact inv_arrive h t root client filt
  | decide t => exact inv_decideT P h t
  | drain => exact inv_drainOne h
  | reload g dry => exact inv_reload P h g dry
  | resize c => exact inv_resize P h c
  | stress on => exact inv_setStress h on

/-- The invariant holds in every reachable state, for every parameter choice. -/
theorem inv_run (P : Params) (dry : Bool) (ops : List Op) : Inv (run P dry ops) := by
  unfold run
  suffices ∀ s, Inv s → Inv (ops.foldl (step P) s) from this _ (inv_init dry P.cap)
  induction ops with
  | nil => intro s h; exact h
  | cons o os ih => intro s h; exact ih _ (inv_step P h o)

theorem run_append (P : Params) (dry : Bool) (ops : List Op) (o : Op) :
    run P dry (ops ++ [o]) = step P (run P dry ops) o := by
  simp [run, List.foldl_append]

/-! ## DryRun never on / always on, stress relief never on, as predicates of the operation list -/

/-- no reload switches DryRun on -/
def NoDryReload (ops : List Op) : Prop := ∀ g d, Op.reload g d ∈ ops → d = false
/-- no reload switches DryRun off -/
def NoWetReload (ops : List Op) : Prop := ∀ g d, Op.reload g d ∈ ops → d = true
/-- stress relief is never switched on -/
def NoStressOn (ops : List Op) : Prop := Op.stress true ∉ ops

instance (ops : List Op) : Decidable (NoStressOn ops) := by unfold NoStressOn; infer_instance

theorem flags_arrive (s : St) (t : Nat) (root : Bool) (client : Nat) (filt : Bool) :
    (arrive s t root client filt).everDry = s.everDry ∧ (arrive s t root client filt).everWet = s.everWet ∧
    (arrive s t root client filt).everStressed = s.everStressed := by
  unfold arrive
  simp only
  split
  · exact ⟨rfl, rfl, rfl⟩
  · split
    · split <;> exact ⟨rfl, rfl, rfl⟩
    · split <;> exact ⟨rfl, rfl, rfl⟩

theorem flags_stressArrive (P : Params) (s : St) (t : Nat) (root : Bool) (client : Nat) (filt : Bool) :
    (stressArrive P s t root client filt).everDry = s.everDry ∧ (stressArrive P s t root client filt).everWet = s.everWet ∧
    (stressArrive P s t root client filt).everStressed = s.everStressed := by
  unfold stressArrive
  simp only
  split
  · exact ⟨rfl, rfl, rfl⟩
  · split
    · exact ⟨rfl, rfl, rfl⟩
    · split <;> exact ⟨rfl, rfl, rfl⟩

theorem flags_decideT (P : Params) (s : St) (t : Nat) :
    (decideT P s t).everDry = s.everDry ∧ (decideT P s t).everWet = s.everWet ∧
    (decideT P s t).everStressed = s.everStressed := by
  unfold decideT
  simp only
  split
  · exact ⟨rfl, rfl, rfl⟩
  · split
    · exact ⟨rfl, rfl, rfl⟩
    · split <;> exact ⟨rfl, rfl, rfl⟩

theorem flags_drainOne (s : St) :
    (drainOne s).everDry = s.everDry ∧ (drainOne s).everWet = s.everWet ∧ (drainOne s).everStressed = s.everStressed := by
  unfold drainOne
  split <;> exact ⟨rfl, rfl, rfl⟩

theorem flags_resize (P : Params) (s : St) (c : Nat) :
    (resizeCfg P s c).everDry = s.everDry ∧ (resizeCfg P s c).everWet = s.everWet ∧
    (resizeCfg P s c).everStressed = s.everStressed := by
  unfold resizeCfg
  split <;> exact ⟨rfl, rfl, rfl⟩

/-- the three history flags after one step -/
theorem flags_step (P : Params) (s : St) (o : Op) :
    (step P s o).everDry = (match o with | .reload _ d => s.everDry || d | _ => s.everDry) ∧
    (step P s o).everWet = (match o with | .reload _ d => s.everWet || !d | _ => s.everWet) ∧
    (step P s o).everStressed = (match o with | .stress on => s.everStressed || on | _ => s.everStressed) := by
  cases o with
  | span t root client filt =>
    simp only [step]
    split
    · exact flags_stressArrive P s t root client filt
    · exact flags_arrive s t root client filt
  | decide t => exact flags_decideT P s t
  | drain => exact flags_drainOne s
  | reload g d => exact ⟨rfl, rfl, rfl⟩
  | resize c => exact flags_resize P s c
  | stress on => exact ⟨rfl, rfl, rfl⟩

theorem everDry_foldl (P : Params) (ops : List Op) (hno : NoDryReload ops) :
    ∀ s, s.everDry = false → (ops.foldl (step P) s).everDry = false := by
  induction ops with
  | nil => intro s h; exact h
  | cons o os ih =>
    intro s h
    apply ih (fun g d hm => hno g d (List.mem_cons_of_mem _ hm))
    rw [(flags_step P s o).1]
    cases o with
    | reload g d => have := hno g d List.mem_cons_self; simp [h, this]
    | _ => exact h

theorem everWet_foldl (P : Params) (ops : List Op) (hno : NoWetReload ops) :
    ∀ s, s.everWet = false → (ops.foldl (step P) s).everWet = false := by
  induction ops with
  | nil => intro s h; exact h
  | cons o os ih =>
    intro s h
    apply ih (fun g d hm => hno g d (List.mem_cons_of_mem _ hm))
    rw [(flags_step P s o).2.1]
    cases o with
    | reload g d => have := hno g d List.mem_cons_self; simp [h, this]
    | _ => exact h

theorem everStressed_foldl (P : Params) (ops : List Op) (hno : NoStressOn ops) :
    ∀ s, s.everStressed = false → (ops.foldl (step P) s).everStressed = false := by
  induction ops with
  | nil => intro s h; exact h
  | cons o os ih =>
    intro s h
    apply ih (fun hm => hno (List.mem_cons_of_mem _ hm))
    rw [(flags_step P s o).2.2]
    cases o with
    | stress on =>
      cases on with
      | true => exact absurd List.mem_cons_self hno
      | false => simp [h]
    | _ => exact h

/-- started with DryRun off and never reloaded with DryRun on: DryRun was never on -/
theorem everDry_run (P : Params) (ops : List Op) (hno : NoDryReload ops) : (run P false ops).everDry = false :=
  everDry_foldl P ops hno _ rfl

/-- started with DryRun on and never reloaded with DryRun off: DryRun was always on -/
theorem everWet_run (P : Params) (ops : List Op) (hno : NoWetReload ops) : (run P true ops).everWet = false :=
  everWet_foldl P ops hno _ rfl

/-- stress relief never switched on: it was never on -/
theorem everStressed_run (P : Params) (dry : Bool) (ops : List Op) (hno : NoStressOn ops) :
    (run P dry ops).everStressed = false :=
  everStressed_foldl P ops hno _ rfl

end Refinery.Lemmas.Collector
