import Refinery.Model.Locks
/-! Lemmas for C35: the three ways two accesses get ordered by happens-before
(lock hand-over, initialisation before the first spawn, tear-down after joining). -/
namespace Refinery.Locks

theorem lt_of_some {tr : Trace} {i : Nat} {e : Event} (h : tr[i]? = some e) : i < tr.length := by
  rcases List.getElem?_eq_some_iff.mp h with ⟨hl, _⟩
  exact hl

theorem some_inj {tr : Trace} {i : Nat} {a b : Event} (ha : tr[i]? = some a) (hb : tr[i]? = some b) :
    a = b := by
  rw [ha] at hb; exact Option.some.inj hb

theorem access_not_rel {a : Event} (h : a.isAccess) (md : Mode) : a.op ≠ relOp md := by
  intro hh
  cases md <;> rcases h with h | h | h <;> simp [relOp, h] at hh

theorem access_not_spawn {a : Event} (h : a.isAccess) : a.op ≠ .spawn := by
  intro hh
  rcases h with h | h | h <;> simp [h] at hh

theorem access_not_join {a : Event} (h : a.isAccess) : a.op ≠ .join := by
  intro hh
  rcases h with h | h | h <;> simp [h] at hh

theorem edge_po {tr : Trace} {i j : Nat} {a b : Event} (hij : i < j) (ha : tr[i]? = some a)
    (hb : tr[j]? = some b) (h : a.tid = b.tid) : Edge tr i j :=
  ⟨hij, a, ha, b, hb, Or.inl h⟩

theorem edge_sync {tr : Trace} {i j : Nat} {a b : Event} {μa μb : Mode} (hij : i < j)
    (ha : tr[i]? = some a) (hb : tr[j]? = some b) (hra : a.op = relOp μa) (hab : b.op = acqOp μb)
    (hobj : a.obj = b.obj) (hx : μa = .ex ∨ μb = .ex) : Edge tr i j := by
  refine ⟨hij, a, ha, b, hb, Or.inr (Or.inl ⟨?_, hobj⟩)⟩
  cases μa <;> cases μb <;> simp_all [relOp, acqOp]

/-- Lock hand-over: if `ta` holds `m` at its access `i`, another thread `tb` holds `m` at its
later access `j`, and at least one of the two holds it exclusively, then `i` happens before `j`
(through `ta`'s release and `tb`'s acquire). -/
theorem hb_of_locks {tr : Trace} (wf : WF tr) {i j : Nat} {a b : Event} {m : Nat} {μa μb : Mode}
    (hij : i < j) (ha : tr[i]? = some a) (hb : tr[j]? = some b) (hne : a.tid ≠ b.tid)
    (hacc : a.isAccess)
    (hA : holdsAt tr i a.tid m μa) (hB : holdsAt tr j b.tid m μb) (hx : μa = .ex ∨ μb = .ex) :
    HB tr i j := by
  obtain ⟨p, hp, ⟨ea, hea, hea1, hea2, hea3⟩, hnra⟩ := hA
  obtain ⟨q, hq, ⟨eb, heb, heb1, heb2, heb3⟩, hnrb⟩ := hB
  have hql : q < tr.length := lt_of_some heb
  have hpl : p < tr.length := lt_of_some hea
  have hboth : ¬ (μb = .sh ∧ μa = .sh) := by
    intro h; rcases hx with h' | h' <;> simp_all
  have hboth' : ¬ (μa = .sh ∧ μb = .sh) := fun h => hboth ⟨h.2, h.1⟩
  by_cases hqi : q < i
  · -- `tb` acquired before `i` and still holds at `j`: both hold at the later of the two acquires
    exfalso
    have hpq : p ≠ q := by
      intro h; subst h
      have := some_inj hea heb
      subst this
      exact hne (hea1.symm.trans heb1)
    rcases Nat.lt_or_gt_of_ne hpq with hlt | hgt
    · have h := wf.mutex q hql eb heb μb heb2 p hlt ea hea μa hea2 (hea3.trans heb3.symm)
        (by
          intro r hr hpr x hx'
          rw [hea1, hea3]
          exact hnra r (Nat.lt_trans hr hqi) hpr x hx')
      exact hboth ⟨h.2.1, h.2.2⟩
    · have h := wf.mutex p hpl ea hea μa hea2 q hgt eb heb μb heb2 (heb3.trans hea3.symm)
        (by
          intro r hr hqr x hx'
          rw [heb1, heb3]
          exact hnrb r (Nat.lt_trans hr (Nat.lt_trans hp hij)) hqr x hx')
      exact hboth' ⟨h.2.1, h.2.2⟩
  · have hiq : i ≤ q := Nat.le_of_not_lt hqi
    have hpq : p < q := Nat.lt_of_lt_of_le hp hiq
    -- `ta` must have released before `tb`'s acquire at `q`
    by_cases hrel : ∃ r, r < q ∧ p < r ∧ ∃ x, tr[r]? = some x ∧ (x.tid = a.tid ∧ x.op = relOp μa ∧ x.obj = m)
    · obtain ⟨r, hrq, hpr, x, hx', hx1, hx2, hx3⟩ := hrel
      have hir : i < r := by
        rcases Nat.lt_or_ge r i with h | h
        · exact absurd ⟨hx1, hx2, hx3⟩ (hnra r h hpr x hx')
        · rcases Nat.lt_or_eq_of_le h with h | h
          · exact h
          · subst h
            have := some_inj ha hx'
            subst this
            exact absurd hx2 (access_not_rel hacc μa)
      have e1 : Edge tr i r := edge_po hir ha hx' hx1.symm
      have e2 : Edge tr r q := edge_sync hrq hx' heb hx2 heb2 (hx3.trans heb3.symm) hx
      have e3 : Edge tr q j := edge_po hq heb hb heb1
      exact .step e1 (.step e2 (.base e3))
    · exfalso
      have h := wf.mutex q hql eb heb μb heb2 p hpq ea hea μa hea2 (hea3.trans heb3.symm)
        (by
          intro r hr hpr x hx' hh
          rw [hea1, hea3] at hh
          exact hrel ⟨r, hr, hpr, x, hx', hh⟩)
      exact hboth ⟨h.2.1, h.2.2⟩

/-- Initialisation: an access by the main thread before the first `spawn` happens before every
later event of the trace. -/
theorem hb_of_preSpawn {tr : Trace} (wf : WF tr) {i : Nat} {a : Event} (ha : tr[i]? = some a)
    (hacc : a.isAccess) (hpre : preSpawn tr i a) :
    ∀ j, i < j → ∀ b, tr[j]? = some b → HB tr i j := by
  intro j
  induction j using Nat.strongRecOn with
  | ind j ih =>
    intro hij b hb
    by_cases h0 : b.tid = 0
    · exact .base (edge_po hij ha hb (hpre.1.trans h0.symm))
    · obtain ⟨s, hsj, sp, hsp, hop, harg⟩ := wf.spawned j (lt_of_some hb) b hb h0
      have his : i < s := by
        rcases Nat.lt_or_ge s i with h | h
        · exact absurd hop (hpre.2 s h sp hsp)
        · rcases Nat.lt_or_eq_of_le h with h | h
          · exact h
          · subst h
            have := some_inj ha hsp
            subst this
            exact absurd hop (access_not_spawn hacc)
      have h1 : HB tr i s := ih s hsj his sp hsp
      have e : Edge tr s j := ⟨hsj, sp, hsp, b, hb, Or.inr (Or.inr (Or.inl ⟨hop, harg.symm⟩))⟩
      exact h1.trans (.base e)

/-- No thread other than 0 has an event before the first spawn. -/
theorem tid_zero_of_preSpawn {tr : Trace} (wf : WF tr) {i j : Nat} {a b : Event}
    (hji : j < i) (hb : tr[j]? = some b) (hpre : preSpawn tr i a) : b.tid = 0 := by
  apply Classical.byContradiction
  intro h0
  obtain ⟨s, hsj, sp, hsp, hop, _⟩ := wf.spawned j (lt_of_some hb) b hb h0
  exact hpre.2 s (Nat.lt_trans hsj hji) sp hsp hop

/-- Tear-down: every access of another thread happens before an access made after joining all
other threads. -/
theorem hb_of_postJoin {tr : Trace} (wf : WF tr) {i j : Nat} {a b : Event} (ha : tr[i]? = some a)
    (hb : tr[j]? = some b) (hne : a.tid ≠ b.tid) (hacc : a.isAccess)
    (hpost : postJoin tr j b) : i < j ∧ HB tr i j := by
  obtain ⟨s, hsj, jn, hjn, htid, hop, harg⟩ := hpost i (lt_of_some ha) a ha hne
  have his : i < s := by
    rcases Nat.lt_or_ge s i with h | h
    · exact absurd harg.symm (wf.joined s (lt_of_some hjn) jn hjn hop i (lt_of_some ha) h a ha)
    · rcases Nat.lt_or_eq_of_le h with h | h
      · exact h
      · subst h
        have := some_inj ha hjn
        subst this
        exact absurd hop (access_not_join hacc)
  have e1 : Edge tr i s := ⟨his, a, ha, jn, hjn, Or.inr (Or.inr (Or.inr ⟨hop, harg.symm⟩))⟩
  have e2 : Edge tr s j := edge_po hsj hjn hb htid
  exact ⟨Nat.lt_trans his hsj, .step e1 (.base e2)⟩

theorem cacheLookup_eq (disc : List (Nat × LDisc)) (cache : Option (Nat × Option LDisc)) (loc : Nat)
    (hc : ∀ l d, cache = some (l, d) → d = lookup disc l) : cacheLookup disc cache loc = lookup disc loc := by
  unfold cacheLookup
  cases cache with
  | none => rfl
  | some ld =>
    obtain ⟨l, d⟩ := ld
    by_cases h : (l == loc) = true
    · have hl : l = loc := by simpa using h
      have hd' := hc l d rfl
      rw [hl] at hd'
      simp only [h, if_true]
      exact hd'
    · simp only [h]
      rfl

/-- `checkFrom` with a consistent cache is `factOK ∨ isKnown` on every fact. -/
theorem checkFrom_iff (disc : List (Nat × LDisc)) (roles : List (Nat × Role))
    (known : List (Nat × Nat × AKind)) (fs : List Fact) :
    ∀ cache : Option (Nat × Option LDisc), (∀ l d, cache = some (l, d) → d = lookup disc l) →
      (checkFrom disc roles known cache fs = true ↔
        ∀ f, f ∈ fs → (factOK disc roles f || isKnown known f) = true) := by
  induction fs with
  | nil => intro cache _; simp [checkFrom]
  | cons f fs ih =>
    intro cache hc
    unfold checkFrom
    simp only [cacheLookup_eq disc cache f.loc hc, Bool.and_eq_true, List.mem_cons]
    rw [ih (some (f.loc, lookup disc f.loc)) (by
      intro l d h
      cases h
      rfl)]
    constructor
    · rintro ⟨h1, h2⟩ g hg
      rcases hg with rfl | hg
      · simpa [factOK] using h1
      · exact h2 g hg
    · intro h
      refine ⟨?_, fun g hg => h g (Or.inr hg)⟩
      have := h f (Or.inl rfl)
      simpa [factOK] using this

end Refinery.Locks
