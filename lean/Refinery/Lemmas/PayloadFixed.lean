import Refinery.Lemmas.Payload
/-!
# Lemmas for the repaired variants of the trace-identity extraction (`Fixed.emptyMetaTid`,
`Fixed.configuredOrder`): simulation of `wstepN` / `mapStepN` by a per-entry specification and what
folding it computes.  Property theorems: `Refinery/Props/C21.lean`.
-/
namespace Refinery.Lemmas.Payload
open Refinery Refinery.Model.Payload

/-! ## The identity part of the repaired loop body -/

def keepTidId (fx : Fixed) (prev : String) (s : IdSt) : IdSt :=
  if fx.emptyMetaTid = true ∧ s.tid = "" then { s with tid := prev } else s

theorem keepTid_id (fx : Fixed) (prev : String) (m : Meta) : (keepTid fx prev m).id = keepTidId fx prev m.id := by
  unfold keepTid keepTidId
  split <;> rfl

abbrev IdC := IdSt × (String × Nat)

def idStepN (fx : Fixed) (cfg : Cfg) (sc : IdC) (kv : String × Val) : Option IdC :=
  match metaDecode kv.1 kv.2 with
  | .err => none
  | .done mv => some (keepTidId fx sc.1.tid (idPut sc.1 kv.1 mv), sc.2)
  | .skip =>
    if fx.configuredOrder = true then some ((idFallC cfg sc.1 sc.2 kv.1 kv.2).getD sc)
    else some ((idFall cfg sc.1 kv.1 kv.2).getD sc.1, sc.2)

def idFoldN (fx : Fixed) (cfg : Cfg) : IdC → List (String × Val) → Option IdC
  | sc, [] => some sc
  | sc, kv :: t =>
    match idStepN fx cfg sc kv with
    | none => none
    | some sc' => idFoldN fx cfg sc' t

theorem wstepN_id {fx : Fixed} {cfg : Cfg} {sk : List String} (hsk : ∀ k ∈ sk, tableKind k = none)
    (st : (Pay × Nat) × (String × Nat)) (kv : String × Val) :
    (wstepN fx cfg sk st kv).map (fun r => (r.1.1.md.id, r.2)) = idStepN fx cfg (st.1.1.md.id, st.2) kv := by
  unfold wstepN idStepN
  generalize metaDecode kv.1 kv.2 = d
  cases d with
  | err => rfl
  | done mv => simp [keepTid_id, put_id]
  | skip =>
    simp only
    by_cases hc : fx.configuredOrder = true
    · simp only [hc, if_true]
      generalize idFallC cfg st.1.1.md.id st.2 kv.1 kv.2 = o
      cases o with
      | some ic => simp
      | none => simp [wireKey_id hsk]
    · simp only [hc, if_false]
      generalize idFall cfg st.1.1.md.id kv.1 kv.2 = o
      cases o with
      | some i => simp
      | none => simp [wireKey_id hsk]

theorem wfoldN_id {fx : Fixed} {cfg : Cfg} {sk : List String} (hsk : ∀ k ∈ sk, tableKind k = none) :
    ∀ (fs : List (String × Val)) (st : (Pay × Nat) × (String × Nat)),
      (wfoldN fx cfg sk st fs).map (fun r => (r.1.1.md.id, r.2)) = idFoldN fx cfg (st.1.1.md.id, st.2) fs
  | [], st => rfl
  | kv :: t, st => by
    have h := wstepN_id (fx := fx) (cfg := cfg) hsk st kv
    unfold wfoldN idFoldN
    cases hw : wstepN fx cfg sk st kv with
    | none =>
      rw [hw] at h
      simp only [Option.map_none] at h
      rw [← h]
      rfl
    | some st' =>
      rw [hw] at h
      simp only [Option.map_some] at h
      rw [← h]
      exact wfoldN_id hsk t st'

/-! ## Per-entry specification of the repaired variants (sane configurations) -/

/-- 02: `MetaTraceID` is only assigned by `meta.trace_id` (01: not by an empty one) -/
def tidT (fx : Fixed) (s : IdSt) (k : String) (v : Val) : String :=
  match v with
  | .str x => if k = kTid then (if fx.emptyMetaTid = true ∧ x = "" then s.tid else x) else s.tid
  | _ => s.tid

/-- 02: the candidate (value, configured index) -/
def candT (cfg : Cfg) (c : String × Nat) (k : String) (v : Val) : String × Nat :=
  match v with
  | .str x => if k ∈ cfg.tn ∧ cfg.tn.idxOf k < c.2 ∧ x ≠ "" then (x, cfg.tn.idxOf k) else c
  | _ => c

def rootT (cfg : Cfg) (s : IdSt) (c : String × Nat) (k : String) (v : Val) : Option Bool :=
  match v with
  | .bool b => if k = kRoot then some b else s.root
  | .str x => if k ∈ cfg.pn ∧ x ≠ "" ∧ ¬ (k ∈ cfg.tn ∧ cfg.tn.idxOf k < c.2) then some false else s.root
  | _ => s.root

def specStepN (fx : Fixed) (cfg : Cfg) (sc : IdC) (kv : String × Val) : IdC :=
  if fx.configuredOrder = true then
    (⟨tidT fx sc.1 kv.1 kv.2, stepSig sc.1 kv.1 kv.2, rootT cfg sc.1 sc.2 kv.1 kv.2, stepProbe sc.1 kv.1 kv.2⟩,
      candT cfg sc.2 kv.1 kv.2)
  else (keepTidId fx sc.1.tid (specStep cfg sc.1 kv), sc.2)

def specFoldN (fx : Fixed) (cfg : Cfg) (sc : IdC) (fs : List (String × Val)) : IdC :=
  fs.foldl (specStepN fx cfg) sc

theorem idFallC_not_cfg {cfg : Cfg} {k : String} (h1 : k ∉ cfg.tn) (h2 : k ∉ cfg.pn) (s : IdSt)
    (c : String × Nat) (v : Val) : idFallC cfg s c k v = none := by
  cases v <;> simp [idFallC, h1, h2]

/-- in the unrepaired trace/parent branch an empty result never needs restoring -/
theorem keep_idFall (fx : Fixed) (cfg : Cfg) (s : IdSt) (k : String) (v : Val) :
    keepTidId fx s.tid ((idFall cfg s k v).getD s) = (idFall cfg s k v).getD s := by
  obtain ⟨t, sg, r, pr⟩ := s
  unfold keepTidId
  split
  · rename_i h
    have h2 := h.2
    cases v <;> simp [idFall] at h2 ⊢
    rename_i x
    by_cases c1 : t = "" ∧ k ∈ cfg.tn
    · simp [c1] at h2 ⊢
      simp [h2, c1.1]
    · by_cases c2 : k ∈ cfg.pn
      · by_cases c3 : x = "" <;> simp [c1, c2, c3] at h2 ⊢ <;> simp [h2]
      · simp [c1, c2] at h2 ⊢
  · rfl

theorem idStepN_spec {fx : Fixed} {cfg : Cfg} (hs : Sane cfg) {sc sc1 : IdC} {kv : String × Val}
    (h : idStepN fx cfg sc kv = some sc1) : sc1 = specStepN fx cfg sc kv := by
  obtain ⟨s, c⟩ := sc
  obtain ⟨k, v⟩ := kv
  by_cases hc : fx.configuredOrder = true
  · -- repaired trace-ID selection
    unfold specStepN
    simp only [hc, if_true]
    unfold idStepN at h
    simp only [hc, if_true] at h
    have a1 := sane_tn hs kind_kTid
    have a2 := sane_tn hs kind_kSig
    have a3 := sane_tn hs kind_kRoot
    have a4 := sane_tn hs kind_kProbe
    have b1 := sane_pn hs kind_kTid
    have b2 := sane_pn hs kind_kSig
    have b3 := sane_pn hs kind_kRoot
    have b4 := sane_pn hs kind_kProbe
    obtain ⟨n1, n2, n3, n4, n5, n6, _⟩ := keys_ne
    cases hk : tableKind k with
    | none =>
      have hp : prefKind k = none := by rw [prefKind_eq, hk]
      have hd : metaDecode k v = .skip := by simp [metaDecode, hp]
      rw [hd] at h
      simp only [Option.some.injEq] at h
      subst h
      have h1 : k ≠ kTid := by intro e; rw [e, kind_kTid] at hk; cases hk
      have h2 : k ≠ kSig := by intro e; rw [e, kind_kSig] at hk; cases hk
      have h3 : k ≠ kRoot := by intro e; rw [e, kind_kRoot] at hk; cases hk
      have h4 : k ≠ kProbe := by intro e; rw [e, kind_kProbe] at hk; cases hk
      cases v <;> simp [idFallC, tidT, stepSig, rootT, stepProbe, candT, h1, h2, h3, h4]
      rename_i x
      by_cases c1 : k ∈ cfg.tn ∧ cfg.tn.idxOf k < c.2
      · have c1' : ¬ c.2 ≤ cfg.tn.idxOf k := Nat.not_le.mpr c1.2
        by_cases c3 : x = "" <;> simp [c1, c3, c1']
      · by_cases c2 : k ∈ cfg.pn <;> by_cases c3 : x = "" <;> simp [c1, c2, c3] <;>
          (intro h5 h6; exact absurd ⟨h5, h6⟩ c1)
    | some kd =>
      have hp : prefKind k = some kd := by rw [prefKind_eq, hk]
      have hn1 : k ∉ cfg.tn := sane_tn hs hk
      have hn2 : k ∉ cfg.pn := sane_pn hs hk
      have hf : idFallC cfg s c k v = none := idFallC_not_cfg hn1 hn2 s c v
      have hcand : candT cfg c k v = c := by cases v <;> simp [candT, hn1]
      by_cases e1 : k = kTid
      · subst e1
        have : kd = .str := by rw [kind_kTid] at hk; cases hk; rfl
        subst this
        cases v <;>
          simp [metaDecode, hp, hf, idPut, keepTidId, tidT, stepSig, rootT, stepProbe, candT, a1, b1, n1, n2, n3] at h ⊢ <;>
          (try (subst h; rfl))
        rename_i x
        subst h
        by_cases c3 : fx.emptyMetaTid = true ∧ x = "" <;> simp [c3]
      · by_cases e2 : k = kSig
        · subst e2
          have : kd = .str := by rw [kind_kSig] at hk; cases hk; rfl
          subst this
          cases v <;>
            simp [metaDecode, hp, hf, idPut, keepTidId, tidT, stepSig, rootT, stepProbe, candT, a2, b2, Ne.symm n1, n4, n5] at h ⊢ <;>
            (try (subst h; rfl))
        · by_cases e3 : k = kRoot
          · subst e3
            have : kd = .bool := by rw [kind_kRoot] at hk; cases hk; rfl
            subst this
            cases v <;>
              simp [metaDecode, hp, hf, idPut, keepTidId, tidT, stepSig, rootT, stepProbe, candT, a3, b3, Ne.symm n2, Ne.symm n4, n6] at h ⊢ <;>
              (try (subst h; rfl))
          · by_cases e4 : k = kProbe
            · subst e4
              have : kd = .bool := by rw [kind_kProbe] at hk; cases hk; rfl
              subst this
              cases v <;>
                simp [metaDecode, hp, hf, idPut, keepTidId, tidT, stepSig, rootT, stepProbe, candT, a4, b4, Ne.symm n3, Ne.symm n5, Ne.symm n6] at h ⊢ <;>
                (try (subst h; rfl))
            · have hput : ∀ mv, idPut s k mv = s := by intro mv; simp [idPut, e1, e2, e3, e4]
              have hkeep : keepTidId fx s.tid s = s := by
                unfold keepTidId; split
                · rename_i h5; cases s; simp_all
                · rfl
              have hspec : (⟨tidT fx s k v, stepSig s k v, rootT cfg s c k v, stepProbe s k v⟩ : IdSt) = s := by
                cases v <;> simp [tidT, stepSig, rootT, stepProbe, e1, e2, e3, e4, hn1, hn2]
              rw [hspec, hcand]
              cases hd : metaDecode k v with
              | err => rw [hd] at h; simp at h
              | done mv => rw [hd] at h; simp [hput, hkeep] at h; exact h.symm
              | skip => rw [hd] at h; simp [hf] at h; exact h.symm
  · -- trace-ID selection as before; only the empty `meta.trace_id` guard
    have hc' : fx.configuredOrder = false := by simpa using hc
    unfold specStepN
    simp only [hc', Bool.false_eq_true, if_false]
    unfold idStepN at h
    simp only [hc', Bool.false_eq_true, if_false] at h
    cases hd : metaDecode k v with
    | err => rw [hd] at h; simp at h
    | done mv =>
      rw [hd] at h
      simp only [Option.some.injEq] at h
      have h0 : idStep cfg s (k, v) = some (idPut s k mv) := by simp [idStep, hd]
      rw [← idStep_spec hs h0]
      exact h.symm
    | skip =>
      rw [hd] at h
      simp only [Option.some.injEq] at h
      have h0 : idStep cfg s (k, v) = some ((idFall cfg s k v).getD s) := by simp [idStep, hd]
      rw [← idStep_spec hs h0, keep_idFall]
      exact h.symm

theorem idFoldN_spec {fx : Fixed} {cfg : Cfg} (hs : Sane cfg) :
    ∀ (fs : List (String × Val)) (sc sc' : IdC), idFoldN fx cfg sc fs = some sc' → sc' = specFoldN fx cfg sc fs
  | [], sc, sc', h => by simp [idFoldN] at h; simp [specFoldN, h]
  | kv :: t, sc, sc', h => by
    unfold idFoldN at h
    cases h1 : idStepN fx cfg sc kv with
    | none => rw [h1] at h; simp at h
    | some sc1 =>
      rw [h1] at h
      have := idStepN_spec hs h1
      subst this
      have := idFoldN_spec hs t _ _ h
      simpa [specFoldN] using this


/-! ## 01 alone: the unrepaired selection with the empty-`meta.trace_id` guard -/

def stepE (fx : Fixed) (cfg : Cfg) (s : IdSt) (kv : String × Val) : IdSt := keepTidId fx s.tid (specStep cfg s kv)
def foldE (fx : Fixed) (cfg : Cfg) (s : IdSt) (fs : List (String × Val)) : IdSt := fs.foldl (stepE fx cfg) s

/-- `meta.trace_id` or a configured trace-ID field holding a non-empty string, entry-wise -/
def MetaOrCand (cfg : Cfg) (k : String) (v : Val) : Prop :=
  ∃ x, v = Val.str x ∧ x ≠ "" ∧ (k = kTid ∨ k ∈ cfg.tn)

theorem stepE_tid_ne {fx : Fixed} {cfg : Cfg} (hs : Sane cfg) (he : fx.emptyMetaTid = true) (s : IdSt)
    (k : String) (v : Val) :
    ((stepE fx cfg s (k, v)).tid ≠ "" ↔ (s.tid ≠ "" ∨ MetaOrCand cfg k v)) := by
  have a1 := sane_tn hs kind_kTid
  unfold stepE keepTidId MetaOrCand
  rw [specStep_eq hs]
  simp only [he, true_and]
  cases v with
  | str x =>
    simp only [stepTid, Val.str.injEq, exists_eq_left']
    by_cases e1 : k = kTid
    · subst e1
      by_cases c3 : x = "" <;> simp [c3]
    · by_cases c1 : s.tid = "" <;> by_cases c2 : k ∈ cfg.tn <;> by_cases c3 : x = "" <;> simp [e1, c1, c2, c3]
  | _ => (simp only [stepTid]; by_cases c1 : s.tid = "" <;> simp [c1])

theorem foldE_tid_ne {fx : Fixed} {cfg : Cfg} (hs : Sane cfg) (he : fx.emptyMetaTid = true) :
    ∀ (fs : List (String × Val)) (s : IdSt), ((foldE fx cfg s fs).tid ≠ "" ↔ (s.tid ≠ "" ∨ Belongs cfg fs))
  | [], s => by simp [foldE, Belongs]
  | (k, v) :: t, s => by
    have ih := foldE_tid_ne hs he t (stepE fx cfg s (k, v))
    have st := stepE_tid_ne hs he s k v
    show (foldE fx cfg (stepE fx cfg s (k, v)) t).tid ≠ "" ↔ _
    rw [ih, st]
    constructor
    · rintro ((h | ⟨x, rfl, hx, hk⟩) | ⟨k', x, hk', hm, hx⟩)
      · exact Or.inl h
      · exact Or.inr ⟨k, x, hk, List.mem_cons_self, hx⟩
      · exact Or.inr ⟨k', x, hk', List.mem_cons_of_mem _ hm, hx⟩
    · rintro (h | ⟨k', x, hk', hm, hx⟩)
      · exact Or.inl (Or.inl h)
      · rcases List.mem_cons.mp hm with e | hm
        · cases e; exact Or.inl (Or.inr ⟨x, rfl, hx, hk'⟩)
        · exact Or.inr ⟨k', x, hk', hm, hx⟩

theorem keepTidId_probe (fx : Fixed) (prev : String) (s : IdSt) : (keepTidId fx prev s).probe = s.probe := by
  unfold keepTidId; split <;> rfl

theorem foldE_probe {fx : Fixed} {cfg : Cfg} (hs : Sane cfg) : ∀ (fs : List (String × Val)) (s : IdSt),
    kProbe ∉ keysOf fs → (foldE fx cfg s fs).probe = s.probe
  | [], s, _ => rfl
  | (k, v) :: t, s, hk => by
    have hk1 : k ≠ kProbe := fun e => hk (by rw [← e]; exact List.mem_cons_self)
    have hk' : kProbe ∉ keysOf t := fun h => hk (List.mem_cons_of_mem _ h)
    show (foldE fx cfg (stepE fx cfg s (k, v)) t).probe = _
    rw [foldE_probe hs t _ hk']
    unfold stepE
    rw [keepTidId_probe, specStep_eq hs]
    cases v <;> simp [stepProbe, hk1]

theorem specFoldN_E {fx : Fixed} {cfg : Cfg} (hc : fx.configuredOrder = false) :
    ∀ (fs : List (String × Val)) (s : IdSt) (c : String × Nat),
      specFoldN fx cfg (s, c) fs = (foldE fx cfg s fs, c)
  | [], s, c => rfl
  | kv :: t, s, c => by
    show specFoldN fx cfg (specStepN fx cfg (s, c) kv) t = _
    have : specStepN fx cfg (s, c) kv = (stepE fx cfg s kv, c) := by
      simp [specStepN, hc, stepE]
    rw [this, specFoldN_E hc t]
    rfl

/-! ## 02: `MetaTraceID` and the candidate are computed independently -/

def tidStr (fx : Fixed) (t : String) (k : String) (v : Val) : String :=
  match v with
  | .str x => if k = kTid then (if fx.emptyMetaTid = true ∧ x = "" then t else x) else t
  | _ => t

def tidFold (fx : Fixed) (t : String) (fs : List (String × Val)) : String :=
  fs.foldl (fun t kv => tidStr fx t kv.1 kv.2) t

def candFold (cfg : Cfg) (c : String × Nat) (fs : List (String × Val)) : String × Nat :=
  fs.foldl (fun c kv => candT cfg c kv.1 kv.2) c

theorem tidT_eq (fx : Fixed) (s : IdSt) (k : String) (v : Val) : tidT fx s k v = tidStr fx s.tid k v := by
  cases v <;> rfl

theorem tidFold_cons (fx : Fixed) (t : String) (kv : String × Val) (fs : List (String × Val)) :
    tidFold fx t (kv :: fs) = tidFold fx (tidStr fx t kv.1 kv.2) fs := rfl

theorem candFold_cons (cfg : Cfg) (c : String × Nat) (kv : String × Val) (fs : List (String × Val)) :
    candFold cfg c (kv :: fs) = candFold cfg (candT cfg c kv.1 kv.2) fs := rfl

theorem specFoldN_T {fx : Fixed} {cfg : Cfg} (hc : fx.configuredOrder = true) :
    ∀ (fs : List (String × Val)) (s : IdSt) (c : String × Nat),
      (specFoldN fx cfg (s, c) fs).1.tid = tidFold fx s.tid fs ∧
      (specFoldN fx cfg (s, c) fs).2 = candFold cfg c fs
  | [], s, c => ⟨rfl, rfl⟩
  | kv :: t, s, c => by
    show (specFoldN fx cfg (specStepN fx cfg (s, c) kv) t).1.tid = _ ∧ (specFoldN fx cfg (specStepN fx cfg (s, c) kv) t).2 = _
    have : specStepN fx cfg (s, c) kv =
        (⟨tidT fx s kv.1 kv.2, stepSig s kv.1 kv.2, rootT cfg s c kv.1 kv.2, stepProbe s kv.1 kv.2⟩, candT cfg c kv.1 kv.2) := by
      simp [specStepN, hc]
    rw [this]
    have ih := specFoldN_T (cfg := cfg) hc t
      ⟨tidT fx s kv.1 kv.2, stepSig s kv.1 kv.2, rootT cfg s c kv.1 kv.2, stepProbe s kv.1 kv.2⟩ (candT cfg c kv.1 kv.2)
    refine ⟨?_, ?_⟩
    · rw [tidFold_cons, ← tidT_eq]; exact ih.1
    · rw [candFold_cons]; exact ih.2

theorem specFoldN_T_probe {fx : Fixed} {cfg : Cfg} (hc : fx.configuredOrder = true) :
    ∀ (fs : List (String × Val)) (s : IdSt) (c : String × Nat), kProbe ∉ keysOf fs →
      (specFoldN fx cfg (s, c) fs).1.probe = s.probe
  | [], s, c, _ => rfl
  | (k, v) :: t, s, c, hk => by
    have hk1 : k ≠ kProbe := fun e => hk (by rw [← e]; exact List.mem_cons_self)
    have hk' : kProbe ∉ keysOf t := fun h => hk (List.mem_cons_of_mem _ h)
    show (specFoldN fx cfg (specStepN fx cfg (s, c) (k, v)) t).1.probe = _
    have : specStepN fx cfg (s, c) (k, v) =
        (⟨tidT fx s k v, stepSig s k v, rootT cfg s c k v, stepProbe s k v⟩, candT cfg c k v) := by
      simp [specStepN, hc]
    rw [this, specFoldN_T_probe hc t _ _ hk']
    cases v <;> simp [stepProbe, hk1]

/-- some `meta.trace_id` entry holds a non-empty string -/
def MetaHolds (fs : List (String × Val)) : Prop := ∃ x, x ≠ "" ∧ (kTid, Val.str x) ∈ fs

theorem metaHolds_cons (k : String) (v : Val) (fs : List (String × Val)) :
    MetaHolds ((k, v) :: fs) ↔ ((k = kTid ∧ ∃ x, v = Val.str x ∧ x ≠ "") ∨ MetaHolds fs) := by
  unfold MetaHolds
  constructor
  · rintro ⟨x, hx, hm⟩
    rcases List.mem_cons.mp hm with e | hm'
    · cases e; exact Or.inl ⟨rfl, x, rfl, hx⟩
    · exact Or.inr ⟨x, hx, hm'⟩
  · rintro (⟨rfl, x, rfl, hx⟩ | ⟨x, hx, hm⟩)
    · exact ⟨x, hx, List.mem_cons_self⟩
    · exact ⟨x, hx, List.mem_cons_of_mem _ hm⟩

theorem tidStr_ne {fx : Fixed} (he : fx.emptyMetaTid = true) (t k : String) (v : Val) :
    (tidStr fx t k v ≠ "" ↔ (t ≠ "" ∨ (k = kTid ∧ ∃ x, v = Val.str x ∧ x ≠ ""))) := by
  cases v with
  | str x =>
    simp only [tidStr, he, true_and, Val.str.injEq, exists_eq_left']
    by_cases e1 : k = kTid <;> by_cases c3 : x = "" <;> by_cases c1 : t = "" <;> simp [e1, c3, c1]
  | _ => simp [tidStr]

/-- with the guard, `MetaTraceID` is non-empty exactly when some `meta.trace_id` holds a non-empty string -/
theorem tidFold_ne {fx : Fixed} (he : fx.emptyMetaTid = true) : ∀ (fs : List (String × Val)) (t : String),
    (tidFold fx t fs ≠ "" ↔ (t ≠ "" ∨ MetaHolds fs))
  | [], t => by simp [tidFold, MetaHolds]
  | (k, v) :: fs, t => by
    rw [tidFold_cons, tidFold_ne he fs, metaHolds_cons, tidStr_ne he]
    constructor
    · rintro ((h | h) | h)
      · exact Or.inl h
      · exact Or.inr (Or.inl h)
      · exact Or.inr (Or.inr h)
    · rintro (h | h | h)
      · exact Or.inl (Or.inl h)
      · exact Or.inl (Or.inr h)
      · exact Or.inr h

theorem tidFold_not_key (fx : Fixed) : ∀ (fs : List (String × Val)) (t : String), kTid ∉ keysOf fs →
    tidFold fx t fs = t
  | [], t, _ => rfl
  | (k, v) :: fs, t, hk => by
    have hk1 : k ≠ kTid := fun e => hk (by rw [← e]; exact List.mem_cons_self)
    have hk' : kTid ∉ keysOf fs := fun h => hk (List.mem_cons_of_mem _ h)
    rw [tidFold_cons, tidFold_not_key fx fs _ hk']
    cases v <;> simp [tidStr, hk1]

/-- unique keys, no empty-string `meta.trace_id`: `MetaTraceID` is what `meta.trace_id` holds -/
theorem tidFold_char (fx : Fixed) : ∀ (fs : List (String × Val)) (t : String), (keysOf fs).Nodup →
    NoEmptyMetaTid fs → tidFold fx t fs = match metaTid fs with | some m => m | none => t
  | [], t, _, _ => rfl
  | (k, v) :: fs, t, hnd, hne => by
    have hnd' : (keysOf fs).Nodup := (List.nodup_cons.mp hnd).2
    have hk : k ∉ keysOf fs := (List.nodup_cons.mp hnd).1
    have hne' : NoEmptyMetaTid fs := fun h => hne (List.mem_cons_of_mem _ h)
    rw [tidFold_cons]
    by_cases e1 : k = kTid
    · subst e1
      rw [tidFold_not_key fx fs _ hk]
      cases v with
      | str x =>
        have hx : x ≠ "" := by intro e; apply hne; rw [e]; exact List.mem_cons_self
        simp [tidStr, metaTid, hx]
      | _ => simp [tidStr, metaTid, metaTid_not_key hk]
    · rw [tidFold_char fx fs _ hnd' hne']
      cases v <;> simp [tidStr, metaTid, e1]

/-- the candidate after the loop: its index is minimal among the non-empty configured fields, and it
is either the initial one or a genuine field of the event -/
theorem candFold_spec (cfg : Cfg) : ∀ (fs : List (String × Val)) (c : String × Nat),
    (candFold cfg c fs).2 ≤ c.2 ∧
    (candFold cfg c fs = c ∨
      (∃ k, k ∈ cfg.tn ∧ (k, Val.str (candFold cfg c fs).1) ∈ fs ∧ (candFold cfg c fs).1 ≠ "" ∧
        cfg.tn.idxOf k = (candFold cfg c fs).2 ∧ (candFold cfg c fs).2 < c.2)) ∧
    (∀ k x, k ∈ cfg.tn → (k, Val.str x) ∈ fs → x ≠ "" → (candFold cfg c fs).2 ≤ cfg.tn.idxOf k)
  | [], c => ⟨Nat.le_refl _, Or.inl rfl, fun k x _ hm _ => by simp at hm⟩
  | (k, v) :: fs, c => by
    rw [candFold_cons]
    obtain ⟨h1, h2, h3⟩ := candFold_spec cfg fs (candT cfg c k v)
    have hstep : (candT cfg c k v).2 ≤ c.2 := by
      cases v <;> simp [candT]
      split
      · rename_i hh; exact Nat.le_of_lt hh.2.1
      · exact Nat.le_refl _
    refine ⟨Nat.le_trans h1 hstep, ?_, ?_⟩
    · rcases h2 with h2 | ⟨k', a, b, d, e, f⟩
      · rw [h2]
        cases v with
        | str x =>
          simp only [candT]
          split
          · rename_i hh
            exact Or.inr ⟨k, hh.1, List.mem_cons_self, hh.2.2, rfl, hh.2.1⟩
          · exact Or.inl rfl
        | _ => exact Or.inl rfl
      · exact Or.inr ⟨k', a, List.mem_cons_of_mem _ b, d, e, Nat.lt_of_lt_of_le f hstep⟩
    · intro k' x hk' hm hx
      rcases List.mem_cons.mp hm with e | hm
      · cases e
        refine Nat.le_trans h1 ?_
        simp only [candT]
        split
        · exact Nat.le_refl _
        · rename_i hh
          have : ¬ cfg.tn.idxOf k < c.2 := fun h => hh ⟨hk', h, hx⟩
          exact Nat.le_of_not_lt this
      · exact h3 k' x hk' hm hx

theorem strAt_not_key : ∀ {fs : List (String × Val)} {k : String}, k ∉ keysOf fs → strAt fs k = none
  | [], _, _ => rfl
  | (k', v) :: t, k, h => by
    have h1 : k' ≠ k := fun e => h (by rw [← e]; exact List.mem_cons_self)
    have h2 : k ∉ keysOf t := fun hm => h (List.mem_cons_of_mem _ hm)
    unfold strAt
    cases v <;> simp [h1, strAt_not_key h2]

theorem strAt_of_mem : ∀ {fs : List (String × Val)} {k x : String}, (keysOf fs).Nodup →
    (k, Val.str x) ∈ fs → x ≠ "" → strAt fs k = some x
  | [], _, _, _, hm, _ => by simp at hm
  | (k', v) :: t, k, x, hnd, hm, hx => by
    have hnd' : (keysOf t).Nodup := (List.nodup_cons.mp hnd).2
    have hk : k' ∉ keysOf t := (List.nodup_cons.mp hnd).1
    rcases List.mem_cons.mp hm with e | hm'
    · cases e
      simp [strAt, hx]
    · have hne : k' ≠ k := fun e => hk (by rw [e]; exact mem_keysOf hm')
      have ih := strAt_of_mem hnd' hm' hx
      clear hm
      unfold strAt
      cases v <;> simp [hne, ih]

/-- the configured field with the smallest index among those holding a non-empty string is what
`firstConfigured` returns -/
theorem firstConfigured_min (fs : List (String × Val)) : ∀ (tn : List String) (k x : String), k ∈ tn →
    strAt fs k = some x → (∀ k', k' ∈ tn → tn.idxOf k' < tn.idxOf k → strAt fs k' = none) →
    firstConfigured tn fs = x
  | [], k, x, hk, _, _ => by simp at hk
  | a :: t, k, x, hk, hs, hmin => by
    unfold firstConfigured
    by_cases e : a = k
    · subst e; rw [hs]
    · have hk' : k ∈ t := by
        rcases List.mem_cons.mp hk with h | h
        · exact absurd h.symm e
        · exact h
      have hb : (a == k) = false := by simpa using e
      have ha : strAt fs a = none := by
        apply hmin a List.mem_cons_self
        simp [List.idxOf_cons, hb]
      rw [ha]
      simp only
      apply firstConfigured_min fs t k x hk' hs
      intro k' hk'' hlt
      by_cases e' : a = k'
      · rw [← e']; exact ha
      · apply hmin k' (List.mem_cons_of_mem _ hk'')
        have hb' : (a == k') = false := by simpa using e'
        simp only [List.idxOf_cons, hb, hb', cond_false]
        exact Nat.succ_lt_succ hlt

/-- 02: the candidate after the loop is the first configured trace-ID field holding a non-empty string -/
theorem candFold_eq_configured {cfg : Cfg} {fs : List (String × Val)} (hnd : (keysOf fs).Nodup) :
    (candFold cfg ("", cfg.tn.length) fs).1 = firstConfigured cfg.tn fs := by
  obtain ⟨_, h2, h3⟩ := candFold_spec cfg fs ("", cfg.tn.length)
  rcases h2 with h2 | ⟨k, hk, hm, hx, hidx, _⟩
  · rw [h2]
    by_cases hc : firstConfigured cfg.tn fs = ""
    · exact hc.symm
    · obtain ⟨k, a, b, d⟩ := firstConfigured_cand fs cfg.tn hc
      have := h3 k _ a b d
      rw [h2] at this
      exact absurd (List.idxOf_lt_length_of_mem a) (Nat.not_lt.mpr this)
  · symm
    apply firstConfigured_min fs cfg.tn k _ hk (strAt_of_mem hnd hm hx)
    intro k' hk' hlt
    cases hs : strAt fs k' with
    | none => rfl
    | some y =>
      have := strAt_some hs
      have := h3 k' y hk' this.1 this.2
      rw [hidx] at hlt
      exact absurd hlt (Nat.not_lt.mpr this)

theorem candFold_ne {cfg : Cfg} (fs : List (String × Val)) :
    ((candFold cfg ("", cfg.tn.length) fs).1 ≠ "" ↔ ∃ x, Cand cfg fs x) := by
  obtain ⟨_, h2, h3⟩ := candFold_spec cfg fs ("", cfg.tn.length)
  constructor
  · intro h
    rcases h2 with h2 | ⟨k, hk, hm, hx, _, _⟩
    · rw [h2] at h; exact absurd rfl h
    · exact ⟨_, k, hk, hm, hx⟩
  · rintro ⟨x, k, hk, hm, hx⟩
    rcases h2 with h2 | ⟨_, _, _, hx', _, _⟩
    · have := h3 k x hk hm hx
      rw [h2] at this
      exact absurd (List.idxOf_lt_length_of_mem hk) (Nat.not_lt.mpr this)
    · exact hx'


/-! ## From the repaired ingestion functions to the specification -/

/-- at least one of the two trace-identity repairs is in (otherwise the `…F` functions are the old ones) -/
def Repaired (fx : Fixed) : Prop := (fx.emptyMetaTid || fx.configuredOrder) = true

def identN (fx : Fixed) (cfg : Cfg) (fs : List (String × Val)) : IdSt :=
  finishLogId (fillTid fx (specFoldN fx cfg (initRootId {}, ("", cfg.tn.length)) fs).2.1
    (specFoldN fx cfg (initRootId {}, ("", cfg.tn.length)) fs).1)

theorem extractWireN_id {fx : Fixed} {cfg : Cfg} (hs : Sane cfg) {sk : List String}
    (hsk : ∀ k ∈ sk, tableKind k = none) {p0 p1 : Pay} {fs : List (String × Val)}
    (h : extractWireN fx cfg sk p0 fs = some p1) :
    p1.md.id = finishLogId (fillTid fx (specFoldN fx cfg (initRootId p0.md.id, ("", cfg.tn.length)) fs).2.1
      (specFoldN fx cfg (initRootId p0.md.id, ("", cfg.tn.length)) fs).1) := by
  unfold extractWireN at h
  cases hw : wfoldN fx cfg sk (({ p0 with md := initRoot p0.md, isEmpty := p0.isEmpty || fs.isEmpty }, 0), ("", cfg.tn.length)) fs with
  | none => rw [hw] at h; simp at h
  | some r =>
    obtain ⟨⟨q, found⟩, c⟩ := r
    rw [hw] at h
    simp only [Option.some.injEq] at h
    subst h
    have h1 := wfoldN_id (fx := fx) (cfg := cfg) hsk fs
      (({ p0 with md := initRoot p0.md, isEmpty := p0.isEmpty || fs.isEmpty }, 0), ("", cfg.tn.length))
    rw [hw] at h1
    simp only [Option.map_some] at h1
    have h2 := idFoldN_spec hs _ _ _ h1.symm
    simp only [initRoot] at h2
    rw [← h2]
    by_cases cc : found < sk.length <;> simp [cc, finishLog]

def wireOutcomeF (fx : Fixed) (cfg : Cfg) (fs : List (String × Val)) : Outcome := outcomeOf (ingestBatchF fx cfg fs)
def metaOnlyOutcomeF (fx : Fixed) (cfg : Cfg) (fs : List (String × Val)) : Outcome := outcomeOf (ingestMetaF fx cfg fs)
def mapOutcomeF (fx : Fixed) (cfg : Cfg) (f2i : Nat → Int) (ord : List (String × Val)) : Outcome :=
  outcomeOf (extractMapF fx cfg f2i (addUA cfg { memo := ord }) ord)

theorem wireF_ident {fx : Fixed} {cfg : Cfg} (hr : Repaired fx) (hs : Sane cfg) {fs : List (String × Val)}
    (h : wireOutcomeF fx cfg fs ≠ .err) : wireOutcomeF fx cfg fs = outcomeId (identN fx cfg fs) := by
  unfold Repaired at hr
  unfold wireOutcomeF at h ⊢
  unfold ingestBatchF extractWireF at h ⊢
  simp only [hr, if_true] at h ⊢
  cases he : extractWireN fx cfg cfg.sk {} fs with
  | none => rw [he] at h; simp [outcomeOf] at h
  | some p1 =>
    rw [he] at h
    simp only at h ⊢
    by_cases c : p1.isEmpty = true
    · simp [c, outcomeOf] at h
    · simp only [c]
      simp only [outcomeOf, outcome, addUA_id, Bool.false_eq_true, if_false]
      rw [extractWireN_id hs (sane_sk hs) he]
      rfl

theorem metaOnlyF_ident {fx : Fixed} {cfg : Cfg} (hr : Repaired fx) (hs : Sane cfg) {fs : List (String × Val)}
    (h : metaOnlyOutcomeF fx cfg fs ≠ .err) : metaOnlyOutcomeF fx cfg fs = outcomeId (identN fx cfg fs) := by
  unfold Repaired at hr
  unfold metaOnlyOutcomeF at h ⊢
  unfold ingestMetaF extractWireF at h ⊢
  simp only [hr, if_true] at h ⊢
  cases he : extractWireN fx cfg [] {} fs with
  | none => rw [he] at h; simp [outcomeOf] at h
  | some p1 =>
    simp only [outcomeOf, outcome, addUA_id]
    rw [extractWireN_id hs (by intro k hk; cases hk) he]
    rfl

/-! ### the map path -/

def rootM (cfg : Cfg) (s : IdSt) (k : String) (v : Val) : Option Bool :=
  match v with
  | .bool b => if k = kRoot then some b else s.root
  | .str x => if k ∈ cfg.pn ∧ x ≠ "" then some false else s.root
  | _ => s.root

def specStepM (fx : Fixed) (cfg : Cfg) (s : IdSt) (kv : String × Val) : IdSt :=
  if fx.configuredOrder = true then
    ⟨tidT fx s kv.1 kv.2, stepSig s kv.1 kv.2, rootM cfg s kv.1 kv.2, stepProbe s kv.1 kv.2⟩
  else stepE fx cfg s kv

theorem keep_spec_nonres {fx : Fixed} {cfg : Cfg} (hs : Sane cfg) {k : String} (hk : tableKind k = none)
    (s : IdSt) (v : Val) : keepTidId fx s.tid (specStep cfg s (k, v)) = specStep cfg s (k, v) := by
  have hp : prefKind k = none := by rw [prefKind_eq, hk]
  have h0 : idStep cfg s (k, v) = some ((idFall cfg s k v).getD s) := by simp [idStep, metaDecode, hp]
  rw [← idStep_spec hs h0]
  exact keep_idFall fx cfg s k v

theorem mapStepN_id {fx : Fixed} {cfg : Cfg} (hs : Sane cfg) (f2i : Nat → Int) (m : Meta) (kv : String × Val) :
    (mapStepN fx cfg f2i m kv).id = specStepM fx cfg m.id kv := by
  obtain ⟨k, v⟩ := kv
  by_cases hc : fx.configuredOrder = true
  · unfold specStepM mapStepN
    simp only [hc, if_true]
    have a1 := sane_tn hs kind_kTid
    have b1 := sane_pn hs kind_kTid
    have b2 := sane_pn hs kind_kSig
    have b3 := sane_pn hs kind_kRoot
    have b4 := sane_pn hs kind_kProbe
    obtain ⟨n1, n2, n3, n4, n5, n6, _⟩ := keys_ne
    cases hk : tableKind k with
    | none =>
      have h1 : k ≠ kTid := by intro e; rw [e, kind_kTid] at hk; cases hk
      have h2 : k ≠ kSig := by intro e; rw [e, kind_kSig] at hk; cases hk
      have h3 : k ≠ kRoot := by intro e; rw [e, kind_kRoot] at hk; cases hk
      have h4 : k ≠ kProbe := by intro e; rw [e, kind_kProbe] at hk; cases hk
      by_cases c2 : k ∈ cfg.pn
      · cases v <;> simp [c2, tidT, stepSig, rootM, stepProbe, h1, h2, h3, h4]
        rename_i x
        by_cases c3 : x = "" <;> simp [c3]
      · cases v <;> simp [c2, tidT, stepSig, rootM, stepProbe, h1, h2, h3, h4]
    | some kd =>
      have hn2 : k ∉ cfg.pn := sane_pn hs hk
      by_cases e1 : k = kTid
      · subst e1
        have : kd = .str := by rw [kind_kTid] at hk; cases hk; rfl
        subst this
        cases v <;> simp [typedSet, keepTid_id, keepTidId, put_id, idPut, tidT, stepSig, rootM, stepProbe, b1, n1, n2, n3]
        rename_i x
        by_cases c3 : fx.emptyMetaTid = true ∧ x = "" <;> simp [c3]
      · have hkeep : ∀ s : IdSt, s.tid = m.id.tid → keepTidId fx m.id.tid s = s := by
          intro s hst
          unfold keepTidId; split
          · rename_i h5
            obtain ⟨t, sg, r, pr⟩ := s
            simp at hst h5 ⊢
            rw [← hst, h5.2]
          · rfl
        by_cases e2 : k = kSig
        · subst e2
          have : kd = .str := by rw [kind_kSig] at hk; cases hk; rfl
          subst this
          cases v <;> simp [typedSet, keepTid_id, put_id, idPut, hkeep, tidT, stepSig, rootM, stepProbe, b2, Ne.symm n1, n4, n5]
        · by_cases e3 : k = kRoot
          · subst e3
            have : kd = .bool := by rw [kind_kRoot] at hk; cases hk; rfl
            subst this
            cases v <;> simp [typedSet, keepTid_id, put_id, idPut, hkeep, tidT, stepSig, rootM, stepProbe, b3, Ne.symm n2, Ne.symm n4, n6]
          · by_cases e4 : k = kProbe
            · subst e4
              have : kd = .bool := by rw [kind_kProbe] at hk; cases hk; rfl
              subst this
              cases v <;> simp [typedSet, keepTid_id, put_id, idPut, hkeep, tidT, stepSig, rootM, stepProbe, b4, Ne.symm n3, Ne.symm n5, Ne.symm n6]
            · have hput : ∀ mv, idPut m.id k mv = m.id := by intro mv; simp [idPut, e1, e2, e3, e4]
              have hspec : (⟨tidT fx m.id k v, stepSig m.id k v, rootM cfg m.id k v, stepProbe m.id k v⟩ : IdSt) = m.id := by
                cases v <;> simp [tidT, stepSig, rootM, stepProbe, e1, e2, e3, e4, hn2]
              rw [hspec]
              cases kd <;> cases v <;> simp [typedSet, keepTid_id, put_id, hput, hkeep]
  · have hc' : fx.configuredOrder = false := by simpa using hc
    unfold specStepM
    simp only [hc', Bool.false_eq_true, if_false]
    unfold stepE
    rw [← mapStep_id hs f2i m (k, v)]
    unfold mapStepN mapStep
    simp only [hc', Bool.false_eq_true, if_false]
    cases hk : tableKind k with
    | none =>
      simp only
      have := keep_spec_nonres (fx := fx) hs hk m.id v
      rw [← mapStep_id hs f2i m (k, v)] at this
      unfold mapStep at this
      simp only [hk] at this
      exact this.symm
    | some kd =>
      cases kd <;> simp [keepTid_id]

theorem mapFoldN_id {fx : Fixed} {cfg : Cfg} (hs : Sane cfg) (f2i : Nat → Int) :
    ∀ (ord : List (String × Val)) (m : Meta),
      (ord.foldl (mapStepN fx cfg f2i) m).id = ord.foldl (specStepM fx cfg) m.id
  | [], m => rfl
  | kv :: t, m => by
    simp only [List.foldl_cons]
    rw [mapFoldN_id hs f2i t, mapStepN_id hs]

def identM (fx : Fixed) (cfg : Cfg) (ord : List (String × Val)) : IdSt :=
  finishLogId (fillTid fx (firstConfiguredMemo cfg.tn ord) (ord.foldl (specStepM fx cfg) (initRootId {})))

theorem addUA_memo_eq (cfg : Cfg) (p : Pay) : (addUA cfg p).memo = p.memo := by unfold addUA; split <;> rfl

theorem mapF_ident {fx : Fixed} {cfg : Cfg} (hr : Repaired fx) (hs : Sane cfg) (f2i : Nat → Int)
    (ord : List (String × Val)) : mapOutcomeF fx cfg f2i ord = outcomeId (identM fx cfg ord) := by
  unfold Repaired at hr
  unfold mapOutcomeF extractMapF
  simp only [hr, if_true]
  unfold extractMapN
  simp only [addUA_extracted, addUA_raw, Bool.false_eq_true, if_false, List.isEmpty_nil, if_true]
  simp only [outcomeOf, outcome, finishLog, mapFoldN_id hs, initRoot, addUA_id]
  unfold identM
  simp [finishLogId, addUA_memo_eq]


/-! ## The property on the repaired identity state -/

theorem belongs_split (cfg : Cfg) (fs : List (String × Val)) :
    Belongs cfg fs ↔ (MetaHolds fs ∨ ∃ x, Cand cfg fs x) := by
  constructor
  · rintro ⟨k, x, hk, hm, hx⟩
    rcases hk with rfl | hk
    · exact Or.inl ⟨x, hx, hm⟩
    · exact Or.inr ⟨x, k, hk, hm, hx⟩
  · rintro (⟨x, hx, hm⟩ | ⟨x, k, hk, hm, hx⟩)
    · exact ⟨kTid, x, Or.inl rfl, hm, hx⟩
    · exact ⟨k, x, Or.inr hk, hm, hx⟩

theorem fillTid_off {fx : Fixed} (hc : fx.configuredOrder = false) (c : String) (s : IdSt) : fillTid fx c s = s := by
  simp [fillTid, hc]

theorem fillTid_probe (fx : Fixed) (c : String) (s : IdSt) : (fillTid fx c s).probe = s.probe := by
  unfold fillTid; split <;> rfl

theorem fillTid_tid {fx : Fixed} (hc : fx.configuredOrder = true) (c : String) (s : IdSt) :
    (fillTid fx c s).tid = if s.tid = "" then c else s.tid := by
  unfold fillTid
  simp only [hc, true_and]
  split <;> simp [*]

theorem outcomeId_isSpan (i : IdSt) : (∃ t r, outcomeId i = .span t r) ↔ (i.probe ≠ some true ∧ i.tid ≠ "") := by
  constructor
  · rintro ⟨t, r, h⟩
    obtain ⟨h1, h2, h3, _⟩ := outcomeId_span.mp h
    exact ⟨h1, h2 ▸ h3⟩
  · rintro ⟨h1, h2⟩
    exact ⟨i.tid, i.root.getD false, outcomeId_span.mpr ⟨h1, rfl, h2, rfl⟩⟩

theorem initRootId_tid : (initRootId ({} : IdSt)).tid = "" := rfl
theorem initRootId_probe : (initRootId ({} : IdSt)).probe = none := rfl

theorem firstConfigured_ne_iff (cfg : Cfg) (fs : List (String × Val)) :
    (firstConfigured cfg.tn fs ≠ "" ↔ ∃ x, Cand cfg fs x) := by
  constructor
  · intro h
    obtain ⟨k, a, b, d⟩ := firstConfigured_cand fs cfg.tn h
    exact ⟨_, k, a, b, d⟩
  · rintro ⟨x, k, hk, hm, hx⟩ h
    exact hx (firstConfigured_none fs cfg.tn h k hk x hm)

theorem identN_belongs {fx : Fixed} {cfg : Cfg} (he : fx.emptyMetaTid = true) (hs : Sane cfg)
    {fs : List (String × Val)} (hp : kProbe ∉ keysOf fs) :
    (∃ t r, outcomeId (identN fx cfg fs) = .span t r) ↔ Belongs cfg fs := by
  rw [outcomeId_isSpan]
  unfold identN
  rw [finishLogId_probe, finishLogId_tid, fillTid_probe]
  cases hc : fx.configuredOrder with
  | false =>
    rw [specFoldN_E hc, fillTid_off hc]
    simp only
    rw [foldE_probe hs fs _ hp, foldE_tid_ne hs he]
    simp [initRootId_tid, initRootId_probe]
  | true =>
    obtain ⟨h1, h2⟩ := specFoldN_T (cfg := cfg) hc fs (initRootId {}) ("", cfg.tn.length)
    rw [specFoldN_T_probe hc fs _ _ hp, fillTid_tid hc, h1, h2, belongs_split]
    simp only [initRootId_tid, initRootId_probe]
    have ht := tidFold_ne he fs ""
    have hcand := candFold_ne (cfg := cfg) fs
    by_cases c1 : tidFold fx "" fs = ""
    · simp only [c1, if_true]
      have : ¬ MetaHolds fs := fun h => (ht.mpr (Or.inr h)) c1
      simp [hcand, this]
    · simp only [c1, if_false]
      have : MetaHolds fs := by
        rcases ht.mp c1 with h | h
        · exact absurd rfl h
        · exact h
      simp [c1, this]

theorem identN_tid {fx : Fixed} {cfg : Cfg} (hc : fx.configuredOrder = true)
    {fs : List (String × Val)} (hnd : (keysOf fs).Nodup) (hne : NoEmptyMetaTid fs) :
    (identN fx cfg fs).tid = specTid cfg fs := by
  unfold identN specTid
  obtain ⟨h1, h2⟩ := specFoldN_T (cfg := cfg) hc fs (initRootId {}) ("", cfg.tn.length)
  rw [finishLogId_tid, fillTid_tid hc, h1, h2, tidFold_char fx fs _ hnd hne, candFold_eq_configured hnd]
  cases hm : metaTid fs with
  | none => simp [initRootId_tid]
  | some m =>
    have : m ≠ "" := fun e => hne (by rw [← e]; exact metaTid_some hm)
    simp [this]

/-! ### the map path -/

theorem foldM_E {fx : Fixed} {cfg : Cfg} (hc : fx.configuredOrder = false) :
    ∀ (ord : List (String × Val)) (s : IdSt), ord.foldl (specStepM fx cfg) s = foldE fx cfg s ord
  | [], s => rfl
  | kv :: t, s => by
    simp only [List.foldl_cons]
    have : specStepM fx cfg s kv = stepE fx cfg s kv := by simp [specStepM, hc]
    rw [this, foldM_E hc t]
    rfl

theorem foldM_T {fx : Fixed} {cfg : Cfg} (hc : fx.configuredOrder = true) :
    ∀ (ord : List (String × Val)) (s : IdSt),
      (ord.foldl (specStepM fx cfg) s).tid = tidFold fx s.tid ord ∧
      (kProbe ∉ keysOf ord → (ord.foldl (specStepM fx cfg) s).probe = s.probe)
  | [], s => ⟨rfl, fun _ => rfl⟩
  | (k, v) :: t, s => by
    simp only [List.foldl_cons]
    have : specStepM fx cfg s (k, v) = ⟨tidT fx s k v, stepSig s k v, rootM cfg s k v, stepProbe s k v⟩ := by
      simp [specStepM, hc]
    rw [this]
    obtain ⟨ih1, ih2⟩ := foldM_T (cfg := cfg) hc t ⟨tidT fx s k v, stepSig s k v, rootM cfg s k v, stepProbe s k v⟩
    refine ⟨?_, ?_⟩
    · rw [tidFold_cons, ← tidT_eq]; exact ih1
    · intro hk
      have hk1 : k ≠ kProbe := fun e => hk (by rw [← e]; exact List.mem_cons_self)
      have hk' : kProbe ∉ keysOf t := fun h => hk (List.mem_cons_of_mem _ h)
      rw [ih2 hk']
      cases v <;> simp [stepProbe, hk1]

theorem get_strAt : ∀ {fs : List (String × Val)} (k : String), (keysOf fs).Nodup →
    strAt fs k = (match AList.get fs k with
      | some (.str x) => if x = "" then none else some x
      | _ => none)
  | [], _, _ => rfl
  | (a, b) :: t, k, hnd => by
    have hnd' : (keysOf t).Nodup := (List.nodup_cons.mp hnd).2
    have ha : a ∉ keysOf t := (List.nodup_cons.mp hnd).1
    rw [AList.get_cons]
    by_cases e : a = k
    · subst e
      have h0 : strAt t a = none := strAt_not_key ha
      unfold strAt
      cases b <;> simp [h0]
    · have ih := get_strAt (fs := t) k hnd'
      unfold strAt
      cases b <;> simp [e, ih]

theorem firstConfiguredMemo_eq {fs : List (String × Val)} (hnd : (keysOf fs).Nodup) :
    ∀ (tn : List String), firstConfiguredMemo tn fs = firstConfigured tn fs
  | [] => rfl
  | k :: ks => by
    unfold firstConfiguredMemo firstConfigured
    rw [get_strAt k hnd, firstConfiguredMemo_eq hnd ks]
    cases hg : AList.get fs k with
    | none => rfl
    | some v =>
      cases v <;> simp
      rename_i x
      by_cases c3 : x = "" <;> simp [c3]

theorem identM_belongs {fx : Fixed} {cfg : Cfg} (he : fx.emptyMetaTid = true) (hs : Sane cfg)
    {ord : List (String × Val)} (hnd : (keysOf ord).Nodup) (hp : kProbe ∉ keysOf ord) :
    (∃ t r, outcomeId (identM fx cfg ord) = .span t r) ↔ Belongs cfg ord := by
  rw [outcomeId_isSpan]
  unfold identM
  rw [finishLogId_probe, finishLogId_tid, fillTid_probe]
  cases hc : fx.configuredOrder with
  | false =>
    rw [foldM_E hc, fillTid_off hc, foldE_probe hs ord _ hp, foldE_tid_ne hs he]
    simp [initRootId_tid, initRootId_probe]
  | true =>
    obtain ⟨h1, h2⟩ := foldM_T (cfg := cfg) hc ord (initRootId {})
    rw [h2 hp, fillTid_tid hc, h1, belongs_split, firstConfiguredMemo_eq hnd]
    simp only [initRootId_tid, initRootId_probe]
    have ht := tidFold_ne he ord ""
    have hcand := firstConfigured_ne_iff cfg ord
    by_cases c1 : tidFold fx "" ord = ""
    · simp only [c1, if_true]
      have : ¬ MetaHolds ord := fun h => (ht.mpr (Or.inr h)) c1
      simp [hcand, this]
    · simp only [c1, if_false]
      have : MetaHolds ord := by
        rcases ht.mp c1 with h | h
        · exact absurd rfl h
        · exact h
      simp [c1, this]

theorem identM_tid {fx : Fixed} {cfg : Cfg} (hc : fx.configuredOrder = true)
    {ord : List (String × Val)} (hnd : (keysOf ord).Nodup) (hne : NoEmptyMetaTid ord) :
    (identM fx cfg ord).tid = specTid cfg ord := by
  unfold identM specTid
  obtain ⟨h1, _⟩ := foldM_T (cfg := cfg) hc ord (initRootId {})
  rw [finishLogId_tid, fillTid_tid hc, h1, tidFold_char fx ord _ hnd hne, firstConfiguredMemo_eq hnd]
  cases hm : metaTid ord with
  | none => simp [initRootId_tid]
  | some m =>
    have : m ≠ "" := fun e => hne (by rw [← e]; exact metaTid_some hm)
    simp [this]

end Refinery.Lemmas.Payload
