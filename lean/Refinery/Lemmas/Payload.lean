import Refinery.Model.Payload
/-!
# Lemmas for C21 (trace identity): from the model's ingestion functions to a per-entry
specification `specStep`, and what folding `specStep` over an event computes.
The property theorems themselves are in `Refinery/Props/C21.lean`.
-/
namespace Refinery.Lemmas.Payload
open Refinery Refinery.Model.Payload

/-! ## The reserved table (regenerated from the code): side conditions by evaluation -/

theorem table_prefix : ∀ e ∈ metaTable, hasPrefix "meta." e.1 = true := by decide

theorem prefKind_eq (k : String) : prefKind k = tableKind k := by
  unfold prefKind
  split
  · rfl
  · rename_i h
    unfold tableKind
    cases hg : AList.get metaTable k with
    | none => rfl
    | some v =>
      have := table_prefix _ (AList.mem_of_get hg)
      simp_all

theorem kind_kTid : tableKind kTid = some .str := by decide
theorem kind_kSig : tableKind kSig = some .str := by decide
theorem kind_kRoot : tableKind kRoot = some .bool := by decide
theorem kind_kProbe : tableKind kProbe = some .bool := by decide
theorem kind_kUA : tableKind kUA = some .str := by decide

theorem keys_ne : kTid ≠ kSig ∧ kTid ≠ kRoot ∧ kTid ≠ kProbe ∧ kSig ≠ kRoot ∧ kSig ≠ kProbe ∧
    kRoot ≠ kProbe ∧ kUA ≠ kTid ∧ kUA ≠ kSig ∧ kUA ≠ kRoot ∧ kUA ≠ kProbe := by decide

/-- No configured trace-ID, parent-ID or sampling-key field name is a reserved metadata name. -/
def Sane (cfg : Cfg) : Prop :=
  ∀ k, (k ∈ cfg.tn ∨ k ∈ cfg.pn ∨ k ∈ cfg.sk) → tableKind k = none

/-! ## The identity part of `extractCriticalFieldsFromBytes`, isolated -/

def idStep (cfg : Cfg) (s : IdSt) (kv : String × Val) : Option IdSt :=
  match metaDecode kv.1 kv.2 with
  | .err => none
  | .done mv => some (idPut s kv.1 mv)
  | .skip => some ((idFall cfg s kv.1 kv.2).getD s)

def idFold (cfg : Cfg) : IdSt → List (String × Val) → Option IdSt
  | s, [] => some s
  | s, kv :: t =>
    match idStep cfg s kv with
    | none => none
    | some s' => idFold cfg s' t

theorem put_id (m : Meta) (k : String) (v : MVal) : (m.put k v).id = idPut m.id k v := by
  unfold Meta.put
  split
  · rfl
  · rename_i h
    simp only [isIdKey, Bool.or_eq_true, decide_eq_true_eq, not_or] at h
    simp [idPut, h.1.1.1, h.1.1.2, h.1.2, h.2]

theorem wireKey_id {sk : List String} (hsk : ∀ k ∈ sk, tableKind k = none) (p : Pay) (f : Nat)
    (k : String) (v : Val) : (wireKey sk p f k v).1.md.id = p.md.id := by
  unfold wireKey
  split
  · rename_i h
    simp [Pay.set, hsk k h.2.1]
  · rfl

theorem wstep_id {cfg : Cfg} {sk : List String} (hsk : ∀ k ∈ sk, tableKind k = none)
    (st : Pay × Nat) (kv : String × Val) :
    (wstep cfg sk st kv).map (fun r => r.1.md.id) = idStep cfg st.1.md.id kv := by
  unfold wstep idStep
  generalize metaDecode kv.1 kv.2 = d
  cases d with
  | err => rfl
  | done mv => simp [put_id]
  | skip =>
    simp only
    generalize idFall cfg st.1.md.id kv.1 kv.2 = o
    cases o with
    | some i => simp
    | none => simp [wireKey_id hsk]

theorem wfold_id {cfg : Cfg} {sk : List String} (hsk : ∀ k ∈ sk, tableKind k = none) :
    ∀ (fs : List (String × Val)) (st : Pay × Nat),
      (wfold cfg sk st fs).map (fun r => r.1.md.id) = idFold cfg st.1.md.id fs
  | [], st => rfl
  | kv :: t, st => by
    have h := wstep_id (cfg := cfg) hsk st kv
    unfold wfold idFold
    cases hw : wstep cfg sk st kv with
    | none =>
      rw [hw] at h
      simp only [Option.map_none] at h
      rw [← h]
      rfl
    | some st' =>
      rw [hw] at h
      simp only [Option.map_some] at h
      rw [← h]
      exact wfold_id hsk t st'

/-! ## What the identity part computes, as one plain function of the entry -/

def specStep (cfg : Cfg) (s : IdSt) (kv : String × Val) : IdSt :=
  if kv.1 = kTid then (match kv.2 with | .str x => { s with tid := x } | _ => s)
  else if kv.1 = kSig then (match kv.2 with | .str x => { s with sig := x } | _ => s)
  else if kv.1 = kRoot then (match kv.2 with | .bool b => { s with root := some b } | _ => s)
  else if kv.1 = kProbe then (match kv.2 with | .bool b => { s with probe := some b } | _ => s)
  else match kv.2 with
    | .str x =>
      if s.tid = "" ∧ kv.1 ∈ cfg.tn then { s with tid := x }
      else if kv.1 ∈ cfg.pn ∧ x ≠ "" then { s with root := some false }
      else s
    | _ => s

def specFold (cfg : Cfg) (s : IdSt) (fs : List (String × Val)) : IdSt := fs.foldl (specStep cfg) s

theorem idFall_not_cfg {cfg : Cfg} {k : String} (h1 : k ∉ cfg.tn) (h2 : k ∉ cfg.pn) (s : IdSt) (v : Val) :
    idFall cfg s k v = none := by
  cases v <;> simp [idFall, h1, h2]

theorem specElse_not_cfg {cfg : Cfg} {k : String} (h1 : k ∉ cfg.tn) (h2 : k ∉ cfg.pn) (s : IdSt) (v : Val) :
    (match v with
      | .str x => if s.tid = "" ∧ k ∈ cfg.tn then { s with tid := x }
          else if k ∈ cfg.pn ∧ x ≠ "" then { s with root := some false } else s
      | _ => s) = s := by
  cases v <;> simp [h1, h2]

theorem prefKind_kTid : prefKind kTid = some .str := by rw [prefKind_eq, kind_kTid]
theorem prefKind_kSig : prefKind kSig = some .str := by rw [prefKind_eq, kind_kSig]
theorem prefKind_kRoot : prefKind kRoot = some .bool := by rw [prefKind_eq, kind_kRoot]
theorem prefKind_kProbe : prefKind kProbe = some .bool := by rw [prefKind_eq, kind_kProbe]

theorem idStep_spec {cfg : Cfg} (hs : Sane cfg) {s s1 : IdSt} {kv : String × Val}
    (h : idStep cfg s kv = some s1) : s1 = specStep cfg s kv := by
  obtain ⟨k, v⟩ := kv
  unfold idStep at h
  simp only at h
  cases hk : tableKind k with
  | none =>
    have hp : prefKind k = none := by rw [prefKind_eq, hk]
    have hd : metaDecode k v = .skip := by simp [metaDecode, hp]
    rw [hd] at h
    simp only [Option.some.injEq] at h
    subst h
    have h1 : k ≠ kTid := by intro e; rw [e, kind_kTid] at hk; cases hk
    have h2 : k ≠ kSig := by intro e; rw [e, kind_kSig] at hk; cases hk
    have h3 : k ≠ kRoot := by intro e; rw [e, kind_kRoot] at hk; cases hk
    have h4 : k ≠ kProbe := by intro e; rw [e, kind_kProbe] at hk; cases hk
    unfold specStep
    simp only [h1, h2, h3, h4, if_false]
    cases v <;> simp only [idFall, Option.getD_none]
    rename_i x
    by_cases c1 : s.tid = "" ∧ k ∈ cfg.tn
    · simp [c1]
    · by_cases c2 : k ∈ cfg.pn <;> by_cases c3 : x = "" <;> simp [c1, c2, c3]
  | some kd =>
    have hp : prefKind k = some kd := by rw [prefKind_eq, hk]
    have hn1 : k ∉ cfg.tn := fun hm => by have := hs k (Or.inl hm); rw [this] at hk; cases hk
    have hn2 : k ∉ cfg.pn := fun hm => by have := hs k (Or.inr (Or.inl hm)); rw [this] at hk; cases hk
    have hf : idFall cfg s k v = none := idFall_not_cfg hn1 hn2 s v
    have hspecElse := specElse_not_cfg hn1 hn2 s v
    obtain ⟨n1, n2, n3, n4, n5, n6, _⟩ := keys_ne
    by_cases e1 : k = kTid
    · subst e1
      have : kd = .str := by rw [kind_kTid] at hk; cases hk; rfl
      subst this
      cases v <;> simp [metaDecode, hp, hf, idPut, specStep] at h ⊢ <;> exact h.symm
    · by_cases e2 : k = kSig
      · subst e2
        have : kd = .str := by rw [kind_kSig] at hk; cases hk; rfl
        subst this
        cases v <;> simp [metaDecode, hp, hf, idPut, specStep, Ne.symm n1] at h ⊢ <;> exact h.symm
      · by_cases e3 : k = kRoot
        · subst e3
          have : kd = .bool := by rw [kind_kRoot] at hk; cases hk; rfl
          subst this
          cases v <;> simp [metaDecode, hp, hf, idPut, specStep, Ne.symm n2, Ne.symm n4] at h ⊢ <;> exact h.symm
        · by_cases e4 : k = kProbe
          · subst e4
            have : kd = .bool := by rw [kind_kProbe] at hk; cases hk; rfl
            subst this
            cases v <;> simp [metaDecode, hp, hf, idPut, specStep, Ne.symm n3, Ne.symm n5, Ne.symm n6] at h ⊢ <;>
              exact h.symm
          · have hput : ∀ mv, idPut s k mv = s := by intro mv; simp [idPut, e1, e2, e3, e4]
            have hspec : specStep cfg s (k, v) = s := by
              unfold specStep
              simp only [e1, e2, e3, e4, if_false]
              exact hspecElse
            rw [hspec]
            cases hd : metaDecode k v with
            | err => rw [hd] at h; simp at h
            | done mv => rw [hd] at h; simp [hput] at h; exact h.symm
            | skip => rw [hd] at h; simp [hf] at h; exact h.symm

theorem idFold_spec {cfg : Cfg} (hs : Sane cfg) :
    ∀ (fs : List (String × Val)) (s s' : IdSt), idFold cfg s fs = some s' → s' = specFold cfg s fs
  | [], s, s', h => by simp [idFold] at h; simp [specFold, h]
  | kv :: t, s, s', h => by
    unfold idFold at h
    cases h1 : idStep cfg s kv with
    | none => rw [h1] at h; simp at h
    | some s1 =>
      rw [h1] at h
      have := idStep_spec hs h1
      subst this
      have := idFold_spec hs t _ _ h
      simpa [specFold] using this


/-! ## From the ingestion functions to `specFold` -/

/-- the identity state every path ends with: `root` starts `true`, the entries are folded in the
order the path visits them, a log record has its root flag unset -/
def identOf (cfg : Cfg) (fs : List (String × Val)) : IdSt :=
  finishLogId (specFold cfg (initRootId {}) fs)

theorem sane_sk {cfg : Cfg} (hs : Sane cfg) : ∀ k ∈ cfg.sk, tableKind k = none :=
  fun k hk => hs k (Or.inr (Or.inr hk))

theorem extractWire_id {cfg : Cfg} (hs : Sane cfg) {sk : List String} (hsk : ∀ k ∈ sk, tableKind k = none)
    {p0 p1 : Pay} {fs : List (String × Val)} (h : extractWire cfg sk p0 fs = some p1) :
    p1.md.id = finishLogId (specFold cfg (initRootId p0.md.id) fs) := by
  unfold extractWire at h
  cases hw : wfold cfg sk ({ p0 with md := initRoot p0.md, isEmpty := p0.isEmpty || fs.isEmpty }, 0) fs with
  | none => rw [hw] at h; simp at h
  | some r =>
    obtain ⟨q, found⟩ := r
    rw [hw] at h
    simp only [Option.some.injEq] at h
    subst h
    have h1 := wfold_id (cfg := cfg) hsk fs ({ p0 with md := initRoot p0.md, isEmpty := p0.isEmpty || fs.isEmpty }, 0)
    rw [hw] at h1
    simp only [Option.map_some] at h1
    have h2 := idFold_spec hs _ _ _ h1.symm
    by_cases c : found < sk.length <;> simp [c, finishLog, h2, initRoot]

theorem addUA_id (cfg : Cfg) (p : Pay) : (addUA cfg p).md.id = p.md.id := by
  obtain ⟨_, _, _, _, _, _, u1, u2, u3, u4⟩ := keys_ne
  unfold addUA
  split
  · simp [put_id, idPut, u1, u2, u3, u4]
  · rfl

theorem addUA_extracted (cfg : Cfg) (p : Pay) : (addUA cfg p).extracted = p.extracted := by
  unfold addUA; split <;> rfl

theorem addUA_raw (cfg : Cfg) (p : Pay) : (addUA cfg p).raw = p.raw := by
  unfold addUA; split <;> rfl

def wireOutcome (cfg : Cfg) (fs : List (String × Val)) : Outcome := outcomeOf (ingestBatch cfg fs)
def metaOnlyOutcome (cfg : Cfg) (fs : List (String × Val)) : Outcome := outcomeOf (ingestMeta cfg fs)
/-- `/1/events`: `ord` is the memoised map in the order `ExtractMetadata` happens to range over it -/
def mapOutcome (cfg : Cfg) (f2i : Nat → Int) (ord : List (String × Val)) : Outcome :=
  outcomeOf (extractMap cfg f2i (addUA cfg { memo := ord }) ord)

theorem wire_ident {cfg : Cfg} (hs : Sane cfg) {fs : List (String × Val)} (h : wireOutcome cfg fs ≠ .err) :
    wireOutcome cfg fs = outcomeId (identOf cfg fs) := by
  unfold wireOutcome at h ⊢
  unfold ingestBatch at h ⊢
  cases he : extractWire cfg cfg.sk {} fs with
  | none => rw [he] at h; simp [outcomeOf] at h
  | some p1 =>
    rw [he] at h
    simp only at h ⊢
    by_cases c : p1.isEmpty = true
    · simp [c, outcomeOf] at h
    · simp only [c]
      simp only [outcomeOf, outcome, addUA_id, Bool.false_eq_true, if_false]
      rw [extractWire_id hs (sane_sk hs) he]
      rfl

theorem metaOnly_ident {cfg : Cfg} (hs : Sane cfg) {fs : List (String × Val)} (h : metaOnlyOutcome cfg fs ≠ .err) :
    metaOnlyOutcome cfg fs = outcomeId (identOf cfg fs) := by
  unfold metaOnlyOutcome at h ⊢
  unfold ingestMeta at h ⊢
  cases he : extractWire cfg [] {} fs with
  | none => rw [he] at h; simp [outcomeOf] at h
  | some p1 =>
    simp only [outcomeOf, outcome, addUA_id]
    rw [extractWire_id hs (by intro k hk; cases hk) he]
    rfl

theorem mapStep_id {cfg : Cfg} (hs : Sane cfg) (f2i : Nat → Int) (m : Meta) (kv : String × Val) :
    (mapStep cfg f2i m kv).id = specStep cfg m.id kv := by
  obtain ⟨k, v⟩ := kv
  unfold mapStep
  simp only
  cases hk : tableKind k with
  | none =>
    have h1 : k ≠ kTid := by intro e; rw [e, kind_kTid] at hk; cases hk
    have h2 : k ≠ kSig := by intro e; rw [e, kind_kSig] at hk; cases hk
    have h3 : k ≠ kRoot := by intro e; rw [e, kind_kRoot] at hk; cases hk
    have h4 : k ≠ kProbe := by intro e; rw [e, kind_kProbe] at hk; cases hk
    unfold specStep
    simp only [h1, h2, h3, h4, if_false]
    by_cases c1 : m.id.tid = "" ∧ k ∈ cfg.tn
    · cases v <;> simp [c1]
      rename_i x
      by_cases c3 : x = ""
      · simp [c3]
        obtain ⟨i, o⟩ := m
        obtain ⟨t, sg, r, pr⟩ := i
        simp at c1
        simp [c1.1]
      · simp [c3]
    · by_cases c2 : k ∈ cfg.pn
      · cases v <;> simp [c1, c2]
        rename_i x
        by_cases c3 : x = "" <;> simp [c3]
      · cases v <;> simp [c1, c2]
  | some kd =>
    have hn1 : k ∉ cfg.tn := fun hm => by have := hs k (Or.inl hm); rw [this] at hk; cases hk
    have hn2 : k ∉ cfg.pn := fun hm => by have := hs k (Or.inr (Or.inl hm)); rw [this] at hk; cases hk
    have hspecElse := specElse_not_cfg hn1 hn2 m.id v
    obtain ⟨n1, n2, n3, n4, n5, n6, _⟩ := keys_ne
    by_cases e1 : k = kTid
    · subst e1
      have : kd = .str := by rw [kind_kTid] at hk; cases hk; rfl
      subst this
      cases v <;> simp [typedSet, put_id, idPut, specStep]
    · by_cases e2 : k = kSig
      · subst e2
        have : kd = .str := by rw [kind_kSig] at hk; cases hk; rfl
        subst this
        cases v <;> simp [typedSet, put_id, idPut, specStep, Ne.symm n1]
      · by_cases e3 : k = kRoot
        · subst e3
          have : kd = .bool := by rw [kind_kRoot] at hk; cases hk; rfl
          subst this
          cases v <;> simp [typedSet, put_id, idPut, specStep, Ne.symm n2, Ne.symm n4]
        · by_cases e4 : k = kProbe
          · subst e4
            have : kd = .bool := by rw [kind_kProbe] at hk; cases hk; rfl
            subst this
            cases v <;> simp [typedSet, put_id, idPut, specStep, Ne.symm n3, Ne.symm n5, Ne.symm n6]
          · have hput : ∀ mv, idPut m.id k mv = m.id := by intro mv; simp [idPut, e1, e2, e3, e4]
            have hspec : specStep cfg m.id (k, v) = m.id := by
              unfold specStep
              simp only [e1, e2, e3, e4, if_false]
              exact hspecElse
            rw [hspec]
            cases kd <;> cases v <;> simp [typedSet, put_id, hput]

theorem mapFold_id {cfg : Cfg} (hs : Sane cfg) (f2i : Nat → Int) :
    ∀ (ord : List (String × Val)) (m : Meta),
      (ord.foldl (mapStep cfg f2i) m).id = specFold cfg m.id ord
  | [], m => rfl
  | kv :: t, m => by
    simp only [List.foldl_cons, specFold]
    rw [mapFold_id hs f2i t, mapStep_id hs]
    rfl

theorem map_ident {cfg : Cfg} (hs : Sane cfg) (f2i : Nat → Int) (ord : List (String × Val)) :
    mapOutcome cfg f2i ord = outcomeId (identOf cfg ord) := by
  unfold mapOutcome extractMap
  simp only [addUA_extracted, addUA_raw, Bool.false_eq_true, if_false, List.isEmpty_nil, if_true]
  simp only [outcomeOf, outcome, finishLog, mapFold_id hs, initRoot, addUA_id]
  unfold identOf
  simp [finishLogId]


/-! ## `specStep` component by component (valid for sane configurations) -/

def stepTid (cfg : Cfg) (s : IdSt) (k : String) (v : Val) : String :=
  match v with
  | .str x => if k = kTid then x else if s.tid = "" ∧ k ∈ cfg.tn then x else s.tid
  | _ => s.tid

def stepSig (s : IdSt) (k : String) (v : Val) : String :=
  match v with
  | .str x => if k = kSig then x else s.sig
  | _ => s.sig

def stepRoot (cfg : Cfg) (s : IdSt) (k : String) (v : Val) : Option Bool :=
  match v with
  | .bool b => if k = kRoot then some b else s.root
  | .str x => if k ∈ cfg.pn ∧ x ≠ "" ∧ ¬ (s.tid = "" ∧ k ∈ cfg.tn) then some false else s.root
  | _ => s.root

def stepProbe (s : IdSt) (k : String) (v : Val) : Option Bool :=
  match v with
  | .bool b => if k = kProbe then some b else s.probe
  | _ => s.probe

theorem sane_tn {cfg : Cfg} (hs : Sane cfg) {k : String} {kd : MKind} (hk : tableKind k = some kd) :
    k ∉ cfg.tn := fun hm => by have := hs k (Or.inl hm); rw [this] at hk; cases hk

theorem sane_pn {cfg : Cfg} (hs : Sane cfg) {k : String} {kd : MKind} (hk : tableKind k = some kd) :
    k ∉ cfg.pn := fun hm => by have := hs k (Or.inr (Or.inl hm)); rw [this] at hk; cases hk

theorem specStep_eq {cfg : Cfg} (hs : Sane cfg) (s : IdSt) (k : String) (v : Val) :
    specStep cfg s (k, v) = ⟨stepTid cfg s k v, stepSig s k v, stepRoot cfg s k v, stepProbe s k v⟩ := by
  have a1 := sane_tn hs kind_kTid
  have a2 := sane_tn hs kind_kSig
  have a3 := sane_tn hs kind_kRoot
  have a4 := sane_tn hs kind_kProbe
  have b1 := sane_pn hs kind_kTid
  have b2 := sane_pn hs kind_kSig
  have b3 := sane_pn hs kind_kRoot
  have b4 := sane_pn hs kind_kProbe
  obtain ⟨n1, n2, n3, n4, n5, n6, _⟩ := keys_ne
  unfold specStep stepTid stepSig stepRoot stepProbe
  simp only
  by_cases e1 : k = kTid
  · subst e1
    cases v <;> simp [a1, b1, n1, n2, n3]
  · by_cases e2 : k = kSig
    · subst e2
      cases v <;> simp [a2, b2, Ne.symm n1, n4, n5]
    · by_cases e3 : k = kRoot
      · subst e3
        cases v <;> simp [a3, b3, Ne.symm n2, Ne.symm n4, n6]
      · by_cases e4 : k = kProbe
        · subst e4
          cases v <;> simp [a4, b4, Ne.symm n3, Ne.symm n5, Ne.symm n6]
        · cases v <;> simp [e1, e2, e3, e4]
          rename_i x
          by_cases c1 : s.tid = "" ∧ k ∈ cfg.tn
          · simp [c1]
          · by_cases c2 : k ∈ cfg.pn <;> by_cases c3 : x = "" <;> simp [c1, c2, c3]

/-! ## Vocabulary of the property -/

def keysOf (fs : List (String × Val)) : List String := fs.map (·.1)

/-- `meta.trace_id` or a configured trace-ID field holds a non-empty string -/
def Belongs (cfg : Cfg) (fs : List (String × Val)) : Prop :=
  ∃ k x, (k = kTid ∨ k ∈ cfg.tn) ∧ (k, Val.str x) ∈ fs ∧ x ≠ ""

/-- a configured trace-ID field holds the non-empty string `x` -/
def Cand (cfg : Cfg) (fs : List (String × Val)) (x : String) : Prop :=
  ∃ k, k ∈ cfg.tn ∧ (k, Val.str x) ∈ fs ∧ x ≠ ""

/-- a configured parent-ID field holds a non-empty string -/
def HasParent (cfg : Cfg) (fs : List (String × Val)) : Prop :=
  ∃ k x, k ∈ cfg.pn ∧ (k, Val.str x) ∈ fs ∧ x ≠ ""

/-- it is a log record -/
def IsLog (fs : List (String × Val)) : Prop := (kSig, Val.str "log") ∈ fs

def NoEmptyMetaTid (fs : List (String × Val)) : Prop := (kTid, Val.str "") ∉ fs

def Disjoint (cfg : Cfg) : Prop := ∀ k, k ∈ cfg.tn → k ∉ cfg.pn

/-- all trace-ID fields that are present agree (in particular: at most one is present) -/
def Agree (cfg : Cfg) (fs : List (String × Val)) : Prop := ∀ x y, Cand cfg fs x → Cand cfg fs y → x = y

/-- the string `meta.trace_id` holds -/
def metaTid : List (String × Val) → Option String
  | [] => none
  | (k, v) :: t =>
    match v with
    | .str x => if k = kTid then some x else metaTid t
    | _ => metaTid t

/-- first non-empty string held by a configured trace-ID field, in **wire** order -/
def wireFirst (cfg : Cfg) : List (String × Val) → String
  | [] => ""
  | (k, v) :: t =>
    match v with
    | .str x => if k ∈ cfg.tn ∧ x ≠ "" then x else wireFirst cfg t
    | _ => wireFirst cfg t

def strAt : List (String × Val) → String → Option String
  | [], _ => none
  | (k', v) :: t, k =>
    match v with
    | .str x => if k' = k ∧ x ≠ "" then some x else strAt t k
    | _ => strAt t k

/-- first non-empty string held by a configured trace-ID field, in **configured** order -/
def firstConfigured : List String → List (String × Val) → String
  | [], _ => ""
  | k :: ks, fs =>
    match strAt fs k with
    | some x => x
    | none => firstConfigured ks fs

/-- the trace ID the property prescribes -/
def specTid (cfg : Cfg) (fs : List (String × Val)) : String :=
  match metaTid fs with
  | some m => m
  | none => firstConfigured cfg.tn fs

/-- the trace ID the code computes on the wire-order paths -/
def actualTid (cfg : Cfg) (fs : List (String × Val)) : String :=
  match metaTid fs with
  | some m => m
  | none => wireFirst cfg fs

theorem mem_keysOf {fs : List (String × Val)} {k : String} {v : Val} (h : (k, v) ∈ fs) : k ∈ keysOf fs :=
  List.mem_map.mpr ⟨(k, v), h, rfl⟩

theorem metaTid_some : ∀ {fs : List (String × Val)} {m : String}, metaTid fs = some m → (kTid, Val.str m) ∈ fs
  | [], _, h => by simp [metaTid] at h
  | (k, v) :: t, m, h => by
    unfold metaTid at h
    cases v with
    | str x =>
      simp only at h
      split at h
      · rename_i e; cases h; subst e; exact List.mem_cons_self
      · exact List.mem_cons_of_mem _ (metaTid_some h)
    | _ => exact List.mem_cons_of_mem _ (metaTid_some h)

theorem metaTid_none : ∀ {fs : List (String × Val)}, metaTid fs = none → ∀ m, (kTid, Val.str m) ∉ fs
  | [], _, m => by simp
  | (k, v) :: t, h, m => by
    unfold metaTid at h
    intro hm
    cases v with
    | str x =>
      simp only at h
      split at h
      · cases h
      · rename_i e
        rcases List.mem_cons.mp hm with e' | hm
        · cases e'; exact e rfl
        · exact metaTid_none h m hm
    | _ =>
      rcases List.mem_cons.mp hm with e' | hm
      · cases e'
      · exact metaTid_none h m hm

theorem metaTid_not_key {fs : List (String × Val)} (h : kTid ∉ keysOf fs) : metaTid fs = none := by
  cases hm : metaTid fs with
  | none => rfl
  | some m => exact absurd (mem_keysOf (metaTid_some hm)) h

theorem wireFirst_cand (cfg : Cfg) : ∀ (fs : List (String × Val)), wireFirst cfg fs ≠ "" → Cand cfg fs (wireFirst cfg fs)
  | [], h => by simp [wireFirst] at h
  | (k, v) :: t, h => by
    unfold wireFirst at h ⊢
    cases v with
    | str x =>
      simp only at h ⊢
      split
      · rename_i c; exact ⟨k, c.1, List.mem_cons_self, c.2⟩
      · rename_i c
        simp only [c, if_false] at h
        obtain ⟨k', h1, h2, h3⟩ := wireFirst_cand cfg t h
        exact ⟨k', h1, List.mem_cons_of_mem _ h2, h3⟩
    | _ =>
      obtain ⟨k', h1, h2, h3⟩ := wireFirst_cand cfg t h
      exact ⟨k', h1, List.mem_cons_of_mem _ h2, h3⟩

theorem wireFirst_none (cfg : Cfg) : ∀ (fs : List (String × Val)), wireFirst cfg fs = "" → ∀ x, ¬ Cand cfg fs x
  | [], _, x => by rintro ⟨k, _, hm, _⟩; simp at hm
  | (k, v) :: t, h, x => by
    unfold wireFirst at h
    rintro ⟨k', h1, hm, h3⟩
    cases v with
    | str y =>
      simp only at h
      split at h
      · rename_i c; exact c.2 h
      · rename_i c
        rcases List.mem_cons.mp hm with e | hm
        · cases e; exact c ⟨h1, h3⟩
        · exact wireFirst_none cfg t h x ⟨k', h1, hm, h3⟩
    | _ =>
      rcases List.mem_cons.mp hm with e | hm
      · cases e
      · exact wireFirst_none cfg t h x ⟨k', h1, hm, h3⟩

theorem strAt_some : ∀ {fs : List (String × Val)} {k x : String}, strAt fs k = some x → (k, Val.str x) ∈ fs ∧ x ≠ ""
  | [], _, _, h => by simp [strAt] at h
  | (k', v) :: t, k, x, h => by
    unfold strAt at h
    cases v with
    | str y =>
      simp only at h
      split at h
      · rename_i c; cases h; obtain ⟨c1, c2⟩ := c; subst c1; exact ⟨List.mem_cons_self, c2⟩
      · have := strAt_some h; exact ⟨List.mem_cons_of_mem _ this.1, this.2⟩
    | _ => have := strAt_some h; exact ⟨List.mem_cons_of_mem _ this.1, this.2⟩

theorem strAt_none : ∀ {fs : List (String × Val)} {k : String}, strAt fs k = none → ∀ x, (k, Val.str x) ∈ fs → x = ""
  | [], _, _, x, hm => by simp at hm
  | (k', v) :: t, k, h, x, hm => by
    unfold strAt at h
    cases v with
    | str y =>
      simp only at h
      split at h
      · cases h
      · rename_i c
        rcases List.mem_cons.mp hm with e | hm
        · cases e
          apply Classical.byContradiction
          intro hx
          exact c ⟨rfl, hx⟩
        · exact strAt_none h x hm
    | _ =>
      rcases List.mem_cons.mp hm with e | hm
      · cases e
      · exact strAt_none h x hm

theorem firstConfigured_cand (fs : List (String × Val)) : ∀ (ks : List String), firstConfigured ks fs ≠ "" →
    ∃ k, k ∈ ks ∧ (k, Val.str (firstConfigured ks fs)) ∈ fs ∧ firstConfigured ks fs ≠ ""
  | [], h => by simp [firstConfigured] at h
  | k :: ks, h => by
    unfold firstConfigured at h ⊢
    cases hs : strAt fs k with
    | some x =>
      have := strAt_some hs
      exact ⟨k, List.mem_cons_self, this.1, this.2⟩
    | none =>
      rw [hs] at h
      simp only at h ⊢
      obtain ⟨k', h1, h2, h3⟩ := firstConfigured_cand fs ks h
      exact ⟨k', List.mem_cons_of_mem _ h1, h2, h3⟩

theorem firstConfigured_none (fs : List (String × Val)) : ∀ (ks : List String), firstConfigured ks fs = "" →
    ∀ k, k ∈ ks → ∀ x, (k, Val.str x) ∈ fs → x = ""
  | [], _, k, hk, _, _ => by simp at hk
  | k0 :: ks, h, k, hk, x, hm => by
    unfold firstConfigured at h
    cases hs : strAt fs k0 with
    | some y =>
      rw [hs] at h
      simp only at h
      exact absurd h (strAt_some hs).2
    | none =>
      rw [hs] at h
      simp only at h
      rcases List.mem_cons.mp hk with e | hk
      · subst e; exact strAt_none hs x hm
      · exact firstConfigured_none fs ks h k hk x hm

/-- when the trace-ID fields present agree, wire order and configured order pick the same value -/
theorem wireFirst_eq_configured {cfg : Cfg} {fs : List (String × Val)} (ha : Agree cfg fs) :
    wireFirst cfg fs = firstConfigured cfg.tn fs := by
  by_cases hw : wireFirst cfg fs = ""
  · by_cases hc : firstConfigured cfg.tn fs = ""
    · rw [hw, hc]
    · obtain ⟨k, h1, h2, h3⟩ := firstConfigured_cand fs cfg.tn hc
      exact absurd ⟨k, h1, h2, h3⟩ (wireFirst_none cfg fs hw _)
  · have c1 := wireFirst_cand cfg fs hw
    by_cases hc : firstConfigured cfg.tn fs = ""
    · obtain ⟨k, h1, h2, h3⟩ := c1
      exact absurd (firstConfigured_none fs cfg.tn hc k h1 _ h2) h3
    · obtain ⟨k, h1, h2, h3⟩ := firstConfigured_cand fs cfg.tn hc
      exact ha _ _ c1 ⟨k, h1, h2, h3⟩

/-! ## What `specFold` computes -/

theorem specFold_cons (cfg : Cfg) (s : IdSt) (kv : String × Val) (t : List (String × Val)) :
    specFold cfg s (kv :: t) = specFold cfg (specStep cfg s kv) t := rfl

theorem tid_char {cfg : Cfg} (hs : Sane cfg) : ∀ (fs : List (String × Val)) (s : IdSt),
    (keysOf fs).Nodup → NoEmptyMetaTid fs →
    (specFold cfg s fs).tid =
      match metaTid fs with
      | some m => m
      | none => if s.tid = "" then wireFirst cfg fs else s.tid
  | [], s, _, _ => by
    simp only [specFold, List.foldl_nil, metaTid, wireFirst]
    split <;> simp_all
  | (k, v) :: t, s, hnd, hne => by
    have hnd' : (keysOf t).Nodup := (List.nodup_cons.mp hnd).2
    have hk : k ∉ keysOf t := (List.nodup_cons.mp hnd).1
    have hne' : NoEmptyMetaTid t := fun h => hne (List.mem_cons_of_mem _ h)
    have ih := tid_char hs t (specStep cfg s (k, v)) hnd' hne'
    rw [specFold_cons, ih, specStep_eq hs]
    simp only
    by_cases e1 : k = kTid
    · subst e1
      have hm : metaTid t = none := metaTid_not_key hk
      cases v with
      | str x =>
        have hx : x ≠ "" := by
          intro e; apply hne; rw [e]; exact List.mem_cons_self
        simp [metaTid, stepTid, hm, hx]
      | _ => (simp [metaTid, stepTid, wireFirst, hm]; try (by_cases c0 : s.tid = "" <;> simp [c0]))
    · cases v with
      | str x =>
        simp only [metaTid, e1, if_false, stepTid, wireFirst]
        cases hmt : metaTid t with
        | some m => rfl
        | none =>
          simp only
          by_cases c1 : s.tid = "" <;> by_cases c2 : k ∈ cfg.tn <;> by_cases c3 : x = "" <;> simp [c1, c2, c3]
      | _ => (cases hmt : metaTid t <;> simp [metaTid, stepTid, wireFirst, hmt]) <;> try (by_cases c0 : s.tid = "" <;> simp [c0])

def headParent (cfg : Cfg) (k : String) (v : Val) : Bool :=
  match v with
  | .str x => decide (k ∈ cfg.pn ∧ x ≠ "")
  | _ => false

def hasParentB (cfg : Cfg) (fs : List (String × Val)) : Bool := fs.any fun kv => headParent cfg kv.1 kv.2

theorem hasParentB_cons (cfg : Cfg) (k : String) (v : Val) (t : List (String × Val)) :
    hasParentB cfg ((k, v) :: t) = (headParent cfg k v || hasParentB cfg t) := rfl

theorem hasParentB_iff (cfg : Cfg) (fs : List (String × Val)) : hasParentB cfg fs = true ↔ HasParent cfg fs := by
  unfold hasParentB HasParent
  rw [List.any_eq_true]
  constructor
  · rintro ⟨⟨k, v⟩, hm, h⟩
    cases v <;> simp [headParent] at h
    rename_i x
    exact ⟨k, x, h.1, hm, h.2⟩
  · rintro ⟨k, x, h1, hm, h2⟩
    exact ⟨(k, Val.str x), hm, by simp [headParent, h1, h2]⟩

theorem root_char {cfg : Cfg} (hs : Sane cfg) (hd : Disjoint cfg) : ∀ (fs : List (String × Val)) (s : IdSt),
    kRoot ∉ keysOf fs →
    (specFold cfg s fs).root = if hasParentB cfg fs = true then some false else s.root
  | [], s, _ => by simp [specFold, hasParentB]
  | (k, v) :: t, s, hk => by
    have hk1 : k ≠ kRoot := fun e => hk (by rw [← e]; exact List.mem_cons_self)
    have hk' : kRoot ∉ keysOf t := fun h => hk (List.mem_cons_of_mem _ h)
    have ih := root_char hs hd t (specStep cfg s (k, v)) hk'
    rw [specFold_cons, ih, specStep_eq hs, hasParentB_cons]
    simp only
    cases hp : hasParentB cfg t
    · simp only [Bool.or_false]
      cases v with
      | str x =>
        by_cases c : k ∈ cfg.pn ∧ x ≠ ""
        · have hn : k ∉ cfg.tn := fun h => hd k h c.1
          simp [headParent, stepRoot, c.1, c.2, hn]
        · have hc : ¬ (k ∈ cfg.pn ∧ x ≠ "" ∧ ¬ (s.tid = "" ∧ k ∈ cfg.tn)) := fun h => c ⟨h.1, h.2.1⟩
          simp only [headParent, stepRoot, hc, c, if_false, decide_false]
      | bool b => simp [headParent, stepRoot, hk1]
      | _ => simp [headParent, stepRoot]
    · simp

theorem sig_frame {cfg : Cfg} (hs : Sane cfg) : ∀ (fs : List (String × Val)) (s : IdSt),
    kSig ∉ keysOf fs → (specFold cfg s fs).sig = s.sig
  | [], s, _ => rfl
  | (k, v) :: t, s, hk => by
    have hk1 : k ≠ kSig := fun e => hk (by rw [← e]; exact List.mem_cons_self)
    have hk' : kSig ∉ keysOf t := fun h => hk (List.mem_cons_of_mem _ h)
    rw [specFold_cons, sig_frame hs t _ hk', specStep_eq hs]
    cases v <;> simp [stepSig, hk1]

theorem probe_frame {cfg : Cfg} (hs : Sane cfg) : ∀ (fs : List (String × Val)) (s : IdSt),
    kProbe ∉ keysOf fs → (specFold cfg s fs).probe = s.probe
  | [], s, _ => rfl
  | (k, v) :: t, s, hk => by
    have hk1 : k ≠ kProbe := fun e => hk (by rw [← e]; exact List.mem_cons_self)
    have hk' : kProbe ∉ keysOf t := fun h => hk (List.mem_cons_of_mem _ h)
    rw [specFold_cons, probe_frame hs t _ hk', specStep_eq hs]
    cases v <;> simp [stepProbe, hk1]

theorem sig_char {cfg : Cfg} (hs : Sane cfg) : ∀ (fs : List (String × Val)) (s : IdSt),
    (keysOf fs).Nodup →
    ((specFold cfg s fs).sig = "log" ↔ (IsLog fs ∨ (s.sig = "log" ∧ ∀ x, (kSig, Val.str x) ∉ fs)))
  | [], s, _ => by simp [specFold, IsLog]
  | (k, v) :: t, s, hnd => by
    have hnd' : (keysOf t).Nodup := (List.nodup_cons.mp hnd).2
    have hk : k ∉ keysOf t := (List.nodup_cons.mp hnd).1
    by_cases e : k = kSig
    · subst e
      have hno : ∀ w, (kSig, w) ∉ t := fun w hm => hk (mem_keysOf hm)
      rw [specFold_cons, sig_frame hs t _ hk, specStep_eq hs]
      simp only [IsLog, List.mem_cons]
      cases v with
      | str x =>
        simp only [stepSig, if_true]
        constructor
        · intro h; subst h; exact Or.inl (Or.inl rfl)
        · rintro (h | h)
          · rcases h with h | h
            · cases h; rfl
            · exact absurd h (hno _)
          · exact absurd (Or.inl rfl) (h.2 x)
      | _ =>
        simp only [stepSig]
        constructor
        · intro h
          refine Or.inr ⟨h, fun x hm => ?_⟩
          rcases hm with hm | hm
          · cases hm
          · exact hno _ hm
        · rintro (h | h)
          · rcases h with h | h
            · cases h
            · exact absurd h (hno _)
          · exact h.1
    · have ih := sig_char hs t (specStep cfg s (k, v)) hnd'
      rw [specFold_cons, ih, specStep_eq hs]
      have hs1 : stepSig s k v = s.sig := by cases v <;> simp [stepSig, e]
      simp only [hs1, IsLog, List.mem_cons]
      have hne : ∀ w, (kSig, w) ≠ (k, v) := fun w h => e (by cases h; rfl)
      constructor
      · rintro (h | h)
        · exact Or.inl (Or.inr h)
        · refine Or.inr ⟨h.1, fun x hm => ?_⟩
          rcases hm with hm | hm
          · exact hne _ hm
          · exact h.2 x hm
      · rintro (h | h)
        · rcases h with h | h
          · exact absurd h (hne _)
          · exact Or.inl h
        · exact Or.inr ⟨h.1, fun x hm => h.2 x (Or.inr hm)⟩


/-! ## The property, on the identity state every path ends with -/

theorem finishLogId_tid (s : IdSt) : (finishLogId s).tid = s.tid := by unfold finishLogId; split <;> rfl
theorem finishLogId_probe (s : IdSt) : (finishLogId s).probe = s.probe := by unfold finishLogId; split <;> rfl
theorem finishLogId_root (s : IdSt) : (finishLogId s).root = if s.sig = "log" then none else s.root := by
  unfold finishLogId; split <;> simp [*]

theorem ident_tid {cfg : Cfg} (hs : Sane cfg) {fs : List (String × Val)} (hnd : (keysOf fs).Nodup)
    (hne : NoEmptyMetaTid fs) : (identOf cfg fs).tid = actualTid cfg fs := by
  unfold identOf actualTid
  rw [finishLogId_tid, tid_char hs fs _ hnd hne]
  cases metaTid fs <;> simp [initRootId]

theorem ident_probe {cfg : Cfg} (hs : Sane cfg) {fs : List (String × Val)} (hp : kProbe ∉ keysOf fs) :
    (identOf cfg fs).probe = none := by
  unfold identOf
  rw [finishLogId_probe, probe_frame hs fs _ hp]
  rfl

theorem ident_root {cfg : Cfg} (hs : Sane cfg) (hd : Disjoint cfg) {fs : List (String × Val)}
    (hnd : (keysOf fs).Nodup) (hr : kRoot ∉ keysOf fs) :
    (identOf cfg fs).root = some true ↔ (¬ HasParent cfg fs ∧ ¬ IsLog fs) := by
  unfold identOf
  rw [finishLogId_root, root_char hs hd fs _ hr]
  have hsig := sig_char hs fs (initRootId {}) hnd
  have h0 : (initRootId ({} : IdSt)).sig ≠ "log" := by decide
  have h1 : (initRootId ({} : IdSt)).root = some true := rfl
  rw [h1]
  rw [← hasParentB_iff]
  by_cases hl : (specFold cfg (initRootId {}) fs).sig = "log"
  · have : IsLog fs := by
      rcases hsig.mp hl with h | h
      · exact h
      · exact absurd h.1 h0
    simp [hl, this]
  · have : ¬ IsLog fs := fun h => hl (hsig.mpr (Or.inl h))
    cases hp : hasParentB cfg fs <;> simp [hl, this]

theorem outcomeId_span {i : IdSt} {t : String} {r : Bool} :
    outcomeId i = .span t r ↔ (i.probe ≠ some true ∧ i.tid = t ∧ t ≠ "" ∧ r = i.root.getD false) := by
  unfold outcomeId
  by_cases hp : i.probe = some true
  · simp [hp]
  · by_cases ht : i.tid = ""
    · simp only [hp, ht, if_false, if_true]
      constructor
      · intro h; cases h
      · rintro ⟨_, h1, h2, _⟩; exact absurd h1.symm h2
    · simp only [hp, ht, if_false]
      constructor
      · intro h; injection h with h1 h2; exact ⟨hp, h1, h1 ▸ ht, h2.symm⟩
      · rintro ⟨_, h1, _, h3⟩; rw [h1, h3]

theorem core_tid {cfg : Cfg} (hs : Sane cfg) {fs : List (String × Val)} (hnd : (keysOf fs).Nodup)
    (hne : NoEmptyMetaTid fs) {tid : String} {r : Bool} (h : outcomeId (identOf cfg fs) = .span tid r) :
    tid = actualTid cfg fs := by
  rw [← ident_tid hs hnd hne]
  exact (outcomeId_span.mp h).2.1.symm

theorem actual_eq_spec {cfg : Cfg} {fs : List (String × Val)} (ha : Agree cfg fs) :
    actualTid cfg fs = specTid cfg fs := by
  unfold actualTid specTid
  rw [wireFirst_eq_configured ha]

theorem core_belongs {cfg : Cfg} (hs : Sane cfg) {fs : List (String × Val)} (hnd : (keysOf fs).Nodup)
    (hne : NoEmptyMetaTid fs) (hp : kProbe ∉ keysOf fs) :
    (∃ t r, outcomeId (identOf cfg fs) = .span t r) ↔ Belongs cfg fs := by
  have htid := ident_tid hs hnd hne
  have hprobe := ident_probe hs hp
  constructor
  · rintro ⟨t, r, h⟩
    obtain ⟨_, h1, h2, _⟩ := outcomeId_span.mp h
    rw [htid] at h1
    unfold actualTid at h1
    cases hm : metaTid fs with
    | some m =>
      rw [hm] at h1
      simp only at h1
      subst h1
      exact ⟨kTid, m, Or.inl rfl, metaTid_some hm, h2⟩
    | none =>
      rw [hm] at h1
      simp only at h1
      obtain ⟨k, a, b, c⟩ := wireFirst_cand cfg fs (h1 ▸ h2)
      exact ⟨k, _, Or.inr a, b, c⟩
  · rintro ⟨k, x, hk, hm, hx⟩
    have hne' : actualTid cfg fs ≠ "" := by
      unfold actualTid
      cases hmt : metaTid fs with
      | some m =>
        simp only
        intro e
        subst e
        exact hne (metaTid_some hmt)
      | none =>
        simp only
        intro e
        rcases hk with rfl | hk
        · exact metaTid_none hmt x hm
        · exact wireFirst_none cfg fs e x ⟨k, hk, hm, hx⟩
    exact ⟨_, _, outcomeId_span.mpr ⟨by rw [hprobe]; simp, htid, hne', rfl⟩⟩

theorem core_root {cfg : Cfg} (hs : Sane cfg) (hd : Disjoint cfg) {fs : List (String × Val)}
    (hnd : (keysOf fs).Nodup) (hne : NoEmptyMetaTid fs) (hr : kRoot ∉ keysOf fs) (hp : kProbe ∉ keysOf fs) :
    (∃ t, outcomeId (identOf cfg fs) = .span t true) ↔ (Belongs cfg fs ∧ ¬ HasParent cfg fs ∧ ¬ IsLog fs) := by
  have hroot := ident_root hs hd hnd hr
  constructor
  · rintro ⟨t, h⟩
    refine ⟨(core_belongs hs hnd hne hp).mp ⟨t, true, h⟩, hroot.mp ?_⟩
    have h4 := (outcomeId_span.mp h).2.2.2
    cases hrt : (identOf cfg fs).root with
    | none => rw [hrt] at h4; simp at h4
    | some b => rw [hrt] at h4; simp at h4; rw [h4]
  · rintro ⟨hb, hrest⟩
    obtain ⟨t, r, h⟩ := (core_belongs hs hnd hne hp).mpr hb
    have h4 := (outcomeId_span.mp h).2.2.2
    rw [hroot.mpr hrest] at h4
    simp at h4
    subst h4
    exact ⟨t, h⟩

theorem core_log {cfg : Cfg} (hs : Sane cfg) {fs : List (String × Val)} (hnd : (keysOf fs).Nodup)
    (hl : IsLog fs) (t : String) : outcomeId (identOf cfg fs) ≠ .span t true := by
  intro h
  have h4 := (outcomeId_span.mp h).2.2.2
  have : (identOf cfg fs).root = none := by
    unfold identOf
    rw [finishLogId_root, if_pos ((sig_char hs fs _ hnd).mpr (Or.inl hl))]
  rw [this] at h4
  simp at h4


end Refinery.Lemmas.Payload
