import Refinery.Lemmas.SamplerRegistryKey
/-!
State invariants of the sampler registry model (C12, C13) and their preservation by every
operation.  `P` is the set of (prefix, definition) pairs that can be asked for ("in play").
-/
set_option linter.unusedVariables false
set_option linter.unusedSimpArgs false
namespace Refinery.Lemmas.SamplerRegistry
open Refinery Refinery.Model.SamplerRegistry

/-! ## association lists by membership -/

theorem mem_put {κ α : Type} [DecidableEq κ] {l : AList κ α} {k : κ} {v : α} {x : κ × α}
    (h : x ∈ AList.put l k v) : x = (k, v) ∨ (x ∈ l ∧ x.1 ≠ k) := by
  unfold AList.put AList.del at h
  rcases List.mem_cons.mp h with h | h
  · exact Or.inl h
  · simp only [List.mem_filter, decide_eq_true_eq] at h
    exact Or.inr h

theorem mem_keep {κ α : Type} {l : AList κ α} {p : κ → α → Bool} {x : κ × α}
    (h : x ∈ AList.keep l p) : x ∈ l := by
  unfold AList.keep at h
  exact (List.mem_filter.mp h).1

theorem snd_unique {l : List (Str × Nat)} (hn : (l.map (·.2)).Nodup) {k k' : Str} {id : Nat}
    (h1 : (k, id) ∈ l) (h2 : (k', id) ∈ l) : k = k' := by
  induction l with
  | nil => simp at h1
  | cons p t ih =>
    simp only [List.map_cons, List.nodup_cons, List.mem_map, not_exists, not_and] at hn
    rcases List.mem_cons.mp h1 with e1 | m1 <;> rcases List.mem_cons.mp h2 with e2 | m2
    · rw [← e2] at e1; exact (Prod.mk.inj e1).1
    · exact absurd rfl (by rw [← e1] at hn; exact hn.1 (k', id) m2)
    · exact absurd rfl (by rw [← e2] at hn; exact hn.1 (k, id) m1)
    · exact ih hn.2 m1 m2

/-! ## what never changes about an instance -/

def ghost (i : Inst) : Kind × Str × Def × Nat := (i.kind, i.pfx, i.creator, i.born)

theorem ghost_eq {i i' : Inst} (h : ghost i' = ghost i) :
    i'.kind = i.kind ∧ i'.pfx = i.pfx ∧ i'.creator = i.creator ∧ i'.born = i.born := by
  simp only [ghost, Prod.mk.injEq] at h
  exact h

theorem setGoal_get_ne (insts : List Inst) {j id : Nat} (g : Int) (h : j ≠ id) :
    (setGoal insts j g)[id]? = insts[id]? := by
  unfold setGoal
  split
  · exact List.getElem?_modify_ne _ _ h
  · rfl

theorem setGoal_ghost (insts : List Inst) (j : Nat) (g : Int) (id : Nat) :
    ((setGoal insts j g)[id]?).map ghost = (insts[id]?).map ghost := by
  by_cases h : j = id
  · subst h
    unfold setGoal
    split
    · rw [List.getElem?_modify_eq]
      cases insts[j]? <;> simp [ghost]
    · rfl
  · rw [setGoal_get_ne insts g h]

theorem setGoal_get_eq (insts : List Inst) {j : Nat} {g : Int} {i : Inst} (hg : 0 < g)
    (h : insts[j]? = some i) : (setGoal insts j g)[j]? = some { i with goal := g } := by
  unfold setGoal
  rw [if_pos hg, List.getElem?_modify_eq, h]
  rfl

theorem newGoal_pos (c : Int) (pc : Nat) : 0 < newGoal c pc := by
  unfold newGoal
  omega

theorem applyGoals_ghost (gc : AList Str Int) (pc : Nat) :
    ∀ (reg : AList Str Nat) (insts : List Inst) (id : Nat),
      ((applyGoals gc pc reg insts)[id]?).map ghost = (insts[id]?).map ghost
  | [], insts, id => rfl
  | (k, j) :: t, insts, id => by
    unfold applyGoals
    split
    · rw [applyGoals_ghost gc pc t _ id]
      split
      · exact setGoal_ghost _ _ _ _
      · rfl
    · exact applyGoals_ghost gc pc t insts id

/-- an instance none of whose registry keys is tracked keeps its goal -/
theorem applyGoals_untouched (gc : AList Str Int) (pc : Nat) :
    ∀ (reg : AList Str Nat) (insts : List Inst) (j : Nat),
      (∀ k, (k, j) ∈ reg → AList.get gc k = none) → (applyGoals gc pc reg insts)[j]? = insts[j]?
  | [], insts, j, _ => rfl
  | (k0, id0) :: t, insts, j, h => by
    have ht : ∀ k, (k, j) ∈ t → AList.get gc k = none := fun k m => h k (List.mem_cons_of_mem _ m)
    unfold applyGoals
    split
    · rename_i i c hi hc
      rw [applyGoals_untouched gc pc t _ j ht]
      split
      · have hne : id0 ≠ j := by
          intro e; subst e
          have := h k0 (by simp)
          rw [this] at hc; cases hc
        exact setGoal_get_ne _ _ hne
      · rfl
    · exact applyGoals_untouched gc pc t insts j ht

/-- a registered throughput instance whose key is tracked gets `max(cfg/peers, 1)` -/
theorem applyGoals_set (gc : AList Str Int) (pc : Nat) :
    ∀ (reg : AList Str Nat) (insts : List Inst) (k : Str) (j : Nat) (c : Int) (i : Inst),
      (reg.map (·.2)).Nodup → (k, j) ∈ reg → AList.get gc k = some c → insts[j]? = some i →
      i.kind.isThroughput = true →
      (applyGoals gc pc reg insts)[j]? = some { i with goal := newGoal c pc }
  | [], _, _, _, _, _, _, hm, _, _, _ => by simp at hm
  | (k0, id0) :: t, insts, k, j, c, i, hn, hm, hc, hi, ht => by
    simp only [List.map_cons, List.nodup_cons, List.mem_map, not_exists, not_and] at hn
    rcases List.mem_cons.mp hm with e | m
    · obtain ⟨rfl, rfl⟩ := Prod.mk.inj e
      have hnot : ∀ k', (k', j) ∈ t → AList.get gc k' = none := fun k' m' => absurd rfl (hn.1 (k', j) m')
      unfold applyGoals
      simp only [hi, hc, ht, if_true]
      rw [applyGoals_untouched gc pc t _ j hnot]
      exact setGoal_get_eq _ (newGoal_pos c pc) hi
    · have hne : id0 ≠ j := by
        intro e; subst e
        exact hn.1 (k, id0) m rfl
      unfold applyGoals
      split
      · rename_i i0 c0 hi0 hc0
        apply applyGoals_set gc pc t _ k j c i hn.2 m hc _ ht
        split
        · rw [setGoal_get_ne _ _ hne]; exact hi
        · exact hi
      · exact applyGoals_set gc pc t insts k j c i hn.2 m hc hi ht

/-! ## invariants -/

section
variable (P : Str × Def → Prop)

/-- keys in play determine sampler type and rate -/
def Faithful : Prop :=
  ∀ pd1 pd2, P pd1 → P pd2 → makeKey pd1.1 pd1.2 = makeKey pd2.1 pd2.2 →
    pd1.2.kind = pd2.2.kind ∧ pd1.2.rate = pd2.2.rate

/-- what holds of the registry at every point, also between a registry write and the
`updatePeerCounts` that follows it -/
structure InvW (st : St) : Prop where
  regNodup : AList.NoDupKeys st.reg
  idsNodup : (st.reg.map (·.2)).Nodup
  regWF : ∀ (k : Str) (id : Nat), (k, id) ∈ st.reg → ∃ i : Inst, st.insts[id]? = some i ∧ makeKey i.pfx i.creator = k ∧
    i.born = st.epoch ∧ P (i.pfx, i.creator)
  instWF : ∀ (id : Nat) (i : Inst), st.insts[id]? = some i → i.kind = i.creator.kind
  goalUntracked : ∀ (k : Str) (id : Nat) (i : Inst), (k, id) ∈ st.reg → st.insts[id]? = some i → i.kind.isThroughput = true →
    AList.get st.goalCfg k = none → i.goal = creationGoal i.creator.rate
  goalProv : ∀ k c, AList.get st.goalCfg k = some c → ∃ pd, P pd ∧ makeKey pd.1 pd.2 = k ∧
    pd.2.useCluster = true ∧ pd.2.kind.isThroughput = true ∧ pd.2.rate = c
  pcPos : 1 ≤ st.peerCount

/-- what holds of the registry between operations -/
structure InvR (st : St) : Prop extends InvW P st where
  goalTracked : ∀ (k : Str) (id : Nat) (i : Inst) (c : Int), (k, id) ∈ st.reg → st.insts[id]? = some i → i.kind.isThroughput = true →
    AList.get st.goalCfg k = some c → i.goal = newGoal c st.peerCount

def SlotOK (st : St) (env : Str) (epoch : Nat) (s : Slot) : Prop :=
  P (s.pfx, s.d) ∧ (s.pfx = env ∨ s.pfx = rulesPrefix env) ∧ (s.id = none ↔ s.d.kind = Kind.determ) ∧
  ∀ id : Nat, s.id = some id → ∃ i : Inst, st.insts[id]? = some i ∧ makeKey i.pfx i.creator = makeKey s.pfx s.d ∧
    i.born = epoch ∧ assertOk i.kind s.d.kind = true

def SlotTracked (st : St) (s : Slot) : Prop :=
  s.id ≠ none → s.d.kind.isThroughput = true → s.d.useCluster = true →
    (AList.get st.goalCfg (makeKey s.pfx s.d)).isSome = true

def SlotCurrent (st : St) (s : Slot) : Prop :=
  ∀ id, s.id = some id → AList.get st.reg (makeKey s.pfx s.d) = some id

structure InvC (st : St) : Prop where
  slotWF : ∀ key ent, (key, ent) ∈ st.caches → ent.epoch ≤ st.epoch ∧ ∀ s ∈ ent.slots, SlotOK P st key.2 ent.epoch s
  tracked : ∀ key ent, (key, ent) ∈ st.caches → ent.epoch = st.epoch → ∀ s ∈ ent.slots, SlotTracked st s

def InvF (st : St) : Prop :=
  ∀ key ent, (key, ent) ∈ st.caches → ent.epoch = st.epoch → ∀ s ∈ ent.slots, SlotCurrent st s

end

/-- `st'` is `st` after some registry work: caches, epoch and configuration untouched, instances only
added or their goal changed, tracked keys stay tracked -/
structure Ext (st st' : St) : Prop where
  caches : st'.caches = st.caches
  epoch : st'.epoch = st.epoch
  cfg : st'.cfg = st.cfg
  ghost : ∀ (id : Nat) (i : Inst), st.insts[id]? = some i → ∃ i' : Inst, st'.insts[id]? = some i' ∧ ghost i' = ghost i
  goalMono : ∀ k, (AList.get st.goalCfg k).isSome = true → (AList.get st'.goalCfg k).isSome = true

def RegMono (st st' : St) : Prop := ∀ k id, AList.get st.reg k = some id → AList.get st'.reg k = some id

theorem Ext.refl (st : St) : Ext st st :=
  ⟨rfl, rfl, rfl, fun id i h => ⟨i, h, rfl⟩, fun _ h => h⟩

theorem Ext.trans {a b c : St} (h1 : Ext a b) (h2 : Ext b c) : Ext a c :=
  ⟨h2.caches.trans h1.caches, h2.epoch.trans h1.epoch, h2.cfg.trans h1.cfg,
    fun id i h => by
      obtain ⟨i1, hi1, g1⟩ := h1.ghost id i h
      obtain ⟨i2, hi2, g2⟩ := h2.ghost id i1 hi1
      exact ⟨i2, hi2, g2.trans g1⟩,
    fun k h => h2.goalMono k (h1.goalMono k h)⟩

theorem RegMono.refl (st : St) : RegMono st st := fun _ _ h => h
theorem RegMono.trans {a b c : St} (h1 : RegMono a b) (h2 : RegMono b c) : RegMono a c :=
  fun k id h => h2 k id (h1 k id h)

section
variable {P : Str × Def → Prop}

theorem SlotOK.ext {st st' : St} {env : Str} {ep : Nat} {s : Slot} (h : SlotOK P st env ep s)
    (e : Ext st st') : SlotOK P st' env ep s := by
  obtain ⟨h1, h2, hd, h3⟩ := h
  refine ⟨h1, h2, hd, fun id hid => ?_⟩
  obtain ⟨i, hi, hk, hb, ha⟩ := h3 id hid
  obtain ⟨i', hi', hg⟩ := e.ghost id i hi
  obtain ⟨g1, g2, g3, g4⟩ := ghost_eq hg
  exact ⟨i', hi', by rw [g2, g3]; exact hk, by rw [g4]; exact hb, by rw [g1]; exact ha⟩

theorem SlotTracked.ext {st st' : St} {s : Slot} (h : SlotTracked st s) (e : Ext st st') :
    SlotTracked st' s := fun a b c => e.goalMono _ (h a b c)

theorem SlotCurrent.mono {st st' : St} {s : Slot} (h : SlotCurrent st s) (m : RegMono st st') :
    SlotCurrent st' s := fun id hid => m _ _ (h id hid)

theorem InvC.ext {st st' : St} (h : InvC P st) (e : Ext st st') : InvC P st' := by
  constructor
  · intro key ent hm
    rw [e.caches] at hm
    obtain ⟨h1, h2⟩ := h.slotWF key ent hm
    exact ⟨by rw [e.epoch]; exact h1, fun s hs => (h2 s hs).ext e⟩
  · intro key ent hm hep s hs
    rw [e.caches] at hm
    rw [e.epoch] at hep
    exact (h.tracked key ent hm hep s hs).ext e

theorem InvF.ext {st st' : St} (h : InvF st) (e : Ext st st') (m : RegMono st st') : InvF st' := by
  intro key ent hm hep s hs
  rw [e.caches] at hm
  rw [e.epoch] at hep
  exact (h key ent hm hep s hs).mono m

/-! ## `updatePeerCounts` -/

theorem updatePeers_ext (st : St) : Ext st (updatePeers st) := by
  refine ⟨rfl, rfl, rfl, ?_, fun _ h => h⟩
  intro id i h
  have := applyGoals_ghost st.goalCfg (refreshCount st.actual st.peerCount) st.reg st.insts id
  rw [h] at this
  simp only [Option.map_some, Option.map_eq_some_iff] at this
  obtain ⟨i', hi', hg⟩ := this
  exact ⟨i', hi', hg⟩

theorem updatePeers_regMono (st : St) : RegMono st (updatePeers st) := fun _ _ h => h

theorem updatePeers_ghost_back (st : St) {id : Nat} {i' : Inst} (h : (updatePeers st).insts[id]? = some i') :
    ∃ i, st.insts[id]? = some i ∧ ghost i' = ghost i := by
  have := applyGoals_ghost st.goalCfg (refreshCount st.actual st.peerCount) st.reg st.insts id
  have h' : (applyGoals st.goalCfg (refreshCount st.actual st.peerCount) st.reg st.insts)[id]? = some i' := h
  rw [h'] at this
  simp only [Option.map_some] at this
  have := this.symm
  simp only [Option.map_eq_some_iff] at this
  obtain ⟨i, hi, hg⟩ := this
  exact ⟨i, hi, hg.symm⟩

theorem refreshCount_pos {a : Option Nat} {pc : Nat} (h : 1 ≤ pc) : 1 ≤ refreshCount a pc := by
  unfold refreshCount
  split
  · split <;> omega
  · exact h

theorem updatePeers_R {st : St} (h : InvW P st) : InvR P (updatePeers st) := by
  have hpc : (updatePeers st).peerCount = refreshCount st.actual st.peerCount := rfl
  have hreg : (updatePeers st).reg = st.reg := rfl
  have hgc : (updatePeers st).goalCfg = st.goalCfg := rfl
  have hep : (updatePeers st).epoch = st.epoch := rfl
  have hact : (updatePeers st).actual = st.actual := rfl
  have hins : (updatePeers st).insts = applyGoals st.goalCfg (refreshCount st.actual st.peerCount) st.reg st.insts := rfl
  refine { regNodup := h.regNodup, idsNodup := h.idsNodup, regWF := ?_, instWF := ?_, goalUntracked := ?_,
           goalProv := h.goalProv, pcPos := refreshCount_pos h.pcPos, goalTracked := ?_ }
  · intro k id hm
    obtain ⟨i, hi, hk, hb, hp⟩ := h.regWF k id hm
    obtain ⟨i', hi', hg⟩ := (updatePeers_ext st).ghost id i hi
    obtain ⟨g1, g2, g3, g4⟩ := ghost_eq hg
    exact ⟨i', hi', by rw [g2, g3]; exact hk, by rw [g4]; exact hb, by rw [g2, g3]; exact hp⟩
  · intro id i' hi'
    obtain ⟨i, hi, hg⟩ := updatePeers_ghost_back st hi'
    obtain ⟨g1, g2, g3, g4⟩ := ghost_eq hg
    rw [g1, g3]; exact h.instWF id i hi
  · intro k id i' hm hi' ht hnone
    rw [hreg] at hm; rw [hgc] at hnone
    have hun : ∀ k', (k', id) ∈ st.reg → AList.get st.goalCfg k' = none := by
      intro k' hm'
      rw [← snd_unique h.idsNodup hm hm']; exact hnone
    have := applyGoals_untouched st.goalCfg (refreshCount st.actual st.peerCount) st.reg st.insts id hun
    rw [hins, this] at hi'
    exact h.goalUntracked k id i' hm hi' ht hnone
  · intro k id i' c hm hi' ht hc
    rw [hreg] at hm; rw [hgc] at hc
    obtain ⟨i, hi, _⟩ := h.regWF k id hm
    obtain ⟨i0, hi0, hg⟩ := updatePeers_ghost_back st hi'
    rw [hi] at hi0; cases hi0
    have hti : i.kind.isThroughput = true := by rw [← (ghost_eq hg).1]; exact ht
    have := applyGoals_set st.goalCfg (refreshCount st.actual st.peerCount) st.reg st.insts k id c i h.idsNodup hm hc hi hti
    rw [hins, this] at hi'
    cases hi'
    rfl

/-! ## `getSharedDynsamplerAndRecorder` -/

theorem get_append_old {insts : List Inst} {x : Inst} {id : Nat} {i : Inst} (h : insts[id]? = some i) :
    (insts ++ [x])[id]? = some i := by
  have hl : id < insts.length := by
    rcases Nat.lt_or_ge id insts.length with hl | hl
    · exact hl
    · rw [List.getElem?_eq_none hl] at h; cases h
  rw [List.getElem?_append_left hl]; exact h

theorem get_append_cases {insts : List Inst} {x : Inst} {id : Nat} {i : Inst} (h : (insts ++ [x])[id]? = some i) :
    insts[id]? = some i ∨ (id = insts.length ∧ i = x) := by
  rcases Nat.lt_or_ge id insts.length with hl | hl
  · rw [List.getElem?_append_left hl] at h; exact Or.inl h
  · rw [List.getElem?_append_right hl] at h
    rcases Nat.eq_or_lt_of_le hl with e | e
    · right
      rw [← e] at h
      simp at h
      exact ⟨e.symm, h.symm⟩
    · have : 0 < id - insts.length := by omega
      obtain ⟨m, hm⟩ := Nat.exists_eq_succ_of_ne_zero (Nat.ne_of_gt this)
      rw [hm] at h; simp at h

/-- the instance `create(config)` returns -/
def newInst (st : St) (pfx : Str) (d : Def) : Inst :=
  { kind := d.kind, goal := if d.kind.isThroughput then creationGoal d.rate else 0,
    pfx := pfx, creator := d, born := st.epoch }

/-- the state `regStep` produces when it creates a new instance -/
def freshSt (st : St) (pfx : Str) (d : Def) : St :=
  { st with insts := st.insts ++ [newInst st pfx d],
            reg := AList.put st.reg (makeKey pfx d) st.insts.length }

theorem regStep_eq (st : St) (pfx : Str) (d : Def) : regStep st pfx d =
    match AList.get st.reg (makeKey pfx d) with
    | some id =>
      match st.insts[id]? with
      | some i => if assertOk i.kind d.kind then (st, id) else (freshSt st pfx d, st.insts.length)
      | none => (freshSt st pfx d, st.insts.length)
    | none => (freshSt st pfx d, st.insts.length) := rfl

theorem freshSt_get (st : St) (pfx : Str) (d : Def) :
    (freshSt st pfx d).insts[st.insts.length]? = some (newInst st pfx d) := by
  simp [freshSt]

theorem regStep_cases (st : St) (pfx : Str) (d : Def) :
    (∃ id i, AList.get st.reg (makeKey pfx d) = some id ∧ st.insts[id]? = some i ∧
        assertOk i.kind d.kind = true ∧ regStep st pfx d = (st, id)) ∨
    (regStep st pfx d = (freshSt st pfx d, st.insts.length) ∧
      (AList.get st.reg (makeKey pfx d) = none ∨
        ∃ id, AList.get st.reg (makeKey pfx d) = some id ∧
          ∀ i, st.insts[id]? = some i → assertOk i.kind d.kind = false)) := by
  rw [regStep_eq]
  cases hg : AList.get st.reg (makeKey pfx d) with
  | none => right; exact ⟨rfl, Or.inl rfl⟩
  | some id =>
    cases hi : st.insts[id]? with
    | none =>
      right
      refine ⟨by simp only [hi], Or.inr ⟨id, rfl, fun i h => ?_⟩⟩
      rw [hi] at h; cases h
    | some i =>
      by_cases ha : assertOk i.kind d.kind = true
      · left; exact ⟨id, i, rfl, hi, ha, by simp only [hi, ha, if_true]⟩
      · right
        refine ⟨by simp only [hi, ha]; rfl, Or.inr ⟨id, rfl, fun i' h' => ?_⟩⟩
        rw [hi] at h'; cases h'
        simpa using ha

theorem freshSt_W {st : St} (h : InvW P st) {pfx : Str} {d : Def} (hP : P (pfx, d)) :
    InvW P (freshSt st pfx d) := by
  have hlt : ∀ k id, (k, id) ∈ st.reg → id < st.insts.length := by
    intro k id hm
    obtain ⟨i, hi, _⟩ := h.regWF k id hm
    rcases Nat.lt_or_ge id st.insts.length with hl | hl
    · exact hl
    · rw [List.getElem?_eq_none hl] at hi; cases hi
  refine { regNodup := AList.nodup_put _ h.regNodup _ _, idsNodup := ?_, regWF := ?_, instWF := ?_,
           goalUntracked := ?_, goalProv := h.goalProv, pcPos := h.pcPos }
  · show ((AList.put st.reg (makeKey pfx d) st.insts.length).map (·.2)).Nodup
    unfold AList.put AList.del
    simp only [List.map_cons, List.nodup_cons, List.mem_map, not_exists, not_and]
    constructor
    · intro x hx e
      have := hlt x.1 x.2 (List.mem_filter.mp hx).1
      omega
    · exact List.Nodup.sublist (List.Sublist.map _ List.filter_sublist) h.idsNodup
  · intro k id hm
    rcases mem_put hm with e | ⟨m, _⟩
    · obtain ⟨rfl, rfl⟩ := Prod.mk.inj e
      exact ⟨newInst st pfx d, freshSt_get st pfx d, rfl, rfl, hP⟩
    · obtain ⟨i, hi, r⟩ := h.regWF k id m
      exact ⟨i, get_append_old hi, r⟩
  · intro id i hi
    rcases get_append_cases hi with hi | ⟨_, rfl⟩
    · exact h.instWF id i hi
    · rfl
  · intro k id i hm hi ht hnone
    rcases mem_put hm with e | ⟨m, _⟩
    · obtain ⟨rfl, rfl⟩ := Prod.mk.inj e
      rw [freshSt_get] at hi; cases hi
      simp only [newInst] at ht ⊢
      simp [ht]
    · rcases get_append_cases hi with hi | ⟨e, _⟩
      · exact h.goalUntracked k id i m hi ht hnone
      · have := hlt k id m; omega

theorem freshSt_ext (st : St) (pfx : Str) (d : Def) : Ext st (freshSt st pfx d) :=
  ⟨rfl, rfl, rfl, fun id i h => ⟨i, get_append_old h, rfl⟩, fun _ h => h⟩

/-- what `regStep` guarantees about the instance it hands out -/
structure RegStepOut (P : Str × Def → Prop) (st : St) (pfx : Str) (d : Def) (r : St × Nat) : Prop where
  inv : InvW P r.1
  ext : Ext st r.1
  goalCfg : r.1.goalCfg = st.goalCfg
  peerCount : r.1.peerCount = st.peerCount
  inst : ∃ i : Inst, r.1.insts[r.2]? = some i ∧ makeKey i.pfx i.creator = makeKey pfx d ∧ i.born = st.epoch ∧
    assertOk i.kind d.kind = true
  cur : AList.get r.1.reg (makeKey pfx d) = some r.2
  mono : Faithful P → RegMono st r.1

theorem assertOk_self (k : Kind) : assertOk k k = true := by cases k <;> rfl

theorem regStep_out {st : St} (h : InvW P st) {pfx : Str} {d : Def} (hP : P (pfx, d)) :
    RegStepOut P st pfx d (regStep st pfx d) := by
  rcases regStep_cases st pfx d with ⟨id, i, hg, hi, ha, he⟩ | ⟨he, hwhy⟩
  · rw [he]
    have hm := AList.mem_of_get hg
    obtain ⟨i0, hi0, hk, hb, _⟩ := h.regWF _ id hm
    rw [hi] at hi0; cases hi0
    exact ⟨h, Ext.refl st, rfl, rfl, ⟨i, hi, hk, hb, ha⟩, hg, fun _ => RegMono.refl st⟩
  · rw [he]
    refine ⟨freshSt_W h hP, freshSt_ext st pfx d, rfl, rfl, ?_, ?_, ?_⟩
    · exact ⟨newInst st pfx d, freshSt_get st pfx d, rfl, rfl, assertOk_self _⟩
    · show AList.get (AList.put st.reg _ _) _ = _
      rw [AList.get_put]; simp
    · intro hF
      rcases hwhy with hnone | ⟨id, hg, hbad⟩
      · intro k id hk
        show AList.get (AList.put st.reg _ _) _ = _
        rw [AList.get_put]
        by_cases e : makeKey pfx d = k
        · rw [← e, hnone] at hk; cases hk
        · simp [e, hk]
      · exfalso
        obtain ⟨i, hi, hk, _, hPi⟩ := h.regWF _ id (AList.mem_of_get hg)
        have hkind := (hF (i.pfx, i.creator) (pfx, d) hPi hP hk).1
        have := hbad i hi
        rw [h.instWF id i hi] at this
        simp only at hkind
        rw [hkind, assertOk_self] at this
        cases this

/-! ## `createSampler` for one definition -/

structure CreateOut (P : Str × Def → Prop) (st : St) (env pfx : Str) (d : Def) (r : St × Slot) : Prop where
  inv : InvR P r.1
  ext : Ext st r.1
  mono : Faithful P → RegMono st r.1
  slotEq : r.2.pfx = pfx ∧ r.2.d = d
  ok : SlotOK P r.1 env st.epoch r.2
  tracked : SlotTracked r.1 r.2
  cur : SlotCurrent r.1 r.2

theorem createDyn_out {st : St} (h : InvW P st) {env pfx : Str} {d : Def} (hP : P (pfx, d))
    (hpfx : pfx = env ∨ pfx = rulesPrefix env) : CreateOut P st env pfx d (createDyn st pfx d) := by
  unfold createDyn
  by_cases hdet : d.kind = .determ
  · simp only [hdet, if_true]
    exact ⟨updatePeers_R h, updatePeers_ext st, fun _ => updatePeers_regMono st, ⟨rfl, rfl⟩,
      ⟨hP, hpfx, ⟨fun _ => hdet, fun _ => rfl⟩, fun id hid => by cases hid⟩, fun hne => absurd rfl hne, fun id hid => by cases hid⟩
  · simp only [hdet, if_false]
    have ro := regStep_out h hP (pfx := pfx) (d := d)
    generalize regStep st pfx d = r at ro
    obtain ⟨st1, id⟩ := r
    simp only at ro ⊢
    by_cases hc : (d.kind.isThroughput && d.useCluster) = true
    · simp only [hc, if_true]
      -- the key becomes tracked
      have hW2 : InvW P { st1 with goalCfg := AList.put st1.goalCfg (makeKey pfx d) d.rate } := by
        have hi := ro.inv
        refine { regNodup := hi.regNodup, idsNodup := hi.idsNodup, regWF := hi.regWF, instWF := hi.instWF,
                 goalUntracked := ?_, goalProv := ?_, pcPos := hi.pcPos }
        · intro k id' i hm hi' ht hnone
          simp only [AList.get_put] at hnone
          by_cases e : makeKey pfx d = k
          · simp [e] at hnone
          · simp only [e, if_false] at hnone
            exact hi.goalUntracked k id' i hm hi' ht hnone
        · intro k c hk
          simp only [AList.get_put] at hk
          by_cases e : makeKey pfx d = k
          · simp only [e, if_true, Option.some.injEq] at hk
            simp only [Bool.and_eq_true] at hc
            exact ⟨(pfx, d), hP, e, hc.2, hc.1, hk⟩
          · simp only [e, if_false] at hk
            exact hi.goalProv k c hk
      have hE2 : Ext st1 { st1 with goalCfg := AList.put st1.goalCfg (makeKey pfx d) d.rate } :=
        ⟨rfl, rfl, rfl, fun id i h => ⟨i, h, rfl⟩, fun k hk => by
          simp only [AList.get_put]
          by_cases e : makeKey pfx d = k <;> simp [e, hk]⟩
      have hE := (ro.ext.trans hE2).trans (updatePeers_ext _)
      refine ⟨updatePeers_R hW2, hE, fun hF => (ro.mono hF).trans (RegMono.trans (fun _ _ h => h) (updatePeers_regMono _)),
        ⟨rfl, rfl⟩, ?_, ?_, ?_⟩
      · have : SlotOK P st1 env st.epoch ⟨pfx, d, some id⟩ :=
          ⟨hP, hpfx, ⟨(fun hn => by cases hn), (fun hk => absurd hk hdet)⟩, fun id' hid => by cases hid; exact ro.inst⟩
        exact this.ext (hE2.trans (updatePeers_ext _))
      · intro _ _ _
        show (AList.get (AList.put st1.goalCfg (makeKey pfx d) d.rate) (makeKey pfx d)).isSome = true
        rw [AList.get_put]; simp
      · intro id' hid; cases hid; exact ro.cur
    · simp only [hc]
      have hE := ro.ext.trans (updatePeers_ext st1)
      refine ⟨updatePeers_R ro.inv, hE, fun hF => (ro.mono hF).trans (updatePeers_regMono _), ⟨rfl, rfl⟩, ?_, ?_, ?_⟩
      · have : SlotOK P st1 env st.epoch ⟨pfx, d, some id⟩ :=
          ⟨hP, hpfx, ⟨(fun hn => by cases hn), (fun hk => absurd hk hdet)⟩, fun id' hid => by cases hid; exact ro.inst⟩
        exact this.ext (updatePeers_ext _)
      · intro _ ht hu
        simp only at ht hu
        simp [ht, hu] at hc
      · intro id' hid; cases hid; exact ro.cur

/-! ## `RulesBasedSampler.Start` and `GetSamplerImplementationForKey` -/

structure ManyOut (P : Str × Def → Prop) (st : St) (env : Str) (pds : List (Str × Def)) (r : St × List Slot) : Prop where
  inv : InvR P r.1
  ext : Ext st r.1
  mono : Faithful P → RegMono st r.1
  shape : r.2.map (fun s => (s.pfx, s.d)) = pds
  ok : ∀ s ∈ r.2, SlotOK P r.1 env st.epoch s
  tracked : ∀ s ∈ r.2, SlotTracked r.1 s
  cur : Faithful P → ∀ s ∈ r.2, SlotCurrent r.1 s

theorem createMany_out {env pfx : Str} (hpfx : pfx = env ∨ pfx = rulesPrefix env) :
    ∀ (ds : List Def) {st : St}, InvR P st → (∀ d ∈ ds, P (pfx, d)) →
      ManyOut P st env (ds.map fun d => (pfx, d)) (createMany st pfx ds)
  | [], st, h, _ =>
    ⟨h, Ext.refl st, fun _ => RegMono.refl st, rfl, (fun s hs => by cases hs), (fun s hs => by cases hs),
      (fun _ s hs => by cases hs)⟩
  | d :: ds, st, h, hP => by
    have c1 := createDyn_out h.toInvW (hP d (by simp)) hpfx (st := st) (env := env)
    have c2 := createMany_out hpfx ds c1.inv (fun d' hd' => hP d' (List.mem_cons_of_mem _ hd'))
    simp only [createMany]
    generalize createDyn st pfx d = r1 at c1 c2
    generalize createMany r1.1 pfx ds = r2 at c2
    refine ⟨c2.inv, c1.ext.trans c2.ext, fun hF => (c1.mono hF).trans (c2.mono hF), ?_, ?_, ?_, ?_⟩
    · simp only [List.map_cons, c2.shape, c1.slotEq.1, c1.slotEq.2]
    · intro s hs
      rcases List.mem_cons.mp hs with e | m
      · rw [e]; exact c1.ok.ext c2.ext
      · have := c2.ok s m
        rw [c1.ext.epoch] at this; exact this
    · intro s hs
      rcases List.mem_cons.mp hs with e | m
      · rw [e]; exact c1.tracked.ext c2.ext
      · exact c2.tracked s m
    · intro hF s hs
      rcases List.mem_cons.mp hs with e | m
      · rw [e]; exact c1.cur.mono (c2.mono hF)
      · exact c2.cur hF s m

theorem getSampler_out {st : St} (h : InvR P st) {env : Str} (hP : ∀ pd ∈ slotsOf st.cfg env, P pd)
    {r : St × List Slot} (hr : getSampler st env = some r) : ManyOut P st env (slotsOf st.cfg env) r := by
  unfold getSampler at hr
  unfold slotsOf at hP ⊢
  cases hl : lookupCfg st.cfg env with
  | none => rw [hl] at hr; cases hr
  | some ec =>
    rw [hl] at hr hP
    cases ec with
    | leaf d =>
      simp only [Option.some.injEq] at hr
      have c := createDyn_out h.toInvW (hP (env, d) (by simp)) (Or.inl rfl) (st := st) (env := env)
      rw [← hr]
      generalize createDyn st env d = r1 at c
      refine ⟨c.inv, c.ext, c.mono, ?_, ?_, ?_, ?_⟩
      · simp [c.slotEq.1, c.slotEq.2]
      · intro s hs; simp only [List.mem_singleton] at hs; rw [hs]; exact c.ok
      · intro s hs; simp only [List.mem_singleton] at hs; rw [hs]; exact c.tracked
      · intro _ s hs; simp only [List.mem_singleton] at hs; rw [hs]; exact c.cur
    | rules ds =>
      simp only [Option.some.injEq] at hr
      have c := createMany_out (P := P) (env := env) (Or.inr rfl) ds h
        (fun d hd => hP (rulesPrefix env, d) (List.mem_map.mpr ⟨d, hd, rfl⟩))
      rw [← hr]
      generalize createMany st (rulesPrefix env) ds = r1 at c
      have e2 := updatePeers_ext r1.1
      refine ⟨updatePeers_R c.inv.toInvW, c.ext.trans e2, fun hF => (c.mono hF).trans (updatePeers_regMono _),
        c.shape, ?_, ?_, ?_⟩
      · intro s hs; exact (c.ok s hs).ext e2
      · intro s hs; exact (c.tracked s hs).ext e2
      · intro hF s hs; exact (c.cur hF s hs).mono (updatePeers_regMono _)

end

end Refinery.Lemmas.SamplerRegistry
