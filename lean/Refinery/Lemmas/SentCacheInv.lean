import Refinery.Model.SentCache
import Refinery.Lemmas.SentCacheLRU
/-!
Invariants and step lemmas behind the C31 theorems (`Refinery/Props/C31.lean` restates the
property-level ones).  Everything here is about `Refinery.Model.SentCache`.
-/
namespace Refinery.Lemmas.SentCache
open Refinery Refinery.Model.SentCache

open Refinery.Model (TTL.St)

/-! ## Frame lemmas: what `drain` and `Maintain` touch -/

theorem drainCore_eq {cfg : Cfg} {s s' : St} {a : Adv} (h : drainCore cfg s a = some s') :
    s' = { s with queue := s.queue.drop a.k,
                  cur := s.cur.insertAll (s.queue.take a.k) a.failC a.lostC,
                  fut := s.fut.map (fun f => f.insertAll (s.queue.take a.k) a.failF a.lostF) } := by
  unfold drainCore at h
  split at h
  · simp only at h
    split at h
    · split at h
      · rename_i hf
        split at h
        · simp only [Option.some.injEq] at h; rw [← h, hf]; rfl
        · simp at h
      · rename_i f hf
        split at h
        · simp only [Option.some.injEq] at h; rw [← h, hf]; rfl
        · simp at h
    · simp at h
  · simp at h

theorem maintainCore_frame {cfg : Cfg} {s s' : St} {rot : Bool} (h : maintainCore cfg s = some (s', rot)) :
    s'.kept = s.kept ∧ s'.keptCap = s.keptCap ∧ s'.recent = s.recent ∧ s'.reasons = s.reasons ∧
    s'.queue = s.queue ∧ s'.nextCap = s.nextCap ∧ (rot = false → s'.cur = s.cur) ∧
    (rot = true → over cfg.rotPm s.cur.count s.cur.slots = true) := by
  unfold maintainCore at h
  simp only at h
  split at h
  · rename_i hov
    split at h
    · simp only [Option.some.injEq, Prod.mk.injEq] at h
      obtain ⟨h1, h2⟩ := h
      subst h1; subst h2
      simp [hov]
    · simp at h
  · simp only [Option.some.injEq, Prod.mk.injEq] at h
    obtain ⟨h1, h2⟩ := h
    subst h1; subst h2
    simp

@[simp] theorem enqueue_kept (cfg : Cfg) (s : St) (id : Nat) : (enqueue cfg s id).kept = s.kept := by
  unfold enqueue; split <;> rfl
@[simp] theorem enqueue_keptCap (cfg : Cfg) (s : St) (id : Nat) : (enqueue cfg s id).keptCap = s.keptCap := by
  unfold enqueue; split <;> rfl
@[simp] theorem enqueue_cur (cfg : Cfg) (s : St) (id : Nat) : (enqueue cfg s id).cur = s.cur := by
  unfold enqueue; split <;> rfl
@[simp] theorem enqueue_fut (cfg : Cfg) (s : St) (id : Nat) : (enqueue cfg s id).fut = s.fut := by
  unfold enqueue; split <;> rfl
@[simp] theorem enqueue_recent (cfg : Cfg) (s : St) (id : Nat) : (enqueue cfg s id).recent = s.recent := by
  unfold enqueue; split <;> rfl
@[simp] theorem enqueue_reasons (cfg : Cfg) (s : St) (id : Nat) : (enqueue cfg s id).reasons = s.reasons := by
  unfold enqueue; split <;> rfl

/-! ## Kept side: the LRU refines the recency specification -/

/-- what an operation and its answer mean for the kept side -/
inductive KEv where
  | touch (x : Nat)
  | resize (k : Nat)
  | nop

def kevOf : Op × Out → KEv
  | (.resize k _, .resizeOk) => .resize k
  | (.recKept id .., _) => .touch id
  | (.checkSpan id .., .ans (.kept ..)) => .touch id
  | (.checkTrace id _, .ans (.kept ..)) => .touch id
  | _ => .nop

/-- The specification of the kept side: a recency list of ids and a capacity.  A touch moves the
id to the front and keeps the first `cap`; a resize keeps the first `k`. -/
def specK (st : List Nat × Nat) : KEv → List Nat × Nat
  | .touch x => (specTouch st.2 st.1 x, st.2)
  | .resize k => (st.1.take k, k)
  | .nop => st

def keptIds (s : St) : List Nat := s.kept.map (·.id)

theorem touch_present {cap : Nat} {R : List Nat} {x : Nat} (hx : x ∈ R) (hlen : R.length ≤ cap) :
    specTouch cap R x = x :: R.filter (fun y => y != x) := by
  unfold specTouch
  apply List.take_of_length_le
  have := length_filter_ne_lt hx
  simp only [List.length_cons]
  omega

theorem kept_step (cfg : Cfg) (s : St) (o : Op) (hlen : (keptIds s).length ≤ s.keptCap) :
    (keptIds (step cfg s o).1, (step cfg s o).1.keptCap)
        = specK (keptIds s, s.keptCap) (kevOf (o, (step cfg s o).2))
      ∧ (keptIds (step cfg s o).1).length ≤ (step cfg s o).1.keptCap := by
  cases o with
  | recKept id rate reason ev se sl sp =>
    simp only [step, kevOf, specK, keptIds, lruAdd, specTouch, List.map_take, List.map_cons, ids_lruDel]
    exact ⟨by first | rfl | trivial, by simp [List.length_take]; omega⟩
  | recDrop id =>
    simp only [step, kevOf, specK, keptIds, enqueue_kept, enqueue_keptCap, recentSet]
    exact ⟨by first | rfl | trivial, hlen⟩
  | checkSpan id kind fp =>
    simp only [step]
    split
    · exact ⟨rfl, hlen⟩
    · split
      · exact ⟨rfl, hlen⟩
      · split
        · rename_i e he
          obtain ⟨hid, hmem⟩ := lruFind_some he
          have hx : id ∈ keptIds s := List.mem_map.mpr ⟨e, hmem, hid⟩
          simp only [kevOf, ansOf, specK, keptIds, List.map_cons, ids_lruDel, count_id, hid]
          have ht := touch_present hx hlen
          simp only [keptIds] at ht
          rw [ht]
          refine ⟨rfl, ?_⟩
          have := length_filter_ne_lt hx
          simp only [keptIds] at this hlen
          simp only [List.length_cons]; omega
        · exact ⟨rfl, hlen⟩
  | checkTrace id fp =>
    simp only [step]
    split
    · exact ⟨rfl, hlen⟩
    · split
      · rename_i e he
        obtain ⟨hid, hmem⟩ := lruFind_some he
        have hx : id ∈ keptIds s := List.mem_map.mpr ⟨e, hmem, hid⟩
        simp only [kevOf, ansOf, specK, keptIds, List.map_cons, ids_lruDel, hid]
        have ht := touch_present hx hlen
        simp only [keptIds] at ht
        rw [ht]
        refine ⟨rfl, ?_⟩
        have := length_filter_ne_lt hx
        simp only [keptIds] at this hlen
        simp only [List.length_cons]; omega
      · exact ⟨rfl, hlen⟩
  | drain a =>
    simp only [step]
    split
    · rename_i s' h
      have := drainCore_eq h
      subst this
      exact ⟨rfl, hlen⟩
    · exact ⟨rfl, hlen⟩
  | maintain a =>
    simp only [step]
    split
    · exact ⟨rfl, hlen⟩
    · rename_i s1 h
      have h1 := drainCore_eq h
      split
      · exact ⟨rfl, hlen⟩
      · rename_i s2 rot h2
        obtain ⟨hk, hc, _⟩ := maintainCore_frame h2
        simp only [kevOf, specK, keptIds, hk, hc]
        subst h1
        exact ⟨rfl, hlen⟩
  | resize k d =>
    simp only [step]
    split
    · exact ⟨rfl, hlen⟩
    · simp only [kevOf, specK, keptIds, List.map_take]
      exact ⟨by first | rfl | trivial, by simp [List.length_take]; omega⟩
  | adv d => exact ⟨rfl, hlen⟩

theorem runFrom_cons (cfg : Cfg) (s : St) (o : Op) (t : List Op) :
    runFrom cfg s (o :: t) = runFrom cfg (step cfg s o).1 t := rfl

theorem runFrom_append (cfg : Cfg) (s : St) (a b : List Op) :
    runFrom cfg s (a ++ b) = runFrom cfg (runFrom cfg s a) b := by
  simp [runFrom, List.foldl_append]

theorem run_snoc (cfg : Cfg) (kc dc : Nat) (ops : List Op) (o : Op) :
    run cfg kc dc (ops ++ [o]) = (step cfg (run cfg kc dc ops) o).1 := by
  simp [run, runFrom, List.foldl_append]

/-- the kept-side events of a run -/
def kevs (cfg : Cfg) (s : St) (ops : List Op) : List KEv := (transcript cfg s ops).map kevOf

theorem lru_refines_spec_from (cfg : Cfg) : ∀ (ops : List Op) (s : St), (keptIds s).length ≤ s.keptCap →
    (keptIds (runFrom cfg s ops), (runFrom cfg s ops).keptCap)
        = (kevs cfg s ops).foldl specK (keptIds s, s.keptCap)
      ∧ (keptIds (runFrom cfg s ops)).length ≤ (runFrom cfg s ops).keptCap := by
  intro ops
  induction ops with
  | nil => intro s h; exact ⟨rfl, h⟩
  | cons o t ih =>
    intro s h
    obtain ⟨h1, h2⟩ := kept_step cfg s o h
    rw [runFrom_cons]
    obtain ⟨h3, h4⟩ := ih _ h2
    refine ⟨?_, h4⟩
    rw [h3, h1]
    simp [kevs, transcript]

/-- **lru_refines_spec** — after any history (resizes included) the kept ids and capacity are
exactly what the recency specification computes from the observable transcript: every kept record
and every consult answered "kept" moves the id to the front and the first `cap` stay; a
successful resize to `k` keeps the first `k`. -/
theorem lru_refines_spec (cfg : Cfg) (kc dc : Nat) (ops : List Op) :
    (keptIds (run cfg kc dc ops), (run cfg kc dc ops).keptCap)
      = (kevs cfg (init cfg kc dc) ops).foldl specK ([], kc) :=
  (lru_refines_spec_from cfg ops (init cfg kc dc) (by simp [keptIds, init])).1

/-- the kept list never exceeds the per-worker capacity -/
theorem kept_within_capacity (cfg : Cfg) (kc dc : Nat) (ops : List Op) :
    (run cfg kc dc ops).kept.length ≤ (run cfg kc dc ops).keptCap := by
  have := (lru_refines_spec_from cfg ops (init cfg kc dc) (by simp [keptIds, init])).2
  simpa [keptIds, run] using this

def isResize : Op → Bool
  | .resize .. => true
  | _ => false

theorem kevOf_of_not_resize (o : Op) (out : Out) (h : isResize o = false) :
    kevOf (o, out) = (match touchOf (o, out) with | some x => KEv.touch x | none => KEv.nop) := by
  cases o <;> first
    | (simp [isResize] at h; done)
    | (cases out <;> first
        | rfl
        | (rename_i a; cases a <;> rfl))

theorem fold_no_resize (cfg : Cfg) (cap : Nat) : ∀ (ops : List Op) (s : St) (R : List Nat),
    (∀ o ∈ ops, isResize o = false) →
    (kevs cfg s ops).foldl specK (R, cap)
      = (((transcript cfg s ops).filterMap touchOf).foldl (specTouch cap) R, cap) := by
  intro ops
  induction ops with
  | nil => intro s R _; rfl
  | cons o t ih =>
    intro s R h
    have ho := h o (List.mem_cons_self)
    have ht : ∀ o' ∈ t, isResize o' = false := fun o' ho' => h o' (List.mem_cons_of_mem _ ho')
    simp only [kevs, transcript, List.map_cons, List.foldl_cons, List.filterMap_cons]
    rw [kevOf_of_not_resize o _ ho]
    cases hto : touchOf (o, (step cfg s o).2) with
    | none => simpa [specK, kevs] using ih (step cfg s o).1 R ht
    | some x => simpa [specK, kevs] using ih (step cfg s o).1 (specTouch cap R x) ht

/-- **lru_refines_recency** — after any history without resize, the kept ids are exactly the
first `cap` elements of the history's touch sequence (kept records and consults answered "kept"),
most recent first, de-duplicated. -/
theorem lru_refines_recency (cfg : Cfg) (kc dc : Nat) (ops : List Op)
    (h : ∀ o ∈ ops, isResize o = false) :
    keptIds (run cfg kc dc ops) = (dedup (touches (transcript cfg (init cfg kc dc) ops))).take kc := by
  have h1 := lru_refines_spec cfg kc dc ops
  rw [fold_no_resize cfg kc ops _ [] h, fold_specTouch] at h1
  exact (Prod.mk.inj h1).1

def kevTouch : KEv → Option Nat
  | .touch x => some x
  | _ => none

theorem touchOf_eq_kevTouch (p : Op × Out) : touchOf p = kevTouch (kevOf p) := by
  obtain ⟨o, out⟩ := p
  cases o <;> cases out <;> first
    | rfl
    | (rename_i a; cases a <;> rfl)

theorem prefix_fold (evs : List KEv) : ∀ (R T : List Nat) (c : Nat), R <+: dedup T.reverse →
    (evs.foldl specK (R, c)).1 <+: dedup ((T ++ evs.filterMap kevTouch).reverse) := by
  induction evs with
  | nil => intro R T c h; simpa using h
  | cons e t ih =>
    intro R T c h
    cases e with
    | touch x =>
      have hx : specTouch c R x <+: dedup ((T ++ [x]).reverse) := by
        simp only [List.reverse_append, List.reverse_cons, List.reverse_nil, List.nil_append,
          List.singleton_append, dedup, specTouch]
        exact (List.take_prefix _ _).trans ((List.prefix_cons_inj x).mpr (h.filter _))
      have := ih (specTouch c R x) (T ++ [x]) c hx
      simpa [specK, kevTouch, List.filterMap_cons] using this
    | resize k =>
      have := ih (R.take k) T k ((List.take_prefix _ _).trans h)
      simpa [specK, kevTouch, List.filterMap_cons] using this
    | nop =>
      have := ih R T c h
      simpa [specK, kevTouch, List.filterMap_cons] using this

/-- **kept_prefix_of_recency** — after any history, resizes included, the kept ids are a prefix of
the de-duplicated touch sequence read most recent first: whatever is retained is the newest. -/
theorem kept_prefix_of_recency (cfg : Cfg) (kc dc : Nat) (ops : List Op) :
    keptIds (run cfg kc dc ops) <+: dedup (touches (transcript cfg (init cfg kc dc) ops)) := by
  have h1 := lru_refines_spec cfg kc dc ops
  have h2 := prefix_fold (kevs cfg (init cfg kc dc) ops) [] [] kc (by simp [dedup])
  rw [← h1] at h2
  simp only [kevs, List.nil_append, List.filterMap_map] at h2
  have : (fun p => kevTouch (kevOf p)) = touchOf := by
    funext p; exact (touchOf_eq_kevTouch p).symm
  simpa [touches, Function.comp_def, this] using h2

/-- **resize_keeps_newest** — a resize to a positive per-worker size `k` leaves exactly the first
`min(len, k)` entries of the old recency order, in the same order (entries, counters and all). -/
theorem resize_keeps_newest (cfg : Cfg) (s : St) (k d : Nat) (hk : k ≠ 0) :
    (step cfg s (.resize k d)).1.kept = s.kept.take k ∧ (step cfg s (.resize k d)).1.keptCap = k ∧
    (step cfg s (.resize k d)).2 = .resizeOk := by
  simp [step, hk]

/-- the same at the level of histories -/
theorem resize_keeps_newest_run (cfg : Cfg) (kc dc : Nat) (ops : List Op) (k d : Nat) (hk : k ≠ 0) :
    keptIds (run cfg kc dc (ops ++ [.resize k d])) = (keptIds (run cfg kc dc ops)).take k := by
  rw [run_snoc]
  simp [keptIds, (resize_keeps_newest cfg (run cfg kc dc ops) k d hk).1, List.map_take]

/-- a resize to size 0 is refused and changes nothing -/
theorem resize_zero_refused (cfg : Cfg) (s : St) (d : Nat) :
    step cfg s (.resize 0 d) = (s, .resizeErr) := by
  simp [step]

/-! ## Reason interning -/

/-- no two reasons share a hash (a 64-bit wyhash collision is the only way to violate it) -/
def HashInj (hash : Nat → Nat) : Prop := ∀ a b, hash a = hash b → a = b

/-- table invariant: every key points at a stored reason with that hash -/
def RInv (hash : Nat → Nat) (t : Reasons) : Prop :=
  ∀ h idx, AList.get t.keys h = some idx → idx ≠ 0 ∧ ∃ r, t.data[idx - 1]? = some r ∧ hash r = h

theorem reasonGet_stable (hash : Nat → Nat) (t : Reasons) (r idx why : Nat)
    (h : reasonGet t idx = some why) : reasonGet (reasonSet hash t r).1 idx = some why := by
  unfold reasonSet
  split
  · exact h
  · unfold reasonGet at h ⊢
    split at h
    · simp at h
    · rename_i h0
      simp only [h0, if_false]
      obtain ⟨hlt, _⟩ := List.getElem?_eq_some_iff.mp h
      rw [List.getElem?_append_left hlt]; exact h

theorem reasonSet_inv (hash : Nat → Nat) (t : Reasons) (r : Nat) (hinv : RInv hash t) :
    RInv hash (reasonSet hash t r).1 := by
  unfold reasonSet
  split
  · exact hinv
  · intro h idx hg
    simp only at hg ⊢
    rw [AList.get_put] at hg
    by_cases hh : hash r = h
    · simp only [hh, if_true, Option.some.injEq] at hg
      subst hg
      refine ⟨by omega, r, ?_, hh⟩
      simp
    · simp only [hh, if_false] at hg
      obtain ⟨h0, r', hr', hhr'⟩ := hinv h idx hg
      refine ⟨h0, r', ?_, hhr'⟩
      obtain ⟨hlt, _⟩ := List.getElem?_eq_some_iff.mp hr'
      rw [List.getElem?_append_left hlt]; exact hr'

/-- **reason_roundtrip** — the index `Set` returns for a reason reads back as that reason
(no hash collision assumed), and stays so after any later `Set` (`reasonGet_stable`). -/
theorem reason_roundtrip (hash : Nat → Nat) (hinj : HashInj hash) (t : Reasons) (r : Nat)
    (hinv : RInv hash t) :
    reasonGet (reasonSet hash t r).1 (reasonSet hash t r).2 = some r := by
  unfold reasonSet
  split
  · rename_i idx hg
    obtain ⟨h0, r', hr', hhr'⟩ := hinv _ _ hg
    have : r' = r := hinj _ _ hhr'
    subst this
    simp [reasonGet, h0, hr']
  · simp [reasonGet]

/-! ## Kept entries carry the recorded rate and reason -/

/-- rate and reason of the most recent kept record per id -/
def updLast (L : Nat → Option (Nat × Nat)) : Op → (Nat → Option (Nat × Nat))
  | .recKept id rate reason .. => fun i => if i = id then some (rate, reason) else L i
  | _ => L

def lastKept (ops : List Op) : Nat → Option (Nat × Nat) := ops.foldl updLast (fun _ => none)

def KInv (hash : Nat → Nat) (s : St) (L : Nat → Option (Nat × Nat)) : Prop :=
  RInv hash s.reasons ∧
  ∀ e ∈ s.kept, ∃ r why, L e.id = some (r, why) ∧ e.rate = u32 r ∧ reasonGet s.reasons e.reason = some why

theorem kinv_sub {hash : Nat → Nat} {s s' : St} {L : Nat → Option (Nat × Nat)} (h : KInv hash s L)
    (hr : s'.reasons = s.reasons) (hk : ∀ e ∈ s'.kept, e ∈ s.kept) : KInv hash s' L := by
  refine ⟨hr ▸ h.1, fun e he => ?_⟩
  rw [hr]; exact h.2 e (hk e he)

theorem mem_lruDel {l : List Entry} {id : Nat} {e : Entry} (h : e ∈ lruDel l id) : e ∈ l ∧ e.id ≠ id := by
  unfold lruDel at h
  simpa using h

theorem kinv_step (cfg : Cfg) (hinj : HashInj cfg.hash) (s : St) (L : Nat → Option (Nat × Nat))
    (h : KInv cfg.hash s L) (o : Op) : KInv cfg.hash (step cfg s o).1 (updLast L o) := by
  cases o with
  | recKept id rate reason ev se sl sp =>
    simp only [step, updLast]
    refine ⟨reasonSet_inv _ _ _ h.1, ?_⟩
    intro e he
    simp only [lruAdd] at he
    rcases List.mem_cons.mp (List.mem_of_mem_take he) with he | he
    · subst he
      exact ⟨rate, reason, by simp, rfl, reason_roundtrip _ hinj _ _ h.1⟩
    · obtain ⟨hm, hne⟩ := mem_lruDel he
      obtain ⟨r, why, h1, h2, h3⟩ := h.2 e hm
      exact ⟨r, why, by simp [hne, h1], h2, reasonGet_stable _ _ _ _ _ h3⟩
  | recDrop id => exact kinv_sub h (by simp [step, recentSet]) (by simp [step, recentSet])
  | checkSpan id kind fp =>
    simp only [step, updLast]
    split
    · exact kinv_sub h rfl (fun e he => he)
    · split
      · exact kinv_sub h rfl (fun e he => he)
      · split
        · rename_i e0 he0
          obtain ⟨hid, hmem⟩ := lruFind_some he0
          refine ⟨h.1, fun e he => ?_⟩
          rcases List.mem_cons.mp he with he | he
          · subst he
            obtain ⟨r, why, h1, h2, h3⟩ := h.2 e0 hmem
            exact ⟨r, why, by simpa using h1, by simpa using h2, by simpa using h3⟩
          · exact h.2 e (mem_lruDel he).1
        · exact h
  | checkTrace id fp =>
    simp only [step, updLast]
    split
    · exact h
    · split
      · rename_i e0 he0
        obtain ⟨hid, hmem⟩ := lruFind_some he0
        refine ⟨h.1, fun e he => ?_⟩
        rcases List.mem_cons.mp he with he | he
        · subst he; exact h.2 e hmem
        · exact h.2 e (mem_lruDel he).1
      · exact h
  | drain a =>
    simp only [step, updLast]
    split
    · rename_i s' hd
      have := drainCore_eq hd
      subst this
      exact kinv_sub h rfl (fun e he => he)
    · exact h
  | maintain a =>
    simp only [step, updLast]
    split
    · exact h
    · rename_i s1 hd
      have h1 := drainCore_eq hd
      split
      · exact h
      · rename_i s2 rot h2
        obtain ⟨hk, _, _, hr, _⟩ := maintainCore_frame h2
        subst h1
        exact kinv_sub h (by simpa using hr) (by simpa using fun e he => hk ▸ he)
  | resize k d =>
    simp only [step, updLast]
    split
    · exact h
    · exact kinv_sub h rfl (fun e he => List.mem_of_mem_take he)
  | adv d => exact kinv_sub h rfl (fun e he => he)

theorem kinv_runFrom (cfg : Cfg) (hinj : HashInj cfg.hash) : ∀ (ops : List Op) (s : St)
    (L : Nat → Option (Nat × Nat)), KInv cfg.hash s L → KInv cfg.hash (runFrom cfg s ops) (ops.foldl updLast L) := by
  intro ops
  induction ops with
  | nil => intro s L h; exact h
  | cons o t ih => intro s L h; exact ih _ _ (kinv_step cfg hinj s L h o)

theorem kinv_run (cfg : Cfg) (hinj : HashInj cfg.hash) (kc dc : Nat) (ops : List Op) :
    KInv cfg.hash (run cfg kc dc ops) (lastKept ops) :=
  kinv_runFrom cfg hinj ops _ _ ⟨by intro h idx hg; simp [init] at hg, by simp [init]⟩

/-- **kept_answered** — after any history, a trace that is still in the kept list and is not in
the dropped filter is answered "kept" by `CheckTrace`, with the rate (as `uint32`) and the reason
of its most recent kept record. -/
theorem kept_answered (cfg : Cfg) (hinj : HashInj cfg.hash) (kc dc : Nat) (ops : List Op) (id : Nat)
    (e : Entry) (hfind : lruFind (run cfg kc dc ops).kept id = some e)
    (hnd : (run cfg kc dc ops).cur.ids.contains id = false)
    (hnr : recentHas (run cfg kc dc ops) id = false) :
    ∃ rate why, lastKept ops id = some (rate, why) ∧
      (step cfg (run cfg kc dc ops) (.checkTrace id false)).2 = .ans (.kept (u32 rate) why e.ev e.se e.sl e.sp) := by
  obtain ⟨hid, hmem⟩ := lruFind_some hfind
  obtain ⟨r, why, h1, h2, h3⟩ := (kinv_run cfg hinj kc dc ops).2 e hmem
  refine ⟨r, why, hid ▸ h1, ?_⟩
  have hnd' : id ∉ (run cfg kc dc ops).cur.ids := by simpa using hnd
  simp [step, hnd', hnr, hfind, ansOf, h2, h3, reasonStr]

/-- the same for `CheckSpan` when the id is not in the recent-drop set either: the answer carries
the counters after counting this span -/
theorem kept_answered_span (cfg : Cfg) (hinj : HashInj cfg.hash) (kc dc : Nat) (ops : List Op) (id kind : Nat)
    (e : Entry) (hfind : lruFind (run cfg kc dc ops).kept id = some e)
    (hnd : (run cfg kc dc ops).cur.ids.contains id = false)
    (hnr : recentHas (run cfg kc dc ops) id = false) :
    ∃ rate why, lastKept ops id = some (rate, why) ∧
      (step cfg (run cfg kc dc ops) (.checkSpan id kind false)).2
        = .ans (.kept (u32 rate) why (e.count kind).ev (e.count kind).se (e.count kind).sl (e.count kind).sp) := by
  obtain ⟨hid, hmem⟩ := lruFind_some hfind
  obtain ⟨r, why, h1, h2, h3⟩ := (kinv_run cfg hinj kc dc ops).2 e hmem
  refine ⟨r, why, hid ▸ h1, ?_⟩
  have hnd' : id ∉ (run cfg kc dc ops).cur.ids := by simpa using hnd
  simp [step, hnd', hnr, hfind, ansOf, h2, h3, reasonStr]

/-- **kept_answered_recent** — the property's kept clause: after any resize-free history, every
trace among the first `cap` distinct entries of the touch sequence (most recent first) that the
dropped filter does not claim is answered "kept" with its recorded rate and reason. -/
theorem kept_answered_recent (cfg : Cfg) (hinj : HashInj cfg.hash) (kc dc : Nat) (ops : List Op) (id : Nat)
    (hnores : ∀ o ∈ ops, isResize o = false)
    (hrecent : id ∈ (dedup (touches (transcript cfg (init cfg kc dc) ops))).take kc)
    (hnd : (run cfg kc dc ops).cur.ids.contains id = false)
    (hnr : recentHas (run cfg kc dc ops) id = false) :
    ∃ rate why ev se sl sp, lastKept ops id = some (rate, why) ∧
      (step cfg (run cfg kc dc ops) (.checkTrace id false)).2 = .ans (.kept (u32 rate) why ev se sl sp) := by
  rw [← lru_refines_recency cfg kc dc ops hnores] at hrecent
  have hs := (lruFind_isSome_iff _ id).mpr hrecent
  obtain ⟨e, he⟩ := Option.isSome_iff_exists.mp hs
  obtain ⟨rate, why, h1, h2⟩ := kept_answered cfg hinj kc dc ops id e he hnd hnr
  exact ⟨rate, why, _, _, _, _, h1, h2⟩

/-! ## Dropped side -/

/-- **dropped_wins** — in every state, an id the current dropped filter or the recent-drop set
holds is answered "dropped" by `CheckTrace`, whatever the kept list says. -/
theorem dropped_wins_trace (cfg : Cfg) (s : St) (id : Nat) (fp : Bool)
    (h : id ∈ s.cur.ids ∨ recentHas s id = true) :
    (step cfg s (.checkTrace id fp)).2 = .ans .dropped := by
  rcases h with h | h
  · by_cases hr : recentHas s id = true <;> simp [step, h, hr]
  · simp [step, h]

/-- **dropped_wins** for `CheckSpan`: the recent-drop set or the filter is enough. -/
theorem dropped_wins_span (cfg : Cfg) (s : St) (id kind : Nat) (fp : Bool)
    (h : id ∈ s.cur.ids ∨ recentHas s id = true) :
    (step cfg s (.checkSpan id kind fp)).2 = .ans .dropped := by
  rcases h with h | h
  · by_cases hr : recentHas s id = true <;> simp [step, h, hr]
  · simp [step, h]

/-- a filter false positive is answered "dropped" too (the "barring false positives" clause) -/
theorem false_positive_answers_dropped (cfg : Cfg) (s : St) (id : Nat) :
    (step cfg s (.checkTrace id true)).2 = .ans .dropped := by
  simp [step]

theorem mem_insertAll {f : Filter} {q lost : List Nat} {fail id : Nat}
    (h : id ∈ f.ids ∨ id ∈ q) (hl : lost.contains id = false) : id ∈ (f.insertAll q fail lost).ids := by
  simp only [Filter.insertAll, List.mem_filter, List.mem_append, hl, Bool.not_false, and_true]
  exact h

/-- **record_enqueues** — a drop record enters the add queue unless the queue is full. -/
theorem record_enqueues (cfg : Cfg) (s : St) (id : Nat) (h : s.queue.length < cfg.depth) :
    (step cfg s (.recDrop id)).1.queue = s.queue ++ [id] := by
  simp [step, enqueue, recentSet, h]

/-- add-queue overflow: the record is dropped on the floor (the exception the property names) -/
theorem overflow_loses_record (cfg : Cfg) (s : St) (id : Nat) (h : ¬ s.queue.length < cfg.depth) :
    (step cfg s (.recDrop id)).1.queue = s.queue := by
  simp [step, enqueue, recentSet, h]

/-- **drain_settles** — a drain that takes the id from the queue puts it into the current filter
(and into the future filter when there is one) unless a failed insert kicked it out. -/
theorem drain_settles (cfg : Cfg) (s s' : St) (a : Adv) (id : Nat) (h : drainCore cfg s a = some s')
    (hq : id ∈ s.queue.take a.k) :
    (a.lostC.contains id = false → id ∈ s'.cur.ids) ∧
    (∀ f, s.fut = some f → a.lostF.contains id = false → ∃ f', s'.fut = some f' ∧ id ∈ f'.ids) := by
  have := drainCore_eq h
  subst this
  refine ⟨fun hl => mem_insertAll (Or.inr hq) hl, fun f hf hl => ?_⟩
  exact ⟨f.insertAll (s.queue.take a.k) a.failF a.lostF, by simp [hf], mem_insertAll (Or.inr hq) hl⟩

/-- the operation loses `id` from the current filter through a failed insert -/
def losesCur (id : Nat) : Op → Bool
  | .drain a => a.lostC.contains id
  | .maintain a => a.lostC.contains id
  | _ => false

/-- the operation, executed in `s`, rotates the filters -/
def rotates (cfg : Cfg) (s : St) : Op → Bool
  | .maintain a =>
    match drainCore cfg s a with
    | some s1 => match maintainCore cfg s1 with
      | some (_, rot) => rot
      | none => false
    | none => false
  | _ => false

/-- no operation of the sequence, executed from `s`, rotates the filters -/
def NoRotation (cfg : Cfg) : St → List Op → Prop
  | _, [] => True
  | s, o :: t => rotates cfg s o = false ∧ NoRotation cfg (step cfg s o).1 t

/-- **rotation_needs_full** — `Maintain` rotates only when, after its own drain, the current
filter's load exceeds `rotPm`/1000 (0.99 in the code: see `gen_constants`). -/
theorem rotation_needs_full (cfg : Cfg) (s : St) (a : Adv) (h : rotates cfg s (.maintain a) = true) :
    ∃ s1, drainCore cfg s a = some s1 ∧ 1000 * s1.cur.count > cfg.rotPm * s1.cur.slots := by
  simp only [rotates] at h
  split at h
  · rename_i s1 hd
    split at h
    · rename_i s2 rot hm
      subst h
      have := (maintainCore_frame hm).2.2.2.2.2.2.2 rfl
      exact ⟨s1, hd, by simpa [over] using this⟩
    · simp at h
  · simp at h

/-- the rotation flag of the maintenance report is `rotates` -/
theorem rotates_observable (cfg : Cfg) (s : St) (a : Adv) (c : Nat × Nat) (f : Option (Nat × Nat))
    (rot : Bool) (old : Nat × Nat) (q r : Nat)
    (h : (step cfg s (.maintain a)).2 = .maint c f rot old q r) : rotates cfg s (.maintain a) = rot := by
  simp only [step, rotates] at h ⊢
  split at h
  · simp at h
  · rename_i s1 hd
    simp only [hd]
    split at h
    · simp at h
    · rename_i s2 rot' hm
      simp only [hm]
      simp only [Out.maint.injEq] at h
      exact h.2.2.1

/-- with the future threshold not above the rotation threshold, `current = nil` cannot happen -/
theorem no_nil_current (cfg : Cfg) (s : St) (h : cfg.futPm ≤ cfg.rotPm) : maintainCore cfg s ≠ none := by
  unfold maintainCore
  simp only
  split
  · rename_i hov
    cases hf : s.fut with
    | some f => simp
    | none =>
      have : over cfg.futPm s.cur.count s.cur.slots = true := by
        simp only [over, decide_eq_true_eq] at hov ⊢
        have := Nat.mul_le_mul_right s.cur.slots h
        omega
      simp [this]
  · simp

theorem cur_mem_step (cfg : Cfg) (s : St) (o : Op) (id : Nat) (hin : id ∈ s.cur.ids)
    (hl : losesCur id o = false) (hr : rotates cfg s o = false) : id ∈ (step cfg s o).1.cur.ids := by
  cases o with
  | recKept i rate reason ev se sl sp => simpa [step] using hin
  | recDrop i => simpa [step, recentSet] using hin
  | checkSpan i kind fp =>
    simp only [step]
    split
    · simpa [recentSet] using hin
    · split
      · simpa [recentSet] using hin
      · split <;> simpa using hin
  | checkTrace i fp =>
    simp only [step]
    split
    · exact hin
    · split <;> simpa using hin
  | drain a =>
    simp only [step]
    split
    · rename_i s' hd
      have := drainCore_eq hd
      subst this
      exact mem_insertAll (Or.inl hin) hl
    · exact hin
  | maintain a =>
    simp only [step]
    simp only [rotates] at hr
    split
    · exact hin
    · rename_i s1 hd
      simp only [hd] at hr
      split
      · exact hin
      · rename_i s2 rot hm
        simp only [hm] at hr
        subst hr
        have hc := (maintainCore_frame hm).2.2.2.2.2.2.1 rfl
        have := drainCore_eq hd
        subst this
        simp only [hc]
        exact mem_insertAll (Or.inl hin) hl
  | resize k d =>
    simp only [step]
    split <;> exact hin
  | adv d => exact hin

theorem cur_mem_run (cfg : Cfg) (id : Nat) : ∀ (suf : List Op) (s : St), id ∈ s.cur.ids →
    (∀ o ∈ suf, losesCur id o = false) → NoRotation cfg s suf → id ∈ (runFrom cfg s suf).cur.ids := by
  intro suf
  induction suf with
  | nil => intro s h _ _; exact h
  | cons o t ih =>
    intro s h hl hr
    rw [runFrom_cons]
    exact ih _ (cur_mem_step cfg s o id h (hl o List.mem_cons_self) hr.1)
      (fun o' ho' => hl o' (List.mem_cons_of_mem _ ho')) hr.2

/-- **dropped_until_rotation** — from any state in which the current filter holds `id`, through
any further operations none of which kicks `id` out by a failed insert and none of which rotates
the filters, both lookups still answer "dropped" — whatever was or is recorded as kept. -/
theorem dropped_until_rotation (cfg : Cfg) (s : St) (suf : List Op) (id : Nat) (hin : id ∈ s.cur.ids)
    (hl : ∀ o ∈ suf, losesCur id o = false) (hr : NoRotation cfg s suf) (fp : Bool) (kind : Nat) :
    (step cfg (runFrom cfg s suf) (.checkTrace id fp)).2 = .ans .dropped ∧
    (step cfg (runFrom cfg s suf) (.checkSpan id kind fp)).2 = .ans .dropped := by
  have h := cur_mem_run cfg id suf s hin hl hr
  exact ⟨dropped_wins_trace cfg _ id fp (Or.inl h), dropped_wins_span cfg _ id kind fp (Or.inl h)⟩

/-- **dropped_until_rotation** at the level of histories: after any history whose add queue is
not full, a drop record followed by a drain of the whole queue in which the id is not kicked out
is answered "dropped" until the filters rotate — which needs a load above `rotPm`/1000
(`rotation_needs_full`) — even when the trace was, or later is, recorded as kept. -/
theorem dropped_until_rotation_run (cfg : Cfg) (kc dc : Nat) (pre suf : List Op) (id : Nat) (a : Adv)
    (hroom : (run cfg kc dc pre).queue.length < cfg.depth)
    (hk : a.k = (run cfg kc dc pre).queue.length + 1)
    (hvalid : (drainCore cfg (run cfg kc dc (pre ++ [.recDrop id])) a).isSome = true)
    (hkeep : a.lostC.contains id = false)
    (hl : ∀ o ∈ suf, losesCur id o = false)
    (hr : NoRotation cfg (run cfg kc dc (pre ++ [.recDrop id, .drain a])) suf) (fp : Bool) (kind : Nat) :
    (step cfg (run cfg kc dc (pre ++ [.recDrop id, .drain a] ++ suf)) (.checkTrace id fp)).2 = .ans .dropped ∧
    (step cfg (run cfg kc dc (pre ++ [.recDrop id, .drain a] ++ suf)) (.checkSpan id kind fp)).2 = .ans .dropped := by
  obtain ⟨s', hs'⟩ := Option.isSome_iff_exists.mp hvalid
  have hq : (run cfg kc dc (pre ++ [.recDrop id])).queue = (run cfg kc dc pre).queue ++ [id] := by
    rw [run_snoc]; exact record_enqueues cfg _ id hroom
  have hmem : id ∈ (run cfg kc dc (pre ++ [.recDrop id])).queue.take a.k := by
    rw [hq, hk, List.take_of_length_le (by simp)]; simp
  have hin : id ∈ (run cfg kc dc (pre ++ [.recDrop id, .drain a])).cur.ids := by
    have : pre ++ [Op.recDrop id, Op.drain a] = (pre ++ [Op.recDrop id]) ++ [Op.drain a] := by simp
    rw [this, run_snoc]
    simp only [step, hs']
    exact (drain_settles cfg _ s' a id hs' hmem).1 hkeep
  have := dropped_until_rotation cfg _ suf id hin hl hr fp kind
  simp only [run, runFrom_append] at this ⊢
  exact this

/-- **dropped_survives_rotation** — an id that is also in the future filter (it was drained after
the future filter was started) is still answered "dropped" after the next rotation. -/
theorem dropped_survives_rotation (cfg : Cfg) (s : St) (a : Adv) (f : Filter) (id : Nat)
    (hf : s.fut = some f) (hin : id ∈ f.ids) (hl : a.lostF.contains id = false)
    (hrot : rotates cfg s (.maintain a) = true) : id ∈ (step cfg s (.maintain a)).1.cur.ids := by
  simp only [rotates] at hrot
  simp only [step]
  split
  · rename_i hd; simp [hd] at hrot
  · rename_i s1 hd
    simp only [hd] at hrot
    split
    · rename_i hm; simp [hm] at hrot
    · rename_i s2 rot hm
      simp only [hm] at hrot
      subst hrot
      have h1 := drainCore_eq hd
      subst h1
      unfold maintainCore at hm
      simp only [hf, Option.map_some] at hm
      split at hm
      · simp only [Option.some.injEq, Prod.mk.injEq] at hm
        rw [← hm.1]
        exact mem_insertAll (Or.inl hin) hl
      · simp at hm

/-! ## The recent-drop set covers the gap between the record and the drain -/

open Refinery.Model in
/-- the recent-drop set still vouches for `id`: recorded at `t0`, expiry not before `T = t0 + ttl` -/
def Guard (r : TTL.St) (id : Nat) (t0 T ttl : Int) : Prop :=
  AList.NoDupKeys r.items ∧ r.ttl = ttl ∧ t0 ≤ r.now ∧ T = t0 + ttl ∧
  ∃ v e, AList.get r.items id = some (v, e) ∧ T ≤ e

open Refinery.Model in
theorem guard_set {r : TTL.St} {id : Nat} {t0 T ttl : Int} (h : Guard r id t0 T ttl) (j : Nat) :
    Guard (TTL.step r (.set j 0)).1 id t0 T ttl := by
  obtain ⟨h1, h2, h3, h4, v, e, h5, h6⟩ := h
  refine ⟨AList.nodup_put _ h1 _ _, h2, h3, h4, ?_⟩
  simp only [TTL.step]
  rw [AList.get_put]
  by_cases hj : j = id
  · exact ⟨0, r.now + r.ttl, by simp [hj], by omega⟩
  · exact ⟨v, e, by simp [hj, h5], h6⟩

open Refinery.Model in
theorem guard_cleanup {r : TTL.St} {id : Nat} {t0 T ttl : Int} (h : Guard r id t0 T ttl) (hn : r.now ≤ T) :
    Guard (TTL.cleanup r) id t0 T ttl := by
  obtain ⟨h1, h2, h3, h4, v, e, h5, h6⟩ := h
  refine ⟨by simpa [TTL.cleanup] using AList.nodup_keep _ h1 _, h2, h3, h4, v, e, ?_, h6⟩
  simp only [TTL.cleanup]
  rw [AList.get_keep _ h1, h5]
  have : TTL.expired r.now e = false := by simp [TTL.expired]; omega
  simp [Option.filter, this]

open Refinery.Model in
theorem guard_lookup {r : TTL.St} {id : Nat} {t0 T ttl : Int} (h : Guard r id t0 T ttl) (hn : r.now ≤ T) :
    (TTL.lookup r id).isSome = true := by
  obtain ⟨_, _, _, _, v, e, h5, h6⟩ := h
  have : TTL.expired r.now e = false := by simp [TTL.expired]; omega
  simp [TTL.lookup, h5, this]

/-- the clock advance an operation makes -/
def advOf : Op → Nat
  | .adv d => d
  | _ => 0

def advTotal (ops : List Op) : Nat := (ops.map advOf).sum

theorem guard_step (cfg : Cfg) (s : St) (o : Op) (id : Nat) (t0 T ttl : Int)
    (h : Guard s.recent id t0 T ttl) (hn : s.recent.now + advOf o ≤ T) :
    Guard (step cfg s o).1.recent id t0 T ttl ∧ (step cfg s o).1.recent.now = s.recent.now + advOf o := by
  cases o with
  | recKept i rate reason ev se sl sp => exact ⟨h, by simp [step, advOf]⟩
  | recDrop i =>
    simp only [step, enqueue_recent, recentSet, advOf]
    exact ⟨guard_set h i, by simp [Model.TTL.step]⟩
  | checkSpan i kind fp =>
    simp only [step, advOf]
    split
    · exact ⟨guard_set h i, by simp [recentSet, Model.TTL.step]⟩
    · split
      · exact ⟨guard_set h i, by simp [recentSet, Model.TTL.step]⟩
      · split <;> exact ⟨h, by simp⟩
  | checkTrace i fp =>
    simp only [step, advOf]
    split
    · exact ⟨h, by simp⟩
    · split <;> exact ⟨h, by simp⟩
  | drain a =>
    simp only [step, advOf]
    split
    · rename_i s' hd
      have := drainCore_eq hd
      subst this
      exact ⟨h, by simp⟩
    · exact ⟨h, by simp⟩
  | maintain a =>
    simp only [step, advOf]
    split
    · exact ⟨h, by simp⟩
    · rename_i s1 hd
      have h1 := drainCore_eq hd
      split
      · exact ⟨h, by simp⟩
      · rename_i s2 rot hm
        have hrec := (maintainCore_frame hm).2.2.1
        subst h1
        simp only [hrec]
        simp only [advOf, Int.natCast_zero, Int.add_zero] at hn
        exact ⟨guard_cleanup h hn, by simp [Model.TTL.cleanup]⟩
  | resize k d =>
    simp only [step, advOf]
    split <;> exact ⟨h, by simp⟩
  | adv d =>
    simp only [step, advOf, Model.TTL.step]
    obtain ⟨h1, h2, h3, h4, h5⟩ := h
    exact ⟨⟨h1, h2, by simp only; omega, h4, h5⟩, by first | rfl | trivial⟩

theorem guard_run (cfg : Cfg) (id : Nat) (t0 T ttl : Int) : ∀ (suf : List Op) (s : St),
    Guard s.recent id t0 T ttl → s.recent.now + advTotal suf ≤ T →
    Guard (runFrom cfg s suf).recent id t0 T ttl ∧ (runFrom cfg s suf).recent.now ≤ T := by
  intro suf
  induction suf with
  | nil => intro s h hn; exact ⟨h, by simpa [advTotal, runFrom] using hn⟩
  | cons o t ih =>
    intro s h hn
    have hsum : advTotal (o :: t) = advOf o + advTotal t := by simp [advTotal]
    rw [hsum] at hn
    obtain ⟨h1, h2⟩ := guard_step cfg s o id t0 T ttl h (by omega)
    rw [runFrom_cons]
    exact ih _ h1 (by rw [h2]; omega)

/-- well-formedness of the recent-drop set in every reachable state -/
def WFR (cfg : Cfg) (s : St) : Prop := AList.NoDupKeys s.recent.items ∧ s.recent.ttl = cfg.ttl

theorem wfr_step (cfg : Cfg) (s : St) (o : Op) (h : WFR cfg s) : WFR cfg (step cfg s o).1 := by
  obtain ⟨h1, h2⟩ := h
  have hset : ∀ j, WFR cfg (recentSet s j) := fun j =>
    ⟨by simpa [recentSet, Model.TTL.step] using AList.nodup_put _ h1 _ _, by simpa [recentSet, Model.TTL.step] using h2⟩
  cases o with
  | recKept i rate reason ev se sl sp => exact ⟨h1, h2⟩
  | recDrop i => simpa [step, WFR] using hset i
  | checkSpan i kind fp =>
    simp only [step]
    split
    · exact hset i
    · split
      · exact hset i
      · split <;> exact ⟨h1, h2⟩
  | checkTrace i fp =>
    simp only [step]
    split
    · exact ⟨h1, h2⟩
    · split <;> exact ⟨h1, h2⟩
  | drain a =>
    simp only [step]
    split
    · rename_i s' hd
      have := drainCore_eq hd
      subst this
      exact ⟨h1, h2⟩
    · exact ⟨h1, h2⟩
  | maintain a =>
    simp only [step]
    split
    · exact ⟨h1, h2⟩
    · rename_i s1 hd
      have hd1 := drainCore_eq hd
      split
      · exact ⟨h1, h2⟩
      · rename_i s2 rot hm
        have hrec := (maintainCore_frame hm).2.2.1
        subst hd1
        simp only [WFR, hrec, Model.TTL.cleanup]
        exact ⟨AList.nodup_keep _ h1 _, h2⟩
  | resize k d =>
    simp only [step]
    split <;> exact ⟨h1, h2⟩
  | adv d => exact ⟨by simpa [step, Model.TTL.step] using h1, by simpa [step, Model.TTL.step] using h2⟩

theorem wfr_run (cfg : Cfg) (kc dc : Nat) (ops : List Op) : WFR cfg (run cfg kc dc ops) := by
  suffices h : ∀ (ops : List Op) (s : St), WFR cfg s → WFR cfg (runFrom cfg s ops) from
    h ops _ ⟨by simp [init, Model.TTL.init, AList.nodup_nil], by simp [init, Model.TTL.init]⟩
  intro ops
  induction ops with
  | nil => intro s h; exact h
  | cons o t ih => intro s h; exact ih _ (wfr_step cfg s o h)

/-- **recent_covers_gap** — after any history, a drop record is answered "dropped" by both lookups
through whatever happens next (queue overflow, no drain at all, filter rotations, kept records of
the same trace) as long as the clock has advanced by at most the recent-drop TTL since — the expiry
instant included. -/
theorem recent_covers_gap (cfg : Cfg) (kc dc : Nat) (pre suf : List Op) (id kind : Nat) (fp : Bool)
    (hadv : (advTotal suf : Int) ≤ cfg.ttl) :
    (step cfg (run cfg kc dc (pre ++ [.recDrop id] ++ suf)) (.checkSpan id kind fp)).2 = .ans .dropped ∧
    (step cfg (run cfg kc dc (pre ++ [.recDrop id] ++ suf)) (.checkTrace id fp)).2 = .ans .dropped := by
  obtain ⟨hnd, httl⟩ := wfr_run cfg kc dc pre
  have hg : Guard (run cfg kc dc (pre ++ [.recDrop id])).recent id (run cfg kc dc pre).recent.now
      ((run cfg kc dc pre).recent.now + cfg.ttl) cfg.ttl := by
    rw [run_snoc]
    simp only [step, enqueue_recent, recentSet, Model.TTL.step]
    refine ⟨AList.nodup_put _ hnd _ _, httl, Int.le_refl _, rfl, 0,
      (run cfg kc dc pre).recent.now + (run cfg kc dc pre).recent.ttl, by rw [AList.get_put]; simp, by omega⟩
  have hnow : (run cfg kc dc (pre ++ [.recDrop id])).recent.now = (run cfg kc dc pre).recent.now := by
    rw [run_snoc]; simp [step, recentSet, Model.TTL.step]
  obtain ⟨h1, h2⟩ := guard_run cfg id _ _ _ suf _ hg (by rw [hnow]; omega)
  have hh := guard_lookup h1 h2
  have : run cfg kc dc (pre ++ [.recDrop id] ++ suf) = runFrom cfg (run cfg kc dc (pre ++ [.recDrop id])) suf := by
    simp only [run, runFrom_append]
  rw [this]
  exact ⟨dropped_wins_span cfg _ id kind fp (Or.inr hh), dropped_wins_trace cfg _ id fp (Or.inr hh)⟩


end Refinery.Lemmas.SentCache
