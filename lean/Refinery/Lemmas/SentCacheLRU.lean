import Refinery.Model.SentCache
/-!
List lemmas behind the LRU refinement of C31: de-duplication, and the key fact that truncating a
recency list before or after a touch makes no difference.
-/
namespace Refinery.Lemmas.SentCache
open Refinery Refinery.Model.SentCache

theorem filter_ne_of_not_mem {x : Nat} {l : List Nat} (h : x ∉ l) : l.filter (fun y => y != x) = l := by
  rw [List.filter_eq_self]
  intro a ha
  simp only [bne_iff_ne, ne_eq]
  intro e; subst e; exact h ha

theorem dedup_nodup (l : List Nat) : (dedup l).Nodup := by
  induction l with
  | nil => simp [dedup]
  | cons x t ih =>
    simp only [dedup, List.nodup_cons]
    refine ⟨?_, ih.sublist List.filter_sublist⟩
    simp

theorem mem_dedup (l : List Nat) (y : Nat) : y ∈ dedup l ↔ y ∈ l := by
  induction l with
  | nil => simp [dedup]
  | cons x t ih =>
    simp only [dedup, List.mem_cons, List.mem_filter, ih, bne_iff_ne, ne_eq]
    by_cases h : y = x <;> simp [h]

/-- truncating to `c+1` before removing one element of a duplicate-free list does not change
the first `c` survivors -/
theorem take_filter_take (x : Nat) : ∀ (D : List Nat) (c : Nat), D.Nodup →
    ((D.take (c + 1)).filter (fun y => y != x)).take c = (D.filter (fun y => y != x)).take c := by
  intro D
  induction D with
  | nil => intro c _; simp
  | cons y D' ih =>
    intro c hn
    rw [List.nodup_cons] at hn
    rw [List.take_succ_cons]
    by_cases hy : y = x
    · subst hy
      have h1 : (D'.take c).filter (fun z => z != y) = D'.take c :=
        filter_ne_of_not_mem (fun h => hn.1 (List.mem_of_mem_take h))
      have h2 : D'.filter (fun z => z != y) = D' := filter_ne_of_not_mem hn.1
      simp [h1, h2, List.take_take]
    · have hp : (y != x) = true := by simp [hy]
      simp only [List.filter_cons, hp, if_true]
      cases c with
      | zero => simp
      | succ c' => simp only [List.take_succ_cons]; rw [ih c' hn.2]

/-- the spec's touch: move to front, keep the first `cap` -/
def specTouch (cap : Nat) (R : List Nat) (x : Nat) : List Nat := (x :: R.filter (fun y => y != x)).take cap

theorem specTouch_take (cap : Nat) (D : List Nat) (x : Nat) (hn : D.Nodup) :
    specTouch cap (D.take cap) x = (x :: D.filter (fun y => y != x)).take cap := by
  unfold specTouch
  cases cap with
  | zero => simp
  | succ c => simp only [List.take_succ_cons]; rw [take_filter_take x D c hn]

/-- Folding touches (oldest first) from the empty list gives the first `cap` distinct elements of
the touch sequence read most recent first. -/
theorem fold_specTouch (cap : Nat) (t : List Nat) :
    t.foldl (specTouch cap) [] = (dedup t.reverse).take cap := by
  suffices h : ∀ (t : List Nat), t.reverse.reverse.foldl (specTouch cap) [] = (dedup t.reverse.reverse.reverse).take cap by
    simpa using h t
  intro t
  generalize t.reverse = r
  induction r with
  | nil => simp [dedup]
  | cons x r ih =>
    simp only [List.reverse_cons, List.foldl_append, List.foldl_cons, List.foldl_nil, List.reverse_append,
      List.reverse_nil, List.nil_append, List.reverse_reverse, List.cons_append] at ih ⊢
    rw [ih, dedup]
    exact specTouch_take cap (dedup r) x (dedup_nodup r)

theorem ids_lruDel (l : List Entry) (id : Nat) :
    (lruDel l id).map (·.id) = (l.map (·.id)).filter (fun y => y != id) := by
  unfold lruDel
  induction l with
  | nil => rfl
  | cons e t ih =>
    simp only [List.filter_cons, List.map_cons]
    by_cases h : e.id = id <;> simp [h, ih]

theorem lruFind_some {l : List Entry} {id : Nat} {e : Entry} (h : lruFind l id = some e) :
    e.id = id ∧ e ∈ l := by
  unfold lruFind at h
  have h1 := List.find?_some h
  have h2 := List.mem_of_find?_eq_some h
  exact ⟨by simpa using h1, h2⟩

theorem lruFind_isSome_iff (l : List Entry) (id : Nat) :
    (lruFind l id).isSome = true ↔ id ∈ l.map (·.id) := by
  unfold lruFind
  rw [List.find?_isSome]
  simp only [beq_iff_eq, List.mem_map]

theorem length_filter_ne_lt {x : Nat} {l : List Nat} (h : x ∈ l) :
    (l.filter (fun y => y != x)).length < l.length := by
  induction l with
  | nil => simp at h
  | cons y t ih =>
    simp only [List.filter_cons]
    by_cases hy : y = x
    · subst hy
      simp only [bne_self_eq_false, Bool.false_eq_true, if_false, List.length_cons]
      exact Nat.lt_succ_of_le (List.length_filter_le _ _)
    · have hp : (y != x) = true := by simp [hy]
      have hx : x ∈ t := by
        rcases List.mem_cons.mp h with h | h
        · exact absurd h.symm hy
        · exact h
      simp only [hp, if_true, List.length_cons]
      exact Nat.succ_lt_succ (ih hx)

@[simp] theorem count_id (e : Entry) (k : Nat) : (e.count k).id = e.id := by
  unfold Entry.count; split
  · rfl
  · split <;> rfl

@[simp] theorem count_rate (e : Entry) (k : Nat) : (e.count k).rate = e.rate := by
  unfold Entry.count; split
  · rfl
  · split <;> rfl

@[simp] theorem count_reason (e : Entry) (k : Nat) : (e.count k).reason = e.reason := by
  unfold Entry.count; split
  · rfl
  · split <;> rfl

end Refinery.Lemmas.SentCache
