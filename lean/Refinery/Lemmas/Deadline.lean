import Refinery.Model.Deadline
/-!
Helper lemmas and the simulation invariant shared by C03 and C07 (`Model/Deadline.lean`).
-/
namespace Refinery.Lemmas.Deadline
open Refinery Refinery.Model.Deadline

/-! ### association lists filtered by a predicate on keys -/

theorem get_filter_key {α : Type} (l : AList Nat α) (q : Nat → Bool) (k : Nat) :
    AList.get (l.filter (fun p => q p.1)) k = if q k then AList.get l k else none := by
  induction l with
  | nil => simp
  | cons p t ih =>
    obtain ⟨a, b⟩ := p
    simp only [List.filter_cons]
    by_cases hq : q a = true
    · simp only [hq, if_true, AList.get_cons]
      by_cases hak : a = k
      · subst hak; simp [hq]
      · simp only [hak, if_false]; exact ih
    · simp only [hq]
      rw [AList.get_cons]
      by_cases hak : a = k
      · subst hak; simp [hq] at ih ⊢; exact ih
      · simp only [hak, if_false]; exact ih

theorem keys_filter_key {α : Type} (l : AList Nat α) (q : Nat → Bool) :
    AList.keys (l.filter (fun p => q p.1)) = (AList.keys l).filter q := by
  induction l with
  | nil => rfl
  | cons p t ih =>
    obtain ⟨a, b⟩ := p
    simp only [List.filter_cons, AList.keys, List.map_cons] at ih ⊢
    by_cases hq : q a = true <;> simp [hq, ih]

/-! ### constants measured from the code -/

theorem fallbackTimeout_pos : (0 : Int) < Gen.Deadline.fallbackTraceTimeout := by decide
theorem fallbackDelay_pos : (0 : Int) < Gen.Deadline.fallbackSendDelay := by decide

theorem effTimeout_pos (c : Cfg) : 0 < c.effTimeout := by
  unfold Cfg.effTimeout
  split
  · exact fallbackTimeout_pos
  · omega

theorem effDelay_pos (c : Cfg) : 0 < c.effDelay := by
  unfold Cfg.effDelay
  split
  · exact fallbackDelay_pos
  · omega

/-- the fall-backs in the code are the documented defaults, so the documented deadline is the one
computed with the code's effective timeout and delay -/
theorem documented_eq (c : Cfg) (a : Arr) :
    documented c a = documentedWith c.effTimeout c.effDelay a := by
  have h1 : Gen.Deadline.fallbackTraceTimeout = Gen.Deadline.cfgDefaultTraceTimeout := by decide
  have h2 : Gen.Deadline.fallbackSendDelay = Gen.Deadline.cfgDefaultSendDelay := by decide
  simp only [documented, Cfg.docTimeout, Cfg.docDelay, Cfg.effTimeout, Cfg.effDelay, h1, h2]

/-! ### the state machine keeps its configuration and key-distinctness -/

theorem addSpan_cfg (s : St) (id : Nat) (tr : Tr) (root : Bool) (size : Nat) :
    (addSpan s id tr root size).1.cfg = s.cfg := rfl

theorem step_cfg (s : St) (o : Op) : (step s o).1.cfg = s.cfg := by
  cases o with
  | adv d => rfl
  | span id root size kind =>
    simp only [step, processSpan]
    split
    · rfl
    · split <;> rfl
  | tick taken =>
    simp only [step, tick]
    split <;> rfl
  | eject bytes imp order ages =>
    simp only [step, eject]
    split <;> rfl

theorem runFrom_cfg (s : St) (ops : List Op) : (runFrom s ops).cfg = s.cfg := by
  induction ops generalizing s with
  | nil => rfl
  | cons o os ih => simp only [runFrom, List.foldl_cons] at ih ⊢; rw [ih, step_cfg]

theorem addSpan_buf (s : St) (id : Nat) (tr : Tr) (root : Bool) (size : Nat) :
    ∃ tr2, (addSpan s id tr root size).1.buf = AList.put s.buf id tr2 := ⟨_, rfl⟩

theorem step_nodup (s : St) (o : Op) (h : AList.NoDupKeys s.buf) : AList.NoDupKeys (step s o).1.buf := by
  cases o with
  | adv d => exact h
  | span id root size kind =>
    simp only [step, processSpan]
    split
    · exact AList.nodup_put _ h _ _
    · split
      · exact h
      · exact AList.nodup_put _ h _ _
  | tick taken =>
    simp only [step, tick]
    split
    · exact AList.nodup_filter _ h _
    · exact h
  | eject bytes imp order ages =>
    simp only [step, eject]
    split
    · exact AList.nodup_filter _ h _
    · exact h

theorem runFrom_nodup (s : St) (ops : List Op) (h : AList.NoDupKeys s.buf) :
    AList.NoDupKeys (runFrom s ops).buf := by
  induction ops generalizing s with
  | nil => exact h
  | cons o os ih => simp only [runFrom, List.foldl_cons] at ih ⊢; exact ih _ (step_nodup s o h)

theorem run_nodup (c : Cfg) (ops : List Op) : AList.NoDupKeys (run c ops).buf :=
  runFrom_nodup _ ops AList.nodup_nil

/-! ### membership in `expiredIds` -/

theorem mem_expiredIds {s : St} (hn : AList.NoDupKeys s.buf) {id : Nat} :
    id ∈ expiredIds s ↔ ∃ tr, AList.get s.buf id = some tr ∧ tr.sendBy ≤ s.now := by
  unfold expiredIds
  simp only [List.mem_map, List.mem_filter, decide_eq_true_eq]
  constructor
  · rintro ⟨⟨k, tr⟩, ⟨hmem, hle⟩, rfl⟩
    exact ⟨tr, AList.get_of_mem hn hmem, hle⟩
  · rintro ⟨tr, hg, hle⟩
    exact ⟨(id, tr), ⟨AList.mem_of_get hg, hle⟩, rfl⟩

theorem expiredIds_nodup {s : St} (hn : AList.NoDupKeys s.buf) : (expiredIds s).Nodup := by
  unfold expiredIds
  exact AList.nodup_filter _ hn _

/-! ### the simulation invariant between a worker and the arrival history -/

/-- what ties a buffered trace to its arrival record -/
structure Rel (c : Cfg) (now : Int) (tr : Tr) (a : Arr) : Prop where
  first : tr.first = a.first
  count : tr.count = a.count
  root : tr.hasRoot = a.rootAt.isSome
  firstLe : a.first ≤ now
  rootLe : ∀ r, a.rootAt = some r → r ≤ now
  limLe : ∀ l, a.limitAt = some l → l ≤ now
  limIff : a.limitAt.isSome ↔ (0 < c.spanLimit ∧ c.spanLimit < a.count)
  sendBy : tr.sendBy = documentedWith c.effTimeout c.effDelay a

def Inv (c : Cfg) (s : St) (sp : Spec) : Prop :=
  s.cfg = c ∧ s.now = sp.now ∧ AList.NoDupKeys s.buf ∧
  (∀ id tr, AList.get s.buf id = some tr → id ∉ s.decided ∧ ∃ a, sp.arr id = some a ∧ Rel c s.now tr a) ∧
  (∀ id, AList.get s.buf id = none → sp.arr id ≠ none → id ∈ s.decided) ∧
  (∀ id ∈ s.decided, sp.arr id ≠ none)

theorem inv_init (c : Cfg) : Inv c (init c) {} := by
  refine ⟨rfl, rfl, AList.nodup_nil, ?_, ?_, ?_⟩
  · intro id tr h; simp [init] at h
  · intro id _ h; simp at h
  · intro id h; simp [init] at h

theorem rel_mono {c : Cfg} {now now' : Int} {tr : Tr} {a : Arr} (h : Rel c now tr a) (hle : now ≤ now') :
    Rel c now' tr a :=
  { h with
    firstLe := by have := h.firstLe; omega
    rootLe := fun r hr => by have := h.rootLe r hr; omega
    limLe := fun l hl => by have := h.limLe l hl; omega }

/-- arithmetic core: lowering `SendBy` to `upd` when marked keeps it equal to the documented deadline -/
theorem doc_step (c : Cfg) (now : Int) (a : Arr) (root : Bool)
    (hd : 0 < c.effDelay)
    (h5 : ∀ r, a.rootAt = some r → r ≤ now)
    (h6 : ∀ l, a.limitAt = some l → l ≤ now)
    (h7 : a.limitAt.isSome ↔ (0 < c.spanLimit ∧ c.spanLimit < a.count))
    (over : Bool) (hover : over = true ↔ (0 < c.spanLimit ∧ c.spanLimit < a.count + 1)) :
    (if (root || over) = true then min (documentedWith c.effTimeout c.effDelay a) (now + (if over = true then 0 else c.effDelay))
      else documentedWith c.effTimeout c.effDelay a) =
    documentedWith c.effTimeout c.effDelay
      { first := a.first, count := a.count + 1,
        rootAt := if root ∧ a.rootAt = none then some now else a.rootAt,
        limitAt := if 0 < c.spanLimit ∧ c.spanLimit < a.count + 1 ∧ a.limitAt = none then some now
                   else a.limitAt } := by
  cases hr : a.rootAt with
  | none =>
    cases hl : a.limitAt with
    | none =>
      have hno : ¬ (0 < c.spanLimit ∧ c.spanLimit < a.count) := by
        intro ho; have := h7.mpr ho; simp [hl] at this
      by_cases ho : (0 < c.spanLimit ∧ c.spanLimit < a.count + 1)
      · have hov : over = true := hover.mpr ho
        cases root <;> simp [documentedWith, hr, hl, ho, hov] <;> omega
      · have hov : over = false := by
          cases hb : over
          · rfl
          · exact absurd (hover.mp hb) ho
        cases root <;> simp [documentedWith, hr, hl, ho, hov]
    | some l =>
      have hl_le := h6 l hl
      have hold : (0 < c.spanLimit ∧ c.spanLimit < a.count) := h7.mp (by simp [hl])
      have ho : (0 < c.spanLimit ∧ c.spanLimit < a.count + 1) := ⟨hold.1, by omega⟩
      have hov : over = true := hover.mpr ho
      cases root <;> simp [documentedWith, hr, hl, hov] <;> omega
  | some r =>
    have hr_le := h5 r hr
    cases hl : a.limitAt with
    | none =>
      have hno : ¬ (0 < c.spanLimit ∧ c.spanLimit < a.count) := by
        intro ho; have := h7.mpr ho; simp [hl] at this
      by_cases ho : (0 < c.spanLimit ∧ c.spanLimit < a.count + 1)
      · have hov : over = true := hover.mpr ho
        cases root <;> simp [documentedWith, hr, hl, ho, hov] <;> omega
      · have hov : over = false := by
          cases hb : over
          · rfl
          · exact absurd (hover.mp hb) ho
        cases root <;> simp [documentedWith, hr, hl, ho, hov] <;> omega
    | some l =>
      have hl_le := h6 l hl
      have hold : (0 < c.spanLimit ∧ c.spanLimit < a.count) := h7.mp (by simp [hl])
      have ho : (0 < c.spanLimit ∧ c.spanLimit < a.count + 1) := ⟨hold.1, by omega⟩
      have hov : over = true := hover.mpr ho
      cases root <;> simp [documentedWith, hr, hl, hov] <;> omega

/-- the heart of C03: one span arrival keeps `SendBy` equal to the documented deadline -/
theorem rel_addSpan (c : Cfg) (now : Int) (tr : Tr) (a : Arr) (root : Bool) (size : Nat)
    (h : Rel c now tr a) :
    let tr1 : Tr := { tr with count := tr.count + 1, size := tr.size + size, hasRoot := tr.hasRoot || root }
    let over : Bool := decide (0 < c.spanLimit ∧ c.spanLimit < tr1.count)
    let upd : Int := now + (if over then 0 else c.effDelay)
    let tr2 : Tr := if (root || over) ∧ upd < tr1.sendBy then { tr1 with sendBy := upd } else tr1
    Rel c now tr2
      { first := a.first, count := a.count + 1,
        rootAt := if root ∧ a.rootAt = none then some now else a.rootAt,
        limitAt := if 0 < c.spanLimit ∧ c.spanLimit < a.count + 1 ∧ a.limitAt = none then some now
                   else a.limitAt } := by
  intro tr1 over upd tr2
  have hd := effDelay_pos c
  obtain ⟨h1, h2, h3, h4, h5, h6, h7, h8⟩ := h
  have hcount : tr2.count = a.count + 1 := by
    simp only [tr2, tr1]; split <;> simp [h2]
  have hfirst : tr2.first = a.first := by
    simp only [tr2, tr1]; split <;> simp [h1]
  have hroot : tr2.hasRoot = (tr.hasRoot || root) := by
    simp only [tr2, tr1]; split <;> simp
  have hover : over = true ↔ (0 < c.spanLimit ∧ c.spanLimit < a.count + 1) := by
    simp only [over, tr1, h2, decide_eq_true_eq]
  have hsb2 : tr2.sendBy = if (root || over) = true then min tr.sendBy upd else tr.sendBy := by
    simp only [tr2, tr1]
    by_cases hm : (root || over) = true
    · by_cases hu : upd < tr.sendBy
      · simp only [hm, hu, and_self, if_true]; omega
      · simp only [hm, hu, and_false, if_false, if_true]; omega
    · simp [hm]
  refine ⟨hfirst, hcount, ?_, h4, ?_, ?_, ?_, ?_⟩
  · rw [hroot, h3]
    cases hr : a.rootAt <;> cases root <;> simp
  · intro r hr
    by_cases hc : root = true ∧ a.rootAt = none
    · simp only [hc, and_self, if_true, Option.some.injEq] at hr; omega
    · simp only [hc, if_false] at hr; exact h5 r hr
  · intro l hl
    by_cases hc : 0 < c.spanLimit ∧ c.spanLimit < a.count + 1 ∧ a.limitAt = none
    · simp only [hc, and_self, if_true, Option.some.injEq] at hl; omega
    · simp only [hc, if_false] at hl; exact h6 l hl
  · by_cases hc : 0 < c.spanLimit ∧ c.spanLimit < a.count + 1 ∧ a.limitAt = none
    · simp only [hc, and_self, if_true, Option.isSome_some]
    · simp only [hc, if_false]
      constructor
      · intro hs
        have := h7.mp hs
        exact ⟨this.1, by omega⟩
      · intro ho
        cases hl : a.limitAt with
        | none => exact absurd ⟨ho.1, ho.2, hl⟩ hc
        | some l => simp
  · rw [hsb2, h8]
    exact doc_step c now a root hd h5 h6 h7 over hover

theorem inv_removeIds {c : Cfg} {s : St} {sp : Spec} (h : Inv c s sp) (ids : List Nat)
    (hsub : ∀ id ∈ ids, id ∈ AList.keys s.buf) :
    Inv c (removeIds s ids) sp := by
  obtain ⟨h1, h2, h3, h4, h5, h6⟩ := h
  refine ⟨h1, h2, AList.nodup_filter _ h3 _, ?_, ?_, ?_⟩
  · intro id tr hg
    simp only [removeIds] at hg ⊢
    rw [get_filter_key s.buf (fun k => decide (k ∉ ids)) id] at hg
    by_cases hin : id ∈ ids
    · simp [hin] at hg
    · simp only [hin, not_false_eq_true, decide_true, if_true] at hg
      obtain ⟨hnd, a, ha, hrel⟩ := h4 id tr hg
      exact ⟨by simp [hin, hnd], a, ha, hrel⟩
  · intro id hg harr
    simp only [removeIds] at hg ⊢
    rw [get_filter_key s.buf (fun k => decide (k ∉ ids)) id] at hg
    by_cases hin : id ∈ ids
    · simp [hin]
    · simp only [hin, not_false_eq_true, decide_true, if_true] at hg
      simp [h5 id hg harr]
  · intro id hid
    simp only [removeIds, List.mem_append] at hid
    rcases hid with hid | hid
    · have hk := hsub id hid
      rw [AList.mem_keys_iff] at hk
      cases hg : AList.get s.buf id with
      | none => simp [hg] at hk
      | some tr =>
        obtain ⟨_, a, ha, _⟩ := h4 id tr hg
        simp [ha]
    · exact h6 id hid

theorem inv_addSpan {c : Cfg} {s : St} {sp : Spec} (h : Inv c s sp) (id : Nat) (tr : Tr) (a : Arr)
    (root : Bool) (size : Nat) (kind : Kind) (hnd : id ∉ s.decided) (hrel : Rel c s.now tr a)
    (harr : sp.arrOf id = a) :
    Inv c (addSpan s id tr root size).1 (Spec.step c sp (.span id root size kind)) := by
  obtain ⟨h1, h2, h3, h4, h5, h6⟩ := h
  have hr := rel_addSpan c s.now tr a root size hrel
  simp only at hr
  refine ⟨h1, h2, AList.nodup_put _ h3 _ _, ?_, ?_, ?_⟩
  · intro k trk hg
    simp only [addSpan] at hg ⊢
    rw [AList.get_put] at hg
    by_cases hk : id = k
    · subst hk
      simp only [if_true, Option.some.injEq] at hg
      refine ⟨hnd, ?_⟩
      simp only [Spec.step, if_true]
      refine ⟨_, rfl, ?_⟩
      rw [← hg, h1, ← h2, harr]
      exact hr
    · simp only [hk, if_false] at hg
      obtain ⟨hnd', a', ha', hrel'⟩ := h4 k trk hg
      refine ⟨hnd', a', ?_, hrel'⟩
      simp only [Spec.step]
      rw [if_neg (Ne.symm hk)]
      exact ha'
  · intro k hg hne
    simp only [addSpan] at hg ⊢
    rw [AList.get_put] at hg
    by_cases hk : id = k
    · simp [hk] at hg
    · simp only [hk, if_false] at hg
      apply h5 k hg
      simp only [Spec.step] at hne
      rw [if_neg (Ne.symm hk)] at hne
      exact hne
  · intro k hk
    simp only [addSpan] at hk
    simp only [Spec.step]
    by_cases e : k = id
    · simp [e]
    · rw [if_neg e]; exact h6 k hk

theorem expiredIds_sub_keys (s : St) : ∀ id ∈ expiredIds s, id ∈ AList.keys s.buf := by
  intro id h
  simp only [expiredIds, List.mem_map, List.mem_filter] at h
  obtain ⟨p, ⟨hp, _⟩, rfl⟩ := h
  exact List.mem_map.mpr ⟨p, hp, rfl⟩

theorem inv_step {c : Cfg} {s : St} {sp : Spec} (h : Inv c s sp) (o : Op) :
    Inv c (step s o).1 (Spec.step c sp o) := by
  cases o with
  | adv d =>
    obtain ⟨h1, h2, h3, h4, h5, h6⟩ := h
    refine ⟨h1, by simp [step, Spec.step, h2], h3, ?_, h5, h6⟩
    intro id tr hg
    obtain ⟨hnd, a, ha, hrel⟩ := h4 id tr hg
    exact ⟨hnd, a, ha, rel_mono hrel (by simp [step]; omega)⟩
  | span id root size kind =>
    have h' := h
    obtain ⟨h1, h2, h3, h4, h5, h6⟩ := h
    simp only [step, processSpan]
    cases hg : AList.get s.buf id with
    | some tr =>
      obtain ⟨hnd, a, ha, hrel⟩ := h4 id tr hg
      exact inv_addSpan h' id tr a root size kind hnd hrel (by simp [Spec.arrOf, ha])
    | none =>
      by_cases hdec : id ∈ s.decided
      · simp only [hdec, if_true]
        refine ⟨h1, h2, h3, ?_, ?_, ?_⟩
        · intro k trk hgk
          obtain ⟨hnd, a, ha, hrel⟩ := h4 k trk hgk
          refine ⟨hnd, a, ?_, hrel⟩
          have hk : k ≠ id := by intro e; subst e; rw [hg] at hgk; cases hgk
          simp only [Spec.step]
          rw [if_neg hk]; exact ha
        · intro k hgk hne
          by_cases hk : k = id
          · subst hk; exact hdec
          · apply h5 k hgk
            simp only [Spec.step] at hne
            rw [if_neg hk] at hne; exact hne
        · intro k hk
          simp only [Spec.step]
          by_cases e : k = id
          · simp [e]
          · rw [if_neg e]; exact h6 k hk
      · simp only [hdec, if_false]
        have hnone : sp.arr id = none := by
          cases ha : sp.arr id with
          | none => rfl
          | some a => exact absurd (h5 id hg (by simp [ha])) hdec
        have ht := effTimeout_pos c
        refine inv_addSpan h' id _ { first := sp.now, rootAt := none, limitAt := none, count := 0 }
          root size kind hdec ?_ (by simp [Spec.arrOf, hnone])
        refine ⟨h2, rfl, rfl, (by simp [h2]), (fun r hr => by cases hr), (fun l hl => by cases hl), ?_, ?_⟩
        · simp
        · simp [documentedWith, h1, h2]
  | tick taken =>
    simp only [step, tick]
    split
    · next hv => exact inv_removeIds h taken (fun id hid => expiredIds_sub_keys s id (hv.2.1 id hid))
    · exact h
  | eject bytes imp order ages =>
    simp only [step, eject]
    split
    · next hv => exact inv_removeIds h order hv.2.1
    · exact h

theorem inv_runFrom {c : Cfg} {s : St} {sp : Spec} (h : Inv c s sp) (ops : List Op) :
    Inv c (runFrom s ops) (Spec.runFrom c sp ops) := by
  induction ops generalizing s sp with
  | nil => exact h
  | cons o os ih =>
    simp only [runFrom, Spec.runFrom, List.foldl_cons] at ih ⊢
    exact ih (inv_step h o)

/-- the invariant holds in every reachable state -/
theorem inv_run (c : Cfg) (ops : List Op) : Inv c (run c ops) (Spec.run c ops) :=
  inv_runFrom (inv_init c) ops


/-! ### small facts about the step functions -/

theorem lower_le (P : Prop) [Decidable P] (upd : Int) (tr1 : Tr) :
    (if P ∧ upd < tr1.sendBy then { tr1 with sendBy := upd } else tr1).sendBy ≤ tr1.sendBy := by
  split
  · next h => simp only; omega
  · exact Int.le_refl _

theorem mem_sentOf {s : St} {f : Tr → Reason} {ids : List Nat} {x : Sent} (hx : x ∈ sentOf s f ids) :
    x.1 ∈ ids ∧ ∃ tr, AList.get s.buf x.1 = some tr ∧ x = (x.1, f tr, tr.count) := by
  simp only [sentOf, List.mem_filterMap] at hx
  obtain ⟨id, hid, hm⟩ := hx
  cases hg : AList.get s.buf id with
  | none => simp [hg] at hm
  | some tr =>
    simp only [hg, Option.map_some, Option.some.injEq] at hm
    subst hm
    exact ⟨hid, tr, hg, rfl⟩

theorem tick_accepted {s : St} {taken : List Nat} {l : List Sent} {left : List Nat}
    (h : (step s (.tick taken)).2 = .sent l left) :
    ValidTake s taken ∧ l = sentOf s (reasonOf s.cfg) taken ∧
      (step s (.tick taken)).1 = removeIds s taken ∧ left = leftIds (removeIds s taken) := by
  simp only [step, tick] at h ⊢
  split at h
  · rename_i hv
    simp only [Out.sent.injEq] at h
    simp [hv, h.1, h.2]
  · cases h

theorem eject_accepted {s : St} {bytes : Nat} {imp : AList Nat Nat} {order : List Nat}
    {ages : AList Nat (List (Nat × Nat × Nat))} {l : List Sent} {left : List Nat}
    (h : (step s (.eject bytes imp order ages)).2 = .sent l left) :
    ValidEject s bytes imp order ages ∧ l = sentOf s (fun _ => Reason.ejectedMemsize) order ∧
      (step s (.eject bytes imp order ages)).1 = setMemo (removeIds s order) (memoAfter s imp) ∧
      left = leftIds (removeIds s order) := by
  simp only [step, eject] at h ⊢
  split at h
  · rename_i hv
    simp only [Out.sent.injEq] at h
    refine ⟨by simp [hv], h.1.symm, by simp [hv], ?_⟩
    rw [← h.2]; rfl
  · cases h

/-- every id of `ids` that is buffered yields one entry, in order -/
theorem sentOf_ids {s : St} (f : Tr → Reason) (ids : List Nat)
    (hs : ∀ id ∈ ids, id ∈ AList.keys s.buf) : (sentOf s f ids).map (·.1) = ids := by
  induction ids with
  | nil => rfl
  | cons a t ih =>
    have ha := hs a List.mem_cons_self
    rw [AList.mem_keys_iff] at ha
    cases hg : AList.get s.buf a with
    | none => simp [hg] at ha
    | some tr =>
      have iht := ih (fun id hid => hs id (List.mem_cons_of_mem _ hid))
      simp only [sentOf, List.filterMap_cons, hg, Option.map_some, List.map_cons] at iht ⊢
      rw [iht]

/-- a duplicate-free list inside a duplicate-free list of the same length contains all of it -/
theorem subset_of_nodup_length {l₁ l₂ : List Nat} (h₁ : l₁.Nodup) (h₂ : l₂.Nodup)
    (hsub : ∀ a ∈ l₂, a ∈ l₁) (hlen : l₂.length = l₁.length) : ∀ a ∈ l₁, a ∈ l₂ := by
  have hp : (l₁.filter (fun a => decide (a ∈ l₂))).Perm l₂ := by
    rw [List.perm_ext_iff_of_nodup (h₁.sublist List.filter_sublist) h₂]
    intro a
    simp only [List.mem_filter, decide_eq_true_eq]
    exact ⟨fun h => h.2, fun h => ⟨hsub a h, h⟩⟩
  have hl : (l₁.filter (fun a => decide (a ∈ l₂))).length = l₁.length := by
    rw [hp.length_eq, hlen]
  have := List.length_filter_eq_length_iff.mp hl
  intro a ha
  simpa using this a ha

/-- insertion sort of ids by a key (only used to exhibit a deadline-sorted order) -/
def insBy (f : Nat → Int) (x : Nat) : List Nat → List Nat
  | [] => [x]
  | y :: t => if f x ≤ f y then x :: y :: t else y :: insBy f x t

def sortBy (f : Nat → Int) : List Nat → List Nat
  | [] => []
  | x :: t => insBy f x (sortBy f t)

theorem insBy_perm (f : Nat → Int) (x : Nat) (l : List Nat) : (insBy f x l).Perm (x :: l) := by
  induction l with
  | nil => simp [insBy]
  | cons z t ih =>
    unfold insBy
    split
    · exact List.Perm.refl _
    · exact (List.Perm.cons z ih).trans (List.Perm.swap x z t)

theorem sortBy_perm (f : Nat → Int) (l : List Nat) : (sortBy f l).Perm l := by
  induction l with
  | nil => simp [sortBy]
  | cons x t ih => exact (insBy_perm f x _).trans (List.Perm.cons x ih)

theorem insBy_pairwise (f : Nat → Int) (x : Nat) (l : List Nat)
    (h : l.Pairwise (fun a b => f a ≤ f b)) : (insBy f x l).Pairwise (fun a b => f a ≤ f b) := by
  induction l with
  | nil => simp [insBy]
  | cons z t ih =>
    unfold insBy
    rw [List.pairwise_cons] at h
    split
    · rename_i hxz
      rw [List.pairwise_cons]
      refine ⟨?_, List.pairwise_cons.mpr h⟩
      intro a ha
      rcases List.mem_cons.mp ha with rfl | ha
      · exact hxz
      · exact Int.le_trans hxz (h.1 a ha)
    · rename_i hxz
      rw [List.pairwise_cons]
      refine ⟨?_, ih h.2⟩
      intro a ha
      rcases List.mem_cons.mp ((insBy_perm f x t).subset ha) with rfl | ha
      · omega
      · exact h.1 a ha

theorem sortBy_pairwise (f : Nat → Int) (l : List Nat) : (sortBy f l).Pairwise (fun a b => f a ≤ f b) := by
  induction l with
  | nil => simp [sortBy]
  | cons x t ih => exact insBy_pairwise f x _ ih

/-! ### counting the backlog -/

theorem countP_split {α : Type} (P Q : α → Bool) (l : List α) :
    l.countP P = l.countP (fun a => P a && Q a) + l.countP (fun a => P a && !Q a) := by
  induction l with
  | nil => rfl
  | cons a t ih =>
    simp only [List.countP_cons, ih]
    cases P a <;> cases Q a <;> simp <;> omega

theorem countP_keys_mem {α : Type} (l : AList Nat α) (hn : AList.NoDupKeys l) (ids : List Nat)
    (hnd : ids.Nodup) (hsub : ∀ id ∈ ids, id ∈ AList.keys l) :
    l.countP (fun p => decide (p.1 ∈ ids)) = ids.length := by
  have h1 : l.countP (fun p => decide (p.1 ∈ ids)) = (AList.keys l).countP (fun k => decide (k ∈ ids)) := by
    simp only [AList.keys, List.countP_map]; rfl
  rw [h1, List.countP_eq_length_filter]
  apply List.Perm.length_eq
  rw [List.perm_ext_iff_of_nodup (List.Nodup.sublist List.filter_sublist hn) hnd]
  intro a
  simp only [List.mem_filter, decide_eq_true_eq]
  exact ⟨fun h => h.2, fun h => ⟨hsub a h, h⟩⟩

theorem sb_of_mem {s : St} (hn : AList.NoDupKeys s.buf) {p : Nat × Tr} (hp : p ∈ s.buf) :
    sb s p.1 = p.2.sendBy := by
  have : AList.get s.buf p.1 = some p.2 := AList.get_of_mem hn hp
  simp [sb, this]

theorem countP_del {α : Type} (P : Nat × α → Bool) (l : AList Nat α) (hn : AList.NoDupKeys l) (k : Nat) :
    l.countP P = (AList.del l k).countP P +
      (match AList.get l k with | some v => if P (k, v) then 1 else 0 | none => 0) := by
  induction l with
  | nil => simp [AList.del]
  | cons p t ih =>
    obtain ⟨a, b⟩ := p
    simp only [AList.NoDupKeys, AList.keys, List.map_cons, List.nodup_cons] at hn
    have ih' := ih hn.2
    by_cases hak : a = k
    · subst hak
      have hnone : AList.get t a = none := (AList.get_eq_none_iff t a).mpr hn.1
      have hdel : AList.del ((a, b) :: t) a = AList.del t a := by simp [AList.del]
      rw [hdel, AList.get_cons]
      rw [hnone] at ih'
      simp only [if_true, List.countP_cons]
      rw [ih']; simp
    · have hdel : AList.del ((a, b) :: t) k = (a, b) :: AList.del t k := by simp [AList.del, hak]
      rw [hdel, AList.get_cons]
      simp only [hak, if_false, List.countP_cons]
      rw [ih']; omega

theorem backlog_removeIds_le (s : St) (ids : List Nat) (D : Int) :
    backlog (removeIds s ids) D ≤ backlog s D := by
  simp only [backlog, removeIds]
  exact List.Sublist.countP_le List.filter_sublist

theorem lower_cases (P : Prop) [Decidable P] (upd : Int) (tr1 : Tr) :
    (if P ∧ upd < tr1.sendBy then { tr1 with sendBy := upd } else tr1).sendBy = tr1.sendBy ∨
    ((if P ∧ upd < tr1.sendBy then { tr1 with sendBy := upd } else tr1).sendBy = upd ∧ upd < tr1.sendBy) := by
  split
  · next h => exact Or.inr ⟨rfl, h.2⟩
  · exact Or.inl rfl

/-- `addSpan` stores the trace with its `SendBy` unchanged or lowered to an instant `≥ now` -/
theorem addSpan_sendBy (s : St) (id : Nat) (tr : Tr) (root : Bool) (size : Nat) :
    ∃ tr2, (addSpan s id tr root size).1.buf = AList.put s.buf id tr2 ∧
      (tr2.sendBy = tr.sendBy ∨ (s.now ≤ tr2.sendBy ∧ tr2.sendBy < tr.sendBy)) := by
  have hd := effDelay_pos s.cfg
  refine ⟨_, rfl, ?_⟩
  rcases lower_cases ((root || decide (0 < s.cfg.spanLimit ∧ s.cfg.spanLimit < tr.count + 1)) = true)
      (s.now + (if decide (0 < s.cfg.spanLimit ∧ s.cfg.spanLimit < tr.count + 1) = true then 0 else s.cfg.effDelay))
      { tr with count := tr.count + 1, size := tr.size + size, hasRoot := tr.hasRoot || root }
    with h | ⟨h1, h2⟩
  · exact Or.inl h
  · right
    refine ⟨?_, by rw [h1]; exact h2⟩
    rw [h1]
    split <;> omega

theorem backlog_addSpan_le (s : St) (hwf : AList.NoDupKeys s.buf) (D : Int) (hD : D < s.now)
    (id : Nat) (tr : Tr) (root : Bool) (size : Nat)
    (hold : match AList.get s.buf id with | some t => t = tr | none => D < tr.sendBy) :
    backlog (addSpan s id tr root size).1 D ≤ backlog s D := by
  obtain ⟨tr2, hbuf, hsb⟩ := addSpan_sendBy s id tr root size
  simp only [backlog]
  rw [hbuf]
  simp only [AList.put, List.countP_cons]
  rw [countP_del (fun p => decide (p.2.sendBy ≤ D)) s.buf hwf id]
  cases hg : AList.get s.buf id with
  | none =>
    rw [hg] at hold
    simp only at hold ⊢
    have : ¬ tr2.sendBy ≤ D := by omega
    simp [this]
  | some t =>
    rw [hg] at hold
    simp only at hold ⊢
    subst hold
    by_cases h : tr2.sendBy ≤ D
    · have : t.sendBy ≤ D := by omega
      simp [h, this]
    · simp [h]

theorem step_now_le (s : St) (o : Op) : s.now ≤ (step s o).1.now := by
  cases o with
  | adv d => simp [step]; omega
  | span id root size kind =>
    simp only [step, processSpan]
    split
    · exact Int.le_refl _
    · split <;> exact Int.le_refl _
  | tick taken => simp only [step, tick]; split <;> exact Int.le_refl _
  | eject b i o a => simp only [step, eject]; split <;> exact Int.le_refl _


/-! ### the sorted-list priority queue and the loop of `TakeExpiredTraces` -/

abbrev PQ := List (Nat × Int)
def PQ.Sorted (q : PQ) : Prop := q.Pairwise (fun a b => a.2 ≤ b.2)

theorem pqInsert_perm (k : Nat) (p : Int) (q : PQ) : (pqInsert k p q).Perm ((k, p) :: q) := by
  induction q with
  | nil => simp [pqInsert]
  | cons e t ih =>
    obtain ⟨k', p'⟩ := e
    unfold pqInsert
    split
    · exact List.Perm.refl _
    · exact (List.Perm.cons _ ih).trans (List.Perm.swap _ _ _)

theorem pqInsert_sorted (k : Nat) (p : Int) (q : PQ) (h : PQ.Sorted q) : PQ.Sorted (pqInsert k p q) := by
  induction q with
  | nil => simp [pqInsert, PQ.Sorted]
  | cons e t ih =>
    obtain ⟨k', p'⟩ := e
    unfold PQ.Sorted at h ih ⊢
    rw [List.pairwise_cons] at h
    unfold pqInsert
    split
    · rename_i hlt
      rw [List.pairwise_cons]
      refine ⟨?_, List.pairwise_cons.mpr h⟩
      intro a ha
      rcases List.mem_cons.mp ha with rfl | ha
      · simp only; omega
      · have := h.1 a ha; simp only at this ⊢; omega
    · rename_i hnlt
      rw [List.pairwise_cons]
      refine ⟨?_, ih h.2⟩
      intro a ha
      rcases List.mem_cons.mp ((pqInsert_perm k p t).subset ha) with rfl | ha
      · simp only; omega
      · exact h.1 a ha

theorem pqOfBuf_perm (buf : AList Nat Tr) : (pqOfBuf buf).Perm (buf.map (fun x => (x.1, x.2.sendBy))) := by
  induction buf with
  | nil => simp [pqOfBuf]
  | cons e t ih =>
    obtain ⟨id, tr⟩ := e
    simp only [pqOfBuf, List.map_cons]
    exact (pqInsert_perm _ _ _).trans (List.Perm.cons _ ih)

theorem pqOfBuf_sorted (buf : AList Nat Tr) : PQ.Sorted (pqOfBuf buf) := by
  induction buf with
  | nil => simp [pqOfBuf, PQ.Sorted]
  | cons e t ih =>
    obtain ⟨id, tr⟩ := e
    exact pqInsert_sorted _ _ _ ih

def cap (max : Option Nat) (n len : Nat) : Nat :=
  match max with
  | none => len
  | some m => m - n

theorem takeLoop_eq (now : Int) (max : Option Nat) (q : PQ) (n : Nat) :
    takeLoop now max q n =
      (((q.takeWhile (fun e => decide (e.2 ≤ now))).take (cap max n q.length)).map (·.1)) := by
  induction q generalizing n with
  | nil => simp [takeLoop]
  | cons e t ih =>
    obtain ⟨k, p⟩ := e
    cases max with
    | none =>
      simp only [takeLoop, cap, if_true, List.length_cons]
      by_cases hp : now < p
      · have : ¬ p ≤ now := by omega
        simp [hp, this]
      · have hle : p ≤ now := by omega
        simp only [hp, if_false, List.takeWhile_cons, hle, decide_true, if_true, List.take_succ_cons,
          List.map_cons]
        rw [ih (n + 1)]
        simp [cap]
    | some m =>
      simp only [takeLoop, cap]
      by_cases hn : n < m
      · simp only [hn, decide_true, if_true]
        by_cases hp : now < p
        · have : ¬ p ≤ now := by omega
          simp [hp, this]
        · have hle : p ≤ now := by omega
          have hc : m - n = (m - (n + 1)) + 1 := by omega
          simp only [hp, if_false, List.takeWhile_cons, hle, decide_true, if_true, hc,
            List.take_succ_cons, List.map_cons]
          rw [ih (n + 1)]
          simp [cap]
      · have hc : m - n = 0 := by omega
        simp [hn, hc]

theorem mem_takeWhile_of_sorted (now : Int) (q : PQ) (hs : PQ.Sorted q) (e : Nat × Int)
    (he : e ∈ q) (hle : e.2 ≤ now) : e ∈ q.takeWhile (fun e => decide (e.2 ≤ now)) := by
  induction q with
  | nil => cases he
  | cons a t ih =>
    unfold PQ.Sorted at hs ih
    rw [List.pairwise_cons] at hs
    by_cases ha : a.2 ≤ now
    · simp only [List.takeWhile_cons, ha, decide_true, if_true]
      rcases List.mem_cons.mp he with rfl | het
      · exact List.mem_cons_self
      · exact List.mem_cons_of_mem _ (ih hs.2 het)
    · rcases List.mem_cons.mp he with rfl | het
      · exact absurd hle ha
      · have := hs.1 e het; omega

theorem length_takeWhile_of_sorted (now : Int) (q : PQ) (hs : PQ.Sorted q) :
    (q.takeWhile (fun e => decide (e.2 ≤ now))).length = q.countP (fun e => decide (e.2 ≤ now)) := by
  induction q with
  | nil => rfl
  | cons a t ih =>
    unfold PQ.Sorted at hs ih
    rw [List.pairwise_cons] at hs
    by_cases ha : a.2 ≤ now
    · simp only [List.takeWhile_cons, ha, decide_true, if_true, List.length_cons, List.countP_cons]
      rw [ih hs.2]
    · have hz : t.countP (fun e => decide (e.2 ≤ now)) = 0 := by
        rw [List.countP_eq_zero]
        intro e he
        have := hs.1 e he
        simp only [decide_eq_true_eq]; omega
      simp [ha, hz]

theorem mem_pq_iff {s : St} (hwf : AList.NoDupKeys s.buf) (k : Nat) (p : Int) :
    (k, p) ∈ pqOfBuf s.buf ↔ ∃ tr, AList.get s.buf k = some tr ∧ tr.sendBy = p := by
  rw [(pqOfBuf_perm s.buf).mem_iff]
  simp only [List.mem_map, Prod.mk.injEq]
  constructor
  · rintro ⟨⟨id, tr⟩, hm, h1, h2⟩
    simp only at h1 h2; subst h1
    exact ⟨tr, AList.get_of_mem hwf hm, h2⟩
  · rintro ⟨tr, hg, h2⟩
    exact ⟨(k, tr), AList.mem_of_get hg, rfl, h2⟩

theorem pq_keys_nodup {s : St} (hwf : AList.NoDupKeys s.buf) : ((pqOfBuf s.buf).map (·.1)).Nodup := by
  have hp : ((pqOfBuf s.buf).map (·.1)).Perm (AList.keys s.buf) := by
    have := (pqOfBuf_perm s.buf).map (·.1)
    simpa [AList.keys, List.map_map, Function.comp_def] using this
  exact hp.nodup_iff.mpr hwf


/-! ### reference implementation of `sendTracesEarly` -/

/-- the loop of `sendTracesEarly` over the impact-sorted traces: decide, add the data size, stop
as soon as the released size exceeds `bytes` -/
def ejectLoop (s : St) (bytes : Nat) : List Nat → Nat → List Nat
  | [], _ => []
  | id :: t, sum =>
    if bytes < sum + sizeOf s id then [id] else id :: ejectLoop s bytes t (sum + sizeOf s id)

/-- reference implementation of `sendTracesEarly`: sort by impact, heaviest first, then the loop -/
def ejectRef (s : St) (bytes : Nat) (imp : AList Nat Nat) : List Nat :=
  ejectLoop s bytes (sortBy (fun id => -((impOf imp id : Nat) : Int)) (AList.keys s.buf)) 0

theorem ejectLoop_spec (s : St) (bytes : Nat) (L : List Nat) (sum : Nat) (hsum : sum ≤ bytes) :
    ∃ k, ejectLoop s bytes L sum = L.take k ∧ k ≤ L.length ∧
      (∀ j, j < k → sum + sizeSum s (L.take j) ≤ bytes) ∧
      (bytes < sum + sizeSum s (L.take k) ∨ k = L.length) := by
  induction L generalizing sum with
  | nil => exact ⟨0, by simp [ejectLoop], by simp, by intro j hj; omega, Or.inr rfl⟩
  | cons id t ih =>
    unfold ejectLoop
    by_cases hgt : bytes < sum + sizeOf s id
    · refine ⟨1, by simp [hgt], by simp, ?_, Or.inl ?_⟩
      · intro j hj
        have : j = 0 := by omega
        subst this
        simp [sizeSum]; omega
      · simp [sizeSum]; exact hgt
    · obtain ⟨k, hk1, hk2, hk3, hk4⟩ := ih (sum + sizeOf s id) (by omega)
      refine ⟨k + 1, by simp [hgt, hk1], by simp; omega, ?_, ?_⟩
      · intro j hj
        cases j with
        | zero => simp [sizeSum]; omega
        | succ j' =>
          have := hk3 j' (by omega)
          simp only [List.take_succ_cons, sizeSum, List.map_cons, List.sum_cons] at this ⊢
          omega
      · rcases hk4 with h | h
        · left
          simp only [List.take_succ_cons, sizeSum, List.map_cons, List.sum_cons] at h ⊢
          omega
        · right; simp [h]

end Refinery.Lemmas.Deadline
