import Refinery.Model.Deadline
/-!
Helper lemmas and the simulation invariant shared by C03 and C07 (`Model/Deadline.lean`).
-/
namespace Refinery.Lemmas.Deadline
open Refinery Refinery.Model.Deadline

/-! ### association lists filtered by a predicate on keys -/

theorem get_filter_key {α : Type} (l : AList Nat α) (q : Nat → Bool) (k : Nat) :
    AList.get (l.filter (fun p => q p.1)) k = if q k then AList.get l k else none := by
  induction l with
  | nil => simp
  | cons p t ih =>
    obtain ⟨a, b⟩ := p
    simp only [List.filter_cons]
    by_cases hq : q a = true
    · simp only [hq, if_true, AList.get_cons]
      by_cases hak : a = k
      · subst hak; simp [hq]
      · simp only [hak, if_false]; exact ih
    · simp only [hq]
      rw [AList.get_cons]
      by_cases hak : a = k
      · subst hak; simp [hq] at ih ⊢; exact ih
      · simp only [hak, if_false]; exact ih

theorem keys_filter_key {α : Type} (l : AList Nat α) (q : Nat → Bool) :
    AList.keys (l.filter (fun p => q p.1)) = (AList.keys l).filter q := by
  induction l with
  | nil => rfl
  | cons p t ih =>
    obtain ⟨a, b⟩ := p
    simp only [List.filter_cons, AList.keys, List.map_cons] at ih ⊢
    by_cases hq : q a = true <;> simp [hq, ih]

/-! ### constants measured from the code -/

theorem fallbackTimeout_pos : (0 : Int) < Gen.Deadline.fallbackTraceTimeout := by decide
theorem fallbackDelay_pos : (0 : Int) < Gen.Deadline.fallbackSendDelay := by decide

theorem effTimeout_pos (c : Cfg) : 0 < c.effTimeout := by
  unfold Cfg.effTimeout
  split
  · exact fallbackTimeout_pos
  · omega

theorem effDelay_pos (c : Cfg) : 0 < c.effDelay := by
  unfold Cfg.effDelay
  split
  · exact fallbackDelay_pos
  · omega

/-! ### the state machine keeps its configuration and key-distinctness -/

theorem addSpan_cfg (s : St) (id : Nat) (tr : Tr) (root : Bool) (size : Nat) :
    (addSpan s id tr root size).1.cfg = s.cfg := rfl

theorem step_cfg (s : St) (o : Op) : (step s o).1.cfg = s.cfg := by
  cases o with
  | adv d => rfl
  | span id root size =>
    simp only [step, processSpan]
    split
    · rfl
    · split <;> rfl
  | tick taken =>
    simp only [step, tick]
    split <;> rfl
  | eject bytes imp order =>
    simp only [step, eject]
    split <;> rfl

theorem runFrom_cfg (s : St) (ops : List Op) : (runFrom s ops).cfg = s.cfg := by
  induction ops generalizing s with
  | nil => rfl
  | cons o os ih => simp only [runFrom, List.foldl_cons] at ih ⊢; rw [ih, step_cfg]

theorem addSpan_buf (s : St) (id : Nat) (tr : Tr) (root : Bool) (size : Nat) :
    ∃ tr2, (addSpan s id tr root size).1.buf = AList.put s.buf id tr2 := ⟨_, rfl⟩

theorem step_nodup (s : St) (o : Op) (h : AList.NoDupKeys s.buf) : AList.NoDupKeys (step s o).1.buf := by
  cases o with
  | adv d => exact h
  | span id root size =>
    simp only [step, processSpan]
    split
    · exact AList.nodup_put _ h _ _
    · split
      · exact h
      · exact AList.nodup_put _ h _ _
  | tick taken =>
    simp only [step, tick]
    split
    · exact AList.nodup_filter _ h _
    · exact h
  | eject bytes imp order =>
    simp only [step, eject]
    split
    · exact AList.nodup_filter _ h _
    · exact h

theorem runFrom_nodup (s : St) (ops : List Op) (h : AList.NoDupKeys s.buf) :
    AList.NoDupKeys (runFrom s ops).buf := by
  induction ops generalizing s with
  | nil => exact h
  | cons o os ih => simp only [runFrom, List.foldl_cons] at ih ⊢; exact ih _ (step_nodup s o h)

theorem run_nodup (c : Cfg) (ops : List Op) : AList.NoDupKeys (run c ops).buf :=
  runFrom_nodup _ ops AList.nodup_nil

/-! ### membership in `expiredIds` -/

theorem mem_expiredIds {s : St} (hn : AList.NoDupKeys s.buf) {id : Nat} :
    id ∈ expiredIds s ↔ ∃ tr, AList.get s.buf id = some tr ∧ tr.sendBy ≤ s.now := by
  unfold expiredIds
  simp only [List.mem_map, List.mem_filter, decide_eq_true_eq]
  constructor
  · rintro ⟨⟨k, tr⟩, ⟨hmem, hle⟩, rfl⟩
    exact ⟨tr, AList.get_of_mem hn hmem, hle⟩
  · rintro ⟨tr, hg, hle⟩
    exact ⟨(id, tr), ⟨AList.mem_of_get hg, hle⟩, rfl⟩

theorem expiredIds_nodup {s : St} (hn : AList.NoDupKeys s.buf) : (expiredIds s).Nodup := by
  unfold expiredIds
  exact AList.nodup_filter _ hn _

/-! ### the simulation invariant between a worker and the arrival history -/

/-- what ties a buffered trace to its arrival record -/
structure Rel (c : Cfg) (now : Int) (tr : Tr) (a : Arr) : Prop where
  first : tr.first = a.first
  count : tr.count = a.count
  root : tr.hasRoot = a.rootAt.isSome
  firstLe : a.first ≤ now
  rootLe : ∀ r, a.rootAt = some r → r ≤ now
  limLe : ∀ l, a.limitAt = some l → l ≤ now
  limIff : a.limitAt.isSome ↔ (0 < c.spanLimit ∧ c.spanLimit < a.count)
  sendBy : tr.sendBy = documented c a

def Inv (c : Cfg) (s : St) (sp : Spec) : Prop :=
  s.cfg = c ∧ s.now = sp.now ∧ AList.NoDupKeys s.buf ∧
  (∀ id tr, AList.get s.buf id = some tr → id ∉ s.decided ∧ ∃ a, sp.arr id = some a ∧ Rel c s.now tr a) ∧
  (∀ id, AList.get s.buf id = none → sp.arr id ≠ none → id ∈ s.decided)

theorem inv_init (c : Cfg) : Inv c (init c) {} := by
  refine ⟨rfl, rfl, AList.nodup_nil, ?_, ?_⟩
  · intro id tr h; simp [init] at h
  · intro id _ h; simp at h

theorem rel_mono {c : Cfg} {now now' : Int} {tr : Tr} {a : Arr} (h : Rel c now tr a) (hle : now ≤ now') :
    Rel c now' tr a :=
  { h with
    firstLe := by have := h.firstLe; omega
    rootLe := fun r hr => by have := h.rootLe r hr; omega
    limLe := fun l hl => by have := h.limLe l hl; omega }

/-- arithmetic core: lowering `SendBy` to `upd` when marked keeps it equal to the documented deadline -/
theorem doc_step (c : Cfg) (now : Int) (a : Arr) (root : Bool)
    (hd : 0 < c.effDelay)
    (h5 : ∀ r, a.rootAt = some r → r ≤ now)
    (h6 : ∀ l, a.limitAt = some l → l ≤ now)
    (h7 : a.limitAt.isSome ↔ (0 < c.spanLimit ∧ c.spanLimit < a.count))
    (over : Bool) (hover : over = true ↔ (0 < c.spanLimit ∧ c.spanLimit < a.count + 1)) :
    (if (root || over) = true then min (documented c a) (now + (if over = true then 0 else c.effDelay))
      else documented c a) =
    documented c
      { first := a.first, count := a.count + 1,
        rootAt := if root ∧ a.rootAt = none then some now else a.rootAt,
        limitAt := if 0 < c.spanLimit ∧ c.spanLimit < a.count + 1 ∧ a.limitAt = none then some now
                   else a.limitAt } := by
  cases hr : a.rootAt with
  | none =>
    cases hl : a.limitAt with
    | none =>
      have hno : ¬ (0 < c.spanLimit ∧ c.spanLimit < a.count) := by
        intro ho; have := h7.mpr ho; simp [hl] at this
      by_cases ho : (0 < c.spanLimit ∧ c.spanLimit < a.count + 1)
      · have hov : over = true := hover.mpr ho
        cases root <;> simp [documented, hr, hl, ho, hov] <;> omega
      · have hov : over = false := by
          cases hb : over
          · rfl
          · exact absurd (hover.mp hb) ho
        cases root <;> simp [documented, hr, hl, ho, hov]
    | some l =>
      have hl_le := h6 l hl
      have hold : (0 < c.spanLimit ∧ c.spanLimit < a.count) := h7.mp (by simp [hl])
      have ho : (0 < c.spanLimit ∧ c.spanLimit < a.count + 1) := ⟨hold.1, by omega⟩
      have hov : over = true := hover.mpr ho
      cases root <;> simp [documented, hr, hl, hov] <;> omega
  | some r =>
    have hr_le := h5 r hr
    cases hl : a.limitAt with
    | none =>
      have hno : ¬ (0 < c.spanLimit ∧ c.spanLimit < a.count) := by
        intro ho; have := h7.mpr ho; simp [hl] at this
      by_cases ho : (0 < c.spanLimit ∧ c.spanLimit < a.count + 1)
      · have hov : over = true := hover.mpr ho
        cases root <;> simp [documented, hr, hl, ho, hov] <;> omega
      · have hov : over = false := by
          cases hb : over
          · rfl
          · exact absurd (hover.mp hb) ho
        cases root <;> simp [documented, hr, hl, ho, hov] <;> omega
    | some l =>
      have hl_le := h6 l hl
      have hold : (0 < c.spanLimit ∧ c.spanLimit < a.count) := h7.mp (by simp [hl])
      have ho : (0 < c.spanLimit ∧ c.spanLimit < a.count + 1) := ⟨hold.1, by omega⟩
      have hov : over = true := hover.mpr ho
      cases root <;> simp [documented, hr, hl, hov] <;> omega

/-- the heart of C03: one span arrival keeps `SendBy` equal to the documented deadline -/
theorem rel_addSpan (c : Cfg) (now : Int) (tr : Tr) (a : Arr) (root : Bool) (size : Nat)
    (h : Rel c now tr a) :
    let tr1 : Tr := { tr with count := tr.count + 1, size := tr.size + size, hasRoot := tr.hasRoot || root }
    let over : Bool := decide (0 < c.spanLimit ∧ c.spanLimit < tr1.count)
    let upd : Int := now + (if over then 0 else c.effDelay)
    let tr2 : Tr := if (root || over) ∧ upd < tr1.sendBy then { tr1 with sendBy := upd } else tr1
    Rel c now tr2
      { first := a.first, count := a.count + 1,
        rootAt := if root ∧ a.rootAt = none then some now else a.rootAt,
        limitAt := if 0 < c.spanLimit ∧ c.spanLimit < a.count + 1 ∧ a.limitAt = none then some now
                   else a.limitAt } := by
  intro tr1 over upd tr2
  have hd := effDelay_pos c
  obtain ⟨h1, h2, h3, h4, h5, h6, h7, h8⟩ := h
  have hcount : tr2.count = a.count + 1 := by
    simp only [tr2, tr1]; split <;> simp [h2]
  have hfirst : tr2.first = a.first := by
    simp only [tr2, tr1]; split <;> simp [h1]
  have hroot : tr2.hasRoot = (tr.hasRoot || root) := by
    simp only [tr2, tr1]; split <;> simp
  have hover : over = true ↔ (0 < c.spanLimit ∧ c.spanLimit < a.count + 1) := by
    simp only [over, tr1, h2, decide_eq_true_eq]
  have hsb2 : tr2.sendBy = if (root || over) = true then min tr.sendBy upd else tr.sendBy := by
    simp only [tr2, tr1]
    by_cases hm : (root || over) = true
    · by_cases hu : upd < tr.sendBy
      · simp only [hm, hu, and_self, if_true]; omega
      · simp only [hm, hu, and_false, if_false, if_true]; omega
    · simp [hm]
  refine ⟨hfirst, hcount, ?_, h4, ?_, ?_, ?_, ?_⟩
  · rw [hroot, h3]
    cases hr : a.rootAt <;> cases root <;> simp
  · intro r hr
    by_cases hc : root = true ∧ a.rootAt = none
    · simp only [hc, and_self, if_true, Option.some.injEq] at hr; omega
    · simp only [hc, if_false] at hr; exact h5 r hr
  · intro l hl
    by_cases hc : 0 < c.spanLimit ∧ c.spanLimit < a.count + 1 ∧ a.limitAt = none
    · simp only [hc, and_self, if_true, Option.some.injEq] at hl; omega
    · simp only [hc, if_false] at hl; exact h6 l hl
  · by_cases hc : 0 < c.spanLimit ∧ c.spanLimit < a.count + 1 ∧ a.limitAt = none
    · simp only [hc, and_self, if_true, Option.isSome_some, true_iff]
    · simp only [hc, if_false]
      constructor
      · intro hs
        have := h7.mp hs
        exact ⟨this.1, by omega⟩
      · intro ho
        cases hl : a.limitAt with
        | none => exact absurd ⟨ho.1, ho.2, hl⟩ hc
        | some l => simp
  · rw [hsb2, h8]
    exact doc_step c now a root hd h5 h6 h7 over hover

theorem inv_removeIds {c : Cfg} {s : St} {sp : Spec} (h : Inv c s sp) (ids : List Nat) :
    Inv c (removeIds s ids) sp := by
  obtain ⟨h1, h2, h3, h4, h5⟩ := h
  refine ⟨h1, h2, AList.nodup_filter _ h3 _, ?_, ?_⟩
  · intro id tr hg
    simp only [removeIds] at hg ⊢
    rw [get_filter_key s.buf (fun k => decide (k ∉ ids)) id] at hg
    by_cases hin : id ∈ ids
    · simp [hin] at hg
    · simp only [hin, not_false_eq_true, decide_true, if_true] at hg
      obtain ⟨hnd, a, ha, hrel⟩ := h4 id tr hg
      exact ⟨by simp [hin, hnd], a, ha, hrel⟩
  · intro id hg harr
    simp only [removeIds] at hg ⊢
    rw [get_filter_key s.buf (fun k => decide (k ∉ ids)) id] at hg
    by_cases hin : id ∈ ids
    · simp [hin]
    · simp only [hin, not_false_eq_true, decide_true, if_true] at hg
      simp [h5 id hg harr]

theorem inv_addSpan {c : Cfg} {s : St} {sp : Spec} (h : Inv c s sp) (id : Nat) (tr : Tr) (a : Arr)
    (root : Bool) (size : Nat) (hnd : id ∉ s.decided) (hrel : Rel c s.now tr a)
    (harr : sp.arrOf id = a) :
    Inv c (addSpan s id tr root size).1 (Spec.step c sp (.span id root size)) := by
  obtain ⟨h1, h2, h3, h4, h5⟩ := h
  have hr := rel_addSpan c s.now tr a root size hrel
  simp only at hr
  refine ⟨h1, h2, AList.nodup_put _ h3 _ _, ?_, ?_⟩
  · intro k trk hg
    simp only [addSpan] at hg ⊢
    rw [AList.get_put] at hg
    by_cases hk : id = k
    · subst hk
      simp only [if_true, Option.some.injEq] at hg
      refine ⟨hnd, ?_⟩
      simp only [Spec.step, if_true]
      refine ⟨_, rfl, ?_⟩
      rw [← hg, h1, ← h2, harr]
      exact hr
    · simp only [hk, if_false] at hg
      obtain ⟨hnd', a', ha', hrel'⟩ := h4 k trk hg
      refine ⟨hnd', a', ?_, hrel'⟩
      simp only [Spec.step]
      rw [if_neg (Ne.symm hk)]
      exact ha'
  · intro k hg hne
    simp only [addSpan] at hg ⊢
    rw [AList.get_put] at hg
    by_cases hk : id = k
    · simp [hk] at hg
    · simp only [hk, if_false] at hg
      apply h5 k hg
      simp only [Spec.step] at hne
      rw [if_neg (Ne.symm hk)] at hne
      exact hne

theorem inv_step {c : Cfg} {s : St} {sp : Spec} (h : Inv c s sp) (o : Op) :
    Inv c (step s o).1 (Spec.step c sp o) := by
  cases o with
  | adv d =>
    obtain ⟨h1, h2, h3, h4, h5⟩ := h
    refine ⟨h1, by simp [step, Spec.step, h2], h3, ?_, h5⟩
    intro id tr hg
    obtain ⟨hnd, a, ha, hrel⟩ := h4 id tr hg
    exact ⟨hnd, a, ha, rel_mono hrel (by simp [step]; omega)⟩
  | span id root size =>
    have h' := h
    obtain ⟨h1, h2, h3, h4, h5⟩ := h
    simp only [step, processSpan]
    cases hg : AList.get s.buf id with
    | some tr =>
      obtain ⟨hnd, a, ha, hrel⟩ := h4 id tr hg
      exact inv_addSpan h' id tr a root size hnd hrel (by simp [Spec.arrOf, ha])
    | none =>
      by_cases hdec : id ∈ s.decided
      · simp only [hdec, if_true]
        refine ⟨h1, h2, h3, ?_, ?_⟩
        · intro k trk hgk
          obtain ⟨hnd, a, ha, hrel⟩ := h4 k trk hgk
          refine ⟨hnd, a, ?_, hrel⟩
          have hk : k ≠ id := by intro e; subst e; rw [hg] at hgk; cases hgk
          simp only [Spec.step]
          rw [if_neg hk]; exact ha
        · intro k hgk hne
          by_cases hk : k = id
          · subst hk; exact hdec
          · apply h5 k hgk
            simp only [Spec.step] at hne
            rw [if_neg hk] at hne; exact hne
      · simp only [hdec, if_false]
        have hnone : sp.arr id = none := by
          cases ha : sp.arr id with
          | none => rfl
          | some a => exact absurd (h5 id hg (by simp [ha])) hdec
        have ht := effTimeout_pos c
        refine inv_addSpan h' id _ { first := sp.now, rootAt := none, limitAt := none, count := 0 }
          root size hdec ?_ (by simp [Spec.arrOf, hnone])
        refine ⟨h2, rfl, rfl, (by simp [h2]), (fun r hr => by cases hr), (fun l hl => by cases hl), ?_, ?_⟩
        · simp
        · simp [documented, h1, h2]
  | tick taken =>
    simp only [step, tick]
    split
    · exact inv_removeIds h taken
    · exact h
  | eject bytes imp order =>
    simp only [step, eject]
    split
    · exact inv_removeIds h order
    · exact h

theorem inv_runFrom {c : Cfg} {s : St} {sp : Spec} (h : Inv c s sp) (ops : List Op) :
    Inv c (runFrom s ops) (Spec.runFrom c sp ops) := by
  induction ops generalizing s sp with
  | nil => exact h
  | cons o os ih =>
    simp only [runFrom, Spec.runFrom, List.foldl_cons] at ih ⊢
    exact ih (inv_step h o)

/-- the invariant holds in every reachable state -/
theorem inv_run (c : Cfg) (ops : List Op) : Inv c (run c ops) (Spec.run c ops) :=
  inv_runFrom (inv_init c) ops


/-! ### small facts about the step functions -/

theorem lower_le (P : Prop) [Decidable P] (upd : Int) (tr1 : Tr) :
    (if P ∧ upd < tr1.sendBy then { tr1 with sendBy := upd } else tr1).sendBy ≤ tr1.sendBy := by
  split
  · next h => simp only; omega
  · exact Int.le_refl _

theorem mem_sentOf {s : St} {f : Tr → Reason} {ids : List Nat} {x : Sent} (hx : x ∈ sentOf s f ids) :
    x.1 ∈ ids ∧ ∃ tr, AList.get s.buf x.1 = some tr ∧ x = (x.1, f tr, tr.count) := by
  simp only [sentOf, List.mem_filterMap] at hx
  obtain ⟨id, hid, hm⟩ := hx
  cases hg : AList.get s.buf id with
  | none => simp [hg] at hm
  | some tr =>
    simp only [hg, Option.map_some, Option.some.injEq] at hm
    subst hm
    exact ⟨hid, tr, hg, rfl⟩

theorem tick_accepted {s : St} {taken : List Nat} {l : List Sent} {left : List Nat}
    (h : (step s (.tick taken)).2 = .sent l left) :
    ValidTake s taken ∧ l = sentOf s (reasonOf s.cfg) taken ∧
      (step s (.tick taken)).1 = removeIds s taken := by
  simp only [step, tick] at h ⊢
  split at h
  · rename_i hv
    simp only [Out.sent.injEq] at h
    simp [hv, h.1]
  · cases h

/-- insertion sort of ids by a key (only used to exhibit a deadline-sorted order) -/
def insBy (f : Nat → Int) (x : Nat) : List Nat → List Nat
  | [] => [x]
  | y :: t => if f x ≤ f y then x :: y :: t else y :: insBy f x t

def sortBy (f : Nat → Int) : List Nat → List Nat
  | [] => []
  | x :: t => insBy f x (sortBy f t)

theorem insBy_perm (f : Nat → Int) (x : Nat) (l : List Nat) : (insBy f x l).Perm (x :: l) := by
  induction l with
  | nil => simp [insBy]
  | cons z t ih =>
    unfold insBy
    split
    · exact List.Perm.refl _
    · exact (List.Perm.cons z ih).trans (List.Perm.swap x z t)

theorem sortBy_perm (f : Nat → Int) (l : List Nat) : (sortBy f l).Perm l := by
  induction l with
  | nil => simp [sortBy]
  | cons x t ih => exact (insBy_perm f x _).trans (List.Perm.cons x ih)

theorem insBy_pairwise (f : Nat → Int) (x : Nat) (l : List Nat)
    (h : l.Pairwise (fun a b => f a ≤ f b)) : (insBy f x l).Pairwise (fun a b => f a ≤ f b) := by
  induction l with
  | nil => simp [insBy]
  | cons z t ih =>
    unfold insBy
    rw [List.pairwise_cons] at h
    split
    · rename_i hxz
      rw [List.pairwise_cons]
      refine ⟨?_, List.pairwise_cons.mpr h⟩
      intro a ha
      rcases List.mem_cons.mp ha with rfl | ha
      · exact hxz
      · exact Int.le_trans hxz (h.1 a ha)
    · rename_i hxz
      rw [List.pairwise_cons]
      refine ⟨?_, ih h.2⟩
      intro a ha
      rcases List.mem_cons.mp ((insBy_perm f x t).subset ha) with rfl | ha
      · omega
      · exact h.1 a ha

theorem sortBy_pairwise (f : Nat → Int) (l : List Nat) : (sortBy f l).Pairwise (fun a b => f a ≤ f b) := by
  induction l with
  | nil => simp [sortBy]
  | cons x t ih => exact insBy_pairwise f x _ ih

end Refinery.Lemmas.Deadline
