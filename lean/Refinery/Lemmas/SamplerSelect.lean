import Refinery.Model.SamplerSelect
/-!
Helper lemmas for C14 (`Props/C14.lean`): the invariants of the request/decision machine and the
fold invariants of `extract` (extractCriticalFieldsFromBytes) and `memoize` (MemoizeFields).
-/
namespace Refinery.Lemmas.SamplerSelect
open Refinery Refinery.Model.SamplerSelect

/-! ## Invariants of the machine -/

/-- What the ingestion site computed for a span is the selection function applied to the triple the
span was handed to the collector with. -/
def SpanOK (c : Cfg) (sp : SpanSt) : Prop :=
  ∀ sel, sp.ingSel = some sel → sel = samplerKey c.pfx sp.key sp.env sp.ds

/-- A buffered trace: every span is `SpanOK`; key and dataset are the first span's; the environment
is the first non-empty environment among its spans. -/
def TraceOK (c : Cfg) (t : TraceSt) : Prop :=
  (∀ sp ∈ t.spans, SpanOK c sp) ∧
  (∃ sp0 rest, t.spans = sp0 :: rest ∧ t.key = sp0.key ∧ t.ds = sp0.ds) ∧
  (t.env = [] → ∀ sp ∈ t.spans, sp.env = []) ∧
  (t.env ≠ [] → ∃ sp ∈ t.spans, sp.env = t.env)

def Inv (c : Cfg) (s : St) : Prop := ∀ tid t, AList.get s.traces tid = some t → TraceOK c t

theorem route_spanOK {c : Cfg} {path : Path} {key : Str} {env : Option Str} {ds : Str}
    {data : List (Str × Val)} {tid : Str} {sp : SpanSt}
    (h : routeSpan c path key env ds data = .span tid sp) : SpanOK c sp := by
  have hm : ∃ e p, sp = mkSpan c path key e ds p := by
    unfold routeSpan at h
    split at h
    · simp at h
    · split at h
      · simp at h
      · rename_i e _
        unfold routeWith at h
        split at h
        · simp at h
        · unfold routeExtract at h
          split at h
          · simp at h
          · split at h
            · simp at h
            · simp only [Routed.span.injEq] at h
              exact ⟨e, _, h.2.symm⟩
  obtain ⟨e, p, rfl⟩ := hm
  intro sel hsel
  simp only [mkSpan] at hsel ⊢
  split at hsel
  · simp at hsel
  · simp only [Option.some.injEq] at hsel
    exact hsel.symm

theorem traceOK_new (c : Cfg) (sp : SpanSt) (h : SpanOK c sp) :
    TraceOK c (addSpan { key := sp.key, env := sp.env, ds := sp.ds } sp) := by
  unfold addSpan
  refine ⟨?_, ⟨sp, [], by simp, rfl, rfl⟩, ?_, ?_⟩
  · intro x hx
    simp at hx
    subst hx
    exact h
  · intro he x hx
    simp at hx
    subst hx
    by_cases h0 : x.env = []
    · exact h0
    · simp [h0] at he
  · intro he
    refine ⟨sp, by simp, ?_⟩
    by_cases h0 : sp.env = [] <;> simp [h0]

theorem traceOK_add (c : Cfg) (t : TraceSt) (sp : SpanSt) (ht : TraceOK c t) (h : SpanOK c sp) :
    TraceOK c (addSpan t sp) := by
  obtain ⟨h1, ⟨sp0, rest, hs, hk, hd⟩, h3, h4⟩ := ht
  unfold addSpan
  refine ⟨?_, ⟨sp0, rest ++ [sp], by simp [hs], hk, hd⟩, ?_, ?_⟩
  · intro x hx
    simp only [List.mem_append, List.mem_singleton] at hx
    rcases hx with hx | rfl
    · exact h1 x hx
    · exact h
  · intro he x hx
    simp only at he
    simp only [List.mem_append, List.mem_singleton] at hx
    by_cases ht0 : t.env = []
    · by_cases hs0 : sp.env = []
      · rcases hx with hx | rfl
        · exact h3 ht0 x hx
        · exact hs0
      · simp [ht0, hs0] at he
    · simp [ht0] at he
  · intro he
    simp only at he ⊢
    by_cases ht0 : t.env = []
    · by_cases hs0 : sp.env = []
      · simp [ht0, hs0] at he
      · refine ⟨sp, by simp, ?_⟩
        simp [ht0, hs0]
    · obtain ⟨x, hx, hxe⟩ := h4 ht0
      refine ⟨x, by simp [hx], ?_⟩
      simp [ht0, hxe]

theorem inv_step (c : Cfg) (s : St) (o : Op) (h : Inv c s) : Inv c (step c s o).1 := by
  cases o with
  | classify k => exact h
  | selkey k e d => exact h
  | lookup n => exact h
  | span path key env ds data =>
    simp only [step]
    cases hr : routeSpan (cur c s) path key env ds data with
    | nosampler => exact h
    | nothing => exact h
    | panic => exact h
    | event => exact h
    | span tid sp =>
      simp only
      by_cases hl : s.decided.contains tid = true
      · simp only [hl, if_true]; exact h
      · simp only [hl]
        intro tid' t' hg
        have hok := route_spanOK hr
        simp only [collectSpan, Bool.false_eq_true, if_false] at hg
        rw [AList.get_put] at hg
        by_cases ht : tid = tid'
        · simp only [ht, if_true, Option.some.injEq] at hg
          subst hg
          cases hgt : AList.get s.traces tid with
          | none => rw [← ht]; simp only [hgt]; exact traceOK_new c sp hok
          | some t => rw [← ht]; simp only [hgt]; exact traceOK_add c t sp (h tid t hgt) hok
        · simp only [ht, if_false] at hg
          exact h tid' t' hg
  | decide tid =>
    by_cases hdft : AList.get (curRules c s) defaultName = none
    · simp only [step, hdft, if_true]; exact h
    simp only [step, hdft, if_false]
    cases hg : AList.get s.traces tid with
    | none => exact h
    | some t =>
      intro tid' t' hg'
      simp only at hg'
      rw [AList.get_del] at hg'
      by_cases ht : tid = tid'
      · simp [ht] at hg'
      · simp only [ht, if_false] at hg'
        exact h tid' t' hg'
  | reload r =>
    simp only [step]
    split <;> exact h

theorem inv_run (c : Cfg) (ops : List Op) : Inv c (run c ops) := by
  unfold run
  have : ∀ (s : St), Inv c s → Inv c (ops.foldl (fun s o => (step c s o).1) s) := by
    induction ops with
    | nil => intro s hs; exact hs
    | cons o t ih => intro s hs; exact ih _ (inv_step c s o hs)
  exact this {} (by intro tid t h; simp at h)


/-- every buffered span's payload is an ingestion result -/
theorem route_span_pay {c : Cfg} {path : Path} {key : Str} {env : Option Str} {ds : Str}
    {data : List (Str × Val)} {tid : Str} {sp : SpanSt}
    (h : routeSpan c path key env ds data = .span tid sp) : ∃ skf, sp.pay = extract c.tids c.pids skf data := by
  unfold routeSpan at h
  split at h
  · simp at h
  · split at h
    · simp at h
    · unfold routeWith at h
      split at h
      · simp at h
      · rename_i skf _
        unfold routeExtract at h
        split at h
        · simp at h
        · split at h
          · simp at h
          · simp only [Routed.span.injEq] at h
            exact ⟨skf, by rw [← h.2]; rfl⟩

theorem spans_inv (c : Cfg) (P : SpanSt → Prop)
    (hP : ∀ r path key env ds data tid sp, routeSpan { c with rules := r } path key env ds data = .span tid sp → P sp)
    (ops : List Op) : ∀ tid t, AList.get (run c ops).traces tid = some t → ∀ sp ∈ t.spans, P sp := by
  unfold run
  have : ∀ (s : St), (∀ tid t, AList.get s.traces tid = some t → ∀ sp ∈ t.spans, P sp) →
      (∀ tid t, AList.get (ops.foldl (fun s o => (step c s o).1) s).traces tid = some t → ∀ sp ∈ t.spans, P sp) := by
    induction ops with
    | nil => intro s hs; exact hs
    | cons o rest ih =>
      intro s hs
      apply ih
      cases o with
      | classify k => exact hs
      | selkey k e d => exact hs
      | lookup n => exact hs
      | span path key env ds data =>
        simp only [step]
        cases hr : routeSpan (cur c s) path key env ds data with
        | nosampler => exact hs
        | nothing => exact hs
        | panic => exact hs
        | event => exact hs
        | span tid sp =>
          simp only
          by_cases hl : s.decided.contains tid = true
          · simp only [hl, if_true]; exact hs
          · simp only [hl]
            intro tid' t' hg x hx
            simp only [collectSpan, Bool.false_eq_true, if_false] at hg
            rw [AList.get_put] at hg
            by_cases ht : tid = tid'
            · simp only [ht, if_true, Option.some.injEq] at hg
              subst hg
              simp only [addSpan, List.mem_append, List.mem_singleton] at hx
              rcases hx with hx | rfl
              · cases hgt : AList.get s.traces tid with
                | none => rw [← ht] at hx; simp [hgt] at hx
                | some t => rw [← ht] at hx; simp only [hgt] at hx; exact hs tid t hgt x hx
              · exact hP _ _ _ _ _ _ _ _ hr
            · simp only [ht, if_false] at hg
              exact hs tid' t' hg x hx
      | decide tid =>
        by_cases hdft : AList.get (curRules c s) defaultName = none
        · simp only [step, hdft, if_true]; exact hs
        simp only [step, hdft, if_false]
        cases hg : AList.get s.traces tid with
        | none => exact hs
        | some t =>
          intro tid' t' hg'
          simp only at hg'
          rw [AList.get_del] at hg'
          by_cases ht : tid = tid'
          · simp [ht] at hg'
          · simp only [ht, if_false] at hg'
            exact hs tid' t' hg'
      | reload r =>
        simp only [step]
        split <;> exact hs
  exact this {} (by intro tid t h; simp at h)


/-! ## `extract` -/

section extract
variable (tids pids skf : List Str)

theorem keyStep_found_le (st : Ex) (k : Str) (v : Val) : st.found ≤ (keyStep skf st k v).found := by
  unfold keyStep; split <;> simp

theorem keyStep_memo_mono (st : Ex) (k : Str) (v : Val) (k' : Str) (h : AList.get st.memo k' ≠ none) :
    AList.get (keyStep skf st k v).memo k' ≠ none := by
  unfold keyStep
  split
  · simp only [AList.get_put]
    split <;> simp_all
  · exact h

theorem exStep_found_le (st : Ex) (kv : Str × Val) : st.found ≤ (exStep tids pids skf st kv).found := by
  unfold exStep
  split
  · split
    · simp
    · split
      · simp
      · exact keyStep_found_le skf st _ _
  · exact keyStep_found_le skf st _ _

theorem exStep_memo_mono (st : Ex) (kv : Str × Val) (k' : Str) (h : AList.get st.memo k' ≠ none) :
    AList.get (exStep tids pids skf st kv).memo k' ≠ none := by
  unfold exStep
  split
  · split
    · exact h
    · split
      · exact h
      · exact keyStep_memo_mono skf st _ _ k' h
  · exact keyStep_memo_mono skf st _ _ k' h

theorem exFold_mono (l : List (Str × Val)) (st : Ex) :
    st.found ≤ (l.foldl (exStep tids pids skf) st).found ∧
    ∀ k', AList.get st.memo k' ≠ none → AList.get (l.foldl (exStep tids pids skf) st).memo k' ≠ none := by
  induction l generalizing st with
  | nil => exact ⟨Nat.le_refl _, fun _ h => h⟩
  | cons kv t ih =>
    simp only [List.foldl_cons]
    have := ih (exStep tids pids skf st kv)
    exact ⟨Nat.le_trans (exStep_found_le tids pids skf st kv) this.1,
      fun k' h => this.2 k' (exStep_memo_mono tids pids skf st kv k' h)⟩

/-- every memoized entry is an entry of the payload, under a selected field -/
theorem exFold_sound (D l : List (Str × Val)) (st : Ex) (hl : ∀ kv ∈ l, kv ∈ D)
    (hq : ∀ k v, AList.get st.memo k = some v → (k, v) ∈ D ∧ k ∈ skf) :
    ∀ k v, AList.get (l.foldl (exStep tids pids skf) st).memo k = some v → (k, v) ∈ D ∧ k ∈ skf := by
  induction l generalizing st with
  | nil => exact hq
  | cons kv t ih =>
    simp only [List.foldl_cons]
    apply ih
    · intro x hx; exact hl x (List.mem_cons_of_mem _ hx)
    · have hks : ∀ v', (∀ k v, AList.get (keyStep skf st kv.1 v').memo k = some v → (k, v) ∈ D ∧ k ∈ skf) ∨ v' ≠ kv.2 := by
        intro v'
        by_cases hv' : v' = kv.2
        · left
          subst hv'
          unfold keyStep
          split
          · rename_i hc
            intro k v hg
            simp only [AList.get_put] at hg
            split at hg
            · rename_i hkk
              simp only [Option.some.injEq] at hg
              subst hg; subst hkk
              exact ⟨hl kv (by simp), hc.2.1⟩
            · exact hq k v hg
          · exact hq
        · right; exact hv'
      unfold exStep
      split
      · rename_i s hs
        split
        · exact hq
        · split
          · exact hq
          · rcases hks kv.2 with h | h
            · exact h
            · exact absurd rfl h
      · rename_i v' hv' 
        rcases hks kv.2 with h | h
        · exact h
        · exact absurd rfl h

/-- a selected field that is present and is not consumed as a trace / parent id is memoized, unless
every selected field had already been found -/
theorem exFold_complete (l : List (Str × Val)) (st : Ex) (k : Str) (v : Val) (hm : (k, v) ∈ l)
    (hid : ∀ s, v = .str s → k ∉ tids ∧ k ∉ pids) (hk : k ∈ skf)
    (hf : (l.foldl (exStep tids pids skf) st).found < skf.length) :
    AList.get (l.foldl (exStep tids pids skf) st).memo k ≠ none := by
  induction l generalizing st with
  | nil => simp at hm
  | cons kv t ih =>
    simp only [List.foldl_cons] at hf ⊢
    rcases List.mem_cons.mp hm with heq | hmt
    · subst heq
      have hmono := exFold_mono tids pids skf t (exStep tids pids skf st (k, v))
      apply hmono.2
      have hst : (exStep tids pids skf st (k, v)) = keyStep skf st k v := by
        unfold exStep
        cases v with
        | str s =>
          have := hid s rfl
          simp [this.1, this.2]
        | int n => rfl
      rw [hst]
      have hlt : st.found < skf.length := by
        have h1 := exStep_found_le tids pids skf st (k, v)
        have h2 := hmono.1
        omega
      unfold keyStep
      by_cases hg : AList.get st.memo k = none
      · simp [hlt, hk, hg, AList.get_put]
      · simp [hg]
    · exact ih _ hmt hf

end extract

theorem extract_memo_sound (tids pids skf : List Str) (data : List (Str × Val)) (k : Str) (v : Val)
    (h : AList.get (extract tids pids skf data).memo k = some v) : (k, v) ∈ data ∧ k ∈ skf := by
  unfold extract at h
  exact exFold_sound tids pids skf data data {} (fun _ h => h) (by intro k v h; simp at h) k v h

theorem extract_missing (tids pids skf : List Str) (data : List (Str × Val)) (k : Str)
    (h : k ∈ (extract tids pids skf data).missing) :
    k ∈ skf ∧ (data.foldl (exStep tids pids skf) {}).found < skf.length := by
  unfold extract at h
  simp only at h
  split at h
  · rename_i hlt
    exact ⟨(List.mem_filter.mp h).1, hlt⟩
  · simp at h

theorem extract_not_missing (tids pids skf : List Str) (data : List (Str × Val)) (k : Str) (v : Val)
    (hm : (k, v) ∈ data) (hid : k ∈ skf → ∀ s, v = .str s → k ∉ tids ∧ k ∉ pids)
    (hnone : AList.get (extract tids pids skf data).memo k = none) :
    k ∉ (extract tids pids skf data).missing := by
  intro hmiss
  obtain ⟨hk, hlt⟩ := extract_missing tids pids skf data k hmiss
  have := exFold_complete tids pids skf data {} k v hm (hid hk) hk hlt
  unfold extract at hnone
  exact this hnone

/-! `MemoizeFields` -/

theorem memoFold_other (tf : List Str) (l : List (Str × Val)) (acc : AList Str Val × Nat) (k : Str)
    (h : k ∉ tf ∨ k ∉ l.map (·.1)) : AList.get (l.foldl (memoStep tf) acc).1 k = AList.get acc.1 k := by
  induction l generalizing acc with
  | nil => rfl
  | cons kv t ih =>
    simp only [List.foldl_cons]
    rw [ih]
    · unfold memoStep
      split
      · rename_i hc
        simp only [AList.get_put]
        split
        · rename_i hkk
          subst hkk
          rcases h with h | h
          · exact absurd hc.2 h
          · simp at h
        · rfl
      · rfl
    · rcases h with h | h
      · exact Or.inl h
      · right; intro hx; exact h (by simp only [List.map_cons, List.mem_cons]; exact Or.inr hx)

/-- how many of the keys to find have been seen among the processed payload keys -/
def seenCount (tf proc : List Str) : Nat := (tf.filter (fun x => decide (x ∈ proc))).length

theorem seenCount_cons (a : Str) (t proc : List Str) :
    seenCount (a :: t) proc = (if a ∈ proc then 1 else 0) + seenCount t proc := by
  unfold seenCount
  rw [List.filter_cons]
  by_cases ha : a ∈ proc
  · rw [if_pos (by simpa using ha), if_pos ha, List.length_cons]; omega
  · rw [if_neg (by simpa using ha), if_neg ha]; omega

theorem seenCount_lt (tf proc : List Str) (f : Str) (hf : f ∈ tf) (hn : f ∉ proc) : seenCount tf proc < tf.length := by
  unfold seenCount
  exact List.length_filter_lt_length_iff_exists.mpr ⟨f, hf, by simpa using hn⟩

theorem filter_mem_mono (tf proc : List Str) (k : Str) : seenCount tf proc ≤ seenCount tf (k :: proc) := by
  induction tf with
  | nil => simp [seenCount]
  | cons a t ih =>
    rw [seenCount_cons, seenCount_cons]
    by_cases ha : a ∈ proc
    · have h2 : a ∈ k :: proc := List.mem_cons_of_mem _ ha
      rw [if_pos ha, if_pos h2]; omega
    · rw [if_neg ha]
      split <;> omega

theorem filter_mem_step (tf proc : List Str) (k : Str) (hk : k ∈ tf) (hn : k ∉ proc) :
    seenCount tf proc + 1 ≤ seenCount tf (k :: proc) := by
  induction tf with
  | nil => simp at hk
  | cons a t ih =>
    rw [seenCount_cons, seenCount_cons]
    by_cases hak : a = k
    · subst hak
      have := filter_mem_mono t proc a
      rw [if_neg hn, if_pos (List.mem_cons_self)]; omega
    · have hkt : k ∈ t := by
        rcases List.mem_cons.mp hk with h | h
        · exact absurd h.symm hak
        · exact h
      have := ih hkt
      by_cases ha : a ∈ proc
      · have h2 : a ∈ k :: proc := List.mem_cons_of_mem _ ha
        rw [if_pos ha, if_pos h2]; omega
      · have h2 : a ∉ k :: proc := by
          intro h; rcases List.mem_cons.mp h with h | h
          · exact hak h
          · exact ha h
        rw [if_neg ha, if_neg h2]; omega

/-- a requested key that occurs in the payload is found by the scan: the scan's early exit
(`keysFound == len(keysToFind)`) cannot come before it, because payload keys are distinct -/
theorem memoFold_finds (tf : List Str) (l : List (Str × Val)) (proc : List Str) (acc : AList Str Val × Nat)
    (hn : (l.map (·.1)).Nodup) (hd : ∀ x ∈ l.map (·.1), x ∉ proc)
    (hc : acc.2 ≤ seenCount tf proc)
    (f : Str) (v : Val) (hm : (f, v) ∈ l) (hf : f ∈ tf) :
    AList.get (l.foldl (memoStep tf) acc).1 f = some v := by
  induction l generalizing proc acc with
  | nil => simp at hm
  | cons kv t ih =>
    simp only [List.foldl_cons]
    simp only [List.map_cons, List.nodup_cons] at hn
    rcases List.mem_cons.mp hm with heq | hmt
    · subst heq
      have hfp : f ∉ proc := hd f (by simp)
      have hlt : acc.2 < tf.length := by
        have := seenCount_lt tf proc f hf hfp
        omega
      rw [memoFold_other tf t _ f (Or.inr hn.1)]
      simp [memoStep, hlt, hf, AList.get_put]
    · apply ih (kv.1 :: proc) (memoStep tf acc kv) hn.2
      · intro x hx
        intro hmem
        rcases List.mem_cons.mp hmem with hxe | hxp
        · subst hxe; exact hn.1 hx
        · exact hd x (by simp only [List.map_cons, List.mem_cons]; exact Or.inr hx) hxp
      · have hkp : kv.1 ∉ proc := hd kv.1 (by simp)
        unfold memoStep
        split
        · rename_i hcnd
          have := filter_mem_step tf proc kv.1 hcnd.2 hkp
          simp only; omega
        · have := filter_mem_mono tf proc kv.1
          omega
      · exact hmt


end Refinery.Lemmas.SamplerSelect
