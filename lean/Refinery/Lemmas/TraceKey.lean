import Refinery.Model.TraceKey
/-!
Helper lemmas for C11: the string sort is canonical, the capped collection loop equals plain
deduplication below the cap, and the rendered key can be parsed back when values are free of the
delimiters.
-/
namespace Refinery.Model.TraceKey

/-! ## `sortStr` -/

theorem mem_insertStr (x y : String) (l : List String) : y ∈ insertStr x l ↔ y = x ∨ y ∈ l := by
  induction l with
  | nil => simp [insertStr]
  | cons z t ih =>
    unfold insertStr
    split
    · simp
    · simp [ih]; grind

@[simp] theorem mem_sortStr (y : String) (l : List String) : y ∈ sortStr l ↔ y ∈ l := by
  induction l with
  | nil => simp [sortStr]
  | cons x t ih => simp [sortStr, mem_insertStr, ih]

theorem insertStr_perm (x : String) (l : List String) : (insertStr x l).Perm (x :: l) := by
  induction l with
  | nil => simp [insertStr]
  | cons z t ih =>
    unfold insertStr
    split
    · exact List.Perm.refl _
    · exact (List.Perm.cons z ih).trans (List.Perm.swap x z t)

theorem sortStr_perm (l : List String) : (sortStr l).Perm l := by
  induction l with
  | nil => simp [sortStr]
  | cons x t ih => exact (insertStr_perm x (sortStr t)).trans (List.Perm.cons x ih)

theorem insertStr_pairwise (x : String) (l : List String) (h : l.Pairwise (· ≤ ·)) :
    (insertStr x l).Pairwise (· ≤ ·) := by
  induction l with
  | nil => simp [insertStr]
  | cons z t ih =>
    unfold insertStr
    rw [List.pairwise_cons] at h
    split
    · rename_i hxz
      rw [List.pairwise_cons]
      refine ⟨?_, List.pairwise_cons.mpr h⟩
      intro a ha
      rcases List.mem_cons.mp ha with rfl | ha
      · exact hxz
      · exact String.le_trans hxz (h.1 a ha)
    · rename_i hxz
      rw [List.pairwise_cons]
      refine ⟨?_, ih h.2⟩
      intro a ha
      rcases (mem_insertStr x a t).mp ha with rfl | ha
      · rcases String.le_total a z with h' | h'
        · exact absurd h' hxz
        · exact h'
      · exact h.1 a ha

theorem sortStr_pairwise (l : List String) : (sortStr l).Pairwise (· ≤ ·) := by
  induction l with
  | nil => simp [sortStr]
  | cons x t ih => exact insertStr_pairwise x _ ih

/-- permutations of each other sort to the same list -/
theorem sortStr_eq_of_perm {l₁ l₂ : List String} (h : l₁.Perm l₂) : sortStr l₁ = sortStr l₂ := by
  apply List.Perm.eq_of_pairwise (le := (· ≤ ·))
  · intro a b _ _ hab hba; exact String.le_antisymm hab hba
  · exact sortStr_pairwise l₁
  · exact sortStr_pairwise l₂
  · exact (sortStr_perm l₁).trans (h.trans (sortStr_perm l₂).symm)

theorem sortStr_nodup {l : List String} (h : l.Nodup) : (sortStr l).Nodup :=
  (sortStr_perm l).nodup_iff.mpr h

theorem sortStr_eq_nil {l : List String} : sortStr l = [] ↔ l = [] := by
  constructor
  · intro h
    have := (sortStr_perm l).length_eq
    rw [h] at this
    exact List.length_eq_zero_iff.mp this.symm
  · intro h; subst h; rfl

/-! ## `dedupInto` -/

theorem dedupInto_cons (acc : List String) (s : String) (t : List String) :
    dedupInto acc (s :: t) = if s ∈ acc then dedupInto acc t else dedupInto (s :: acc) t := by
  unfold dedupInto
  simp only [List.foldl_cons]
  split <;> rfl

theorem dedupInto_nodup (acc l : List String) (h : acc.Nodup) : (dedupInto acc l).Nodup := by
  induction l generalizing acc with
  | nil => simpa [dedupInto] using h
  | cons s t ih =>
    rw [dedupInto_cons]
    split
    · exact ih acc h
    · rename_i hs; exact ih _ (List.nodup_cons.mpr ⟨hs, h⟩)

theorem mem_dedupInto (acc l : List String) (s : String) :
    s ∈ dedupInto acc l ↔ s ∈ acc ∨ s ∈ l := by
  induction l generalizing acc with
  | nil => simp [dedupInto]
  | cons x t ih =>
    rw [dedupInto_cons]
    split
    · rename_i hx
      rw [ih]; simp only [List.mem_cons]
      constructor
      · rintro (h | h); exact Or.inl h; exact Or.inr (Or.inr h)
      · rintro (h | h | h)
        · exact Or.inl h
        · subst h; exact Or.inl hx
        · exact Or.inr h
    · rw [ih]; simp only [List.mem_cons]
      constructor
      · rintro ((h | h) | h)
        · exact Or.inr (Or.inl h)
        · exact Or.inl h
        · exact Or.inr (Or.inr h)
      · rintro (h | h | h)
        · exact Or.inl (Or.inr h)
        · exact Or.inl (Or.inl h)
        · exact Or.inr h

theorem length_le_dedupInto (acc l : List String) : acc.length ≤ (dedupInto acc l).length := by
  induction l generalizing acc with
  | nil => simp [dedupInto]
  | cons x t ih =>
    rw [dedupInto_cons]
    split
    · exact ih acc
    · have := ih (x :: acc); simp only [List.length_cons] at this; omega

/-- Below the cap the counting/limiting loop is plain deduplication. -/
theorem foldl_addStr_below (cap : Nat) (l : List String) (c : Nat) (acc : List String)
    (h : c + ((dedupInto acc l).length - acc.length) < cap) :
    l.foldl (addStr cap) (c, acc) = (c + ((dedupInto acc l).length - acc.length), dedupInto acc l) := by
  induction l generalizing c acc with
  | nil => simp [dedupInto]
  | cons s t ih =>
    rw [dedupInto_cons] at h ⊢
    simp only [List.foldl_cons]
    by_cases hs : s ∈ acc
    · simp only [hs, if_true] at h ⊢
      have hc : ¬ c ≥ cap := by omega
      have : addStr cap (c, acc) s = (c, acc) := by simp [addStr, hc, hs]
      rw [this]; exact ih c acc h
    · simp only [hs, if_false] at h ⊢
      have hl := length_le_dedupInto (s :: acc) t
      simp only [List.length_cons] at hl
      have hc : ¬ c ≥ cap := by omega
      have hc1 : ¬ c + 1 ≥ cap := by omega
      have : addStr cap (c, acc) s = (c + 1, s :: acc) := by simp [addStr, hc, hs, hc1]
      rw [this, ih (c + 1) (s :: acc) (by simp only [List.length_cons]; omega)]
      simp only [List.length_cons]
      congr 1; omega

theorem collect_below (cap : Nat) (conv : Val → String) (spans : List Span) (fs : List String) (cnt : Nat)
    (h : cnt + distinctTotal conv spans fs < cap) :
    collect cap conv spans fs cnt = fs.map (distinctVals conv spans) := by
  induction fs generalizing cnt with
  | nil => rfl
  | cons f fs ih =>
    simp only [distinctTotal, List.map_cons, List.sum_cons] at h
    have h1 := foldl_addStr_below cap (fieldVals conv spans f) cnt []
      (by simp only [List.length_nil, Nat.sub_zero]; unfold distinctVals at h; omega)
    simp only [List.length_nil, Nat.sub_zero] at h1
    simp only [collect, List.map_cons, h1]
    congr 1
    apply ih
    unfold distinctTotal distinctVals at *
    omega

/-! ## value sets -/

theorem distinctVals_nodup (conv : Val → String) (spans : List Span) (f : String) :
    (distinctVals conv spans f).Nodup := dedupInto_nodup [] _ List.nodup_nil

theorem mem_distinctVals (conv : Val → String) (spans : List Span) (f s : String) :
    s ∈ distinctVals conv spans f ↔ s ∈ fieldVals conv spans f := by
  simp [distinctVals, mem_dedupInto]

theorem distinctVals_perm_of_sameSet {conv : Val → String} {s₁ s₂ : List Span} {f : String}
    (h : SameSet (fieldVals conv s₁ f) (fieldVals conv s₂ f)) :
    (distinctVals conv s₁ f).Perm (distinctVals conv s₂ f) := by
  rw [List.perm_ext_iff_of_nodup (distinctVals_nodup _ _ _) (distinctVals_nodup _ _ _)]
  intro a; rw [mem_distinctVals, mem_distinctVals]; exact h a

theorem distinctTotal_congr {conv : Val → String} {s₁ s₂ : List Span} (fs : List String)
    (h : ∀ f ∈ fs, SameSet (fieldVals conv s₁ f) (fieldVals conv s₂ f)) :
    distinctTotal conv s₁ fs = distinctTotal conv s₂ fs := by
  induction fs with
  | nil => rfl
  | cons f fs ih =>
    simp only [distinctTotal, List.map_cons, List.sum_cons] at ih ⊢
    rw [(distinctVals_perm_of_sameSet (h f (List.mem_cons_self))).length_eq,
      ih (fun g hg => h g (List.mem_cons_of_mem _ hg))]

theorem renderGroup_perm {a b : List String} (h : a.Perm b) : renderGroup a = renderGroup b := by
  unfold renderGroup
  rw [sortStr_eq_of_perm h]
  have : a.isEmpty = b.isEmpty := by
    have := h.length_eq
    cases a <;> cases b <;> simp_all
  rw [this]

theorem renderGroups_congr {conv : Val → String} {s₁ s₂ : List Span} (fs : List String)
    (h : ∀ f ∈ fs, SameSet (fieldVals conv s₁ f) (fieldVals conv s₂ f)) :
    renderGroups (fs.map (distinctVals conv s₁)) = renderGroups (fs.map (distinctVals conv s₂)) := by
  induction fs with
  | nil => rfl
  | cons f fs ih =>
    simp only [List.map_cons, renderGroups]
    rw [renderGroup_perm (distinctVals_perm_of_sameSet (h f (List.mem_cons_self))),
      ih (fun g hg => h g (List.mem_cons_of_mem _ hg))]

/-! ## parsing the key back -/

/-- `v₁•v₂•…` as characters -/
def bullets (l : List String) : List Char := l.flatMap fun s => s.toList ++ ['•']

def DelimFree (s : String) : Prop := '•' ∉ s.toList ∧ ',' ∉ s.toList

instance (s : String) : Decidable (DelimFree s) := by unfold DelimFree; infer_instance

theorem split_unique {c : Char} {a b x y : List Char} (ha : c ∉ a) (hb : c ∉ b)
    (h : a ++ c :: x = b ++ c :: y) : a = b ∧ x = y := by
  induction a generalizing b with
  | nil =>
    cases b with
    | nil => simpa using h
    | cons d b' =>
      simp only [List.nil_append, List.cons_append, List.cons.injEq] at h
      exact absurd h.1 (fun e => hb (e ▸ List.mem_cons_self))
  | cons d a' ih =>
    cases b with
    | nil =>
      simp only [List.nil_append, List.cons_append, List.cons.injEq] at h
      exact absurd h.1.symm (fun e => ha (e ▸ List.mem_cons_self))
    | cons e b' =>
      simp only [List.cons_append, List.cons.injEq] at h
      have := ih (fun m => ha (List.mem_cons_of_mem _ m)) (fun m => hb (List.mem_cons_of_mem _ m)) h.2
      exact ⟨by rw [h.1, this.1], this.2⟩

theorem bullets_cons (s : String) (t : List String) :
    bullets (s :: t) = s.toList ++ '•' :: bullets t := by
  simp [bullets]

theorem bullets_inj {vs ws : List String} {x y : List Char}
    (hv : ∀ s ∈ vs, DelimFree s) (hw : ∀ s ∈ ws, DelimFree s)
    (h : bullets vs ++ ',' :: x = bullets ws ++ ',' :: y) : vs = ws ∧ x = y := by
  induction vs generalizing ws with
  | nil =>
    cases ws with
    | nil => simpa [bullets] using h
    | cons w ws' =>
      exfalso
      rw [bullets_cons] at h
      simp only [bullets, List.flatMap_nil, List.nil_append, List.append_assoc] at h
      have hw' := hw w List.mem_cons_self
      cases hwl : w.toList with
      | nil => rw [hwl] at h; simp at h
      | cons ch rest =>
        rw [hwl] at h
        simp only [List.cons_append, List.cons.injEq] at h
        exact hw'.2 (by rw [hwl, ← h.1]; exact List.mem_cons_self)
  | cons v vs' ih =>
    cases ws with
    | nil =>
      exfalso
      rw [bullets_cons] at h
      simp only [bullets, List.flatMap_nil, List.nil_append, List.append_assoc] at h
      have hv' := hv v List.mem_cons_self
      cases hvl : v.toList with
      | nil => rw [hvl] at h; simp at h
      | cons ch rest =>
        rw [hvl] at h
        simp only [List.cons_append, List.cons.injEq] at h
        exact hv'.2 (by rw [hvl, h.1]; exact List.mem_cons_self)
    | cons w ws' =>
      rw [bullets_cons, bullets_cons] at h
      simp only [List.append_assoc, List.cons_append] at h
      have h1 := split_unique (hv v List.mem_cons_self).1 (hw w List.mem_cons_self).1 h
      have h2 := ih (fun s m => hv s (List.mem_cons_of_mem _ m)) (fun s m => hw s (List.mem_cons_of_mem _ m)) h1.2
      exact ⟨by rw [String.toList_inj.mp h1.1, h2.1], h2.2⟩

/-- after `prev`, on a duplicate-free continuation, every value is written -/
theorem renderRest_nodup (prev : String) (l : List String) (h : (prev :: l).Nodup) :
    ((renderRest prev l).1.toList = bullets l) ∧ (renderRest prev l).2 = l.length := by
  induction l generalizing prev with
  | nil => simp [renderRest, bullets]
  | cons s t ih =>
    have hn := List.nodup_cons.mp h
    have hne : s ≠ prev := fun e => hn.1 (e ▸ List.mem_cons_self)
    have := ih s hn.2
    simp only [renderRest, hne, ne_eq, not_false_eq_true, if_true]
    rw [bullets_cons]
    simp [String.toList_append, this.1, this.2]

/-- on a duplicate-free list every value is written (the empty string included) -/
theorem renderVals_nodup (l : List String) (h : l.Nodup) :
    ((renderVals l).1.toList = bullets l) ∧ (renderVals l).2 = l.length := by
  cases l with
  | nil => simp [renderVals, bullets]
  | cons s t =>
    have := renderRest_nodup s t h
    simp only [renderVals]
    rw [bullets_cons]
    simp [String.toList_append, this.1, this.2]

/-- a non-empty duplicate-free group renders as `v₁•…vₖ•,` (sorted) -/
theorem renderGroup_chars {g : List String} (hne : g ≠ []) (hnd : g.Nodup) :
    (renderGroup g).1.toList = bullets (sortStr g) ++ [','] := by
  unfold renderGroup
  have : g.isEmpty = false := by cases g with | nil => exact absurd rfl hne | cons _ _ => rfl
  simp only [this, Bool.false_eq_true, if_false]
  rw [String.toList_append, (renderVals_nodup _ (sortStr_nodup hnd)).1]
  rfl

end Refinery.Model.TraceKey
