import Refinery.Model.Shutdown
/-!
# Lemmas for C36 (graceful shutdown): invariants of `Model/Shutdown.lean`

`TxInv` (every accepted event is dispatched or pending), `Somewhere` / `Good` / `Inv` (every accepted
span is in exactly the places the model knows, handed ⇒ kept, discarded ⇒ dropped), their
preservation by every transition, and the behaviour of the phases of `stopBody`.
-/
namespace Refinery.Lemmas.Shutdown
open Refinery Refinery.Model.Shutdown

/-! ## Transmission -/

theorem mem_put {κ α : Type} [DecidableEq κ] (l : AList κ α) (k : κ) (v : α) (x : κ × α) :
    x ∈ AList.put l k v ↔ x = (k, v) ∨ (x ∈ l ∧ x.1 ≠ k) := by
  simp [AList.put, AList.del, List.mem_filter]

/-- every accepted event is in a dispatched batch or in a pending one -/
structure TxInv (t : Tx) : Prop where
  nodup : AList.NoDupKeys t.pending
  acc : ∀ e ∈ t.acc, (∃ b ∈ t.sent, e ∈ b.2) ∨ (∃ p ∈ t.pending, e ∈ p.2.2)
  stopped : t.stopped = true → t.pending = []

theorem txinv_init : TxInv {} := ⟨AList.nodup_nil, by simp, by simp⟩

theorem grow_self (t : Tx) (d e : Nat) : e ∈ (t.grow d e).2 := by
  unfold Tx.grow; split <;> simp

theorem grow_old (t : Tx) (d e : Nat) (hn : AList.NoDupKeys t.pending) (p : Nat × Int × List Nat)
    (hp : p ∈ t.pending) (hd : p.1 = d) (x : Nat) (hx : x ∈ p.2.2) : x ∈ (t.grow d e).2 := by
  obtain ⟨k, st, evs⟩ := p
  simp only at hd hx
  subst hd
  have hg : AList.get t.pending k = some (st, evs) := AList.get_of_mem hn hp
  unfold Tx.grow
  rw [hg]
  cases evs with
  | nil => simp at hx
  | cons a as => simp only [List.mem_append]; exact Or.inl hx

theorem txinv_enqueue (c : Cfg) (t : Tx) (d e : Nat) (h : TxInv t) : TxInv (t.enqueue c d e).1 := by
  unfold Tx.enqueue
  by_cases hs : t.stopped = true
  · rw [if_pos hs]
    by_cases hl : t.locked = true
    · rw [if_pos hl]; exact h
    · rw [if_neg hl]; exact ⟨h.nodup, h.acc, h.stopped⟩
  · rw [if_neg hs]
    have hold : ∀ x ∈ t.acc, (∃ b ∈ t.sent, x ∈ b.2) ∨ x ∈ (t.grow d e).2 ∨
        (∃ p ∈ t.pending, p.1 ≠ d ∧ x ∈ p.2.2) := by
      intro x hx
      rcases h.acc x hx with hb | ⟨p, hp, hxp⟩
      · exact Or.inl hb
      · by_cases hd : p.1 = d
        · exact Or.inr (Or.inl (grow_old t d e h.nodup p hp hd x hxp))
        · exact Or.inr (Or.inr ⟨p, hp, hd, hxp⟩)
    by_cases hm : c.mb ≤ (t.grow d e).2.length
    · rw [if_pos hm]
      refine ⟨AList.nodup_put _ h.nodup _ _, ?_, fun h' => absurd h' hs⟩
      intro x hx
      change x ∈ t.acc ++ [e] at hx
      change (∃ b ∈ t.sent ++ [(d, (t.grow d e).2)], x ∈ b.2) ∨
        (∃ p ∈ AList.put t.pending d ((t.grow d e).1, []), x ∈ p.2.2)
      rcases List.mem_append.mp hx with hx | hx
      · rcases hold x hx with ⟨b, hb, hxb⟩ | hg | ⟨p, hp, hd, hxp⟩
        · exact Or.inl ⟨b, List.mem_append_left _ hb, hxb⟩
        · exact Or.inl ⟨(d, (t.grow d e).2), by simp, hg⟩
        · exact Or.inr ⟨p, (mem_put _ _ _ _).mpr (Or.inr ⟨hp, hd⟩), hxp⟩
      · have : x = e := by simpa using hx
        subst this
        exact Or.inl ⟨(d, (t.grow d x).2), by simp, grow_self t d x⟩
    · rw [if_neg hm]
      refine ⟨AList.nodup_put _ h.nodup _ _, ?_, fun h' => absurd h' hs⟩
      intro x hx
      change x ∈ t.acc ++ [e] at hx
      change (∃ b ∈ t.sent, x ∈ b.2) ∨ (∃ p ∈ AList.put t.pending d (t.grow d e), x ∈ p.2.2)
      rcases List.mem_append.mp hx with hx | hx
      · rcases hold x hx with hb | hg | ⟨p, hp, hd, hxp⟩
        · exact Or.inl hb
        · exact Or.inr ⟨(d, t.grow d e), (mem_put _ _ _ _).mpr (Or.inl rfl), hg⟩
        · exact Or.inr ⟨p, (mem_put _ _ _ _).mpr (Or.inr ⟨hp, hd⟩), hxp⟩
      · have : x = e := by simpa using hx
        subst this
        exact Or.inr ⟨(d, t.grow d x), (mem_put _ _ _ _).mpr (Or.inl rfl), grow_self t d x⟩

theorem keys_map_same {α : Type} (l : AList Nat α) (f : Nat × α → Nat × α) (hf : ∀ p, (f p).1 = p.1) :
    AList.keys (l.map f) = AList.keys l := by
  simp [AList.keys, List.map_map, Function.comp_def, hf]

theorem txinv_tick (c : Cfg) (t : Tx) (ns : Nat) (h : TxInv t) : TxInv (t.tick c ns) := by
  unfold Tx.tick
  by_cases hs : t.stopped = true
  · rw [if_pos hs]; exact ⟨h.nodup, h.acc, h.stopped⟩
  · rw [if_neg hs]
    refine ⟨?_, ?_, fun h' => absurd h' hs⟩
    · show AList.NoDupKeys (t.pending.map _)
      unfold AList.NoDupKeys
      rw [keys_map_same]
      · exact h.nodup
      · intro p; split <;> rfl
    · intro x hx
      change x ∈ t.acc at hx
      rcases h.acc x hx with ⟨b, hb, hxb⟩ | ⟨p, hp, hxp⟩
      · exact Or.inl ⟨b, List.mem_append_left _ hb, hxb⟩
      · by_cases hd : Tx.due c (t.now + ns) p = true
        · refine Or.inl ⟨(p.1, p.2.2), List.mem_append_right _ ?_, hxp⟩
          exact List.mem_map.mpr ⟨p, List.mem_filter.mpr ⟨hp, hd⟩, rfl⟩
        · refine Or.inr ⟨p, ?_, hxp⟩
          exact List.mem_map.mpr ⟨p, hp, by simp [hd]⟩

theorem txinv_stop (t : Tx) (h : TxInv t) : TxInv t.stop := by
  unfold Tx.stop
  by_cases hs : t.stopped = true
  · rw [if_pos hs]; exact h
  · rw [if_neg hs]
    refine ⟨AList.nodup_nil, ?_, fun _ => rfl⟩
    intro x hx
    change x ∈ t.acc at hx
    rcases h.acc x hx with ⟨b, hb, hxb⟩ | ⟨p, hp, hxp⟩
    · exact Or.inl ⟨b, List.mem_append_left _ hb, hxb⟩
    · refine Or.inl ⟨(p.1, p.2.2), List.mem_append_right _ ?_, hxp⟩
      refine List.mem_map.mpr ⟨p, List.mem_filter.mpr ⟨hp, ?_⟩, rfl⟩
      cases hpe : p.2.2 with
      | nil => rw [hpe] at hxp; simp at hxp
      | cons a as => simp

theorem stop_stopped (t : Tx) : t.stop.stopped = true := by
  unfold Tx.stop; split <;> simp_all

/-! ## Collector: what every transition preserves -/

/-- every place a span can be once `AddSpan` has accepted it -/
def Somewhere (s : St) (x : Span) : Prop :=
  (∃ q ∈ s.qIn, q.2 = x) ∨ (∃ q ∈ s.qPeer, q.2 = x) ∨ (∃ t ∈ s.buf, x ∈ t.spans) ∨
  (∃ t ∈ s.toSend, x ∈ t.spans) ∨ x ∈ s.handed ∨ x ∈ s.discarded ∨ x ∈ s.lost

structure Good (keep : Nat → Bool) (s : St) : Prop where
  handed : ∀ x ∈ s.handed, keep x.tid = true
  disc : ∀ x ∈ s.discarded, keep x.tid = false
  send : ∀ t ∈ s.toSend, keep t.tid = true ∧ ∀ x ∈ t.spans, x.tid = t.tid
  buf : ∀ t ∈ s.buf, ∀ x ∈ t.spans, x.tid = t.tid

/-- the part of the state no worker / sender step touches -/
def frame (s : St) := (s.qIn, s.qPeer, s.lost, s.stopped, s.accepted)

structure Pres (keep : Nat → Bool) (s s' : St) : Prop where
  sw : ∀ x, Somewhere s x → Somewhere s' x
  good : Good keep s → Good keep s'

theorem Pres.refl (keep : Nat → Bool) (s : St) : Pres keep s s := ⟨fun _ h => h, fun h => h⟩

theorem Pres.trans {keep : Nat → Bool} {a b c : St} (h1 : Pres keep a b) (h2 : Pres keep b c) : Pres keep a c :=
  ⟨fun x h => h2.sw x (h1.sw x h), fun h => h2.good (h1.good h)⟩

section collector
variable (c : Cfg) (keep : Nat → Bool)

theorem hand_pres (s : St) (sp : Span) (hk : keep sp.tid = true) : Pres keep s (hand c s sp) := by
  refine ⟨?_, ?_⟩
  · intro x h
    unfold Somewhere at *
    simp only [hand, List.mem_append]
    grind
  · intro g
    refine ⟨?_, g.disc, g.send, g.buf⟩
    intro x hx
    simp only [hand, List.mem_append, List.mem_singleton] at hx
    rcases hx with hx | rfl
    · exact g.handed x hx
    · exact hk

theorem hand_frame (s : St) (sp : Span) : frame (hand c s sp) = frame s := rfl
theorem hand_buf (s : St) (sp : Span) : (hand c s sp).buf = s.buf := rfl
theorem hand_toSend (s : St) (sp : Span) : (hand c s sp).toSend = s.toSend := rfl

theorem handAll_pres (sps : List Span) : ∀ (s : St), (∀ x ∈ sps, keep x.tid = true) →
    Pres keep s (handAll c s sps) ∧ frame (handAll c s sps) = frame s ∧
    (handAll c s sps).buf = s.buf ∧ (handAll c s sps).toSend = s.toSend ∧
    (∀ x ∈ sps, x ∈ (handAll c s sps).handed) ∧ (∀ x ∈ s.handed, x ∈ (handAll c s sps).handed) := by
  induction sps with
  | nil => intro s _; exact ⟨Pres.refl _ _, rfl, rfl, rfl, by simp, fun x h => h⟩
  | cons a l ih =>
    intro s hk
    have ha := hand_pres c keep s a (hk a (by simp))
    obtain ⟨p, f, b, t, hin, hmono⟩ := ih (hand c s a) (fun x hx => hk x (by simp [hx]))
    refine ⟨ha.trans p, ?_, ?_, ?_, ?_, ?_⟩
    · exact f.trans (hand_frame c s a)
    · exact b.trans (hand_buf c s a)
    · exact t.trans (hand_toSend c s a)
    · intro x hx
      rcases List.mem_cons.mp hx with rfl | hx
      · exact hmono _ (by simp [hand])
      · exact hin x hx
    · intro x hx
      exact hmono x (by simp [hand, hx])

theorem owns_tid {w tid : Nat} {t : Trace} (h : owns w tid t = true) : t.tid = tid := by
  simp [owns] at h; exact h.2

theorem addSpan_spans (now : Int) (t : Trace) (sp : Span) : (addSpan c now t sp).spans = t.spans ++ [sp] := by
  unfold addSpan; split <;> rfl

theorem addSpan_tid (now : Int) (t : Trace) (sp : Span) : (addSpan c now t sp).tid = t.tid := by
  unfold addSpan; split <;> rfl

theorem processK_pres (s : St) (w : Nat) (sp : Span) :
    Pres keep s (processK c keep s w sp).1 ∧ Somewhere (processK c keep s w sp).1 sp ∧
    frame (processK c keep s w sp).1 = frame s ∧ (processK c keep s w sp).1.toSend = s.toSend := by
  unfold processK
  by_cases h1 : s.buf.any (owns w sp.tid) = true
  · rw [if_pos h1]
    refine ⟨⟨?_, ?_⟩, ?_, rfl, rfl⟩
    · intro x h
      unfold Somewhere at *
      rcases h with h | h | ⟨t, ht, hx⟩ | h
      · exact Or.inl h
      · exact Or.inr (Or.inl h)
      · refine Or.inr (Or.inr (Or.inl ?_))
        by_cases ho : owns w sp.tid t = true
        · exact ⟨addSpan c s.now t sp, List.mem_map.mpr ⟨t, ht, by simp [ho]⟩, by simp [addSpan_spans, hx]⟩
        · exact ⟨t, List.mem_map.mpr ⟨t, ht, by simp [ho]⟩, hx⟩
      · exact Or.inr (Or.inr (Or.inr h))
    · intro g
      refine ⟨g.handed, g.disc, g.send, ?_⟩
      intro t' ht' x hx
      obtain ⟨t, ht, rfl⟩ := List.mem_map.mp ht'
      by_cases ho : owns w sp.tid t = true
      · simp only [ho, if_true] at hx ⊢
        rw [addSpan_spans] at hx
        rw [addSpan_tid]
        rcases List.mem_append.mp hx with hx | hx
        · exact g.buf t ht x hx
        · have : x = sp := by simpa using hx
          rw [this, owns_tid ho]
      · simp only [ho] at hx ⊢
        exact g.buf t ht x hx
    · obtain ⟨t, ht, ho⟩ := List.any_eq_true.mp h1
      unfold Somewhere
      exact Or.inr (Or.inr (Or.inl ⟨addSpan c s.now t sp, List.mem_map.mpr ⟨t, ht, by simp [ho]⟩,
        by simp [addSpan_spans]⟩))
  · rw [if_neg h1]
    by_cases h2 : (w, sp.tid) ∈ s.decided
    · rw [if_pos h2]
      by_cases h3 : keep sp.tid = true
      · rw [if_pos h3]
        refine ⟨hand_pres c keep s sp h3, ?_, rfl, rfl⟩
        unfold Somewhere; simp [hand]
      · rw [if_neg h3]
        refine ⟨⟨?_, ?_⟩, ?_, rfl, rfl⟩
        · intro x h
          unfold Somewhere at *
          simp only [List.mem_append]
          grind
        · intro g
          refine ⟨g.handed, ?_, g.send, g.buf⟩
          intro x hx
          simp only [List.mem_append, List.mem_singleton] at hx
          rcases hx with hx | rfl
          · exact g.disc x hx
          · simpa using h3
        · unfold Somewhere; simp
    · rw [if_neg h2]
      refine ⟨⟨?_, ?_⟩, ?_, rfl, rfl⟩
      · intro x h
        unfold Somewhere at *
        rcases h with h | h | ⟨t, ht, hx⟩ | h
        · exact Or.inl h
        · exact Or.inr (Or.inl h)
        · exact Or.inr (Or.inr (Or.inl ⟨t, List.mem_append_left _ ht, hx⟩))
        · exact Or.inr (Or.inr (Or.inr h))
      · intro g
        refine ⟨g.handed, g.disc, g.send, ?_⟩
        intro t ht x hx
        rcases List.mem_append.mp ht with ht | ht
        · exact g.buf t ht x hx
        · have : t = addSpan c s.now { w := w, tid := sp.tid, sendBy := s.now + c.tt, spans := [] } sp := by
            simpa using ht
          subst this
          rw [addSpan_spans] at hx
          rw [addSpan_tid]
          have : x = sp := by simpa using hx
          rw [this]
      · unfold Somewhere
        refine Or.inr (Or.inr (Or.inl ⟨_, List.mem_append_right _ (List.mem_singleton.mpr rfl), ?_⟩))
        simp [addSpan_spans]

theorem processAll_pres (l : List (Nat × Span)) : ∀ (s : St),
    Pres keep s (processAll c keep s l) ∧ (∀ q ∈ l, Somewhere (processAll c keep s l) q.2) ∧
    frame (processAll c keep s l) = frame s ∧ (processAll c keep s l).toSend = s.toSend := by
  induction l with
  | nil => intro s; exact ⟨Pres.refl _ _, by simp, rfl, rfl⟩
  | cons a l ih =>
    intro s
    obtain ⟨p1, sw1, f1, t1⟩ := processK_pres c keep s a.1 a.2
    obtain ⟨p2, sw2, f2, t2⟩ := ih (process c keep s a)
    refine ⟨p1.trans p2, ?_, f2.trans f1, t2.trans t1⟩
    intro q hq
    rcases List.mem_cons.mp hq with rfl | hq
    · exact p2.sw _ sw1
    · exact sw2 q hq

theorem decideTraces_sw (s : St) (ts : List Trace) :
    (∀ x, Somewhere s x → Somewhere (decideTraces keep s ts) x) ∧
    (∀ t ∈ ts, ∀ x ∈ t.spans, Somewhere (decideTraces keep s ts) x) ∧
    frame (decideTraces keep s ts) = frame s ∧ (decideTraces keep s ts).buf = s.buf := by
  refine ⟨?_, ?_, rfl, rfl⟩
  · intro x h
    unfold Somewhere at *
    simp only [decideTraces, List.mem_append]
    grind
  · intro t ht x hx
    unfold Somewhere
    by_cases hk : keep t.tid = true
    · refine Or.inr (Or.inr (Or.inr (Or.inl ⟨t, ?_, hx⟩)))
      simp [decideTraces, ht, hk]
    · refine Or.inr (Or.inr (Or.inr (Or.inr (Or.inr (Or.inl ?_)))))
      simp only [decideTraces, List.mem_append, List.mem_flatMap, List.mem_filter]
      exact Or.inr ⟨t, ⟨ht, by simpa using hk⟩, hx⟩

theorem decideTraces_good (s : St) (ts : List Trace) (hts : ∀ t ∈ ts, ∀ x ∈ t.spans, x.tid = t.tid)
    (g : Good keep s) : Good keep (decideTraces keep s ts) := by
  refine ⟨g.handed, ?_, ?_, g.buf⟩
  · intro x hx
    simp only [decideTraces, List.mem_append, List.mem_flatMap, List.mem_filter] at hx
    rcases hx with hx | ⟨t, ⟨ht, hk⟩, hx⟩
    · exact g.disc x hx
    · rw [hts t ht x hx]; simpa using hk
  · intro t ht
    simp only [decideTraces, List.mem_append, List.mem_filter] at ht
    rcases ht with ht | ⟨ht, hk⟩
    · exact g.send t ht
    · exact ⟨hk, hts t ht⟩

theorem mem_insT (x y : Trace) (l : List Trace) : y ∈ insT x l ↔ y = x ∨ y ∈ l := by
  induction l with
  | nil => simp [insT]
  | cons z t ih =>
    unfold insT
    split
    · simp
    · simp [ih]; grind

theorem mem_sortT (y : Trace) (l : List Trace) : y ∈ sortT l ↔ y ∈ l := by
  induction l with
  | nil => simp [sortT]
  | cons x t ih => simp [sortT, mem_insT, ih]

theorem decideWhere_pres (s : St) (now : Int) (ex : Trace → Bool) :
    Pres keep s (decideWhere keep s now ex) ∧ frame (decideWhere keep s now ex) = frame s := by
  unfold decideWhere
  obtain ⟨sw1, sw2, f, _⟩ := decideTraces_sw keep
    { s with now := now, buf := s.buf.filter (fun t => !ex t) } (sortT (s.buf.filter ex))
  refine ⟨⟨?_, ?_⟩, f⟩
  · intro x h
    unfold Somewhere at h
    rcases h with h | h | ⟨t, ht, hx⟩ | h
    · exact sw1 x (Or.inl h)
    · exact sw1 x (Or.inr (Or.inl h))
    · by_cases he : ex t = true
      · exact sw2 t ((mem_sortT _ _).mpr (List.mem_filter.mpr ⟨ht, he⟩)) x hx
      · exact sw1 x (Or.inr (Or.inr (Or.inl ⟨t, List.mem_filter.mpr ⟨ht, by simpa using he⟩, hx⟩)))
    · exact sw1 x (Or.inr (Or.inr (Or.inr h)))
  · intro g
    apply decideTraces_good
    · intro t ht
      exact g.buf t (List.mem_filter.mp ((mem_sortT _ _).mp ht)).1
    · exact ⟨g.handed, g.disc, g.send, fun t ht => g.buf t (List.mem_filter.mp ht).1⟩

theorem tick_pres (s : St) (ns : Nat) : Pres keep s (tick keep s ns) ∧ frame (tick keep s ns) = frame s := by
  unfold tick
  by_cases hs : s.stopped = true
  · rw [if_pos hs]; exact ⟨⟨fun x h => h, fun g => ⟨g.handed, g.disc, g.send, g.buf⟩⟩, rfl⟩
  · rw [if_neg hs]; exact decideWhere_pres keep s _ _

theorem tickUpTo_pres (s : St) (ns : Nat) :
    Pres keep s (tickUpTo keep s ns) ∧ frame (tickUpTo keep s ns) = frame s := by
  unfold tickUpTo; exact decideWhere_pres keep s _ _

theorem frame_qIn {a b : St} (h : frame a = frame b) : a.qIn = b.qIn := congrArg (·.1) h
theorem frame_qPeer {a b : St} (h : frame a = frame b) : a.qPeer = b.qPeer := congrArg (·.2.1) h
theorem frame_lost {a b : St} (h : frame a = frame b) : a.lost = b.lost := congrArg (·.2.2.1) h
theorem frame_stopped {a b : St} (h : frame a = frame b) : a.stopped = b.stopped := congrArg (·.2.2.2.1) h
theorem frame_accepted {a b : St} (h : frame a = frame b) : a.accepted = b.accepted := congrArg (·.2.2.2.2) h

/-- forwarding a list of traces taken out of `tracesToSend` -/
theorem send_pres (s : St) (g : Good keep s) (ts rest : List Trace) (hs : s.toSend = ts ++ rest) :
    Pres keep s (handAll c { s with toSend := rest } (ts.flatMap (·.spans))) ∧
    frame (handAll c { s with toSend := rest } (ts.flatMap (·.spans))) = frame s ∧
    (handAll c { s with toSend := rest } (ts.flatMap (·.spans))).buf = s.buf ∧
    (handAll c { s with toSend := rest } (ts.flatMap (·.spans))).toSend = rest := by
  have hk : ∀ x ∈ ts.flatMap (·.spans), keep x.tid = true := by
    intro x hx
    obtain ⟨t, ht, hxt⟩ := List.mem_flatMap.mp hx
    have := g.send t (by rw [hs]; exact List.mem_append_left _ ht)
    rw [this.2 x hxt]; exact this.1
  obtain ⟨p, f, b, t, hin, _⟩ := handAll_pres c keep (ts.flatMap (·.spans)) { s with toSend := rest } hk
  refine ⟨⟨?_, ?_⟩, f, b, t⟩
  · intro x h
    unfold Somewhere at h
    rcases h with h | h | h | ⟨t, ht, hx⟩ | h
    · exact p.sw x (Or.inl h)
    · exact p.sw x (Or.inr (Or.inl h))
    · exact p.sw x (Or.inr (Or.inr (Or.inl h)))
    · rw [hs] at ht
      rcases List.mem_append.mp ht with ht | ht
      · exact Or.inr (Or.inr (Or.inr (Or.inr (Or.inl (hin x (List.mem_flatMap.mpr ⟨t, ht, hx⟩))))))
      · exact p.sw x (Or.inr (Or.inr (Or.inr (Or.inl ⟨t, ht, hx⟩))))
    · exact p.sw x (Or.inr (Or.inr (Or.inr (Or.inr h))))
  · intro g'
    exact p.good ⟨g'.handed, g'.disc, fun t ht => g'.send t (by rw [hs]; exact List.mem_append_right _ ht), g'.buf⟩

theorem fwdOne_pres (s : St) (g : Good keep s) : Pres keep s (fwdOne c s) ∧ frame (fwdOne c s) = frame s := by
  unfold fwdOne
  cases hts : s.toSend with
  | nil => exact ⟨Pres.refl _ _, rfl⟩
  | cons t r =>
    have := send_pres c keep s g [t] r (by simp [hts])
    simp only [List.flatMap_cons, List.flatMap_nil, List.append_nil] at this
    exact ⟨this.1, this.2.1⟩

theorem drain_pres (s : St) (g : Good keep s) : Pres keep s (drain c s) ∧ frame (drain c s) = frame s ∧
    (drain c s).buf = s.buf ∧ (drain c s).toSend = [] := by
  unfold drain
  exact send_pres c keep s g s.toSend [] (by simp)

theorem stopPeer_spec (s : St) : Pres keep s (stopPeer c keep s) ∧ (stopPeer c keep s).qPeer = [] ∧
    (stopPeer c keep s).qIn = s.qIn ∧ (stopPeer c keep s).lost = s.lost ∧
    (stopPeer c keep s).accepted = s.accepted := by
  unfold stopPeer
  obtain ⟨p, swq, f, _⟩ := processAll_pres c keep s.qPeer { s with qPeer := [] }
  have e1 := frame_qPeer f
  have e2 := frame_qIn f
  have e3 := frame_lost f
  have e4 := frame_accepted f
  refine ⟨⟨?_, ?_⟩, e1, e2, e3, e4⟩
  · intro x h
    unfold Somewhere at h
    rcases h with h | ⟨q, hq, rfl⟩ | h
    · exact p.sw x (Or.inl h)
    · exact swq q hq
    · exact p.sw x (Or.inr (Or.inr h))
  · intro g
    exact p.good ⟨g.handed, g.disc, g.send, g.buf⟩

theorem stopIn_spec (s : St) : Pres keep s (stopIn c keep s) ∧ (stopIn c keep s).qIn = [] ∧
    (stopIn c keep s).qPeer = s.qPeer ∧ (c.fixed = true → (stopIn c keep s).lost = s.lost) ∧
    (stopIn c keep s).accepted = s.accepted := by
  unfold stopIn
  by_cases hf : c.fixed = true
  · rw [if_pos hf]
    obtain ⟨p, swq, f, _⟩ := processAll_pres c keep s.qIn { s with qIn := [] }
    have e1 := frame_qIn f
    have e2 := frame_qPeer f
    have e3 := frame_lost f
    have e4 := frame_accepted f
    refine ⟨⟨?_, ?_⟩, e1, e2, fun _ => e3, e4⟩
    · intro x h
      unfold Somewhere at h
      rcases h with ⟨q, hq, rfl⟩ | h
      · exact swq q hq
      · exact p.sw x (Or.inr h)
    · intro g
      exact p.good ⟨g.handed, g.disc, g.send, g.buf⟩
  · rw [if_neg hf]
    refine ⟨⟨?_, ?_⟩, rfl, rfl, fun h => absurd h hf, rfl⟩
    · intro x h
      unfold Somewhere at *
      rcases h with ⟨q, hq, rfl⟩ | h | h | h | h | h | h
      · refine Or.inr (Or.inr (Or.inr (Or.inr (Or.inr (Or.inr ?_)))))
        exact List.mem_append_right _ (List.mem_map.mpr ⟨q, hq, rfl⟩)
      · exact Or.inr (Or.inl h)
      · exact Or.inr (Or.inr (Or.inl h))
      · exact Or.inr (Or.inr (Or.inr (Or.inl h)))
      · exact Or.inr (Or.inr (Or.inr (Or.inr (Or.inl h))))
      · exact Or.inr (Or.inr (Or.inr (Or.inr (Or.inr (Or.inl h)))))
      · exact Or.inr (Or.inr (Or.inr (Or.inr (Or.inr (Or.inr (List.mem_append_left _ h))))))
    · intro g
      exact ⟨g.handed, g.disc, g.send, g.buf⟩

theorem stopBuf_spec (s : St) : Pres keep s (stopBuf c keep s) ∧ frame (stopBuf c keep s) = frame s ∧
    (c.fixed = true → (stopBuf c keep s).buf = []) := by
  unfold stopBuf
  by_cases hf : c.fixed = true
  · rw [if_pos hf]
    obtain ⟨sw1, sw2, f, b⟩ := decideTraces_sw keep { s with buf := [] } s.buf
    refine ⟨⟨?_, ?_⟩, f, fun _ => b⟩
    · intro x h
      unfold Somewhere at h
      rcases h with h | h | ⟨t, ht, hx⟩ | h
      · exact sw1 x (Or.inl h)
      · exact sw1 x (Or.inr (Or.inl h))
      · exact sw2 t ht x hx
      · exact sw1 x (Or.inr (Or.inr (Or.inr h)))
    · intro g
      exact decideTraces_good keep _ _ g.buf ⟨g.handed, g.disc, g.send, by simp⟩
  · rw [if_neg hf]
    exact ⟨Pres.refl _ _, rfl, fun h => absurd h hf⟩

theorem stopBody_spec (s : St) (g : Good keep s) :
    (∀ x, Somewhere s x → Somewhere (stopBody c keep s) x) ∧ Good keep (stopBody c keep s) ∧
    (stopBody c keep s).accepted = s.accepted ∧ (stopBody c keep s).qIn = [] ∧
    (stopBody c keep s).qPeer = [] ∧ (stopBody c keep s).toSend = [] ∧
    (stopBody c keep s).stopped = true ∧
    (c.fixed = true → (stopBody c keep s).buf = [] ∧ (stopBody c keep s).lost = s.lost) := by
  obtain ⟨p1, q1, i1, l1, a1⟩ := stopPeer_spec c keep s
  obtain ⟨p2, i2, q2, l2, a2⟩ := stopIn_spec c keep (stopPeer c keep s)
  obtain ⟨p3, f3, b3⟩ := stopBuf_spec c keep (stopIn c keep (stopPeer c keep s))
  have g3 := p3.good (p2.good (p1.good g))
  obtain ⟨p4, f4, b4, t4⟩ := drain_pres c keep (stopBuf c keep (stopIn c keep (stopPeer c keep s))) g3
  have p := ((p1.trans p2).trans p3).trans p4
  have g4 := p.good g
  unfold stopBody
  refine ⟨?_, ⟨g4.handed, g4.disc, g4.send, g4.buf⟩, ?_, ?_, ?_, t4, rfl, ?_⟩
  · intro x h; exact p.sw x h
  · exact (frame_accepted f4).trans ((frame_accepted f3).trans (a2.trans a1))
  · exact (frame_qIn f4).trans ((frame_qIn f3).trans i2)
  · exact (frame_qPeer f4).trans ((frame_qPeer f3).trans (q2.trans q1))
  · intro hf
    exact ⟨b4.trans (b3 hf), (frame_lost f4).trans ((frame_lost f3).trans ((l2 hf).trans l1))⟩

/-! ## The invariant of every reachable state -/

structure Inv (c : Cfg) (keep : Nat → Bool) (s : St) : Prop where
  acc : ∀ x ∈ s.accepted, Somewhere s x
  good : Good keep s
  stopped : s.stopped = true → s.qIn = [] ∧ s.qPeer = [] ∧ s.toSend = [] ∧ (c.fixed = true → s.buf = [])
  lost : c.fixed = true → s.lost = []

def core (s : St) := (s.qIn, s.qPeer, s.buf, s.toSend, s.stopped, s.accepted, s.handed, s.discarded, s.lost)

theorem inv_core {s s' : St} (h : core s' = core s) (hi : Inv c keep s) : Inv c keep s' := by
  simp only [core, Prod.mk.injEq] at h
  obtain ⟨h1, h2, h3, h4, h5, h6, h7, h8, h9⟩ := h
  refine ⟨?_, ⟨?_, ?_, ?_, ?_⟩, ?_, ?_⟩
  · intro x hx
    rw [h6] at hx
    have := hi.acc x hx
    unfold Somewhere at *
    rw [h1, h2, h3, h4, h7, h8, h9]; exact this
  · rw [h7]; exact hi.good.handed
  · rw [h8]; exact hi.good.disc
  · rw [h4]; exact hi.good.send
  · rw [h3]; exact hi.good.buf
  · rw [h5, h1, h2, h3, h4]; exact hi.stopped
  · rw [h9]; exact hi.lost

theorem inv_init : Inv c keep init := by
  refine ⟨by simp [init], ⟨by simp [init], by simp [init], by simp [init], by simp [init]⟩, by simp [init], by simp [init]⟩

/-- a worker / sender step of a collector that has not been stopped -/
theorem inv_pres {s s' : St} (hi : Inv c keep s) (hs : s.stopped = false) (p : Pres keep s s')
    (f : frame s' = frame s) : Inv c keep s' := by
  refine ⟨?_, p.good hi.good, ?_, ?_⟩
  · intro x hx
    rw [frame_accepted f] at hx
    exact p.sw x (hi.acc x hx)
  · intro h; rw [frame_stopped f, hs] at h; cases h
  · intro h; rw [frame_lost f]; exact hi.lost h

theorem inv_queue (s : St) (now : Int) (w : Nat) (peer : Bool) (sp : Span) (hi : Inv c keep s)
    (hs : s.stopped = false) :
    Inv c keep (if peer then { s with now := now, accepted := s.accepted ++ [sp], qPeer := s.qPeer ++ [(w, sp)] }
                else { s with now := now, accepted := s.accepted ++ [sp], qIn := s.qIn ++ [(w, sp)] }) := by
  cases peer
  · simp only [Bool.false_eq_true, if_false]
    refine ⟨?_, ⟨hi.good.handed, hi.good.disc, hi.good.send, hi.good.buf⟩, ?_, hi.lost⟩
    · intro x hx
      rcases List.mem_append.mp hx with hx | hx
      · have := hi.acc x hx
        unfold Somewhere at *
        rcases this with ⟨q, hq, hqx⟩ | h
        · exact Or.inl ⟨q, List.mem_append_left _ hq, hqx⟩
        · exact Or.inr h
      · have : x = sp := by simpa using hx
        subst this
        exact Or.inl ⟨(w, x), by simp, rfl⟩
    · intro h; rw [hs] at h; cases h
  · simp only [if_true]
    refine ⟨?_, ⟨hi.good.handed, hi.good.disc, hi.good.send, hi.good.buf⟩, ?_, hi.lost⟩
    · intro x hx
      rcases List.mem_append.mp hx with hx | hx
      · have := hi.acc x hx
        unfold Somewhere at *
        rcases this with h | ⟨q, hq, hqx⟩ | h
        · exact Or.inl h
        · exact Or.inr (Or.inl ⟨q, List.mem_append_left _ hq, hqx⟩)
        · exact Or.inr (Or.inr h)
      · have : x = sp := by simpa using hx
        subst this
        exact Or.inr (Or.inl ⟨(w, x), by simp, rfl⟩)
    · intro h; rw [hs] at h; cases h

theorem step_inv (s : St) (o : Op) (hi : Inv c keep s) : Inv c keep (step c keep s o).1 := by
  by_cases hs : s.stopped = true
  · -- a stopped collector: nothing but the clocks and the transmission changes
    have hq := hi.stopped hs
    cases o with
    | span dt w peer sp =>
      show Inv c keep (spanOp c keep s dt w peer sp).1
      unfold spanOp
      rw [if_pos hs]
      exact inv_core c keep (s := s) rfl hi
    | hold w =>
      simp only [step]
      rw [if_pos (by simp [hs])]
      exact hi
    | tick ns =>
      show Inv c keep (tick keep s ns)
      unfold tick
      rw [if_pos hs]
      exact inv_core c keep (s := s) rfl hi
    | fwd => simp only [step, hq.2.2.1]; exact hi
    | ev sid dest => exact inv_core c keep (s := s) rfl hi
    | txtick ns => exact inv_core c keep (s := s) rfl hi
    | stop => simp only [step]; rw [if_pos hs]; exact hi
    | tickstop ns => simp only [step]; rw [if_pos hs]; exact inv_core c keep (s := s) rfl hi
    | txstop => exact inv_core c keep (s := s) rfl hi
  · have hs' : s.stopped = false := by simpa using hs
    cases o with
    | span dt w peer sp =>
      show Inv c keep (spanOp c keep s dt w peer sp).1
      unfold spanOp
      rw [if_neg hs]
      by_cases hh : s.held.contains w = true
      · rw [if_pos hh]
        exact inv_queue c keep s _ w peer sp hi hs'
      · rw [if_neg hh]
        show Inv c keep (processK c keep { s with now := s.now + dt, accepted := s.accepted ++ [sp] } w sp).1
        obtain ⟨p, sw, f, _⟩ := processK_pres c keep { s with now := s.now + dt, accepted := s.accepted ++ [sp] } w sp
        have ea := frame_accepted f
        have es := frame_stopped f
        have el := frame_lost f
        refine ⟨?_, ?_, ?_, ?_⟩
        · intro x hx
          rw [ea] at hx
          rcases List.mem_append.mp hx with hx | hx
          · exact p.sw x (hi.acc x hx)
          · have : x = sp := by simpa using hx
            subst this; exact sw
        · exact p.good ⟨hi.good.handed, hi.good.disc, hi.good.send, hi.good.buf⟩
        · intro h; rw [es] at h; exact absurd h hs
        · intro h; rw [el]; exact hi.lost h
    | hold w =>
      simp only [step]
      split
      · exact hi
      · exact inv_core c keep (s := s) rfl hi
    | tick ns =>
      obtain ⟨p, f⟩ := tick_pres keep s ns
      exact inv_pres c keep hi hs' p f
    | fwd =>
      simp only [step]
      cases hts : s.toSend with
      | nil => exact hi
      | cons t r =>
        obtain ⟨p, f⟩ := fwdOne_pres c keep s hi.good
        exact inv_pres c keep hi hs' p f
    | ev sid dest => exact inv_core c keep (s := s) rfl hi
    | txtick ns => exact inv_core c keep (s := s) rfl hi
    | stop =>
      simp only [step]
      rw [if_neg hs]
      obtain ⟨sw, g, a, i, q, t, st, fx⟩ := stopBody_spec c keep s hi.good
      refine ⟨?_, g, fun _ => ⟨i, q, t, fun hf => (fx hf).1⟩, fun hf => ?_⟩
      · intro x hx; rw [a] at hx; exact sw x (hi.acc x hx)
      · rw [(fx hf).2]; exact hi.lost hf
    | tickstop ns =>
      simp only [step]
      rw [if_neg hs]
      obtain ⟨p, f⟩ := tickUpTo_pres keep s ns
      have hi1 : Inv c keep (tickUpTo keep s ns) := inv_pres c keep hi hs' p f
      obtain ⟨sw, g, a, i, q, t, st, fx⟩ := stopBody_spec c keep (tickUpTo keep s ns) hi1.good
      refine ⟨?_, g, fun _ => ⟨i, q, t, fun hf => (fx hf).1⟩, fun hf => ?_⟩
      · intro x hx; rw [a] at hx; exact sw x (hi1.acc x hx)
      · rw [(fx hf).2]; exact hi1.lost hf
    | txstop => exact inv_core c keep (s := s) rfl hi

theorem run_append (ops ops' : List Op) :
    run c keep (ops ++ ops') = ops'.foldl (fun s o => (step c keep s o).1) (run c keep ops) := by
  simp [run, List.foldl_append]

theorem run_snoc (ops : List Op) (o : Op) : run c keep (ops ++ [o]) = (step c keep (run c keep ops) o).1 := by
  simp [run_append]

theorem fold_inv (ops : List Op) : ∀ s, Inv c keep s → Inv c keep (ops.foldl (fun s o => (step c keep s o).1) s) := by
  induction ops with
  | nil => intro s h; exact h
  | cons o l ih => intro s h; exact ih _ (step_inv c keep s o h)

theorem run_inv (ops : List Op) : Inv c keep (run c keep ops) := fold_inv c keep ops init (inv_init c keep)

/-! ### the transmission inside the collector state -/

section txpres
variable (P : Tx → Prop) (hE : ∀ t d e, P t → P (t.enqueue c d e).1)
include hE

theorem handAll_tx (sps : List Span) : ∀ s : St, P s.tx → P (handAll c s sps).tx := by
  induction sps with
  | nil => intro s h; exact h
  | cons a l ih => intro s h; exact ih _ (hE _ _ _ h)

theorem processK_tx (s : St) (w : Nat) (sp : Span) (h : P s.tx) : P (processK c keep s w sp).1.tx := by
  unfold processK
  split
  · exact h
  · split
    · split
      · exact hE _ _ _ h
      · exact h
    · exact h

theorem processAll_tx (l : List (Nat × Span)) : ∀ s : St, P s.tx → P (processAll c keep s l).tx := by
  induction l with
  | nil => intro s h; exact h
  | cons a l ih => intro s h; exact ih _ (processK_tx c keep P hE s a.1 a.2 h)

theorem stopBody_tx (s : St) (h : P s.tx) : P (stopBody c keep s).tx := by
  have h1 : P (stopPeer c keep s).tx := processAll_tx c keep P hE _ _ h
  have h2 : P (stopIn c keep (stopPeer c keep s)).tx := by
    unfold stopIn; split
    · exact processAll_tx c keep P hE _ _ h1
    · exact h1
  have h3 : P (stopBuf c keep (stopIn c keep (stopPeer c keep s))).tx := by
    unfold stopBuf; split
    · exact h2
    · exact h2
  exact handAll_tx c P hE _ _ h3

theorem step_tx (hT : ∀ t ns, P t → P (t.tick c ns)) (hS : ∀ t, P t → P t.stop) (s : St) (o : Op)
    (h : P s.tx) : P (step c keep s o).1.tx := by
  cases o with
  | span dt w peer sp =>
    show P (spanOp c keep s dt w peer sp).1.tx
    unfold spanOp
    split
    · exact h
    · split
      · cases peer <;> exact h
      · exact processK_tx c keep P hE _ _ _ h
  | hold w => simp only [step]; split <;> exact h
  | tick ns => show P (tick keep s ns).tx; unfold tick; split <;> exact h
  | fwd =>
    simp only [step]
    cases hts : s.toSend with
    | nil => exact h
    | cons t r =>
      show P (fwdOne c s).tx
      unfold fwdOne; rw [hts]
      exact handAll_tx c P hE _ _ h
  | ev sid dest => exact hE _ _ _ h
  | txtick ns => exact hT _ _ h
  | stop =>
    simp only [step]; split
    · exact h
    · exact stopBody_tx c keep P hE s h
  | tickstop ns =>
    simp only [step]; split
    · exact h
    · exact stopBody_tx c keep P hE _ h
  | txstop => exact hS _ h

theorem fold_tx (hT : ∀ t ns, P t → P (t.tick c ns)) (hS : ∀ t, P t → P t.stop) (ops : List Op) :
    ∀ s : St, P s.tx → P (ops.foldl (fun s o => (step c keep s o).1) s).tx := by
  induction ops with
  | nil => intro s h; exact h
  | cons o l ih => intro s h; exact ih _ (step_tx c keep P hE hT hS s o h)

end txpres

theorem run_txinv (ops : List Op) : TxInv (run c keep ops).tx :=
  fold_tx c keep TxInv (fun t d e h => txinv_enqueue c t d e h) (fun t ns h => txinv_tick c t ns h)
    (fun t h => txinv_stop t h) ops init txinv_init

theorem enqueue_stopped (t : Tx) (d e : Nat) (h : t.stopped = true) : (t.enqueue c d e).1.stopped = true := by
  unfold Tx.enqueue; rw [if_pos h]; split <;> exact h

theorem tick_stopped (t : Tx) (ns : Nat) (h : t.stopped = true) : (t.tick c ns).stopped = true := by
  unfold Tx.tick; rw [if_pos h]; exact h

theorem stop_keeps_stopped (t : Tx) (_ : t.stopped = true) : t.stop.stopped = true := stop_stopped t

end collector

theorem stop_sets_stopped (c : Cfg) (keep : Nat → Bool) (s : St) : (step c keep s .stop).1.stopped = true := by
  simp only [step]
  by_cases h : s.stopped = true
  · rw [if_pos h]; exact h
  · rw [if_neg h]; rfl

/-- a stopped collector with empty buffers and nothing lost has decided everything -/
theorem decided_of_clean {c : Cfg} {keep : Nat → Bool} {s : St} (hi : Inv c keep s) (hs : s.stopped = true)
    (hb : s.buf = []) (hl : s.lost = []) :
    s.buf = [] ∧ s.qIn = [] ∧ s.qPeer = [] ∧ s.toSend = [] ∧
    ∀ x ∈ s.accepted, (x ∈ s.handed ↔ keep x.tid = true) := by
  obtain ⟨hq, hp, ht, _⟩ := hi.stopped hs
  refine ⟨hb, hq, hp, ht, ?_⟩
  intro x hx
  have hsw := hi.acc x hx
  unfold Somewhere at hsw
  rw [hq, hp, hb, ht, hl] at hsw
  constructor
  · exact hi.good.handed x
  · intro hk
    rcases hsw with ⟨_, h, _⟩ | ⟨_, h, _⟩ | ⟨_, h, _⟩ | ⟨_, h, _⟩ | h | h | h
    · cases h
    · cases h
    · cases h
    · cases h
    · exact h
    · have := hi.good.disc x h; rw [hk] at this; cases this
    · cases h

section stopparts
variable (c : Cfg) (keep : Nat → Bool)

theorem nostop_fold (ops : List Op) (hns : ∀ o ∈ ops, o.isStop = false) : ∀ s : St, s.stopped = false → s.lost = [] →
    (ops.foldl (fun s o => (step c keep s o).1) s).stopped = false ∧
    (ops.foldl (fun s o => (step c keep s o).1) s).lost = [] := by
  induction ops with
  | nil => intro s h1 h2; exact ⟨h1, h2⟩
  | cons o l ih =>
    intro s h1 h2
    have hne : o.isStop = false := hns o (by simp)
    have hl : ∀ o' ∈ l, o'.isStop = false := fun o' h => hns o' (by simp [h])
    have hs : s.stopped ≠ true := by simp [h1]
    apply ih hl
    · cases o with
      | span dt w peer sp =>
        show (spanOp c keep s dt w peer sp).1.stopped = false
        unfold spanOp; rw [if_neg hs]
        split
        · cases peer <;> exact h1
        · exact (frame_stopped (processK_pres c keep _ w sp).2.2.1).trans h1
      | hold w => simp only [step]; split <;> exact h1
      | tick ns => exact (frame_stopped (tick_pres keep s ns).2).trans h1
      | fwd =>
        simp only [step]
        cases hts : s.toSend with
        | nil => exact h1
        | cons t r =>
          show (fwdOne c s).stopped = false
          unfold fwdOne; rw [hts]
          have hh : ∀ (sps : List Span) (s' : St), (handAll c s' sps).stopped = s'.stopped := by
            intro sps; induction sps with
            | nil => intro s'; rfl
            | cons a l ih => intro s'; exact ih (hand c s' a)
          rw [hh]; exact h1
      | ev sid dest => exact h1
      | txtick ns => exact h1
      | stop => simp [Op.isStop] at hne
      | tickstop ns => simp [Op.isStop] at hne
      | txstop => exact h1
    · cases o with
      | span dt w peer sp =>
        show (spanOp c keep s dt w peer sp).1.lost = []
        unfold spanOp; rw [if_neg hs]
        split
        · cases peer <;> exact h2
        · exact (frame_lost (processK_pres c keep _ w sp).2.2.1).trans h2
      | hold w => simp only [step]; split <;> exact h2
      | tick ns => exact (frame_lost (tick_pres keep s ns).2).trans h2
      | fwd =>
        simp only [step]
        cases hts : s.toSend with
        | nil => exact h2
        | cons t r =>
          show (fwdOne c s).lost = []
          unfold fwdOne; rw [hts]
          have hh : ∀ (sps : List Span) (s' : St), (handAll c s' sps).lost = s'.lost := by
            intro sps; induction sps with
            | nil => intro s'; rfl
            | cons a l ih => intro s'; exact ih (hand c s' a)
          rw [hh]; exact h2
      | ev sid dest => exact h2
      | txtick ns => exact h2
      | stop => simp [Op.isStop] at hne
      | tickstop ns => simp [Op.isStop] at hne
      | txstop => exact h2

theorem stopBody_clean (s : St) (g : Good keep s) (hf : c.fixed = false) (hb : s.buf = []) (hq : s.qIn = [])
    (hp : s.qPeer = []) : (stopBody c keep s).buf = [] ∧ (stopBody c keep s).lost = s.lost := by
  have hf' : ¬ c.fixed = true := by simp [hf]
  have h1 : stopPeer c keep s = { s with qPeer := [] } := by unfold stopPeer; rw [hp]; rfl
  have h2 : stopIn c keep (stopPeer c keep s) = { s with qPeer := [], qIn := [], lost := s.lost ++ [] } := by
    unfold stopIn; rw [if_neg hf', h1]; simp [hq]
  have h3 : stopBuf c keep (stopIn c keep (stopPeer c keep s)) = stopIn c keep (stopPeer c keep s) := by
    unfold stopBuf; rw [if_neg hf']
  obtain ⟨p1, _⟩ := stopPeer_spec c keep s
  obtain ⟨p2, _⟩ := stopIn_spec c keep (stopPeer c keep s)
  obtain ⟨p3, _⟩ := stopBuf_spec c keep (stopIn c keep (stopPeer c keep s))
  obtain ⟨_, f4, b4, _⟩ := drain_pres c keep _ (p3.good (p2.good (p1.good g)))
  have fl := frame_lost f4
  unfold stopBody
  refine ⟨?_, ?_⟩
  · show (drain c (stopBuf c keep (stopIn c keep (stopPeer c keep s)))).buf = []
    rw [b4, h3, h2]; exact hb
  · show (drain c (stopBuf c keep (stopIn c keep (stopPeer c keep s)))).lost = s.lost
    rw [fl, h3, h2]; simp

theorem handAll_hands (sps : List Span) : ∀ (s : St), (∀ x ∈ sps, x ∈ (handAll c s sps).handed) ∧
    (∀ x ∈ s.handed, x ∈ (handAll c s sps).handed) := by
  induction sps with
  | nil => intro s; exact ⟨by simp, fun x h => h⟩
  | cons a l ih =>
    intro s
    obtain ⟨h1, h2⟩ := ih (hand c s a)
    refine ⟨?_, fun x hx => h2 x (by simp [hand, hx])⟩
    intro x hx
    rcases List.mem_cons.mp hx with rfl | hx
    · exact h2 _ (by simp [hand])
    · exact h1 x hx

theorem stop_toSend_mono (s : St) (t : Trace) (ht : t ∈ s.toSend) :
    t ∈ (stopBuf c keep (stopIn c keep (stopPeer c keep s))).toSend := by
  have e1 : (stopPeer c keep s).toSend = s.toSend := by
    unfold stopPeer; exact (processAll_pres c keep _ _).2.2.2
  have e2 : (stopIn c keep (stopPeer c keep s)).toSend = s.toSend := by
    unfold stopIn; split
    · exact ((processAll_pres c keep _ _).2.2.2).trans e1
    · exact e1
  unfold stopBuf; split
  · simp only [decideTraces, List.mem_append]; left; rw [e2]; exact ht
  · rw [e2]; exact ht

end stopparts

theorem hc_exited_stays (fixed : Bool) (evs : List HcEv) : evs.foldl (hcStep fixed) .exited = .exited := by
  induction evs with
  | nil => rfl
  | cons e l ih => exact ih

/-! ## the usage loop after `cancel()` -/

/-- how far the cancelled loop is from its exit: rank of the select it is blocked in, plus 3 while a
tick is still waiting in the ticker's channel -/
def mu (s : USt) : Nat :=
  match s.loc with
  | .exited => 0
  | .idle => 1 + (if s.tick then 3 else 0)
  | .waitSent => 2 + (if s.tick then 3 else 0)
  | .waitPending => 3 + (if s.tick then 3 else 0)

theorem mu_le (s : USt) : mu s ≤ 6 := by
  obtain ⟨loc, tick, cancelled, chClosed, cur, last, script, calls⟩ := s
  cases loc <;> cases tick <;> simp [mu]

theorem mu_zero (s : USt) (h : mu s = 0) : s.loc = .exited := by
  obtain ⟨loc, tick, cancelled, chClosed, cur, last, script, calls⟩ := s
  cases loc <;> cases tick <;> simp [mu] at h ⊢

/-- a cancelled loop that has not exited is never blocked, stays cancelled, and every step it
takes — whichever ready case the runtime picks, whatever the client answers — brings it closer -/
theorem ustep_cancelled (ch : Bool) (s : USt) (hc : s.cancelled = true) (hl : s.loc ≠ .exited) :
    ∃ s', ustep ch s = some s' ∧ s'.cancelled = true ∧ mu s' < mu s := by
  obtain ⟨loc, tick, cancelled, chClosed, cur, last, script, calls⟩ := s
  simp only at hc hl
  subst hc
  cases loc <;> cases tick <;> cases chClosed <;> cases ch <;>
    simp [ustep, mu, sendReport, retrySend, USt.nextOut, USt.called] at hl ⊢ <;>
    (try (cases cur <;> cases last <;> simp)) <;>
    (try (cases script with
      | nil => simp
      | cons o r => cases o <;> simp))

theorem urun_exits (choices : List Bool) : ∀ s : USt, s.cancelled = true → mu s ≤ choices.length →
    (urun choices s).loc = .exited := by
  induction choices with
  | nil => intro s _ h; exact mu_zero s (by simpa using h)
  | cons ch rest ih =>
    intro s hc h
    by_cases hl : s.loc = .exited
    · have hn : ustep ch s = none := by unfold ustep; rw [hl]
      have hm : mu s = 0 := by unfold mu; rw [hl]
      show (urun rest ((ustep ch s).getD s)).loc = .exited
      rw [hn]; exact ih s hc (by simp [hm])
    · obtain ⟨s', hs, hc', hlt⟩ := ustep_cancelled ch s hc hl
      show (urun rest ((ustep ch s).getD s)).loc = .exited
      rw [hs]
      exact ih s' hc' (by simp at h ⊢; omega)

/-! ## `Stop`'s coded order and the producers of `tracesToSend` -/

/-- `tracesToSend` is closed only after `workersWG.Wait()` has returned, and then no worker is left -/
structure PInv (s : PSt) : Prop where
  ok : s.violated = false
  gone : 2 ≤ s.pc → s.live = []
  closed : s.outClosed = true → 2 ≤ s.pc

theorem pinv_step (s : PSt) (e : PEv) (h : PInv s) : PInv (pstep codedOrder s e) := by
  cases e with
  | pass w k =>
    simp only [pstep]; split
    · exact ⟨h.ok, h.gone, h.closed⟩
    · exact h
  | work w =>
    simp only [pstep]
    by_cases hw : w ∈ s.live
    · rw [if_pos hw]
      have hpc : ¬ 2 ≤ s.pc := fun h2 => by rw [h.gone h2] at hw; cases hw
      have hoc : s.outClosed = false := by
        cases ho : s.outClosed with
        | false => rfl
        | true => exact absurd (h.closed ho) hpc
      split
      · exact ⟨by simp [h.ok, hoc], fun h2 => absurd h2 hpc, fun ho => by simp [hoc] at ho⟩
      · split
        · exact ⟨h.ok, fun h2 => absurd h2 hpc, fun ho => by simp [hoc] at ho⟩
        · exact h
    · rw [if_neg hw]; exact h
  | stop =>
    obtain ⟨pc, live, pend, ic, oc, v⟩ := s
    obtain ⟨hok, hgone, hclosed⟩ := h
    simp only at hok hgone hclosed
    match pc with
    | 0 =>
      simp only [pstep, codedOrder]
      refine ⟨hok, fun h2 => by simp at h2, fun ho => ?_⟩
      have := hclosed ho; simp at this
    | 1 =>
      simp only [pstep, codedOrder]
      by_cases hl : live = []
      · simp only [hl, if_true]
        exact ⟨hok, fun _ => rfl, fun _ => by simp⟩
      · simp only [hl, if_false]
        exact ⟨hok, hgone, hclosed⟩
    | 2 =>
      simp only [pstep, codedOrder]
      exact ⟨hok, fun _ => hgone (by simp), fun _ => by simp⟩
    | 3 =>
      simp only [pstep, codedOrder]
      exact ⟨hok, fun _ => hgone (by simp), fun _ => by simp⟩
    | n + 4 =>
      simp only [pstep, codedOrder]
      exact ⟨hok, hgone, hclosed⟩

theorem pinv_run (workers : List Nat) (evs : List PEv) : PInv (prun codedOrder workers evs) := by
  unfold prun
  suffices ∀ s, PInv s → PInv (evs.foldl (pstep codedOrder) s) from
    this _ ⟨rfl, fun h => by simp at h, fun h => by simp at h⟩
  induction evs with
  | nil => intro s h; exact h
  | cons e l ih => intro s h; exact ih _ (pinv_step s e h)

/-! ## Retry-After and the shutdown flush -/

/-- where an accepted event can be: delivered, still pending, or in a batch that sleeps -/
def RLoc (s : RSt) (e : Nat) : Prop :=
  (∃ b ∈ s.delivered, e ∈ b.2) ∨ (∃ p ∈ s.pending, e ∈ p.2) ∨ (∃ b ∈ s.sleeping, e ∈ b.evs)

/-- nothing dropped, no early retry; every sleeping batch waits exactly for the instant its
destination accepts again; that instant is never more than `r` away -/
structure RCore (c : RCfg) (s : RSt) : Prop where
  dropped : s.dropped = []
  early : s.early = 0
  wake : ∀ b ∈ s.sleeping, AList.get s.acceptAt b.dest = some b.wake
  near : ∀ d a, AList.get s.acceptAt d = some a → a - s.now ≤ c.r

section retry
variable (c : RCfg) (hr : 0 < c.r ∧ c.r < 60)
include hr

theorem firstAttempt_core (s : RSt) (d : Nat) (evs : List Nat) (h : RCore c s) :
    RCore c (s.firstAttempt c d evs) ∧ (∀ e, RLoc s e → RLoc (s.firstAttempt c d evs) e) ∧
    (∀ e ∈ evs, RLoc (s.firstAttempt c d evs) e) ∧ (s.firstAttempt c d evs).pending = s.pending ∧
    (s.firstAttempt c d evs).now = s.now ∧ (s.firstAttempt c d evs).stopped = s.stopped ∧
    (s.firstAttempt c d evs).acc = s.acc := by
  have hdel : RCore c (s.deliver d evs) ∧ (∀ e, RLoc s e → RLoc (s.deliver d evs) e) ∧
      (∀ e ∈ evs, RLoc (s.deliver d evs) e) := by
    refine ⟨⟨h.dropped, h.early, h.wake, h.near⟩, ?_, ?_⟩
    · intro e he
      rcases he with ⟨b, hb, hx⟩ | he
      · exact Or.inl ⟨b, List.mem_append_left _ hb, hx⟩
      · exact Or.inr he
    · intro e he
      exact Or.inl ⟨(d, evs), by simp [RSt.deliver], he⟩
  unfold RSt.firstAttempt
  by_cases hl : (!c.lim.contains d) = true
  · rw [if_pos hl]; exact ⟨hdel.1, hdel.2.1, hdel.2.2, rfl, rfl, rfl, rfl⟩
  · rw [if_neg hl]
    cases hg : AList.get s.acceptAt d with
    | none =>
      simp only []
      unfold RSt.sleepOrDrop
      have hra : 0 < s.now + c.r - s.now ∧ s.now + c.r - s.now < 60 := by omega
      rw [if_pos hra]
      refine ⟨⟨h.dropped, h.early, ?_, ?_⟩, ?_, ?_, rfl, rfl, rfl, rfl⟩
      · intro b hb
        show AList.get (AList.put s.acceptAt d (s.now + c.r)) b.dest = some b.wake
        rw [AList.get_put]
        rcases List.mem_append.mp hb with hb | hb
        · have hw := h.wake b hb
          have : d ≠ b.dest := by intro e; rw [← e, hg] at hw; cases hw
          simp [this, hw]
        · have : b = { dest := d, evs := evs, wake := s.now + c.r } := by simpa using hb
          subst this; simp
      · intro d' a ha
        change AList.get (AList.put s.acceptAt d (s.now + c.r)) d' = some a at ha
        rw [AList.get_put] at ha
        by_cases hd : d = d'
        · simp [hd] at ha; show a - s.now ≤ c.r; omega
        · simp [hd] at ha; exact h.near d' a ha
      · intro e he
        rcases he with he | he | ⟨b, hb, hx⟩
        · exact Or.inl he
        · exact Or.inr (Or.inl he)
        · exact Or.inr (Or.inr ⟨b, List.mem_append_left _ hb, hx⟩)
      · intro e he
        exact Or.inr (Or.inr ⟨{ dest := d, evs := evs, wake := s.now + c.r }, by simp, he⟩)
    | some a =>
      simp only []
      by_cases ha : a ≤ s.now
      · rw [if_pos ha]; exact ⟨hdel.1, hdel.2.1, hdel.2.2, rfl, rfl, rfl, rfl⟩
      · rw [if_neg ha]
        unfold RSt.sleepOrDrop
        have hn := h.near d a hg
        have hra : 0 < a - s.now ∧ a - s.now < 60 := by omega
        rw [if_pos hra]
        refine ⟨⟨h.dropped, h.early, ?_, h.near⟩, ?_, ?_, rfl, rfl, rfl, rfl⟩
        · intro b hb
          rcases List.mem_append.mp hb with hb | hb
          · exact h.wake b hb
          · have : b = { dest := d, evs := evs, wake := a } := by simpa using hb
            subst this; exact hg
        · intro e he
          rcases he with he | he | ⟨b, hb, hx⟩
          · exact Or.inl he
          · exact Or.inr (Or.inl he)
          · exact Or.inr (Or.inr ⟨b, List.mem_append_left _ hb, hx⟩)
        · intro e he
          exact Or.inr (Or.inr ⟨{ dest := d, evs := evs, wake := a }, by simp, he⟩)

omit hr in
/-- a retry whose sleep is over is accepted -/
theorem retry_due (s : RSt) (b : RSleep) (hg : AList.get s.acceptAt b.dest = some b.wake) (hd : b.wake ≤ s.now) :
    s.retry b = s.deliver b.dest b.evs := by
  unfold RSt.retry; rw [hg]; simp [hd]

omit hr in
theorem retryAll_due (l : List RSleep) : ∀ (s : RSt), RCore c s →
    (∀ b ∈ l, AList.get s.acceptAt b.dest = some b.wake ∧ b.wake ≤ s.now) →
    RCore c (l.foldl RSt.retry s) ∧ (∀ e, RLoc s e → RLoc (l.foldl RSt.retry s) e) ∧
    (∀ b ∈ l, ∀ e ∈ b.evs, RLoc (l.foldl RSt.retry s) e) ∧ (l.foldl RSt.retry s).pending = s.pending ∧
    (l.foldl RSt.retry s).sleeping = s.sleeping ∧ (l.foldl RSt.retry s).now = s.now ∧
    (l.foldl RSt.retry s).stopped = s.stopped ∧ (l.foldl RSt.retry s).acc = s.acc := by
  induction l with
  | nil => intro s h _; exact ⟨h, fun e he => he, by simp, rfl, rfl, rfl, rfl, rfl⟩
  | cons b l ih =>
    intro s h hl
    have hb := hl b (by simp)
    have e1 : s.retry b = s.deliver b.dest b.evs := retry_due s b hb.1 hb.2
    have hc : RCore c (s.retry b) := by rw [e1]; exact ⟨h.dropped, h.early, h.wake, h.near⟩
    obtain ⟨c2, m2, in2, p2, s2, n2, st2, a2⟩ := ih (s.retry b) hc (by
      intro b' hb'; rw [e1]; exact hl b' (by simp [hb']))
    have mono1 : ∀ e, RLoc s e → RLoc (s.retry b) e := by
      intro e he; rw [e1]
      rcases he with ⟨x, hx, hxe⟩ | he
      · exact Or.inl ⟨x, List.mem_append_left _ hx, hxe⟩
      · exact Or.inr he
    simp only [List.foldl_cons]
    refine ⟨c2, fun e he => m2 e (mono1 e he), ?_, p2.trans (by rw [e1]; rfl), s2.trans (by rw [e1]; rfl),
      n2.trans (by rw [e1]; rfl), st2.trans (by rw [e1]; rfl), a2.trans (by rw [e1]; rfl)⟩
    intro b' hb' e he
    rcases List.mem_cons.mp hb' with rfl | hb'
    · apply m2; rw [e1]; exact Or.inl ⟨(b'.dest, b'.evs), by simp [RSt.deliver], he⟩
    · exact in2 b' hb' e he

omit hr in
theorem wakeDue_core (s : RSt) (h : RCore c s) :
    RCore c s.wakeDue ∧ (∀ e, RLoc s e → RLoc s.wakeDue e) ∧ s.wakeDue.pending = s.pending ∧
    s.wakeDue.sleeping = s.sleeping.filter (fun b => !decide (b.wake ≤ s.now)) ∧
    s.wakeDue.now = s.now ∧ s.wakeDue.stopped = s.stopped ∧ s.wakeDue.acc = s.acc := by
  unfold RSt.wakeDue
  have h0 : RCore c { s with sleeping := s.sleeping.filter (fun b => !decide (b.wake ≤ s.now)) } :=
    ⟨h.dropped, h.early, fun b hb => h.wake b (List.mem_filter.mp hb).1, h.near⟩
  obtain ⟨c2, m2, in2, p2, s2, n2, st2, a2⟩ := retryAll_due c
    (s.sleeping.filter (fun b => decide (b.wake ≤ s.now))) _ h0 (by
      intro b hb
      obtain ⟨hb1, hb2⟩ := List.mem_filter.mp hb
      exact ⟨h.wake b hb1, by simpa using hb2⟩)
  refine ⟨c2, ?_, p2, s2, n2, st2, a2⟩
  intro e he
  rcases he with he | he | ⟨b, hb, hx⟩
  · exact m2 e (Or.inl he)
  · exact m2 e (Or.inr (Or.inl he))
  · by_cases hd : b.wake ≤ s.now
    · exact in2 b (List.mem_filter.mpr ⟨hb, by simpa using hd⟩) e hx
    · exact m2 e (Or.inr (Or.inr ⟨b, List.mem_filter.mpr ⟨hb, by simpa using hd⟩, hx⟩))

theorem flushAll_core (l : List (Nat × List Nat)) : ∀ (s : RSt), RCore c s →
    RCore c (l.foldl (fun s p => s.firstAttempt c p.1 p.2) s) ∧
    (∀ e, RLoc s e → RLoc (l.foldl (fun s p => s.firstAttempt c p.1 p.2) s) e) ∧
    (∀ p ∈ l, ∀ e ∈ p.2, RLoc (l.foldl (fun s p => s.firstAttempt c p.1 p.2) s) e) ∧
    (l.foldl (fun s p => s.firstAttempt c p.1 p.2) s).pending = s.pending ∧
    (l.foldl (fun s p => s.firstAttempt c p.1 p.2) s).now = s.now ∧
    (l.foldl (fun s p => s.firstAttempt c p.1 p.2) s).stopped = s.stopped ∧
    (l.foldl (fun s p => s.firstAttempt c p.1 p.2) s).acc = s.acc := by
  induction l with
  | nil => intro s h; exact ⟨h, fun e he => he, by simp, rfl, rfl, rfl, rfl⟩
  | cons p l ih =>
    intro s h
    obtain ⟨c1, m1, in1, p1, n1, st1, a1⟩ := firstAttempt_core c hr s p.1 p.2 h
    obtain ⟨c2, m2, in2, p2, n2, st2, a2⟩ := ih (s.firstAttempt c p.1 p.2) c1
    simp only [List.foldl_cons]
    refine ⟨c2, fun e he => m2 e (m1 e he), ?_, p2.trans p1, n2.trans n1, st2.trans st1, a2.trans a1⟩
    intro q hq e he
    rcases List.mem_cons.mp hq with rfl | hq
    · exact m2 e (in1 e he)
    · exact in2 q hq e he

omit hr in
theorem lastWake_ge (l : List RSleep) : ∀ (m : Int),
    m ≤ l.foldl (fun (m : Int) (b : RSleep) => max m b.wake) m ∧
    ∀ b ∈ l, b.wake ≤ l.foldl (fun (m : Int) (b : RSleep) => max m b.wake) m := by
  induction l with
  | nil => intro m; exact ⟨Int.le_refl _, by simp⟩
  | cons a l ih =>
    intro m
    obtain ⟨h1, h2⟩ := ih (max m a.wake)
    refine ⟨by simp only [List.foldl_cons]; omega, ?_⟩
    intro b hb
    simp only [List.foldl_cons]
    rcases List.mem_cons.mp hb with rfl | hb
    · omega
    · exact h2 b hb

/-- the invariant of the transmission with a rate-limited upstream (code as it is) -/
structure RInv (c : RCfg) (s : RSt) : Prop where
  core : RCore c s
  nodup : AList.NoDupKeys s.pending
  acc : ∀ e ∈ s.acc, RLoc s e
  stopped : s.stopped = true → s.pending = [] ∧ s.sleeping = []

theorem rstop_inv (s : RSt) (hw : c.stopWakes = false) (h : RInv c s) :
    RInv c (s.stop c) ∧ (s.stop c).stopped = true := by
  unfold RSt.stop
  by_cases hs : s.stopped = true
  · rw [if_pos hs]; exact ⟨h, hs⟩
  · rw [if_neg hs, if_neg (by simp [hw])]
    -- flush
    have h0 : RCore c { s with stopped := true, pending := [] } :=
      ⟨h.core.dropped, h.core.early, h.core.wake, h.core.near⟩
    obtain ⟨c1, m1, in1, p1, n1, st1, a1⟩ := flushAll_core c hr
      (s.pending.filter (fun p => !p.2.isEmpty)) _ h0
    have hflush : ({ s with stopped := true } : RSt).flush c =
        (s.pending.filter (fun p => !p.2.isEmpty)).foldl (fun s p => s.firstAttempt c p.1 p.2)
          { s with stopped := true, pending := [] } := rfl
    rw [hflush]
    generalize hF : (s.pending.filter (fun p => !p.2.isEmpty)).foldl (fun s p => s.firstAttempt c p.1 p.2)
          ({ s with stopped := true, pending := [] } : RSt) = F at *
    have hlw := lastWake_ge F.sleeping F.now
    have c2 : RCore c { F with now := F.lastWake } := by
      refine ⟨c1.dropped, c1.early, c1.wake, ?_⟩
      intro d a ha
      have := c1.near d a ha
      show a - F.lastWake ≤ c.r
      unfold RSt.lastWake; omega
    obtain ⟨c3, m3, p3, s3, n3, st3, a3⟩ := wakeDue_core c { F with now := F.lastWake } c2
    have hsl : ({ F with now := F.lastWake } : RSt).wakeDue.sleeping = [] := by
      rw [s3]
      apply List.filter_eq_nil_iff.mpr
      intro b hb
      have : b.wake ≤ F.lastWake := hlw.2 b hb
      simpa using this
    have hpe : ({ F with now := F.lastWake } : RSt).wakeDue.pending = [] := by rw [p3]; exact p1
    refine ⟨⟨c3, by rw [hpe]; exact AList.nodup_nil, ?_, fun _ => ⟨hpe, hsl⟩⟩, by rw [st3]; exact st1⟩
    intro e he
    rw [a3] at he
    change e ∈ F.acc at he
    rw [a1] at he
    apply m3
    have hloc := h.acc e he
    rcases hloc with ⟨b, hb, hx⟩ | ⟨p, hp, hx⟩ | ⟨b, hb, hx⟩
    · exact m1 e (Or.inl ⟨b, hb, hx⟩)
    · have hne : (!p.2.isEmpty) = true := by
        cases hpe' : p.2 with
        | nil => rw [hpe'] at hx; cases hx
        | cons a as => simp
      exact in1 p (List.mem_filter.mpr ⟨hp, hne⟩) e hx
    · exact m1 e (Or.inr (Or.inr ⟨b, hb, hx⟩))

theorem rstep_inv (s : RSt) (o : ROp) (hw : c.stopWakes = false) (h : RInv c s) : RInv c (rstep c s o).1 := by
  cases o with
  | ev sid d =>
    simp only [rstep]
    by_cases hs : s.stopped = true
    · rw [if_pos hs]
      split
      · exact h
      · exact ⟨⟨h.core.dropped, h.core.early, h.core.wake, h.core.near⟩, h.nodup, h.acc, h.stopped⟩
    · rw [if_neg hs]
      -- events already pending for d are in the grown batch
      have hold : ∀ e, RLoc s e → (∃ b ∈ s.delivered, e ∈ b.2) ∨ e ∈ s.grown d sid ∨
          (∃ p ∈ s.pending, p.1 ≠ d ∧ e ∈ p.2) ∨ (∃ b ∈ s.sleeping, e ∈ b.evs) := by
        intro e he
        rcases he with he | ⟨p, hp, hx⟩ | he
        · exact Or.inl he
        · by_cases hd : p.1 = d
          · right; left
            obtain ⟨k, v⟩ := p
            simp only at hd hx; subst hd
            have := AList.get_of_mem h.nodup hp
            unfold RSt.grown; rw [this]; simp [hx]
          · exact Or.inr (Or.inr (Or.inl ⟨p, hp, hd, hx⟩))
        · exact Or.inr (Or.inr (Or.inr he))
      have hself : sid ∈ s.grown d sid := by unfold RSt.grown; simp
      by_cases hm : c.mb ≤ (s.grown d sid).length
      · rw [if_pos hm]
        have h0 : RCore c { s with acc := s.acc ++ [sid], pending := AList.put s.pending d [] } :=
          ⟨h.core.dropped, h.core.early, h.core.wake, h.core.near⟩
        obtain ⟨c1, m1, in1, p1, n1, st1, a1⟩ := firstAttempt_core c hr _ d (s.grown d sid) h0
        refine ⟨c1, by rw [p1]; exact AList.nodup_put _ h.nodup _ _, ?_, fun hst => ?_⟩
        · intro e he
          rw [a1] at he
          change e ∈ s.acc ++ [sid] at he
          rcases List.mem_append.mp he with he | he
          · rcases hold e (h.acc e he) with hb | hg | ⟨p, hp, hd, hx⟩ | hb
            · exact m1 e (Or.inl hb)
            · exact in1 e hg
            · exact m1 e (Or.inr (Or.inl ⟨p, (mem_put _ _ _ _).mpr (Or.inr ⟨hp, hd⟩), hx⟩))
            · exact m1 e (Or.inr (Or.inr hb))
          · have : e = sid := by simpa using he
            subst this; exact in1 e hself
        · rw [st1] at hst; exact absurd hst hs
      · rw [if_neg hm]
        refine ⟨⟨h.core.dropped, h.core.early, h.core.wake, h.core.near⟩, AList.nodup_put _ h.nodup _ _, ?_,
          fun hst => absurd hst hs⟩
        intro e he
        change e ∈ s.acc ++ [sid] at he
        have hput : ∀ x, x ∈ s.grown d sid → ∃ p ∈ AList.put s.pending d (s.grown d sid), x ∈ p.2 :=
          fun x hx => ⟨(d, s.grown d sid), (mem_put _ _ _ _).mpr (Or.inl rfl), hx⟩
        rcases List.mem_append.mp he with he | he
        · rcases hold e (h.acc e he) with hb | hg | ⟨p, hp, hd, hx⟩ | hb
          · exact Or.inl hb
          · exact Or.inr (Or.inl (hput e hg))
          · exact Or.inr (Or.inl ⟨p, (mem_put _ _ _ _).mpr (Or.inr ⟨hp, hd⟩), hx⟩)
          · exact Or.inr (Or.inr hb)
        · have : e = sid := by simpa using he
          subst this; exact Or.inr (Or.inl (hput e hself))
  | adv n =>
    simp only [rstep]
    have h0 : RCore c { s with now := s.now + n } := by
      refine ⟨h.core.dropped, h.core.early, h.core.wake, ?_⟩
      intro d a ha
      have := h.core.near d a ha
      show a - (s.now + n) ≤ c.r
      omega
    obtain ⟨c3, m3, p3, s3, n3, st3, a3⟩ := wakeDue_core c { s with now := s.now + n } h0
    refine ⟨c3, by rw [p3]; exact h.nodup, ?_, ?_⟩
    · intro e he; rw [a3] at he; exact m3 e (h.acc e he)
    · intro hst
      rw [st3] at hst
      obtain ⟨hp, hsl⟩ := h.stopped hst
      refine ⟨by rw [p3]; exact hp, ?_⟩
      rw [s3]; change List.filter _ s.sleeping = []; rw [hsl]; rfl
  | stop => exact (rstop_inv c hr s hw h).1

theorem rrun_inv (ops : List ROp) (hw : c.stopWakes = false) : RInv c (rrun c ops) := by
  unfold rrun
  suffices ∀ s, RInv c s → RInv c (ops.foldl (fun s o => (rstep c s o).1) s) from
    this _ ⟨⟨rfl, rfl, by simp, by simp⟩, AList.nodup_nil, by simp, by simp⟩
  induction ops with
  | nil => intro s h; exact h
  | cons o l ih => intro s h; exact ih _ (rstep_inv c hr s o hw h)

end retry

end Refinery.Lemmas.Shutdown
