import Refinery.Model.Decorate
/-!
Field-level lemmas about `Refinery.Model.Decorate` shared by C04 and C06: what `Payload.Set`
leaves in a field, frame lemmas for the three forwarding functions, and the stability of a kept
decision record under arbitrary later operations.
-/
namespace Refinery.Lemmas.Decorate
open Refinery Refinery.Model.Rates Refinery.Model.Decorate

/-- reading an `int64` metadata field that holds `v` -/
def metaVal (v : Int) : Option Val := if v = 0 then none else some (.int v)
/-- reading a string metadata field that holds `v` -/
def strVal (v : String) : Option Val := if v = "" then none else some (.str v)

theorem get_setInt (f : Fields) (k k' : String) (v : Int) :
    AList.get (setInt f k v) k' = if k = k' then metaVal v else AList.get f k' := by
  unfold setInt metaVal
  by_cases hv : v = 0 <;> by_cases hk : k = k' <;> simp [hv, hk, AList.get_put, AList.get_del]

theorem get_setStr (f : Fields) (k k' : String) (v : String) :
    AList.get (setStr f k v) k' = if k = k' then strVal v else AList.get f k' := by
  unfold setStr strVal
  by_cases hv : v = "" <;> by_cases hk : k = k' <;> simp [hv, hk, AList.get_put, AList.get_del]

theorem get_setAny (f : Fields) (k k' : String) (v : Val) :
    AList.get (setAny f k v) k' = if k = k' then some v else AList.get f k' := by
  unfold setAny; exact AList.get_put f k k' v

theorem get_setHost (f : Fields) (host k : String) :
    AList.get (setHost f host) k = if host ≠ "" ∧ kHost = k then some (.str host) else AList.get f k := by
  unfold setHost
  by_cases hh : host = "" <;> by_cases hk : kHost = k <;> simp [hh, hk, get_setStr, strVal]

theorem get_addAttrs_not_mem (attrs : List (String × String)) (f : Fields) (k : String)
    (h : k ∉ attrs.map (·.1)) : AList.get (addAttrs f attrs) k = AList.get f k := by
  unfold addAttrs
  induction attrs generalizing f with
  | nil => rfl
  | cons a t ih =>
    simp only [List.map_cons, List.mem_cons, not_or] at h
    simp only [List.foldl_cons]
    rw [ih _ h.2, get_setAny]
    have : a.1 ≠ k := fun e => h.1 e.symm
    simp [this]

theorem get_addAttrs_mem (attrs : List (String × String)) (f : Fields) (k v : String)
    (hn : (attrs.map (·.1)).Nodup) (h : (k, v) ∈ attrs) :
    AList.get (addAttrs f attrs) k = some (.str v) := by
  induction attrs generalizing f with
  | nil => simp at h
  | cons a t ih =>
    simp only [List.map_cons, List.nodup_cons] at hn
    simp only [List.mem_cons] at h
    unfold addAttrs
    simp only [List.foldl_cons]
    rcases h with h | h
    · subst h
      have := get_addAttrs_not_mem t (setAny f k (.str v)) k hn.1
      unfold addAttrs at this
      rw [this, get_setAny]; simp
    · have := ih (setAny f a.1 (.str a.2)) hn.2 h
      unfold addAttrs at this
      exact this

/-- no additional attribute uses a field name Refinery writes itself -/
def AttrsOk (attrs : List (String × String)) : Prop :=
  (attrs.map (·.1)).Nodup ∧ ∀ k ∈ reserved, k ∉ attrs.map (·.1)

theorem applyMerge_rate (sp : Span) (r : Nat) (dry : Bool) :
    (applyMerge sp r dry).rate = (merge sp.rate r dry).rate := rfl

theorem applyMerge_root (sp : Span) (r : Nat) (dry : Bool) : (applyMerge sp r dry).root = sp.root := rfl

theorem get_applyMerge_final (sp : Span) (r : Nat) :
    AList.get (applyMerge sp r false).fields kFinal = metaVal (toInt64 (mulU64 (temp sp.rate) r)) := by
  simp [applyMerge, merge, get_setInt]

theorem get_applyMerge_original (sp : Span) (r : Nat) (dry : Bool) :
    AList.get (applyMerge sp r dry).fields kOriginal =
      if sp.rate ≠ 0 then metaVal (toInt64 sp.rate) else AList.get sp.fields kOriginal := by
  have h1 : kFinal ≠ kOriginal := by decide
  have h2 : kDryRate ≠ kOriginal := by decide
  by_cases hd : dry = true <;> by_cases hc : sp.rate = 0 <;>
    simp [applyMerge, merge, get_setInt, get_setAny, hd, hc, h1, h2]

/-- `mergeTraceAndSpanSampleRates` touches only its three fields -/
theorem get_applyMerge_frame (sp : Span) (r : Nat) (dry : Bool) (k : String)
    (h1 : k ≠ kOriginal) (h2 : k ≠ kFinal) (h3 : k ≠ kDryRate) :
    AList.get (applyMerge sp r dry).fields k = AList.get sp.fields k := by
  have h1' : kOriginal ≠ k := fun e => h1 e.symm
  have h2' : kFinal ≠ k := fun e => h2 e.symm
  have h3' : kDryRate ≠ k := fun e => h3 e.symm
  by_cases hd : dry = true <;> by_cases hc : sp.rate = 0 <;>
    simp [applyMerge, merge, get_setInt, get_setAny, hd, hc, h1', h2', h3']

theorem get_setRootCounts_frame (cfg : Cfg) (f : Fields) (d e l s : Nat) (k : String)
    (h1 : k ≠ kSpanEventCount) (h2 : k ≠ kSpanLinkCount) (h3 : k ≠ kSpanCount) (h4 : k ≠ kEventCount) :
    AList.get (setRootCounts cfg f d e l s) k = AList.get f k := by
  have h1' : kSpanEventCount ≠ k := fun e => h1 e.symm
  have h2' : kSpanLinkCount ≠ k := fun e => h2 e.symm
  have h3' : kSpanCount ≠ k := fun e => h3 e.symm
  have h4' : kEventCount ≠ k := fun e => h4 e.symm
  unfold setRootCounts
  by_cases hc : cfg.counts = true <;> by_cases hs : cfg.spanCount = true <;>
    simp [hc, hs, get_setInt, h1', h2', h3', h4']

/-! ## frame lemmas: which fields the pre-merge decoration can write -/

theorem get_preOnTime_frame (cfg : Cfg) (host : String) (p : Pending) (sp : Span) (k : String)
    (h1 : k ≠ kReason) (h2 : k ≠ kSendReason) (h3 : k ≠ kSampleKey) (h4 : k ≠ kSpanEventCount)
    (h5 : k ≠ kSpanLinkCount) (h6 : k ≠ kSpanCount) (h7 : k ≠ kEventCount) (h8 : k ≠ kDryKept)
    (h9 : k ≠ kHost) : AList.get (preOnTime cfg host p sp) k = AList.get sp.fields k := by
  have h1' : kReason ≠ k := fun e => h1 e.symm
  have h2' : kSendReason ≠ k := fun e => h2 e.symm
  have h3' : kSampleKey ≠ k := fun e => h3 e.symm
  have h8' : kDryKept ≠ k := fun e => h8 e.symm
  have h9' : kHost ≠ k := fun e => h9 e.symm
  cases hr : cfg.reason <;> cases hroot : sp.root <;> cases hdry : cfg.dry <;> by_cases hkey : p.key = "" <;>
    simp [preOnTime, traceRootCounts, hr, hroot, hdry, hkey, get_setHost, get_setAny, get_setStr,
      get_setRootCounts_frame _ _ _ _ _ _ k h4 h5 h6 h7, h1', h2', h3', h8', h9']

theorem get_preLate_frame (cfg : Cfg) (host : String) (kept : Option Rec) (sp : Span) (k : String)
    (h1 : k ≠ kReason) (h2 : k ≠ kSendReason) (h8 : k ≠ kDryKept) (h9 : k ≠ kHost) :
    AList.get (preLate cfg host kept sp) k = AList.get sp.fields k := by
  have h1' : kReason ≠ k := fun e => h1 e.symm
  have h2' : kSendReason ≠ k := fun e => h2 e.symm
  have h8' : kDryKept ≠ k := fun e => h8 e.symm
  have h9' : kHost ≠ k := fun e => h9 e.symm
  cases hr : cfg.reason <;> cases hdry : cfg.dry <;>
    simp [preLate, hr, hdry, get_setHost, get_setAny, get_setStr, h1', h2', h8', h9']

theorem get_preStress_frame (cfg : Cfg) (host reason : String) (sp : Span) (k : String)
    (h1 : k ≠ kReason) (h2 : k ≠ kStressed) (h9 : k ≠ kHost) (ha : k ∉ cfg.attrs.map (·.1)) :
    AList.get (preStress cfg host reason sp) k = AList.get sp.fields k := by
  have h1' : kReason ≠ k := fun e => h1 e.symm
  have h2' : kStressed ≠ k := fun e => h2 e.symm
  have h9' : kHost ≠ k := fun e => h9 e.symm
  unfold preStress
  rw [get_addAttrs_not_mem _ _ _ ha]
  cases hr : cfg.reason <;> simp [hr, get_setHost, get_setAny, get_setStr, h1', h2', h9']

/-! ## the state machine: trace lookup, stability of a kept record -/

theorem getT_putT (s : St) (tid tid' : String) (t : TraceSt) :
    getT (putT s tid' t) tid = if tid' = tid then t else getT s tid := by
  unfold getT putT
  simp only [AList.get_put]
  by_cases h : tid' = tid <;> simp [h]

theorem count_rate (r : Rec) (k : Kind) : (r.count k).rate = r.rate := by cases k <;> rfl
theorem count_reason (r : Rec) (k : Kind) : (r.count k).reason = r.reason := by cases k <;> rfl

/-- The trace has been decided "keep", nothing says "dropped", and the record holds this rate and
reason.  (No operation of the model can undo this: a decided trace never becomes live again.) -/
def KeptAs (t : TraceSt) (rate : Nat) (reason : String) : Prop :=
  t.live = none ∧ t.dropped = false ∧ ∃ r, t.kept = some r ∧ r.rate = rate ∧ r.reason = reason

theorem step_span_kept (s : St) (tid : String) (sp : Span) (r : Rec)
    (hl : (getT s tid).live = none) (hd : (getT s tid).dropped = false) (hk : (getT s tid).kept = some r) :
    step s (.span tid sp) =
      (putT s tid { (getT s tid) with kept := some (r.count sp.kind) },
       lateOut (fwdLate s.cfg s.host (some (r.count sp.kind)) sp)) := by
  simp [step, checkSpan, hl, hd, hk]

theorem step_stress_kept (s : St) (tid : String) (sp : Span) (r : Rec)
    (hd : (getT s tid).dropped = false) (hk : (getT s tid).kept = some r) :
    step s (.stress tid sp none) =
      (putT s tid { (getT s tid) with kept := some (r.count sp.kind) },
       .fwd (fwdStress s.cfg s.host (r.count sp.kind).rate (r.count sp.kind).reason sp)) := by
  simp [step, checkSpan, hd, hk]

theorem step_stress_kept_bad (s : St) (tid : String) (sp : Span) (r : Rec) (x : Nat × Bool × String)
    (hd : (getT s tid).dropped = false) (hk : (getT s tid).kept = some r) :
    step s (.stress tid sp (some x)) = (s, .bad) := by
  simp [step, checkSpan, hd, hk]

/-- operations addressed to another trace, drains and reloads leave a trace's entry alone -/
theorem getT_step_other (s : St) (op : Op) (tid : String)
    (h : match op with | .span t _ => t ≠ tid | .decide t _ => t ≠ tid | .stress t _ _ => t ≠ tid | _ => True) :
    getT (step s op).1 tid = getT s tid := by
  cases op with
  | span tid' sp =>
    simp only [step]
    split
    · simp [getT_putT, h]
    · split <;> simp [getT_putT, h]
  | decide tid' d =>
    simp only [step]
    split
    · rfl
    · rfl
    · split <;> simp [getT, putT, AList.get_put, h]
  | drain => simp only [step]; split <;> rfl
  | stress tid' sp sr =>
    simp only [step]
    split <;> (try split) <;> simp [getT_putT, h]
  | reload cfg => rfl

theorem keptAs_step (s : St) (op : Op) (tid : String) (R : Nat) (rs : String)
    (h : KeptAs (getT s tid) R rs) : KeptAs (getT (step s op).1 tid) R rs := by
  obtain ⟨hl, hd, r, hk, hr, hrs⟩ := h
  have keep : KeptAs (getT s tid) R rs := ⟨hl, hd, r, hk, hr, hrs⟩
  have counted : ∀ k, KeptAs { (getT s tid) with kept := some (r.count k) } R rs := fun k =>
    ⟨hl, hd, r.count k, rfl, by rw [count_rate, hr], by rw [count_reason, hrs]⟩
  cases op with
  | span tid' sp =>
    by_cases ht : tid' = tid
    · subst ht
      rw [step_span_kept s tid' sp r hl hd hk]
      simp only [getT_putT, if_true]
      exact counted _
    · rw [getT_step_other s _ tid ht]; exact keep
  | decide tid' d =>
    by_cases ht : tid' = tid
    · subst ht
      simp only [step, hl]
      exact keep
    · rw [getT_step_other s _ tid ht]; exact keep
  | drain => rw [getT_step_other s _ tid trivial]; exact keep
  | stress tid' sp sr =>
    by_cases ht : tid' = tid
    · subst ht
      cases sr with
      | none =>
        rw [step_stress_kept s tid' sp r hd hk]
        simp only [getT_putT, if_true]
        exact counted _
      | some x => rw [step_stress_kept_bad s tid' sp r x hd hk]; exact keep
    · rw [getT_step_other s _ tid ht]; exact keep
  | reload cfg => exact keep

theorem keptAs_run (ops : List Op) (s : St) (tid : String) (R : Nat) (rs : String)
    (h : KeptAs (getT s tid) R rs) : KeptAs (getT (run s ops) tid) R rs := by
  induction ops generalizing s with
  | nil => exact h
  | cons o os ih => exact ih _ (keptAs_step s o tid R rs h)

end Refinery.Lemmas.Decorate
