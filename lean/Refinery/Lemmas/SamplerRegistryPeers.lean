import Refinery.Lemmas.SamplerRegistry
/-!
The peer count stored by the factory, followed through every operation (C13).
-/
set_option linter.unusedVariables false
set_option linter.unusedSimpArgs false
namespace Refinery.Lemmas.SamplerRegistry
open Refinery Refinery.Model.SamplerRegistry

/-- the stored count already reflects what the peer query answers now -/
def Sync (st : St) : Prop := refreshCount st.actual st.peerCount = st.peerCount

theorem refresh_idem (a : Option Nat) (pc : Nat) : refreshCount a (refreshCount a pc) = refreshCount a pc := by
  unfold refreshCount
  cases a with
  | none => rfl
  | some n => by_cases h : n > 0 <;> simp [h]

theorem regStep_pa (st : St) (pfx : Str) (d : Def) :
    (regStep st pfx d).1.peerCount = st.peerCount ∧ (regStep st pfx d).1.actual = st.actual := by
  rcases regStep_cases st pfx d with ⟨id, i, _, _, _, he⟩ | ⟨he, _⟩ <;> rw [he] <;> exact ⟨rfl, rfl⟩

theorem createDyn_pa (st : St) (pfx : Str) (d : Def) (h : Sync st) :
    (createDyn st pfx d).1.peerCount = st.peerCount ∧ (createDyn st pfx d).1.actual = st.actual := by
  obtain ⟨hp, ha⟩ := regStep_pa st pfx d
  unfold Sync at h
  unfold createDyn
  by_cases hdet : d.kind = .determ
  · simp only [hdet, if_true, updatePeers]; exact ⟨h, trivial⟩
  · simp only [hdet, if_false]
    by_cases hc : (d.kind.isThroughput && d.useCluster) = true
    · simp only [hc, if_true, updatePeers, hp, ha]; exact ⟨h, trivial⟩
    · have hc' : (d.kind.isThroughput && d.useCluster) = false := by simpa using hc
      simp only [hc', updatePeers, hp, ha]
      refine ⟨?_, ?_⟩
      · simp only [Bool.false_eq_true, if_false, hp, ha]; exact h
      · simp only [Bool.false_eq_true, if_false, ha]

theorem createMany_pa (pfx : Str) : ∀ (ds : List Def) (st : St), Sync st →
    (createMany st pfx ds).1.peerCount = st.peerCount ∧ (createMany st pfx ds).1.actual = st.actual
  | [], st, _ => ⟨rfl, rfl⟩
  | d :: ds, st, h => by
    obtain ⟨p1, a1⟩ := createDyn_pa st pfx d h
    have h1 : Sync (createDyn st pfx d).1 := by unfold Sync at *; rw [p1, a1]; exact h
    obtain ⟨p2, a2⟩ := createMany_pa pfx ds _ h1
    simp only [createMany]
    exact ⟨p2.trans p1, a2.trans a1⟩

theorem getSampler_pa (st : St) (env : Str) (h : Sync st) {r : St × List Slot}
    (hr : getSampler st env = some r) : r.1.peerCount = st.peerCount ∧ r.1.actual = st.actual := by
  unfold getSampler at hr
  cases hl : lookupCfg st.cfg env with
  | none => rw [hl] at hr; cases hr
  | some ec =>
    rw [hl] at hr
    cases ec with
    | leaf d =>
      simp only [Option.some.injEq] at hr
      rw [← hr]; exact createDyn_pa st env d h
    | rules ds =>
      simp only [Option.some.injEq] at hr
      obtain ⟨p1, a1⟩ := createMany_pa (rulesPrefix env) ds st h
      rw [← hr]
      simp only [updatePeers, p1, a1]
      exact ⟨h, trivial⟩

/-- what one operation does to the property's peer count -/
def lastGoodStep (pc : Nat) : Op → Nat
  | .peers n => if n > 0 then n else pc
  | _ => pc

theorem step_pc (cfgs : List Config) (st : St) (op : Op) (h : Sync st) :
    Sync (step cfgs st op) ∧ (step cfgs st op).peerCount = lastGoodStep st.peerCount op := by
  cases op with
  | get w env =>
    simp only [step, lastGoodStep]
    cases AList.get st.caches (w, env) with
    | some _ => exact ⟨h, rfl⟩
    | none =>
      simp only
      cases hg : getSampler st env with
      | none => exact ⟨h, rfl⟩
      | some r =>
        obtain ⟨p, a⟩ := getSampler_pa st env h hg
        simp only
        refine ⟨?_, p⟩
        unfold Sync at *
        simp only [p, a]; exact h
  | peers n =>
    simp only [step, lastGoodStep, updatePeers, Sync]
    refine ⟨refresh_idem _ _, ?_⟩
    simp [refreshCount]
  | peersFail =>
    simp only [step, lastGoodStep, updatePeers, Sync]
    exact ⟨refresh_idem _ _, rfl⟩
  | setcfg j =>
    simp only [step, lastGoodStep]
    cases cfgs[j]? <;> exact ⟨h, rfl⟩
  | clear => exact ⟨h, rfl⟩
  | wreload w => exact ⟨h, rfl⟩

theorem foldl_pc (cfgs : List Config) : ∀ (ops : List Op) (st : St), Sync st →
    (ops.foldl (step cfgs) st).peerCount = ops.foldl lastGoodStep st.peerCount
  | [], _, _ => rfl
  | op :: ops, st, h => by
    obtain ⟨h1, p1⟩ := step_pc cfgs st op h
    simp only [List.foldl_cons]
    rw [foldl_pc cfgs ops _ h1, p1]

theorem lastGood_eq (a0 : Option Nat) (ops : List Op) :
    lastGood a0 ops = ops.foldl lastGoodStep (refreshCount a0 1) := by
  unfold lastGood
  congr 1

theorem assertOk_throughput {k k' : Kind} (h : assertOk k k' = true) (ht : k'.isThroughput = true) : k = k' := by
  cases k <;> cases k' <;> first | rfl | (simp [assertOk, Kind.isThroughput] at h ht)

end Refinery.Lemmas.SamplerRegistry
