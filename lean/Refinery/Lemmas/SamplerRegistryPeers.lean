import Refinery.Lemmas.SamplerRegistry
/-!
The peer count stored by the factory, followed through every operation (C13).
-/
set_option linter.unusedVariables false
set_option linter.unusedSimpArgs false
namespace Refinery.Lemmas.SamplerRegistry
open Refinery Refinery.Model.SamplerRegistry

/-- the stored count already reflects what the peer query answers now -/
def Sync (st : St) : Prop := refreshCount st.actual st.peerCount = st.peerCount

theorem refresh_idem (a : Option Nat) (pc : Nat) : refreshCount a (refreshCount a pc) = refreshCount a pc := by
  unfold refreshCount
  cases a with
  | none => rfl
  | some n => by_cases h : n > 0 <;> simp [h]

theorem regStep_pa (st : St) (pfx : Str) (d : Def) :
    (regStep st pfx d).1.peerCount = st.peerCount ∧ (regStep st pfx d).1.actual = st.actual := by
  rcases regStep_cases st pfx d with ⟨id, i, _, _, _, he⟩ | ⟨he, _⟩ <;> rw [he] <;> exact ⟨rfl, rfl⟩

theorem createDyn_pa (st : St) (pfx : Str) (d : Def) :
    (createDyn st pfx d).1.peerCount = refreshCount st.actual st.peerCount ∧
      (createDyn st pfx d).1.actual = st.actual := by
  obtain ⟨hp, ha⟩ := regStep_pa st pfx d
  unfold createDyn
  by_cases hdet : d.kind = .determ
  · simp only [hdet, if_true, updatePeers]; exact ⟨trivial, trivial⟩
  · simp only [hdet, if_false]
    by_cases hc : (d.kind.isThroughput && d.useCluster) = true
    · simp only [hc, if_true, updatePeers, hp, ha]; exact ⟨trivial, trivial⟩
    · have hc' : (d.kind.isThroughput && d.useCluster) = false := by simpa using hc
      simp only [hc', updatePeers, hp, ha]
      refine ⟨?_, ?_⟩
      · simp only [Bool.false_eq_true, if_false, hp, ha]
      · simp only [Bool.false_eq_true, if_false, ha]

theorem createMany_pa (pfx : Str) : ∀ (ds : List Def) (st : St),
    (createMany st pfx ds).1.actual = st.actual ∧
      ((createMany st pfx ds).1.peerCount = st.peerCount ∨
       (createMany st pfx ds).1.peerCount = refreshCount st.actual st.peerCount)
  | [], st => ⟨rfl, Or.inl rfl⟩
  | d :: ds, st => by
    obtain ⟨p1, a1⟩ := createDyn_pa st pfx d
    obtain ⟨a2, p2⟩ := createMany_pa pfx ds (createDyn st pfx d).1
    simp only [createMany]
    refine ⟨a2.trans a1, Or.inr ?_⟩
    rcases p2 with p2 | p2
    · exact p2.trans p1
    · rw [p2, a1, p1, refresh_idem]

theorem getSampler_pa (st : St) (env : Str) {r : St × List Slot}
    (hr : getSampler st env = some r) :
    r.1.peerCount = refreshCount st.actual st.peerCount ∧ r.1.actual = st.actual := by
  unfold getSampler at hr
  cases hl : lookupCfg st.cfg env with
  | none => rw [hl] at hr; cases hr
  | some ec =>
    rw [hl] at hr
    cases ec with
    | leaf d =>
      simp only [Option.some.injEq] at hr
      rw [← hr]; exact createDyn_pa st env d
    | rules ds =>
      simp only [Option.some.injEq] at hr
      obtain ⟨a1, p1⟩ := createMany_pa (rulesPrefix env) ds st
      rw [← hr]
      simp only [updatePeers, a1]
      refine ⟨?_, trivial⟩
      rcases p1 with p1 | p1
      · rw [p1]
      · rw [p1, refresh_idem]

/-- what one operation does to the property's peer count -/
def lastGoodStep (pc : Nat) : Op → Nat
  | .peers n => if n > 0 then n else pc
  | _ => pc

/-- operations that change the peer source without running the callback -/
def IsSplit : Op → Prop
  | .peerset _ => True
  | .peersetFail => True
  | _ => False

theorem stepGet_actual (st : St) (w : Nat) (env : Str) : (stepGet st w env).actual = st.actual := by
  simp only [stepGet]
  cases AList.get st.caches (w, env) with
  | some _ => rfl
  | none =>
    simp only
    cases hg : getSampler st env with
    | none => rfl
    | some r => exact (getSampler_pa st env hg).2

theorem stepGet_pc (st : St) (w : Nat) (env : Str) (h : Sync st) :
    Sync (stepGet st w env) ∧ (stepGet st w env).peerCount = st.peerCount := by
  simp only [stepGet]
  cases AList.get st.caches (w, env) with
  | some _ => exact ⟨h, rfl⟩
  | none =>
    simp only
    cases hg : getSampler st env with
    | none => exact ⟨h, rfl⟩
    | some r =>
      obtain ⟨p, a⟩ := getSampler_pa st env hg
      simp only
      unfold Sync at h
      refine ⟨?_, p.trans h⟩
      unfold Sync
      simp only [p, a, h]

theorem step_actual (cfgs : List Config) (st : St) (op : Op) :
    (step cfgs st op).actual = srcStep st.actual op := by
  cases op with
  | get w env => exact stepGet_actual st w env
  | feed w env n =>
    simp only [step, srcStep]
    split <;> exact stepGet_actual st w env
  | setcfg j => simp only [step, stepGet, srcStep]; cases cfgs[j]? <;> rfl
  | _ => rfl

/-- every state change refreshes or keeps the stored count; after a callback it is in sync -/
theorem step_peercb (cfgs : List Config) (st : St) :
    (step cfgs st .peercb).peerCount = refreshCount st.actual st.peerCount ∧ Sync (step cfgs st .peercb) :=
  ⟨rfl, by simp only [step, stepGet, updatePeers, Sync]; exact refresh_idem _ _⟩

theorem step_pc (cfgs : List Config) (st : St) (op : Op) (h : Sync st) (hop : ¬ IsSplit op) :
    Sync (step cfgs st op) ∧ (step cfgs st op).peerCount = lastGoodStep st.peerCount op := by
  cases op with
  | get w env => exact stepGet_pc st w env h
  | feed w env n =>
    simp only [step, lastGoodStep]
    split <;> exact stepGet_pc st w env h
  | peers n =>
    simp only [step, stepGet, lastGoodStep, updatePeers, Sync]
    refine ⟨refresh_idem _ _, ?_⟩
    simp [refreshCount]
  | peersFail =>
    simp only [step, stepGet, lastGoodStep, updatePeers, Sync]
    exact ⟨refresh_idem _ _, rfl⟩
  | peercb =>
    simp only [step, stepGet, lastGoodStep, updatePeers, Sync]
    exact ⟨refresh_idem _ _, h⟩
  | peerset n => exact absurd trivial hop
  | peersetFail => exact absurd trivial hop
  | setcfg j =>
    simp only [step, stepGet, lastGoodStep]
    cases cfgs[j]? <;> exact ⟨h, rfl⟩
  | clear => exact ⟨h, rfl⟩
  | wreload w => exact ⟨h, rfl⟩

theorem foldl_pc (cfgs : List Config) : ∀ (ops : List Op) (st : St), Sync st → (∀ op ∈ ops, ¬ IsSplit op) →
    (ops.foldl (step cfgs) st).peerCount = ops.foldl lastGoodStep st.peerCount
  | [], _, _, _ => rfl
  | op :: ops, st, h, hs => by
    obtain ⟨h1, p1⟩ := step_pc cfgs st op h (hs op (by simp))
    simp only [List.foldl_cons]
    rw [foldl_pc cfgs ops _ h1 (fun o ho => hs o (List.mem_cons_of_mem _ ho)), p1]

theorem foldl_actual (cfgs : List Config) : ∀ (ops : List Op) (st : St),
    (ops.foldl (step cfgs) st).actual = ops.foldl srcStep st.actual
  | [], _ => rfl
  | op :: ops, st => by
    simp only [List.foldl_cons]
    rw [foldl_actual cfgs ops, step_actual]

theorem noSplit_iff {ops : List Op} (h : NoSplit ops) : ∀ op ∈ ops, ¬ IsSplit op := by
  intro op hop hs
  obtain ⟨a, b⟩ := h op hop
  cases op <;> simp [IsSplit] at hs
  · exact a _ rfl
  · exact b rfl

theorem lastGood_eq (a0 : Option Nat) (ops : List Op) :
    lastGood a0 ops = ops.foldl lastGoodStep (refreshCount a0 1) := by
  unfold lastGood
  congr 1

theorem assertOk_throughput {k k' : Kind} (h : assertOk k k' = true) (ht : k'.isThroughput = true) : k = k' := by
  cases k <;> cases k' <;> first | rfl | (simp [assertOk, Kind.isThroughput] at h ht)

/-! ## the event counters are touched by `feed` only -/

theorem regStep_fed (st : St) (pfx : Str) (d : Def) : (regStep st pfx d).1.fed = st.fed := by
  rcases regStep_cases st pfx d with ⟨id, i, _, _, _, he⟩ | ⟨he, _⟩ <;> rw [he] <;> rfl

theorem createDyn_fed (st : St) (pfx : Str) (d : Def) : (createDyn st pfx d).1.fed = st.fed := by
  have hf := regStep_fed st pfx d
  unfold createDyn
  by_cases hdet : d.kind = .determ
  · simp only [hdet, if_true, updatePeers]
  · simp only [hdet, if_false]
    by_cases hc : (d.kind.isThroughput && d.useCluster) = true
    · simp only [hc, if_true, updatePeers, hf]
    · have hc' : (d.kind.isThroughput && d.useCluster) = false := by simpa using hc
      simp only [hc', updatePeers, Bool.false_eq_true, if_false, hf]

theorem createMany_fed (pfx : Str) : ∀ (ds : List Def) (st : St), (createMany st pfx ds).1.fed = st.fed
  | [], _ => rfl
  | d :: ds, st => by
    simp only [createMany]
    rw [createMany_fed pfx ds, createDyn_fed]

theorem getSampler_fed (st : St) (env : Str) {r : St × List Slot} (hr : getSampler st env = some r) :
    r.1.fed = st.fed := by
  unfold getSampler at hr
  cases hl : lookupCfg st.cfg env with
  | none => rw [hl] at hr; cases hr
  | some ec =>
    rw [hl] at hr
    cases ec with
    | leaf d =>
      simp only [Option.some.injEq] at hr
      rw [← hr]; exact createDyn_fed st env d
    | rules ds =>
      simp only [Option.some.injEq] at hr
      rw [← hr]
      simp only [updatePeers]
      exact createMany_fed (rulesPrefix env) ds st

theorem stepGet_fed (st : St) (w : Nat) (env : Str) : (stepGet st w env).fed = st.fed := by
  simp only [stepGet]
  cases AList.get st.caches (w, env) with
  | some _ => rfl
  | none =>
    simp only
    cases hg : getSampler st env with
    | none => rfl
    | some r => exact getSampler_fed st env hg

theorem step_fed (cfgs : List Config) (st : St) (op : Op) (hop : ∀ w e n, op ≠ .feed w e n) :
    (step cfgs st op).fed = st.fed := by
  cases op with
  | get w env => exact stepGet_fed st w env
  | feed w env n => exact absurd rfl (hop w env n)
  | setcfg j => simp only [step]; cases cfgs[j]? <;> rfl
  | _ => rfl

end Refinery.Lemmas.SamplerRegistry
