import Refinery.Model.SamplerRegistry
/-!
String-level facts about `makeDynsamplerKey` (C12, C13): which parts of a key can be read back
from it, and under which conditions on the names.
-/
namespace Refinery.Lemmas.SamplerRegistry
open Refinery Refinery.Model.SamplerRegistry

/-- two strings free of the separator `c`, each followed by `c`: the split point is determined -/
theorem split_sep {c : Char} : ∀ {a b x y : Str}, c ∉ a → c ∉ b → a ++ c :: x = b ++ c :: y → a = b ∧ x = y
  | [], [], x, y, _, _, h => by simpa using h
  | [], d :: b, x, y, _, hb, h => by
    simp only [List.nil_append, List.cons_append, List.cons.injEq] at h
    exact absurd h.1 (by intro e; subst e; simp at hb)
  | d :: a, [], x, y, ha, _, h => by
    simp only [List.nil_append, List.cons_append, List.cons.injEq] at h
    exact absurd h.1 (by intro e; subst e; simp at ha)
  | d :: a, d' :: b, x, y, ha, hb, h => by
    simp only [List.cons_append, List.cons.injEq] at h
    have ha' : c ∉ a := fun m => ha (List.mem_cons_of_mem _ m)
    have hb' : c ∉ b := fun m => hb (List.mem_cons_of_mem _ m)
    obtain ⟨e1, e2⟩ := split_sep ha' hb' h.2
    exact ⟨by rw [h.1, e1], e2⟩

/-! ### `%d` -/

theorem isDigit_of_mem_toDigits10 {c : Char} {n : Nat} (h : c ∈ Nat.toDigits 10 n) : c.isDigit = true :=
  Nat.isDigit_of_mem_toDigits (by decide) (by decide) h

theorem toDigits10_inj {a b : Nat} (h : Nat.toDigits 10 a = Nat.toDigits 10 b) : a = b := by
  have := congrArg (fun l => Nat.ofDigitChars 10 l 0) h
  simpa [Nat.ofDigitChars_ten_toDigits] using this

theorem colon_not_mem_intDigits (r : Int) : ':' ∉ intDigits r := by
  unfold intDigits
  intro h
  split at h
  · rcases List.mem_cons.mp h with h | h
    · exact absurd h (by decide)
    · exact absurd (isDigit_of_mem_toDigits10 h) (by decide)
  · exact absurd (isDigit_of_mem_toDigits10 h) (by decide)

theorem intDigits_ne_nil (r : Int) : intDigits r ≠ [] := by
  unfold intDigits
  split
  · simp
  · exact Nat.toDigits_ne_nil

theorem intDigits_inj {a b : Int} (h : intDigits a = intDigits b) : a = b := by
  unfold intDigits at h
  by_cases ha : a < 0 <;> by_cases hb : b < 0
  · simp only [ha, hb, if_true, List.cons.injEq, true_and] at h
    have := toDigits10_inj h
    omega
  · simp only [ha, hb, if_true, if_false] at h
    have hm : '-' ∈ Nat.toDigits 10 b.natAbs := by rw [← h]; simp
    exact absurd (isDigit_of_mem_toDigits10 hm) (by decide)
  · simp only [ha, hb, if_true, if_false] at h
    have hm : '-' ∈ Nat.toDigits 10 a.natAbs := by rw [h]; simp
    exact absurd (isDigit_of_mem_toDigits10 hm) (by decide)
  · simp only [ha, hb, if_false] at h
    have := toDigits10_inj h
    omega

/-! ### the sampler type names (constants read off the code) -/

theorem colon_not_mem_name (k : Kind) : ':' ∉ k.name := by cases k <;> decide

theorem name_inj {k1 k2 : Kind} (h : k1.name = k2.name) : k1 = k2 := by
  cases k1 <;> cases k2 <;> first | rfl | exact absurd h (by decide)

theorem rulesPrefix_eq (e : Str) : rulesPrefix e = 'r' :: 'u' :: 'l' :: 'e' :: 's' :: ':' :: (e ++ [':']) := by
  have hl : Gen.Samplerreg.rulesPrefixL.toList = ['r', 'u', 'l', 'e', 's', ':'] := by decide
  have hr : Gen.Samplerreg.rulesPrefixR.toList = [':'] := by decide
  simp [rulesPrefix, hl, hr]

/-! ### sorting and joining the field list -/

theorem insertStr_perm (x : Str) (l : List Str) : (insertStr x l).Perm (x :: l) := by
  induction l with
  | nil => simp [insertStr]
  | cons y t ih =>
    unfold insertStr
    split
    · exact List.Perm.refl _
    · exact (List.Perm.cons y ih).trans (List.Perm.swap x y t)

theorem sortStr_perm (l : List Str) : (sortStr l).Perm l := by
  induction l with
  | nil => simp [sortStr]
  | cons x t ih => exact (insertStr_perm x (sortStr t)).trans (List.Perm.cons x ih)

/-- a field name that can be told apart inside `%v` output -/
def CleanField (a : Str) : Prop := ' ' ∉ a ∧ a ≠ []

theorem joinSp_inj : ∀ (l1 l2 : List Str), (∀ a ∈ l1, CleanField a) → (∀ a ∈ l2, CleanField a) →
    joinSp l1 = joinSp l2 → l1 = l2
  | [], [], _, _, _ => rfl
  | [], [b], _, h2, h => by
    simp only [joinSp] at h
    exact absurd h.symm (h2 b (by simp)).2
  | [], b :: b2 :: t, _, _, h => by simp [joinSp] at h
  | [a], [], h1, _, h => by
    simp only [joinSp] at h
    exact absurd h (h1 a (by simp)).2
  | [a], [b], _, _, h => by simpa [joinSp] using h
  | [a], b :: b2 :: t, h1, _, h => by
    simp only [joinSp] at h
    have : ' ' ∈ a := by rw [h]; simp
    exact absurd this (h1 a (by simp)).1
  | a :: a2 :: t, [], _, _, h => by simp [joinSp] at h
  | a :: a2 :: t, [b], _, h2, h => by
    simp only [joinSp] at h
    have : ' ' ∈ b := by rw [← h]; simp
    exact absurd this (h2 b (by simp)).1
  | a :: a2 :: t, b :: b2 :: t', h1, h2, h => by
    simp only [joinSp] at h
    obtain ⟨e1, e2⟩ := split_sep (h1 a (by simp)).1 (h2 b (by simp)).1 h
    have := joinSp_inj (a2 :: t) (b2 :: t') (fun x hx => h1 x (List.mem_cons_of_mem _ hx))
      (fun x hx => h2 x (List.mem_cons_of_mem _ hx)) e2
    rw [e1, this]

/-! ### reading a key back -/

/-- everything of a key after `prefix:` -/
def tailOf (d : Def) : Str :=
  d.kind.name ++ ':' :: (intDigits d.rate ++ ':' :: ('[' :: (joinSp (sortStr d.fields) ++ [']'])))

theorem makeKey_eq (p : Str) (d : Def) : makeKey p d = p ++ ':' :: tailOf d := by
  simp [makeKey, makeKeyRaw, tailOf, List.append_assoc]

theorem tailOf_inj {d1 d2 : Def} (h : tailOf d1 = tailOf d2) :
    d1.kind = d2.kind ∧ d1.rate = d2.rate ∧ joinSp (sortStr d1.fields) = joinSp (sortStr d2.fields) := by
  unfold tailOf at h
  obtain ⟨hk, h⟩ := split_sep (colon_not_mem_name _) (colon_not_mem_name _) h
  obtain ⟨hr, h⟩ := split_sep (colon_not_mem_intDigits _) (colon_not_mem_intDigits _) h
  simp only [List.cons.injEq, true_and] at h
  exact ⟨name_inj hk, intDigits_inj hr, List.append_cancel_right h⟩

/-- where a sampler sits: top level of environment `e` (prefix `e`) or downstream of its
rules-based sampler (prefix `rules:e:`) -/
inductive Origin where
  | top (e : Str)
  | down (e : Str)
  deriving DecidableEq, Repr

def Origin.env : Origin → Str
  | .top e => e
  | .down e => e

def Origin.pfx : Origin → Str
  | .top e => e
  | .down e => rulesPrefix e

/-- **key injectivity**: for environment names without ':' the key determines the environment,
the position (top level / downstream), the sampler type, the rate and the joined sorted fields. -/
theorem makeKey_inj {o1 o2 : Origin} {d1 d2 : Def} (h1 : ':' ∉ o1.env) (h2 : ':' ∉ o2.env)
    (h : makeKey o1.pfx d1 = makeKey o2.pfx d2) :
    o1 = o2 ∧ d1.kind = d2.kind ∧ d1.rate = d2.rate ∧
      joinSp (sortStr d1.fields) = joinSp (sortStr d2.fields) := by
  rw [makeKey_eq, makeKey_eq] at h
  have hrules : ':' ∉ ['r', 'u', 'l', 'e', 's'] := by decide
  cases o1 with
  | top e1 =>
    cases o2 with
    | top e2 =>
      simp only [Origin.pfx, Origin.env] at *
      obtain ⟨he, ht⟩ := split_sep h1 h2 h
      exact ⟨by rw [he], tailOf_inj ht⟩
    | down e2 =>
      exfalso
      simp only [Origin.pfx, Origin.env, rulesPrefix_eq] at *
      have h' : e1 ++ ':' :: tailOf d1 = ['r', 'u', 'l', 'e', 's'] ++ ':' :: (e2 ++ ':' :: ':' :: tailOf d2) := by
        simpa [List.append_assoc] using h
      obtain ⟨_, ht⟩ := split_sep h1 hrules h'
      unfold tailOf at ht
      obtain ⟨_, ht⟩ := split_sep (colon_not_mem_name _) h2 ht
      have hne := intDigits_ne_nil d1.rate
      have hc := colon_not_mem_intDigits d1.rate
      cases hd : intDigits d1.rate with
      | nil => exact hne hd
      | cons c t =>
        rw [hd] at ht hc
        simp only [List.cons_append, List.cons.injEq] at ht
        exact hc (by rw [ht.1]; simp)
  | down e1 =>
    cases o2 with
    | top e2 =>
      exfalso
      simp only [Origin.pfx, Origin.env, rulesPrefix_eq] at *
      have h' : ['r', 'u', 'l', 'e', 's'] ++ ':' :: (e1 ++ ':' :: ':' :: tailOf d1) = e2 ++ ':' :: tailOf d2 := by
        simpa [List.append_assoc] using h
      obtain ⟨_, ht⟩ := split_sep hrules h2 h'
      unfold tailOf at ht
      obtain ⟨_, ht⟩ := split_sep h1 (colon_not_mem_name _) ht
      have hne := intDigits_ne_nil d2.rate
      have hc := colon_not_mem_intDigits d2.rate
      cases hd : intDigits d2.rate with
      | nil => exact hne hd
      | cons c t =>
        rw [hd] at ht hc
        simp only [List.cons_append, List.cons.injEq] at ht
        exact hc (by rw [← ht.1]; simp)
    | down e2 =>
      simp only [Origin.pfx, Origin.env, rulesPrefix_eq] at *
      have h' : e1 ++ ':' :: ':' :: tailOf d1 = e2 ++ ':' :: ':' :: tailOf d2 := by
        simpa [List.append_assoc] using h
      obtain ⟨he, ht⟩ := split_sep h1 h2 h'
      simp only [List.cons.injEq, true_and] at ht
      exact ⟨by rw [he], tailOf_inj ht⟩

/-- the sampler slots of an environment come from that environment, top level or downstream -/
theorem slotsOf_origin {c : Config} {e : Str} {pd : Str × Def} (h : pd ∈ slotsOf c e) :
    ∃ o : Origin, o.env = e ∧ o.pfx = pd.1 := by
  unfold slotsOf at h
  split at h
  · simp only [List.mem_singleton] at h
    exact ⟨.top e, rfl, by rw [h]; rfl⟩
  · simp only [List.mem_map] at h
    obtain ⟨d, _, rfl⟩ := h
    exact ⟨.down e, rfl, rfl⟩
  · simp at h

end Refinery.Lemmas.SamplerRegistry
