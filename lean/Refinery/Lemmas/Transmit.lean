import Refinery.Model.Transmit
/-!
Lemmas about the `transmit` model (C26): the packing loop, the split loop, the retry loop and the
accounting of one `sendBatch`.
-/
set_option linter.unusedSimpArgs false
set_option linter.unusedVariables false

namespace Refinery.Model.Transmit
open Refinery

/-! ## the packing loop -/

def sizeSum (l : List Ev) : Nat := (l.map (fun e => e.size.getD 0)).sum

theorem fill_sub_rest (maxB maxE : Nat) (evs : List Ev) (p : Nat) :
    (fill maxB maxE p evs).sub ++ (fill maxB maxE p evs).rest.filter (fits maxE) = evs.filter (fits maxE) := by
  induction evs generalizing p with
  | nil => simp [fill]
  | cons e es ih =>
    cases hs : e.size with
    | none => simp [fill, hs, fits, ih]
    | some s =>
      by_cases h1 : maxE < s
      · have : ¬ s ≤ maxE := by omega
        simp [fill, hs, fits, h1, this, ih]
      · have h1' : s ≤ maxE := by omega
        by_cases h2 : maxB < p + s
        · simp [fill, hs, fits, h1, h1', h2]
        · simp [fill, hs, fits, h1, h1', h2, ih]

theorem fill_dropped_rest (maxB maxE : Nat) (evs : List Ev) (p : Nat) :
    (fill maxB maxE p evs).dropped ++ (fill maxB maxE p evs).rest.filter (fun e => !fits maxE e)
      = evs.filter (fun e => !fits maxE e) := by
  induction evs generalizing p with
  | nil => simp [fill]
  | cons e es ih =>
    cases hs : e.size with
    | none => simp [fill, hs, fits, ih]
    | some s =>
      by_cases h1 : maxE < s
      · have : ¬ s ≤ maxE := by omega
        simp [fill, hs, fits, h1, this, ih]
      · have h1' : s ≤ maxE := by omega
        by_cases h2 : maxB < p + s
        · simp [fill, hs, fits, h1, h1', h2]
        · simp [fill, hs, fits, h1, h1', h2, ih]

theorem fill_lengths (maxB maxE : Nat) (evs : List Ev) (p : Nat) :
    (fill maxB maxE p evs).sub.length + (fill maxB maxE p evs).dropped.length
      + (fill maxB maxE p evs).rest.length = evs.length := by
  induction evs generalizing p with
  | nil => simp [fill]
  | cons e es ih =>
    cases hs : e.size with
    | none => have := ih p; simp [fill, hs]; omega
    | some s =>
      by_cases h1 : maxE < s
      · have := ih p; simp [fill, hs, h1]; omega
      · by_cases h2 : maxB < p + s
        · simp [fill, hs, h1, h2]
        · have := ih (p + s); simp [fill, hs, h1, h2]; omega

theorem fill_packed (maxB maxE : Nat) (evs : List Ev) (p : Nat) :
    (fill maxB maxE p evs).packed = p + sizeSum (fill maxB maxE p evs).sub := by
  induction evs generalizing p with
  | nil => simp [fill, sizeSum]
  | cons e es ih =>
    cases hs : e.size with
    | none => simpa [fill, hs] using ih p
    | some s =>
      by_cases h1 : maxE < s
      · simpa [fill, hs, h1] using ih p
      · by_cases h2 : maxB < p + s
        · simp [fill, hs, h1, h2, sizeSum]
        · have := ih (p + s)
          simp [fill, hs, h1, h2, sizeSum] at this ⊢
          omega

theorem fill_packed_le (maxB maxE : Nat) (evs : List Ev) (p : Nat) (hp : p ≤ maxB) :
    (fill maxB maxE p evs).packed ≤ maxB := by
  induction evs generalizing p with
  | nil => simpa [fill] using hp
  | cons e es ih =>
    cases hs : e.size with
    | none => simpa [fill, hs] using ih p hp
    | some s =>
      by_cases h1 : maxE < s
      · simpa [fill, hs, h1] using ih p hp
      · by_cases h2 : maxB < p + s
        · simpa [fill, hs, h1, h2] using hp
        · simpa [fill, hs, h1, h2] using ih (p + s) (by omega)

theorem fill_rest_suffix (maxB maxE : Nat) (evs : List Ev) (p : Nat) :
    (fill maxB maxE p evs).rest <:+ evs := by
  induction evs generalizing p with
  | nil => simp [fill]
  | cons e es ih =>
    cases hs : e.size with
    | none => simpa [fill, hs] using List.IsSuffix.trans (ih p) (List.suffix_cons e es)
    | some s =>
      by_cases h1 : maxE < s
      · simpa [fill, hs, h1] using List.IsSuffix.trans (ih p) (List.suffix_cons e es)
      · by_cases h2 : maxB < p + s
        · simp [fill, hs, h1, h2]
        · simpa [fill, hs, h1, h2] using List.IsSuffix.trans (ih (p + s)) (List.suffix_cons e es)

/-- **progress**: when an event of the largest admissible size always fits into an empty
sub-batch, one pass of the inner loop consumes at least one event. -/
theorem fill_progress (maxB maxE : Nat) (e : Ev) (es : List Ev) (p : Nat) (h : p + maxE ≤ maxB) :
    (fill maxB maxE p (e :: es)).rest.length ≤ es.length := by
  have hle : ∀ q, (fill maxB maxE q es).rest.length ≤ es.length := fun q =>
    (fill_rest_suffix maxB maxE es q).length_le
  cases hs : e.size with
  | none => simpa [fill, hs] using hle p
  | some s =>
    by_cases h1 : maxE < s
    · simpa [fill, hs, h1] using hle p
    · have h2 : ¬ maxB < p + s := by omega
      simpa [fill, hs, h1, h2] using hle (p + s)

theorem fill_sub_fits (maxB maxE : Nat) (evs : List Ev) (p : Nat) :
    ∀ e ∈ (fill maxB maxE p evs).sub, fits maxE e = true := by
  intro e he
  have h := fill_sub_rest maxB maxE evs p
  have : e ∈ evs.filter (fits maxE) := by rw [← h]; exact List.mem_append_left _ he
  exact (List.mem_filter.mp this).2

theorem fill_sub_mem (maxB maxE : Nat) (evs : List Ev) (p : Nat) :
    ∀ e ∈ (fill maxB maxE p evs).sub, e ∈ evs := by
  intro e he
  have h := fill_sub_rest maxB maxE evs p
  have : e ∈ evs.filter (fits maxE) := by rw [← h]; exact List.mem_append_left _ he
  exact (List.mem_filter.mp this).1

theorem fill_dropped_unfit (maxB maxE : Nat) (evs : List Ev) (p : Nat) :
    ∀ e ∈ (fill maxB maxE p evs).dropped, fits maxE e = false := by
  intro e he
  have h := fill_dropped_rest maxB maxE evs p
  have : e ∈ evs.filter (fun e => !fits maxE e) := by rw [← h]; exact List.mem_append_left _ he
  simpa using (List.mem_filter.mp this).2

/-! ## the split loop -/

def chunkTotal (cs : List Chunk) : Nat := (cs.map (fun c => c.dropped.length + c.sub.length)).sum

theorem splitLoop_complete (maxB maxE : Nat) (h : reserve + maxE ≤ maxB) :
    ∀ (fuel : Nat) (evs : List Ev), evs.length ≤ fuel → (splitLoop maxB maxE fuel evs).2 = true := by
  intro fuel
  induction fuel with
  | zero => intro evs hl; cases evs with
    | nil => simp [splitLoop]
    | cons e es => simp at hl
  | succ n ih =>
    intro evs hl
    cases evs with
    | nil => simp [splitLoop]
    | cons e es =>
      simp only [splitLoop]
      apply ih
      have := fill_progress maxB maxE e es reserve h
      simp at hl; omega

theorem splitLoop_subs (maxB maxE : Nat) :
    ∀ (fuel : Nat) (evs : List Ev), (splitLoop maxB maxE fuel evs).2 = true →
      (splitLoop maxB maxE fuel evs).1.flatMap (·.sub) = evs.filter (fits maxE) := by
  intro fuel
  induction fuel with
  | zero => intro evs hc; cases evs with
    | nil => simp [splitLoop]
    | cons e es => simp [splitLoop] at hc
  | succ n ih =>
    intro evs hc
    cases evs with
    | nil => simp [splitLoop]
    | cons e es =>
      simp only [splitLoop] at hc ⊢
      rw [List.flatMap_cons, ih _ hc]
      exact fill_sub_rest maxB maxE (e :: es) reserve

theorem splitLoop_dropped (maxB maxE : Nat) :
    ∀ (fuel : Nat) (evs : List Ev), (splitLoop maxB maxE fuel evs).2 = true →
      (splitLoop maxB maxE fuel evs).1.flatMap (·.dropped) = evs.filter (fun e => !fits maxE e) := by
  intro fuel
  induction fuel with
  | zero => intro evs hc; cases evs with
    | nil => simp [splitLoop]
    | cons e es => simp [splitLoop] at hc
  | succ n ih =>
    intro evs hc
    cases evs with
    | nil => simp [splitLoop]
    | cons e es =>
      simp only [splitLoop] at hc ⊢
      rw [List.flatMap_cons, ih _ hc]
      exact fill_dropped_rest maxB maxE (e :: es) reserve

theorem splitLoop_total (maxB maxE : Nat) :
    ∀ (fuel : Nat) (evs : List Ev), (splitLoop maxB maxE fuel evs).2 = true →
      chunkTotal (splitLoop maxB maxE fuel evs).1 = evs.length := by
  intro fuel
  induction fuel with
  | zero => intro evs hc; cases evs with
    | nil => simp [splitLoop, chunkTotal]
    | cons e es => simp [splitLoop] at hc
  | succ n ih =>
    intro evs hc
    cases evs with
    | nil => simp [splitLoop, chunkTotal]
    | cons e es =>
      simp only [splitLoop] at hc ⊢
      have h1 := ih _ hc
      have h2 := fill_lengths maxB maxE (e :: es) reserve
      simp only [chunkTotal, List.map_cons, List.sum_cons] at h1 ⊢
      omega

/-- every chunk: its packed length, its events and where it is addressed -/
theorem splitLoop_chunks (maxB maxE : Nat) (hr : reserve ≤ maxB) :
    ∀ (fuel : Nat) (evs : List Ev), ∀ c ∈ (splitLoop maxB maxE fuel evs).1,
      c.packed ≤ maxB ∧ c.packed = reserve + sizeSum c.sub ∧ c.sub.length ≤ evs.length ∧
      (∀ e ∈ c.sub, e ∈ evs ∧ fits maxE e = true) ∧ (∀ e ∈ c.dropped, fits maxE e = false) ∧
      (∃ e ∈ evs, c.dest = e.dest) := by
  intro fuel
  induction fuel with
  | zero => intro evs c hc; cases evs <;> simp [splitLoop] at hc
  | succ n ih =>
    intro evs c hc
    cases evs with
    | nil => simp [splitLoop] at hc
    | cons e es =>
      simp only [splitLoop, List.mem_cons] at hc
      rcases hc with rfl | hc
      · refine ⟨fill_packed_le maxB maxE _ _ hr, fill_packed maxB maxE _ _, ?_, ?_, ?_, ?_⟩
        · have := fill_lengths maxB maxE (e :: es) reserve
          simp only at this ⊢; omega
        · intro x hx
          exact ⟨fill_sub_mem maxB maxE _ _ x hx, fill_sub_fits maxB maxE _ _ x hx⟩
        · exact fill_dropped_unfit maxB maxE _ _
        · exact ⟨e, List.mem_cons_self, rfl⟩
      · have hsuf := fill_rest_suffix maxB maxE (e :: es) reserve
        obtain ⟨h1, h2, h3, h4, h5, h6⟩ := ih _ c hc
        refine ⟨h1, h2, ?_, ?_, h5, ?_⟩
        · have := hsuf.length_le; omega
        · intro x hx; exact ⟨hsuf.subset (h4 x hx).1, (h4 x hx).2⟩
        · obtain ⟨x, hx, hd⟩ := h6
          exact ⟨x, hsuf.subset hx, hd⟩

theorem consts_ok : reserve + maxE ≤ maxB := by decide

theorem split_complete (evs : List Ev) : (split evs).2 = true :=
  splitLoop_complete maxB maxE consts_ok _ _ (Nat.le_succ _)

end Refinery.Model.Transmit
