import Refinery.Model.Transmit
/-!
Lemmas about the `transmit` model (C26): the packing loop, the split loop, the retry loop and the
accounting of one `sendBatch`.
-/
set_option linter.unusedSimpArgs false
set_option linter.unusedVariables false

namespace Refinery.Model.Transmit
open Refinery

/-! ## the packing loop -/

def sizeSum (l : List Ev) : Nat := (l.map (fun e => e.size.getD 0)).sum

theorem fill_sub_rest (maxB maxE : Nat) (evs : List Ev) (p : Nat) :
    (fill maxB maxE p evs).sub ++ (fill maxB maxE p evs).rest.filter (fits maxE) = evs.filter (fits maxE) := by
  induction evs generalizing p with
  | nil => simp [fill]
  | cons e es ih =>
    cases hs : e.size with
    | none =>
      have hf : fits maxE e = false := by simp [fits, hs]
      simp [fill, hs, hf, ih]
    | some s =>
      by_cases h1 : maxE < s
      · have hf : fits maxE e = false := by simp [fits, hs]; omega
        simp [fill, hs, hf, h1, ih]
      · have hf : fits maxE e = true := by simp [fits, hs]; omega
        by_cases h2 : maxB < p + s
        · simp [fill, hs, hf, h1, h2]
        · simp [fill, hs, hf, h1, h2, ih]

theorem fill_dropped_rest (maxB maxE : Nat) (evs : List Ev) (p : Nat) :
    (fill maxB maxE p evs).dropped ++ (fill maxB maxE p evs).rest.filter (fun e => !fits maxE e)
      = evs.filter (fun e => !fits maxE e) := by
  induction evs generalizing p with
  | nil => simp [fill]
  | cons e es ih =>
    cases hs : e.size with
    | none =>
      have hf : fits maxE e = false := by simp [fits, hs]
      simp [fill, hs, hf, ih]
    | some s =>
      by_cases h1 : maxE < s
      · have hf : fits maxE e = false := by simp [fits, hs]; omega
        simp [fill, hs, hf, h1, ih]
      · have hf : fits maxE e = true := by simp [fits, hs]; omega
        by_cases h2 : maxB < p + s
        · simp [fill, hs, hf, h1, h2]
        · simp [fill, hs, hf, h1, h2, ih]

theorem fill_lengths (maxB maxE : Nat) (evs : List Ev) (p : Nat) :
    (fill maxB maxE p evs).sub.length + (fill maxB maxE p evs).dropped.length
      + (fill maxB maxE p evs).rest.length = evs.length := by
  induction evs generalizing p with
  | nil => simp [fill]
  | cons e es ih =>
    cases hs : e.size with
    | none => have := ih p; simp [fill, hs]; omega
    | some s =>
      by_cases h1 : maxE < s
      · have := ih p; simp [fill, hs, h1]; omega
      · by_cases h2 : maxB < p + s
        · simp [fill, hs, h1, h2]
        · have := ih (p + s); simp [fill, hs, h1, h2]; omega

theorem fill_packed (maxB maxE : Nat) (evs : List Ev) (p : Nat) :
    (fill maxB maxE p evs).packed = p + sizeSum (fill maxB maxE p evs).sub := by
  induction evs generalizing p with
  | nil => simp [fill, sizeSum]
  | cons e es ih =>
    cases hs : e.size with
    | none => simpa [fill, hs] using ih p
    | some s =>
      by_cases h1 : maxE < s
      · simpa [fill, hs, h1] using ih p
      · by_cases h2 : maxB < p + s
        · simp [fill, hs, h1, h2, sizeSum]
        · have := ih (p + s)
          simp [fill, hs, h1, h2, sizeSum] at this ⊢
          omega

theorem fill_packed_le (maxB maxE : Nat) (evs : List Ev) (p : Nat) (hp : p ≤ maxB) :
    (fill maxB maxE p evs).packed ≤ maxB := by
  induction evs generalizing p with
  | nil => simpa [fill] using hp
  | cons e es ih =>
    cases hs : e.size with
    | none => simpa [fill, hs] using ih p hp
    | some s =>
      by_cases h1 : maxE < s
      · simpa [fill, hs, h1] using ih p hp
      · by_cases h2 : maxB < p + s
        · simpa [fill, hs, h1, h2] using hp
        · simpa [fill, hs, h1, h2] using ih (p + s) (by omega)

theorem fill_rest_suffix (maxB maxE : Nat) (evs : List Ev) (p : Nat) :
    (fill maxB maxE p evs).rest <:+ evs := by
  induction evs generalizing p with
  | nil => simp [fill]
  | cons e es ih =>
    cases hs : e.size with
    | none => simpa [fill, hs] using List.IsSuffix.trans (ih p) (List.suffix_cons e es)
    | some s =>
      by_cases h1 : maxE < s
      · simpa [fill, hs, h1] using List.IsSuffix.trans (ih p) (List.suffix_cons e es)
      · by_cases h2 : maxB < p + s
        · simp [fill, hs, h1, h2]
        · simpa [fill, hs, h1, h2] using List.IsSuffix.trans (ih (p + s)) (List.suffix_cons e es)

/-- **progress**: when an event of the largest admissible size always fits into an empty
sub-batch, one pass of the inner loop consumes at least one event. -/
theorem fill_progress (maxB maxE : Nat) (e : Ev) (es : List Ev) (p : Nat) (h : p + maxE ≤ maxB) :
    (fill maxB maxE p (e :: es)).rest.length ≤ es.length := by
  have hle : ∀ q, (fill maxB maxE q es).rest.length ≤ es.length := fun q =>
    (fill_rest_suffix maxB maxE es q).length_le
  cases hs : e.size with
  | none => simpa [fill, hs] using hle p
  | some s =>
    by_cases h1 : maxE < s
    · simpa [fill, hs, h1] using hle p
    · have h2 : ¬ maxB < p + s := by omega
      simpa [fill, hs, h1, h2] using hle (p + s)

theorem fill_sub_fits (maxB maxE : Nat) (evs : List Ev) (p : Nat) :
    ∀ e ∈ (fill maxB maxE p evs).sub, fits maxE e = true := by
  intro e he
  have h := fill_sub_rest maxB maxE evs p
  have : e ∈ evs.filter (fits maxE) := by rw [← h]; exact List.mem_append_left _ he
  exact (List.mem_filter.mp this).2

theorem fill_sub_mem (maxB maxE : Nat) (evs : List Ev) (p : Nat) :
    ∀ e ∈ (fill maxB maxE p evs).sub, e ∈ evs := by
  intro e he
  have h := fill_sub_rest maxB maxE evs p
  have : e ∈ evs.filter (fits maxE) := by rw [← h]; exact List.mem_append_left _ he
  exact (List.mem_filter.mp this).1

theorem fill_dropped_unfit (maxB maxE : Nat) (evs : List Ev) (p : Nat) :
    ∀ e ∈ (fill maxB maxE p evs).dropped, fits maxE e = false := by
  intro e he
  have h := fill_dropped_rest maxB maxE evs p
  have : e ∈ evs.filter (fun e => !fits maxE e) := by rw [← h]; exact List.mem_append_left _ he
  simpa using (List.mem_filter.mp this).2

/-! ## the split loop -/

def chunkTotal (cs : List Chunk) : Nat := (cs.map (fun c => c.dropped.length + c.sub.length)).sum

theorem splitLoop_complete (maxB maxE : Nat) (h : reserve + maxE ≤ maxB) :
    ∀ (fuel : Nat) (evs : List Ev), evs.length ≤ fuel → (splitLoop maxB maxE fuel evs).2 = true := by
  intro fuel
  induction fuel with
  | zero => intro evs hl; cases evs with
    | nil => simp [splitLoop]
    | cons e es => simp at hl
  | succ n ih =>
    intro evs hl
    cases evs with
    | nil => simp [splitLoop]
    | cons e es =>
      simp only [splitLoop]
      apply ih
      have := fill_progress maxB maxE e es reserve h
      simp at hl; omega

theorem splitLoop_subs (maxB maxE : Nat) :
    ∀ (fuel : Nat) (evs : List Ev), (splitLoop maxB maxE fuel evs).2 = true →
      (splitLoop maxB maxE fuel evs).1.flatMap (·.sub) = evs.filter (fits maxE) := by
  intro fuel
  induction fuel with
  | zero => intro evs hc; cases evs with
    | nil => simp [splitLoop]
    | cons e es => simp [splitLoop] at hc
  | succ n ih =>
    intro evs hc
    cases evs with
    | nil => simp [splitLoop]
    | cons e es =>
      simp only [splitLoop] at hc ⊢
      rw [List.flatMap_cons, ih _ hc]
      exact fill_sub_rest maxB maxE (e :: es) reserve

theorem splitLoop_dropped (maxB maxE : Nat) :
    ∀ (fuel : Nat) (evs : List Ev), (splitLoop maxB maxE fuel evs).2 = true →
      (splitLoop maxB maxE fuel evs).1.flatMap (·.dropped) = evs.filter (fun e => !fits maxE e) := by
  intro fuel
  induction fuel with
  | zero => intro evs hc; cases evs with
    | nil => simp [splitLoop]
    | cons e es => simp [splitLoop] at hc
  | succ n ih =>
    intro evs hc
    cases evs with
    | nil => simp [splitLoop]
    | cons e es =>
      simp only [splitLoop] at hc ⊢
      rw [List.flatMap_cons, ih _ hc]
      exact fill_dropped_rest maxB maxE (e :: es) reserve

theorem splitLoop_total (maxB maxE : Nat) :
    ∀ (fuel : Nat) (evs : List Ev), (splitLoop maxB maxE fuel evs).2 = true →
      chunkTotal (splitLoop maxB maxE fuel evs).1 = evs.length := by
  intro fuel
  induction fuel with
  | zero => intro evs hc; cases evs with
    | nil => simp [splitLoop, chunkTotal]
    | cons e es => simp [splitLoop] at hc
  | succ n ih =>
    intro evs hc
    cases evs with
    | nil => simp [splitLoop, chunkTotal]
    | cons e es =>
      simp only [splitLoop] at hc ⊢
      have h1 := ih _ hc
      have h2 := fill_lengths maxB maxE (e :: es) reserve
      simp only [chunkTotal, List.map_cons, List.sum_cons] at h1 ⊢
      omega

/-- every chunk: its packed length, its events and where it is addressed -/
theorem splitLoop_chunks (maxB maxE : Nat) (hr : reserve ≤ maxB) :
    ∀ (fuel : Nat) (evs : List Ev), ∀ c ∈ (splitLoop maxB maxE fuel evs).1,
      c.packed ≤ maxB ∧ c.packed = reserve + sizeSum c.sub ∧ c.sub.length ≤ evs.length ∧
      (∀ e ∈ c.sub, e ∈ evs ∧ fits maxE e = true) ∧ (∀ e ∈ c.dropped, fits maxE e = false) ∧
      (∃ e ∈ evs, c.dest = e.dest) := by
  intro fuel
  induction fuel with
  | zero => intro evs c hc; cases evs <;> simp [splitLoop] at hc
  | succ n ih =>
    intro evs c hc
    cases evs with
    | nil => simp [splitLoop] at hc
    | cons e es =>
      simp only [splitLoop, List.mem_cons] at hc
      rcases hc with rfl | hc
      · refine ⟨fill_packed_le maxB maxE _ _ hr, fill_packed maxB maxE _ _, ?_, ?_, ?_, ?_⟩
        · have := fill_lengths maxB maxE (e :: es) reserve
          simp only at this ⊢; omega
        · intro x hx
          exact ⟨fill_sub_mem maxB maxE _ _ x hx, fill_sub_fits maxB maxE _ _ x hx⟩
        · exact fill_dropped_unfit maxB maxE _ _
        · exact ⟨e, List.mem_cons_self, rfl⟩
      · have hsuf := fill_rest_suffix maxB maxE (e :: es) reserve
        obtain ⟨h1, h2, h3, h4, h5, h6⟩ := ih _ c hc
        refine ⟨h1, h2, ?_, ?_, h5, ?_⟩
        · have := hsuf.length_le; omega
        · intro x hx; exact ⟨hsuf.subset (h4 x hx).1, (h4 x hx).2⟩
        · obtain ⟨x, hx, hd⟩ := h6
          exact ⟨x, hsuf.subset hx, hd⟩

theorem consts_ok : reserve + maxE ≤ maxB := by decide

theorem split_complete (evs : List Ev) : (split evs).2 = true :=
  splitLoop_complete maxB maxE consts_ok _ _ (Nat.le_succ _)

theorem hdrLen_le (n : Nat) : hdrLen n ≤ reserve := by
  unfold hdrLen reserve
  split
  · omega
  · split <;> omega

theorem flatMap_congr' {α β : Type} (l : List α) (f g : α → List β) (h : ∀ x ∈ l, f x = g x) :
    l.flatMap f = l.flatMap g := by
  induction l with
  | nil => rfl
  | cons a t ih =>
    simp only [List.flatMap_cons]
    rw [h a List.mem_cons_self, ih (fun x hx => h x (List.mem_cons_of_mem _ hx))]

/-! ## the retry loop and the accounting of one sub-batch -/

/-- the counters a request/response exchange never touches before `finish` -/
def SameQ (a b : Ctr) : Prop := a.ups = b.ups ∧ a.downs = b.downs ∧ a.rerr = b.rerr

theorem tryLoop_spec (script : List Srv) (now : Nat) (mk : Nat → Attempt) (n : Nat) :
    ∀ (left t : Nat) (last : Last) (acc : Acc),
      let r := tryLoop script now mk n left t last acc
      SameQ r.2.ctr acc.ctr ∧
      (∃ l, r.2.log = acc.log ++ l ∧ l.length ≤ left ∧ ∀ a ∈ l, ∃ p, a = mk p) ∧
      ((0 < left ∨ last ≠ .none) → r.1 ≠ .none) := by
  intro left
  induction left with
  | zero =>
    intro t last acc
    refine ⟨⟨rfl, rfl, rfl⟩, ⟨[], by simp [tryLoop], by simp, by simp⟩, ?_⟩
    intro h; rcases h with h | h
    · omega
    · simpa [tryLoop] using h
  | succ k ih =>
    intro t last acc
    simp only [tryLoop]
    -- the accumulator after the request has been made
    generalize hacc1 : (if 0 < t then { acc with ctr := { acc.ctr with retries := acc.ctr.retries + 1 } } else acc) = acc1
    have hq1 : SameQ acc1.ctr acc.ctr := by
      subst hacc1; by_cases ht : 0 < t <;> simp [ht, SameQ]
    have hl1 : acc1.log = acc.log := by
      subst hacc1; by_cases ht : 0 < t <;> simp [ht]
    cases hr : (script.getD acc1.pos Srv.ok) n with
    | timeout =>
      simp only []
      have := ih (t + 1) .err { acc1 with log := acc1.log ++ [mk acc1.pos], pos := acc1.pos + 1 }
      obtain ⟨⟨q1, q2, q3⟩, ⟨l, e1, e2, e3⟩, e4⟩ := this
      refine ⟨⟨by rw [q1]; exact hq1.1, by rw [q2]; exact hq1.2.1, by rw [q3]; exact hq1.2.2⟩, ⟨mk acc1.pos :: l, ?_, ?_, ?_⟩, ?_⟩
      · rw [e1]; simp [hl1]
      · simp; omega
      · intro a ha; rcases List.mem_cons.mp ha with rfl | ha
        · exact ⟨_, rfl⟩
        · exact e3 a ha
      · intro _; exact e4 (Or.inr (by simp))
    | netErr =>
      simp only []
      refine ⟨hq1, ⟨[mk acc1.pos], by simp [hl1], by simp, ?_⟩, by simp⟩
      intro a ha; simp at ha; exact ⟨_, ha⟩
    | http code ra de sts =>
      simp only []
      by_cases hc : (code = 429 ∨ code = 503) ∧ 0 < sleepDur now ra ∧ sleepDur now ra < 60 * second
      · rw [if_pos hc]
        have := ih (t + 1) (.resp code true [])
          { acc1 with log := acc1.log ++ [mk acc1.pos], pos := acc1.pos + 1, sleeps := acc1.sleeps ++ [sleepDur now ra] }
        obtain ⟨⟨q1, q2, q3⟩, ⟨l, e1, e2, e3⟩, e4⟩ := this
        refine ⟨⟨by rw [q1]; exact hq1.1, by rw [q2]; exact hq1.2.1, by rw [q3]; exact hq1.2.2⟩, ⟨mk acc1.pos :: l, ?_, ?_, ?_⟩, ?_⟩
        · rw [e1]; simp [hl1]
        · simp; omega
        · intro a ha; rcases List.mem_cons.mp ha with rfl | ha
          · exact ⟨_, rfl⟩
          · exact e3 a ha
        · intro _; exact e4 (Or.inr (by simp))
      · rw [if_neg hc]
        refine ⟨hq1, ⟨[mk acc1.pos], by simp [hl1], by simp, ?_⟩, by simp⟩
        intro a ha; simp at ha; exact ⟨_, ha⟩

theorem respond_spec : ∀ (sub : List Ev) (sts : List Nat) (c : Ctr),
    (respond sts sub c).ups = c.ups ∧ (respond sts sub c).downs = c.downs + sub.length ∧
    c.rerr ≤ (respond sts sub c).rerr := by
  intro sub
  induction sub with
  | nil => intro sts c; simp [respond]
  | cons e es ih =>
    intro sts c
    cases sts with
    | nil =>
      obtain ⟨h1, h2, h3⟩ := ih [] { c with rerr := c.rerr + 1, downs := c.downs + 1 }
      simp only [respond]
      refine ⟨h1, ?_, ?_⟩
      · rw [h2]; simp; omega
      · simp at h3; omega
    | cons st sts =>
      simp only [respond]
      by_cases h : st = 202
      · rw [if_pos h]
        obtain ⟨h1, h2, h3⟩ := ih sts { c with r20x := c.r20x + 1, downs := c.downs + 1 }
        refine ⟨h1, ?_, h3⟩
        rw [h2]; simp; omega
      · rw [if_neg h]
        obtain ⟨h1, h2, h3⟩ := ih sts { c with rerr := c.rerr + 1, downs := c.downs + 1 }
        refine ⟨h1, ?_, ?_⟩
        · rw [h2]; simp; omega
        · simp at h3; omega

theorem finish_spec (last : Last) (sub : List Ev) (c : Ctr) (h : last ≠ .none) :
    (finish last sub c).ups = c.ups ∧ (finish last sub c).downs = c.downs + sub.length ∧
    c.rerr ≤ (finish last sub c).rerr := by
  cases last with
  | none => exact absurd rfl h
  | err => simp [finish, batchFailure]
  | resp code de sts =>
    simp only [finish]
    by_cases hc : code = 200
    · rw [if_pos hc]
      by_cases hd : de = true
      · have := respond_spec sub sts
          { c with batchesSent := c.batchesSent + 1, msgsSent := c.msgsSent + sub.length, decodeErr := c.decodeErr + 1 }
        simpa [hd] using this
      · have := respond_spec sub sts
          { c with batchesSent := c.batchesSent + 1, msgsSent := c.msgsSent + sub.length }
        simpa [hd] using this
    · rw [if_neg hc]; simp

/-- what one iteration of the outer loop does to the gauge, the error counter and the request log -/
theorem sendChunk_spec (cfg : Cfg) (script : List Srv) (now i : Nat) (ch : Chunk) (acc : Acc) :
    let r := sendChunk cfg script now i ch acc
    r.ctr.ups = acc.ctr.ups ∧
    r.ctr.downs = acc.ctr.downs + (ch.dropped.length + ch.sub.length) ∧
    acc.ctr.rerr + ch.dropped.length ≤ r.ctr.rerr ∧
    ∃ l, r.log = acc.log ++ l ∧ l.length ≤ maxTries ∧
      ∀ a ∈ l, a.dest = ch.dest ∧ a.events = ch.sub ∧ a.bodyLen = bodyLen ch ∧ a.time = now ∧
        a.chunk = i ∧ ch.sub ≠ [] ∧ a.path = requestPath (cfg.esc ch.dest.dataset) := by
  simp only [sendChunk]
  by_cases he : ch.sub.isEmpty = true
  · rw [if_pos he]
    have : ch.sub.length = 0 := by simpa using he
    exact ⟨rfl, by simp [this, countDropped], by simp [countDropped], [], by simp [countDropped], by simp, by simp⟩
  · rw [if_neg he]
    have hne : ch.sub ≠ [] := by simpa using he
    by_cases hb : cfg.badUrl ch.dest = true
    · rw [if_pos hb]
      refine ⟨by simp [batchFailure, countDropped], by simp [batchFailure, countDropped]; omega,
        by simp [batchFailure, countDropped], [], by simp [countDropped], by simp, by simp⟩
    · rw [if_neg hb]
      generalize hacc0 : countDropped ch.dropped.length acc = acc0
      have hs := tryLoop_spec script now (mkAttempt cfg now i ch) ch.sub.length
        maxTries 0 .none acc0
      obtain ⟨⟨q1, q2, q3⟩, ⟨l, e1, e2, e3⟩, e4⟩ := hs
      have hnn := e4 (Or.inl (by decide))
      obtain ⟨f1, f2, f3⟩ := finish_spec _ ch.sub
        (tryLoop script now (mkAttempt cfg now i ch) ch.sub.length maxTries 0 .none acc0).2.ctr hnn
      have a1 : acc0.ctr.ups = acc.ctr.ups := by subst hacc0; rfl
      have a2 : acc0.ctr.downs = acc.ctr.downs + ch.dropped.length := by subst hacc0; rfl
      have a3 : acc0.ctr.rerr = acc.ctr.rerr + ch.dropped.length := by subst hacc0; rfl
      have a4 : acc0.log = acc.log := by subst hacc0; rfl
      refine ⟨?_, ?_, ?_, l, ?_, e2, ?_⟩
      · simp only []; rw [f1, q1, a1]
      · simp only []; rw [f2, q2, a2]; omega
      · simp only []; omega
      · simp only []; rw [e1, a4]
      · intro a ha
        obtain ⟨p, rfl⟩ := e3 a ha
        exact ⟨rfl, rfl, rfl, rfl, rfl, hne, rfl⟩

theorem sendChunks_spec (cfg : Cfg) (script : List Srv) (now : Nat) :
    ∀ (cs : List Chunk) (i : Nat) (acc : Acc),
      let r := sendChunks cfg script now cs i acc
      r.ctr.ups = acc.ctr.ups ∧
      r.ctr.downs = acc.ctr.downs + chunkTotal cs ∧
      acc.ctr.rerr + (cs.flatMap (·.dropped)).length ≤ r.ctr.rerr ∧
      ∃ l, r.log = acc.log ++ l ∧
        (∀ a ∈ l, i ≤ a.chunk ∧ a.time = now ∧ ∃ ch ∈ cs, a.dest = ch.dest ∧ a.events = ch.sub ∧
          a.bodyLen = bodyLen ch ∧ ch.sub ≠ [] ∧ a.path = requestPath (cfg.esc ch.dest.dataset)) ∧
        ∀ j, (l.filter (fun a => a.chunk = j)).length ≤ maxTries := by
  intro cs
  induction cs with
  | nil => intro i acc; exact ⟨rfl, by simp [sendChunks, chunkTotal], by simp [sendChunks], [], by simp [sendChunks], by simp, by simp⟩
  | cons ch cs ih =>
    intro i acc
    simp only [sendChunks]
    obtain ⟨s1, s2, s3, l1, s4, s5, s6⟩ := sendChunk_spec cfg script now i ch acc
    obtain ⟨r1, r2, r3, l2, r4, r5, r6⟩ := ih (i + 1) (sendChunk cfg script now i ch acc)
    refine ⟨by rw [r1, s1], ?_, ?_, l1 ++ l2, ?_, ?_, ?_⟩
    · rw [r2, s2]; simp [chunkTotal]; omega
    · simp only [List.flatMap_cons, List.length_append] at *; omega
    · rw [r4, s4]; simp
    · intro a ha
      rcases List.mem_append.mp ha with ha | ha
      · obtain ⟨d1, d2, d3, d4, d5, d6, d7⟩ := s6 a ha
        exact ⟨by omega, d4, ch, List.mem_cons_self, d1, d2, d3, d6, d7⟩
      · obtain ⟨d1, d2, c, hc, d3⟩ := r5 a ha
        exact ⟨by omega, d2, c, List.mem_cons_of_mem _ hc, d3⟩
    · intro j
      rw [List.filter_append, List.length_append]
      by_cases hj : j = i
      · have : (l2.filter (fun a => a.chunk = j)) = [] := by
          apply List.filter_eq_nil_iff.mpr
          intro a ha; have := (r5 a ha).1; simp; omega
        rw [this]; simp
        exact Nat.le_trans (List.length_filter_le _ _) s5
      · have : (l1.filter (fun a => a.chunk = j)) = [] := by
          apply List.filter_eq_nil_iff.mpr
          intro a ha; have := (s6 a ha).2.2.2.2.1; simp; omega
        rw [this]; simpa using r6 j

/-- **one `sendBatch`**: the gauge goes down by exactly the number of events handed in, every
unfit event is counted as an error, and every request carries one sub-batch of the split. -/
theorem sendBatch_spec (cfg : Cfg) (script : List Srv) (now : Nat) (evs : List Ev) :
    let r := sendBatch cfg script now evs
    r.ctr.ups = 0 ∧ r.ctr.downs = evs.length ∧
    (evs.filter (fun e => !fits maxE e)).length ≤ r.ctr.rerr ∧
    (∀ a ∈ r.log, a.time = now ∧ ∃ ch ∈ (split evs).1, a.dest = ch.dest ∧ a.events = ch.sub ∧
        a.bodyLen = bodyLen ch ∧ ch.sub ≠ [] ∧ a.path = requestPath (cfg.esc ch.dest.dataset)) ∧
    ∀ j, (r.log.filter (fun a => a.chunk = j)).length ≤ maxTries := by
  obtain ⟨h1, h2, h3, l, h4, h5, h6⟩ := sendChunks_spec cfg script now (split evs).1 0 {}
  have hc := split_complete evs
  have ht : chunkTotal (split evs).1 = evs.length := splitLoop_total maxB maxE _ _ hc
  have hd := splitLoop_dropped maxB maxE _ _ hc
  simp only [sendBatch]
  refine ⟨h1, by rw [h2, ht]; simp, ?_, ?_, ?_⟩
  · have : (List.flatMap (fun x => x.dropped) (split evs).1) = evs.filter (fun e => !fits maxE e) := hd
    rw [this] at h3; simpa using h3
  · intro a ha
    rw [h4] at ha; simp at ha
    obtain ⟨_, d2, d3⟩ := h5 a ha
    exact ⟨d2, d3⟩
  · intro j; rw [h4]; simpa using h6 j

end Refinery.Model.Transmit
