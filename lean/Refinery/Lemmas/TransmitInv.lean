import Refinery.Lemmas.Transmit
/-!
Invariants of the batching state machine of the `transmit` model (C26).
-/
set_option linter.unusedSimpArgs false
set_option linter.unusedVariables false

namespace Refinery.Model.Transmit
open Refinery

/-! ## association-list helpers -/

def lenOf (o : Option Batch) : Nat := match o with | some b => b.events.length | none => 0
def evsOf (o : Option Batch) : List Ev := match o with | some b => b.events | none => []

def lens (l : AList Dest Batch) : Nat := (l.map (fun kb => kb.2.events.length)).sum

theorem del_of_not_mem (l : AList Dest Batch) (k : Dest) (h : k ∉ AList.keys l) : AList.del l k = l := by
  induction l with
  | nil => rfl
  | cons p t ih =>
    obtain ⟨a, b⟩ := p
    simp only [AList.keys, List.map_cons, List.mem_cons, not_or] at h
    have : a ≠ k := fun e => h.1 e.symm
    simp only [AList.del, List.filter_cons, this, ne_eq, not_false_eq_true, decide_true, if_true]
    congr 1
    exact ih h.2

theorem lens_del (l : AList Dest Batch) (hn : AList.NoDupKeys l) (k : Dest) :
    lens (AList.del l k) + lenOf (AList.get l k) = lens l := by
  induction l with
  | nil => simp [lens, AList.del, lenOf]
  | cons p t ih =>
    obtain ⟨a, b⟩ := p
    simp only [AList.NoDupKeys, AList.keys, List.map_cons, List.nodup_cons] at hn
    by_cases h : a = k
    · subst h
      have hd : AList.del t a = t := del_of_not_mem t a hn.1
      have : AList.del ((a, b) :: t) a = t := by
        simp only [AList.del, List.filter_cons, ne_eq, not_true_eq_false, decide_false]
        exact hd
      rw [this, AList.get_cons]
      simp [lens, lenOf]; omega
    · have : AList.del ((a, b) :: t) k = (a, b) :: AList.del t k := by
        simp [AList.del, List.filter_cons, h]
      rw [this, AList.get_cons, if_neg h]
      have := ih hn.2
      simp only [lens, List.map_cons, List.sum_cons] at this ⊢
      omega

theorem lens_put (l : AList Dest Batch) (hn : AList.NoDupKeys l) (k : Dest) (v : Batch) :
    lens (AList.put l k v) + lenOf (AList.get l k) = lens l + v.events.length := by
  have := lens_del l hn k
  simp only [AList.put, lens, List.map_cons, List.sum_cons] at this ⊢
  omega

theorem mem_put {l : AList Dest Batch} {k : Dest} {v : Batch} {kb : Dest × Batch}
    (h : kb ∈ AList.put l k v) : kb = (k, v) ∨ kb ∈ l := by
  simp only [AList.put, List.mem_cons] at h
  rcases h with h | h
  · exact Or.inl h
  · exact Or.inr (List.mem_filter.mp h).1

/-- the ticker pass clears the stale batches -/
def clear (p : Batch → Bool) (l : AList Dest Batch) : AList Dest Batch :=
  l.map (fun kb => if p kb.2 then (kb.1, (⟨[], kb.2.start⟩ : Batch)) else kb)

theorem keys_clear (p : Batch → Bool) (l : AList Dest Batch) : AList.keys (clear p l) = AList.keys l := by
  induction l with
  | nil => rfl
  | cons q t ih =>
    simp only [clear, AList.keys, List.map_cons] at ih ⊢
    by_cases h : p q.2 = true <;> simp [h, ih]

theorem get_clear (p : Batch → Bool) (l : AList Dest Batch) (k : Dest) :
    AList.get (clear p l) k = (AList.get l k).map (fun b => if p b then ⟨[], b.start⟩ else b) := by
  induction l with
  | nil => rfl
  | cons q t ih =>
    obtain ⟨a, b⟩ := q
    simp only [clear, List.map_cons] at ih ⊢
    by_cases hp : p b = true
    · simp only [hp, if_true, AList.get_cons]
      by_cases h : a = k <;> simp [h, ih, hp]
    · have hp' : p b = false := by simpa using hp
      simp only [hp', Bool.false_eq_true, if_false, AList.get_cons]
      by_cases h : a = k <;> simp [h, ih, hp']

theorem lens_clear (p : Batch → Bool) (l : AList Dest Batch) :
    lens (clear p l) + lens (l.filter (fun kb => p kb.2)) = lens l := by
  induction l with
  | nil => rfl
  | cons q t ih =>
    obtain ⟨a, b⟩ := q
    simp only [clear, lens, List.map_cons, List.sum_cons, List.filter_cons, List.map_map] at ih ⊢
    by_cases hp : p b = true
    · simp only [hp, if_true, List.map_cons, List.sum_cons, List.length_nil]; omega
    · have hp' : p b = false := by simpa using hp
      simp only [hp', Bool.false_eq_true, if_false]; omega

theorem mem_clear {p : Batch → Bool} {l : AList Dest Batch} {kb : Dest × Batch} (h : kb ∈ clear p l) :
    ∃ b, (kb.1, b) ∈ l ∧ ((p b = true ∧ kb.2 = ⟨[], b.start⟩) ∨ (p b = false ∧ kb.2 = b)) := by
  simp only [clear, List.mem_map] at h
  obtain ⟨q, hq, rfl⟩ := h
  obtain ⟨a, b⟩ := q
  by_cases hp : p b = true
  · exact ⟨b, by simpa [hp] using hq, Or.inl ⟨hp, by simp [hp]⟩⟩
  · have hp' : p b = false := by simpa using hp
    exact ⟨b, by simpa [hp'] using hq, Or.inr ⟨hp', by simp [hp']⟩⟩

/-- the events of the due batches of destination `k` -/
theorem due_proj (l : AList Dest Batch) (hn : AList.NoDupKeys l) (p : Batch → Bool) (k : Dest)
    (mk : Dest × Batch → Disp) (h1 : ∀ kb, (mk kb).dest = kb.1) (h2 : ∀ kb, (mk kb).events = kb.2.events) :
    (((l.filter (fun kb => p kb.2)).map mk).filter (fun d => d.dest = k)).flatMap (·.events)
      = match AList.get l k with
        | some b => if p b then b.events else []
        | none => [] := by
  induction l with
  | nil => rfl
  | cons q t ih =>
    obtain ⟨a, b⟩ := q
    simp only [AList.NoDupKeys, AList.keys, List.map_cons, List.nodup_cons] at hn
    have ih' := ih hn.2
    rw [AList.get_cons]
    by_cases hk : a = k
    · subst hk
      have hnone : AList.get t a = none := (AList.get_eq_none_iff t a).mpr hn.1
      rw [hnone] at ih'
      simp only [if_true]
      by_cases hp : p b = true
      · simp only [List.filter_cons, hp, if_true, List.map_cons, h1, decide_true, List.flatMap_cons, h2]
        rw [ih']; simp
      · simp only [List.filter_cons, hp]
        simpa using ih'
    · simp only [if_neg hk]
      by_cases hp : p b = true
      · simp only [List.filter_cons, hp, if_true, List.map_cons, h1, hk, decide_false]
        simpa using ih'
      · simp only [List.filter_cons, hp]
        simpa using ih'

/-! ## `record` -/

def sumLen (ds : List Disp) : Nat := (ds.map (fun d => d.events.length)).sum

/-- events of the dispatched batches that cannot be sent (over the event limit / unmarshalable) -/
def unfitD (ds : List Disp) : Nat := (ds.map (fun d => (d.events.filter (fun e => !fits maxE e)).length)).sum

theorem unfitD_append (a b : List Disp) : unfitD (a ++ b) = unfitD a + unfitD b := by
  simp [unfitD, List.map_append, List.sum_append]

theorem foldl_ctr (cfg : Cfg) : ∀ (ds : List Disp) (c : Ctr),
    (ds.foldl (fun c d => c.add (d.out cfg).ctr) c).ups = c.ups ∧
    (ds.foldl (fun c d => c.add (d.out cfg).ctr) c).downs = c.downs + sumLen ds ∧
    c.rerr + unfitD ds ≤ (ds.foldl (fun c d => c.add (d.out cfg).ctr) c).rerr := by
  intro ds
  induction ds with
  | nil => intro c; simp [sumLen, unfitD]
  | cons d ds ih =>
    intro c
    obtain ⟨h1, h2, h3, _⟩ := sendBatch_spec cfg d.script d.time d.events
    obtain ⟨i1, i2, i3⟩ := ih (c.add (d.out cfg).ctr)
    simp only [List.foldl_cons]
    refine ⟨by rw [i1]; simp [Ctr.add, Disp.out, h1], ?_, ?_⟩
    · rw [i2]; simp [Ctr.add, Disp.out, h2, sumLen]; omega
    · have : (c.add (d.out cfg).ctr).rerr = c.rerr + (sendBatch cfg d.script d.time d.events).ctr.rerr := rfl
      rw [this] at i3
      simp only [unfitD, List.map_cons, List.sum_cons] at i3 ⊢
      omega

theorem record_complete (cfg : Cfg) (s : St) (ds : List Disp) (h : s.complete = true) :
    (record cfg s ds).complete = true := by
  simp only [record, h, Bool.true_and, List.all_eq_true]
  intro d _; exact split_complete d.events

/-! ## what `enq` does to each component of the state -/

def enqBatch (s : St) (e : Ev) : Batch := (AList.get s.batches e.dest).getD ⟨[], 0⟩
def enqStart (s : St) (e : Ev) : Nat := if (enqBatch s e).events.isEmpty then s.now else (enqBatch s e).start
def enqEvs (s : St) (e : Ev) : List Ev := (enqBatch s e).events ++ [e]
def enqDisp (s : St) (e : Ev) (sc : List Srv) : Disp := ⟨e.dest, enqEvs s e, enqStart s e, s.now, .size, sc⟩
def enqFull (cfg : Cfg) (s : St) (e : Ev) : Bool := decide (cfg.maxBatch ≤ (enqEvs s e).length)

section
variable (cfg : Cfg) (s : St) (e : Ev) (sc : List Srv)

theorem enq_stopped_eq (hs : s.stopped = true) : enq1 cfg s e sc = { s with panicked := true } := by
  simp [enq1, hs]

def bumpUp (s : St) : St := { s with ctr := { s.ctr with ups := s.ctr.ups + 1 } }

theorem enq_full (hs : s.stopped = false) (hf : enqFull cfg s e = true) : enq1 cfg s e sc =
    bumpUp (record cfg
      { s with accepted := s.accepted ++ [e], batches := AList.put s.batches e.dest ⟨[], enqStart s e⟩ }
      [enqDisp s e sc]) := by
  have hf' : cfg.maxBatch ≤ (((AList.get s.batches e.dest).getD ⟨[], 0⟩).events ++ [e]).length := by
    simpa [enqFull, enqEvs, enqBatch] using hf
  simp only [enq1, hs, Bool.false_eq_true, if_false]
  rw [if_pos hf']
  rfl

theorem enq_wait (hs : s.stopped = false) (hf : enqFull cfg s e = false) : enq1 cfg s e sc =
    bumpUp
      { s with accepted := s.accepted ++ [e], batches := AList.put s.batches e.dest ⟨enqEvs s e, enqStart s e⟩ } := by
  have hf' : ¬ cfg.maxBatch ≤ (((AList.get s.batches e.dest).getD ⟨[], 0⟩).events ++ [e]).length := by
    simpa [enqFull, enqEvs, enqBatch] using hf
  simp only [enq1, hs, Bool.false_eq_true, if_false]
  rw [if_neg hf']
  rfl

theorem enq_batches (hs : s.stopped = false) : (enq1 cfg s e sc).batches =
    AList.put s.batches e.dest (if enqFull cfg s e then ⟨[], enqStart s e⟩ else ⟨enqEvs s e, enqStart s e⟩) := by
  cases hf : enqFull cfg s e
  · rw [enq_wait cfg s e sc hs hf]; rfl
  · rw [enq_full cfg s e sc hs hf]; rfl

theorem enq_disps (hs : s.stopped = false) : (enq1 cfg s e sc).disps =
    s.disps ++ (if enqFull cfg s e then [enqDisp s e sc] else []) := by
  cases hf : enqFull cfg s e
  · rw [enq_wait cfg s e sc hs hf]; simp [bumpUp]
  · rw [enq_full cfg s e sc hs hf]; simp [bumpUp, record]

theorem enq_accepted (hs : s.stopped = false) : (enq1 cfg s e sc).accepted = s.accepted ++ [e] := by
  cases hf : enqFull cfg s e
  · rw [enq_wait cfg s e sc hs hf]; rfl
  · rw [enq_full cfg s e sc hs hf]; rfl

theorem enq_stopped (hs : s.stopped = false) : (enq1 cfg s e sc).stopped = false := by
  cases hf : enqFull cfg s e
  · rw [enq_wait cfg s e sc hs hf]; exact hs
  · rw [enq_full cfg s e sc hs hf]; exact hs

theorem enq_now (hs : s.stopped = false) : (enq1 cfg s e sc).now = s.now ∧ (enq1 cfg s e sc).lastTick = s.lastTick := by
  cases hf : enqFull cfg s e
  · rw [enq_wait cfg s e sc hs hf]; exact ⟨rfl, rfl⟩
  · rw [enq_full cfg s e sc hs hf]; exact ⟨rfl, rfl⟩

theorem enq_complete (hs : s.stopped = false) (hc : s.complete = true) : (enq1 cfg s e sc).complete = true := by
  cases hf : enqFull cfg s e
  · rw [enq_wait cfg s e sc hs hf]; exact hc
  · rw [enq_full cfg s e sc hs hf]
    exact record_complete cfg _ _ hc

theorem enq_ctr (hs : s.stopped = false) :
    (enq1 cfg s e sc).ctr.ups = s.ctr.ups + 1 ∧
    (enq1 cfg s e sc).ctr.downs = s.ctr.downs + (if enqFull cfg s e then (enqEvs s e).length else 0) ∧
    s.ctr.rerr + (if enqFull cfg s e then unfitD [enqDisp s e sc] else 0) ≤ (enq1 cfg s e sc).ctr.rerr := by
  cases hf : enqFull cfg s e
  · rw [enq_wait cfg s e sc hs hf]; simp [bumpUp]
  · rw [enq_full cfg s e sc hs hf]
    obtain ⟨c1, c2, c3⟩ := foldl_ctr cfg [enqDisp s e sc] s.ctr
    simp only [sumLen, List.map_cons, List.map_nil, List.sum_cons, List.sum_nil, Nat.add_zero] at c2
    simp only [bumpUp, record, if_true]
    exact ⟨by rw [c1], c2, c3⟩
end

/-! ## the structural invariant -/

/-- events sent so far for destination `k`, in dispatch order -/
def sentD (ds : List Disp) (k : Dest) : List Ev := (ds.filter (fun d => d.dest = k)).flatMap (·.events)

theorem sentD_append (a b : List Disp) (k : Dest) : sentD (a ++ b) k = sentD a k ++ sentD b k := by
  simp [sentD, List.filter_append, List.flatMap_append]

structure InvA (cfg : Cfg) (s : St) : Prop where
  nodup : AList.NoDupKeys s.batches
  keyed : ∀ kb ∈ s.batches, ∀ e ∈ kb.2.events, e.dest = kb.1
  dkeyed : ∀ d ∈ s.disps, ∀ e ∈ d.events, e.dest = d.dest
  small : ∀ kb ∈ s.batches, kb.2.events = [] ∨ kb.2.events.length < cfg.maxBatch
  dsmall : ∀ d ∈ s.disps, d.events.length ≤ max 1 cfg.maxBatch
  dne : ∀ d ∈ s.disps, d.events ≠ []
  gauge : s.ctr.ups = s.ctr.downs + lens s.batches
  errs : unfitD s.disps ≤ s.ctr.rerr
  acct : ∀ k, sentD s.disps k ++ evsOf (AList.get s.batches k) = s.accepted.filter (fun e => e.dest = k)
  stoppedEmpty : s.stopped = true → s.batches = []
  complete : s.complete = true

theorem invA_init (cfg : Cfg) : InvA cfg {} := by
  refine ⟨AList.nodup_nil, by simp, by simp, by simp, by simp, by simp, by simp [lens], by simp [unfitD], ?_, by simp, rfl⟩
  intro k; simp [sentD, evsOf]

theorem invA_enq1 (cfg : Cfg) (s : St) (e : Ev) (sc : List Srv) (h : InvA cfg s) : InvA cfg (enq1 cfg s e sc) := by
  by_cases hs : s.stopped = true
  · rw [enq_stopped_eq cfg s e sc hs]
    exact ⟨h.nodup, h.keyed, h.dkeyed, h.small, h.dsmall, h.dne, h.gauge, h.errs, h.acct, h.stoppedEmpty, h.complete⟩
  · have hs : s.stopped = false := by simpa using hs
    have hbe : (enqBatch s e).events = evsOf (AList.get s.batches e.dest) := by
      unfold enqBatch; cases AList.get s.batches e.dest <;> rfl
    have hbl : (enqBatch s e).events.length = lenOf (AList.get s.batches e.dest) := by
      unfold enqBatch; cases AList.get s.batches e.dest <;> rfl
    have hbk : ∀ x ∈ (enqBatch s e).events, x.dest = e.dest := by
      intro x hx
      cases hg : AList.get s.batches e.dest with
      | none => simp [enqBatch, hg] at hx
      | some b' =>
        have : enqBatch s e = b' := by simp [enqBatch, hg]
        rw [this] at hx
        exact h.keyed _ (AList.mem_of_get hg) x hx
    have hbs : (enqBatch s e).events = [] ∨ (enqBatch s e).events.length < cfg.maxBatch := by
      cases hg : AList.get s.batches e.dest with
      | none => left; simp [enqBatch, hg]
      | some b' =>
        have : enqBatch s e = b' := by simp [enqBatch, hg]
        rw [this]
        exact h.small _ (AList.mem_of_get hg)
    have hacc : ∀ k, (s.accepted ++ [e]).filter (fun x => x.dest = k) =
        s.accepted.filter (fun x => x.dest = k) ++ (if e.dest = k then [e] else []) := by
      intro k; by_cases hk : e.dest = k <;> simp [List.filter_append, hk]
    obtain ⟨hu, hdn, hrr⟩ := enq_ctr cfg s e sc hs
    have herr := h.errs
    have hB := enq_batches cfg s e sc hs
    have hD := enq_disps cfg s e sc hs
    have hgau := h.gauge
    by_cases hf : enqFull cfg s e = true
    · -- size-triggered dispatch
      simp only [hf, if_true] at hB hD hdn hrr
      have hfl : cfg.maxBatch ≤ (enqEvs s e).length := by simpa [enqFull] using hf
      have hg := lens_put s.batches h.nodup e.dest ⟨[], enqStart s e⟩
      refine ⟨by rw [hB]; exact AList.nodup_put _ h.nodup _ _, ?_, ?_, ?_, ?_, ?_, ?_,
        by rw [hD, unfitD_append]; omega, ?_, ?_, enq_complete cfg s e sc hs h.complete⟩
      · rw [hB]; intro kb hkb x hx
        rcases mem_put hkb with rfl | hkb
        · simp at hx
        · exact h.keyed kb hkb x hx
      · rw [hD]; intro d hdm x hx
        simp only [List.mem_append, List.mem_singleton] at hdm
        rcases hdm with hdm | rfl
        · exact h.dkeyed d hdm x hx
        · simp only [enqDisp, enqEvs, List.mem_append, List.mem_singleton] at hx
          rcases hx with hx | rfl
          · exact hbk x hx
          · rfl
      · rw [hB]; intro kb hkb
        rcases mem_put hkb with rfl | hkb
        · left; rfl
        · exact h.small kb hkb
      · rw [hD]; intro d hdm
        simp only [List.mem_append, List.mem_singleton] at hdm
        rcases hdm with hdm | rfl
        · exact h.dsmall d hdm
        · simp only [enqDisp, enqEvs, List.length_append, List.length_singleton]
          rcases hbs with hbs | hbs
          · simp [hbs]; omega
          · omega
      · rw [hD]; intro d hdm
        simp only [List.mem_append, List.mem_singleton] at hdm
        rcases hdm with hdm | rfl
        · exact h.dne d hdm
        · simp [enqDisp, enqEvs]
      · rw [hu, hdn, hB]
        simp only [enqEvs, List.length_append, List.length_singleton, List.length_nil] at hg ⊢
        omega
      · intro k
        rw [hD, hB, enq_accepted cfg s e sc hs, sentD_append, AList.get_put, hacc k, ← h.acct k]
        by_cases hk : e.dest = k
        · subst hk; simp [sentD, enqDisp, enqEvs, evsOf, hbe]
        · simp [sentD, enqDisp, hk, evsOf]
      · intro hst'; rw [enq_stopped cfg s e sc hs] at hst'; exact absurd hst' (by simp)
    · -- the event waits in its batch
      have hf' : enqFull cfg s e = false := by simpa using hf
      simp only [hf', Bool.false_eq_true, if_false, List.append_nil] at hB hD hdn hrr
      have hfl : ¬ cfg.maxBatch ≤ (enqEvs s e).length := by simpa [enqFull] using hf'
      have hg := lens_put s.batches h.nodup e.dest ⟨enqEvs s e, enqStart s e⟩
      refine ⟨by rw [hB]; exact AList.nodup_put _ h.nodup _ _, ?_, by rw [hD]; exact h.dkeyed, ?_,
        by rw [hD]; exact h.dsmall, by rw [hD]; exact h.dne, ?_, by rw [hD]; omega, ?_, ?_, enq_complete cfg s e sc hs h.complete⟩
      · rw [hB]; intro kb hkb x hx
        rcases mem_put hkb with rfl | hkb
        · simp only [enqEvs, List.mem_append, List.mem_singleton] at hx
          rcases hx with hx | rfl
          · exact hbk x hx
          · rfl
        · exact h.keyed kb hkb x hx
      · rw [hB]; intro kb hkb
        rcases mem_put hkb with rfl | hkb
        · right; simp only []; omega
        · exact h.small kb hkb
      · rw [hu, hdn, hB]
        simp only [enqEvs, List.length_append, List.length_singleton] at hg ⊢
        omega
      · intro k
        rw [hD, hB, enq_accepted cfg s e sc hs, AList.get_put, hacc k, ← h.acct k]
        by_cases hk : e.dest = k
        · subst hk; simp [enqEvs, evsOf, hbe]
        · simp [hk]
      · intro hst'; rw [enq_stopped cfg s e sc hs] at hst'; exact absurd hst' (by simp)

/-! ## ticker passes, clock advances, Stop -/

def mkDisp (now : Nat) (why : Why) (sc : List Srv) (kb : Dest × Batch) : Disp :=
  ⟨kb.1, kb.2.events, kb.2.start, now, why, sc⟩

theorem sumLen_mk (now : Nat) (why : Why) (sc : List Srv) (l : AList Dest Batch) :
    sumLen (l.map (mkDisp now why sc)) = lens l := by
  simp [sumLen, lens, mkDisp, List.map_map, Function.comp_def]

theorem tick_eq (cfg : Cfg) (sc : List Srv) (s : St) : tick cfg sc s =
    record cfg { s with batches := clear (stale cfg s.now) s.batches }
      ((s.batches.filter (fun kb => stale cfg s.now kb.2)).map (mkDisp s.now .tick sc)) := rfl

theorem lens_filter_nonempty (l : AList Dest Batch) :
    lens (l.filter (fun kb => !kb.2.events.isEmpty)) = lens l := by
  induction l with
  | nil => rfl
  | cons q t ih =>
    simp only [lens, List.filter_cons, List.map_cons, List.sum_cons] at ih ⊢
    by_cases h : q.2.events.isEmpty = true
    · have : q.2.events.length = 0 := by simpa using h
      simp [h, this]; exact ih
    · simp [h]; exact ih

/-- a pass that dispatches the batches selected by `p` and leaves `bs'` behind -/
theorem invA_pass (cfg : Cfg) (s : St) (h : InvA cfg s) (p : Batch → Bool) (hp : ∀ b, p b = true → b.events ≠ [])
    (now : Nat) (why : Why) (sc : List Srv) (s1 : St)
    (hd : s1.disps = s.disps) (hc : s1.ctr = s.ctr) (ha : s1.accepted = s.accepted) (hcm : s1.complete = s.complete)
    (hst : s1.stopped = true → s1.batches = [])
    (hb : s1.batches = clear p s.batches ∨ ((∀ b, b.events ≠ [] → p b = true) ∧ s1.batches = [])) :
    InvA cfg (record cfg s1 ((s.batches.filter (fun kb => p kb.2)).map (mkDisp now why sc))) := by
  obtain ⟨c1, c2, c3⟩ := foldl_ctr cfg ((s.batches.filter (fun kb => p kb.2)).map (mkDisp now why sc)) s1.ctr
  rw [sumLen_mk] at c2
  have hnew : ∀ d ∈ (s.batches.filter (fun kb => p kb.2)).map (mkDisp now why sc),
      ∃ kb ∈ s.batches, p kb.2 = true ∧ d = mkDisp now why sc kb := by
    intro d hdm
    obtain ⟨kb, hkb, rfl⟩ := List.mem_map.mp hdm
    exact ⟨kb, (List.mem_filter.mp hkb).1, (List.mem_filter.mp hkb).2, rfl⟩
  have hproj := fun k => due_proj s.batches h.nodup p k (mkDisp now why sc) (fun _ => rfl) (fun _ => rfl)
  refine ⟨?_, ?_, ?_, ?_, ?_, ?_, ?_, ?_, ?_, ?_, ?_⟩
  · show AList.NoDupKeys s1.batches
    rcases hb with hb | ⟨_, hb⟩
    · rw [hb]; unfold AList.NoDupKeys; rw [keys_clear]; exact h.nodup
    · rw [hb]; exact AList.nodup_nil
  · show ∀ kb ∈ s1.batches, _
    rcases hb with hb | ⟨_, hb⟩
    · rw [hb]; intro kb hkb x hx
      obtain ⟨b, hm, hcase⟩ := mem_clear hkb
      rcases hcase with ⟨_, e2⟩ | ⟨_, e2⟩
      · rw [e2] at hx; simp at hx
      · rw [e2] at hx; exact h.keyed _ hm x hx
    · rw [hb]; simp
  · show ∀ d ∈ s1.disps ++ _, _
    intro d hdm x hx
    rcases List.mem_append.mp hdm with hdm | hdm
    · rw [hd] at hdm; exact h.dkeyed d hdm x hx
    · obtain ⟨kb, hkb, _, rfl⟩ := hnew d hdm
      exact h.keyed kb hkb x hx
  · show ∀ kb ∈ s1.batches, _
    rcases hb with hb | ⟨_, hb⟩
    · rw [hb]; intro kb hkb
      obtain ⟨b, hm, hcase⟩ := mem_clear hkb
      rcases hcase with ⟨_, e2⟩ | ⟨_, e2⟩
      · left; rw [e2]
      · rw [e2]; exact h.small _ hm
    · rw [hb]; simp
  · show ∀ d ∈ s1.disps ++ _, _
    intro d hdm
    rcases List.mem_append.mp hdm with hdm | hdm
    · rw [hd] at hdm; exact h.dsmall d hdm
    · obtain ⟨kb, hkb, _, rfl⟩ := hnew d hdm
      rcases h.small kb hkb with hs | hs
      · simp [mkDisp, hs]
      · simp only [mkDisp]; omega
  · show ∀ d ∈ s1.disps ++ _, _
    intro d hdm
    rcases List.mem_append.mp hdm with hdm | hdm
    · rw [hd] at hdm; exact h.dne d hdm
    · obtain ⟨kb, _, hpk, rfl⟩ := hnew d hdm
      exact hp _ hpk
  · show (List.foldl _ s1.ctr _).ups = (List.foldl _ s1.ctr _).downs + lens s1.batches
    rw [c1, c2, hc]
    have hg := h.gauge
    rcases hb with hb | ⟨hall, hb⟩
    · rw [hb]; have := lens_clear p s.batches; omega
    · rw [hb]
      have : lens (s.batches.filter (fun kb => p kb.2)) = lens s.batches := by
        have e1 := lens_filter_nonempty s.batches
        have : s.batches.filter (fun kb => p kb.2) = s.batches.filter (fun kb => !kb.2.events.isEmpty) := by
          apply List.filter_congr
          intro kb _
          by_cases he : kb.2.events = []
          · have : p kb.2 = false := by
              cases hpk : p kb.2 with
              | false => rfl
              | true => exact absurd he (hp _ hpk)
            simp [he, this]
          · simp [he, hall _ he]
        rw [this]; exact e1
      simp [lens] at this ⊢; simp [lens] at hg; omega
  · show unfitD (s1.disps ++ _) ≤ (List.foldl _ s1.ctr _).rerr
    have := h.errs
    have hr : s1.ctr.rerr = s.ctr.rerr := by rw [hc]
    rw [unfitD_append, hd]; omega
  · intro k
    show sentD (s1.disps ++ _) k ++ evsOf (AList.get s1.batches k) = s1.accepted.filter _
    rw [sentD_append, hd, ha, ← h.acct k, List.append_assoc]
    congr 1
    show List.flatMap _ _ ++ _ = _
    rw [hproj k]
    rcases hb with hb | ⟨hall, hb⟩
    · rw [hb, get_clear]
      cases hg : AList.get s.batches k with
      | none => simp [evsOf]
      | some b => by_cases hpb : p b = true <;> simp [evsOf, hpb]
    · rw [hb]
      cases hg : AList.get s.batches k with
      | none => simp [evsOf]
      | some b =>
        by_cases hpb : p b = true
        · simp [evsOf, hpb]
        · have : b.events = [] := by
            by_cases he : b.events = []
            · exact he
            · exact absurd (hall _ he) hpb
          simp [evsOf, hpb, this]
  · exact hst
  · exact record_complete cfg _ _ (by rw [hcm]; exact h.complete)

theorem stale_ne (cfg : Cfg) (now : Nat) (b : Batch) (h : stale cfg now b = true) : b.events ≠ [] := by
  intro he; simp [stale, he] at h

theorem invA_tick (cfg : Cfg) (sc : List Srv) (s : St) (t l : Nat) (h : InvA cfg s) :
    InvA cfg (tick cfg sc { s with now := t, lastTick := l }) := by
  rw [tick_eq]
  exact invA_pass cfg s h (stale cfg t) (stale_ne cfg t) t .tick sc _ rfl rfl rfl rfl
    (fun hs => by simp [h.stoppedEmpty hs, clear]) (Or.inl rfl)

theorem invA_ticks (cfg : Cfg) (sc : List Srv) : ∀ (k : Nat) (s : St), InvA cfg s → InvA cfg (ticks cfg sc k s) := by
  intro k
  induction k with
  | zero => intro s h; exact h
  | succ n ih => intro s h; exact ih _ (invA_tick cfg sc s _ _ h)

theorem invA_now (cfg : Cfg) (s : St) (t : Nat) (h : InvA cfg s) : InvA cfg { s with now := t } :=
  ⟨h.nodup, h.keyed, h.dkeyed, h.small, h.dsmall, h.dne, h.gauge, h.errs, h.acct, h.stoppedEmpty, h.complete⟩

theorem invA_adv (cfg : Cfg) (s : St) (d : Nat) (sc : List Srv) (h : InvA cfg s) : InvA cfg (adv cfg s d sc) := by
  unfold adv
  by_cases hs : s.stopped = true
  · rw [if_pos hs]; exact invA_now cfg s _ h
  · rw [if_neg hs]; exact invA_now cfg _ _ (invA_ticks cfg sc _ s h)

theorem stop_eq (cfg : Cfg) (s : St) (sc : List Srv) (hs : s.stopped = false) : stop cfg s sc =
    record cfg { s with batches := [], stopped := true }
      ((s.batches.filter (fun kb => !kb.2.events.isEmpty)).map (mkDisp s.now .stop sc)) := by
  simp [stop, hs]; rfl

theorem invA_stop (cfg : Cfg) (s : St) (sc : List Srv) (h : InvA cfg s) : InvA cfg (stop cfg s sc) := by
  by_cases hs : s.stopped = true
  · unfold stop; rw [if_pos hs]; exact h
  · have hs : s.stopped = false := by simpa using hs
    rw [stop_eq cfg s sc hs]
    exact invA_pass cfg s h (fun b => !b.events.isEmpty) (by intro b hb; simpa using hb) s.now .stop sc _ rfl rfl rfl rfl
      (fun _ => rfl) (Or.inr ⟨by intro b hb; simpa using hb, rfl⟩)

theorem invA_step (cfg : Cfg) (s : St) (op : Op) (h : InvA cfg s) : InvA cfg (step cfg s op) := by
  cases op with
  | enq e sc => exact invA_enq1 cfg s _ sc h
  | adv d sc => exact invA_adv cfg s d sc h
  | stop sc => exact invA_stop cfg s sc h

theorem run_induction (cfg : Cfg) (P : St → Prop) (h0 : P {}) (hstep : ∀ s op, P s → P (step cfg s op)) :
    ∀ ops, P (run cfg ops) := by
  intro ops
  unfold run
  suffices ∀ s, P s → P (ops.foldl (step cfg) s) from this _ h0
  induction ops with
  | nil => intro s h; exact h
  | cons o os ih => intro s h; exact ih _ (hstep s o h)

theorem invA_run (cfg : Cfg) (ops : List Op) : InvA cfg (run cfg ops) :=
  run_induction cfg (InvA cfg) (invA_init cfg) (fun s op h => invA_step cfg s op h) ops

/-! ## the timing invariant -/

structure InvT (cfg : Cfg) (s : St) : Prop where
  clock : s.stopped = false → s.lastTick ≤ s.now ∧ s.now < s.lastTick + period cfg
  fresh : ∀ kb ∈ s.batches, kb.2.events ≠ [] → s.lastTick < kb.2.start + cfg.bt
  dtime : ∀ d ∈ s.disps, d.time < d.start + cfg.bt + period cfg
  startLe : ∀ kb ∈ s.batches, kb.2.events ≠ [] → kb.2.start ≤ s.now
  started : ∀ kb ∈ s.batches, ∀ e ∈ kb.2.events, kb.2.start ≤ e.t
  dstarted : ∀ d ∈ s.disps, ∀ e ∈ d.events, d.start ≤ e.t

theorem bt_pos (cfg : Cfg) (hp : 0 < period cfg) : 0 < cfg.bt := by
  unfold period at hp
  by_cases h : cfg.bt = 0
  · simp [h] at hp
  · omega

theorem invT_init (cfg : Cfg) (hp : 0 < period cfg) : InvT cfg {} :=
  ⟨fun _ => ⟨Nat.le_refl _, by simpa using hp⟩, by simp, by simp, by simp, by simp, by simp⟩

theorem invT_enq1 (cfg : Cfg) (hp : 0 < period cfg) (s : St) (e : Ev) (sc : List Srv) (het : e.t = s.now)
    (h : InvT cfg s) : InvT cfg (enq1 cfg s e sc) := by
  by_cases hs : s.stopped = true
  · rw [enq_stopped_eq cfg s e sc hs]
    exact ⟨h.clock, h.fresh, h.dtime, h.startLe, h.started, h.dstarted⟩
  · have hs : s.stopped = false := by simpa using hs
    have hbt := bt_pos cfg hp
    obtain ⟨hc1, hc2⟩ := h.clock hs
    obtain ⟨hn, hl⟩ := enq_now cfg s e sc hs
    -- the start time of the batch the event joins
    have hstart : (enqBatch s e).events = [] ∧ enqStart s e = s.now ∨
        (enqBatch s e).events ≠ [] ∧ s.lastTick < enqStart s e + cfg.bt ∧ enqStart s e ≤ s.now ∧
          ∀ x ∈ (enqBatch s e).events, enqStart s e ≤ x.t := by
      by_cases he : (enqBatch s e).events = []
      · left; exact ⟨he, by simp [enqStart, he]⟩
      · right
        refine ⟨he, ?_⟩
        cases hg : AList.get s.batches e.dest with
        | none => simp [enqBatch, hg] at he
        | some b' =>
          have hb : enqBatch s e = b' := by simp [enqBatch, hg]
          have : enqStart s e = b'.start := by
            unfold enqStart; rw [hb]; rw [hb] at he; simp [he]
          rw [this, hb]
          have hm := AList.mem_of_get hg
          have hne : b'.events ≠ [] := by rw [hb] at he; exact he
          exact ⟨h.fresh _ hm hne, h.startLe _ hm hne, h.started _ hm⟩
    have hfr : s.lastTick < enqStart s e + cfg.bt ∧ enqStart s e ≤ s.now ∧ ∀ x ∈ enqEvs s e, enqStart s e ≤ x.t := by
      rcases hstart with ⟨h1, h2⟩ | ⟨_, h2, h3, h4⟩
      · refine ⟨by omega, by omega, ?_⟩
        intro x hx; simp [enqEvs, h1] at hx; subst hx; omega
      · refine ⟨h2, h3, ?_⟩
        intro x hx; simp only [enqEvs, List.mem_append, List.mem_singleton] at hx
        rcases hx with hx | rfl
        · exact h4 x hx
        · omega
    refine ⟨?_, ?_, ?_, ?_, ?_, ?_⟩
    · intro _; rw [hn, hl]; exact ⟨hc1, hc2⟩
    · rw [enq_batches cfg s e sc hs, hl]
      intro kb hkb hne
      rcases mem_put hkb with rfl | hkb
      · by_cases hf : enqFull cfg s e = true
        · simp [hf] at hne
        · simp only [hf] at hne ⊢; exact hfr.1
      · exact h.fresh kb hkb hne
    · rw [enq_disps cfg s e sc hs]
      intro d hd
      rcases List.mem_append.mp hd with hd | hd
      · exact h.dtime d hd
      · by_cases hf : enqFull cfg s e = true
        · simp only [hf, if_true, List.mem_singleton] at hd
          subst hd
          simp only [enqDisp]; omega
        · simp [hf] at hd
    · rw [enq_batches cfg s e sc hs, hn]
      intro kb hkb hne
      rcases mem_put hkb with rfl | hkb
      · by_cases hf : enqFull cfg s e = true
        · simp [hf] at hne
        · simp only [hf] at hne ⊢; exact hfr.2.1
      · exact h.startLe kb hkb hne
    · rw [enq_batches cfg s e sc hs]
      intro kb hkb x hx
      rcases mem_put hkb with rfl | hkb
      · by_cases hf : enqFull cfg s e = true
        · simp [hf] at hx
        · simp only [hf] at hx ⊢; exact hfr.2.2 x hx
      · exact h.started kb hkb x hx
    · rw [enq_disps cfg s e sc hs]
      intro d hd x hx
      rcases List.mem_append.mp hd with hd | hd
      · exact h.dstarted d hd x hx
      · by_cases hf : enqFull cfg s e = true
        · simp only [hf, if_true, List.mem_singleton] at hd
          subst hd
          exact hfr.2.2 x hx
        · simp [hf] at hd

/-- what the invariant says about a state in the middle of a clock advance -/
structure Mid (cfg : Cfg) (s : St) : Prop where
  fresh : ∀ kb ∈ s.batches, kb.2.events ≠ [] → s.lastTick < kb.2.start + cfg.bt
  dtime : ∀ d ∈ s.disps, d.time < d.start + cfg.bt + period cfg
  startLe : ∀ kb ∈ s.batches, kb.2.events ≠ [] → kb.2.start ≤ s.now
  started : ∀ kb ∈ s.batches, ∀ e ∈ kb.2.events, kb.2.start ≤ e.t
  dstarted : ∀ d ∈ s.disps, ∀ e ∈ d.events, d.start ≤ e.t
  nowLe : s.now ≤ s.lastTick + period cfg

theorem mid_tick (cfg : Cfg) (hp : 0 < period cfg) (sc : List Srv) (s : St) (h : Mid cfg s) :
    let t := s.lastTick + period cfg
    let s1 := tick cfg sc { s with now := t, lastTick := t }
    s1.lastTick = t ∧ s1.now = t ∧ s1.stopped = s.stopped ∧ Mid cfg s1 := by
  intro t s1
  refine ⟨rfl, rfl, rfl, ?_, ?_, ?_, ?_, ?_, ?_⟩
  · show ∀ kb ∈ clear (stale cfg t) s.batches, kb.2.events ≠ [] → t < kb.2.start + cfg.bt
    intro kb hkb hne
    obtain ⟨b, hm, hcase⟩ := mem_clear hkb
    rcases hcase with ⟨_, e2⟩ | ⟨e1, e2⟩
    · rw [e2] at hne; simp at hne
    · rw [e2] at hne ⊢
      have : ¬ (b.start + cfg.bt ≤ t) := by
        intro hle
        have : stale cfg t b = true := by
          simp only [stale, Bool.and_eq_true, Bool.not_eq_true', decide_eq_true_eq]
          exact ⟨by simpa using hne, hle⟩
        rw [this] at e1; exact absurd e1 (by simp)
      omega
  · show ∀ d ∈ s.disps ++ _, _
    intro d hdm
    rcases List.mem_append.mp hdm with hdm | hdm
    · exact h.dtime d hdm
    · obtain ⟨kb, hkb, rfl⟩ := List.mem_map.mp hdm
      obtain ⟨hkb1, hkb2⟩ := List.mem_filter.mp hkb
      have := h.fresh kb hkb1 (stale_ne cfg t kb.2 hkb2)
      show t < kb.2.start + cfg.bt + period cfg
      omega
  · show ∀ kb ∈ clear (stale cfg t) s.batches, kb.2.events ≠ [] → kb.2.start ≤ t
    intro kb hkb hne
    obtain ⟨b, hm, hcase⟩ := mem_clear hkb
    rcases hcase with ⟨_, e2⟩ | ⟨e1, e2⟩
    · rw [e2] at hne; simp at hne
    · rw [e2] at hne ⊢
      have h5 : b.start ≤ s.now := h.startLe (kb.1, b) hm hne
      have := h.nowLe
      show b.start ≤ s.lastTick + period cfg
      omega
  · show ∀ kb ∈ clear (stale cfg t) s.batches, ∀ e ∈ kb.2.events, kb.2.start ≤ e.t
    intro kb hkb x hx
    obtain ⟨b, hm, hcase⟩ := mem_clear hkb
    rcases hcase with ⟨_, e2⟩ | ⟨e1, e2⟩
    · rw [e2] at hx; simp at hx
    · rw [e2] at hx ⊢; exact h.started _ hm x hx
  · show ∀ d ∈ s.disps ++ _, _
    intro d hdm x hx
    rcases List.mem_append.mp hdm with hdm | hdm
    · exact h.dstarted d hdm x hx
    · obtain ⟨kb, hkb, rfl⟩ := List.mem_map.mp hdm
      exact h.started kb (List.mem_filter.mp hkb).1 x hx
  · show t ≤ t + period cfg
    omega

theorem mid_ticks (cfg : Cfg) (hp : 0 < period cfg) (sc : List Srv) : ∀ (k : Nat) (s : St), Mid cfg s →
    (ticks cfg sc k s).lastTick = s.lastTick + k * period cfg ∧ (ticks cfg sc k s).stopped = s.stopped ∧
    (ticks cfg sc k s).now ≤ max s.now (ticks cfg sc k s).lastTick ∧ Mid cfg (ticks cfg sc k s) := by
  intro k
  induction k with
  | zero => intro s h; exact ⟨by simp [ticks], rfl, by simp [ticks]; omega, h⟩
  | succ n ih =>
    intro s h
    obtain ⟨t1, t2, t3, t4⟩ := mid_tick cfg hp sc s h
    obtain ⟨i1, i2, i3, i4⟩ := ih _ t4
    simp only [ticks]
    refine ⟨?_, by rw [i2, t3], ?_, i4⟩
    · rw [i1, t1, Nat.succ_mul]; omega
    · rw [t2] at i3; rw [i1, t1] at i3 ⊢; omega

theorem invT_adv (cfg : Cfg) (hp : 0 < period cfg) (s : St) (d : Nat) (sc : List Srv) (h : InvT cfg s) :
    InvT cfg (adv cfg s d sc) := by
  unfold adv
  by_cases hs : s.stopped = true
  · rw [if_pos hs]
    refine ⟨fun hs' => absurd hs (by simp [hs'] at *; exact hs'), h.fresh, h.dtime, ?_, h.started, h.dstarted⟩
    intro kb hkb hne
    have := h.startLe kb hkb hne
    show kb.2.start ≤ s.now + d
    omega
  · rw [if_neg hs]
    have hs' : s.stopped = false := by simpa using hs
    obtain ⟨hc1, hc2⟩ := h.clock hs'
    obtain ⟨i1, i2, i3, i4⟩ := mid_ticks cfg hp sc ((s.now + d - s.lastTick) / period cfg) s
      ⟨h.fresh, h.dtime, h.startLe, h.started, h.dstarted, by omega⟩
    have e1 := Nat.div_add_mod (s.now + d - s.lastTick) (period cfg)
    have e2 := Nat.mod_lt (s.now + d - s.lastTick) hp
    rw [Nat.mul_comm] at e1
    refine ⟨?_, i4.fresh, i4.dtime, ?_, i4.started, i4.dstarted⟩
    · intro _
      show (ticks cfg sc _ s).lastTick ≤ s.now + d ∧ s.now + d < (ticks cfg sc _ s).lastTick + period cfg
      rw [i1]
      constructor <;> omega
    · intro kb hkb hne
      have := i4.startLe kb hkb hne
      rw [i1] at i3
      show kb.2.start ≤ s.now + d
      omega

theorem invT_stop (cfg : Cfg) (hp : 0 < period cfg) (s : St) (sc : List Srv) (h : InvT cfg s) :
    InvT cfg (stop cfg s sc) := by
  by_cases hs : s.stopped = true
  · unfold stop; rw [if_pos hs]; exact h
  · have hs : s.stopped = false := by simpa using hs
    rw [stop_eq cfg s sc hs]
    obtain ⟨hc1, hc2⟩ := h.clock hs
    refine ⟨by intro h'; simp [record] at h', by simp [record], ?_, by simp [record], by simp [record], ?_⟩
    · show ∀ d ∈ s.disps ++ _, _
      intro d hdm
      rcases List.mem_append.mp hdm with hdm | hdm
      · exact h.dtime d hdm
      · obtain ⟨kb, hkb, rfl⟩ := List.mem_map.mp hdm
        obtain ⟨hkb1, hkb2⟩ := List.mem_filter.mp hkb
        have := h.fresh kb hkb1 (by simpa using hkb2)
        show s.now < kb.2.start + cfg.bt + period cfg
        omega
    · show ∀ d ∈ s.disps ++ _, _
      intro d hdm x hx
      rcases List.mem_append.mp hdm with hdm | hdm
      · exact h.dstarted d hdm x hx
      · obtain ⟨kb, hkb, rfl⟩ := List.mem_map.mp hdm
        exact h.started kb (List.mem_filter.mp hkb).1 x hx

theorem invT_step (cfg : Cfg) (hp : 0 < period cfg) (s : St) (op : Op) (h : InvT cfg s) : InvT cfg (step cfg s op) := by
  cases op with
  | enq e sc => exact invT_enq1 cfg hp s _ sc rfl h
  | adv d sc => exact invT_adv cfg hp s d sc h
  | stop sc => exact invT_stop cfg hp s sc h

theorem invT_run (cfg : Cfg) (hp : 0 < period cfg) (ops : List Op) : InvT cfg (run cfg ops) :=
  run_induction cfg (InvT cfg) (invT_init cfg hp) (fun s op h => invT_step cfg hp s op h) ops

end Refinery.Model.Transmit
