/-
Association-list finite maps (core Lean only).  `NoDupKeys` is kept as a separate
predicate, not a subtype (DESIGN §3.1).
-/
set_option linter.unusedSimpArgs false
set_option linter.unusedSectionVars false

namespace Refinery

abbrev AList (κ : Type) (α : Type) := List (κ × α)

namespace AList
variable {κ α : Type} [DecidableEq κ]

def get : AList κ α → κ → Option α
  | [], _ => none
  | (k', v) :: t, k => if k' = k then some v else get t k

def del (l : AList κ α) (k : κ) : AList κ α := l.filter (fun p => p.1 ≠ k)

def put (l : AList κ α) (k : κ) (v : α) : AList κ α := (k, v) :: del l k

def keep (l : AList κ α) (p : κ → α → Bool) : AList κ α := l.filter (fun x => p x.1 x.2)

def keys (l : AList κ α) : List κ := l.map (·.1)

def NoDupKeys (l : AList κ α) : Prop := (keys l).Nodup

@[simp] theorem get_nil (k : κ) : get ([] : AList κ α) k = none := rfl

theorem get_cons (k' : κ) (v : α) (t : AList κ α) (k : κ) :
    get ((k', v) :: t) k = if k' = k then some v else get t k := rfl

theorem get_del (l : AList κ α) (k k' : κ) :
    get (del l k) k' = if k = k' then none else get l k' := by
  induction l with
  | nil => simp [del]
  | cons p t ih =>
    obtain ⟨a, b⟩ := p
    simp only [del, List.filter_cons] at ih ⊢
    by_cases h : a = k <;> by_cases h2 : k = k' <;> by_cases h3 : a = k' <;>
      simp_all [get_cons]

theorem get_put (l : AList κ α) (k k' : κ) (v : α) :
    get (put l k v) k' = if k = k' then some v else get l k' := by
  unfold put
  rw [get_cons, get_del]
  by_cases h : k = k' <;> simp [h]

theorem get_eq_none_iff (l : AList κ α) (k : κ) : get l k = none ↔ k ∉ keys l := by
  induction l with
  | nil => simp [keys]
  | cons p t ih =>
    obtain ⟨a, b⟩ := p
    simp only [get_cons, keys, List.map_cons, List.mem_cons, not_or] at ih ⊢
    by_cases h : a = k
    · simp [h]
    · simp [h, ih, Ne.symm h]

theorem mem_of_get {l : AList κ α} {k : κ} {v : α} (h : get l k = some v) : (k, v) ∈ l := by
  induction l with
  | nil => simp at h
  | cons p t ih =>
    obtain ⟨a, b⟩ := p
    rw [get_cons] at h
    by_cases h2 : a = k
    · simp [h2] at h; simp [h2, h]
    · simp [h2] at h; exact List.mem_cons_of_mem _ (ih h)

theorem get_of_mem {l : AList κ α} (hn : NoDupKeys l) {k : κ} {v : α} (h : (k, v) ∈ l) :
    get l k = some v := by
  induction l with
  | nil => simp at h
  | cons p t ih =>
    obtain ⟨a, b⟩ := p
    simp only [NoDupKeys, keys, List.map_cons, List.nodup_cons] at hn
    rw [get_cons]
    rcases List.mem_cons.mp h with h | h
    · cases h; simp
    · have : a ≠ k := by
        intro e; subst e
        exact hn.1 (List.mem_map.mpr ⟨(a, v), h, rfl⟩)
      simp [this]; exact ih hn.2 h

theorem get_keep (l : AList κ α) (hn : NoDupKeys l) (p : κ → α → Bool) (k : κ) :
    get (keep l p) k = (get l k).filter (p k) := by
  induction l with
  | nil => simp [keep]
  | cons q t ih =>
    obtain ⟨a, b⟩ := q
    simp only [NoDupKeys, keys, List.map_cons, List.nodup_cons] at hn
    have ih' := ih hn.2
    unfold keep at ih' ⊢
    simp only [List.filter_cons]
    by_cases h : a = k
    · subst h
      by_cases hp : p a b = true
      · simp [hp, get_cons, Option.filter]
      · have hnone : get t a = none := (get_eq_none_iff t a).mpr hn.1
        simp [hp, get_cons, Option.filter, ih', hnone]
    · by_cases hp : p a b = true
      · simp [hp, get_cons, h, ih']
      · simp [hp, get_cons, h, ih']

theorem keys_del_sub (l : AList κ α) (k : κ) : ∀ x, x ∈ keys (del l k) → x ∈ keys l := by
  intro x hx
  simp only [keys, del, List.mem_map, List.mem_filter] at hx ⊢
  obtain ⟨p, ⟨hp, _⟩, rfl⟩ := hx
  exact ⟨p, hp, rfl⟩

theorem nodup_filter (l : AList κ α) (hn : NoDupKeys l) (f : κ × α → Bool) :
    NoDupKeys (l.filter f) := by
  unfold NoDupKeys keys at *
  exact List.Nodup.sublist (List.Sublist.map _ List.filter_sublist) hn

theorem nodup_del (l : AList κ α) (hn : NoDupKeys l) (k : κ) : NoDupKeys (del l k) :=
  nodup_filter l hn _

theorem nodup_keep (l : AList κ α) (hn : NoDupKeys l) (p : κ → α → Bool) : NoDupKeys (keep l p) :=
  nodup_filter l hn _

theorem not_mem_keys_del (l : AList κ α) (k : κ) : k ∉ keys (del l k) := by
  simp [keys, del]

theorem nodup_put (l : AList κ α) (hn : NoDupKeys l) (k : κ) (v : α) : NoDupKeys (put l k v) := by
  unfold put NoDupKeys keys
  rw [List.map_cons, List.nodup_cons]
  exact ⟨not_mem_keys_del l k, nodup_del l hn k⟩

theorem nodup_nil : NoDupKeys ([] : AList κ α) := by simp [NoDupKeys, keys]

theorem mem_keys_iff (l : AList κ α) (k : κ) : k ∈ keys l ↔ (get l k).isSome := by
  have := get_eq_none_iff l k
  cases h : get l k with
  | none => simp [h] at this; simp [this]
  | some v => simp [h] at this; simp [this]

end AList
end Refinery
