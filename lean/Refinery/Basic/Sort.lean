/-
Structural insertion sort on `Nat` keys (kernel-reducible, unlike `List.mergeSort`, so
`decide` can evaluate concrete model runs).  Core Lean only.
-/
namespace Refinery

def insertSorted (x : Nat) : List Nat → List Nat
  | [] => [x]
  | y :: t => if x ≤ y then x :: y :: t else y :: insertSorted x t

def isort : List Nat → List Nat
  | [] => []
  | x :: t => insertSorted x (isort t)

theorem mem_insertSorted (x y : Nat) (l : List Nat) : y ∈ insertSorted x l ↔ y = x ∨ y ∈ l := by
  induction l with
  | nil => simp [insertSorted]
  | cons z t ih =>
    unfold insertSorted
    split
    · simp
    · simp [ih]; grind

@[simp] theorem mem_isort (y : Nat) (l : List Nat) : y ∈ isort l ↔ y ∈ l := by
  induction l with
  | nil => simp [isort]
  | cons x t ih => simp [isort, mem_insertSorted, ih]

theorem length_insertSorted (x : Nat) (l : List Nat) : (insertSorted x l).length = l.length + 1 := by
  induction l with
  | nil => simp [insertSorted]
  | cons z t ih => unfold insertSorted; split <;> simp [ih]

@[simp] theorem length_isort (l : List Nat) : (isort l).length = l.length := by
  induction l with
  | nil => simp [isort]
  | cons x t ih => simp [isort, length_insertSorted, ih]

theorem insertSorted_perm (x : Nat) (l : List Nat) : (insertSorted x l).Perm (x :: l) := by
  induction l with
  | nil => simp [insertSorted]
  | cons z t ih =>
    unfold insertSorted
    split
    · exact List.Perm.refl _
    · exact (List.Perm.cons z ih).trans (List.Perm.swap x z t)

theorem isort_perm (l : List Nat) : (isort l).Perm l := by
  induction l with
  | nil => simp [isort]
  | cons x t ih => exact (insertSorted_perm x (isort t)).trans (List.Perm.cons x ih)

theorem insertSorted_pairwise (x : Nat) (l : List Nat) (h : l.Pairwise (· ≤ ·)) :
    (insertSorted x l).Pairwise (· ≤ ·) := by
  induction l with
  | nil => simp [insertSorted]
  | cons z t ih =>
    unfold insertSorted
    rw [List.pairwise_cons] at h
    split
    · rename_i hxz
      rw [List.pairwise_cons]
      refine ⟨?_, List.pairwise_cons.mpr h⟩
      intro a ha
      rcases List.mem_cons.mp ha with rfl | ha
      · exact hxz
      · exact Nat.le_trans hxz (h.1 a ha)
    · rename_i hxz
      rw [List.pairwise_cons]
      refine ⟨?_, ih h.2⟩
      intro a ha
      rcases (mem_insertSorted x a t).mp ha with rfl | ha
      · omega
      · exact h.1 a ha

theorem isort_pairwise (l : List Nat) : (isort l).Pairwise (· ≤ ·) := by
  induction l with
  | nil => simp [isort]
  | cons x t ih => exact insertSorted_pairwise x _ ih

/-- two permutations of each other sort to the same list (canonical form) -/
theorem isort_eq_of_perm {l₁ l₂ : List Nat} (h : l₁.Perm l₂) : isort l₁ = isort l₂ := by
  apply List.Perm.eq_of_pairwise (le := (· ≤ ·))
  · intro a b _ _ hab hba; exact Nat.le_antisymm hab hba
  · exact isort_pairwise l₁
  · exact isort_pairwise l₂
  · exact (isort_perm l₁).trans (h.trans (isort_perm l₂).symm)

end Refinery

namespace Refinery
theorem filterMap_congr' {α β : Type} {f g : α → Option β} {l : List α}
    (h : ∀ a ∈ l, f a = g a) : l.filterMap f = l.filterMap g := by
  induction l with
  | nil => rfl
  | cons x t ih =>
    simp only [List.filterMap_cons, h x (List.mem_cons_self)]
    rw [ih (fun a ha => h a (List.mem_cons_of_mem _ ha))]
end Refinery
