import Refinery.Lemmas.Collector
/-!
# C02 — Kept spans are forwarded exactly once, dropped spans never

Statement (properties.jsonl): each span accepted by the collector is handed to upstream
transmission exactly once if its trace is kept (or dry run is on) and never if its trace is
dropped; no span is duplicated, invented, or forwarded for a trace that was never decided.  While
Refinery runs, every accepted span's trace is eventually decided, so no accepted span of a kept
trace is lost.

All theorems quantify over every operation history `ops : List Op` (span arrivals — on time, late,
with any answer of the dropped-trace filter —, decisions by tick or ejection, `sendTraces`
iterations, reloads that swap the sampler and toggle DryRun), every sampler `P.decide`, every
worker assignment `P.owner` (hence any worker count) and every kept-record capacity `P.cap`.
`s.out` is what reached `Transmission.EnqueueSpan`, `s.accepted` what `processSpan` accepted.
-/
namespace Refinery.Props.C02
open Refinery.Model.Collector Refinery.Lemmas.Collector

theorem id_lt {s : St} (h : Inv s) {sp : SpanRec} (hsp : sp ∈ s.accepted) : sp.id < s.nextId := by
  have : sp.id ∈ ids s.accepted := List.mem_map.mpr ⟨sp, hsp, rfl⟩
  rw [h.accIds] at this
  exact List.mem_range.mp this

theorem inj_of_nodup_map {α β : Type} (f : α → β) :
    ∀ {l : List α}, (l.map f).Nodup → ∀ {a b}, a ∈ l → b ∈ l → f a = f b → a = b
  | [], _, _, _, ha, _, _ => by simp at ha
  | x :: l, hn, a, b, ha, hb, hab => by
    rw [List.map_cons, List.nodup_cons] at hn
    rcases List.mem_cons.mp ha with ha | ha <;> rcases List.mem_cons.mp hb with hb | hb
    · rw [ha, hb]
    · have : f x ∈ l.map f := List.mem_map.mpr ⟨b, hb, by rw [← hab, ha]⟩
      exact absurd this hn.1
    · have : f x ∈ l.map f := List.mem_map.mpr ⟨a, ha, by rw [hab, hb]⟩
      exact absurd this hn.1
    · exact inj_of_nodup_map f hn.2 ha hb hab

/-- accepted spans have pairwise different ids -/
theorem uniq_id {s : St} (h : Inv s) {a b : SpanRec} (ha : a ∈ s.accepted) (hb : b ∈ s.accepted)
    (hab : a.id = b.id) : a = b := by
  have hn : (s.accepted.map (·.id)).Nodup := by
    have := h.accIds; unfold ids at this; rw [this]; exact List.nodup_range
  exact inj_of_nodup_map (·.id) hn ha hb hab

theorem filter_le_one {α : Type} (p : α → Bool) :
    ∀ {l : List α}, (l.filter p).length ≤ 1 → ∀ {a b}, a ∈ l → p a = true → b ∈ l → p b = true → a = b := by
  intro l hl a b ha hpa hb hpb
  have ha' : a ∈ l.filter p := List.mem_filter.mpr ⟨ha, hpa⟩
  have hb' : b ∈ l.filter p := List.mem_filter.mpr ⟨hb, hpb⟩
  match hf : l.filter p, hl, ha', hb' with
  | [], _, ha', _ => simp at ha'
  | [x], _, ha', hb' => simp at ha' hb'; rw [ha', hb']
  | _ :: _ :: _, hl, _, _ => simp at hl

/-- a remembered trace has one decision: any two decisions of it coincide -/
theorem decision_unique {s : St} (h : Inv s) {t : Nat} (hm : t ∉ s.missed) {d d' : DecRec}
    (hd : d ∈ s.decisions) (hdt : d.trace = t) (hd' : d' ∈ s.decisions) (hdt' : d'.trace = t) : d = d' :=
  filter_le_one (fun d => d.trace == t) (h.once t hm) hd (by simpa using hdt) hd' (by simpa using hdt')

theorem mem_ids {l : List SpanRec} {i : Nat} (h : i ∈ ids l) : ∃ sp ∈ l, sp.id = i := by
  simpa [ids] using h

theorem mem_sendIds {l : List Sendable} {i : Nat} (h : i ∈ sendIds l) : ∃ sd ∈ l, ∃ sp ∈ sd.spans, sp.id = i := by
  simp only [sendIds, List.mem_flatMap] at h
  obtain ⟨sd, hsd, hi⟩ := h
  obtain ⟨sp, hsp, rfl⟩ := mem_ids hi
  exact ⟨sd, hsd, sp, hsp, rfl⟩

/-! ## The property theorems -/

/-- **forwarded_nodup** — no span is handed to the transmission twice, in any history. -/
theorem forwarded_nodup (P : Params) (dry : Bool) (ops : List Op) :
    (outIds (run P dry ops)).Nodup := by
  rw [List.nodup_iff_count]
  intro i
  have := (inv_run P dry ops).cons i
  split at this <;> omega

/-- **forwarded_subset** — nothing is invented: every forwarded span is an accepted span, of the
same trace and with the client rate it arrived with. -/
theorem forwarded_subset (P : Params) (dry : Bool) (ops : List Op) :
    ∀ f ∈ (run P dry ops).out, ∃ sp ∈ (run P dry ops).accepted,
      sp.id = f.sid ∧ sp.trace = f.trace ∧ sp.client = f.client :=
  (inv_run P dry ops).outAcc

/-- **dropped_never** — a span forwarded while dry run is off belongs to a trace for which the
sampler said "keep", or which was decided while dry run was on (such a trace is queued whole and
`sendTraces` does not re-read the decision). -/
theorem dropped_never (P : Params) (dry : Bool) (ops : List Op) :
    ∀ f ∈ (run P dry ops).out, f.dry = false →
      ∃ d ∈ (run P dry ops).decisions, d.trace = f.trace ∧ (d.keep = true ∨ d.dry = true) :=
  fun f hf hd => ((inv_run P dry ops).outWet f hf hd).2

/-- **dropped_never**, in the property's words: a trace all of whose decisions were "drop", taken
with dry run off, has no span forwarded while dry run is off. -/
theorem dropped_never_trace (P : Params) (dry : Bool) (ops : List Op) (t : Nat)
    (hdrop : ∀ d ∈ (run P dry ops).decisions, d.trace = t → d.keep = false ∧ d.dry = false) :
    ∀ f ∈ (run P dry ops).out, f.trace = t → f.dry = true := by
  intro f hf ht
  cases hdry : f.dry with
  | true => rfl
  | false =>
    obtain ⟨d, hd, hdt, hor⟩ := dropped_never P dry ops f hf hdry
    have := hdrop d hd (hdt.trans ht)
    rcases hor with h1 | h1 <;> simp [this] at h1

/-- **dropped_never**, DryRun never enabled: no accepted span of a dropped trace ever reaches the
transmission. -/
theorem dropped_never_nodry (P : Params) (ops : List Op) (t : Nat)
    (hnodry : (run P false ops).everDry = false)
    (hdrop : ∀ d ∈ (run P false ops).decisions, d.trace = t → d.keep = false) :
    ∀ sp ∈ (run P false ops).accepted, sp.trace = t → timesForwarded (run P false ops) sp.id = 0 := by
  intro sp hsp ht
  have h := inv_run P false ops
  unfold timesForwarded
  rw [List.count_eq_zero]
  intro hmem
  obtain ⟨f, hf, hfs⟩ := List.mem_map.mp hmem
  obtain ⟨sp', hsp', hid, htr, _⟩ := h.outAcc f hf
  have hsame : sp' = sp := uniq_id h hsp' hsp (hid.trans hfs)
  have hfd := (h.noDry hnodry).2.2 f hf
  obtain ⟨d, hd, hdt, hor⟩ := (h.outWet f hf hfd).2
  have hdd := (h.noDry hnodry).2.1 d hd
  have hdk := hdrop d hd (by rw [hdt, ← htr, hsame, ht])
  rcases hor with h1 | h1
  · rw [hdk] at h1; cases h1
  · rw [hdd] at h1; cases h1

/-- **kept_all** — once `tracesToSend` holds nothing of trace `t`, every accepted span of a kept
trace whose decision is still remembered has been forwarded exactly once: none is lost, none is
duplicated.  (Late spans included; dry run may toggle arbitrarily.) -/
theorem kept_all (P : Params) (dry : Bool) (ops : List Op) (t : Nat)
    (hrem : Remembered (run P dry ops) t)
    (hkept : ∃ d ∈ (run P dry ops).decisions, d.trace = t ∧ d.keep = true)
    (hdrained : ∀ sd ∈ (run P dry ops).toSend, sd.trace ≠ t) :
    ∀ sp ∈ (run P dry ops).accepted, sp.trace = t → timesForwarded (run P dry ops) sp.id = 1 := by
  intro sp hsp ht
  have h := inv_run P dry ops
  obtain ⟨d, hd, hdt, hdk⟩ := hkept
  have hc := h.cons sp.id
  rw [if_pos (id_lt h hsp)] at hc
  have hbuf : (ids (run P dry ops).buf).count sp.id = 0 := by
    rw [List.count_eq_zero]
    intro hm
    obtain ⟨sp', hsp', hid⟩ := mem_ids hm
    have : sp' = sp := uniq_id h (h.bufAcc sp' hsp') hsp hid
    subst this
    exact hrem.1 (ht ▸ h.bufMissed sp' hsp' ⟨d, hd, hdt.trans ht.symm⟩)
  have hsend : (sendIds (run P dry ops).toSend).count sp.id = 0 := by
    rw [List.count_eq_zero]
    intro hm
    obtain ⟨sd, hsd, sp', hsp', hid⟩ := mem_sendIds hm
    obtain ⟨ha, htr⟩ := h.sendAcc sd hsd sp' hsp'
    have : sp' = sp := uniq_id h ha hsp hid
    subst this
    exact hdrained sd hsd (htr.symm.trans ht)
  have hdisc : (ids (run P dry ops).discarded).count sp.id = 0 := by
    rw [List.count_eq_zero]
    intro hm
    obtain ⟨sp', hsp', hid⟩ := mem_ids hm
    have : sp' = sp := uniq_id h (h.discAcc sp' hsp') hsp hid
    subst this
    rcases h.discDec sp' hsp' with ⟨d', hd', hdt', hdk'⟩ | hfp
    · have := decision_unique h hrem.1 hd hdt hd' (hdt'.trans ht)
      subst this
      rw [hdk] at hdk'; cases hdk'
    · exact hrem.2 (ht ▸ hfp)
  unfold timesForwarded
  omega

/-- **no_undecided_send** — a span is forwarded only for a trace that has been decided; the one
exception the code allows is a false positive of the dropped-trace filter under dry run (the span
is then forwarded as "would have been dropped" without any decision). -/
theorem no_undecided_send (P : Params) (dry : Bool) (ops : List Op) :
    ∀ f ∈ (run P dry ops).out,
      (∃ d ∈ (run P dry ops).decisions, d.trace = f.trace) ∨ f.trace ∈ (run P dry ops).falsePos := by
  intro f hf
  have h := inv_run P dry ops
  cases hdry : f.dry with
  | false =>
    obtain ⟨d, hd, hdt, _⟩ := (h.outWet f hf hdry).2
    exact Or.inl ⟨d, hd, hdt⟩
  | true =>
    obtain ⟨k, _, hor, _⟩ := h.outDry f hf hdry
    rcases hor with ⟨d, hd, hdt, _⟩ | ⟨_, hfp⟩
    · exact Or.inl ⟨d, hd, hdt⟩
    · exact Or.inr hfp

/-- a decision always goes through: after `decide t` the trace is out of the buffer (a decision
cannot be refused; `makeDecision` only errors for a trace already sent, which is never buffered) -/
theorem decide_clears (P : Params) (s : St) (t : Nat) : ∀ sp ∈ (decideT P s t).buf, sp.trace ≠ t := by
  intro sp hsp
  unfold decideT at hsp
  simp only at hsp
  split at hsp
  · next he =>
    intro ht
    have : sp ∈ s.buf.filter (fun sp => sp.trace == t) := List.mem_filter.mpr ⟨hsp, by simpa using ht⟩
    simp_all
  · have key : sp ∈ s.buf.filter (fun sp => sp.trace != t) := by
      split at hsp
      · exact hsp
      · split at hsp <;> exact hsp
    simpa using (List.mem_filter.mp key).2

/-- every accepted span is accounted for: buffered, queued for `sendTraces`, forwarded or dropped
— exactly one of them (conservation; nothing vanishes, in any history). -/
theorem conservation (P : Params) (dry : Bool) (ops : List Op) (sp : SpanRec)
    (hsp : sp ∈ (run P dry ops).accepted) :
    (ids (run P dry ops).buf).count sp.id + (sendIds (run P dry ops).toSend).count sp.id
      + timesForwarded (run P dry ops) sp.id + (ids (run P dry ops).discarded).count sp.id = 1 := by
  have h := inv_run P dry ops
  have := h.cons sp.id
  rw [if_pos (id_lt h hsp)] at this
  exact this

/-! ## Non-vacuity: concrete histories evaluated by the kernel -/

/-- even traces are kept at rate 3 under generation 0; generation 1 drops everything -/
def exP : Params :=
  { decide := fun g t => { keep := g == 0 && t % 2 == 0, rate := 3 }, owner := fun t => t % 2, cap := 1 }

/-- root + child of kept trace 0, decision, a late span racing `sendTraces`, the drain, another late span -/
def exOps : List Op :=
  [.span 0 false 2 false, .span 0 true 0 false, .decide 0, .span 0 false 1 false, .drain, .span 0 false 0 false,
   .span 1 true 1 false, .decide 1, .span 1 false 1 true]

example : outIds (run exP false exOps) = [2, 0, 1, 3] := by decide
example : (run exP false exOps).out.map (·.rate) = [3, 6, 3, 3] := by decide
example : Remembered (run exP false exOps) 0 ∧ Quiescent (run exP false exOps) 0 := by decide
example : (run exP false exOps).discarded.map (·.id) = [4, 5] := by decide
example : timesForwarded (run exP false exOps) 3 = 1 := by decide

end Refinery.Props.C02
