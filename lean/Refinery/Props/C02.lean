import Refinery.Lemmas.CollectorFacts
/-!
# C02 — Kept spans are forwarded exactly once, dropped spans never

Statement (properties.jsonl): each span accepted by the collector is handed to upstream
transmission exactly once if its trace is kept (or dry run is on) and never if its trace is
dropped; no span is duplicated, invented, or forwarded for a trace that was never decided.  While
Refinery runs, every accepted span's trace is eventually decided, so no accepted span of a kept
trace is lost.

All theorems quantify over every operation history `ops : List Op` (span arrivals — on time, late,
with any answer of the dropped-trace filter —, decisions by tick or ejection, `sendTraces`
iterations, reloads that swap the sampler and toggle DryRun), every sampler `P.decide`, every
worker assignment `P.owner` (hence any worker count) and every kept-record capacity `P.cap`.
`s.out` is what reached `Transmission.EnqueueSpan`, `s.accepted` what `processSpan` accepted.
-/
namespace Refinery.Props.C02
open Refinery.Model.Collector Refinery.Lemmas.Collector

/-! ## The property theorems -/

/-- **forwarded_nodup** — no span is handed to the transmission twice, in any history. -/
theorem forwarded_nodup (P : Params) (dry : Bool) (ops : List Op) :
    (outIds (run P dry ops)).Nodup := by
  rw [List.nodup_iff_count]
  intro i
  have := (inv_run P dry ops).cons i
  split at this <;> omega

/-- **forwarded_subset** — nothing is invented: every forwarded span is an accepted span, of the
same trace and with the client rate it arrived with. -/
theorem forwarded_subset (P : Params) (dry : Bool) (ops : List Op) :
    ∀ f ∈ (run P dry ops).out, ∃ sp ∈ (run P dry ops).accepted,
      sp.id = f.sid ∧ sp.trace = f.trace ∧ sp.client = f.client :=
  (inv_run P dry ops).outAcc

/-- **dropped_never** — a span forwarded while dry run is off belongs to a trace for which the
sampler said "keep", or which was decided while dry run was on (such a trace is queued whole and
`sendTraces` does not re-read the decision). -/
theorem dropped_never (P : Params) (dry : Bool) (ops : List Op) :
    ∀ f ∈ (run P dry ops).out, f.dry = false →
      ∃ d ∈ (run P dry ops).decisions, d.trace = f.trace ∧ (d.keep = true ∨ d.dry = true) :=
  fun f hf hd => ((inv_run P dry ops).outWet f hf hd).2

/-- **dropped_never**, in the property's words: a trace all of whose decisions were "drop", taken
with dry run off, has no span forwarded while dry run is off. -/
theorem dropped_never_trace (P : Params) (dry : Bool) (ops : List Op) (t : Nat)
    (hdrop : ∀ d ∈ (run P dry ops).decisions, d.trace = t → d.keep = false ∧ d.dry = false) :
    ∀ f ∈ (run P dry ops).out, f.trace = t → f.dry = true := by
  intro f hf ht
  cases hdry : f.dry with
  | true => rfl
  | false =>
    obtain ⟨d, hd, hdt, hor⟩ := dropped_never P dry ops f hf hdry
    have := hdrop d hd (hdt.trans ht)
    rcases hor with h1 | h1 <;> simp [this] at h1

/-- **dropped_never**, DryRun never enabled: no accepted span of a dropped trace ever reaches the
transmission. -/
theorem dropped_never_nodry (P : Params) (dry : Bool) (ops : List Op) (t : Nat)
    (hnodry : (run P dry ops).everDry = false)
    (hdrop : ∀ d ∈ (run P dry ops).decisions, d.trace = t → d.keep = false) :
    ∀ sp ∈ (run P dry ops).accepted, sp.trace = t → timesForwarded (run P dry ops) sp.id = 0 :=
  dropped_never_of_inv (inv_run P dry ops) t hnodry hdrop

/-- **kept_all** — once `tracesToSend` holds nothing of trace `t`, every accepted span of a kept
trace whose decision is still remembered has been forwarded exactly once: none is lost, none is
duplicated.  (Late spans and spans taken by the stress-relief path included; dry run may toggle and
the kept capacity may be resized arbitrarily; `StressConstant`: stress relief did not decide the
trace while spans of it were buffered.) -/
theorem kept_all (P : Params) (dry : Bool) (ops : List Op) (t : Nat)
    (hrem : Remembered (run P dry ops) t)
    (hsc : StressConstant (run P dry ops) t)
    (hkept : ∃ d ∈ (run P dry ops).decisions, d.trace = t ∧ d.keep = true)
    (hdrained : ∀ sd ∈ (run P dry ops).toSend, sd.trace ≠ t) :
    ∀ sp ∈ (run P dry ops).accepted, sp.trace = t → timesForwarded (run P dry ops) sp.id = 1 :=
  kept_all_of_inv (inv_run P dry ops) t hrem hsc hkept hdrained

/-- **no_undecided_send** — a span is forwarded only for a trace that has been decided; the one
exception the code allows is a false positive of the dropped-trace filter under dry run (the span
is then forwarded as "would have been dropped" without any decision). -/
theorem no_undecided_send (P : Params) (dry : Bool) (ops : List Op) :
    ∀ f ∈ (run P dry ops).out,
      (∃ d ∈ (run P dry ops).decisions, d.trace = f.trace) ∨ f.trace ∈ (run P dry ops).falsePos := by
  intro f hf
  have h := inv_run P dry ops
  cases hdry : f.dry with
  | false =>
    obtain ⟨d, hd, hdt, _⟩ := (h.outWet f hf hdry).2
    exact Or.inl ⟨d, hd, hdt⟩
  | true =>
    cases hst : f.stress with
    | true =>
      obtain ⟨_, d, hd, hdt, _⟩ := h.outStress f hf hst
      exact Or.inl ⟨d, hd, hdt⟩
    | false =>
      obtain ⟨k, _, hor⟩ := h.outDry f hf hdry hst
      rcases hor with ⟨d, hd, hdt, _⟩ | ⟨_, hfp⟩
      · exact Or.inl ⟨d, hd, hdt⟩
      · exact Or.inr hfp

/-- a decision always goes through: after `decide t` the trace is out of the buffer (a decision
cannot be refused; `makeDecision` only errors for a trace already sent, which is never buffered) -/
theorem decide_clears (P : Params) (s : St) (t : Nat) : ∀ sp ∈ (decideT P s t).buf, sp.trace ≠ t := by
  intro sp hsp
  unfold decideT at hsp
  simp only at hsp
  split at hsp
  · next he =>
    intro ht
    have : sp ∈ s.buf.filter (fun sp => sp.trace == t) := List.mem_filter.mpr ⟨hsp, by simpa using ht⟩
    simp_all
  · have key : sp ∈ s.buf.filter (fun sp => sp.trace != t) := by
      split at hsp
      · exact hsp
      · split at hsp <;> exact hsp
    simpa using (List.mem_filter.mp key).2

theorem decide_buf (P : Params) (s : St) (t : Nat) :
    (decideT P s t).buf = s.buf.filter (fun sp => sp.trace != t) := by
  unfold decideT
  simp only
  split
  · next he =>
    symm
    rw [List.filter_eq_self]
    intro sp hsp
    have : sp ∉ s.buf.filter (fun sp => sp.trace == t) := by
      rw [List.isEmpty_iff] at he; rw [he]; simp
    simp only [List.mem_filter, not_and] at this
    simpa using this hsp
  · split
    · rfl
    · split <;> rfl

theorem decide_toSend_len (P : Params) (s : St) (t : Nat) :
    (decideT P s t).toSend.length ≤ s.toSend.length + 1 := by
  unfold decideT
  simp only
  split
  · omega
  · split
    · simp
    · split <;> simp

def decideAll (P : Params) (s : St) (ts : List Nat) : St := (ts.map Op.decide).foldl (step P) s

theorem decideAll_buf (P : Params) (ts : List Nat) : ∀ s, (decideAll P s ts).buf = s.buf.filter (fun sp => !ts.contains sp.trace) := by
  induction ts with
  | nil => intro s; simp only [decideAll, List.map_nil, List.foldl_nil]; exact (List.filter_eq_self.mpr (by simp)).symm
  | cons t ts ih =>
    intro s
    have : decideAll P s (t :: ts) = decideAll P (decideT P s t) ts := by simp [decideAll, step]
    rw [this, ih, decide_buf, List.filter_filter]
    congr 1
    funext sp
    by_cases h : sp.trace = t <;> simp [h, Bool.and_comm]

theorem decideAll_toSend_len (P : Params) (ts : List Nat) : ∀ s, (decideAll P s ts).toSend.length ≤ s.toSend.length + ts.length := by
  induction ts with
  | nil => intro s; simp [decideAll]
  | cons t ts ih =>
    intro s
    have : decideAll P s (t :: ts) = decideAll P (decideT P s t) ts := by simp [decideAll, step]
    rw [this]
    have := ih (decideT P s t)
    have := decide_toSend_len P s t
    simp only [List.length_cons]
    omega

theorem drains (P : Params) (n : Nat) : ∀ s, s.toSend.length ≤ n →
    ((List.replicate n Op.drain).foldl (step P) s).toSend = [] ∧
    ((List.replicate n Op.drain).foldl (step P) s).buf = s.buf := by
  induction n with
  | zero => intro s h; simp at h; simp [h]
  | succ n ih =>
    intro s h
    rw [List.replicate_succ, List.foldl_cons]
    have hb : (step P s .drain).buf = s.buf := by
      simp only [step, drainOne]; split <;> rfl
    have hl : (step P s .drain).toSend.length ≤ n := by
      simp only [step, drainOne]
      split
      · next he => simp [he]
      · next sd rest he => rw [he] at h; simp at h ⊢; omega
    have := ih _ hl
    exact ⟨this.1, this.2.trans hb⟩

/-- ops that run the collector to quiescence from state `s`: decide every buffered trace, then let
`sendTraces` consume the queue -/
def quiesceOps (s : St) : List Op :=
  (s.buf.map (·.trace)).map Op.decide ++ List.replicate (s.toSend.length + s.buf.length) Op.drain

/-- **eventually_decided** (liveness, bounded form) — from *any* state, deciding each buffered trace
once (what ticks do once deadlines pass: C03 `edf_no_starvation`) and `|tracesToSend| + |buffer|`
iterations of `sendTraces` empty both the buffer and `tracesToSend`: no decision can be refused,
no trace stays queued.  Together with `conservation` every accepted span has then been forwarded or
dropped, and by `kept_all` those of kept traces forwarded. -/
theorem eventually_decided (P : Params) (s : St) :
    ((quiesceOps s).foldl (step P) s).buf = [] ∧ ((quiesceOps s).foldl (step P) s).toSend = [] := by
  unfold quiesceOps
  rw [List.foldl_append]
  have hb := decideAll_buf P (s.buf.map (·.trace)) s
  have hl := decideAll_toSend_len P (s.buf.map (·.trace)) s
  unfold decideAll at hb hl
  have hempty : (List.foldl (step P) s ((s.buf.map (·.trace)).map Op.decide)).buf = [] := by
    rw [hb, List.filter_eq_nil_iff]
    intro sp hsp
    simp only [Bool.not_eq_true', Bool.not_eq_false, List.contains_eq_mem, List.mem_map, decide_eq_true_eq]
    exact ⟨sp, hsp, rfl⟩
  have := drains P (s.toSend.length + s.buf.length) _ (by rw [List.length_map] at hl; exact hl)
  exact ⟨by rw [this.2]; exact hempty, this.1⟩


/-- every accepted span is accounted for: buffered, queued for `sendTraces`, forwarded, dropped by a
decision or dropped by stress relief — exactly one of them (conservation; nothing vanishes, in any history). -/
theorem conservation (P : Params) (dry : Bool) (ops : List Op) (sp : SpanRec)
    (hsp : sp ∈ (run P dry ops).accepted) :
    (ids (run P dry ops).buf).count sp.id + (sendIds (run P dry ops).toSend).count sp.id
      + timesForwarded (run P dry ops) sp.id + (ids (run P dry ops).discarded).count sp.id
      + (ids (run P dry ops).stressDropped).count sp.id = 1 := by
  have h := inv_run P dry ops
  have := h.cons sp.id
  rw [if_pos (id_lt h hsp)] at this
  exact this

/-! ## Non-vacuity: concrete histories evaluated by the kernel -/

/-- even traces are kept at rate 3 under generation 0; generation 1 drops everything -/
def exP : Params :=
  { decide := fun g t => { keep := g == 0 && t % 2 == 0, rate := 3 }, owner := fun t => t % 2, cap := 1 }

/-- root + child of kept trace 0, decision, a late span racing `sendTraces`, the drain, another late span -/
def exOps : List Op :=
  [.span 0 false 2 false, .span 0 true 0 false, .decide 0, .span 0 false 1 false, .drain, .span 0 false 0 false,
   .span 1 true 1 false, .decide 1, .span 1 false 1 true]

example : outIds (run exP false exOps) = [2, 0, 1, 3] := by decide
example : (run exP false exOps).out.map (·.rate) = [3, 6, 3, 3] := by decide
example : Remembered (run exP false exOps) 0 ∧ Quiescent (run exP false exOps) 0 := by decide
example : (run exP false exOps).discarded.map (·.id) = [4, 5] := by decide
example : timesForwarded (run exP false exOps) 3 = 1 := by decide

end Refinery.Props.C02
