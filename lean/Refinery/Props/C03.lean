import Refinery.Model.Deadline
import Refinery.Lemmas.Deadline
/-!
# C03 — trace decisions happen at the documented time

Statement (properties.jsonl): a trace is never decided before its deadline (SendDelay after its
root span arrived, TraceTimeout after its first span arrived, or as soon as it holds more spans
than SpanLimit) unless memory-pressure ejection applies.  After its deadline it is decided at the
next send tick, at most MaxExpiredTraces per tick and earliest deadline first, and its reported
send reason is 'got root' if a root span is present, else 'span limit' if it exceeds SpanLimit,
else 'expired'.

All theorems quantify over every configuration `c : Cfg` (including the zero values that trigger
the fall-backs) and over every operation history `ops : List Op` of one worker — arrivals of roots
and children, clock advances of any size (so arrivals and ticks exactly at, before and after every
deadline), ticks with any admissible tie-break, ejections — or over every state `s` with distinct
buffer keys (which all reachable states have: `run_wf`).
-/
namespace Refinery.Props.C03
open Refinery Refinery.Model.Deadline Refinery.Lemmas.Deadline

/-! ## constants taken from the code -/

/-- The fall-backs `processSpan` applies to a zero `TraceTimeout` / `SendDelay` (measured by running
the real function under an all-zero configuration) are the documented defaults of
`config.TracesConfig` (struct tags), and they are positive. -/
theorem fallbacks_are_documented_defaults :
    Gen.Deadline.fallbackTraceTimeout = Gen.Deadline.cfgDefaultTraceTimeout ∧
    Gen.Deadline.fallbackSendDelay = Gen.Deadline.cfgDefaultSendDelay ∧
    0 < Gen.Deadline.fallbackTraceTimeout ∧ 0 < Gen.Deadline.fallbackSendDelay := by decide

/-- every reachable state has distinct buffer keys -/
theorem run_wf (c : Cfg) (ops : List Op) : AList.NoDupKeys (run c ops).buf := run_nodup c ops

/-! ## deadline_formula -/

/-- **deadline_formula** — after any history, the stored `SendBy` of every buffered trace equals the
documented deadline computed from the arrival history alone:
`min(first + TraceTimeout, firstRoot + SendDelay (if a root has arrived), the instant the span
count first exceeded SpanLimit)`, with the zero-value fall-backs; and the trace's span count and
root flag are those of the history. -/
theorem deadline_formula (c : Cfg) (ops : List Op) (id : Nat) (tr : Tr)
    (h : AList.get (run c ops).buf id = some tr) :
    ∃ a, (Spec.run c ops).arr id = some a ∧ tr.sendBy = documented c a ∧
      tr.first = a.first ∧ tr.count = a.count ∧ tr.hasRoot = a.rootAt.isSome := by
  obtain ⟨_, _, _, h4, _, _⟩ := inv_run c ops
  obtain ⟨_, a, ha, hrel⟩ := h4 id tr h
  exact ⟨a, ha, by rw [documented_eq]; exact hrel.sendBy, hrel.first, hrel.count, hrel.root⟩

/-- `SendBy` is only ever lowered: whatever the operation, a trace that stays buffered has a
`SendBy` not later than before. -/
theorem sendBy_only_lowered (s : St) (o : Op) (id : Nat) (tr tr' : Tr)
    (h : AList.get s.buf id = some tr) (h' : AList.get (step s o).1.buf id = some tr') :
    tr'.sendBy ≤ tr.sendBy := by
  have hrem : ∀ ids : List Nat, AList.get (removeIds s ids).buf id = some tr' → tr' = tr := by
    intro ids hg
    simp only [removeIds] at hg
    rw [get_filter_key s.buf (fun k => decide (k ∉ ids)) id] at hg
    split at hg
    · rw [h] at hg; cases hg; rfl
    · cases hg
  cases o with
  | adv d => simp only [step] at h'; rw [h] at h'; cases h'; exact Int.le_refl _
  | span k root size kind =>
    simp only [step, processSpan] at h'
    by_cases hk : k = id
    · subst hk
      rw [h] at h'
      simp only [addSpan, AList.get_put, if_true, Option.some.injEq] at h'
      rw [← h']
      exact lower_le _ _ { tr with count := tr.count + 1, size := tr.size + size, hasRoot := tr.hasRoot || root }
    · have : AList.get (processSpan s k root size).1.buf id = some tr := by
        simp only [processSpan]
        split
        · simp [addSpan, AList.get_put, hk, h]
        · split
          · exact h
          · simp [addSpan, AList.get_put, hk, h]
      simp only [processSpan] at this
      rw [this] at h'; cases h'; exact Int.le_refl _
  | tick taken =>
    simp only [step, tick] at h'
    split at h'
    · rw [hrem taken h']; exact Int.le_refl _
    · rw [h] at h'; cases h'; exact Int.le_refl _
  | eject bytes imp order ages =>
    simp only [step, eject] at h'
    split at h'
    · rw [hrem order h']; exact Int.le_refl _
    · rw [h] at h'; cases h'; exact Int.le_refl _

/-! ## not_before_deadline -/

/-- **not_before_deadline** (step form) — a tick at `now` decides only buffered traces whose
`SendBy ≤ now`. -/
theorem not_before_deadline_step (s : St) (hwf : AList.NoDupKeys s.buf) (taken : List Nat)
    (l : List Sent) (left : List Nat) (h : (step s (.tick taken)).2 = .sent l left) :
    ∀ x ∈ l, ∃ tr, AList.get s.buf x.1 = some tr ∧ tr.sendBy ≤ s.now := by
  obtain ⟨hv, hl, _, _⟩ := tick_accepted h
  intro x hx
  rw [hl] at hx
  obtain ⟨hin, tr, hg, _⟩ := mem_sentOf hx
  obtain ⟨tr', hg', hle⟩ := (mem_expiredIds hwf).mp (hv.2.1 x.1 hin)
  rw [hg] at hg'; cases hg'
  exact ⟨tr, hg, hle⟩

/-- **not_before_deadline** — after any history, a tick decides only traces whose documented
deadline (computed from the arrival history) is not after the tick instant. -/
theorem not_before_deadline (c : Cfg) (ops : List Op) (taken : List Nat) (l : List Sent)
    (left : List Nat) (h : (step (run c ops) (.tick taken)).2 = .sent l left) :
    ∀ x ∈ l, ∃ a, (Spec.run c ops).arr x.1 = some a ∧ documented c a ≤ (run c ops).now := by
  intro x hx
  obtain ⟨tr, hg, hle⟩ := not_before_deadline_step _ (run_wf c ops) taken l left h x hx
  obtain ⟨a, ha, hsb, _⟩ := deadline_formula c ops x.1 tr hg
  exact ⟨a, ha, by omega⟩

/-- Ticks and ejections are the only deciding operations: an arrival or a clock advance never
removes a trace from the buffer and never records a decision. -/
theorem only_tick_or_eject_decide (s : St) (o : Op)
    (ho : (∃ d, o = .adv d) ∨ (∃ id root size kind, o = .span id root size kind)) :
    (step s o).1.decided = s.decided ∧
    ∀ id, id ∈ AList.keys s.buf → id ∈ AList.keys (step s o).1.buf := by
  rcases ho with ⟨d, rfl⟩ | ⟨id, root, size, kind, rfl⟩
  · exact ⟨rfl, fun _ h => h⟩
  · simp only [step, processSpan]
    have hput : ∀ (tr2 : Tr) (k : Nat), k ∈ AList.keys s.buf → k ∈ AList.keys (AList.put s.buf id tr2) := by
      intro tr2 k hk
      rw [AList.mem_keys_iff] at hk ⊢
      rw [AList.get_put]
      by_cases e : id = k <;> simp [e, hk]
    split
    · exact ⟨rfl, fun k hk => hput _ k hk⟩
    · split
      · exact ⟨rfl, fun _ h => h⟩
      · exact ⟨rfl, fun k hk => hput _ k hk⟩

/-! ## edf_prefix -/

/-- **edf_prefix** — the traces a tick decides, in the order they are decided, are a prefix of a
deadline-sorted order of the expired traces, of length `min(MaxExpiredTraces, #expired)`
(`MaxExpiredTraces = 0`: all of them).  Tie order among equal deadlines is left open. -/
theorem edf_prefix (s : St) (hwf : AList.NoDupKeys s.buf) (taken : List Nat) (l : List Sent)
    (left : List Nat) (h : (step s (.tick taken)).2 = .sent l left) :
    l.map (·.1) = taken ∧
    ∃ order : List Nat, order.Perm (expiredIds s) ∧
      order.Pairwise (fun a b => sb s a ≤ sb s b) ∧
      taken = order.take (takeLen s.cfg (expiredIds s).length) := by
  obtain ⟨⟨hnd, hsub, hpw, hrest, hlen⟩, hl, _, _⟩ := tick_accepted h
  constructor
  · -- every taken id is buffered, so the decided list has exactly these ids in this order
    rw [hl]
    exact sentOf_ids _ taken (fun id hid => expiredIds_sub_keys s id (hsub id hid))
  · let rest := (expiredIds s).filter (fun x => decide (x ∉ taken))
    refine ⟨taken ++ sortBy (sb s) rest, ?_, ?_, ?_⟩
    · have hp : (taken ++ sortBy (sb s) rest).Perm (taken ++ rest) :=
        List.Perm.append_left taken (sortBy_perm _ _)
      refine hp.trans ?_
      have hnd2 : (taken ++ rest).Nodup := by
        rw [List.nodup_append]
        refine ⟨hnd, (expiredIds_nodup hwf).sublist List.filter_sublist, ?_⟩
        intro a ha b hb hab
        subst hab
        simp only [rest, List.mem_filter, decide_eq_true_eq] at hb
        exact hb.2 ha
      rw [List.perm_ext_iff_of_nodup hnd2 (expiredIds_nodup hwf)]
      intro a
      simp only [List.mem_append, rest, List.mem_filter, decide_eq_true_eq]
      constructor
      · rintro (ha | ha)
        · exact hsub a ha
        · exact ha.1
      · intro ha
        by_cases hin : a ∈ taken
        · exact Or.inl hin
        · exact Or.inr ⟨ha, hin⟩
    · rw [List.pairwise_append]
      refine ⟨hpw, sortBy_pairwise _ _, ?_⟩
      intro a ha b hb
      have hb' := (sortBy_perm (sb s) rest).subset hb
      simp only [rest, List.mem_filter, decide_eq_true_eq] at hb'
      exact hrest b hb'.1 hb'.2 a ha
    · rw [← hlen, List.take_left']
      rfl

/-! ## after the deadline: decided at the next ticks, MaxExpiredTraces per tick, no starvation -/

/-- **tick_progress** — one tick at `now ≥ D` with `MaxExpiredTraces = m` decides `m` of the traces
whose deadline is `≤ D`, or all of them if there are fewer (with no limit: all of them). -/
theorem tick_progress (s : St) (hwf : AList.NoDupKeys s.buf) (D : Int) (hD : D ≤ s.now)
    (taken : List Nat) (l : List Sent) (left : List Nat)
    (h : (step s (.tick taken)).2 = .sent l left) :
    let s' := (step s (.tick taken)).1
    match s.cfg.effMax with
    | none => backlog s' D = 0
    | some m => backlog s' D = 0 ∨ backlog s' D + m ≤ backlog s D := by
  obtain ⟨⟨hnd, hsub, _, hrest, hlen⟩, _, hs', _⟩ := tick_accepted h
  intro s'
  have hb' : backlog s' D =
      s.buf.countP (fun p => decide (p.2.sendBy ≤ D) && decide (p.1 ∉ taken)) := by
    simp only [backlog, s', hs', removeIds, List.countP_filter]
  -- an entry counted in the new backlog is an expired trace that was not taken
  have hexp : ∀ p ∈ s.buf, p.2.sendBy ≤ D → p.1 ∈ expiredIds s := by
    intro p hp hle
    exact (mem_expiredIds hwf).mpr ⟨p.2, AList.get_of_mem hwf hp, by omega⟩
  have hzero_of_all : (∀ x ∈ expiredIds s, x ∈ taken) → backlog s' D = 0 := by
    intro hall
    rw [hb', List.countP_eq_zero]
    intro p hp
    simp only [Bool.and_eq_true, decide_eq_true_eq, not_and, Decidable.not_not]
    intro hle
    exact hall p.1 (hexp p hp hle)
  have hall_of_len : taken.length = (expiredIds s).length → ∀ x ∈ expiredIds s, x ∈ taken :=
    fun hl => subset_of_nodup_length (expiredIds_nodup hwf) hnd hsub hl
  by_cases hcase : ∀ y ∈ taken, sb s y ≤ D
  · -- every taken trace counted in the old backlog
    have hsplit := countP_split (fun p : Nat × Tr => decide (p.2.sendBy ≤ D))
      (fun p => decide (p.1 ∉ taken)) s.buf
    have htaken : s.buf.countP (fun p => decide (p.2.sendBy ≤ D) && !decide (p.1 ∉ taken)) = taken.length := by
      rw [← countP_keys_mem s.buf hwf taken hnd (fun id hid => expiredIds_sub_keys s id (hsub id hid))]
      apply List.countP_congr
      intro p hp
      simp only [Bool.and_eq_true, decide_eq_true_eq, Bool.not_eq_true', decide_eq_false_iff_not,
        Decidable.not_not]
      constructor
      · exact fun h => h.2
      · intro hin
        exact ⟨by rw [← sb_of_mem hwf hp]; exact hcase p.1 hin, hin⟩
    have hsum : backlog s D = backlog s' D + taken.length := by
      rw [hb', ← htaken]; exact hsplit
    cases hm : s.cfg.effMax with
    | none =>
      simp only
      apply hzero_of_all
      apply hall_of_len
      simp only [takeLen, hm] at hlen; exact hlen
    | some m =>
      simp only
      simp only [takeLen, hm] at hlen
      by_cases hmin : m ≤ (expiredIds s).length
      · right; rw [hsum, hlen, Nat.min_eq_left hmin]; omega
      · left
        apply hzero_of_all
        apply hall_of_len
        rw [hlen, Nat.min_eq_right (by omega)]
  · -- some taken trace is later than D: nothing with SendBy ≤ D can have been left behind
    have hz : backlog s' D = 0 := by
      rw [hb', List.countP_eq_zero]
      intro p hp
      simp only [Bool.and_eq_true, decide_eq_true_eq, not_and, Decidable.not_not]
      intro hle
      apply Classical.byContradiction
      intro hnin
      apply hcase
      intro y hy
      have := hrest p.1 (hexp p hp hle) hnin y hy
      rw [sb_of_mem hwf hp] at this
      omega
    cases hm : s.cfg.effMax with
    | none => exact hz
    | some m => exact Or.inl hz

/-- Once the clock has passed `D`, no operation adds to the backlog of deadlines `≤ D`: a new trace
or a lowered `SendBy` is never earlier than the current instant. -/
theorem backlog_never_grows (s : St) (hwf : AList.NoDupKeys s.buf) (D : Int) (hD : D < s.now) (o : Op) :
    backlog (step s o).1 D ≤ backlog s D := by
  cases o with
  | adv d => exact Nat.le_refl _
  | span id root size kind =>
    simp only [step, processSpan]
    cases hg : AList.get s.buf id with
    | some tr => exact backlog_addSpan_le s hwf D hD id tr root size (by simp [hg])
    | none =>
      simp only
      split
      · exact Nat.le_refl _
      · have := effTimeout_pos s.cfg
        exact backlog_addSpan_le s hwf D hD id _ root size (by simp [hg]; omega)
  | tick taken =>
    simp only [step, tick]
    split
    · exact backlog_removeIds_le s taken D
    · exact Nat.le_refl _
  | eject b i o a =>
    simp only [step, eject]
    split
    · exact backlog_removeIds_le s o D
    · exact Nat.le_refl _

/-- 1 if the operation is a tick that the acceptor admits (i.e. a tick as the implementation can
perform it), else 0 -/
def isAcceptedTick (s : St) : Op → Nat
  | .tick taken => if ValidTake s taken then 1 else 0
  | _ => 0

/-- number of (admissible) ticks in a run from `s` -/
def ticksIn : St → List Op → Nat
  | _, [] => 0
  | s, o :: os => isAcceptedTick s o + ticksIn (step s o).1 os

theorem backlog_tick_step (s : St) (hwf : AList.NoDupKeys s.buf) (D : Int) (hD : D < s.now)
    (m : Nat) (hm : s.cfg.effMax = some m) (o : Op) :
    backlog (step s o).1 D ≤ backlog s D - m * isAcceptedTick s o := by
  cases o with
  | tick taken =>
    simp only [isAcceptedTick]
    by_cases hv : ValidTake s taken
    · simp only [hv, if_true, Nat.mul_one]
      have hout : (step s (.tick taken)).2 = .sent (sentOf s (reasonOf s.cfg) taken) (leftIds (removeIds s taken)) := by
        simp [step, tick, hv]
      have := tick_progress s hwf D (by omega) taken _ _ hout
      simp only [hm] at this
      omega
    · simp only [hv, if_false, Nat.mul_zero, Nat.sub_zero]
      exact backlog_never_grows s hwf D hD _
  | adv d => simpa [isAcceptedTick] using backlog_never_grows s hwf D hD (.adv d)
  | span id root size kind => simpa [isAcceptedTick] using backlog_never_grows s hwf D hD (.span id root size kind)
  | eject b i o a => simpa [isAcceptedTick] using backlog_never_grows s hwf D hD (.eject b i o a)

/-- **no_starvation (bound)** — once the clock has passed `D`, along ANY continuation (arrivals,
clock advances, ejections, ticks with any admissible tie-break) the number of still-buffered traces
with deadline `≤ D` is at most the initial number minus `MaxExpiredTraces` per tick performed. -/
theorem no_starvation_bound (s : St) (hwf : AList.NoDupKeys s.buf) (D : Int) (hD : D < s.now)
    (m : Nat) (hm : s.cfg.effMax = some m) (ops : List Op) :
    backlog (runFrom s ops) D ≤ backlog s D - m * ticksIn s ops := by
  induction ops generalizing s with
  | nil => simp [runFrom, ticksIn]
  | cons o os ih =>
    have h1 := backlog_tick_step s hwf D hD m hm o
    have hwf' := step_nodup s o hwf
    have hD' : D < (step s o).1.now := by have := step_now_le s o; omega
    have hm' : (step s o).1.cfg.effMax = some m := by rw [step_cfg]; exact hm
    have h2 := ih (step s o).1 hwf' hD' hm'
    simp only [runFrom, List.foldl_cons, ticksIn] at h2 ⊢
    rw [Nat.mul_add]
    omega

/-- **no_starvation** — the `N` traces whose deadline is `≤ D` are all decided within `⌈N / max⌉`
ticks after `D`, whatever else arrives in between: if `N ≤ max · (number of ticks)` none is left. -/
theorem no_starvation (s : St) (hwf : AList.NoDupKeys s.buf) (D : Int) (hD : D < s.now)
    (m : Nat) (hm : s.cfg.effMax = some m) (ops : List Op)
    (hk : backlog s D ≤ m * ticksIn s ops) :
    backlog (runFrom s ops) D = 0 := by
  have := no_starvation_bound s hwf D hD m hm ops
  omega

/-! ## the priority queue: earliest deadline first does not rest on the library -/

/-- **heap_is_min_queue (sorted-list form)** — the sorted-list model of the keyed priority queue pops a
minimum: the head of the queue built from the buffer is a buffered trace and no buffered trace has an
earlier `SendBy`. -/
theorem heap_is_min_queue (buf : AList Nat Tr) (k : Nat) (p : Int) (q : PQ)
    (h : pqOfBuf buf = (k, p) :: q) :
    (∃ tr, (k, tr) ∈ buf ∧ tr.sendBy = p) ∧ ∀ e ∈ buf, p ≤ e.2.sendBy := by
  have hperm := pqOfBuf_perm buf
  have hs := pqOfBuf_sorted buf
  rw [h] at hperm hs
  constructor
  · have : (k, p) ∈ buf.map (fun x => (x.1, x.2.sendBy)) := hperm.subset List.mem_cons_self
    simp only [List.mem_map, Prod.mk.injEq] at this
    obtain ⟨⟨id, tr⟩, hm, h1, h2⟩ := this
    simp only at h1 h2
    subst h1
    exact ⟨tr, hm, h2⟩
  · intro e he
    have : (e.1, e.2.sendBy) ∈ (k, p) :: q :=
      hperm.symm.subset (List.mem_map.mpr ⟨e, he, rfl⟩)
    unfold PQ.Sorted at hs
    rw [List.pairwise_cons] at hs
    rcases List.mem_cons.mp this with heq | hq
    · simp only [Prod.mk.injEq] at heq; omega
    · exact hs.1 _ hq

/-- **Refinement**: running the loop of `TakeExpiredTraces` over a sorted-list priority queue built
from the buffer produces a take that the acceptor `ValidTake` admits. -/
theorem take_loop_refines_acceptor (s : St) (hwf : AList.NoDupKeys s.buf) : ValidTake s (takeExpiredRef s) := by
  have hsorted := pqOfBuf_sorted s.buf
  have hq := takeLoop_eq s.now s.cfg.effMax (pqOfBuf s.buf) 0
  unfold takeExpiredRef
  rw [hq]
  generalize hE : (pqOfBuf s.buf).takeWhile (fun e => decide (e.2 ≤ s.now)) = E
  generalize hc : cap s.cfg.effMax 0 (pqOfBuf s.buf).length = c
  have hEsub : E.Sublist (pqOfBuf s.buf) := by rw [← hE]; exact List.takeWhile_sublist _
  have hTsub : (E.take c).Sublist (pqOfBuf s.buf) := (List.take_sublist c E).trans hEsub
  have hEle : ∀ e ∈ E, e.2 ≤ s.now := by
    intro e he
    rw [← hE] at he
    have hall := @List.all_takeWhile _ (fun e : Nat × Int => decide (e.2 ≤ s.now)) (pqOfBuf s.buf)
    rw [List.all_eq_true] at hall
    simpa using hall e he
  have hsb : ∀ e ∈ pqOfBuf s.buf, sb s e.1 = e.2 := by
    intro e he
    obtain ⟨tr, hg, hp⟩ := (mem_pq_iff hwf e.1 e.2).mp he
    simp [sb, hg, hp]
  have hEsorted : E.Pairwise (fun a b => a.2 ≤ b.2) := hsorted.sublist hEsub
  have hElen : E.length = (expiredIds s).length := by
    rw [← hE, length_takeWhile_of_sorted s.now _ hsorted,
      (pqOfBuf_perm s.buf).countP_eq, List.countP_map]
    simp only [expiredIds, List.length_map, List.countP_eq_length_filter]
    rfl
  refine ⟨?_, ?_, ?_, ?_, ?_⟩
  · exact (pq_keys_nodup hwf).sublist (hTsub.map _)
  · intro id hid
    obtain ⟨e, he, rfl⟩ := List.mem_map.mp hid
    have heE : e ∈ E := List.mem_of_mem_take he
    have heq : e ∈ pqOfBuf s.buf := hEsub.subset heE
    obtain ⟨tr, hg, hp⟩ := (mem_pq_iff hwf e.1 e.2).mp heq
    exact (mem_expiredIds hwf).mpr ⟨tr, hg, by rw [hp]; exact hEle e heE⟩
  · rw [List.pairwise_map]
    have : (E.take c).Pairwise (fun a b => a.2 ≤ b.2) := hEsorted.sublist (List.take_sublist c E)
    refine this.imp_of_mem ?_
    intro a b ha hb hab
    rw [hsb a (hTsub.subset ha), hsb b (hTsub.subset hb)]
    exact hab
  · intro x hx hxn y hy
    obtain ⟨trx, hgx, hlex⟩ := (mem_expiredIds hwf).mp hx
    have hxq : (x, trx.sendBy) ∈ pqOfBuf s.buf := (mem_pq_iff hwf x trx.sendBy).mpr ⟨trx, hgx, rfl⟩
    have hxE : (x, trx.sendBy) ∈ E := by
      rw [← hE]; exact mem_takeWhile_of_sorted s.now _ hsorted _ hxq hlex
    obtain ⟨ey, hey, rfl⟩ := List.mem_map.mp hy
    have hsplit : E = E.take c ++ E.drop c := (List.take_append_drop c E).symm
    have hxdrop : (x, trx.sendBy) ∈ E.drop c := by
      rw [hsplit] at hxE
      rcases List.mem_append.mp hxE with h | h
      · exact absurd (List.mem_map.mpr ⟨_, h, rfl⟩) hxn
      · exact h
    rw [hsplit, List.pairwise_append] at hEsorted
    have := hEsorted.2.2 ey hey _ hxdrop
    rw [hsb ey (hTsub.subset hey)]
    simp only [sb, hgx]
    exact this
  · simp only [List.length_map, List.length_take, takeLen]
    rw [← hc, hElen.symm]
    cases s.cfg.effMax with
    | none =>
      simp only [cap]
      have : E.length ≤ (pqOfBuf s.buf).length := hEsub.length_le
      omega
    | some m => simp [cap]

/-- In every state some take is admissible (the one the reference loop computes), so the theorems
about accepted ticks are never vacuous. -/
theorem tick_always_admissible (s : St) (hwf : AList.NoDupKeys s.buf) :
    ∃ l left, (step s (.tick (takeExpiredRef s))).2 = .sent l left := by
  have hv := take_loop_refines_acceptor s hwf
  exact ⟨sentOf s (reasonOf s.cfg) (takeExpiredRef s), leftIds (removeIds s (takeExpiredRef s)),
    by simp only [step, tick, hv, if_true]⟩

/-- **decided at the next tick** — if the tick has room (`MaxExpiredTraces = 0`, or at least as large
as the number of expired traces), every buffered trace whose `SendBy` has passed is decided by it
and leaves the buffer. -/
theorem decided_at_next_tick (s : St) (hwf : AList.NoDupKeys s.buf) (taken : List Nat)
    (l : List Sent) (left : List Nat) (h : (step s (.tick taken)).2 = .sent l left)
    (hroom : match s.cfg.effMax with | none => True | some m => (expiredIds s).length ≤ m) :
    ∀ id tr, AList.get s.buf id = some tr → tr.sendBy ≤ s.now →
      id ∈ l.map (·.1) ∧ AList.get (step s (.tick taken)).1.buf id = none := by
  obtain ⟨⟨hnd, hsub, _, _, hlen⟩, hl, hs', _⟩ := tick_accepted h
  have hlen' : taken.length = (expiredIds s).length := by
    rw [hlen]; unfold takeLen
    cases hm : s.cfg.effMax with
    | none => rfl
    | some m => rw [hm] at hroom; simp only at hroom ⊢; omega
  have hall := subset_of_nodup_length (expiredIds_nodup hwf) hnd hsub hlen'
  intro id tr hg hle
  have hin : id ∈ taken := hall id ((mem_expiredIds hwf).mpr ⟨tr, hg, hle⟩)
  constructor
  · rw [hl, sentOf_ids _ taken (fun k hk => expiredIds_sub_keys s k (hsub k hk))]; exact hin
  · rw [hs']
    simp only [removeIds]
    rw [get_filter_key s.buf (fun k => decide (k ∉ taken)) id]
    simp [hin]


/-! ## reason_selection -/

/-- The full-strength statement: after any history and under any configuration, every trace a tick
decides is reported with the documented reason — 'got root' if a root span has arrived, else
'span limit' if its span count exceeds `SpanLimit`, else 'expired'. -/
def ReasonSelectionFull : Prop :=
  ∀ (c : Cfg) (ops : List Op) (taken : List Nat) (l : List Sent) (left : List Nat),
    (step (run c ops) (.tick taken)).2 = .sent l left →
    ∀ x ∈ l, ∃ a, (Spec.run c ops).arr x.1 = some a ∧ x.2.1 = documentedReason c a

theorem reasonOf_eq_documented (c : Cfg) (tr : Tr) (a : Arr)
    (hc : tr.count = a.count) (hr : tr.hasRoot = a.rootAt.isSome) :
    reasonOf c tr = documentedReason c a := by
  simp only [reasonOf, documentedReason, hc, hr]

/-- **reason_selection** — for every configuration (every `SpanLimit`, also beyond 2^32: the former
`uint32(SpanLimit)` truncation is repaired, regression case corpus/C03/span-limit-truncated.ops)
and after any history, every trace a tick decides is reported 'got root' iff a root span has
arrived, else 'span limit' iff its span count exceeds `SpanLimit`, else 'expired'. -/
theorem reason_selection : ReasonSelectionFull := by
  intro c ops taken l left h
  obtain ⟨_, hl, _, _⟩ := tick_accepted h
  have hcfg : (run c ops).cfg = c := (inv_run c ops).1
  intro x hx
  rw [hl] at hx
  obtain ⟨_, tr, hg, hxe⟩ := mem_sentOf hx
  obtain ⟨a, ha, _, _, hc, hr⟩ := deadline_formula c ops x.1 tr hg
  refine ⟨a, ha, ?_⟩
  rw [hxe, hcfg]
  exact reasonOf_eq_documented c tr a hc hr

/-- regression witness of the repaired defect: `SpanLimit = 2^32 + 1`, two child spans, timeout -/
def witnessCfg : Cfg := { traceTimeout := 1000, sendDelay := 50, spanLimit := 4294967297, maxExpired := 0 }
def witnessOps : List Op := [.span 1 false 1, .span 1 false 1, .adv 1000]
example : (step (run witnessCfg witnessOps) (.tick [1])).2 = .sent [(1, .expired, 2)] [] := by decide

/-- "Holds more spans than SpanLimit" counts every stored descendant — plain spans, span events and
span links alike: the kind of an arriving descendant changes neither the state (count, deadline)
nor any later decision or send reason. -/
theorem descendants_of_all_kinds_count (c : Cfg) (s : St) (sp : Spec) (id : Nat) (root : Bool)
    (size : Nat) (k k' : Kind) :
    step s (.span id root size k) = step s (.span id root size k') ∧
    Spec.step c sp (.span id root size k) = Spec.step c sp (.span id root size k') := ⟨rfl, rfl⟩

/-- Whatever the limit, 'got root' is reported exactly for the traces that hold a root span, and a
trace without root under `SpanLimit = 0` (no limit) is always 'expired'. -/
theorem reason_root_iff (c : Cfg) (tr : Tr) :
    (reasonOf c tr = .gotRoot ↔ tr.hasRoot = true) ∧
    (c.spanLimit = 0 → tr.hasRoot = false → reasonOf c tr = .expired) := by
  constructor
  · unfold reasonOf
    cases tr.hasRoot
    · simp only [Bool.false_eq_true, if_false, iff_false]
      split <;> simp
    · simp
  · intro h0 hr
    simp [reasonOf, hr, h0]

/-! ## non-vacuity: concrete histories evaluated by the kernel -/

def cfgZero : Cfg := { traceTimeout := 0, sendDelay := 0, spanLimit := 0, maxExpired := 0 }
def cfgSmall : Cfg := { traceTimeout := 1000, sendDelay := 50, spanLimit := 2, maxExpired := 1 }

-- all-zero configuration: 60 s after the first span; root at 5 ns lowers it to 5 ns + 2 s
example : (AList.get (run cfgZero [.span 7 false 10]).buf 7).map (·.sendBy) = some 60000000000 := by decide
example : (AList.get (run cfgZero [.span 7 false 10, .adv 5, .span 7 true 1]).buf 7).map (·.sendBy)
    = some 2000000005 := by decide
-- root after the timeout does not raise the deadline; span limit exceeded at 30 lowers it to 30
example : (AList.get (run cfgSmall [.span 1 false 1, .adv 990, .span 1 true 1]).buf 1).map (·.sendBy)
    = some 1000 := by decide
example : (AList.get (run cfgSmall [.span 1 false 1, .adv 30, .span 1 false 1, .span 1 false 1, .adv 5,
    .span 1 true 1]).buf 1).map (·.sendBy) = some 30 := by decide
-- a tick one ns before the deadline decides nothing, at the deadline it decides; max = 1 per tick
example : (step (run cfgSmall [.span 1 false 1, .adv 999]) (.tick [])).2 = .sent [] [1] := by decide
example : (step (run cfgSmall [.span 1 false 1, .adv 999]) (.tick [1])).2 = .reject := by decide
example : (step (run cfgSmall [.span 1 false 1, .span 2 true 1, .adv 1000]) (.tick [2])).2
    = .sent [(2, .gotRoot, 1)] [1] := by decide
example : (step (run cfgSmall [.span 1 false 1, .span 2 true 1, .adv 1000]) (.tick [1])).2 = .reject := by decide
example : (step (run cfgSmall [.span 1 false 1, .span 2 true 1, .adv 1000]) (.tick [2, 1])).2 = .reject := by decide
example : (step (run cfgSmall [.span 1 false 1, .span 1 false 1, .span 1 false 1]) (.tick [1])).2
    = .sent [(1, .spanLimit, 3)] [] := by decide

-- span events and links are descendants: 1 span + 1 span event + 1 link exceed SpanLimit = 2, the deadline
-- drops to the instant of the third arrival and the reason is 'span limit' (the limit counts all kinds)
example : (AList.get (run cfgSmall [.span 1 false 1, .adv 7, .span 1 false 1 .spanEvent, .adv 7,
    .span 1 false 1 .link]).buf 1).map (·.sendBy) = some 14 := by decide
example : (step (run cfgSmall [.span 1 false 1, .span 1 false 1 .spanEvent, .span 1 false 1 .link])
    (.tick [1])).2 = .sent [(1, .spanLimit, 3)] [] := by decide
-- backlog of 5 with MaxExpiredTraces = 2: gone after 3 ticks, whatever arrives in between
def cfgB : Cfg := { traceTimeout := 1000, sendDelay := 50, spanLimit := 0, maxExpired := 2 }
example : backlog (run cfgB [.span 1 false 1, .span 2 false 1, .span 3 false 1, .span 4 false 1, .span 5 false 1, .adv 1001]) 1000 = 5 := by decide
example : backlog (runFrom (run cfgB [.span 1 false 1, .span 2 false 1, .span 3 false 1, .span 4 false 1, .span 5 false 1, .adv 1001])
    [.tick [1, 2], .span 6 true 1, .tick [4, 3], .tick [5]]) 1000 = 0 := by decide
example : takeExpiredRef (run cfgB [.span 1 false 1, .adv 1, .span 2 false 1, .span 3 true 1, .adv 1001]) = [3, 1] := by decide

end Refinery.Props.C03
